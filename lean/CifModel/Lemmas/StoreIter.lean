import CifModel.Lemmas.StoreTx
import CifModel.Lemmas.StoreInv
/-
  Lemmas/StoreIter — the packet iterator: what `next` delivers, that `update`/`remove` do not disturb the iteration,
  transaction bookkeeping of the iterator calls (used by Props/C06).
-/
namespace CifModel.Store
open Gen.ErrCodes

/-- the result rows of GET_LOOP_VALUES_SQL cut into packets: maximal runs of equal row number -/
def groups : List ValueRow → List (List ValueRow)
  | [] => []
  | r :: rs =>
    ((r :: rs).takeWhile (fun x => x.rowNum == r.rowNum)) :: groups ((r :: rs).dropWhile (fun x => x.rowNum == r.rowNum))
termination_by l => l.length
decreasing_by
  simp only [List.dropWhile_cons, beq_self_eq_true, if_true, List.length_cons]
  have := (List.dropWhile_suffix (fun x : ValueRow => x.rowNum == r.rowNum) (l := rs)).length_le
  omega

/-- the packet `next` builds from one group: one entry per item name of the loop, the unknown value where the group has no row -/
def fill (names : List Str) (g : List ValueRow) : Option (List (Str × V)) := fillPacket (names.map (fun n => (n, V.unk))) g

/-- the iterator's pending rows can all be delivered (row names are items of the loop, one row per item and packet —
    what the schema's keys give for a freshly opened iterator), row numbers are positive (CHECK row_num > 0) and the
    `finished` flag says whether rows are pending -/
structure Iter.WF (it : Iter) : Prop where
  fills : ∀ g ∈ groups it.rows, (fill it.names g).isSome = true
  pos : ∀ r ∈ it.rows, 0 < r.rowNum
  fin : it.finished = it.rows.isEmpty

theorem fillPacket_keys : ∀ (g : List ValueRow) (p q : List (Str × V)), fillPacket p g = some q → q.map (·.1) = p.map (·.1)
  | [], p, q, h => by simp [fillPacket] at h; subst h; rfl
  | r :: rs, p, q, h => by
    unfold fillPacket at h
    split at h
    · have := fillPacket_keys rs _ q h
      rw [this, List.map_map]
      apply List.map_congr_left
      intro e _
      show (if e.1 == r.name then (e.1, r.val) else e).1 = e.1
      split <;> rfl
    · cases h

/-- every delivered packet has exactly one value for every item of the loop -/
theorem fill_keys (names : List Str) (g : List ValueRow) (q : List (Str × V)) (h : fill names g = some q) :
    q.map (·.1) = names := by
  have := fillPacket_keys g _ q h
  rw [this]
  clear this h
  induction names with
  | nil => rfl
  | cons n ns ih => simp only [List.map_cons, ih]

/-- entries for which the group has no row keep the unknown value -/
theorem fillPacket_untouched : ∀ (g : List ValueRow) (p q : List (Str × V)) (k : Str) (v : V), fillPacket p g = some q →
    (∀ r ∈ g, r.name ≠ k) → (k, v) ∈ p → (k, v) ∈ q
  | [], p, q, k, v, h, _, hm => by simp [fillPacket] at h; subst h; exact hm
  | r :: rs, p, q, k, v, h, hn, hm => by
    unfold fillPacket at h
    split at h
    · refine fillPacket_untouched rs _ q k v h (fun r' hr' => hn r' (List.mem_cons_of_mem _ hr')) ?_
      rw [List.mem_map]
      refine ⟨(k, v), hm, ?_⟩
      have : r.name ≠ k := hn r List.mem_cons_self
      have : ((k, v).1 == r.name) = false := by simp; exact fun h => this h.symm
      simp [this]
    · cases h

theorem nextPacket_spec (s : Store) (it : Iter) (hs : s.autocommit = false) (wf : it.WF) (hf : it.finished = false) :
    ∃ g gs p, groups it.rows = g :: gs ∧ fill it.names g = some p ∧ (nextPacket s it).2 = .ok p ∧
      groups (nextPacket s it).1.rows = gs ∧ (nextPacket s it).1.WF ∧ 0 < (nextPacket s it).1.prev ∧
      (nextPacket s it).1.names = it.names ∧ (nextPacket s it).1.cid = it.cid ∧ (nextPacket s it).1.loopNum = it.loopNum := by
  have hne : it.rows ≠ [] := by
    intro h0; have := wf.fin; rw [hf, h0] at this; simp at this
  obtain ⟨r, rs, hrows⟩ := List.exists_cons_of_ne_nil hne
  have hg : groups it.rows = ((r :: rs).takeWhile (fun x => x.rowNum == r.rowNum)) :: groups ((r :: rs).dropWhile (fun x => x.rowNum == r.rowNum)) := by
    rw [hrows, groups]
  have hfill := wf.fills _ (by rw [hg]; exact List.mem_cons_self)
  obtain ⟨p, hp⟩ := Option.isSome_iff_exists.mp hfill
  refine ⟨_, _, p, hg, hp, ?_⟩
  have hnext : nextPacket s it = ({ it with rows := (r :: rs).dropWhile (fun x => x.rowNum == r.rowNum)
                                            prev := (r.rowNum : Int)
                                            finished := ((r :: rs).dropWhile (fun x => x.rowNum == r.rowNum)).isEmpty }, .ok p) := by
    unfold nextPacket
    simp only [hf, hs, hrows, Bool.false_eq_true, if_false]
    unfold fill at hp
    rw [hp]
  rw [hnext]
  refine ⟨rfl, rfl, ?_, ?_, rfl, rfl, rfl⟩
  · constructor
    · intro g hgm
      apply wf.fills
      rw [hg]; exact List.mem_cons_of_mem _ hgm
    · intro x hx
      apply wf.pos
      rw [hrows]
      have hx' : x ∈ (r :: rs).dropWhile (fun x => x.rowNum == r.rowNum) := hx
      exact (List.dropWhile_suffix _).subset hx'
    · rfl
  · have := wf.pos r (by rw [hrows]; exact List.mem_cons_self)
    simp only []
    omega

theorem nextPacket_finished (s : Store) (it : Iter) (hf : it.finished = true) : nextPacket s it = (it, .error CIF_FINISHED) := by
  unfold nextPacket; simp [hf]

-- ---- update / remove keep the transaction and do not touch what is still to be delivered -------------------------------

theorem updatePacket_txn (s : Store) (it : Iter) (p : List (Str × V)) : (updatePacket s it p).1.txn = s.txn := by
  unfold updatePacket
  split
  · rfl
  · split
    · rfl
    · simp only []
      split <;> simp [Store.save, Store.release, Store.rollbackTo]

theorem removePacket_txn (s : Store) (it : Iter) : (removePacket s it).1.txn = s.txn := by
  unfold removePacket
  split
  · rfl
  · split
    · rfl
    · simp [Store.save, Store.release]

theorem removePacket_iter (s : Store) (it : Iter) :
    (removePacket s it).2.1.rows = it.rows ∧ (removePacket s it).2.1.finished = it.finished ∧
    (removePacket s it).2.1.names = it.names := by
  unfold removePacket
  split
  · exact ⟨rfl, rfl, rfl⟩
  · split <;> exact ⟨rfl, rfl, rfl⟩

theorem autocommit_of_txn (s : Store) (d : Db) (h : s.txn = some d) : s.autocommit = false := by
  simp [Store.autocommit, h]


-- ---- call sequences -----------------------------------------------------------------------------------------------------

inductive Call where
  | next
  | update (p : List (Str × V))
  | remove

def Call.isNext : Call → Bool
  | .next => true
  | _ => false

/-- any sequence of next / update / remove calls on an open iterator: final store, final iterator, packets delivered -/
def runCalls (s : Store) (it : Iter) : List Call → Store × Iter × List (List (Str × V))
  | [] => (s, it, [])
  | .next :: cs =>
    match (nextPacket s it).2 with
    | .ok p => let r := runCalls s (nextPacket s it).1 cs; (r.1, r.2.1, p :: r.2.2)
    | .error _ => runCalls s (nextPacket s it).1 cs
  | .update p :: cs => runCalls (updatePacket s it p).1 it cs
  | .remove :: cs => runCalls (removePacket s it).1 (removePacket s it).2.1 cs

theorem WF_of_eq {it it' : Iter} (wf : it.WF) (h1 : it'.rows = it.rows) (h2 : it'.finished = it.finished)
    (h3 : it'.names = it.names) : it'.WF :=
  ⟨by rw [h1, h3]; exact wf.fills, by rw [h1]; exact wf.pos, by rw [h1, h2]; exact wf.fin⟩

theorem runCalls_txn : ∀ (cs : List Call) (s : Store) (it : Iter), (runCalls s it cs).1.txn = s.txn
  | [], s, it => rfl
  | .next :: cs, s, it => by
    unfold runCalls
    split
    · exact runCalls_txn cs s _
    · exact runCalls_txn cs s _
  | .update p :: cs, s, it => by
    unfold runCalls
    rw [runCalls_txn cs, updatePacket_txn]
  | .remove :: cs, s, it => by
    unfold runCalls
    rw [runCalls_txn cs, removePacket_txn]

theorem runCalls_delivered : ∀ (cs : List Call) (s : Store) (it : Iter) (d : Db), s.txn = some d → it.WF →
    (runCalls s it cs).2.2 = ((groups it.rows).take (cs.countP Call.isNext)).filterMap (fill it.names)
  | [], s, it, d, _, _ => by simp [runCalls]
  | .next :: cs, s, it, d, ht, wf => by
    have hs := autocommit_of_txn s d ht
    unfold runCalls
    cases hf : it.finished with
    | true =>
      rw [nextPacket_finished s it hf]
      simp only []
      rw [runCalls_delivered cs s it d ht wf]
      have : it.rows = [] := by have := wf.fin; rw [hf] at this; simpa using this.symm
      simp [this, groups]
    | false =>
      obtain ⟨g, gs, p, hg, hp, hn, hgs, wf', _, hnames, _, _⟩ := nextPacket_spec s it hs wf hf
      rw [hn]
      simp only []
      rw [runCalls_delivered cs s _ d ht wf', hgs, hg, hnames]
      simp [List.countP_cons, Call.isNext, List.take_succ_cons, List.filterMap_cons, hp]
  | .update p :: cs, s, it, d, ht, wf => by
    unfold runCalls
    rw [runCalls_delivered cs _ it d (by rw [updatePacket_txn]; exact ht) wf]
    simp [List.countP_cons, Call.isNext]
  | .remove :: cs, s, it, d, ht, wf => by
    unfold runCalls
    obtain ⟨h1, h2, h3⟩ := removePacket_iter s it
    rw [runCalls_delivered cs _ _ d (by rw [removePacket_txn]; exact ht) (WF_of_eq wf h1 h2 h3), h1, h3]
    simp [List.countP_cons, Call.isNext]

-- ---- opening -----------------------------------------------------------------------------------------------------------

theorem getPackets_ok (s s2 : Store) (l : LH) (it : Iter) (ha : s.autocommit = true) (h : getPackets s l = (s2, .ok it)) :
    s2 = { s with txn := some s.db } ∧ it.rows = s.db.loopValues l.cid l.loopNum ∧ it.rows ≠ [] ∧ it.prev = -1 ∧
    it.finished = false ∧ it.cid = l.cid ∧ it.loopNum = l.loopNum := by
  have hn := (getNames_same s l).eq_of_autocommit ha
  unfold getPackets at h
  split at h
  · cases h
  · rename_i s1 names he
    rw [he] at hn; simp only [] at hn; subst hn
    split at h
    · cases h
    · rename_i s2' hb
      obtain ⟨_, hs2⟩ := begin_autocommit s1 s2' hb
      split at h
      · cases h
      · rename_i hrows
        cases h
        subst hs2
        refine ⟨rfl, rfl, ?_, rfl, rfl, rfl, rfl⟩
        intro h0; exact hrows h0

-- ---- update --------------------------------------------------------------------------------------------------------------

theorem replaceValue_items (d d' : Db) (cid : Nat) (k : Str) (row : Nat) (v : V) (h : d.replaceValue cid k row v = some d') :
    d'.items = d.items ∧ d'.loops = d.loops ∧ d'.containers = d.containers ∧ d'.blocks = d.blocks ∧ d'.frames = d.frames ∧
    d'.nextId = d.nextId ∧
    d'.values = d.values.filter (fun w => !(w.cid == cid && w.name == k && w.rowNum == row)) ++ [{ cid := cid, name := k, rowNum := row, val := v }] := by
  unfold Db.replaceValue at h
  split at h
  · cases h
  · split at h
    · cases h
    · cases h; exact ⟨rfl, rfl, rfl, rfl, rfl, rfl, rfl⟩

theorem updateValues_ok : ∀ (p : List (Str × V)) (d : Db) (it : Iter), 0 < it.prev → (∀ k ∈ it.names, d.hasItem it.cid k = true) →
    (∀ e ∈ p, it.names.contains e.1 = true) → ∃ d', updateValues d it p = .ok d'
  | [], d, it, _, _, _ => ⟨d, rfl⟩
  | (k, v) :: es, d, it, hp, hi, hk => by
    unfold updateValues
    have hc : it.names.contains k = true := hk (k, v) List.mem_cons_self
    simp only [hc, if_true]
    have hmem : k ∈ it.names := by simpa using hc
    have hrow : (it.prev.toNat == 0) = false := by
      have : it.prev.toNat ≠ 0 := by omega
      simpa using this
    have : d.replaceValue it.cid k it.prev.toNat v = some { d with values := d.values.filter (fun w => !(w.cid == it.cid && w.name == k && w.rowNum == it.prev.toNat)) ++ [{ cid := it.cid, name := k, rowNum := it.prev.toNat, val := v }] } := by
      unfold Db.replaceValue
      simp [hrow, hi k hmem]
    rw [this]
    simp only []
    exact updateValues_ok es _ it hp (fun k' hk' => by simpa [Db.hasItem] using hi k' hk') (fun e he => hk e (List.mem_cons_of_mem _ he))

theorem updateValues_wrong : ∀ (p : List (Str × V)) (d : Db) (it : Iter), 0 < it.prev → (∀ k ∈ it.names, d.hasItem it.cid k = true) →
    (∃ e ∈ p, it.names.contains e.1 = false) → updateValues d it p = .error CIF_WRONG_LOOP
  | [], d, it, _, _, h => by obtain ⟨e, he, _⟩ := h; cases he
  | (k, v) :: es, d, it, hp, hi, h => by
    unfold updateValues
    cases hc : it.names.contains k with
    | false => simp
    | true =>
      simp only [if_true]
      have hmem : k ∈ it.names := by simpa using hc
      have hrow : (it.prev.toNat == 0) = false := by
        have : it.prev.toNat ≠ 0 := by omega
        simpa using this
      have : d.replaceValue it.cid k it.prev.toNat v = some { d with values := d.values.filter (fun w => !(w.cid == it.cid && w.name == k && w.rowNum == it.prev.toNat)) ++ [{ cid := it.cid, name := k, rowNum := it.prev.toNat, val := v }] } := by
        unfold Db.replaceValue
        simp [hrow, hi k hmem]
      rw [this]
      simp only []
      apply updateValues_wrong es _ it hp (fun k' hk' => by simpa [Db.hasItem] using hi k' hk')
      obtain ⟨e, he, hne⟩ := h
      rcases List.mem_cons.mp he with rfl | he'
      · simp at hne; exact absurd hmem hne
      · exact ⟨e, he', hne⟩

/-- what an update may touch: only values of the current row of the iterator's container whose name is in the packet -/
theorem updateValues_only : ∀ (p : List (Str × V)) (d d' : Db) (it : Iter), updateValues d it p = .ok d' →
    d'.items = d.items ∧ d'.loops = d.loops ∧ d'.containers = d.containers ∧ d'.blocks = d.blocks ∧ d'.frames = d.frames ∧
    (∀ w, ¬(w.cid = it.cid ∧ w.rowNum = it.prev.toNat ∧ w.name ∈ p.map (·.1)) → (w ∈ d'.values ↔ w ∈ d.values))
  | [], d, d', it, h => by
    simp [updateValues] at h; subst h
    exact ⟨rfl, rfl, rfl, rfl, rfl, fun _ _ => Iff.rfl⟩
  | (k, v) :: es, d, d', it, h => by
    unfold updateValues at h
    split at h
    · split at h
      · cases h
      · rename_i d1 hr
        obtain ⟨i1, l1, c1, b1, f1, _, v1⟩ := replaceValue_items d d1 _ _ _ _ hr
        obtain ⟨i2, l2, c2, b2, f2, v2⟩ := updateValues_only es d1 d' it h
        refine ⟨by rw [i2, i1], by rw [l2, l1], by rw [c2, c1], by rw [b2, b1], by rw [f2, f1], ?_⟩
        intro w hw
        have hw2 : ¬(w.cid = it.cid ∧ w.rowNum = it.prev.toNat ∧ w.name ∈ es.map (·.1)) := by
          intro ⟨a, b, c⟩; exact hw ⟨a, b, List.mem_cons_of_mem _ c⟩
        rw [v2 w hw2, v1]
        have hw1 : ¬(w.cid = it.cid ∧ w.name = k ∧ w.rowNum = it.prev.toNat) := by
          intro ⟨a, b, c⟩; exact hw ⟨a, c, by simp [b]⟩
        constructor
        · intro hm
          rcases List.mem_append.mp hm with hm | hm
          · exact (List.mem_filter.mp hm).1
          · simp at hm; subst hm; exact absurd ⟨rfl, rfl, rfl⟩ hw1
        · intro hm
          apply List.mem_append_left
          rw [List.mem_filter]
          refine ⟨hm, ?_⟩
          cases hb : (w.cid == it.cid && w.name == k && w.rowNum == it.prev.toNat) with
          | false => rfl
          | true =>
            simp at hb
            exact absurd ⟨hb.1.1, hb.1.2, hb.2⟩ hw1
    · cases h


-- ---- a freshly opened iterator is well formed ------------------------------------------------------------------------------------

theorem mem_insertByRow (x y : ValueRow) : ∀ l : List ValueRow, y ∈ Db.insertByRow x l → y = x ∨ y ∈ l
  | [], h => by simp [Db.insertByRow] at h; exact Or.inl h
  | z :: zs, h => by
    unfold Db.insertByRow at h
    split at h
    · rcases List.mem_cons.mp h with h | h
      · exact Or.inl h
      · exact Or.inr h
    · rcases List.mem_cons.mp h with h | h
      · exact Or.inr (by rw [h]; exact List.mem_cons_self)
      · rcases mem_insertByRow x y zs h with h | h
        · exact Or.inl h
        · exact Or.inr (List.mem_cons_of_mem _ h)

theorem insertByRow_pairwise {R : ValueRow → ValueRow → Prop} (hsym : ∀ a b, R a b → R b a) (x : ValueRow) :
    ∀ l : List ValueRow, (∀ y ∈ l, R x y) → l.Pairwise R → (Db.insertByRow x l).Pairwise R
  | [], _, _ => by simp [Db.insertByRow]
  | z :: zs, hx, hp => by
    unfold Db.insertByRow
    split
    · exact List.pairwise_cons.mpr ⟨hx, hp⟩
    · rw [List.pairwise_cons] at hp ⊢
      refine ⟨?_, insertByRow_pairwise hsym x zs (fun y hy => hx y (List.mem_cons_of_mem _ hy)) hp.2⟩
      intro b hb
      rcases mem_insertByRow x b zs hb with rfl | hb
      · exact hsym _ _ (hx z List.mem_cons_self)
      · exact hp.1 b hb

theorem sortByRow_spec {R : ValueRow → ValueRow → Prop} (hsym : ∀ a b, R a b → R b a) :
    ∀ l : List ValueRow, l.Pairwise R → (l.foldr Db.insertByRow []).Pairwise R ∧ ∀ y ∈ l.foldr Db.insertByRow [], y ∈ l
  | [], _ => ⟨List.Pairwise.nil, fun _ h => h⟩
  | x :: xs, hp => by
    rw [List.pairwise_cons] at hp
    obtain ⟨ih1, ih2⟩ := sortByRow_spec hsym xs hp.2
    simp only [List.foldr_cons]
    refine ⟨insertByRow_pairwise hsym x _ (fun y hy => hp.1 y (ih2 y hy)) ih1, ?_⟩
    intro y hy
    rcases mem_insertByRow x y _ hy with rfl | hy
    · exact List.mem_cons_self
    · exact List.mem_cons_of_mem _ (ih2 y hy)

theorem mem_takeWhile_pred {α} (p : α → Bool) : ∀ (l : List α) (a : α), a ∈ l.takeWhile p → p a = true
  | [], a, h => by simp at h
  | x :: xs, a, h => by
    rw [List.takeWhile_cons] at h
    split at h
    · rename_i hx
      rcases List.mem_cons.mp h with rfl | h
      · exact hx
      · exact mem_takeWhile_pred p xs a h
    · simp at h

theorem groups_sub : ∀ (l : List ValueRow) (g : List ValueRow), g ∈ groups l →
    g.Sublist l ∧ ∀ a ∈ g, ∀ b ∈ g, a.rowNum = b.rowNum
  | [], g, h => by simp [groups] at h
  | r :: rs, g, h => by
    rw [groups] at h
    rcases List.mem_cons.mp h with rfl | h
    · refine ⟨List.takeWhile_sublist _, ?_⟩
      intro a ha b hb
      have h1 := mem_takeWhile_pred _ _ _ ha
      have h2 := mem_takeWhile_pred _ _ _ hb
      simp at h1 h2
      rw [h1, h2]
    · have ih := groups_sub ((r :: rs).dropWhile (fun x => x.rowNum == r.rowNum)) g h
      exact ⟨ih.1.trans (List.dropWhile_sublist _), ih.2⟩
termination_by l => l.length
decreasing_by
  simp only [List.dropWhile_cons, beq_self_eq_true, if_true, List.length_cons]
  have := (List.dropWhile_suffix (fun x : ValueRow => x.rowNum == r.rowNum) (l := rs)).length_le
  omega

theorem fillPacket_isSome : ∀ (g : List ValueRow) (p : List (Str × V)), (∀ r ∈ g, (r.name, V.unk) ∈ p) →
    g.Pairwise (fun a b => a.name ≠ b.name) → (fillPacket p g).isSome = true
  | [], p, _, _ => by simp [fillPacket]
  | r :: rs, p, hm, hp => by
    unfold fillPacket
    rw [List.pairwise_cons] at hp
    have hany : p.any (fun e => e.1 == r.name && e.2.kindCode == 5) = true := by
      rw [List.any_eq_true]
      exact ⟨(r.name, V.unk), hm r List.mem_cons_self, by simp [V.kindCode]⟩
    simp only [hany, if_true]
    apply fillPacket_isSome rs _ _ hp.2
    intro r' hr'
    rw [List.mem_map]
    refine ⟨(r'.name, V.unk), hm r' (List.mem_cons_of_mem _ hr'), ?_⟩
    have : r.name ≠ r'.name := hp.1 r' hr'
    have : ((r'.name, V.unk).1 == r.name) = false := by simp; exact fun h => this h.symm
    simp [this]

/-- what cif_loop_get_packets hands out satisfies `Iter.WF` in every state that satisfies the store invariant — so the
    hypothesis of the C06 theorems holds for every iterator opened in a reachable state -/
theorem getPackets_wf (s s2 : Store) (l : LH) (it : Iter) (hinv : Inv s.db) (h : getPackets s l = (s2, .ok it)) : it.WF := by
  unfold getPackets at h
  have hsame := getNames_same s l
  split at h
  · cases h
  · rename_i s1 names he
    rw [he] at hsame
    have hdb : s1.db = s.db := hsame.1
    have hnames : names = (s.db.loopItems l.cid l.loopNum).map (fun i => (i.name, i.nameOrig)) := by
      have : (getNames s l).2 = .ok names := by rw [he]
      simp only [getNames, Store.nestRO] at this
      have hb : s.beginNest.1.db = s.db := by unfold Store.beginNest; split <;> rfl
      rw [hb] at this
      split at this
      · cases this
      · simp only [Except.ok.injEq] at this; exact this.symm
    split at h
    · cases h
    · rename_i s2' hbeg
      obtain ⟨_, hs2⟩ := begin_autocommit s1 s2' hbeg
      have hdb2 : s2'.db = s.db := by rw [hs2]; exact hdb
      split at h
      · cases h
      · rename_i hrows
        simp only [Prod.mk.injEq, Except.ok.injEq] at h
        obtain ⟨_, hit⟩ := h
        subst hit
        rw [hdb2] at hrows ⊢
        have hsym : ∀ a b : ValueRow, ValueKeyNe a b → ValueKeyNe b a := fun a b hab ⟨h1, h2, h3⟩ => hab ⟨h1.symm, h2.symm, h3.symm⟩
        obtain ⟨hpw, hmem⟩ := sortByRow_spec hsym _ (hinv.valuePK.filter (fun v => v.cid == l.cid && (s.db.loopItems l.cid l.loopNum).any (fun i => i.name == v.name)))
        refine ⟨?_, ?_, ?_⟩
        · intro g hg
          obtain ⟨hsub, hrow⟩ := groups_sub _ g hg
          unfold fill
          apply fillPacket_isSome
          · intro r hr
            have hr' := hmem r (hsub.subset hr)
            obtain ⟨_, hk⟩ := List.mem_filter.mp hr'
            simp only [Bool.and_eq_true, List.any_eq_true] at hk
            obtain ⟨_, i, hi, hik⟩ := hk
            have hin : i.name = r.name := by simpa using hik
            rw [hnames]
            simp only [List.map_map, List.mem_map]
            exact ⟨i, hi, by simp [Function.comp, hin]⟩
          · have hpg := hpw.sublist hsub
            refine hpg.imp_of_mem ?_
            intro a b ha hb hab hname
            have ha' := (List.mem_filter.mp (hmem a (hsub.subset ha))).2
            have hb' := (List.mem_filter.mp (hmem b (hsub.subset hb))).2
            simp only [Bool.and_eq_true] at ha' hb'
            have hca : a.cid = l.cid := by simpa using ha'.1
            have hcb : b.cid = l.cid := by simpa using hb'.1
            exact hab ⟨by rw [hca, hcb], hname, hrow a ha b hb⟩
        · intro r hr
          exact hinv.rowPos r (List.mem_filter.mp (hmem r hr)).1
        · show false = (s.db.loopValues l.cid l.loopNum).isEmpty
          cases hl : s.db.loopValues l.cid l.loopNum with
          | nil => exact absurd hl hrows
          | cons a as => rfl


theorem getPackets_names (s s2 : Store) (l : LH) (it : Iter) (h : getPackets s l = (s2, .ok it)) :
    it.names = (s.db.loopItems l.cid l.loopNum).map (·.name) ∧ it.cid = l.cid ∧ it.loopNum = l.loopNum := by
  unfold getPackets at h
  split at h
  · cases h
  · rename_i s1 names he
    have hnames : names = (s.db.loopItems l.cid l.loopNum).map (fun i => (i.name, i.nameOrig)) := by
      have : (getNames s l).2 = .ok names := by rw [he]
      simp only [getNames, Store.nestRO] at this
      have hb : s.beginNest.1.db = s.db := by unfold Store.beginNest; split <;> rfl
      rw [hb] at this
      split at this
      · cases this
      · simp only [Except.ok.injEq] at this; exact this.symm
    split at h
    · cases h
    · split at h
      · cases h
      · simp only [Prod.mk.injEq, Except.ok.injEq] at h
        obtain ⟨_, hit⟩ := h
        subst hit
        refine ⟨?_, rfl, rfl⟩
        simp only [hnames, List.map_map]
        rfl

/-- the items named by a fresh iterator exist (the hypothesis of `C06_state_machine`) -/
theorem getPackets_items (s s2 : Store) (l : LH) (it : Iter) (h : getPackets s l = (s2, .ok it)) :
    ∀ k ∈ it.names, s.db.hasItem it.cid k = true := by
  obtain ⟨hn, hc, _⟩ := getPackets_names s s2 l it h
  intro k hk
  rw [hn] at hk
  obtain ⟨i, hi, rfl⟩ := List.mem_map.mp hk
  obtain ⟨him, hkey⟩ := List.mem_filter.mp hi
  simp at hkey
  rw [hc]
  exact (hasItem_iff s.db _ _).mpr ⟨i, him, hkey.1, rfl⟩

end CifModel.Store
