import CifModel.Lemmas.StoreSim
import CifModel.Lemmas.StoreWorld
/-
  Lemmas/StoreWSim — histories cannot tell apart worlds whose CIFs differ only in left-over savepoints (`Sim`).
  (generated case analysis over the 34 ops; see /tmp-free source in notes: the cases are instances of four templates)
-/
namespace CifModel.Store
open Gen.ErrCodes World

structure WSim (w w' : World) : Prop where
  chs : w'.chs = w.chs
  lhs : w'.lhs = w.lhs
  its : w'.its = w.its
  len : w'.cifs.length = w.cifs.length
  cifs : ∀ c, SlotRel Sim (w.cifs.getD c none) (w'.cifs.getD c none)

theorem WSim.refl (w : World) : WSim w w := ⟨rfl, rfl, rfl, rfl, fun _ => SlotRel.refl Sim.refl _⟩

theorem cong_sim {α} {f : Store → R α} (hf : Cong f) {s s' : Store} (h : Sim s s') : (f s').2 = (f s).2 ∧ Sim (f s).1 (f s').1 := by
  rcases h with rfl | h
  · exact ⟨rfl, Or.inl rfl⟩
  · exact hf s s' h

theorem WSim.liveC_some {w w' : World} (h : WSim w w') {c : Nat} {s : Store} (hl : w.liveC c = some s) :
    ∃ s', w'.liveC c = some s' ∧ Sim s s' := by
  have := h.cifs c
  unfold liveC at hl ⊢
  rw [hl] at this
  cases h2 : w'.cifs.getD c none with
  | none => rw [h2] at this; exact absurd this (by simp [SlotRel])
  | some s' => rw [h2] at this; exact ⟨s', rfl, this⟩

theorem WSim.liveC_none {w w' : World} (h : WSim w w') {c : Nat} (hl : w.liveC c = none) : w'.liveC c = none := by
  have := h.cifs c
  unfold liveC at hl ⊢
  rw [hl] at this
  cases h2 : w'.cifs.getD c none with
  | none => rfl
  | some s' => rw [h2] at this; exact absurd this (by simp [SlotRel])

theorem WSim.liveH_some {w w' : World} (h : WSim w w') {hh : Nat} {e : CHE} {s : Store} (hl : w.liveH hh = some (e, s)) :
    ∃ s', w'.liveH hh = some (e, s') ∧ Sim s s' := by
  unfold liveH at hl ⊢
  rw [h.chs]
  cases he : w.chs.getD hh none with
  | none => rw [he] at hl; cases hl
  | some e' =>
    simp only [he] at hl ⊢
    cases hc : w.liveC e'.cif with
    | none => simp [hc] at hl
    | some s0 =>
      simp [hc] at hl
      obtain ⟨rfl, rfl⟩ := hl
      obtain ⟨s', hs', hsim⟩ := h.liveC_some hc
      exact ⟨s', by simp [hs'], hsim⟩

theorem WSim.liveH_none {w w' : World} (h : WSim w w') {hh : Nat} (hl : w.liveH hh = none) : w'.liveH hh = none := by
  unfold liveH at hl ⊢
  rw [h.chs]
  cases he : w.chs.getD hh none with
  | none => rfl
  | some e' =>
    simp only [he] at hl ⊢
    cases hc : w.liveC e'.cif with
    | none => simp [h.liveC_none hc]
    | some s0 => simp [hc] at hl

theorem WSim.liveL_some {w w' : World} (h : WSim w w') {l : Nat} {e : LHE} {s : Store} (hl : w.liveL l = some (e, s)) :
    ∃ s', w'.liveL l = some (e, s') ∧ Sim s s' := by
  unfold liveL at hl ⊢
  rw [h.lhs]
  cases he : w.lhs.getD l none with
  | none => rw [he] at hl; cases hl
  | some e' =>
    simp only [he] at hl ⊢
    cases hh : w.liveH e'.ch with
    | none => simp [hh] at hl
    | some p =>
      obtain ⟨ce, s0⟩ := p
      obtain ⟨s0', hh', _⟩ := h.liveH_some hh
      simp only [hh] at hl
      simp only [hh']
      cases hc : w.liveC e'.cif with
      | none => simp [hc] at hl
      | some s1 =>
        simp [hc] at hl
        obtain ⟨rfl, rfl⟩ := hl
        obtain ⟨s', hs', hsim⟩ := h.liveC_some hc
        exact ⟨s', by simp [hs'], hsim⟩

theorem WSim.liveL_none {w w' : World} (h : WSim w w') {l : Nat} (hl : w.liveL l = none) : w'.liveL l = none := by
  unfold liveL at hl ⊢
  rw [h.lhs]
  cases he : w.lhs.getD l none with
  | none => rfl
  | some e' =>
    simp only [he] at hl ⊢
    cases hh : w.liveH e'.ch with
    | none => simp [h.liveH_none hh]
    | some p =>
      obtain ⟨ce, s0⟩ := p
      obtain ⟨s0', hh', _⟩ := h.liveH_some hh
      simp only [hh] at hl
      simp only [hh']
      cases hc : w.liveC e'.cif with
      | none => simp [h.liveC_none hc]
      | some s1 => simp [hc] at hl

theorem WSim.liveI_some {w w' : World} (h : WSim w w') {i : Nat} {e : ITE} {s : Store} (hl : w.liveI i = some (e, s)) :
    ∃ s', w'.liveI i = some (e, s') ∧ Sim s s' := by
  unfold liveI at hl ⊢
  rw [h.its]
  cases he : w.its.getD i none with
  | none => rw [he] at hl; cases hl
  | some e' =>
    simp only [he] at hl ⊢
    cases hh : w.liveL e'.lh with
    | none => simp [hh] at hl
    | some p =>
      obtain ⟨ce, s0⟩ := p
      obtain ⟨s0', hh', _⟩ := h.liveL_some hh
      simp only [hh] at hl
      simp only [hh']
      cases hc : w.liveC e'.cif with
      | none => simp [hc] at hl
      | some s1 =>
        simp [hc] at hl
        obtain ⟨rfl, rfl⟩ := hl
        obtain ⟨s', hs', hsim⟩ := h.liveC_some hc
        exact ⟨s', by simp [hs'], hsim⟩

theorem WSim.liveI_none {w w' : World} (h : WSim w w') {i : Nat} (hl : w.liveI i = none) : w'.liveI i = none := by
  unfold liveI at hl ⊢
  rw [h.its]
  cases he : w.its.getD i none with
  | none => rfl
  | some e' =>
    simp only [he] at hl ⊢
    cases hh : w.liveL e'.lh with
    | none => simp [h.liveL_none hh]
    | some p =>
      obtain ⟨ce, s0⟩ := p
      obtain ⟨s0', hh', _⟩ := h.liveL_some hh
      simp only [hh] at hl
      simp only [hh']
      cases hc : w.liveC e'.cif with
      | none => simp [h.liveC_none hc]
      | some s1 => simp [hc] at hl

theorem getD_set_general (l : List (Option Store)) (c c' : Nat) (x : Option Store) :
    (l.set c x).getD c' none = if c' = c ∧ c < l.length then x else l.getD c' none := by
  by_cases hc : c' = c
  · subst hc
    by_cases hl : c' < l.length
    · simp [List.getD, hl]
    · have : l.set c' x = l := List.set_eq_of_length_le (by omega)
      simp [this, hl]
  · simp [List.getD, hc, List.getElem?_set_ne (Ne.symm hc)]

/-- same store replacement and same handle tables on both sides -/
theorem WSim.tables {w w' : World} (h : WSim w w') (c : Nat) {s1 s1' : Store} (hs : Sim s1 s1')
    (chs : List (Option CHE)) (lhs : List (Option LHE)) (its : List (Option ITE)) :
    WSim { cifs := (w.setCif c s1).cifs, chs := chs, lhs := lhs, its := its }
         { cifs := (w'.setCif c s1').cifs, chs := chs, lhs := lhs, its := its } := by
  refine ⟨rfl, rfl, rfl, by simp [setCif, h.len], ?_⟩
  intro c'
  simp only [setCif, getD_set_general, h.len]
  split
  · exact hs
  · exact h.cifs c'

theorem WSim.tabs {w w' : World} (h : WSim w w') (chs : List (Option CHE)) (lhs : List (Option LHE)) (its : List (Option ITE)) :
    WSim { cifs := w.cifs, chs := chs, lhs := lhs, its := its } { cifs := w'.cifs, chs := chs, lhs := lhs, its := its } :=
  ⟨rfl, rfl, rfl, h.len, h.cifs⟩

theorem itOnCh_eq {w w' : World} (h : WSim w w') (hh : Nat) : w'.itOnCh hh = w.itOnCh hh := by
  simp only [itOnCh, h.its, h.lhs]
theorem itOnLh_eq {w w' : World} (h : WSim w w') (l : Nat) : w'.itOnLh l = w.itOnLh l := by
  simp only [itOnLh, h.its]

/-- the caller's get_names on each loop handle returned by get_all_loops -/
def namesFold (ls : List LH) (acc : Store × List (Option Str × Option (List Str))) : Store × List (Option Str × Option (List Str)) :=
  ls.foldl (fun (acc : Store × List (Option Str × Option (List Str))) l =>
    match getNames acc.1 l with
    | (s', .ok ns) => (s', acc.2 ++ [(l.category, some (ns.map (·.2)))])
    | (s', .error _) => (s', acc.2 ++ [(l.category, none)])) acc

theorem namesFold_sim : ∀ (ls : List LH) (a a' : Store × List (Option Str × Option (List Str))), Sim a.1 a'.1 → a'.2 = a.2 →
    (namesFold ls a').2 = (namesFold ls a).2 ∧ Sim (namesFold ls a).1 (namesFold ls a').1
  | [], a, a', h1, h2 => ⟨h2, h1⟩
  | l :: ls, a, a', h1, h2 => by
    simp only [namesFold, List.foldl_cons]
    apply namesFold_sim ls
    · have hc := cong_sim (getNames_cong l) h1
      generalize getNames a.1 l = r at hc ⊢
      generalize getNames a'.1 l = r' at hc ⊢
      obtain ⟨s1, e1⟩ := r
      obtain ⟨s1', e1'⟩ := r'
      obtain ⟨he, hs⟩ := hc
      simp only [] at he; subst he
      cases e1' <;> exact hs
    · have hc := cong_sim (getNames_cong l) h1
      generalize getNames a.1 l = r at hc ⊢
      generalize getNames a'.1 l = r' at hc ⊢
      obtain ⟨s1, e1⟩ := r
      obtain ⟨s1', e1'⟩ := r'
      obtain ⟨he, hs⟩ := hc
      simp only [] at he; subst he
      cases e1' <;> simp [h2]


theorem nextPacket_sim (it : Iter) {s s' : Store} (h : Sim s s') : nextPacket s' it = nextPacket s it := by
  rcases h with rfl | h
  · rfl
  · exact nextPacket_cong it h

theorem removePacket_sim (it : Iter) {s s' : Store} (h : Sim s s') :
    (removePacket s' it).2 = (removePacket s it).2 ∧ Sim (removePacket s it).1 (removePacket s' it).1 := by
  rcases h with rfl | h
  · exact ⟨rfl, Or.inl rfl⟩
  · exact removePacket_cong it h

theorem setCategory_sim (l : LH) (cat : Option Str) {s s' : Store} (h : Sim s s') :
    (setCategory s' l cat).2 = (setCategory s l cat).2 ∧ Sim (setCategory s l cat).1 (setCategory s' l cat).1 := by
  rcases h with rfl | h
  · exact ⟨rfl, Or.inl rfl⟩
  · exact setCategory_cong l cat h

theorem WSim.append {w w' : World} (h : WSim w w') (x : Option Store) (chs : List (Option CHE)) (lhs : List (Option LHE)) (its : List (Option ITE)) :
    WSim { cifs := w.cifs ++ [x], chs := chs, lhs := lhs, its := its } { cifs := w'.cifs ++ [x], chs := chs, lhs := lhs, its := its } := by
  refine ⟨rfl, rfl, rfl, by simp [h.len], ?_⟩
  intro c
  simp only [List.getD]
  by_cases hc : c < w.cifs.length
  · have hc' : c < w'.cifs.length := by rw [h.len]; exact hc
    rw [List.getElem?_append_left hc, List.getElem?_append_left hc']
    exact h.cifs c
  · have hge : w.cifs.length ≤ c := by omega
    have hge' : w'.cifs.length ≤ c := by rw [h.len]; exact hge
    rw [List.getElem?_append_right hge, List.getElem?_append_right hge', h.len]
    exact SlotRel.refl Sim.refl _

theorem WSim.setNone {w w' : World} (h : WSim w w') (c : Nat) (chs : List (Option CHE)) (lhs : List (Option LHE)) (its : List (Option ITE)) :
    WSim { cifs := w.cifs.set c none, chs := chs, lhs := lhs, its := its } { cifs := w'.cifs.set c none, chs := chs, lhs := lhs, its := its } := by
  refine ⟨rfl, rfl, rfl, by simp [h.len], ?_⟩
  intro c'
  simp only [getD_set_general, h.len]
  split
  · trivial
  · exact h.cifs c'

/-- one op cannot tell the two worlds apart -/
theorem step_wsim (w w' : World) (hw : WSim w w') (op : Op) :
    (step w' op).2 = (step w op).2 ∧ WSim (step w op).1 (step w' op).1 := by
  cases w' with | mk cifs' chs' lhs' its' =>
  obtain ⟨h1, h2, h3, h4, h5⟩ := hw
  simp only [] at h1 h2 h3
  subst h1 h2 h3
  have hw : WSim w ⟨cifs', w.chs, w.lhs, w.its⟩ := ⟨rfl, rfl, rfl, h4, h5⟩
  cases op with
  | cifNew => exact ⟨rfl, hw.append _ _ _ _⟩
  | cifDel c =>
    simp only [step]
    cases hl : w.liveC c with
    | none => rw [hw.liveC_none hl]; exact ⟨rfl, hw.tabs _ _ _⟩
    | some s =>
      obtain ⟨s', hl', hs⟩ := hw.liveC_some hl
      rw [hl']
      exact ⟨rfl, hw.setNone c _ _ _⟩
  | mkBlock c n len =>
    simp only [step]
    cases hl : w.liveC c with
    | none => rw [hw.liveC_none hl]; exact ⟨rfl, hw.tabs _ _ _⟩
    | some s =>
      obtain ⟨s', hl', hs⟩ := hw.liveC_some hl
      rw [hl']
      try simp only []
      have hc := cong_sim (createBlock_cong n len) hs
      try simp only [] at hc
      generalize (createBlock s n len) = r at hc ⊢
      generalize (createBlock s' n len) = r' at hc ⊢
      obtain ⟨s1, e1⟩ := r
      obtain ⟨s1', e1'⟩ := r'
      obtain ⟨he, hs1⟩ := hc
      try simp only [] at he; subst he
      exact ⟨rfl, hw.tables _ hs1 _ _ _⟩
  | getBlock c n =>
    simp only [step]
    cases hl : w.liveC c with
    | none => rw [hw.liveC_none hl]; exact ⟨rfl, hw.tabs _ _ _⟩
    | some s =>
      obtain ⟨s', hl', hs⟩ := hw.liveC_some hl
      rw [hl']
      try simp only []
      have hc := cong_sim (getBlock_cong n) hs
      try simp only [] at hc
      generalize (getBlock s n) = r at hc ⊢
      generalize (getBlock s' n) = r' at hc ⊢
      obtain ⟨s1, e1⟩ := r
      obtain ⟨s1', e1'⟩ := r'
      obtain ⟨he, hs1⟩ := hc
      try simp only [] at he; subst he
      exact ⟨rfl, hw.tables _ hs1 _ _ _⟩
  | blocks c =>
    simp only [step]
    cases hl : w.liveC c with
    | none => rw [hw.liveC_none hl]; exact ⟨rfl, hw.tabs _ _ _⟩
    | some s =>
      obtain ⟨s', hl', hs⟩ := hw.liveC_some hl
      rw [hl']
      try simp only []
      have hc := cong_sim (allBlocks_cong) hs
      try simp only [] at hc
      generalize (allBlocks s) = r at hc ⊢
      generalize (allBlocks s') = r' at hc ⊢
      obtain ⟨s1, e1⟩ := r
      obtain ⟨s1', e1'⟩ := r'
      obtain ⟨he, hs1⟩ := hc
      try simp only [] at he; subst he
      exact ⟨rfl, hw.tables _ hs1 _ _ _⟩
  | mkFrame hh n len =>
    simp only [step]
    cases hl : w.liveH hh with
    | none => rw [hw.liveH_none hl]; exact ⟨rfl, hw.tabs _ _ _⟩
    | some p =>
      obtain ⟨e, s⟩ := p
      obtain ⟨s', hl', hs⟩ := hw.liveH_some hl
      rw [hl']
      try simp only []
      have hc := cong_sim (createFrame_cong e.h n len) hs
      try simp only [] at hc
      generalize (createFrame s e.h n len) = r at hc ⊢
      generalize (createFrame s' e.h n len) = r' at hc ⊢
      obtain ⟨s1, e1⟩ := r
      obtain ⟨s1', e1'⟩ := r'
      obtain ⟨he, hs1⟩ := hc
      try simp only [] at he; subst he
      exact ⟨rfl, hw.tables _ hs1 _ _ _⟩
  | getFrame hh n =>
    simp only [step]
    cases hl : w.liveH hh with
    | none => rw [hw.liveH_none hl]; exact ⟨rfl, hw.tabs _ _ _⟩
    | some p =>
      obtain ⟨e, s⟩ := p
      obtain ⟨s', hl', hs⟩ := hw.liveH_some hl
      rw [hl']
      try simp only []
      have hc := cong_sim (getFrame_cong e.h n) hs
      try simp only [] at hc
      generalize (getFrame s e.h n) = r at hc ⊢
      generalize (getFrame s' e.h n) = r' at hc ⊢
      obtain ⟨s1, e1⟩ := r
      obtain ⟨s1', e1'⟩ := r'
      obtain ⟨he, hs1⟩ := hc
      try simp only [] at he; subst he
      exact ⟨rfl, hw.tables _ hs1 _ _ _⟩
  | frames hh =>
    simp only [step]
    cases hl : w.liveH hh with
    | none => rw [hw.liveH_none hl]; exact ⟨rfl, hw.tabs _ _ _⟩
    | some p =>
      obtain ⟨e, s⟩ := p
      obtain ⟨s', hl', hs⟩ := hw.liveH_some hl
      rw [hl']
      try simp only []
      have hc := cong_sim (allFrames_cong e.h) hs
      try simp only [] at hc
      generalize (allFrames s e.h) = r at hc ⊢
      generalize (allFrames s' e.h) = r' at hc ⊢
      obtain ⟨s1, e1⟩ := r
      obtain ⟨s1', e1'⟩ := r'
      obtain ⟨he, hs1⟩ := hc
      try simp only [] at he; subst he
      exact ⟨rfl, hw.tables _ hs1 _ _ _⟩
  | cdestroy hh =>
    simp only [step]
    cases hl : w.liveH hh with
    | none => rw [hw.liveH_none hl]; exact ⟨rfl, hw.tabs _ _ _⟩
    | some p =>
      obtain ⟨e, s⟩ := p
      obtain ⟨s', hl', hs⟩ := hw.liveH_some hl
      rw [hl', itOnCh_eq hw]
      try simp only []
      split
      · exact ⟨rfl, hw.tabs _ _ _⟩
      · have hc := cong_sim (destroyContainer_cong e.h) hs
        try simp only [] at hc
        generalize (destroyContainer s e.h) = r at hc ⊢
        generalize (destroyContainer s' e.h) = r' at hc ⊢
        obtain ⟨s1, e1⟩ := r
        obtain ⟨s1', e1'⟩ := r'
        obtain ⟨he, hs1⟩ := hc
        try simp only [] at he; subst he
        exact ⟨rfl, hw.tables _ hs1 _ _ _⟩
  | code hh =>
    simp only [step]
    cases hl : w.liveH hh with
    | none => rw [hw.liveH_none hl]; exact ⟨rfl, hw.tabs _ _ _⟩
    | some p =>
      obtain ⟨e, s⟩ := p
      obtain ⟨s', hl', hs⟩ := hw.liveH_some hl
      rw [hl']
      exact ⟨rfl, hw.tabs _ _ _⟩
  | isBlock hh =>
    simp only [step]
    cases hl : w.liveH hh with
    | none => rw [hw.liveH_none hl]; exact ⟨rfl, hw.tabs _ _ _⟩
    | some p =>
      obtain ⟨e, s⟩ := p
      obtain ⟨s', hl', hs⟩ := hw.liveH_some hl
      rw [hl']
      exact ⟨rfl, hw.tabs _ _ _⟩
  | mkLoop hh cat names =>
    simp only [step]
    cases hl : w.liveH hh with
    | none => rw [hw.liveH_none hl]; exact ⟨rfl, hw.tabs _ _ _⟩
    | some p =>
      obtain ⟨e, s⟩ := p
      obtain ⟨s', hl', hs⟩ := hw.liveH_some hl
      rw [hl']
      try simp only []
      have hc := cong_sim (createLoop_cong e.h cat names) hs
      try simp only [] at hc
      generalize (createLoop s e.h cat names) = r at hc ⊢
      generalize (createLoop s' e.h cat names) = r' at hc ⊢
      obtain ⟨s1, e1⟩ := r
      obtain ⟨s1', e1'⟩ := r'
      obtain ⟨he, hs1⟩ := hc
      try simp only [] at he; subst he
      exact ⟨rfl, hw.tables _ hs1 _ _ _⟩
  | catLoop hh cat =>
    simp only [step]
    cases hl : w.liveH hh with
    | none => rw [hw.liveH_none hl]; exact ⟨rfl, hw.tabs _ _ _⟩
    | some p =>
      obtain ⟨e, s⟩ := p
      obtain ⟨s', hl', hs⟩ := hw.liveH_some hl
      rw [hl']
      try simp only []
      have hc := cong_sim (getCategoryLoop_cong e.h cat) hs
      try simp only [] at hc
      generalize (getCategoryLoop s e.h cat) = r at hc ⊢
      generalize (getCategoryLoop s' e.h cat) = r' at hc ⊢
      obtain ⟨s1, e1⟩ := r
      obtain ⟨s1', e1'⟩ := r'
      obtain ⟨he, hs1⟩ := hc
      try simp only [] at he; subst he
      exact ⟨rfl, hw.tables _ hs1 _ _ _⟩
  | itemLoop hh n =>
    simp only [step]
    cases hl : w.liveH hh with
    | none => rw [hw.liveH_none hl]; exact ⟨rfl, hw.tabs _ _ _⟩
    | some p =>
      obtain ⟨e, s⟩ := p
      obtain ⟨s', hl', hs⟩ := hw.liveH_some hl
      rw [hl']
      try simp only []
      have hc := cong_sim (getItemLoop_cong e.h n) hs
      try simp only [] at hc
      generalize (getItemLoop s e.h n) = r at hc ⊢
      generalize (getItemLoop s' e.h n) = r' at hc ⊢
      obtain ⟨s1, e1⟩ := r
      obtain ⟨s1', e1'⟩ := r'
      obtain ⟨he, hs1⟩ := hc
      try simp only [] at he; subst he
      exact ⟨rfl, hw.tables _ hs1 _ _ _⟩
  | loops hh =>
    simp only [step]
    cases hl : w.liveH hh with
    | none => rw [hw.liveH_none hl]; exact ⟨rfl, hw.tabs _ _ _⟩
    | some p =>
      obtain ⟨e, s⟩ := p
      obtain ⟨s', hl', hs⟩ := hw.liveH_some hl
      rw [hl']
      try simp only []
      have hc := cong_sim (allLoops_cong e.h) hs
      try simp only [] at hc
      generalize (allLoops s e.h) = r at hc ⊢
      generalize (allLoops s' e.h) = r' at hc ⊢
      obtain ⟨s1, e1⟩ := r
      obtain ⟨s1', e1'⟩ := r'
      obtain ⟨he, hs1⟩ := hc
      try simp only [] at he; subst he
      cases e1' with
      | error c => exact ⟨rfl, hw.tables _ hs1 _ _ _⟩
      | ok ls =>
        have hf := namesFold_sim ls (s1, []) (s1', []) hs1 rfl
        exact ⟨by show ({ rc := some CIF_OK, out := .loops (namesFold ls (s1', [])).2 } : Result) = { rc := some CIF_OK, out := .loops (namesFold ls (s1, [])).2 }; rw [hf.1], hw.tables _ hf.2 _ _ _⟩
  | prune hh =>
    simp only [step]
    cases hl : w.liveH hh with
    | none => rw [hw.liveH_none hl]; exact ⟨rfl, hw.tabs _ _ _⟩
    | some p =>
      obtain ⟨e, s⟩ := p
      obtain ⟨s', hl', hs⟩ := hw.liveH_some hl
      rw [hl']
      try simp only []
      have hc := cong_sim (prune_cong e.h) hs
      try simp only [] at hc
      generalize (prune s e.h) = r at hc ⊢
      generalize (prune s' e.h) = r' at hc ⊢
      obtain ⟨s1, e1⟩ := r
      obtain ⟨s1', e1'⟩ := r'
      obtain ⟨he, hs1⟩ := hc
      try simp only [] at he; subst he
      exact ⟨rfl, hw.tables _ hs1 _ _ _⟩
  | getVal hh n =>
    simp only [step]
    cases hl : w.liveH hh with
    | none => rw [hw.liveH_none hl]; exact ⟨rfl, hw.tabs _ _ _⟩
    | some p =>
      obtain ⟨e, s⟩ := p
      obtain ⟨s', hl', hs⟩ := hw.liveH_some hl
      rw [hl']
      try simp only []
      cases n with
      | none => exact ⟨rfl, hw.tabs _ _ _⟩
      | some nm =>
        try simp only []
        have hc := cong_sim (getValue_cong e.h (some nm)) hs
        try simp only [] at hc
        generalize (getValue s e.h (some nm)) = r at hc ⊢
        generalize (getValue s' e.h (some nm)) = r' at hc ⊢
        obtain ⟨s1, e1⟩ := r
        obtain ⟨s1', e1'⟩ := r'
        obtain ⟨he, hs1⟩ := hc
        try simp only [] at he; subst he
        cases e1' with
        | error c => exact ⟨rfl, hw.tables _ hs1 _ _ _⟩
        | ok va => obtain ⟨v, amb⟩ := va; exact ⟨rfl, hw.tables _ hs1 _ _ _⟩
  | setVal hh n v =>
    simp only [step]
    cases hl : w.liveH hh with
    | none => rw [hw.liveH_none hl]; exact ⟨rfl, hw.tabs _ _ _⟩
    | some p =>
      obtain ⟨e, s⟩ := p
      obtain ⟨s', hl', hs⟩ := hw.liveH_some hl
      rw [hl']
      try simp only []
      have hc := cong_sim (setValue_cong e.h n v) hs
      try simp only [] at hc
      generalize (setValue s e.h n v) = r at hc ⊢
      generalize (setValue s' e.h n v) = r' at hc ⊢
      obtain ⟨s1, e1⟩ := r
      obtain ⟨s1', e1'⟩ := r'
      obtain ⟨he, hs1⟩ := hc
      try simp only [] at he; subst he
      exact ⟨rfl, hw.tables _ hs1 _ _ _⟩
  | rmItem hh n =>
    simp only [step]
    cases hl : w.liveH hh with
    | none => rw [hw.liveH_none hl]; exact ⟨rfl, hw.tabs _ _ _⟩
    | some p =>
      obtain ⟨e, s⟩ := p
      obtain ⟨s', hl', hs⟩ := hw.liveH_some hl
      rw [hl']
      try simp only []
      have hc := cong_sim (removeItem_cong e.h n) hs
      try simp only [] at hc
      generalize (removeItem s e.h n) = r at hc ⊢
      generalize (removeItem s' e.h n) = r' at hc ⊢
      obtain ⟨s1, e1⟩ := r
      obtain ⟨s1', e1'⟩ := r'
      obtain ⟨he, hs1⟩ := hc
      try simp only [] at he; subst he
      exact ⟨rfl, hw.tables _ hs1 _ _ _⟩
  | ldestroy l =>
    simp only [step]
    cases hl : w.liveL l with
    | none => rw [hw.liveL_none hl]; exact ⟨rfl, hw.tabs _ _ _⟩
    | some p =>
      obtain ⟨e, s⟩ := p
      obtain ⟨s', hl', hs⟩ := hw.liveL_some hl
      rw [hl', itOnLh_eq hw]
      try simp only []
      split
      · exact ⟨rfl, hw.tabs _ _ _⟩
      · have hc := cong_sim (destroyLoop_cong e.h) hs
        try simp only [] at hc
        generalize (destroyLoop s e.h) = r at hc ⊢
        generalize (destroyLoop s' e.h) = r' at hc ⊢
        obtain ⟨s1, e1⟩ := r
        obtain ⟨s1', e1'⟩ := r'
        obtain ⟨he, hs1⟩ := hc
        try simp only [] at he; subst he
        exact ⟨rfl, hw.tables _ hs1 _ _ _⟩
  | getCat l =>
    simp only [step]
    cases hl : w.liveL l with
    | none => rw [hw.liveL_none hl]; exact ⟨rfl, hw.tabs _ _ _⟩
    | some p =>
      obtain ⟨e, s⟩ := p
      obtain ⟨s', hl', hs⟩ := hw.liveL_some hl
      rw [hl']
      exact ⟨rfl, hw.tabs _ _ _⟩
  | setCat l cat =>
    simp only [step]
    cases hl : w.liveL l with
    | none => rw [hw.liveL_none hl]; exact ⟨rfl, hw.tabs _ _ _⟩
    | some p =>
      obtain ⟨e, s⟩ := p
      obtain ⟨s', hl', hs⟩ := hw.liveL_some hl
      rw [hl']
      try simp only []
      have hc := setCategory_sim e.h cat hs
      generalize (setCategory s e.h cat) = r at hc ⊢
      generalize (setCategory s' e.h cat) = r' at hc ⊢
      obtain ⟨s1, e1⟩ := r
      obtain ⟨s1', e1'⟩ := r'
      obtain ⟨he, hs1⟩ := hc
      try simp only [] at he; subst he
      obtain ⟨h', rr⟩ := e1'
      exact ⟨rfl, hw.tables _ hs1 _ _ _⟩
  | names l =>
    simp only [step]
    cases hl : w.liveL l with
    | none => rw [hw.liveL_none hl]; exact ⟨rfl, hw.tabs _ _ _⟩
    | some p =>
      obtain ⟨e, s⟩ := p
      obtain ⟨s', hl', hs⟩ := hw.liveL_some hl
      rw [hl']
      try simp only []
      have hc := cong_sim (getNames_cong e.h) hs
      try simp only [] at hc
      generalize (getNames s e.h) = r at hc ⊢
      generalize (getNames s' e.h) = r' at hc ⊢
      obtain ⟨s1, e1⟩ := r
      obtain ⟨s1', e1'⟩ := r'
      obtain ⟨he, hs1⟩ := hc
      try simp only [] at he; subst he
      exact ⟨rfl, hw.tables _ hs1 _ _ _⟩
  | addItem l n v =>
    simp only [step]
    cases hl : w.liveL l with
    | none => rw [hw.liveL_none hl]; exact ⟨rfl, hw.tabs _ _ _⟩
    | some p =>
      obtain ⟨e, s⟩ := p
      obtain ⟨s', hl', hs⟩ := hw.liveL_some hl
      rw [hl']
      try simp only []
      cases n with
      | none => exact ⟨rfl, hw.tabs _ _ _⟩
      | some nm =>
        try simp only []
        have hc := cong_sim (addItem_cong e.h (some nm) v) hs
        try simp only [] at hc
        generalize (addItem s e.h (some nm) v) = r at hc ⊢
        generalize (addItem s' e.h (some nm) v) = r' at hc ⊢
        obtain ⟨s1, e1⟩ := r
        obtain ⟨s1', e1'⟩ := r'
        obtain ⟨he, hs1⟩ := hc
        try simp only [] at he; subst he
        exact ⟨rfl, hw.tables _ hs1 _ _ _⟩
  | addPkt l p =>
    simp only [step]
    cases hl : w.liveL l with
    | none => rw [hw.liveL_none hl]; exact ⟨rfl, hw.tabs _ _ _⟩
    | some p =>
      obtain ⟨e, s⟩ := p
      obtain ⟨s', hl', hs⟩ := hw.liveL_some hl
      rw [hl']
      try simp only []
      have hc := cong_sim (addPacket_cong e.h p) hs
      try simp only [] at hc
      generalize (addPacket s e.h p) = r at hc ⊢
      generalize (addPacket s' e.h p) = r' at hc ⊢
      obtain ⟨s1, e1⟩ := r
      obtain ⟨s1', e1'⟩ := r'
      obtain ⟨he, hs1⟩ := hc
      try simp only [] at he; subst he
      exact ⟨rfl, hw.tables _ hs1 _ _ _⟩
  | itOpen l =>
    simp only [step]
    cases hl : w.liveL l with
    | none => rw [hw.liveL_none hl]; exact ⟨rfl, hw.tabs _ _ _⟩
    | some p =>
      obtain ⟨e, s⟩ := p
      obtain ⟨s', hl', hs⟩ := hw.liveL_some hl
      rw [hl']
      try simp only []
      have hc := cong_sim (getPackets_cong e.h) hs
      try simp only [] at hc
      generalize (getPackets s e.h) = r at hc ⊢
      generalize (getPackets s' e.h) = r' at hc ⊢
      obtain ⟨s1, e1⟩ := r
      obtain ⟨s1', e1'⟩ := r'
      obtain ⟨he, hs1⟩ := hc
      try simp only [] at he; subst he
      exact ⟨rfl, hw.tables _ hs1 _ _ _⟩
  | itNext i =>
    simp only [step]
    cases hl : w.liveI i with
    | none => rw [hw.liveI_none hl]; exact ⟨rfl, hw.tabs _ _ _⟩
    | some p =>
      obtain ⟨e, s⟩ := p
      obtain ⟨s', hl', hs⟩ := hw.liveI_some hl
      rw [hl']
      simp only [nextPacket_sim e.it hs]
      first | exact ⟨rfl, hw.tabs _ _ _⟩ | exact ⟨trivial, hw.tabs _ _ _⟩
  | itUpd i p =>
    simp only [step]
    cases hl : w.liveI i with
    | none => rw [hw.liveI_none hl]; exact ⟨rfl, hw.tabs _ _ _⟩
    | some p =>
      obtain ⟨e, s⟩ := p
      obtain ⟨s', hl', hs⟩ := hw.liveI_some hl
      rw [hl']
      try simp only []
      have hc := cong_sim (updatePacket_cong e.it p) hs
      try simp only [] at hc
      generalize (updatePacket s e.it p) = r at hc ⊢
      generalize (updatePacket s' e.it p) = r' at hc ⊢
      obtain ⟨s1, e1⟩ := r
      obtain ⟨s1', e1'⟩ := r'
      obtain ⟨he, hs1⟩ := hc
      try simp only [] at he; subst he
      exact ⟨rfl, hw.tables _ hs1 _ _ _⟩
  | itRem i =>
    simp only [step]
    cases hl : w.liveI i with
    | none => rw [hw.liveI_none hl]; exact ⟨rfl, hw.tabs _ _ _⟩
    | some p =>
      obtain ⟨e, s⟩ := p
      obtain ⟨s', hl', hs⟩ := hw.liveI_some hl
      rw [hl']
      try simp only []
      have hc := removePacket_sim e.it hs
      generalize (removePacket s e.it) = r at hc ⊢
      generalize (removePacket s' e.it) = r' at hc ⊢
      obtain ⟨s1, e1⟩ := r
      obtain ⟨s1', e1'⟩ := r'
      obtain ⟨he, hs1⟩ := hc
      try simp only [] at he; subst he
      obtain ⟨it', rr⟩ := e1'
      exact ⟨rfl, hw.tables _ hs1 _ _ _⟩
  | itClose i =>
    simp only [step]
    cases hl : w.liveI i with
    | none => rw [hw.liveI_none hl]; exact ⟨rfl, hw.tabs _ _ _⟩
    | some p =>
      obtain ⟨e, s⟩ := p
      obtain ⟨s', hl', hs⟩ := hw.liveI_some hl
      rw [hl']
      try simp only []
      have hc := cong_sim (closeIter_cong) hs
      try simp only [] at hc
      generalize (closeIter s) = r at hc ⊢
      generalize (closeIter s') = r' at hc ⊢
      obtain ⟨s1, e1⟩ := r
      obtain ⟨s1', e1'⟩ := r'
      obtain ⟨he, hs1⟩ := hc
      try simp only [] at he; subst he
      exact ⟨rfl, hw.tables _ hs1 _ _ _⟩
  | itAbort i =>
    simp only [step]
    cases hl : w.liveI i with
    | none => rw [hw.liveI_none hl]; exact ⟨rfl, hw.tabs _ _ _⟩
    | some p =>
      obtain ⟨e, s⟩ := p
      obtain ⟨s', hl', hs⟩ := hw.liveI_some hl
      rw [hl']
      try simp only []
      have hc := cong_sim (abortIter_cong) hs
      try simp only [] at hc
      generalize (abortIter s) = r at hc ⊢
      generalize (abortIter s') = r' at hc ⊢
      obtain ⟨s1, e1⟩ := r
      obtain ⟨s1', e1'⟩ := r'
      obtain ⟨he, hs1⟩ := hc
      try simp only [] at he; subst he
      exact ⟨rfl, hw.tables _ hs1 _ _ _⟩

/-- … nor can a whole continuation -/
theorem run_wsim : ∀ (ops : List Op) (w w' : World), WSim w w' → (run w' ops).2 = (run w ops).2 ∧ WSim (run w ops).1 (run w' ops).1
  | [], w, w', h => ⟨rfl, h⟩
  | op :: ops, w, w', h => by
    unfold run
    have h1 := step_wsim w w' h op
    have h2 := run_wsim ops _ _ h1.2
    simp only []
    exact ⟨by rw [h1.1, h2.1], h2.2⟩

end CifModel.Store
