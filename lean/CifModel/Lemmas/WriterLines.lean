import CifModel.Lemmas.WriterTotal
/-
  The column-tracking invariant of the writer: `last_column` never underestimates the true column, and no line —
  counted in code units, hence a fortiori in characters — grows beyond the limit.
-/
namespace CifModel.Lemmas.WriterLines
open CifModel.Model CifModel.Model.Writer
open CifModel.Gen

/-! ### lines in code units -/

/-- the column after writing `o` from column `k` -/
def endCol : Nat → Str → Nat
  | k, [] => k
  | k, u :: r => if u = 10 then endCol 0 r else endCol (k + 1) r

/-- no line (the last, unterminated one included) exceeds the limit when `o` is written from column `k` -/
def fitsU : Nat → Str → Bool
  | k, [] => decide (k ≤ LINE)
  | k, u :: r => if u = 10 then decide (k ≤ LINE) && fitsU 0 r else fitsU (k + 1) r

theorem fitsU_le : ∀ (o : Str) (k : Nat), fitsU k o = true → k ≤ LINE := by
  intro o
  induction o with
  | nil => intro k h; simpa [fitsU] using h
  | cons u r ih =>
    intro k h
    simp only [fitsU] at h
    split at h
    · simp only [Bool.and_eq_true, decide_eq_true_eq] at h; exact h.1
    · have := ih _ h; omega

theorem endCol_append : ∀ (a b : Str) (k : Nat), endCol k (a ++ b) = endCol (endCol k a) b := by
  intro a
  induction a with
  | nil => intro b k; rfl
  | cons u r ih =>
    intro b k
    simp only [List.cons_append, endCol]
    split <;> exact ih _ _

theorem fitsU_append : ∀ (a b : Str) (k : Nat), fitsU k (a ++ b) = (fitsU k a && fitsU (endCol k a) b) := by
  intro a
  induction a with
  | nil =>
    intro b k
    simp only [List.nil_append, fitsU, endCol]
    cases h : fitsU k b
    · simp
    · simp [fitsU_le b k h]
  | cons u r ih =>
    intro b k
    simp only [List.cons_append, fitsU, endCol]
    split
    · rw [ih]; simp [Bool.and_assoc]
    · exact ih _ _

theorem fitsU_mono : ∀ (o : Str) (k k' : Nat), k' ≤ k → fitsU k o = true → fitsU k' o = true ∧ endCol k' o ≤ endCol k o := by
  intro o
  induction o with
  | nil => intro k k' hk h; simp only [fitsU, endCol, decide_eq_true_eq] at *; exact ⟨by omega, hk⟩
  | cons u r ih =>
    intro k k' hk h
    simp only [fitsU, endCol] at h ⊢
    split
    · rename_i hu
      simp only [hu, ↓reduceIte, Bool.and_eq_true, decide_eq_true_eq] at h ⊢
      exact ⟨⟨by omega, h.2⟩, Nat.le_refl _⟩
    · rename_i hu
      simp only [hu, ↓reduceIte] at h
      exact ih _ _ (by omega) h

/-- a stretch without line break -/
theorem track_noeol : ∀ (t : Str) (k : Nat), (10 : CU) ∉ t → endCol k t = k + t.length ∧ fitsU k t = decide (k + t.length ≤ LINE) := by
  intro t
  induction t with
  | nil => intro k _; simp [endCol, fitsU]
  | cons u r ih =>
    intro k h
    have hu : u ≠ 10 := fun e => h (e ▸ List.mem_cons_self)
    have hr : (10 : CU) ∉ r := fun e => h (List.mem_cons_of_mem _ e)
    simp only [endCol, fitsU, hu, ↓reduceIte, List.length_cons]
    obtain ⟨h1, h2⟩ := ih (k + 1) hr
    rw [h1, h2]
    constructor
    · omega
    · congr 1; simp only [eq_iff_iff]; omega

/-- the bound on every line of the output -/
theorem lines_of_fitsU : ∀ (o : Str) (k : Nat), fitsU k o = true →
    (∀ l ∈ (splitLines o).tail, l.length ≤ LINE) ∧ k + ((splitLines o).headD []).length ≤ LINE := by
  intro o
  induction o with
  | nil => intro k h; simp [splitLines, fitsU] at h ⊢; exact h
  | cons u r ih =>
    intro k h
    have hne := Lemmas.WriterText.splitLines_ne_nil r
    simp only [fitsU] at h
    simp only [splitLines]
    by_cases hu : u = 10
    · simp only [hu, ↓reduceIte, Bool.and_eq_true, decide_eq_true_eq] at h ⊢
      obtain ⟨h1, h2⟩ := ih 0 h.2
      constructor
      · intro l hl
        simp only [List.tail_cons] at hl
        cases hs : splitLines r with
        | nil => exact absurd hs hne
        | cons a b =>
          rw [hs] at hl h1 h2
          rcases List.mem_cons.mp hl with e | e
          · subst e; simpa using h2
          · exact h1 l (by simpa using e)
      · simpa using h.1
    · simp only [hu, ↓reduceIte] at h ⊢
      obtain ⟨h1, h2⟩ := ih (k + 1) h
      cases hs : splitLines r with
      | nil => exact absurd hs hne
      | cons a b =>
        rw [hs] at h1 h2
        simp only [List.tail_cons, List.headD_cons, List.length_cons] at h1 h2 ⊢
        exact ⟨h1, by omega⟩

theorem all_lines_of_fitsU (o : Str) (h : fitsU 0 o = true) : ∀ l ∈ splitLines o, l.length ≤ LINE := by
  obtain ⟨h1, h2⟩ := lines_of_fitsU o 0 h
  intro l hl
  have hne := Lemmas.WriterText.splitLines_ne_nil o
  cases hs : splitLines o with
  | nil => exact absurd hs hne
  | cons a b =>
    rw [hs] at hl h1 h2
    rcases List.mem_cons.mp hl with e | e
    · subst e; simpa using h2
    · exact h1 l (by simpa using e)

/-! ### the invariant of one writing step -/

/-- if the step succeeds from a context whose column is within the line: the new column is within the line, and for every
    true column `k ≤ last_column` the output keeps all lines within the limit and ends at a column `≤` the new `last_column` -/
def LineOk (c : Ctx) (r : W) : Prop :=
  c.lastColumn ≤ LINE → ∀ o c', r = .ok (o, c') →
    c'.lastColumn ≤ LINE ∧ ∀ k, k ≤ c.lastColumn → fitsU k o = true ∧ endCol k o ≤ c'.lastColumn

theorem lineOk_error (c : Ctx) (e : Code) : LineOk c (.error e) := by
  intro _ o c' h; cases h

theorem lineOk_andThen {c : Ctx} {a : W} {f : Ctx → W} (ha : LineOk c a) (hf : ∀ c1, LineOk c1 (f c1)) :
    LineOk c (andThen a f) := by
  intro hc o c' h
  unfold andThen at h
  cases ha' : a with
  | error e => simp [ha'] at h
  | ok p =>
    obtain ⟨o1, c1⟩ := p
    simp only [ha'] at h
    cases hf' : f c1 with
    | error e => simp [hf'] at h
    | ok p2 =>
      obtain ⟨o2, c2⟩ := p2
      simp only [hf', Except.ok.injEq, Prod.mk.injEq] at h
      obtain ⟨h1, h2⟩ := ha hc o1 c1 ha'
      obtain ⟨h3, h4⟩ := hf c1 h1 o2 c2 hf'
      rw [← h.1, ← h.2]
      refine ⟨h3, ?_⟩
      intro k hk
      obtain ⟨f1, e1⟩ := h2 k hk
      obtain ⟨f2, e2⟩ := h4 (endCol k o1) e1
      rw [fitsU_append, endCol_append, f1, f2]
      exact ⟨rfl, e2⟩

/-- a step that writes `o` without line break, or a line break and then `o`, and sets the column accordingly -/
theorem lineOk_plain (c : Ctx) (o : Str) (c' : Ctx) (ho : (10 : CU) ∉ o)
    (hcol : c'.lastColumn = c.lastColumn + o.length) (hfit : c.lastColumn + o.length ≤ LINE) :
    LineOk c (.ok (o, c')) := by
  intro _ o' c'' h
  simp only [Except.ok.injEq, Prod.mk.injEq] at h
  rw [← h.1, ← h.2]
  refine ⟨by omega, ?_⟩
  intro k hk
  obtain ⟨h1, h2⟩ := track_noeol o k ho
  rw [h1, h2]
  exact ⟨by simp; omega, by omega⟩

theorem lineOk_wrapped (c : Ctx) (o : Str) (c' : Ctx) (ho : (10 : CU) ∉ o)
    (hcol : c'.lastColumn = o.length) (hfit : o.length ≤ LINE) :
    LineOk c (.ok (10 :: o, c')) := by
  intro hc o' c'' h
  simp only [Except.ok.injEq, Prod.mk.injEq] at h
  rw [← h.1, ← h.2]
  refine ⟨by omega, ?_⟩
  intro k hk
  obtain ⟨h1, h2⟩ := track_noeol o 0 ho
  simp only [fitsU, endCol, ↓reduceIte, h1, h2, Bool.and_eq_true, decide_eq_true_eq]
  exact ⟨⟨by omega, by omega⟩, by omega⟩

/-! ### primitives -/

theorem lineOk_nop (c : Ctx) : LineOk c (.ok ([], c)) := by
  intro hc o c' h
  simp only [Except.ok.injEq, Prod.mk.injEq] at h
  rw [← h.1, ← h.2]
  exact ⟨hc, fun k hk => ⟨by simp [fitsU]; omega, by simpa [endCol] using hk⟩⟩

theorem lineOk_newline (c : Ctx) : LineOk c (.ok (writeNewline c)) := by
  have := lineOk_wrapped c [] (writeNewline c).2 (by simp) rfl (by simp)
  simpa [writeNewline] using this

theorem lineOk_literal (c : Ctx) (t : Str) (w : Bool) (ht : (10 : CU) ∉ t) (hlen : t.length ≤ LINE) :
    LineOk c (match writeLiteral c t w with | none => .error ErrCodes.CIF_ERROR | some r => .ok r) := by
  unfold writeLiteral
  by_cases h0 : t.length = 0
  · rw [if_pos h0]
    exact lineOk_nop c
  · rw [if_neg h0]
    by_cases h1 : t.length + c.lastColumn > LINE
    · rw [if_pos h1]
      cases w with
      | false => simp only [Bool.false_eq_true, ↓reduceIte]; exact lineOk_error _ _
      | true => simp only [↓reduceIte]; exact lineOk_wrapped c t _ ht rfl hlen
    · rw [if_neg h1]
      exact lineOk_plain c t _ ht rfl (by omega)

theorem lineOk_literalOrError (c : Ctx) (t : Str) (w : Bool) (ht : (10 : CU) ∉ t) (hlen : t.length ≤ LINE) :
    LineOk c (literalOrError c t w) := lineOk_literal c t w ht hlen

theorem lineOk_ensureSpaced (c : Ctx) : LineOk c (.ok (ensureSpaced c)) := by
  unfold ensureSpaced
  by_cases h0 : c.lastColumn = 0
  · rw [if_pos h0]; exact lineOk_nop c
  · rw [if_neg h0]
    have := lineOk_literal c [32] false (by decide) (by decide)
    cases h : writeLiteral c [32] false with
    | none => exact lineOk_newline c
    | some r => simpa [h] using this

/-- `write_uliteral` on a text without line break whose printed units are the whole text -/
theorem lineOk_uliteral (c : Ctx) (t : Str) (n : Option Nat) (w : Bool) (ht : (10 : CU) ∉ t) (hlen : t.length ≤ LINE)
    (hn : n = none ∨ n = some t.length) (hcnt : n = none → Writer.countChar32 t = t.length) :
    LineOk c (match writeULiteral c t n w with | none => .error ErrCodes.CIF_ERROR | some r => .ok r) := by
  have hp : printfS t.length t = t := by simp [printfS]
  have key : ∀ len : Nat, len = t.length →
      LineOk c (match (if len = 0 then some ([], c)
          else if len + c.lastColumn > LINE then
            if w then some (10 :: printfS t.length t, { c with lastColumn := (printfS t.length t).length }) else none
          else some (printfS t.length t, { c with lastColumn := c.lastColumn + (printfS t.length t).length })) with
        | none => .error ErrCodes.CIF_ERROR | some r => .ok r) := by
    intro len hl
    rw [hp]
    by_cases h0 : len = 0
    · rw [if_pos h0]; exact lineOk_nop c
    · rw [if_neg h0]
      by_cases h1 : len + c.lastColumn > LINE
      · rw [if_pos h1]
        cases w with
        | false => simp only [Bool.false_eq_true, ↓reduceIte]; exact lineOk_error _ _
        | true => simp only [↓reduceIte]; exact lineOk_wrapped c t _ ht rfl hlen
      · rw [if_neg h1]
        exact lineOk_plain c t _ ht rfl (by omega)
  unfold writeULiteral
  rcases hn with h | h
  · subst h; simp only; rw [hcnt rfl]; exact key t.length rfl
  · subst h; simp only; exact key t.length rfl

/-! ### logical lines -/

open CifModel.Spec.TextProtocol (joinLines) in
theorem join_track : ∀ (ls : List Str) (k : Nat), ls ≠ [] → (∀ l ∈ ls, (10 : CU) ∉ l) →
    k + (ls.headD []).length ≤ LINE → (∀ l ∈ ls.tail, l.length ≤ LINE) →
    fitsU k (joinLines ls) = true ∧
    endCol k (joinLines ls) = (if ls.tail = [] then k + (ls.headD []).length else (ls.getLastD []).length) := by
  intro ls
  induction ls with
  | nil => intro _ h; exact absurd rfl h
  | cons l rest ih =>
    intro k _ hno hk htail
    have hl := hno l List.mem_cons_self
    cases rest with
    | nil =>
      simp only [joinLines, List.tail_cons, ↓reduceIte, List.headD_cons]
      obtain ⟨h1, h2⟩ := track_noeol l k hl
      rw [h1, h2]
      exact ⟨by simpa using hk, rfl⟩
    | cons l' r =>
      simp only [joinLines, List.tail_cons, List.headD_cons] at hk htail ⊢
      obtain ⟨h1, h2⟩ := track_noeol l k hl
      have ihr := ih 0 (by simp) (fun x hx => hno x (List.mem_cons_of_mem _ hx))
        (by have := htail l' List.mem_cons_self; simpa using this)
        (fun x hx => htail x (List.mem_cons_of_mem _ hx))
      rw [fitsU_append, endCol_append, h1, h2]
      simp only [fitsU, endCol, ↓reduceIte, Bool.and_eq_true, decide_eq_true_eq]
      refine ⟨⟨hk, hk, ihr.1⟩, ?_⟩
      rw [ihr.2]
      simp only [List.tail_cons, List.headD_cons, Nat.zero_add, reduceCtorEq, ↓reduceIte, List.getLastD_cons]
      split
      · rename_i hr; subst hr; simp
      · rename_i hr
        cases r with
        | nil => exact absurd rfl hr
        | cons a b => simp [List.getLastD_cons]

/-- what the analysis knows about the lines of a CR-free string -/
theorem analysis_lines (s : Str) (unq tri : Bool) (h13 : (13 : CU) ∉ s) :
    (analyze s unq tri LINE).lengthFirst = ((splitLines s).headD []).length ∧
    (analyze s unq tri LINE).lengthLast = ((splitLines s).getLastD []).length ∧
    (∀ l ∈ splitLines s, l.length ≤ (analyze s unq tri LINE).lengthMax) ∧
    (analyze s unq tri LINE).numLines = (splitLines s).length ∧
    (analyze s unq tri LINE).length = s.length := by
  have hst := C18_stats_exact s unq tri LINE
  have he := Lemmas.WriterLexFits.splitLines_eq s h13
  refine ⟨by rw [hst.2.2.1, he], by rw [hst.2.2.2.1, he], ?_, by rw [hst.2.1, he], hst.1⟩
  intro l hl
  rw [hst.2.2.2.2.1, he]
  exact Lemmas.WriterLex.le_maxLen _ _ hl

/-! ### the presentations of a string -/

theorem lineOk_writeUnquoted (c : Ctx) (s : Str) (hs10 : (10 : CU) ∉ s) (hlen : s.length ≤ LINE) :
    LineOk c (writeUnquoted c s s.length) := by
  intro hc o c' h
  unfold writeUnquoted at h
  have L := lineOk_uliteral c s (some s.length) true hs10 hlen (Or.inr rfl) (by intro e; cases e)
  cases hw : writeULiteral c s (some s.length) true with
  | none => simp [hw] at h
  | some r =>
    obtain ⟨o1, c1⟩ := r
    simp only [hw, Lemmas.WriterChar.printfS_length] at h L
    by_cases h0 : s.length = 0
    · simp only [h0, ↓reduceIte, Except.ok.injEq, Prod.mk.injEq] at h
      rw [← h.1, ← h.2]; exact L hc o1 c1 rfl
    · simp only [h0, ↓reduceIte, Except.ok.injEq, Prod.mk.injEq] at h
      rw [← h.1, ← h.2]; exact L hc o1 c1 rfl

theorem lineOk_writeQuoted (c : Ctx) (s : Str) (d : CU) (hd : d ≠ 10) (hs10 : (10 : CU) ∉ s) (hlen : s.length + 2 ≤ LINE) :
    LineOk c (writeQuoted c s s.length d) := by
  have hb : (10 : CU) ∉ [d] ++ s ++ [d] := by
    simp only [List.mem_append, List.mem_singleton, not_or]
    exact ⟨⟨fun e => hd e.symm, hs10⟩, fun e => hd e.symm⟩
  have hbl : ([d] ++ s ++ [d]).length = s.length + 2 := by simp
  unfold writeQuoted
  simp only [Lemmas.WriterLex.printfS_self, hbl, ↓reduceIte]
  by_cases hw : c.lastColumn + s.length + 2 > LINE
  · simp only [hw, decide_true, ↓reduceIte, List.cons_append, List.nil_append, Nat.zero_add]
    exact lineOk_wrapped c ([d] ++ s ++ [d]) _ hb (by simp) (by omega)
  · simp only [hw, decide_false, Bool.false_eq_true, ↓reduceIte, List.nil_append]
    exact lineOk_plain c ([d] ++ s ++ [d]) _ hb (by simp) (by omega)

/-- `t1 ++ X ++ t2` with line-break-free `t1`, `t2` -/
theorem wrap_tokens (t1 t2 X : Str) (k0 : Nat) (h1 : (10 : CU) ∉ t1) (h2 : (10 : CU) ∉ t2)
    (hX : fitsU (k0 + t1.length) X = true) (hend : endCol (k0 + t1.length) X + t2.length ≤ LINE) :
    fitsU k0 (t1 ++ X ++ t2) = true ∧ endCol k0 (t1 ++ X ++ t2) = endCol (k0 + t1.length) X + t2.length := by
  obtain ⟨a1, a2⟩ := track_noeol t1 k0 h1
  obtain ⟨b1, b2⟩ := track_noeol t2 (endCol (k0 + t1.length) X) h2
  have hk := fitsU_le X _ hX
  rw [List.append_assoc, fitsU_append, endCol_append, a1, a2, fitsU_append, endCol_append, hX, b1, b2]
  simp only [Bool.and_eq_true, decide_eq_true_eq, true_and, and_true]
  exact ⟨hk, hend⟩

/-- a step whose output, from any true column `k ≤ last_column`, stays within the limit and ends at `e k ≤` the new column -/
theorem lineOk_of_track (c : Ctx) (o : Str) (c' : Ctx) (hc' : c'.lastColumn ≤ LINE)
    (h : c.lastColumn ≤ LINE → ∀ k, k ≤ c.lastColumn → fitsU k o = true ∧ endCol k o ≤ c'.lastColumn) :
    LineOk c (.ok (o, c')) := by
  intro hc o' c'' he
  simp only [Except.ok.injEq, Prod.mk.injEq] at he
  rw [← he.1, ← he.2]
  exact ⟨hc', h hc⟩

open CifModel.Spec.TextProtocol (joinLines) in
/-- `write_triple_quoted` with the line lengths the analysis reports -/
theorem lineOk_writeTriple (c : Ctx) (s : Str) (d : CU) (hd : d ≠ 10)
    (hfirst : ((splitLines s).headD []).length + 3 ≤ LINE) (hlast : ((splitLines s).getLastD []).length + 3 ≤ LINE)
    (hall : ∀ l ∈ splitLines s, l.length ≤ LINE)
    (hsingle : (splitLines s).tail = [] → s.length + 6 ≤ LINE) :
    LineOk c (writeTripleQuoted c s ((splitLines s).headD []).length ((splitLines s).getLastD []).length d) := by
  have hsp := Lemmas.WriterText.splitLines_spec s
  have hne := Lemmas.WriterText.splitLines_ne_nil s
  have hd3 : (10 : CU) ∉ [d, d, d] := by simp; exact fun e => hd e.symm
  have h3 : ([d, d, d] : Str).length = 3 := rfl
  unfold writeTripleQuoted
  simp only
  split
  case isFalse => exact lineOk_error _ _
  case isTrue hlen =>
  cases hs : splitLines s with
  | nil => exact absurd hs hne
  | cons l0 rest =>
    rw [hs] at hfirst hlast hall hsingle hsp
    have hjoin : joinLines (l0 :: rest) = s := hsp.2
    cases rest with
    | nil =>
      -- one line: s = l0
      simp only [joinLines] at hjoin
      subst hjoin
      have hs10 : (10 : CU) ∉ l0 := hsp.1 l0 List.mem_cons_self
      have h6 := hsingle rfl
      simp only [List.headD_cons, List.getLastD_cons, List.getLastD_nil, Nat.lt_irrefl, decide_false, Bool.false_eq_true,
        ↓reduceIte]
      have hb : (10 : CU) ∉ [d, d, d] ++ l0 ++ [d, d, d] := by
        simp only [List.mem_append, not_or]; exact ⟨⟨hd3, hs10⟩, hd3⟩
      have hbl : ([d, d, d] ++ l0 ++ [d, d, d]).length = l0.length + 6 := by simp
      by_cases hw : c.lastColumn + l0.length + 6 > LINE
      · simp only [hw, decide_true, ↓reduceIte, List.cons_append, List.nil_append]
        exact lineOk_wrapped c ([d, d, d] ++ l0 ++ [d, d, d]) _ hb (by rw [hbl]; simp) (by omega)
      · simp only [hw, decide_false, Bool.false_eq_true, ↓reduceIte, List.nil_append]
        exact lineOk_plain c ([d, d, d] ++ l0 ++ [d, d, d]) _ hb (by rw [hbl]; simp; omega) (by omega)
    | cons l1 r =>
      -- several lines: the first line is shorter than the text
      have hlt : l0.length < s.length := by
        rw [← hjoin]; simp [joinLines]
      have hno : ∀ l ∈ l0 :: l1 :: r, (10 : CU) ∉ l := hsp.1
      simp only [List.headD_cons, hlt, decide_true, ↓reduceIte]
      have hlast' : ((l0 :: l1 :: r).getLastD []).length + 3 ≤ LINE := hlast
      -- the delimited text from a column k0 with room for the first line
      have body : ∀ k0, k0 + 3 + l0.length ≤ LINE →
          fitsU k0 ([d, d, d] ++ s ++ [d, d, d]) = true ∧
          endCol k0 ([d, d, d] ++ s ++ [d, d, d]) = ((l0 :: l1 :: r).getLastD []).length + 3 := by
        intro k0 hk0
        have jt := join_track (l0 :: l1 :: r) (k0 + 3) (by simp) hno (by simpa using hk0)
          (fun x hx => hall x (List.mem_of_mem_tail hx))
        rw [hjoin] at jt
        simp only [List.tail_cons, reduceCtorEq, ↓reduceIte] at jt
        have := wrap_tokens [d, d, d] [d, d, d] s k0 hd3 hd3 (by rw [h3]; exact jt.1) (by rw [h3, jt.2]; exact hlast')
        rw [h3, jt.2] at this
        exact this
      apply lineOk_of_track
      · simpa using hlast'
      · intro hc k hk
        by_cases hw : c.lastColumn + l0.length + 3 > LINE
        · simp only [hw, decide_true, ↓reduceIte]
          obtain ⟨f1, e1⟩ := body 0 (by simpa [Nat.add_comm] using hfirst)
          have : ([10] : Str) ++ ([d, d, d] ++ s ++ [d, d, d]) = 10 :: ([d, d, d] ++ s ++ [d, d, d]) := rfl
          rw [this]
          simp only [fitsU, endCol, ↓reduceIte, f1, e1, Bool.and_eq_true, decide_eq_true_eq, and_true]
          exact ⟨by omega, by simp⟩
        · simp only [hw, decide_false, Bool.false_eq_true, ↓reduceIte, List.nil_append]
          obtain ⟨f1, e1⟩ := body k (by omega)
          exact ⟨f1, by rw [e1]; simp⟩

/-! ### text fields -/

theorem endCol_le_of_fits : ∀ (o : Str) (k : Nat), fitsU k o = true → endCol k o ≤ LINE := by
  intro o
  induction o with
  | nil => intro k h; simpa [fitsU, endCol] using h
  | cons u r ih =>
    intro k h
    simp only [fitsU, endCol] at h ⊢
    split
    · rename_i hu; simp only [hu, ↓reduceIte, Bool.and_eq_true] at h; exact ih _ h.2
    · rename_i hu; simp only [hu, ↓reduceIte] at h; exact ih _ h

theorem flat_fitsU : ∀ (Q : List Str) (k : Nat), k ≤ LINE → (∀ p ∈ Q, (10 : CU) ∉ p ∧ p.length ≤ LINE) →
    fitsU k (flat Q) = true := by
  intro Q
  induction Q with
  | nil => intro k hk _; simpa [flat, fitsU] using hk
  | cons p ps ih =>
    intro k hk h
    have hp := h p List.mem_cons_self
    obtain ⟨a1, a2⟩ := track_noeol p 0 hp.1
    simp only [flat, fitsU, ↓reduceIte, Bool.and_eq_true, decide_eq_true_eq]
    refine ⟨hk, ?_⟩
    rw [fitsU_append, a1, a2]
    simp only [Nat.zero_add, Bool.and_eq_true, decide_eq_true_eq]
    exact ⟨hp.2, ih _ hp.2 (fun x hx => h x (List.mem_cons_of_mem _ hx))⟩

/-- `<LF>;` body `<LF>;` keeps every line within the limit and ends in column 1 -/
theorem text_track (body : Str) (k : Nat) (hk : k ≤ LINE) (hb : fitsU 1 body = true) :
    fitsU k (10 :: 59 :: (body ++ [10, 59])) = true ∧ endCol k (10 :: 59 :: (body ++ [10, 59])) = 1 := by
  have he := endCol_le_of_fits body 1 hb
  have h59 : ¬ (59 : CU) = 10 := by decide
  simp only [fitsU, endCol, ↓reduceIte, h59, Nat.zero_add, Bool.and_eq_true, decide_eq_true_eq]
  rw [fitsU_append, endCol_append, hb]
  simp only [fitsU, endCol, ↓reduceIte, h59, Bool.and_eq_true, decide_eq_true_eq, Bool.true_and]
  exact ⟨⟨hk, he, by decide⟩, trivial⟩

open CifModel.Spec.TextProtocol (joinLines) in
theorem lineOk_writeText (c : Ctx) (s : Str) (fold pre : Bool) (hcr : (13 : CU) ∉ s)
    (hsemi : (fold = false ∧ pre = false) ∨ pre = true ∨ (59 : CU) ∉ s)
    (hlen : fold = true ∨ ((∀ l ∈ splitLines s, l.length + Lemmas.WriterLexFits.pfxLen pre ≤ LINE)
        ∧ ((splitLines s).headD []).length + 1 ≤ LINE)) :
    LineOk c (writeText c s fold pre) := by
  unfold writeText
  cases hb : Writer.textBody s fold pre with
  | error e => exact lineOk_error _ _
  | ok body =>
    simp only
    have hsp := Lemmas.WriterText.splitLines_spec s
    -- the body alone, from column 1
    have hfit : fitsU 1 body = true := by
      unfold Writer.textBody at hb
      by_cases h00 : fold = false ∧ pre = false
      · simp only [h00, and_self, ↓reduceIte] at hb
        cases hb
        rcases hlen with hf | ⟨hall, hfirst⟩
        · rw [h00.1] at hf; cases hf
        · have jt := join_track (splitLines s) 1 (Lemmas.WriterText.splitLines_ne_nil s) hsp.1 (by omega)
            (fun l hl => by have := hall l (List.mem_of_mem_tail hl); omega)
          rw [hsp.2] at jt
          exact jt.1
      · simp only [h00, ↓reduceIte] at hb
        cases hq : textPhys fold pre (targetLength pre) (splitLines s) with
        | error e => simp [hq] at hb
        | ok Q =>
          simp only [hq] at hb
          cases hb
          have hfp : fold = true ∨ pre = true := by cases fold <;> cases pre <;> simp_all
          have hno : ∀ l ∈ splitLines s, Lemmas.DecodeLines.NoEol l := fun l hl =>
            Lemmas.WriterText.noEol_of_no10_no13 (hsp.1 l hl)
              (fun h13 => hcr (Lemmas.WriterText.splitLines_mem s l hl 13 h13))
          obtain ⟨_, hnoe, _⟩ :=
            Lemmas.WriterText.textPhys_spec fold pre hfp _ (splitLines s) Q (Lemmas.WriterText.splitLines_ne_nil s) hno hq
          have hsemi' : pre = true ∨ ∀ l ∈ splitLines s, (59 : CU) ∉ l := by
            rcases hsemi with hh | hh | hh
            · exact absurd hh h00
            · left; exact hh
            · right; exact fun l hl hm => hh (Lemmas.WriterText.splitLines_mem s l hl 59 hm)
          have hlen' : fold = true ∨ ∀ l ∈ splitLines s, l.length + Lemmas.WriterLexFits.pfxLen pre ≤ LINE := by
            rcases hlen with hh | hh
            · left; exact hh
            · right; exact hh.1
          have hQ := Lemmas.WriterLexFits.textPhys_len fold pre (splitLines s) Q hsemi' hlen' hq
          have hm : (10 : CU) ∉ textMarker fold pre := by cases fold <;> cases pre <;> decide
          obtain ⟨a1, a2⟩ := track_noeol (textMarker fold pre) 1 hm
          have hml : (textMarker fold pre).length ≤ 4 := by cases fold <;> cases pre <;> decide
          have hL : LINE = 2048 := rfl
          rw [fitsU_append, a1, a2]
          simp only [Bool.and_eq_true, decide_eq_true_eq]
          refine ⟨by omega, flat_fitsU Q _ (by omega) ?_⟩
          intro p hp
          exact ⟨fun h10 => (hnoe p hp 10 h10).1 rfl, by have := hQ p hp; omega⟩
    apply lineOk_of_track c _ _ (by simp [LINE])
    intro hc k hk
    have := text_track body k (by omega) hfit
    simp only [TEXT_CLOSE, List.cons_append, List.nil_append]
    exact ⟨this.1, by rw [this.2]; exact Nat.le_refl 1⟩

/-! ### write_char -/

theorem charFlags_off (a : Analysis) (hf : (Lemmas.WriterChar.charFlags a).1 = false) :
    a.lengthFirst < LINE ∧ a.lengthMax ≤ LINE ∧
    ((Lemmas.WriterChar.charFlags a).2 = true → a.lengthMax + PREFIX_LENGTH ≤ LINE) := by
  unfold Lemmas.WriterChar.charFlags at hf ⊢
  simp only at hf ⊢
  split at hf
  · cases hf
  · rename_i hnp
    simp only [Bool.or_eq_false_iff, decide_eq_false_iff_not, Nat.not_le, Nat.not_lt] at hf
    refine ⟨hf.1.1.1, hf.1.1.2, ?_⟩
    intro hp
    simp only [hp, true_and, Nat.not_lt] at hnp
    exact hnp

open CifModel.Spec.TextProtocol (joinLines) in
theorem triple_conditions (s : Str) (unq tri : Bool) (h13 : (13 : CU) ∉ s)
    (hcond : if (counters s).numLines = 1 then (counters s).maxLine + 6 ≤ LINE
       else (counters s).firstLine + 3 ≤ LINE ∧ (counters s).thisLine + 3 < LINE ∧ (counters s).maxLine ≤ LINE) :
    ((splitLines s).headD []).length + 3 ≤ LINE ∧ ((splitLines s).getLastD []).length + 3 ≤ LINE ∧
    (∀ l ∈ splitLines s, l.length ≤ LINE) ∧ ((splitLines s).tail = [] → s.length + 6 ≤ LINE) := by
  obtain ⟨hF, hL, hAll, hN, _⟩ := analysis_lines s unq tri h13
  have e1 : (analyze s unq tri LINE).lengthFirst = (counters s).firstLine := rfl
  have e2 : (analyze s unq tri LINE).lengthLast = (counters s).thisLine := rfl
  have e3 : (analyze s unq tri LINE).lengthMax = (counters s).maxLine := rfl
  have e4 : (analyze s unq tri LINE).numLines = (counters s).numLines := rfl
  have hsp := Lemmas.WriterText.splitLines_spec s
  have hne := Lemmas.WriterText.splitLines_ne_nil s
  rw [e1] at hF; rw [e2] at hL; rw [e3] at hAll; rw [e4] at hN
  cases hs : splitLines s with
  | nil => exact absurd hs hne
  | cons l0 rest =>
    rw [hs] at hF hL hAll hN hsp
    cases rest with
    | nil =>
      have hj : l0 = s := by simpa [joinLines] using hsp.2
      have hn1 : (counters s).numLines = 1 := by rw [hN]; rfl
      simp only [hn1, ↓reduceIte] at hcond
      have hl0 := hAll l0 List.mem_cons_self
      simp only [List.headD_cons, List.getLastD_cons, List.getLastD_nil, List.tail_cons]
      refine ⟨by omega, by omega, ?_, ?_⟩
      · intro l hl; simp at hl; subst hl; omega
      · intro _; rw [← hj]; omega
    | cons l1 r =>
      have hn1 : ¬ (counters s).numLines = 1 := by rw [hN]; simp
      simp only [hn1, ↓reduceIte] at hcond
      simp only [List.headD_cons] at hF ⊢
      refine ⟨by omega, by omega, ?_, ?_⟩
      · intro l hl; have := hAll l hl; omega
      · intro h; simp at h

/-- `write_char` keeps the column invariant — for every string without NUL and CR, every quoted flag, with or without
    permission to write a text field, in both output versions -/
theorem lineOk_writeChar (c : Ctx) (s : Str) (q allowText : Bool) (h0 : (0 : CU) ∉ s) (h13 : (13 : CU) ∉ s) :
    LineOk c (writeChar c s q allowText) := by
  rcases Lemmas.WriterChar.writeChar_cases c s q allowText with ⟨e, _⟩ | ⟨e, _⟩ | ⟨e, _⟩
  · rw [e]; exact lineOk_error _ _
  · rw [e]; exact lineOk_error _ _
  rw [e]
  by_cases hv : c.isCif1 = true ∧ validate11 s = false
  · rw [Lemmas.WriterChar.writeChar_invalid c s q allowText hv]; exact lineOk_error _ _
  obtain ⟨hdel, hlen⟩ := Lemmas.WriterChar.analyze_delim s (!q) (!c.isCif1) LINE
  have hadm := C18_delim_admissible s (!q) (!c.isCif1) LINE h0
  obtain ⟨hF, hL, hAll, hN, hLen⟩ := analysis_lines s (!q) (!c.isCif1) h13
  have hmaxf : (analyze s (!q) (!c.isCif1) LINE).lengthMax = (counters s).maxLine := rfl
  have hsp := Lemmas.WriterText.splitLines_spec s
  cases hrec : recommend s (!q) (!c.isCif1) LINE with
  | none =>
    have hd0 : (analyze s (!q) (!c.isCif1) LINE).delimLength = 0 := by rw [hlen, hrec]; rfl
    rw [Lemmas.WriterChar.writeChar_delim0 c s q allowText hv hd0]
    obtain ⟨_, _, _, _, _, _, hn, hm⟩ := hadm.1 hrec
    obtain ⟨hno, hmax, _⟩ := Lemmas.WriterLex.one_line s (!q) (!c.isCif1) LINE hn
    rw [hmax]
    exact lineOk_writeUnquoted c s (fun h => (hno 10 h).1 rfl) (by rw [← hmax, hmaxf]; exact hm)
  | apos =>
    have hd1 : (analyze s (!q) (!c.isCif1) LINE).delimLength = 1 := by rw [hlen, hrec]; rfl
    rw [Lemmas.WriterChar.writeChar_delim1 c s q allowText hv hd1]
    obtain ⟨_, hn, hm⟩ := hadm.2.1 hrec
    obtain ⟨hno, hmax, hl⟩ := Lemmas.WriterLex.one_line s (!q) (!c.isCif1) LINE hn
    rw [hl, hdel, hrec]
    exact lineOk_writeQuoted c s _ (by decide) (fun h => (hno 10 h).1 rfl) (by rw [← hmax, hmaxf]; exact hm)
  | quot =>
    have hd1 : (analyze s (!q) (!c.isCif1) LINE).delimLength = 1 := by rw [hlen, hrec]; rfl
    rw [Lemmas.WriterChar.writeChar_delim1 c s q allowText hv hd1]
    obtain ⟨_, hn, hm⟩ := hadm.2.2.1 hrec
    obtain ⟨hno, hmax, hl⟩ := Lemmas.WriterLex.one_line s (!q) (!c.isCif1) LINE hn
    rw [hl, hdel, hrec]
    exact lineOk_writeQuoted c s _ (by decide) (fun h => (hno 10 h).1 rfl) (by rw [← hmax, hmaxf]; exact hm)
  | text =>
    have hd2 : (analyze s (!q) (!c.isCif1) LINE).delimLength = 2 := by rw [hlen, hrec]; rfl
    by_cases hr : allowText = false ∨ ((analyze s (!q) (!c.isCif1) LINE).containsTextDelim = true ∧ c.isCif1 = true)
    · rw [Lemmas.WriterChar.writeChar_delim2_refused c s q allowText hv hd2 hr]; exact lineOk_error _ _
    · rw [Lemmas.WriterChar.writeChar_delim2 c s q allowText hv hd2 hr]
      have hflags := C02_flags_semis s _ (Lemmas.WriterAnalysis.maxSemiRun_zero s (!q) (!c.isCif1) LINE)
      apply lineOk_writeText c s _ _ h13 hflags
      by_cases hf : (Lemmas.WriterChar.charFlags (analyze s (!q) (!c.isCif1) LINE)).1 = true
      · left; exact hf
      · right
        obtain ⟨o1, o2, o3⟩ := charFlags_off _ (by simpa using hf)
        constructor
        · intro l hl
          have := hAll l hl
          cases hp : (Lemmas.WriterChar.charFlags (analyze s (!q) (!c.isCif1) LINE)).2
          · simp [Lemmas.WriterLexFits.pfxLen]; omega
          · have := o3 hp
            simp [Lemmas.WriterLexFits.pfxLen, PREFIX_LENGTH] at *; omega
        · rw [← hF]; omega
  | apos3 =>
    have hd3 : (analyze s (!q) (!c.isCif1) LINE).delimLength = 3 := by rw [hlen, hrec]; rfl
    rw [Lemmas.WriterChar.writeChar_delim3 c s q allowText hv hd3, hdel, hrec, hF, hL]
    obtain ⟨_, hcond⟩ := hadm.2.2.2.1 hrec
    obtain ⟨t1, t2, t3, t4⟩ := triple_conditions s (!q) (!c.isCif1) h13 hcond
    exact lineOk_writeTriple c s _ (by decide) t1 t2 t3 t4
  | quot3 =>
    have hd3 : (analyze s (!q) (!c.isCif1) LINE).delimLength = 3 := by rw [hlen, hrec]; rfl
    rw [Lemmas.WriterChar.writeChar_delim3 c s q allowText hv hd3, hdel, hrec, hF, hL]
    obtain ⟨_, hcond⟩ := hadm.2.2.2.2 hrec
    obtain ⟨t1, t2, t3, t4⟩ := triple_conditions s (!q) (!c.isCif1) h13 hcond
    exact lineOk_writeTriple c s _ (by decide) t1 t2 t3 t4

/-! ### numbers, names, items -/

theorem lineOk_congr {c c2 : Ctx} {r : W} (h : c2.lastColumn = c.lastColumn) (hl : LineOk c r) : LineOk c2 r := by
  intro hc o c' he
  obtain ⟨h1, h2⟩ := hl (by omega) o c' he
  exact ⟨h1, fun k hk => h2 k (by omega)⟩

/-- a string the writer can handle: no NUL, no CR -/
def strOk (s : Str) : Prop := (0 : CU) ∉ s ∧ (13 : CU) ∉ s

/-- a number text: additionally one line of BMP units (true of every number the API parses or formats); its length is
    not restricted — a text longer than a line is written as a folded text field (da3325d) -/
def numbOk (t : Str) : Prop := strOk t ∧ (10 : CU) ∉ t ∧ Writer.countChar32 t = t.length

/-- a data name: one line of at most 2048 units -/
def nameL (n : Str) : Prop := (10 : CU) ∉ n ∧ n.length ≤ LINE

theorem lineOk_writeNumb (c : Ctx) (t : Str) (q : Bool) (ht : numbOk t) : LineOk c (writeNumb c t q) := by
  unfold writeNumb
  cases q with
  | true => exact lineOk_writeChar c t true true ht.1.1 ht.1.2
  | false =>
    simp only [Bool.false_eq_true, ↓reduceIte]
    by_cases hlong : t.length > LINE
    · rw [if_pos hlong]; exact lineOk_writeChar c t false true ht.1.1 ht.1.2
    rw [if_neg hlong]
    have L := lineOk_uliteral c t none true ht.2.1 (by omega) (Or.inl rfl) (fun _ => ht.2.2)
    cases hw : writeULiteral c t none true with
    | none => exact lineOk_error _ _
    | some r =>
      obtain ⟨o, c'⟩ := r
      simp only [hw] at L ⊢
      split
      · exact lineOk_error _ _
      · exact L

/-- the data name, printed at the beginning of a line -/
theorem lineOk_name_col0 (c : Ctx) (n : Str) (hn : nameL n) (h0 : c.lastColumn = 0) :
    LineOk c (match writeULiteral c n none false with | none => .error ErrCodes.CIF_ERROR | some r => .ok r) := by
  have hp : printfS n.length n = n := by simp [printfS]
  unfold writeULiteral
  simp only [hp, h0, Nat.add_zero, Nat.zero_add]
  by_cases hz : Writer.countChar32 n = 0
  · rw [if_pos hz]; exact lineOk_nop c
  · rw [if_neg hz]
    by_cases h1 : Writer.countChar32 n > LINE
    · rw [if_pos h1]; simp only [Bool.false_eq_true, ↓reduceIte]; exact lineOk_error _ _
    · rw [if_neg h1]
      exact lineOk_plain c n _ hn.1 (by simp [h0]) (by rw [h0]; simpa using hn.2)

theorem lineOk_writeItemHead (c : Ctx) (n : Str) (hn : c.writeItemNames = true → nameL n) : LineOk c (writeItemHead c n) := by
  unfold writeItemHead
  apply lineOk_andThen
  · cases hw : c.writeItemNames with
    | false => simp only [Bool.false_eq_true, ↓reduceIte]; exact lineOk_nop c
    | true =>
      have hnm := hn hw
      simp only [↓reduceIte]
      split
      · exact lineOk_error _ _
      · intro hc o c' he
        by_cases hcol : c.lastColumn > 0
        · simp only [hcol, ↓reduceIte, writeNewline] at he
          have L := lineOk_name_col0 { c with lastColumn := 0 } n hnm rfl
          cases hu : writeULiteral { c with lastColumn := 0 } n none false with
          | none => simp [hu] at he
          | some r =>
            obtain ⟨o2, c2⟩ := r
            simp only [hu] at he L
            split at he
            · cases he
            · simp only [Except.ok.injEq, Prod.mk.injEq] at he
              obtain ⟨l1, l2⟩ := L (by simp) o2 c2 rfl
              rw [← he.1, ← he.2]
              refine ⟨l1, ?_⟩
              intro k hk
              obtain ⟨f, e⟩ := l2 0 (Nat.le_refl _)
              simp only [List.cons_append, List.nil_append, fitsU, endCol, ↓reduceIte, f, Bool.and_true, decide_eq_true_eq]
              exact ⟨by omega, e⟩
        · have h0 : c.lastColumn = 0 := by omega
          simp only [hcol, ↓reduceIte] at he
          have L := lineOk_name_col0 c n hnm h0
          cases hu : writeULiteral c n none false with
          | none => simp [hu] at he
          | some r =>
            obtain ⟨o2, c2⟩ := r
            simp only [hu] at he L
            split at he
            · cases he
            · simp only [List.nil_append, Except.ok.injEq, Prod.mk.injEq] at he
              rw [← he.1, ← he.2]
              exact L hc o2 c2 rfl
  · intro c1
    split
    · exact lineOk_ensureSpaced c1
    · exact lineOk_nop c1

/-! ### values -/

mutual
  /-- the strings of a value are free of NUL and CR, its numbers are one line of at most 2048 units -/
  def valueL : V → Prop
    | .chr _ t => strOk t
    | .numb _ t _ _ _ _ => numbOk t
    | .lst vs => elemsL vs
    | .tbl es => entriesL es
    | _ => True
  def elemsL : List V → Prop
    | [] => True
    | v :: r => valueL v ∧ elemsL r
  def entriesL : List (Str × Str × V) → Prop
    | [] => True
    | (_, key, v) :: r => strOk key ∧ valueL v ∧ entriesL r
end

theorem nameL_nil : nameL [] := ⟨by simp, by simp⟩

theorem lineOk_andThen_ok {c c1 : Ctx} {o : Str} {f : Ctx → W} (ha : LineOk c (.ok (o, c1))) (hf : LineOk c1 (f c1)) :
    LineOk c (andThen (.ok (o, c1)) f) := by
  have := lineOk_andThen (c := c) (a := .ok (o, c1)) (f := fun cx => if cx = c1 then f c1 else .error 0) ha
    (fun cx => by
      by_cases e : cx = c1
      · subst e; simpa using hf
      · simp only [e, ↓reduceIte]; exact lineOk_error _ _)
  simpa [andThen] using this

theorem lineOk_seq {c c0 c2 : Ctx} {o0 o1 : Str} (h0 : LineOk c (.ok (o0, c0))) (h1 : LineOk c0 (.ok (o1, c2))) :
    LineOk c (.ok (o0 ++ o1, c2)) := by
  have := lineOk_andThen (c := c) (a := .ok (o0, c0)) (f := fun cx => if cx = c0 then .ok (o1, c2) else .error 0) h0
    (fun cx => by
      by_cases e : cx = c0
      · subst e; simpa using h1
      · simp only [e, ↓reduceIte]; exact lineOk_error _ _)
  simpa [andThen] using this

mutual
  theorem lineOk_item (n : Str) (v : V) (c : Ctx) (hn : c.writeItemNames = true → nameL n) (hv : valueL v) :
      LineOk c (writeItem n v c) := by
    unfold writeItem
    apply lineOk_andThen (lineOk_writeItemHead c n hn)
    intro c1
    match v, hv with
    | .chr q t, hv => exact lineOk_writeChar c1 t q true hv.1 hv.2
    | .numb q t _ _ _ _, hv => exact lineOk_writeNumb c1 t q hv
    | .na, _ => exact lineOk_literalOrError c1 _ _ (by decide) (by decide)
    | .unk, _ => exact lineOk_literalOrError c1 _ _ (by decide) (by decide)
    | .lst vs, hv =>
      simp only
      split
      · exact lineOk_error _ _
      · apply lineOk_andThen (lineOk_literalOrError c1 _ _ (by decide) (by decide))
        intro c2
        have hE : LineOk c2 (writeElems vs { c2 with writeItemNames := false, separateValues := true }) :=
          lineOk_congr (c := { c2 with writeItemNames := false, separateValues := true }) rfl
            (lineOk_elems vs _ (by simpa [valueL] using hv))
        apply lineOk_andThen hE
        intro c3
        apply lineOk_andThen (lineOk_literalOrError c3 _ _ (by decide) (by decide))
        intro c4
        exact lineOk_congr (c := { c4 with separateValues := c2.separateValues, writeItemNames := c2.writeItemNames })
          rfl (lineOk_nop _)
    | .tbl es, hv =>
      simp only
      split
      · exact lineOk_error _ _
      · apply lineOk_andThen (lineOk_literalOrError c1 _ _ (by decide) (by decide))
        intro c2
        have hE : LineOk c2 (writeEntries es { c2 with writeItemNames := false }) :=
          lineOk_congr (c := { c2 with writeItemNames := false }) rfl (lineOk_entries es _ (by simpa [valueL] using hv))
        apply lineOk_andThen hE
        intro c3
        apply lineOk_andThen (lineOk_literalOrError c3 _ _ (by decide) (by decide))
        intro c4
        exact lineOk_congr (c := { c4 with separateValues := c2.separateValues, writeItemNames := c2.writeItemNames })
          rfl (lineOk_nop _)
  theorem lineOk_elems (vs : List V) (c : Ctx) (hv : elemsL vs) : LineOk c (writeElems vs c) := by
    match vs, hv with
    | [], _ => unfold writeElems; exact lineOk_nop c
    | v :: rest, hv =>
      unfold writeElems
      simp only [elemsL] at hv
      apply lineOk_andThen (lineOk_item [] v c (fun _ => nameL_nil) hv.1)
      intro c1
      exact lineOk_elems rest c1 hv.2
  theorem lineOk_entries (es : List (Str × Str × V)) (c : Ctx) (hv : entriesL es) : LineOk c (writeEntries es c) := by
    match es, hv with
    | [], _ => unfold writeEntries; exact lineOk_nop c
    | (kn, key, v) :: rest, hv =>
      unfold writeEntries
      simp only [entriesL] at hv
      -- optional line break and separator
      have h0 : LineOk c (.ok (if (key.length : Int) > (LINE : Int) - (c.lastColumn + 8) then writeNewline c else ([], c))) := by
        split
        · exact lineOk_newline c
        · exact lineOk_nop c
      generalize (if (key.length : Int) > (LINE : Int) - (c.lastColumn + 8) then writeNewline c else ([], c)) = p0 at h0
      obtain ⟨o0, c0⟩ := p0
      simp only
      have h1 : LineOk c0 (.ok (ensureSpaced { c0 with separateValues := false })) :=
        lineOk_congr (c := { c0 with separateValues := false }) rfl (lineOk_ensureSpaced _)
      generalize ensureSpaced { c0 with separateValues := false } = p1 at h1
      obtain ⟨o1, c2⟩ := p1
      simp only
      apply lineOk_andThen (lineOk_seq h0 h1)
      intro c2
      apply lineOk_andThen (lineOk_writeChar c2 key true false hv.1.1 hv.1.2)
      intro c3
      apply lineOk_andThen (lineOk_literal c3 [58] false (by decide) (by decide) |> fun h => by
        cases hl : writeLiteral c3 [58] false with
        | none => exact lineOk_error _ _
        | some r => simpa [hl] using h)
      intro c4
      apply lineOk_andThen (lineOk_item [] v c4 (fun _ => nameL_nil) hv.2.1)
      intro c5
      exact lineOk_entries rest c5 hv.2.2
end

/-! ### items, packets, loops, containers, the CIF -/

/-- the items of a packet: values as above, names one line of at most 2048 units -/
def itemsL (p : List (Str × V)) : Prop := ∀ nv ∈ p, valueL nv.2 ∧ nameL nv.1

theorem lineOk_items : ∀ (p : List (Str × V)) (c : Ctx), itemsL p → LineOk c (writeItems p c) := by
  intro p
  induction p with
  | nil => intro c _; exact lineOk_nop c
  | cons nv rest ih =>
    intro c h
    obtain ⟨n, v⟩ := nv
    simp only [writeItems]
    have h1 := h (n, v) List.mem_cons_self
    apply lineOk_andThen (lineOk_item n v c (fun _ => h1.2) h1.1)
    intro c1
    exact ih c1 (fun x hx => h x (List.mem_cons_of_mem _ hx))

theorem lineOk_packets : ∀ (ps : List (List (Str × V))) (c : Ctx), (∀ p ∈ ps, itemsL p) → LineOk c (writePackets ps c) := by
  intro ps
  induction ps with
  | nil => intro c _; exact lineOk_nop c
  | cons p rest ih =>
    intro c h
    simp only [writePackets, writePacket]
    apply lineOk_andThen
    · apply lineOk_andThen (lineOk_items p c (h p List.mem_cons_self))
      intro c1; exact lineOk_newline c1
    · intro c1; exact ih c1 (fun x hx => h x (List.mem_cons_of_mem _ hx))

/-- a name of a loop header fits its line, indented or not -/
def headerL (n : Str) : Prop := (10 : CU) ∉ n ∧ n.length + (if Writer.countChar32 n < LINE then 1 else 0) ≤ LINE

theorem lineOk_headerNames : ∀ (ns : List Str) (c : Ctx), c.lastColumn = 0 → (∀ n ∈ ns, headerL n) →
    LineOk c (writeHeaderNames ns c) := by
  intro ns
  induction ns with
  | nil => intro c _ _; exact lineOk_nop c
  | cons n rest ih =>
    intro c h0 h
    have hn := h n List.mem_cons_self
    simp only [writeHeaderNames]
    split
    · exact lineOk_error _ _
    · apply lineOk_andThen_ok
      · -- one header line, written from column 0
        apply lineOk_of_track c _ _ (by simp)
        intro _ k hk
        have hk0 : k = 0 := by omega
        subst hk0
        have hno : (10 : CU) ∉ (if Writer.countChar32 n < LINE then [32] else []) ++ n := by
          simp only [List.mem_append, not_or]
          refine ⟨?_, hn.1⟩
          split <;> simp
        have hlen : ((if Writer.countChar32 n < LINE then [32] else []) ++ n).length ≤ LINE := by
          have := hn.2
          by_cases hc : Writer.countChar32 n < LINE
          · simp only [hc, ↓reduceIte] at this ⊢; simp; omega
          · simp only [hc, ↓reduceIte] at this ⊢; simpa using this
        generalize (if Writer.countChar32 n < LINE then [32] else []) ++ n = t at hno hlen
        obtain ⟨a1, a2⟩ := track_noeol t 0 hno
        rw [fitsU_append, endCol_append, a1, a2]
        simp only [fitsU, endCol, ↓reduceIte, Nat.zero_add, Bool.and_eq_true, decide_eq_true_eq, and_true]
        exact ⟨⟨hlen, hlen, Nat.zero_le _⟩, Nat.le_refl _⟩
      · exact ih _ rfl (fun x hx => h x (List.mem_cons_of_mem _ hx))

/-- a loop: header names and items as above -/
def loopL (l : WLoop) : Prop := (∀ n ∈ l.header, headerL n) ∧ ∀ p ∈ l.packets, itemsL p

theorem lineOk_lit_lf (c : Ctx) (t : Str) (c' : Ctx) (ht : (10 : CU) ∉ t) (hlen : t.length ≤ LINE) (hc' : c'.lastColumn = 0) :
    LineOk c (.ok (10 :: (t ++ [10]), c')) := by
  apply lineOk_of_track c _ _ (by omega)
  intro hc k hk
  obtain ⟨a1, a2⟩ := track_noeol t 0 ht
  simp only [fitsU, endCol, ↓reduceIte]
  rw [fitsU_append, endCol_append, a1, a2]
  simp only [fitsU, endCol, ↓reduceIte, Nat.zero_add, Bool.and_eq_true, decide_eq_true_eq, and_true]
  exact ⟨⟨by omega, hlen, hlen, Nat.zero_le _⟩, by omega⟩

theorem lineOk_loop (l : WLoop) (c : Ctx) (h : loopL l) : LineOk c (writeLoop l c) := by
  unfold writeLoop
  apply lineOk_andThen
  · split
    · have := lineOk_newline c
      exact lineOk_congr (c := c) rfl (by
        intro hc o c' he
        simp only [writeNewline, Except.ok.injEq, Prod.mk.injEq] at he
        obtain ⟨l1, l2⟩ := this hc [10] { c with lastColumn := 0 } rfl
        rw [← he.1, ← he.2]
        exact ⟨l1, l2⟩)
    · apply lineOk_andThen_ok (c1 := { c with writeItemNames := false, lastColumn := 0 })
      · have := lineOk_lit_lf c (a!"loop_") { c with writeItemNames := false, lastColumn := 0 } (by decide) (by decide) rfl
        simpa [LOOP_HEAD] using this
      · exact lineOk_headerNames l.header _ rfl h.1
  · intro c1
    split
    · exact lineOk_error _ _
    · apply lineOk_andThen (lineOk_packets l.packets c1 h.2)
      intro c2; exact lineOk_newline c2

theorem lineOk_loops : ∀ (ls : List WLoop) (c : Ctx), (∀ l ∈ ls, loopL l) → LineOk c (writeLoops ls c) := by
  intro ls
  induction ls with
  | nil => intro c _; exact lineOk_nop c
  | cons l rest ih =>
    intro c h
    simp only [writeLoops]
    apply lineOk_andThen (lineOk_loop l c (h l List.mem_cons_self))
    intro c1; exact ih c1 (fun x hx => h x (List.mem_cons_of_mem _ hx))

/-- a block or frame code leaves room for `data_` / `save_` -/
def codeL (code : Str) : Prop := (10 : CU) ∉ code ∧ code.length + 5 ≤ LINE

mutual
  def containerL : WContainer → Prop
    | .mk code frames loops => codeL code ∧ containersL frames ∧ ∀ l ∈ loops, loopL l
  def containersL : List WContainer → Prop
    | [] => True
    | k :: rest => containerL k ∧ containersL rest
end

mutual
  theorem lineOk_container (k : WContainer) (c : Ctx) (h : containerL k) : LineOk c (writeContainer k c) := by
    match k, h with
    | .mk code frames loops, h =>
      simp only [containerL] at h
      unfold writeContainer
      split
      · exact lineOk_error _ _
      · apply lineOk_andThen
        · -- the header line
          have hno : (10 : CU) ∉ (if c.depth = 0 then a!"data_" else a!"save_") ++ code := by
            simp only [List.mem_append, not_or]
            refine ⟨?_, h.1.1⟩
            split <;> decide
          have hlen : ((if c.depth = 0 then a!"data_" else a!"save_") ++ code).length ≤ LINE := by
            have := h.1.2
            split <;> simp <;> omega
          have := lineOk_lit_lf c _ { c with lastColumn := 0, depth := c.depth + 1 } hno hlen rfl
          have e : (if c.depth = 0 then BLOCK_HEAD else FRAME_HEAD) ++ code ++ [10]
              = 10 :: ((if c.depth = 0 then a!"data_" else a!"save_") ++ code ++ [10]) := by
            split <;> simp [BLOCK_HEAD, FRAME_HEAD]
          rw [e]
          exact this
        · intro c1
          apply lineOk_andThen (lineOk_containers frames c1 h.2.1)
          intro c2
          apply lineOk_andThen (lineOk_loops loops c2 h.2.2)
          intro c3
          simp only []
          split
          · apply lineOk_of_track c3 _ _ (by simp [writeNewline])
            intro hc k hk
            simp only [writeNewline, fitsU, endCol, ↓reduceIte, Bool.and_eq_true, decide_eq_true_eq]
            exact ⟨⟨by omega, Nat.zero_le _⟩, Nat.le_refl _⟩
          · have := lineOk_lit_lf c3 (a!"save_") { c3 with depth := c3.depth - 1, lastColumn := 0 } (by decide) (by decide) rfl
            simpa [FRAME_END] using this
  theorem lineOk_containers (ks : List WContainer) (c : Ctx) (h : containersL ks) : LineOk c (writeContainers ks c) := by
    match ks, h with
    | [], _ => unfold writeContainers; exact lineOk_nop c
    | k :: rest, h =>
      simp only [containersL] at h
      unfold writeContainers
      apply lineOk_andThen (lineOk_container k c h.1)
      intro c1
      exact lineOk_containers rest c1 h.2
end

end CifModel.Lemmas.WriterLines
