import CifModel.Lemmas.DefectChars
import CifModel.Lemmas.ParserDefectSeg
/-
  Lemmas/DefectCharsSeg (group gW) — segments of the element loop (Lemmas/ParserDefectSeg) placed in whole TEXTS.

  `block_segs_run` / `block_segs_chars` generalise `block_defect_run` / `block_defect_chars` (Lemmas/DefectChars, one report) to a
  segment with ANY list of reports: the text is an accepted chunk list whose tokens are well-formed blocks, the header `data_bc`,
  the tokens of a segment of the block's element loop, well-formed blocks.  The whole parse under accept-all returns CIF_OK, its
  log is exactly the reports of the segment (document order), the content is what the segment leaves (pruned of empty loops at
  the end of the block) between the contents of the blocks around; every report is on the line behind its token position
  (`LinesAt`, from `repAt_line`).
-/
namespace CifModel.Lemmas.DefectChars
open CifModel CifModel.Model CifModel.Model.Lexer CifModel.Model.Parser CifModel.Spec.Lexical CifModel.Spec.Grammar
open CifModel.Lemmas.LexGlue

/-- the block of a segment, any blocks before and behind (token level) -/
theorem block_segs_run (o : Opts) (hstore : o.store = true) (hmfd : o.maxFrameDepth ≠ 0) (pre post : List Block) (bc : Str)
    (T : List TokSpec) (fs' : List Container) (ls' : List Loop) (sp : List (Code × Nat)) (n k need : Nat) (bseen2 : List Str) (s : PS)
    (total : Nat) (w : W) (hw : w.cif = [])
    (hpre : wfBlocks o pre [] = true) (hcode : wfCode bc = true)
    (hnew : ∀ c ∈ denote o.dia o.normKey pre, codeIs o.norm (o.norm bc) c = false)
    (hpost : wfBlocks o post bseen2 = true)
    (hseen2 : ∀ c ∈ denote o.dia o.normKey pre ++ [pruneC (.mk bc fs' ls')], o.norm c.code ∈ bseen2)
    (hseg : Seg o [o.norm bc] (fun x => denote o.dia o.normKey pre ++ [x]) bc true T [] [] fs' ls' sp n k need termFollow)
    (hfuel : szBlocks pre + szBlocks post + pre.length + post.length + k + need + 5 ≤ total)
    (hF : Feeds o s (blocksToks pre ++ ((.blockHead, bc) :: (T ++ (blocksToks post ++ [(.end_, [])]))))) :
    ∃ s' rs, blocksLoop o total s acceptAll w
        = .ok s' { log := rs.reverse ++ w.log,
                   cif := denote o.dia o.normKey pre ++ pruneC (.mk bc fs' ls') :: denote o.dia o.normKey post }
      ∧ RepsAt o s rs (shiftSpec ((blocksToks pre).length + 1) sp) := by
  simp only [wfCode, Bool.and_eq_true] at hcode
  obtain ⟨F, rfl⟩ : ∃ F, total = (F + post.length + 1) + pre.length := ⟨total - pre.length - post.length - 1, by omega⟩
  -- the blocks in front
  obtain ⟨s1, h1, h2, hat⟩ := blocks_prefix_at o hstore hmfd pre [] _ s (F + post.length + 1) acceptAll w hpre
    (by rw [hw]; intro c hc; cases hc) (by omega) ⟨.blockHead, bc, _, rfl, Or.inl rfl⟩ hF
  -- the header
  obtain ⟨t, s1', hty, htx, hn, htk, hr⟩ := h2.inv
  have hnew' : ∀ c ∈ ({ w with cif := w.cif ++ denote o.dia o.normKey pre } : W).cif, codeIs o.norm (o.norm bc) c = false := by
    intro c hc; simp only [hw, List.nil_append] at hc; exact hnew c hc
  -- the body
  obtain ⟨f, hf⟩ : ∃ f, F + post.length = ((f + 1) + k) + 1 := ⟨F + post.length - k - 2, by omega⟩
  obtain ⟨s2, rs, h3, hrs, h4, _⟩ := hseg (blocksToks post ++ [(.end_, [])]) (consume s1') (f + 1)
    { w with cif := (w.cif ++ denote o.dia o.normKey pre) ++ [.mk bc [] []] } (by simp [hw]) (by omega)
    (blockFollow_term (blocks_rest_head post)) hr
  -- the end of the container
  obtain ⟨ty, tx, ts, hrest, hfol⟩ := blocks_rest_head post
  rw [hrest] at h4
  obtain ⟨t3, s3, hty3, htx3, hn3, ht3, hr3⟩ := h4.inv
  have h5 : Feeds o s3 (blocksToks post ++ [(.end_, [])]) := by
    rw [hrest, ← hty3, ← htx3]; exact Feeds.pending ht3 hr3
  have hv := View.block o (denote o.dia o.normKey pre) bc hnew
  -- the blocks behind
  obtain ⟨s4, h6⟩ := blocks_structure o hstore hmfd post bseen2 s3 F acceptAll
    { log := rs.reverse ++ w.log, cif := denote o.dia o.normKey pre ++ [pruneC (.mk bc fs' ls')] } hpost hseen2 (by omega) h5
  refine ⟨s4, rs, ?_, RepsAt.shift (hat.step hn htk) hrs⟩
  rw [h1]
  conv => lhs; rw [blocksLoop]
  simp only [Parser.bind_eq, Parser.pure_eq, P.bind, P.pure, hn, hty, htx, hstore, if_true, cstr_noNul hcode.2,
    createIn_block o bc _ _ acceptAll _ hcode.1 hnew']
  conv => lhs; rw [hf, parseContainer]
  simp only [Parser.bind_eq, Parser.pure_eq, P.bind, P.pure, h3]
  conv => lhs; rw [elemsLoop]
  rcases hfol with h | h
  · simp only [Parser.bind_eq, Parser.pure_eq, P.bind, P.pure, hn3, hty3, h, if_true, getCif, setCif, hv.upd]
    rw [← hf, h6]; simp
  · simp only [Parser.bind_eq, Parser.pure_eq, P.bind, P.pure, hn3, hty3, h, if_true, getCif, setCif, hv.upd]
    rw [← hf, h6]; simp

/-- the lines of the reports `rs` of a text: each on the line behind the token at its position, or behind the next token -/
def LinesAt (cs : List Chunk) : List Report → List (Code × Nat) → Prop
  | [], [] => True
  | r :: rs, cj :: sp => (r.line = endLine cs cj.2 ∨ r.line = endLine cs (cj.2 + 1)) ∧ LinesAt cs rs sp
  | [], _ :: _ => False
  | _ :: _, [] => False

theorem repsAt_lines (o : Opts) (cs : List Chunk) (hok : okC o.dia .end_ [] cs) (hfit : linesFit 0 (renderChunks cs) = true) :
    ∀ {rs : List Report} {sp : List (Code × Nat)}, (∀ cj ∈ sp, cj.2 ≤ (toks cs).length) →
      RepsAt o { scan := Scan.init (renderChunks cs), tok := none } rs sp → LinesAt cs rs sp
  | [], [], _, _ => trivial
  | _ :: _, cj :: _, hj, ⟨_, hr, ht⟩ =>
    ⟨repAt_line o cs hok hfit (hj cj List.mem_cons_self) hr, repsAt_lines o cs hok hfit (fun c hc => hj c (List.mem_cons_of_mem _ hc)) ht⟩
  | [], _ :: _, _, hf => hf.elim
  | _ :: _, [], _, hf => hf.elim

/-- **a segment of a data block's element loop, at character level**: the text is ANY accepted chunk list whose tokens are
    well-formed blocks `preB`, the header `data_bc`, the tokens `T` of the segment, well-formed blocks `postB`.  The whole parse
    under accept-all: CIF_OK, the log is EXACTLY the reports of the segment in document order (codes `sp`), each on the line of
    its position, the content is what the segment leaves. -/
theorem block_segs_chars (o : Opts) (hstore : o.store = true) (hmfd : o.maxFrameDepth ≠ 0) (hutf : o.notUtf8 = false)
    (cs : List Chunk) (c : CU) (rest : Str) (preB postB : List Block) (bc : Str) (T : List TokSpec)
    (fs' : List Container) (ls' : List Loop) (sp : List (Code × Nat)) (n k need : Nat) (bseen2 : List Str)
    (hok : okC o.dia .end_ [] cs) (hfit : linesFit 0 (renderChunks cs) = true)
    (hc : renderChunks cs = c :: rest) (hfirst : disallowedInitial c = false) (hbom : (c == 0xFEFF) = false)
    (ht : toks cs = blocksToks preB ++ ((.blockHead, bc) :: (T ++ blocksToks postB)))
    (hpreB : wfBlocks o preB [] = true) (hcode : wfCode bc = true) (hnew : ∀ b ∈ preB, o.norm b.code ≠ o.norm bc)
    (hpostB : wfBlocks o postB bseen2 = true) (hb2 : ∀ b ∈ preB, o.norm b.code ∈ bseen2) (hb2' : o.norm bc ∈ bseen2)
    (hneed : k + need ≤ 2 * T.length + 20) (hsp : ∀ cj ∈ sp, cj.2 ≤ T.length)
    (hseg : View o [o.norm bc] (fun x => denote o.dia o.normKey preB ++ [x]) bc →
      Seg o [o.norm bc] (fun x => denote o.dia o.normKey preB ++ [x]) bc true T [] [] fs' ls' sp n k need termFollow) :
    ∃ rs, parse o acceptAll [] (renderChunks cs)
        = { rc := 0, log := rs,
            cif := denote o.dia o.normKey preB ++ pruneC (.mk bc fs' ls') :: denote o.dia o.normKey postB }
      ∧ rs.map (·.code) = sp.map (·.1)
      ∧ LinesAt cs rs (shiftSpec ((blocksToks preB).length + 1) sp) := by
  have hfeeds := feeds_chunks o cs [] 1 0 .end_ hok (by simpa [renderWs] using hfit)
  have hfuel := fuel_block_defect o.dia cs .end_ [] hok preB postB bc T k need ht hneed
  simp only [renderWs, List.map_nil, List.flatten_nil, List.nil_append] at hfeeds
  rw [ht] at hfeeds
  have hS : ({ scan := Scan.init (renderChunks cs), tok := none } : PS) = { scan := Scan.init (c :: rest), tok := none } := by rw [hc]
  rw [hc] at hfeeds hfuel
  have hnewc : ∀ x ∈ denote o.dia o.normKey preB, codeIs o.norm (o.norm bc) x = false := by
    intro x hx
    obtain ⟨b, hb, hcb⟩ := denote_code hx
    simp only [codeIs, hcb, beq_eq_false_iff_ne, ne_eq]
    exact hnew b hb
  obtain ⟨s', rs, h, hrs⟩ := block_segs_run o hstore hmfd preB postB bc T fs' ls' sp n k need bseen2 _ (fuelFor (c :: rest))
    { log := [], cif := [] } rfl hpreB hcode hnewc hpostB
    (by
      intro x hx
      rcases List.mem_append.mp hx with hx | hx
      · obtain ⟨b, hb, hcb⟩ := denote_code hx
        rw [hcb]; exact hb2 b hb
      · simp only [List.mem_singleton] at hx
        rw [hx, pruneC_code]; exact hb2')
    (hseg (View.block o (denote o.dia o.normKey preB) bc hnewc)) hfuel (by simpa [List.append_assoc] using hfeeds)
  have hrs : RepsAt o { scan := Scan.init (renderChunks cs), tok := none } rs (shiftSpec ((blocksToks preB).length + 1) sp) := by
    rw [hS]; exact hrs
  refine ⟨rs, ?_, ?_, ?_⟩
  · rw [hc, parse_of_blocks o acceptAll c rest s' _ hutf hfirst hbom h]
    simp
  · have := RepsAt.codes hrs
    simpa [shiftSpec, List.map_map, Function.comp_def] using this
  · refine repsAt_lines o cs hok hfit ?_ hrs
    intro cj hcj
    simp only [shiftSpec, List.mem_map] at hcj
    obtain ⟨x, hx, rfl⟩ := hcj
    have := hsp x hx
    rw [ht]
    simp only [List.length_append, List.length_cons]
    omega

/-! ### nesting contexts: token counts and fuel -/

theorem nestToks_length : ∀ (ctx : List Level) (T : List TokSpec), nestShift ctx + T.length ≤ (nestToks ctx T).length
  | [], T => by simp [nestShift, nestToks]
  | L :: r, T => by
    have := nestToks_length r T
    simp only [nestShift, nestToks, List.length_append, List.length_cons, List.length_nil]
    omega

theorem nest_fuel : ∀ (ctx : List Level) (T : List TokSpec) (k need c : Nat), k + need ≤ 2 * T.length + c →
    nestK ctx k + nestNeed ctx need k ≤ 2 * (nestToks ctx T).length + c
  | [], T, k, need, c, h => by simpa [nestK, nestNeed, nestToks] using h
  | L :: r, T, k, need, c, h => by
    have ih := nest_fuel r T k need c h
    have h1 := WriterChunks.szElems_toks L.pre
    have h2 := WriterChunks.szElems_toks L.post
    have e1 : nestK (L :: r) k = L.post.length + (1 + L.pre.length) := rfl
    have e2 : nestNeed (L :: r) need k = szElems L.pre + (nestNeed r need k + nestK r k + 2) + szElems L.post := rfl
    rw [e1, e2]
    simp only [nestToks, List.length_append, List.length_cons, List.length_nil]
    omega

end CifModel.Lemmas.DefectChars
