import CifModel.Lemmas.ParserDetLex
/-
  Lemmas/ParserDetProd — prefix determinism (`DetP`) of the parser monad and of every production of Model/Parser.lean.
-/
namespace CifModel.Model.Parser
open CifModel CifModel.Model CifModel.Model.Lexer

def logOf {α} : PRes α → List Report
  | .ok _ w => w.log
  | .abort _ w => w.log

/-- the result codes the model leaves a production with WITHOUT a callback having produced them (`fail`):
    CIF_INTERNAL_ERROR (the "should not happen" branches), CIF_INVALID_INDEX (a table key with a disallowed character —
    the scanner has reported that character before), CIF_INVALID_ITEMNAME / CIF_DUP_ITEMNAME (cif_packet_create), NOFUEL -/
def FailCode (c : Int) : Prop := c = 5 ∨ c = 73 ∨ c = 42 ∨ c = 41 ∨ c = 1001

instance : DecidablePred FailCode := fun c => by unfold FailCode; exact inferInstance

theorem failCode_pos {c : Int} (h : FailCode c) : c > 0 := by
  unfold FailCode at h; omega

/-- prefix determinism of a parser action (see Lemmas/ParserDet): `d` = what the accept-all run adds to the log;
    `fails`: an accept-all run can only be left through `fail` with one of the codes above -/
structure DetP {α} (m : P α) : Prop where
  run : ∀ (pol : Policy) (w : W), ∃ d, logOf (m acceptAll w) = d ++ w.log ∧ (∀ r ∈ d, r.code ≠ 0) ∧
      match firstNZ pol w.log.length d with
      | none => m pol w = m acceptAll w
      | some x => ∃ c, m pol w = .abort (pol (w.log.length + x.2.length) x.1) ⟨x.1 :: x.2 ++ w.log, c⟩
  fails : ∀ (w wa : W) (rv : Int), m acceptAll w = .abort rv wa → FailCode rv

theorem DetP.pure {α} (a : α) : DetP (P.pure a) :=
  ⟨fun _ w => ⟨[], by simp [P.pure, logOf], by simp, by simp [firstNZ, P.pure]⟩, fun w wa rv h => by simp [P.pure] at h⟩

theorem DetP.fail {α} (c : Int) (hc : FailCode c) : DetP (fail c : P α) :=
  ⟨fun _ w => ⟨[], by simp [Parser.fail, logOf], by simp, by simp [firstNZ, Parser.fail]⟩,
   fun w wa rv h => by simp only [Parser.fail, PRes.abort.injEq] at h; rw [← h.1]; exact hc⟩

theorem DetP.getCif : DetP getCif :=
  ⟨fun _ w => ⟨[], by simp [Parser.getCif, logOf], by simp, by simp [firstNZ, Parser.getCif]⟩, fun w wa rv h => by simp [Parser.getCif] at h⟩

theorem DetP.setCif (c : Cif) : DetP (setCif c) :=
  ⟨fun _ w => ⟨[], by simp [Parser.setCif, logOf], by simp, by simp [firstNZ, Parser.setCif]⟩, fun w wa rv h => by simp [Parser.setCif] at h⟩

theorem DetP.report (code : Code) (line col : Nat) (hc : code ≠ 0) : DetP (Parser.report code line col) := by
  refine ⟨?_, fun w wa rv h => by rw [report_zero code line col acceptAll w rfl] at h; cases h⟩
  intro pol w
  have ha : Parser.report code line col acceptAll w = PRes.ok () { w with log := ⟨code, line, col⟩ :: w.log } :=
    report_zero code line col acceptAll w rfl
  refine ⟨[⟨code, line, col⟩], by simp [ha, logOf], by simpa using hc, ?_⟩
  simp only [firstNZ, List.length_nil, Nat.add_zero]
  by_cases h : pol w.log.length ⟨code, line, col⟩ = 0
  · simp [h, ha, report_zero code line col pol w h]
  · simp only [h, if_false]
    exact ⟨w.cif, by rw [report_nonzero code line col pol w h]; simp⟩

theorem DetP.ite {α} {c : Prop} [Decidable c] {a b : P α} (ha : DetP a) (hb : DetP b) : DetP (if c then a else b) := by
  split <;> assumption

theorem DetP.liftL {α} {m : L α} (hm : DetL m) (hn : NoAbort m) : DetP (Parser.liftL m) := by
  refine ⟨?_, ?_⟩
  · intro pol w
    obtain ⟨d, e, p, r⟩ := hm.run pol w.log
    refine ⟨d, ?_, p, ?_⟩
    · cases hA : m acceptAll w.log with
      | ok a l => rw [hA] at e; simpa [Parser.liftL, hA, logOf, logOfL] using e
      | abort rv l => rw [hA] at e; simpa [Parser.liftL, hA, logOf, logOfL] using e
    · cases hz : firstNZ pol w.log.length d with
      | none =>
        rw [hz] at r; simp only [] at r
        show Parser.liftL m pol w = Parser.liftL m acceptAll w
        simp only [Parser.liftL, r]
      | some x =>
        rw [hz] at r; simp only [] at r
        exact ⟨w.cif, by simp only [Parser.liftL, r]⟩
  · intro w wa rv h
    obtain ⟨a, l, hl⟩ := hn.run w.log
    simp [Parser.liftL, hl] at h

theorem DetP.bind {α β} {m : P α} {f : α → P β} (hm : DetP m) (hf : ∀ a, DetP (f a)) : DetP (P.bind m f) := by
  refine ⟨?_, ?_⟩
  rotate_left
  · intro w wa rv h
    cases hA : m acceptAll w with
    | abort rv' wa' => rw [P.bind_abort hA] at h; cases h; exact hm.fails _ _ _ hA
    | ok a wa' => rw [P.bind_ok hA] at h; exact (hf a).fails _ _ _ h
  intro pol w
  obtain ⟨d1, e1, p1, r1⟩ := hm.run pol w
  cases hA : m acceptAll w with
  | abort rv wa =>
    rw [hA] at e1 r1
    simp only [logOf] at e1
    refine ⟨d1, by simp [P.bind_abort hA, logOf, e1], p1, ?_⟩
    cases hz : firstNZ pol w.log.length d1 with
    | none =>
      rw [hz] at r1; simp only [] at r1 ⊢
      rw [P.bind_abort r1, P.bind_abort hA]
    | some x =>
      rw [hz] at r1; simp only [] at r1 ⊢
      obtain ⟨c, hc⟩ := r1
      exact ⟨c, by rw [P.bind_abort hc]⟩
  | ok a wa =>
    rw [hA] at e1 r1
    simp only [logOf] at e1
    obtain ⟨d2, e2, p2, r2⟩ := (hf a).run pol wa
    refine ⟨d2 ++ d1, ?_, ?_, ?_⟩
    · rw [P.bind_ok hA, e2, e1, List.append_assoc]
    · intro r hr
      rcases List.mem_append.mp hr with h | h
      · exact p2 r h
      · exact p1 r h
    · rw [firstNZ_append]
      cases hz : firstNZ pol w.log.length d1 with
      | some x =>
        rw [hz] at r1; simp only [] at r1 ⊢
        obtain ⟨c, hc⟩ := r1
        exact ⟨c, by rw [P.bind_abort hc]⟩
      | none =>
        rw [hz] at r1; simp only [] at r1 ⊢
        have hl : wa.log.length = w.log.length + d1.length := by rw [e1, List.length_append]; omega
        rw [hl] at r2
        rw [P.bind_ok r1, P.bind_ok hA]
        cases hz2 : firstNZ pol (w.log.length + d1.length) d2 with
        | none => rw [hz2] at r2; simpa using r2
        | some y =>
          rw [hz2] at r2
          simp only [Option.map_some] at r2 ⊢
          obtain ⟨c, hc⟩ := r2
          refine ⟨c, ?_⟩
          rw [hc, e1]
          have e : w.log.length + d1.length + y.2.length = w.log.length + (y.2 ++ d1).length := by
            rw [List.length_append]; omega
          rw [e]
          simp [List.append_assoc]

/-- the workhorse: decompose a production into the closure lemmas -/
syntax "detp" : tactic
macro_rules
  | `(tactic| detp) => `(tactic| repeat (first
      | exact DetP.pure _
      | exact DetP.fail _ (by decide)
      | exact DetP.getCif
      | exact DetP.setCif _
      | exact DetP.report _ _ _ (by decide)
      | assumption
      | apply DetP.bind
      | apply DetP.ite
      | intro _
      | split))

theorem nextTok_det (o : Opts) (s : PS) : DetP (nextTok o s) := by
  unfold nextTok
  have h := DetP.liftL (nextToken_detl o.dia s.scan) (nextToken_noabort o.dia s.scan)
  simp only [bind_eq, pure_eq]
  detp


attribute [local irreducible] parseValue listLoop tableLoop tableEntry nextTok P.bind P.pure report Parser.fail
  headerLoop packetsLoop parseContainer elemsLoop blocksLoop

/-- `detq [h₁, …]`: as `detp`, also closing goals with the given (universally quantified) facts -/
syntax "detq" "[" term,* "]" : tactic
macro_rules
  | `(tactic| detq [$hs,*]) => `(tactic| repeat (first
      | exact DetP.pure _
      | exact DetP.fail _ (by decide)
      | exact DetP.getCif
      | exact DetP.setCif _
      | exact DetP.report _ _ _ (by decide)
      | (first $[| exact $hs ..]*)
      | apply DetP.bind
      | apply DetP.ite
      | intro _
      | split))

theorem values_det (o : Opts) : ∀ fuel : Nat,
    (∀ s, DetP (parseValue o fuel s)) ∧ (∀ s acc, DetP (listLoop o fuel s acc)) ∧
    (∀ s acc, DetP (tableLoop o fuel s acc)) ∧ (∀ s acc key, DetP (tableEntry o fuel s acc key)) := by
  intro fuel
  induction fuel with
  | zero =>
    refine ⟨?_, ?_, ?_, ?_⟩ <;> intros
    · rw [parseValue]; exact DetP.fail _ (by decide)
    · rw [listLoop]; exact DetP.fail _ (by decide)
    · rw [tableLoop]; exact DetP.fail _ (by decide)
    · rename_i key; cases key <;> rw [tableEntry] <;> exact DetP.fail _ (by decide)
  | succ fuel ih =>
    obtain ⟨hv, hl, ht, he⟩ := ih
    have hn := nextTok_det o
    refine ⟨?_, ?_, ?_, ?_⟩
    · intro s
      rw [parseValue]
      simp only [bind_eq, pure_eq]
      detq [hv, hl, ht, he, hn]
    · intro s acc
      rw [listLoop]
      simp only [bind_eq, pure_eq]
      detq [hv, hl, ht, he, hn]
    · intro s acc
      rw [tableLoop]
      simp only [bind_eq, pure_eq]
      detq [hv, hl, ht, he, hn]
    · intro s acc key
      cases key <;> rw [tableEntry] <;> simp only [bind_eq] <;> detq [hv, hl, ht, he, hn]

theorem parseValue_det (o : Opts) (fuel : Nat) (s : PS) : DetP (parseValue o fuel s) := (values_det o fuel).1 s

theorem setValue_det (o : Opts) (path : Path) (name : Str) (v : V) : DetP (setValue o path name v) := by
  unfold setValue
  simp only [bind_eq, pure_eq]
  detq []

theorem itemExists_det (o : Opts) (path : Path) (name : Str) : DetP (itemExists o path name) := by
  unfold itemExists
  simp only [bind_eq, pure_eq]
  detq []

theorem parseItem_det (o : Opts) (fuel : Nat) (s : PS) (cont : Option Path) (name : Option Str) :
    DetP (parseItem o fuel s cont name) := by
  unfold parseItem
  simp only [bind_eq, pure_eq]
  have hn := nextTok_det o
  have hv := parseValue_det o
  have hs := setValue_det o
  detq [hn, hv, hs]

theorem headerLoop_det (o : Opts) (cont : Option Path) : ∀ (fuel : Nat) (s : PS) (slots : List (Option Str)),
    DetP (headerLoop o cont fuel s slots) := by
  intro fuel
  induction fuel with
  | zero => intro s slots; rw [headerLoop]; exact DetP.fail _ (by decide)
  | succ fuel ih =>
    intro s slots
    rw [headerLoop]
    simp only [bind_eq, pure_eq]
    have hn := nextTok_det o
    have hi := itemExists_det o
    detq [hn, hi, ih]

theorem addPacket_det (o : Opts) (loopAt : Option Path) (p : List V) : DetP (addPacket o loopAt p) := by
  unfold addPacket
  simp only [bind_eq, pure_eq]
  detq []

theorem packetsLoop_det (o : Opts) (loopAt : Option Path) (slots : List (Option Str)) : ∀ (fuel : Nat) (s : PS) (k : Pk),
    DetP (packetsLoop o loopAt slots fuel s k) := by
  intro fuel
  induction fuel with
  | zero => intro s k; rw [packetsLoop]; exact DetP.fail _ (by decide)
  | succ fuel ih =>
    intro s k
    rw [packetsLoop]
    simp only [bind_eq, pure_eq]
    have hn := nextTok_det o
    have hv := parseValue_det o
    have ha := addPacket_det o
    detq [hn, hv, ha, ih]

theorem parseLoop_det (o : Opts) (fuel : Nat) (s : PS) (cont : Option Path) : DetP (parseLoop o fuel s cont) := by
  unfold parseLoop
  simp only [bind_eq, pure_eq]
  have hh := headerLoop_det o
  have hp := packetsLoop_det o
  detq [hh, hp]

theorem createIn_det (o : Opts) (isBlock : Bool) (parent : Path) (code : Str) (line col : Nat) :
    DetP (createIn o isBlock parent code line col) := by
  unfold createIn
  simp only [bind_eq, pure_eq]
  detq []

theorem containers_det (o : Opts) : ∀ fuel : Nat,
    (∀ s cont isBlock, DetP (parseContainer o fuel s cont isBlock)) ∧ (∀ s cont isBlock, DetP (elemsLoop o fuel s cont isBlock)) := by
  intro fuel
  induction fuel with
  | zero =>
    refine ⟨?_, ?_⟩ <;> intros
    · rw [parseContainer]; exact DetP.fail _ (by decide)
    · rw [elemsLoop]; exact DetP.fail _ (by decide)
  | succ fuel ih =>
    obtain ⟨hc, he⟩ := ih
    have hn := nextTok_det o
    have hi := itemExists_det o
    have hp := parseItem_det o
    have hl := parseLoop_det o
    have hk := createIn_det o
    refine ⟨?_, ?_⟩
    · intro s cont isBlock
      rw [parseContainer]
      simp only [bind_eq, pure_eq]
      detq [hc, he, hn, hi, hp, hl, hk]
    · intro s cont isBlock
      rw [elemsLoop]
      simp only [bind_eq, pure_eq]
      detq [hc, he, hn, hi, hp, hl, hk]

theorem blocksLoop_det (o : Opts) : ∀ (fuel : Nat) (s : PS), DetP (blocksLoop o fuel s) := by
  intro fuel
  induction fuel with
  | zero => intro s; rw [blocksLoop]; exact DetP.fail _ (by decide)
  | succ fuel ih =>
    intro s
    rw [blocksLoop]
    simp only [bind_eq, pure_eq]
    have hn := nextTok_det o
    have hk := createIn_det o
    have hc := (containers_det o fuel).1
    detq [hn, hk, hc, ih]

end CifModel.Model.Parser
