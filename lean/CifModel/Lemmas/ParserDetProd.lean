import CifModel.Lemmas.ParserDetLex
/-
  Lemmas/ParserDetProd — prefix determinism (`DetP`) of the parser monad and of every production of Model/Parser.lean.
-/
namespace CifModel.Model.Parser
open CifModel CifModel.Model CifModel.Model.Lexer

def logOf {α} : PRes α → List Report
  | .ok _ w => w.log
  | .abort _ w => w.log

/-- prefix determinism of a parser action (see Lemmas/ParserDet): `d` = what the accept-all run adds to the log -/
structure DetP {α} (m : P α) : Prop where
  run : ∀ (pol : Policy) (w : W), ∃ d, logOf (m acceptAll w) = d ++ w.log ∧ (∀ r ∈ d, r.code ≠ 0) ∧
      match firstNZ pol w.log.length d with
      | none => m pol w = m acceptAll w
      | some x => ∃ c, m pol w = .abort (pol (w.log.length + x.2.length) x.1) ⟨x.1 :: x.2 ++ w.log, c⟩

theorem DetP.pure {α} (a : α) : DetP (P.pure a) :=
  ⟨fun _ w => ⟨[], by simp [P.pure, logOf], by simp, by simp [firstNZ, P.pure]⟩⟩

theorem DetP.fail {α} (c : Int) : DetP (fail c : P α) :=
  ⟨fun _ w => ⟨[], by simp [Parser.fail, logOf], by simp, by simp [firstNZ, Parser.fail]⟩⟩

theorem DetP.getCif : DetP getCif :=
  ⟨fun _ w => ⟨[], by simp [Parser.getCif, logOf], by simp, by simp [firstNZ, Parser.getCif]⟩⟩

theorem DetP.setCif (c : Cif) : DetP (setCif c) :=
  ⟨fun _ w => ⟨[], by simp [Parser.setCif, logOf], by simp, by simp [firstNZ, Parser.setCif]⟩⟩

theorem DetP.report (code : Code) (line col : Nat) (hc : code ≠ 0) : DetP (Parser.report code line col) := by
  constructor
  intro pol w
  have ha : Parser.report code line col acceptAll w = PRes.ok () { w with log := ⟨code, line, col⟩ :: w.log } :=
    report_zero code line col acceptAll w rfl
  refine ⟨[⟨code, line, col⟩], by simp [ha, logOf], by simpa using hc, ?_⟩
  simp only [firstNZ, List.length_nil, Nat.add_zero]
  by_cases h : pol w.log.length ⟨code, line, col⟩ = 0
  · simp [h, ha, report_zero code line col pol w h]
  · simp only [h, if_false]
    exact ⟨w.cif, by rw [report_nonzero code line col pol w h]; simp⟩

theorem DetP.ite {α} {c : Prop} [Decidable c] {a b : P α} (ha : DetP a) (hb : DetP b) : DetP (if c then a else b) := by
  split <;> assumption

theorem DetP.liftL {α} {m : L α} (hm : DetL m) : DetP (Parser.liftL m) := by
  constructor
  intro pol w
  obtain ⟨d, e, p, r⟩ := hm.run pol w.log
  refine ⟨d, ?_, p, ?_⟩
  · cases hA : m acceptAll w.log with
    | ok a l => rw [hA] at e; simpa [Parser.liftL, hA, logOf, logOfL] using e
    | abort rv l => rw [hA] at e; simpa [Parser.liftL, hA, logOf, logOfL] using e
  · cases hz : firstNZ pol w.log.length d with
    | none =>
      rw [hz] at r; simp only [] at r
      show Parser.liftL m pol w = Parser.liftL m acceptAll w
      simp only [Parser.liftL, r]
    | some x =>
      rw [hz] at r; simp only [] at r
      exact ⟨w.cif, by simp only [Parser.liftL, r]⟩

theorem DetP.bind {α β} {m : P α} {f : α → P β} (hm : DetP m) (hf : ∀ a, DetP (f a)) : DetP (P.bind m f) := by
  constructor
  intro pol w
  obtain ⟨d1, e1, p1, r1⟩ := hm.run pol w
  cases hA : m acceptAll w with
  | abort rv wa =>
    rw [hA] at e1 r1
    simp only [logOf] at e1
    refine ⟨d1, by simp [P.bind_abort hA, logOf, e1], p1, ?_⟩
    cases hz : firstNZ pol w.log.length d1 with
    | none =>
      rw [hz] at r1; simp only [] at r1 ⊢
      rw [P.bind_abort r1, P.bind_abort hA]
    | some x =>
      rw [hz] at r1; simp only [] at r1 ⊢
      obtain ⟨c, hc⟩ := r1
      exact ⟨c, by rw [P.bind_abort hc]⟩
  | ok a wa =>
    rw [hA] at e1 r1
    simp only [logOf] at e1
    obtain ⟨d2, e2, p2, r2⟩ := (hf a).run pol wa
    refine ⟨d2 ++ d1, ?_, ?_, ?_⟩
    · rw [P.bind_ok hA, e2, e1, List.append_assoc]
    · intro r hr
      rcases List.mem_append.mp hr with h | h
      · exact p2 r h
      · exact p1 r h
    · rw [firstNZ_append]
      cases hz : firstNZ pol w.log.length d1 with
      | some x =>
        rw [hz] at r1; simp only [] at r1 ⊢
        obtain ⟨c, hc⟩ := r1
        exact ⟨c, by rw [P.bind_abort hc]⟩
      | none =>
        rw [hz] at r1; simp only [] at r1 ⊢
        have hl : wa.log.length = w.log.length + d1.length := by rw [e1, List.length_append]; omega
        rw [hl] at r2
        rw [P.bind_ok r1, P.bind_ok hA]
        cases hz2 : firstNZ pol (w.log.length + d1.length) d2 with
        | none => rw [hz2] at r2; simpa using r2
        | some y =>
          rw [hz2] at r2
          simp only [Option.map_some] at r2 ⊢
          obtain ⟨c, hc⟩ := r2
          refine ⟨c, ?_⟩
          rw [hc, e1]
          have e : w.log.length + d1.length + y.2.length = w.log.length + (y.2 ++ d1).length := by
            rw [List.length_append]; omega
          rw [e]
          simp [List.append_assoc]

/-- the workhorse: decompose a production into the closure lemmas -/
syntax "detp" : tactic
macro_rules
  | `(tactic| detp) => `(tactic| repeat (first
      | exact DetP.pure _
      | exact DetP.fail _
      | exact DetP.getCif
      | exact DetP.setCif _
      | exact DetP.report _ _ _ (by decide)
      | assumption
      | apply DetP.bind
      | apply DetP.ite
      | intro _
      | split))

theorem nextTok_det (o : Opts) (s : PS) : DetP (nextTok o s) := by
  unfold nextTok
  have h := DetP.liftL (nextToken_detl o.dia s.scan)
  simp only [bind_eq, pure_eq]
  detp

end CifModel.Model.Parser
