import CifModel.Model.BufScan
import CifModel.Lemmas.ScanBuf
import CifModel.Lemmas.FillRun
import CifModel.Lemmas.LexerBasic
/-
  Lemmas/BufScan — the abstraction from the buffer-level scanner state (Model.BufScan.BS) to what the list-level lexer
  (Model.Lexer) works on, and the specification of every primitive (get_more_chars, PEEK_CHAR / NEXT_CHAR, BACK_UP,
  SCAN_UCHAR's buffer effects, HANDLE_UNPAIRED_LEAD) in terms of that abstraction:

    text s       = buffer[text_start, next_char)                                   the token text scanned so far
    remaining s  = buffer[next_char, buffer_limit) ++ normFrom cr_pending (everything the source still holds)
                                                                                   = the lexer model's `rest`
  A refill (`getMore`) changes neither (C08_buffer_moves_preserve_token + getMoreChars_spec), a scan step moves the head of
  `remaining` to the end of `text`.
-/
namespace CifModel.Model.BufScan
open CifModel CifModel.Model.Chars CifModel.Model.Lexer CifModel.Model.Fill CifModel.Model.ScanBuf CifModel.Spec.Eol

/-- the standard way to prove an equation between slices of the buffer: pointwise -/
macro "buf_ext" : tactic => `(tactic| (apply List.ext_getElem?; intro i; grind))

/-! ### abstraction -/

def BS.text (s : BS) : Str := s.sb.tokenText
def BS.remaining (s : BS) : Str := s.sb.unread ++ normFrom s.fs.crPending s.src.flat
/-- termination measure of the scan loops: a scan step shortens `remaining`, a refill shortens the source -/
def BS.measure (s : BS) : Nat := s.remaining.length + s.src.flat.length

/-- what every state reached by the scanner satisfies -/
structure Good (mf : Nat) (s : BS) : Prop where
  inv : s.sb.Inv
  size : 1 ≤ s.sb.size
  mf : 1 ≤ mf
  ok : s.src.ok
  eof : s.fs.atEof = true → s.src.flat = []

theorem Good.text_length {mf : Nat} {s : BS} (g : Good mf s) : s.text.length = s.sb.next - s.sb.textStart := by
  obtain ⟨h1, h2, h3, h4, h5⟩ := g.inv
  simp only [BS.text, SB.tokenText, List.length_take, List.length_drop]
  omega

theorem normFrom_length_le (pc : Bool) (l : Str) : (normFrom pc l).length ≤ l.length := by
  induction l generalizing pc with
  | nil => simp [normFrom_nil]
  | cons c r ih =>
    rw [normFrom_cons]
    split
    · have := ih true; simp only [List.length_cons]; omega
    · split
      · have := ih false; simp only [List.length_cons]; omega
      · have := ih false; simp only [List.length_cons]; omega

theorem Good.measure_lt_fuelOf {mf : Nat} {s : BS} (g : Good mf s) : s.measure < fuelOf s := by
  obtain ⟨h1, h2, h3, h4, h5⟩ := g.inv
  have := normFrom_length_le s.fs.crPending s.src.flat
  simp only [BS.measure, BS.remaining, fuelOf, SB.unread, List.length_append, List.length_take, List.length_drop]
  omega

/-! ### get_more_chars -/

theorem getMoreChars_units (st : FillSt) (count : Nat) (src : Src) :
    (getMoreChars st count src).1.length ≤ count ∧
    ((getMoreChars st count src).1 = [] ↔ (getMoreChars st count src).2.1.atEof = true) := by
  unfold getMoreChars
  by_cases ha : st.atEof = true
  · simp [ha]
  · simp only [ha, if_false, Bool.false_eq_true]
    by_cases he : (readLoop 2 st.crPending count src).1 = []
    · simp [he]
    · simp only [he, if_false]
      rw [validUnits_eq]
      refine ⟨?_, ?_⟩
      · have h1 := normFrom_length_le false (readLoop 2 st.crPending count src).1
        have h2 : (readLoop 2 st.crPending count src).1.length ≤ count := by
          have hr : ∀ (p : Bool) (sr : Src), (readLoop 1 p count sr).1.length ≤ count := by
            intro p sr
            have := Src.read_length sr count
            simp only [readLoop]
            split
            · simp
            · split
              · split
                · simp [readLoop]
                · simp only [List.length_tail]; omega
              · exact this
          have := Src.read_length src count
          simp only [readLoop]
          split
          · simp
          · split
            · split
              · exact hr _ _
              · simp only [List.length_tail]; omega
            · exact this
        omega
      · constructor
        · intro h; exact absurd h (normFrom_false_ne_nil _ he)
        · intro h; simp at h

/-- for ANY buffer size ≥ 1: after making room there is room for at least one unit -/
theorem makeRoom_room1 (mf : Nat) (b : SB) (hinv : b.Inv) (hsize : 1 ≤ b.size) (hmf : 1 ≤ mf) :
    1 ≤ (makeRoom mf b).room ∧ 1 ≤ (makeRoom mf b).size := by
  obtain ⟨h1, h2, h3, h4, h5⟩ := hinv
  unfold makeRoom SB.room
  by_cases hr : b.textStart ≥ b.limit
  · rw [if_pos hr]; simp only; omega
  · rw [if_neg hr]
    by_cases hm : b.size < b.limit + mf
    · rw [if_pos hm]
      by_cases hh : (b.next - b.textStart) * 2 < b.size
      · simp only [hh, if_true]; omega
      · simp only [hh, if_false]; omega
    · rw [if_neg hm]; omega

theorem getMore_spec (mf : Nat) (s : BS) (g : Good mf s) (hn : s.sb.next = s.sb.limit) :
    Good mf (getMore mf s).2 ∧ (getMore mf s).2.text = s.text ∧ (getMore mf s).2.sb.tvalueOffset = s.sb.tvalueOffset ∧
    (getMore mf s).2.line = s.line ∧ (getMore mf s).2.col = s.col ∧ (getMore mf s).2.tvlen = s.tvlen ∧
    (getMore mf s).2.ttype = s.ttype ∧ (getMore mf s).2.remaining = s.remaining ∧
    ((getMore mf s).1 = false → s.remaining = [] ∧ (getMore mf s).2.fs.atEof = true ∧
        (getMore mf s).2.sb.next = (getMore mf s).2.sb.limit ∧ (getMore mf s).2.sb.limit < (getMore mf s).2.sb.size) ∧
    ((getMore mf s).1 = true → (getMore mf s).2.sb.next < (getMore mf s).2.sb.limit ∧
        (getMore mf s).2.src.flat.length < s.src.flat.length) := by
  have m := makeRoom_spec mf s.sb g.inv
  have rm := makeRoom_room1 mf s.sb g.inv g.size g.mf
  have hu := getMoreChars_units s.fs (makeRoom mf s.sb).room s.src
  have hs := getMoreChars_spec s.fs (makeRoom mf s.sb).room s.src g.ok rm.1
  have hun := m.2.2.2 hn
  have hrem0 : s.remaining = normFrom s.fs.crPending s.src.flat := by
    simp [BS.remaining, SB.unread, hn]
  by_cases he : (getMoreChars s.fs (makeRoom mf s.sb).room s.src).1 = []
  · have hgm : getMore mf s = (false, ⟨makeRoom mf s.sb, s.tvlen, s.line, s.col, s.ttype,
        (getMoreChars s.fs (makeRoom mf s.sb).room s.src).2.1, (getMoreChars s.fs (makeRoom mf s.sb).room s.src).2.2⟩) := by
      unfold getMore; simp only [he, if_true]
    rw [hgm]
    have hat := hu.2.mp he
    have hfl := hs.2.2 g.eof hat
    have h1 := hs.1
    rw [he, hfl, normFrom_nil, List.nil_append] at h1
    refine ⟨⟨m.1, rm.2, g.mf, hs.2.1, fun _ => hfl⟩, m.2.1, m.2.2.1, rfl, rfl, rfl, rfl, ?_, fun _ => ⟨?_, hat, hun.2, by have := rm.1; simp only [SB.room] at this; show (makeRoom mf s.sb).limit < (makeRoom mf s.sb).size; omega⟩, fun h => by simp at h⟩
    · show (makeRoom mf s.sb).unread ++ normFrom _ _ = s.remaining
      rw [hun.1, hfl, normFrom_nil, hrem0, ← h1]; rfl
    · rw [hrem0, ← h1]
  · have hgm : getMore mf s = (true, ⟨append (makeRoom mf s.sb) (getMoreChars s.fs (makeRoom mf s.sb).room s.src).1, s.tvlen, s.line, s.col, s.ttype,
        (getMoreChars s.fs (makeRoom mf s.sb).room s.src).2.1, (getMoreChars s.fs (makeRoom mf s.sb).room s.src).2.2⟩) := by
      unfold getMore; simp only [he, if_false]
    rw [hgm]
    have a := append_spec (makeRoom mf s.sb) _ m.1 hu.1
    have hat : (getMoreChars s.fs (makeRoom mf s.sb).room s.src).2.1.atEof = false := by
      cases h : (getMoreChars s.fs (makeRoom mf s.sb).room s.src).2.1.atEof
      · rfl
      · exact absurd (hu.2.mpr h) he
    have h0 : s.fs.atEof = false := by
      cases h : s.fs.atEof
      · rfl
      · have := getMoreChars_eof_stays s.fs (makeRoom mf s.sb).room s.src h
        rw [hat] at this; exact absurd this (by simp)
    have hprog := getMoreChars_progress s.fs (makeRoom mf s.sb).room s.src g.ok rm.1 hat h0
    have hsz : 1 ≤ (append (makeRoom mf s.sb) (getMoreChars s.fs (makeRoom mf s.sb).room s.src).1).size := rm.2
    refine ⟨⟨a.1, hsz, g.mf, hs.2.1, fun h => by rw [hat] at h; exact absurd h (by simp)⟩, ?_, ?_, rfl, rfl, rfl, rfl, ?_,
      fun h => by simp at h, fun _ => ⟨?_, hprog⟩⟩
    · show (append _ _).tokenText = s.sb.tokenText
      rw [a.2.1, m.2.1]
    · show (append _ _).tvalueOffset = s.sb.tvalueOffset
      rw [a.2.2.1, m.2.2.1]
    · show (append _ _).unread ++ normFrom _ _ = s.remaining
      rw [a.2.2.2, hun.1, List.nil_append, hs.1, hrem0]
    · show (makeRoom mf s.sb).next < (makeRoom mf s.sb).limit + _
      have : 0 < (getMoreChars s.fs (makeRoom mf s.sb).room s.src).1.length := List.length_pos_iff.mpr he
      rw [hun.2]; omega

/-! ### slices of the buffer under writes and pointer moves -/

theorem slice_set_last (B : Str) (ts n : Nat) (c : CU) (h1 : ts ≤ n) (h2 : n < B.length) :
    ((B.set n c).drop ts).take (n + 1 - ts) = (B.drop ts).take (n - ts) ++ [c] := by buf_ext

theorem slice_set_inner (B : Str) (ts n : Nat) (v : CU) (h1 : ts < n) (h2 : n ≤ B.length) :
    ((B.set (n - 1) v).drop ts).take (n - ts) = ((B.drop ts).take (n - ts)).dropLast ++ [v] := by buf_ext

theorem slice_cons (B : Str) (n lim : Nat) (h1 : n < lim) (h2 : lim ≤ B.length) :
    (B.drop n).take (lim - n) = B.getD n 0 :: (B.drop (n + 1)).take (lim - (n + 1)) := by buf_ext

theorem slice_set_before (B : Str) (i n m : Nat) (v : CU) (h : i < n) :
    ((B.set i v).drop n).take m = (B.drop n).take m := by buf_ext

theorem slice_dropLast (B : Str) (ts n : Nat) (h1 : ts < n) (h2 : n ≤ B.length) :
    (B.drop ts).take (n - 1 - ts) = ((B.drop ts).take (n - ts)).dropLast := by buf_ext

theorem slice_getLast (B : Str) (ts n : Nat) (h1 : ts < n) (h2 : n ≤ B.length) :
    ((B.drop ts).take (n - ts)).getLast? = some (B.getD (n - 1) 0) := by
  rw [List.getLast?_eq_getElem?]
  grind

theorem slice_snoc (B : Str) (ts n : Nat) (h1 : ts ≤ n) (h2 : n < B.length) :
    (B.drop ts).take (n + 1 - ts) = (B.drop ts).take (n - ts) ++ [B.getD n 0] := by buf_ext

theorem getD_set_self (B : Str) (n : Nat) (c : CU) (h : n < B.length) : (B.set n c).getD n 0 = c := by
  grind

/-! ### one unit consumed -/

/-- the state after SCAN_UCHAR decided `u` -/
def stepU (dia : Dialect) (s : BS) (u : UStep) : BS :=
  { ((if u.fixPrev = true then s.setBuf (s.sb.next - 1) (replChar dia) else s).setBuf s.sb.next u.c).setNext (s.sb.next + 1)
    with col := u.col }

theorem scanUCharB_eq (dia : Dialect) (s : BS) (lead : Bool) :
    scanUCharB dia s lead =
      L.bind (scanUChar dia s.line s.col (s.get (s.sb.next - 1)) (s.get s.sb.next) lead) (fun u => L.pure (u, stepU dia s u)) := rfl

/-- `s1` is `s` after one more unit was scanned: it now stands as `c'` at the end of the token text, the unit before it
    replaced if `fix`; nothing else changed -/
structure Adv (mf : Nat) (dia : Dialect) (s s1 : BS) (fix : Bool) (c' : CU) : Prop where
  good : Good mf s1
  text : s1.text = (if fix = true then s.text.dropLast ++ [replChar dia] else s.text) ++ [c']
  rem : s.remaining = s.get s.sb.next :: s1.remaining
  last : s1.get s.sb.next = c'
  tvoff : s1.sb.tvalueOffset = s.sb.tvalueOffset
  limit : s1.sb.limit = s.sb.limit
  next : s1.sb.next = s.sb.next + 1
  textStart : s1.sb.textStart = s.sb.textStart
  tvalueStart : s1.sb.tvalueStart = s.sb.tvalueStart
  src : s1.src = s.src
  fs : s1.fs = s.fs

/-- `Good`, `text`, `remaining` look at the buffer, the fill flags and the source only -/
theorem Good.congr {mf : Nat} {s s' : BS} (g : Good mf s) (h1 : s'.sb = s.sb) (h2 : s'.fs = s.fs) (h3 : s'.src = s.src) : Good mf s' :=
  ⟨by rw [h1]; exact g.inv, by rw [h1]; exact g.size, g.mf, by rw [h3]; exact g.ok, by rw [h2, h3]; exact g.eof⟩

theorem text_congr {s s' : BS} (h1 : s'.sb = s.sb) : s'.text = s.text := by simp [BS.text, h1]
theorem remaining_congr {s s' : BS} (h1 : s'.sb = s.sb) (h2 : s'.fs = s.fs) (h3 : s'.src = s.src) : s'.remaining = s.remaining := by
  simp [BS.remaining, h1, h2, h3]
theorem measure_congr {s s' : BS} (h1 : s'.sb = s.sb) (h2 : s'.fs = s.fs) (h3 : s'.src = s.src) : s'.measure = s.measure := by
  simp [BS.measure, BS.remaining, h1, h2, h3]

theorem Adv.congr {mf : Nat} {dia : Dialect} {s s1 s1' : BS} {fix : Bool} {c' : CU} (a : Adv mf dia s s1 fix c')
    (h1 : s1'.sb = s1.sb) (h2 : s1'.fs = s1.fs) (h3 : s1'.src = s1.src) : Adv mf dia s s1' fix c' :=
  ⟨a.good.congr h1 h2 h3, by rw [text_congr h1]; exact a.text, by rw [remaining_congr h1 h2 h3]; exact a.rem,
   by simp only [BS.get, h1]; exact a.last, by rw [h1]; exact a.tvoff, by rw [h1]; exact a.limit, by rw [h1]; exact a.next,
   by rw [h1]; exact a.textStart, by rw [h1]; exact a.tvalueStart, by rw [h3]; exact a.src, by rw [h2]; exact a.fs⟩

theorem Adv.measure {mf : Nat} {dia : Dialect} {s s1 : BS} {fix : Bool} {c' : CU} (a : Adv mf dia s s1 fix c') :
    s1.measure + 1 = s.measure := by
  simp only [BS.measure, a.rem, a.src, List.length_cons]; omega

theorem stepU_adv (mf : Nat) (dia : Dialect) (s : BS) (u : UStep) (g : Good mf s) (hn : s.sb.next < s.sb.limit)
    (hfix : u.fixPrev = true → s.sb.textStart < s.sb.next) :
    Adv mf dia s (stepU dia s u) u.fixPrev u.c ∧ (stepU dia s u).col = u.col ∧
    ((stepU dia s u).ttype = s.ttype ∧ (stepU dia s u).line = s.line ∧ (stepU dia s u).tvlen = s.tvlen) := by
  obtain ⟨h1, h2, h3, h4, h5⟩ := g.inv
  refine ⟨?_, rfl, ?_⟩
  · by_cases hf : u.fixPrev = true
    · have hts := hfix hf
      simp only [stepU, hf, if_true]
      refine ⟨⟨⟨h1, by show s.sb.tvalueStart ≤ s.sb.next + 1; omega, by show s.sb.next + 1 ≤ s.sb.limit; omega, h4, ?_⟩, g.size, g.mf, g.ok, g.eof⟩,
        ?_, ?_, ?_, rfl, rfl, rfl, rfl, rfl, rfl, rfl⟩
      · show ((s.sb.buffer.set (s.sb.next - 1) (replChar dia)).set s.sb.next u.c).length = s.sb.size
        simp [h5]
      · show ((((s.sb.buffer.set (s.sb.next - 1) (replChar dia)).set s.sb.next u.c).drop s.sb.textStart).take (s.sb.next + 1 - s.sb.textStart))
            = ((s.sb.buffer.drop s.sb.textStart).take (s.sb.next - s.sb.textStart)).dropLast ++ [replChar dia] ++ [u.c]
        rw [slice_set_last _ _ _ _ (by omega) (by simp; omega), slice_set_inner _ _ _ _ hts (by omega)]
      · show (s.sb.buffer.drop s.sb.next).take (s.sb.limit - s.sb.next) ++ _ = s.sb.buffer.getD s.sb.next 0 ::
            ((((s.sb.buffer.set (s.sb.next - 1) (replChar dia)).set s.sb.next u.c).drop (s.sb.next + 1)).take (s.sb.limit - (s.sb.next + 1)) ++ _)
        rw [slice_set_before _ _ _ _ _ (by omega), slice_set_before _ _ _ _ _ (by omega), slice_cons _ _ _ hn (by omega)]
        rfl
      · show ((s.sb.buffer.set (s.sb.next - 1) (replChar dia)).set s.sb.next u.c).getD s.sb.next 0 = u.c
        exact getD_set_self _ _ _ (by simp; omega)
    · simp only [stepU, hf, if_false, Bool.false_eq_true]
      refine ⟨⟨⟨h1, by show s.sb.tvalueStart ≤ s.sb.next + 1; omega, by show s.sb.next + 1 ≤ s.sb.limit; omega, h4, ?_⟩, g.size, g.mf, g.ok, g.eof⟩,
        ?_, ?_, ?_, rfl, rfl, rfl, rfl, rfl, rfl, rfl⟩
      · show (s.sb.buffer.set s.sb.next u.c).length = s.sb.size
        simp [h5]
      · show (((s.sb.buffer.set s.sb.next u.c).drop s.sb.textStart).take (s.sb.next + 1 - s.sb.textStart))
            = ((s.sb.buffer.drop s.sb.textStart).take (s.sb.next - s.sb.textStart)) ++ [u.c]
        rw [slice_set_last _ _ _ _ (by omega) (by omega)]
      · show (s.sb.buffer.drop s.sb.next).take (s.sb.limit - s.sb.next) ++ _ = s.sb.buffer.getD s.sb.next 0 ::
            ((((s.sb.buffer.set s.sb.next u.c).drop (s.sb.next + 1)).take (s.sb.limit - (s.sb.next + 1))) ++ _)
        rw [slice_set_before _ _ _ _ _ (by omega), slice_cons _ _ _ hn (by omega)]
        rfl
      · show (s.sb.buffer.set s.sb.next u.c).getD s.sb.next 0 = u.c
        exact getD_set_self _ _ _ (by omega)
  · by_cases hf : u.fixPrev = true <;> simp [stepU, hf, BS.setNext, BS.setBuf]

theorem stepU_col (dia : Dialect) (s : BS) (u : UStep) : (stepU dia s u).col = u.col := rfl
theorem stepU_line (dia : Dialect) (s : BS) (u : UStep) : (stepU dia s u).line = s.line := by
  by_cases hf : u.fixPrev = true <;> simp [stepU, hf, BS.setNext, BS.setBuf]
theorem stepU_tvlen (dia : Dialect) (s : BS) (u : UStep) : (stepU dia s u).tvlen = s.tvlen := by
  by_cases hf : u.fixPrev = true <;> simp [stepU, hf, BS.setNext, BS.setBuf]

/-- `next_char += 1` without touching the buffer (scan_ws, the colon / third delimiter) -/
theorem setNext_adv (mf : Nat) (dia : Dialect) (s : BS) (g : Good mf s) (hn : s.sb.next < s.sb.limit) :
    Adv mf dia s (s.setNext (s.sb.next + 1)) false (s.get s.sb.next) := by
  obtain ⟨h1, h2, h3, h4, h5⟩ := g.inv
  refine ⟨⟨⟨h1, by show s.sb.tvalueStart ≤ s.sb.next + 1; omega, by show s.sb.next + 1 ≤ s.sb.limit; omega, h4, h5⟩, g.size, g.mf, g.ok, g.eof⟩,
        ?_, ?_, rfl, rfl, rfl, rfl, rfl, rfl, rfl, rfl⟩
  · show ((s.sb.buffer.drop s.sb.textStart).take (s.sb.next + 1 - s.sb.textStart))
        = ((s.sb.buffer.drop s.sb.textStart).take (s.sb.next - s.sb.textStart)) ++ [s.sb.buffer.getD s.sb.next 0]
    exact slice_snoc _ _ _ (by omega) (by omega)
  · show (s.sb.buffer.drop s.sb.next).take (s.sb.limit - s.sb.next) ++ _ = s.sb.buffer.getD s.sb.next 0 ::
        ((s.sb.buffer.drop (s.sb.next + 1)).take (s.sb.limit - (s.sb.next + 1)) ++ _)
    rw [slice_cons _ _ _ hn (by omega)]
    rfl

/-! ### BACK_UP, HANDLE_UNPAIRED_LEAD at the end of the input -/

/-- BACK_UP after a unit was scanned: the unit goes back to the head of `remaining` -/
theorem backUp_spec (mf : Nat) (s : BS) (g : Good mf s) (h : s.sb.tvalueStart < s.sb.next) :
    Good mf (backUp s) ∧ (backUp s).text = s.text.dropLast ∧ (backUp s).remaining = s.get (s.sb.next - 1) :: s.remaining ∧
    (backUp s).sb.tvalueOffset = s.sb.tvalueOffset ∧ (backUp s).line = s.line ∧ (backUp s).col = s.col - 1 ∧
    (backUp s).tvlen = s.tvlen ∧ (backUp s).sb.next = s.sb.next - 1 ∧ (backUp s).sb.tvalueStart = s.sb.tvalueStart ∧
    (backUp s).sb.textStart = s.sb.textStart ∧ (backUp s).sb.limit = s.sb.limit ∧ (backUp s).src = s.src := by
  obtain ⟨h1, h2, h3, h4, h5⟩ := g.inv
  refine ⟨⟨⟨h1, by show s.sb.tvalueStart ≤ s.sb.next - 1; omega, by show s.sb.next - 1 ≤ s.sb.limit; omega, h4, h5⟩,
    g.size, g.mf, g.ok, g.eof⟩, ?_, ?_, rfl, rfl, rfl, rfl, rfl, rfl, rfl, rfl, rfl⟩
  · show (s.sb.buffer.drop s.sb.textStart).take (s.sb.next - 1 - s.sb.textStart) = _
    exact slice_dropLast _ _ _ (by omega) (by omega)
  · show (s.sb.buffer.drop (s.sb.next - 1)).take (s.sb.limit - (s.sb.next - 1)) ++ _ =
        s.sb.buffer.getD (s.sb.next - 1) 0 :: ((s.sb.buffer.drop s.sb.next).take (s.sb.limit - s.sb.next) ++ _)
    rw [slice_cons _ _ _ (by omega) (by omega)]
    have : s.sb.next - 1 + 1 = s.sb.next := by omega
    rw [this]; rfl

/-- the buffer write of HANDLE_UNPAIRED_LEAD, `*(next_char - 1) = REPL_CHAR` -/
theorem fixLast_spec (mf : Nat) (dia : Dialect) (s : BS) (g : Good mf s) (h : s.sb.textStart < s.sb.next) :
    Good mf (s.setBuf (s.sb.next - 1) (replChar dia)) ∧
    (s.setBuf (s.sb.next - 1) (replChar dia)).text = s.text.dropLast ++ [replChar dia] ∧
    (s.setBuf (s.sb.next - 1) (replChar dia)).remaining = s.remaining := by
  obtain ⟨h1, h2, h3, h4, h5⟩ := g.inv
  refine ⟨⟨⟨h1, h2, h3, h4, ?_⟩, g.size, g.mf, g.ok, g.eof⟩, ?_, ?_⟩
  · show (s.sb.buffer.set (s.sb.next - 1) (replChar dia)).length = s.sb.size
    simp [h5]
  · show ((s.sb.buffer.set (s.sb.next - 1) (replChar dia)).drop s.sb.textStart).take (s.sb.next - s.sb.textStart) = _
    exact slice_set_inner _ _ _ _ h (by omega)
  · show ((s.sb.buffer.set (s.sb.next - 1) (replChar dia)).drop s.sb.next).take (s.sb.limit - s.sb.next) ++ _ = _
    rw [slice_set_before _ _ _ _ _ (by omega)]; rfl

/-- `*(next_char - 1)` is the last unit of the token text -/
theorem get_prev (mf : Nat) (s : BS) (g : Good mf s) (h : s.sb.textStart < s.sb.next) :
    s.text.getLast? = some (s.get (s.sb.next - 1)) := by
  obtain ⟨h1, h2, h3, h4, h5⟩ := g.inv
  exact slice_getLast _ _ _ h (by omega)

/-- a buffered unit is the head of `remaining` -/
theorem remaining_cons (mf : Nat) (s : BS) (g : Good mf s) (h : s.sb.next < s.sb.limit) :
    s.remaining = s.get s.sb.next :: (s.remaining).tail := by
  have := (setNext_adv mf .cif2 s g h).rem
  rw [this]; rfl

theorem remaining_nil_of_eof (mf : Nat) (s : BS) (g : Good mf s) (h : s.sb.next ≥ s.sb.limit) (he : s.fs.atEof = true) :
    s.remaining = [] := by
  obtain ⟨h1, h2, h3, h4, h5⟩ := g.inv
  simp only [BS.remaining, g.eof he, normFrom_nil, List.append_nil, SB.unread]
  have : s.sb.limit - s.sb.next = 0 := by omega
  rw [this]; rfl

/-! ### PEEK_CHAR / NEXT_CHAR -/

/-- what PEEK_CHAR leaves unchanged -/
structure Same (mf : Nat) (s s1 : BS) : Prop where
  good : Good mf s1
  text : s1.text = s.text
  rem : s1.remaining = s.remaining
  tvoff : s1.sb.tvalueOffset = s.sb.tvalueOffset
  line : s1.line = s.line
  col : s1.col = s.col
  tvlen : s1.tvlen = s.tvlen
  ttype : s1.ttype = s.ttype
  measure : s1.measure ≤ s.measure

theorem Same.refl {mf : Nat} {s : BS} (g : Good mf s) : Same mf s s :=
  ⟨g, rfl, rfl, rfl, rfl, rfl, rfl, rfl, Nat.le_refl _⟩

theorem getMore_same (mf : Nat) (s : BS) (g : Good mf s) (hn : s.sb.next = s.sb.limit) : Same mf s (getMore mf s).2 := by
  have h := getMore_spec mf s g hn
  refine ⟨h.1, h.2.1, h.2.2.2.2.2.2.2.1, h.2.2.1, h.2.2.2.1, h.2.2.2.2.1, h.2.2.2.2.2.1, h.2.2.2.2.2.2.1, ?_⟩
  simp only [BS.measure, h.2.2.2.2.2.2.2.1]
  cases hb : (getMore mf s).1
  · have h1 := (h.2.2.2.2.2.2.2.2.1 hb).2.1
    have := h.1.eof h1
    rw [this]; simp
  · have := (h.2.2.2.2.2.2.2.2.2 hb).2
    omega

theorem peekChar_spec (mf : Nat) (s : BS) (g : Good mf s) :
    Same mf s (peekChar mf s).2 ∧
    ((peekChar mf s).1 = none → s.remaining = []) ∧
    (∀ c, (peekChar mf s).1 = some c → (peekChar mf s).2.sb.next < (peekChar mf s).2.sb.limit ∧
        c = (peekChar mf s).2.get (peekChar mf s).2.sb.next) := by
  obtain ⟨h1, h2, h3, h4, h5⟩ := g.inv
  unfold peekChar
  by_cases hn : s.sb.next ≥ s.sb.limit
  · rw [if_pos hn]
    by_cases he : s.fs.atEof = true
    · rw [if_pos he]
      exact ⟨Same.refl g, fun _ => remaining_nil_of_eof mf s g hn he, fun c h => by simp at h⟩
    · rw [if_neg he]
      have hnl : s.sb.next = s.sb.limit := by omega
      have hs := getMore_spec mf s g hnl
      have hsame := getMore_same mf s g hnl
      have hpk : (let r := getMore mf s; if r.1 = true then (some (r.2.get r.2.sb.next), r.2) else (none, r.2))
          = if (getMore mf s).1 = true then (some ((getMore mf s).2.get (getMore mf s).2.sb.next), (getMore mf s).2)
            else (none, (getMore mf s).2) := rfl
      rw [hpk]
      cases hb : (getMore mf s).1
      · rw [if_neg (by simp)]
        exact ⟨hsame, fun _ => (hs.2.2.2.2.2.2.2.2.1 hb).1, fun c h => by simp at h⟩
      · rw [if_pos rfl]
        refine ⟨hsame, fun h => by simp at h, fun c h => ?_⟩
        simp only [Option.some.injEq] at h
        exact ⟨(hs.2.2.2.2.2.2.2.2.2 hb).1, h.symm⟩
  · rw [if_neg hn]
    exact ⟨Same.refl g, fun h => by simp at h, fun c h => by
      simp only [Option.some.injEq] at h
      exact ⟨by show s.sb.next < s.sb.limit; omega, h.symm⟩⟩

/-! ### the token value -/

theorem value_eq (mf : Nat) (s : BS) (g : Good mf s) (h : s.sb.tvalueStart + s.tvlen ≤ s.sb.next) :
    s.value = (s.text.drop s.sb.tvalueOffset).take s.tvlen := by
  obtain ⟨h1, h2, h3, h4, h5⟩ := g.inv
  simp only [BS.value, BS.text, SB.tokenText, SB.tvalueOffset]
  buf_ext
