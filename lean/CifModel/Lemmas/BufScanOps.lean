import CifModel.Lemmas.BufScanTok
import CifModel.Model.Parser
/-
  Lemmas/BufScanOps — what the grammar productions do to the pending token, at buffer level against group gJ's parser-state
  model (Model.Parser: `trimTok` = TRIM_TOKEN + new type, `pushColon` = "recover by pushing back the colon"):
  `trimTokenB_spec`, `pushColonB_spec`, and the token stream under these manipulations (`tokensLoopOpsB_sim`).
-/
namespace CifModel.Model.BufScan
open CifModel CifModel.Model CifModel.Model.Chars CifModel.Model.Lexer CifModel.Model.Fill CifModel.Model.ScanBuf CifModel.Spec.Eol

/-- TRIM_TOKEN(scanner, n); ttype = ty  on a pending token whose value is its whole text -/
theorem trimTokenB_spec (mf : Nat) (s : BS) (n : Nat) (ty : TokType) (g : Good mf s)
    (hw : s.sb.tvalueOffset = 0 ∧ s.sb.tvalueStart + s.tvlen = s.sb.next) (hn : n ≤ s.tvlen) :
    Good mf (trimTokenB s n ty) ∧ (trimTokenB s n ty).value = s.value.take n ∧
    (trimTokenB s n ty).remaining = s.value.drop n ++ s.remaining ∧
    (trimTokenB s n ty).col = s.col - countChar32 (s.value.drop n) ∧ (trimTokenB s n ty).line = s.line ∧
    (trimTokenB s n ty).ttype = ty ∧ (trimTokenB s n ty).sb.tvalueStart + (trimTokenB s n ty).tvlen ≤ (trimTokenB s n ty).sb.next := by
  obtain ⟨h1, h2, h3, h4, h5⟩ := g.inv
  have hts : s.sb.tvalueStart = s.sb.textStart := by have := hw.1; simp only [SB.tvalueOffset] at this; omega
  have hpushed : (s.sb.buffer.drop (s.sb.textStart + n)).take (s.sb.next - (s.sb.textStart + n)) = s.value.drop n := by
    simp only [BS.value, hts]
    buf_ext
  refine ⟨⟨⟨h1, by show s.sb.tvalueStart ≤ s.sb.textStart + n; omega, by show s.sb.textStart + n ≤ s.sb.limit; omega, h4, h5⟩,
    g.size, g.mf, g.ok, g.eof⟩, ?_, ?_, ?_, rfl, rfl, by show s.sb.tvalueStart + (s.sb.textStart + n - s.sb.tvalueStart) ≤ s.sb.textStart + n; omega⟩
  · show (s.sb.buffer.drop s.sb.tvalueStart).take (s.sb.textStart + n - s.sb.tvalueStart) = ((s.sb.buffer.drop s.sb.tvalueStart).take s.tvlen).take n
    rw [hts, List.take_take]
    congr 1; omega
  · show (s.sb.buffer.drop (s.sb.textStart + n)).take (s.sb.limit - (s.sb.textStart + n)) ++ _ = s.value.drop n ++ (s.sb.unread ++ _)
    rw [← List.append_assoc, ← hpushed]
    congr 1
    simp only [SB.unread]
    buf_ext
  · show s.col - countChar32 ((s.sb.buffer.drop (s.sb.textStart + n)).take (s.sb.next - (s.sb.textStart + n))) = _
    rw [hpushed]

/-- "recover by pushing back the colon" on a pending KEY / TKEY -/
theorem pushColonB_spec (mf : Nat) (s : BS) (alt : TokType) (g : Good mf s)
    (hk : s.sb.tvalueStart + s.tvlen < s.sb.next ∧ s.get (s.sb.next - 1) = colon) :
    Good mf (pushColonB s alt) ∧ (pushColonB s alt).value = s.value ∧ (pushColonB s alt).remaining = colon :: s.remaining ∧
    (pushColonB s alt).col = s.col - 1 ∧ (pushColonB s alt).line = s.line ∧ (pushColonB s alt).ttype = alt ∧
    (pushColonB s alt).sb.tvalueStart + (pushColonB s alt).tvlen ≤ (pushColonB s alt).sb.next := by
  have b := backUp_spec mf s g (by omega)
  refine ⟨b.1.congr rfl rfl rfl, rfl, ?_, b.2.2.2.2.2.1, b.2.2.2.2.1, rfl, ?_⟩
  · show (backUp s).remaining = _
    rw [b.2.2.1, hk.2]
  · show s.sb.tvalueStart + s.tvlen ≤ s.sb.next - 1
    omega

/-! ### the token stream under these manipulations -/

/-- the lexer-level counterpart of `tokensLoopOpsB`, with gJ's `trimTok` / `pushColon` acting on the parser state; the
    manipulated token is recorded with the scanner's position after the manipulation (as the executor prints it) -/
def tokensLoopOps (dia : Dialect) (pol : Policy) (ops : Ops) : Nat → Scan → List Tok → List Report → List Tok × Int × List Report
  | 0, _, toks, log => (toks.reverse, 0, log)
  | fuel + 1, sc, toks, log =>
    match nextToken dia sc pol log with
    | .abort rv log' => (toks.reverse, rv, log')
    | .ok r log' =>
      if r.1.ty = .end_ then ((r.1 :: toks).reverse, 0, log')
      else if ops.trim = true ∧ r.1.ty = .value ∧ r.1.text.length > 1 then
        let q := Parser.trimTok ⟨r.2, some r.1⟩ r.1 1 .key
        tokensLoopOps dia pol ops fuel q.2.scan (⟨q.1.ty, q.1.text, q.2.scan.line, q.2.scan.col⟩ :: r.1 :: toks) log'
      else if ops.colon = true ∧ (r.1.ty = .key ∨ r.1.ty = .tkey) then
        let q := Parser.pushColon ⟨r.2, some r.1⟩ r.1 (Parser.altOf r.1.ty)
        tokensLoopOps dia pol ops fuel q.2.scan (⟨q.1.ty, q.1.text, q.2.scan.line, q.2.scan.col⟩ :: r.1 :: toks) log'
      else tokensLoopOps dia pol ops fuel r.2 (r.1 :: toks) log'

theorem tokensLoopOpsB_sim (dia : Dialect) (mf : Nat) (pol : Policy) (ops : Ops) : ∀ (fuel : Nat) (s : BS) (sc : Scan) (recs : List Rec)
    (toks : List Tok) (log : List Report), Abs mf s sc → recs.map (·.tok) = toks →
    (tokensLoopOpsB dia mf pol ops fuel s recs log).1.map (·.tok) = (tokensLoopOps dia pol ops fuel sc toks log).1 ∧
    (tokensLoopOpsB dia mf pol ops fuel s recs log).2 = (tokensLoopOps dia pol ops fuel sc toks log).2 := by
  intro fuel
  induction fuel with
  | zero =>
    intro s sc recs toks log a hm
    simp only [tokensLoopOpsB, tokensLoopOps]
    exact ⟨by rw [← hm, List.map_reverse], trivial⟩
  | succ fuel ih =>
    intro s sc recs toks log a hm
    have h := nextTokenB_sim dia mf s sc a pol log
    simp only [tokensLoopOpsB, tokensLoopOps]
    cases h1 : nextTokenB dia mf s pol log with
    | ok s' l =>
      cases h2 : nextToken dia sc pol log with
      | ok tp l' =>
        rw [h1, h2] at h
        obtain ⟨t, sc'⟩ := tp
        obtain ⟨e, g', r1, r2, r3, r4, r5, r6, r7⟩ := h
        subst e
        have hty : s'.ttype = t.ty := congrArg Tok.ty r1
        have htx : s'.value = t.text := congrArg Tok.text r1
        have hvl := value_length g' r6
        simp only [hty]
        have hm' : (s'.toRec :: recs).map (·.tok) = t :: toks := by
          simp only [List.map_cons, hm]
          have : s'.toRec.tok = t := r1
          rw [this]
        by_cases hend : t.ty = .end_
        · simp only [hend, if_true]
          exact ⟨by rw [← hm', List.map_reverse], trivial⟩
        · simp only [hend, if_false]
          have hlen : s'.tvlen = t.text.length := by rw [← htx, hvl]
          rw [hlen]
          by_cases htrim : ops.trim = true ∧ t.ty = .value ∧ t.text.length > 1
          · rw [if_pos htrim, if_pos htrim]
            have hw := r7.1 (hty.trans htrim.2.1)
            have sp := trimTokenB_spec mf s' 1 .key g' hw (by omega)
            have cg := consumeToken_good sp.1
            have hab : Abs mf (consumeToken (trimTokenB s' 1 .key)) (Parser.trimTok ⟨sc', some t⟩ t 1 .key).2.scan := by
              refine ⟨cg.1, cg.2.2, ?_, ?_, ?_, ?_⟩
              · rw [cg.2.1, sp.2.2.1, htx, r2]; rfl
              · show (trimTokenB s' 1 .key).line = sc'.line
                rw [sp.2.2.2.2.1, r3]
              · show (trimTokenB s' 1 .key).col = sc'.col - countChar32 (t.text.drop 1)
                rw [sp.2.2.2.1, htx, r4]
              · rfl
            have hm2 : ((trimTokenB s' 1 .key).toRec :: s'.toRec :: recs).map (·.tok)
                = (⟨(Parser.trimTok ⟨sc', some t⟩ t 1 .key).1.ty, (Parser.trimTok ⟨sc', some t⟩ t 1 .key).1.text,
                    (Parser.trimTok ⟨sc', some t⟩ t 1 .key).2.scan.line, (Parser.trimTok ⟨sc', some t⟩ t 1 .key).2.scan.col⟩ : Tok) :: t :: toks := by
              rw [List.map_cons, hm']
              congr 1
              show (⟨(trimTokenB s' 1 .key).ttype, (trimTokenB s' 1 .key).value, (trimTokenB s' 1 .key).line, (trimTokenB s' 1 .key).col⟩ : Tok) = _
              rw [sp.2.1, sp.2.2.2.1, sp.2.2.2.2.1, sp.2.2.2.2.2.1, htx, r3, r4]
              rfl
            exact ih _ _ _ _ l hab hm2
          · rw [if_neg htrim, if_neg htrim]
            by_cases hcol : ops.colon = true ∧ (t.ty = .key ∨ t.ty = .tkey)
            · rw [if_pos hcol, if_pos hcol]
              have hk := r7.2.1 (by rw [hty]; exact hcol.2)
              have sp := pushColonB_spec mf s' (altOfB t.ty) g' hk
              have cg := consumeToken_good sp.1
              have halt : altOfB t.ty = Parser.altOf t.ty := rfl
              have hab : Abs mf (consumeToken (pushColonB s' (altOfB t.ty))) (Parser.pushColon ⟨sc', some t⟩ t (Parser.altOf t.ty)).2.scan := by
                refine ⟨cg.1, cg.2.2, ?_, ?_, ?_, ?_⟩
                · rw [cg.2.1, sp.2.2.1, r2]; rfl
                · show (pushColonB s' (altOfB t.ty)).line = sc'.line
                  rw [sp.2.2.2.2.1, r3]
                · show (pushColonB s' (altOfB t.ty)).col = sc'.col - 1
                  rw [sp.2.2.2.1, r4]
                · rfl
              have hm2 : ((pushColonB s' (altOfB t.ty)).toRec :: s'.toRec :: recs).map (·.tok)
                  = (⟨(Parser.pushColon ⟨sc', some t⟩ t (Parser.altOf t.ty)).1.ty, (Parser.pushColon ⟨sc', some t⟩ t (Parser.altOf t.ty)).1.text,
                      (Parser.pushColon ⟨sc', some t⟩ t (Parser.altOf t.ty)).2.scan.line,
                      (Parser.pushColon ⟨sc', some t⟩ t (Parser.altOf t.ty)).2.scan.col⟩ : Tok) :: t :: toks := by
                rw [List.map_cons, hm']
                congr 1
                show (⟨(pushColonB s' (altOfB t.ty)).ttype, (pushColonB s' (altOfB t.ty)).value, (pushColonB s' (altOfB t.ty)).line,
                  (pushColonB s' (altOfB t.ty)).col⟩ : Tok) = _
                rw [sp.2.1, sp.2.2.2.1, sp.2.2.2.2.1, sp.2.2.2.2.2.1, htx, r3, r4]
                rfl
              exact ih _ _ _ _ l hab hm2
            · rw [if_neg hcol, if_neg hcol]
              have cg := consumeToken_good g'
              exact ih (consumeToken s') sc' _ _ l ⟨cg.1, cg.2.2, cg.2.1.trans r2, r3, r4, r5⟩ hm'
      | abort rv l' => rw [h1, h2] at h; exact h.elim
    | abort rv l =>
      cases h2 : nextToken dia sc pol log with
      | ok tp l' => rw [h1, h2] at h; exact h.elim
      | abort rv' l' =>
        rw [h1, h2] at h
        obtain ⟨e1, e2⟩ := h
        subst e1; subst e2
        exact ⟨by rw [← hm, List.map_reverse], rfl⟩

end CifModel.Model.BufScan
