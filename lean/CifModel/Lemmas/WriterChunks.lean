import CifModel.Lemmas.LexGlue
import CifModel.Lemmas.WriterLines
import CifModel.Lemmas.WriterLex
import CifModel.Props.C02
/-
  Lemmas/WriterChunks — what `cif_write` emits, as chunks (Lemmas/LexGlue): every step of the writer model produces a list
  of whitespace runs and tokens that the acceptor `okP` accepts from the state the previous steps leave.

  The acceptor's state is tied to the write context by ONE fact: when `last_column = 0`, whitespace is pending (or none is
  needed) — `A`.  Every token-writing step either starts at column 0, or writes its own separator, or may touch its
  predecessor (a value behind its table key).
-/
namespace CifModel.Lemmas.WriterChunks
open CifModel CifModel.Model CifModel.Model.Writer CifModel.Model.Lexer CifModel.Spec.Lexical CifModel.Spec.Grammar
open CifModel.Lemmas.LexGlue CifModel.Lemmas.WriterLex CifModel.Lemmas.WriterLines

/-! ### acceptor triples -/

/-- whitespace is pending, or none is needed -/
def Sep (lt : TokType) (w : List WsAtom) : Prop := w ≠ [] ∨ afterWsOf lt = true

/-- from every state satisfying `P` the chunks are accepted and lead to a state satisfying `Q` -/
def Mach (dia : Dialect) (P : TokType → List WsAtom → Prop) (cs : List Chunk) (Q : TokType → List WsAtom → Prop) : Prop :=
  ∀ lt w, P lt w → okP dia lt w cs ∧ Q (stAfter lt w cs).1 (stAfter lt w cs).2

theorem Mach.append {dia : Dialect} {P Q R : TokType → List WsAtom → Prop} {a b : List Chunk}
    (h1 : Mach dia P a Q) (h2 : Mach dia Q b R) : Mach dia P (a ++ b) R := by
  intro lt w hp
  obtain ⟨ha, hq⟩ := h1 lt w hp
  obtain ⟨hb, hr⟩ := h2 _ _ hq
  rw [okP_append, stAfter_append]
  exact ⟨⟨ha, hb⟩, hr⟩

theorem Mach.weaken {dia : Dialect} {P P' Q Q' : TokType → List WsAtom → Prop} {a : List Chunk}
    (h : Mach dia P a Q) (hp : ∀ lt w, P' lt w → P lt w) (hq : ∀ lt w, Q lt w → Q' lt w) : Mach dia P' a Q' := by
  intro lt w h'
  obtain ⟨h1, h2⟩ := h lt w (hp lt w h')
  exact ⟨h1, hq _ _ h2⟩

theorem Mach.nil (dia : Dialect) (P : TokType → List WsAtom → Prop) : Mach dia P [] P :=
  fun _ _ hp => ⟨trivial, hp⟩

/-- the invariant between steps: the pending whitespace is well-formed, and at column 0 it separates -/
def A (dia : Dialect) (c : Ctx) : TokType → List WsAtom → Prop :=
  fun lt w => wOk dia lt w ∧ (c.lastColumn = 0 → Sep lt w)

/-- … and the next token may come at once -/
def AS (dia : Dialect) : TokType → List WsAtom → Prop := fun lt w => wOk dia lt w ∧ Sep lt w

theorem A_of_AS {dia : Dialect} (c : Ctx) {lt : TokType} {w : List WsAtom} (h : AS dia lt w) : A dia c lt w := ⟨h.1, fun _ => h.2⟩

theorem A_congr {dia : Dialect} {c c2 : Ctx} (h : c2.lastColumn = c.lastColumn) {lt : TokType} {w : List WsAtom}
    (ha : A dia c lt w) : A dia c2 lt w := ⟨ha.1, fun h0 => ha.2 (by rw [← h]; exact h0)⟩

/-- the writer's own whitespace: blanks and line terminators -/
def plainWs (a : List WsAtom) : Prop := ∀ x ∈ a, x = WsAtom.blank 32 ∨ x = WsAtom.eol

theorem wOk_plain {dia : Dialect} {lt : TokType} {w a : List WsAtom} (hw : wOk dia lt w) (ha : plainWs a) : wOk dia lt (w ++ a) := by
  refine ⟨?_, ?_⟩
  · intro x hx
    rcases List.mem_append.mp hx with h | h
    · exact hw.1 x h
    · rcases ha x h with h | h <;> subst h <;> rfl
  · rcases hw.2 with h | h
    · exact Or.inl h
    · refine Or.inr ?_
      intro b rest he
      cases w with
      | nil =>
        cases a with
        | nil => cases he
        | cons x r =>
          simp only [List.nil_append, List.cons.injEq] at he
          rcases ha x (by simp) with hx | hx <;> rw [hx] at he <;> cases he.1
      | cons x r =>
        simp only [List.cons_append, List.cons.injEq] at he
        exact h b r (by rw [he.1])

theorem wOk_nil (dia : Dialect) (lt : TokType) : wOk dia lt [] := by
  refine ⟨?_, Or.inr ?_⟩
  · intro a h; cases h
  · intro b rest h; cases h

/-- a run of the writer's whitespace -/
theorem mach_ws (dia : Dialect) (a : List WsAtom) (ha : plainWs a) (hne : a ≠ []) :
    Mach dia (wOk dia) [.ws a] (AS dia) := by
  intro lt w hw
  refine ⟨trivial, wOk_plain hw ha, Or.inl ?_⟩
  simp [stAfter, hne]

/-- a possibly empty run keeps the invariants -/
theorem mach_ws_keep (dia : Dialect) (a : List WsAtom) (ha : plainWs a) : Mach dia (AS dia) [.ws a] (AS dia) := by
  intro lt w hw
  refine ⟨trivial, wOk_plain hw.1 ha, ?_⟩
  rcases hw.2 with h | h
  · exact Or.inl (by simp [stAfter, h])
  · exact Or.inr h

/-- a token behind a run of the writer's whitespace -/
theorem mach_wtk (dia : Dialect) (a : List WsAtom) (t : Tk) (ha : plainWs a) (hok : t.ok dia = true)
    (htext : t.isText = true → a.getLast? = some .eol) :
    Mach dia (fun lt w => wOk dia lt w ∧ (a ≠ [] ∨ w ≠ [] ∨ adjOk lt t = true)) [.ws a, .tk t]
      (fun lt w => lt = t.spec.1 ∧ w = []) := by
  intro lt w ⟨hw, hsep⟩
  refine ⟨⟨wOk_plain hw ha, hok, ?_, ?_, trivial⟩, rfl, rfl⟩
  · rcases hsep with h | h | h
    · exact Or.inl (by simp [h])
    · exact Or.inl (by simp [h])
    · exact Or.inr h
  · intro ht
    have := htext ht
    rw [List.getLast?_append, this]
    rfl

theorem A_of_tok {dia : Dialect} (c : Ctx) (hc : 0 < c.lastColumn) {lt0 lt : TokType} {w : List WsAtom} (h : lt = lt0 ∧ w = []) :
    A dia c lt w := by
  obtain ⟨_, rfl⟩ := h
  exact ⟨wOk_nil dia lt, fun h0 => by omega⟩

/-! ### what stays in the context -/

/-- only the column changes -/
def Keep (c c' : Ctx) : Prop :=
  c'.separateValues = c.separateValues ∧ c'.writeItemNames = c.writeItemNames ∧ c'.depth = c.depth ∧ c'.version = c.version

theorem Keep.refl (c : Ctx) : Keep c c := ⟨rfl, rfl, rfl, rfl⟩
theorem Keep.trans {a b c : Ctx} (h1 : Keep a b) (h2 : Keep b c) : Keep a c :=
  ⟨h2.1.trans h1.1, h2.2.1.trans h1.2.1, h2.2.2.1.trans h1.2.2.1, h2.2.2.2.trans h1.2.2.2⟩
theorem Keep.isCif1 {a b : Ctx} (h : Keep a b) : b.isCif1 = a.isCif1 := by unfold Ctx.isCif1; rw [h.2.2.2]
theorem Keep.dia {a b : Ctx} (h : Keep a b) : diaOf b = diaOf a := by unfold diaOf; rw [h.isCif1]
theorem keep_col (c : Ctx) (n : Nat) : Keep c { c with lastColumn := n } := ⟨rfl, rfl, rfl, rfl⟩

def wrapWs (b : Bool) : List WsAtom := if b then [.eol] else []

theorem renderWs_wrapWs (b : Bool) : renderWs (wrapWs b) = wrapLf b := by cases b <;> rfl

theorem plain_wrapWs (b : Bool) : plainWs (wrapWs b) := by
  intro x hx; cases b
  · cases hx
  · simp only [wrapWs, if_true, List.mem_singleton] at hx; exact Or.inr hx

/-- `write_literal` of a non-empty text: the text, behind a line break if it wrapped -/
theorem writeLiteral_out (c : Ctx) (t : Str) (wrap : Bool) (r : Str × Ctx) (ht : t ≠ []) (h : writeLiteral c t wrap = some r) :
    ∃ b, r.1 = wrapLf b ++ t ∧ Keep c r.2 ∧ 0 < r.2.lastColumn := by
  have hlen : t.length ≠ 0 := fun h0 => ht (List.length_eq_zero_iff.mp h0)
  have hpos : 0 < t.length := Nat.pos_of_ne_zero hlen
  unfold writeLiteral at h
  rw [if_neg hlen] at h
  by_cases h1 : t.length + c.lastColumn > LINE
  · rw [if_pos h1] at h
    cases wrap with
    | false => simp at h
    | true =>
      simp only [if_true, Option.some.injEq] at h
      subst h
      exact ⟨true, rfl, keep_col _ _, hpos⟩
  · rw [if_neg h1] at h
    simp only [Option.some.injEq] at h
    subst h
    exact ⟨false, rfl, keep_col _ _, by simp only; omega⟩

/-- `write_uliteral` of a non-empty text with the "whole string" length -/
theorem writeULiteral_out (c : Ctx) (t : Str) (wrap : Bool) (r : Str × Ctx) (ht : t ≠ []) (h : writeULiteral c t none wrap = some r) :
    ∃ b, r.1 = wrapLf b ++ t ∧ Keep c r.2 ∧ 0 < r.2.lastColumn := by
  have hcnt : Writer.countChar32 t ≠ 0 := Nat.pos_iff_ne_zero.mp (Lemmas.WriterTotal.countChar32_pos t ht)
  have hpos : 0 < t.length := List.length_pos_iff.mpr ht
  unfold writeULiteral at h
  simp only [printfS_self] at h
  rw [if_neg hcnt] at h
  by_cases h1 : Writer.countChar32 t + c.lastColumn > LINE
  · rw [if_pos h1] at h
    cases wrap with
    | false => simp at h
    | true =>
      simp only [if_true, Option.some.injEq] at h
      subst h
      exact ⟨true, rfl, keep_col _ _, hpos⟩
  · rw [if_neg h1] at h
    simp only [Option.some.injEq] at h
    subst h
    exact ⟨false, rfl, keep_col _ _, by simp only; omega⟩

theorem ensureSpaced_out (c : Ctx) :
    Keep c (ensureSpaced c).2 ∧
    ((c.lastColumn = 0 ∧ ensureSpaced c = ([], c)) ∨
     (0 < c.lastColumn ∧ ((ensureSpaced c).1 = [32] ∨ (ensureSpaced c).1 = [10]))) := by
  unfold ensureSpaced
  by_cases h0 : c.lastColumn = 0
  · rw [if_pos h0]; exact ⟨Keep.refl c, Or.inl ⟨h0, rfl⟩⟩
  · rw [if_neg h0]
    cases h : writeLiteral c [32] false with
    | none => exact ⟨keep_col _ _, Or.inr ⟨Nat.pos_of_ne_zero h0, Or.inr rfl⟩⟩
    | some r =>
      obtain ⟨b, hb, hk, _⟩ := writeLiteral_out c [32] false r (by simp) h
      refine ⟨hk, Or.inr ⟨Nat.pos_of_ne_zero h0, ?_⟩⟩
      -- without wrap the literal is written as it is
      unfold writeLiteral at h
      simp only [List.length_singleton, Nat.one_ne_zero, if_false] at h
      by_cases h1 : 1 + c.lastColumn > LINE
      · simp [h1] at h
      · simp only [h1, if_false, Option.some.injEq] at h
        subst h; exact Or.inl rfl

/-- `ENSURE_SPACED` as chunks -/
theorem ensureSpaced_chunks (dia : Dialect) (c : Ctx) :
    ∃ a, (ensureSpaced c).1 = renderChunks [.ws a] ∧ Mach dia (A dia c) [.ws a] (AS dia) := by
  obtain ⟨_, h | ⟨hpos, h | h⟩⟩ := ensureSpaced_out c
  · refine ⟨[], by rw [h.2]; rfl, ?_⟩
    intro lt w hw
    refine ⟨trivial, ?_, ?_⟩
    · simpa [stAfter] using hw.1
    · simpa [stAfter] using hw.2 h.1
  · refine ⟨[.blank 32], by rw [h]; rfl, ?_⟩
    exact (mach_ws dia _ (by intro x hx; simp at hx; exact Or.inl hx) (by simp)).weaken (fun _ _ h => h.1) (fun _ _ h => h)
  · refine ⟨[.eol], by rw [h]; rfl, ?_⟩
    exact (mach_ws dia _ (by intro x hx; simp at hx; exact Or.inr hx) (by simp)).weaken (fun _ _ h => h.1) (fun _ _ h => h)

/-! ### inversion of `andThen`, and the context after the value writers -/

theorem andThen_ok {a : W} {f : Ctx → W} {out : Str} {c' : Ctx} (h : andThen a f = .ok (out, c')) :
    ∃ o1 c1 o2, a = .ok (o1, c1) ∧ f c1 = .ok (o2, c') ∧ out = o1 ++ o2 := by
  unfold andThen at h
  cases a with
  | error e => simp at h
  | ok r =>
    obtain ⟨o1, c1⟩ := r
    simp only at h
    cases hf : f c1 with
    | error e => rw [hf] at h; simp at h
    | ok r2 =>
      obtain ⟨o2, c2⟩ := r2
      rw [hf] at h
      simp only [Except.ok.injEq, Prod.mk.injEq] at h
      exact ⟨o1, c1, o2, rfl, by rw [← h.2]; exact hf, h.1.symm⟩

theorem writeULiteral_keep (c : Ctx) (t : Str) (n : Option Nat) (w : Bool) (r : Str × Ctx) (h : writeULiteral c t n w = some r) :
    Keep c r.2 := by
  have core : ∀ (len units : Nat),
      (if len = 0 then some ([], c)
       else if len + c.lastColumn > LINE then
         if w then some (10 :: printfS units t, { c with lastColumn := (printfS units t).length })
         else none
       else some (printfS units t, { c with lastColumn := c.lastColumn + (printfS units t).length })) = some r → Keep c r.2 := by
    intro len units h
    by_cases h0 : len = 0
    · rw [if_pos h0] at h; cases h; exact Keep.refl c
    · rw [if_neg h0] at h
      by_cases h1 : len + c.lastColumn > LINE
      · rw [if_pos h1] at h
        cases w with
        | false => simp at h
        | true => rw [if_pos rfl] at h; cases h; exact keep_col _ _
      · rw [if_neg h1] at h; cases h; exact keep_col _ _
  unfold writeULiteral at h
  cases n with
  | none => exact core _ _ h
  | some k => exact core _ _ h

theorem writeUnquoted_keep (c : Ctx) (s : Str) (n : Nat) (out : Str) (c' : Ctx) (h : writeUnquoted c s n = .ok (out, c')) : Keep c c' := by
  unfold writeUnquoted at h
  cases hu : writeULiteral c s (some n) true with
  | none => rw [hu] at h; cases h
  | some r =>
    obtain ⟨o, c1⟩ := r
    rw [hu] at h
    simp only [Lemmas.WriterChar.printfS_length] at h
    have hk := writeULiteral_keep _ _ _ _ _ hu
    by_cases h0 : n = 0
    · simp only [h0, ↓reduceIte] at h
      injection h with h; injection h with _ h2; subst h2; exact hk
    · simp only [h0, ↓reduceIte] at h
      injection h with h; injection h with _ h2; subst h2; exact hk

theorem writeQuoted_keep (c : Ctx) (s : Str) (n : Nat) (d : CU) (out : Str) (c' : Ctx) (h : writeQuoted c s n d = .ok (out, c')) :
    Keep c c' := by
  unfold writeQuoted at h
  simp only at h
  split at h
  · injection h with h; injection h with _ h2; subst h2; exact keep_col _ _
  · cases h

theorem writeTripleQuoted_keep (c : Ctx) (s : Str) (a b : Nat) (d : CU) (out : Str) (c' : Ctx)
    (h : writeTripleQuoted c s a b d = .ok (out, c')) : Keep c c' := by
  unfold writeTripleQuoted at h
  simp only at h
  split at h
  · injection h with h; injection h with _ h2; subst h2; exact keep_col _ _
  · cases h

theorem writeText_keep (c : Ctx) (s : Str) (f p : Bool) (out : Str) (c' : Ctx) (h : writeText c s f p = .ok (out, c')) : Keep c c' := by
  unfold writeText at h
  split at h
  · cases h
  · injection h with h; injection h with _ h2; subst h2; exact keep_col _ _

theorem writeChar_keep (c : Ctx) (s : Str) (q allowText : Bool) (out : Str) (c' : Ctx)
    (h : writeChar c s q allowText = .ok (out, c')) : Keep c c' := by
  have h := (Lemmas.WriterChar.writeChar_ok c s q allowText (out, c') h).2
  by_cases hv : c.isCif1 = true ∧ validate11 s = false
  · rw [Lemmas.WriterChar.writeChar_invalid c s q allowText hv] at h; cases h
  rcases Lemmas.WriterChar.delimLength_cases s (!q) (!c.isCif1) LINE with d | d | d | d
  · rw [Lemmas.WriterChar.writeChar_delim0 c s q allowText hv d] at h; exact writeUnquoted_keep _ _ _ _ _ h
  · rw [Lemmas.WriterChar.writeChar_delim1 c s q allowText hv d] at h; exact writeQuoted_keep _ _ _ _ _ _ h
  · by_cases hr : (allowText = false ∨ ((analyze s (!q) (!c.isCif1) LINE).containsTextDelim = true ∧ c.isCif1 = true))
    · rw [Lemmas.WriterChar.writeChar_delim2_refused c s q allowText hv d hr] at h; cases h
    · rw [Lemmas.WriterChar.writeChar_delim2 c s q allowText hv d hr] at h; exact writeText_keep _ _ _ _ _ _ h
  · rw [Lemmas.WriterChar.writeChar_delim3 c s q allowText hv d] at h; exact writeTripleQuoted_keep _ _ _ _ _ _ _ h

/-! ### the content read back -/

/-- the writer's own test for writing an unquoted string as it is, whitespace-delimited (`cif_analyze_string` recommends no
    delimiter): the CIF 2.0 rules admit it in that form at any position — non-empty, no blank, bracket or brace, first character
    none of `' " # $ _ ;`, not `?` / `.`, not a reserved word (`unquotedOk`) — it is one line, and that line is within the limit.
    An unquoted string the API can produce (`cif_value_set_quoted`) fails this test only by beginning with `;` or by being longer
    than a line: `bareWritable_iff`. -/
def bareWritable (t : Str) : Prop :=
  Model.unquotedOk t true = true ∧ (Model.counters t).numLines = 1 ∧ (Model.counters t).maxLine ≤ LINE

theorem bareWritable_recommend (t : Str) (tri : Bool) (h : bareWritable t) : recommend t true tri LINE = .none := by
  obtain ⟨hu, h1, hm⟩ := h
  simp [recommend, chooseDelim, hm, h1, hu]

/-- what `cif_value_set_quoted(value, 0)` accepts of a string: non-empty, not `?` / `.`, not a reserved form, no blank, line
    terminator, bracket or brace -/
def apiUnquoted (t : Str) : Prop := t ≠ [] ∧ t ≠ [63] ∧ t ≠ [46] ∧ isReserved t = false ∧ noDisallowed t = true

theorem apiUnquoted_setQuoted (t : Str) : apiUnquoted t ↔ setQuoted false (.chr true t) false = .ok (.chr false t) := by
  unfold apiUnquoted setQuoted
  constructor
  · rintro ⟨h1, h2, h3, h4, h5⟩
    simp [h1, h2, h3, h4, h5]
  · intro h
    simp only [Bool.false_eq_true, or_self, if_false] at h
    by_cases h1 : t = []
    · simp [h1] at h
    by_cases h2 : t = [63]
    · simp [h2] at h
    by_cases h3 : t = [46]
    · simp [h3] at h
    cases h4 : isReserved t
    · cases h5 : noDisallowed t
      · simp [h1, h2, h3, h4, h5] at h
      · exact ⟨h1, h2, h3, rfl, rfl⟩
    · simp [h1, h2, h3, h4] at h

/-- among the unquoted strings the API can produce, the writer's test fails exactly for those beginning with `;` and those longer
    than a line -/
theorem bareWritable_iff (t : Str) (h : apiUnquoted t) : bareWritable t ↔ (t.head? ≠ some 59 ∧ t.length ≤ LINE) := by
  obtain ⟨hne, h63, h46, hres, hnd⟩ := h
  simp only [noDisallowed, List.all_eq_true, Bool.not_eq_true', Bool.or_eq_false_iff, beq_eq_false_iff_ne, ne_eq] at hnd
  have hno : ∀ c ∈ t, c ≠ 10 ∧ c ≠ 13 := fun c hc => ⟨(hnd c hc).1.2, (hnd c hc).2⟩
  have hsplit := Lemmas.Analyze.splitLines_single t hno
  have hst := C18_stats_exact t true true LINE
  have hnl : (counters t).numLines = 1 := by
    have := hst.2.1
    rw [hsplit] at this
    exact this
  have hml : (counters t).maxLine = t.length := by
    have h5 : (counters t).maxLine = Spec.maxLen (Spec.splitLines t) := hst.2.2.2.2.1
    rw [h5, hsplit]
    simp [Spec.maxLen]
  have hcnt : ∀ x, (x = 32 ∨ x = 9 ∨ x = 91 ∨ x = 93 ∨ x = 123 ∨ x = 125) → cnt t x = 0 := by
    intro x hx
    rw [Lemmas.Analyze.cnt_zero]
    intro hm
    have := hnd x hm
    rcases hx with h | h | h | h | h | h <;> subst h <;> simp at this
  cases t with
  | nil => exact absurd rfl hne
  | cons c r =>
    have hlead : c ≠ 95 ∧ c ≠ 35 ∧ c ≠ 36 ∧ c ≠ 39 ∧ c ≠ 34 := by
      simp only [isReserved, unitAt, List.getD_cons_zero] at hres
      split at hres
      · cases hres
      · rename_i hh
        simp only [not_or] at hh
        exact hh
    have hone : r = [] → c ≠ 63 ∧ c ≠ 46 := by
      intro hr; subst hr
      exact ⟨fun e => h63 (by rw [e]), fun e => h46 (by rw [e])⟩
    unfold bareWritable
    rw [hnl, hml]
    constructor
    · rintro ⟨hu, _, hm⟩
      refine ⟨?_, hm⟩
      intro e
      simp only [List.head?_cons, Option.some.injEq] at e
      subst e
      simp [unquotedOk, unitAt] at hu
    · rintro ⟨h59, hm⟩
      have h59 : ¬ c = 59 := fun e => h59 (by rw [e]; rfl)
      refine ⟨?_, rfl, hm⟩
      have hq : r.length + 1 > 1 ∨ (c ≠ 63 ∧ c ≠ 46) := by
        cases r with
        | nil => exact Or.inr (hone rfl)
        | cons _ _ => left; simp
      simp only [unquotedOk, unitAt, List.getD_cons_zero, hres, hcnt 32 (by simp), hcnt 9 (by simp), hcnt 91 (by simp), hcnt 93 (by simp),
        hcnt 123 (by simp), hcnt 125 (by simp), List.length_cons, Bool.true_and, Bool.not_false, Bool.and_true, Bool.and_eq_true,
        decide_eq_true_eq, bne_iff_ne, ne_eq, Bool.or_eq_true, beq_self_eq_true, Nat.add_zero]
      exact ⟨⟨⟨⟨⟨⟨⟨by omega, hlead.2.2.2.1⟩, hlead.2.2.2.2⟩, hlead.2.1⟩, hlead.2.2.1⟩, hlead.1⟩, h59⟩, hq⟩

mutual
  /-- `backV v r`: the value `r` read back stands for the value `v` written — same kind (a number comes back as the string of its
      digits, which the library interprets on demand), same text, same elements, same keys, same QUOTED STATUS: a value that was
      quoted is quoted; an unquoted string is unquoted whenever the writer's test `bareWritable` admits the whitespace-delimited
      form (the two exceptions: it begins with `;` — property C02's own exception — or it is longer than a line — known finding
      F-unquoted-overlong); an unquoted number is unquoted whenever its text fits a line (same finding otherwise) -/
  def backV : V → V → Prop
    | .unk, r => r = .unk
    | .na, r => r = .na
    | .chr q t, r => ∃ q', r = .chr q' t ∧ (q = true → q' = true) ∧ (q = false → bareWritable t → q' = false)
    | .numb q t _ _ _ _, r => ∃ q', r = .chr q' t ∧ (q = true → q' = true) ∧ (q = false → t.length ≤ LINE → q' = false)
    | .lst vs, r => ∃ rs, r = .lst rs ∧ backVs vs rs
    | .tbl es, r => ∃ rs, r = .tbl rs ∧ backEs es rs
  def backVs : List V → List V → Prop
    | [], rs => rs = []
    | v :: vs, rs => ∃ r rs', rs = r :: rs' ∧ backV v r ∧ backVs vs rs'
  def backEs : List (Str × Str × V) → List (Str × Str × V) → Prop
    | [], rs => rs = []
    | (k, key, v) :: es, rs => ∃ r rs', rs = (k, key, r) :: rs' ∧ backV v r ∧ backEs es rs'
end

/-! ### strings -/

theorem endCol_last (a : Str) (x : CU) (hx : x ≠ 10) (k : Nat) : 0 < endCol k (a ++ [x]) := by
  rw [endCol_append]
  simp [endCol, hx]

theorem renderValue_last (dia : Dialect) (p : Presentation) (s : Str) (h : admissible dia p s = true) :
    ∃ a x, renderValue p s = a ++ [x] ∧ x ≠ 10 := by
  cases p with
  | bare =>
    cases s with
    | nil => simp [admissible, bareOk] at h
    | cons c r =>
      have hne : (c :: r) ≠ [] := by simp
      refine ⟨(c :: r).dropLast, (c :: r).getLast hne, (List.dropLast_concat_getLast hne).symm, ?_⟩
      simp only [admissible, bareOk, Bool.and_eq_true, List.all_eq_true] at h
      have := h.1.1.1.2 _ (List.getLast_mem hne)
      intro e
      rw [e] at this
      simp [isWs, isEol] at this
  | squote => exact ⟨39 :: s, 39, by simp [renderValue], by decide⟩
  | dquote => exact ⟨34 :: s, 34, by simp [renderValue], by decide⟩
  | tsquote => exact ⟨39 :: 39 :: 39 :: (s ++ [39, 39]), 39, by simp [renderValue], by decide⟩
  | tdquote => exact ⟨34 :: 34 :: 34 :: (s ++ [34, 34]), 34, by simp [renderValue], by decide⟩
  | text => exact ⟨59 :: (s ++ [10]), 59, by simp [renderValue], by decide⟩

theorem dropWhile_all {α : Type} (p : α → Bool) : ∀ (l : List α), (∀ a ∈ l, p a = true) → l.dropWhile p = [] := by
  intro l
  induction l with
  | nil => intro _; rfl
  | cons x r ih =>
    intro h
    rw [List.dropWhile_cons, if_pos (h x (by simp))]
    exact ih (fun a ha => h a (by simp [ha]))

theorem noNul_of_not_mem (s : Str) (h : (0 : CU) ∉ s) : Parser.noNul s = true := by
  simp only [Parser.noNul, List.all_eq_true, bne_iff_ne, ne_eq]
  intro x hx e
  exact h (e ▸ hx)

/-- a string the analysis recommends to write whitespace-delimited is a well-formed whitespace-delimited value for the parser -/
theorem bare_wf (dia : Dialect) (s : Str) (unq tri : Bool) (hok : okUnits dia none s = true)
    (hr : recommend s unq tri LINE = .none) : Parser.wfBare dia s = true := by
  have h0 := okUnits_noNUL dia s hok
  obtain ⟨hnd, hnr, hne, _, h63, h46, hn, _⟩ := (C18_delim_admissible s unq tri LINE h0).1 hr
  obtain ⟨hno, _, _⟩ := one_line s unq tri LINE hn
  have hres : isReserved s = false := by
    cases hb : isReserved s with
    | false => rfl
    | true => exact absurd ((C18_reserved_iff s h0).mp hb) hnr
  have hnd' : noDisallowed s = true := by
    simp only [noDisallowed, List.all_eq_true]
    intro x hx
    have h1 := hnd x hx
    have h2 := hno x hx
    simp [h1.1, h1.2.1, h1.2.2.1, h1.2.2.2.1, h1.2.2.2.2.1, h1.2.2.2.2.2, h2.1, h2.2]
  have hhard : hasHardDisallowed s = false := by
    unfold hasHardDisallowed
    have : s.dropWhile (fun c => !(c == 91 || c == 93 || c == 123 || c == 125 || c == 32 || c == 9 || c == 10 || c == 13)) = [] := by
      apply dropWhile_all
      intro x hx
      simp only [noDisallowed, List.all_eq_true] at hnd'
      exact hnd' x hx
    rw [this]; rfl
  have hbr : hasBracket s = false := by
    simp only [hasBracket, List.any_eq_false]
    intro x hx
    have h1 := hnd x hx
    simp [h1.2.2.1, h1.2.2.2.1, h1.2.2.2.2.1, h1.2.2.2.2.2]
  simp [Parser.wfBare, hne, h63, h46, noNul_of_not_mem s h0, hres, hnd', hhard, hbr]

theorem recommend_none_noBracket (s : Str) (unq tri : Bool) (h0 : (0 : CU) ∉ s) (hr : recommend s unq tri LINE = .none) :
    hasBracket s = false := by
  obtain ⟨hnd, _⟩ := (C18_delim_admissible s unq tri LINE h0).1 hr
  simp only [hasBracket, List.any_eq_false]
  intro x hx
  have h1 := hnd x hx
  simp [h1.2.2.1, h1.2.2.2.1, h1.2.2.2.2.1, h1.2.2.2.2.2]

/-- `C02_value_presented`, with the presentation tied to the analysis: the whitespace-delimited form is used exactly when
    `cif_analyze_string` recommends it -/
theorem value_presented_strong (c : Ctx) (s : Str) (q : Bool) (out : Str) (c' : Ctx)
    (hok : okUnits (diaOf c) none s = true) (hcol : c.lastColumn ≤ LINE) (h : writeChar c s q true = .ok (out, c')) :
    ∃ (wrap : Bool) (p : Presentation) (s' : Str),
      out = wrapLf wrap ++ renderValue p s' ∧ admissible (diaOf c) p s' = true ∧ (p = .text → wrap = true)
      ∧ (p ≠ .text → s' = s) ∧ (p = .text → Model.Decode.decodeText true true s' = s)
      ∧ (p = .bare → q = false ∧ s.head? ≠ some 59 ∧ recommend s (!q) (!c.isCif1) LINE = .none)
      ∧ (recommend s (!q) (!c.isCif1) LINE = .none → p = .bare) := by
  have h0w := h
  have h := (Lemmas.WriterChar.writeChar_ok c s q true (out, c') h).2
  by_cases hrec : recommend s (!q) (!c.isCif1) LINE = .none
  · have hv : ¬(c.isCif1 = true ∧ validate11 s = false) := by
      intro hv; rw [Lemmas.WriterChar.writeChar_invalid c s q true hv] at h; cases h
    have hd0 : (analyze s (!q) (!c.isCif1) LINE).delimLength = 0 := by
      rw [(Lemmas.WriterChar.analyze_delim s _ _ _).2, hrec]; rfl
    rw [Lemmas.WriterChar.writeChar_delim0 c s q true hv hd0] at h
    obtain ⟨hadm, hno, hne, h59, hmax⟩ := bare_admissible (diaOf c) s (!q) (!c.isCif1) LINE hok hrec
    rw [hmax] at h
    obtain ⟨c'', hout⟩ := writeUnquoted_out c s hne
    rw [hout] at h
    simp only [Except.ok.injEq, Prod.mk.injEq] at h
    have hq : q = false := by
      have := (C18_delim_permitted s (!q) (!c.isCif1) LINE).1 hrec
      simpa using this
    exact ⟨_, .bare, s, h.1.symm, hadm, (by intro e; cases e), fun _ => rfl, (by intro e; cases e), fun _ => ⟨hq, h59, hrec⟩, fun _ => rfl⟩
  · obtain ⟨wrap, p, s', hout, hadm, htext, _, hs1, hs2, hbare⟩ := C02_value_presented c s q out c' hok hcol h0w
    exact ⟨wrap, p, s', hout, hadm, htext, hs1, hs2, hbare, fun hr => absurd hr hrec⟩

/-- `write_char` on a value, as chunks: optional line break, one value token; the token stands for the string -/
theorem chr_chunks (o : Parser.Opts) (hun : o.unfold = true) (hpr : o.prem = true) (c : Ctx) (s : Str) (q : Bool) (out : Str) (c' : Ctx)
    (hd : o.dia = diaOf c) (hok : okUnits o.dia none s = true) (hcol : c.lastColumn ≤ LINE)
    (h : writeChar c s q true = .ok (out, c')) :
    c'.lastColumn ≤ LINE ∧ 0 < c'.lastColumn ∧ Keep c c' ∧
    ∃ val cs, out = renderChunks cs ∧ toks cs = valToks val ∧ Parser.wfVal o val = true
      ∧ (∃ q', denoteVal o.dia o.normKey val = .chr q' s ∧ (q = true → q' = true) ∧ (q = false → bareWritable s → q' = false))
      ∧ Mach o.dia (AS o.dia) cs (A o.dia c') := by
  have hok' := hok
  rw [hd] at hok'
  obtain ⟨wrap, p, s', hout, hadm, htext, hs1, hs2, hbare, hisbare⟩ := value_presented_strong c s q out c' hok' hcol h
  have hnotbare : p ≠ .bare → q = false → bareWritable s → False := by
    intro hp hq hb
    apply hp
    apply hisbare
    have := bareWritable_recommend s (!c.isCif1) hb
    rw [hq]; exact this
  rw [← hd] at hadm
  have h0 := okUnits_noNUL _ s hok
  have h13 := okUnits_noCR _ s hok
  have hl := lineOk_writeChar c s q true h0 h13 hcol out c' h
  have hpos : 0 < c'.lastColumn := by
    obtain ⟨a, x, hr, hx⟩ := renderValue_last _ p s' hadm
    have := (hl.2 0 (Nat.zero_le _)).2
    rw [hout, hr, ← List.append_assoc] at this
    have h2 := endCol_last (wrapLf wrap ++ a) x hx 0
    omega
  refine ⟨hl.1, hpos, writeChar_keep c s q true out c' h, ?_⟩
  have htok : (Tk.val p s').ok o.dia = true := by
    simp only [Tk.ok, hadm, Bool.true_and, Bool.or_eq_true, bne_iff_ne, ne_eq]
    by_cases hp : p = .bare
    · right
      have := hs1 (by rw [hp]; intro e; cases e)
      rw [this]
      exact (hbare hp).2.1
    · exact Or.inl hp
  have hmach : Mach o.dia (AS o.dia) [.ws (wrapWs wrap), .tk (.val p s')] (A o.dia c') := by
    refine (mach_wtk o.dia (wrapWs wrap) (.val p s') (plain_wrapWs _) htok ?_).weaken ?_ ?_
    · intro ht
      have hp : p = .text := by cases p <;> first | rfl | cases ht
      rw [htext hp]; rfl
    · intro lt w hw
      refine ⟨hw.1, Or.inr ?_⟩
      rcases hw.2 with h | h
      · exact Or.inl h
      · exact Or.inr (by simp [adjOk, h])
    · intro lt w hw
      exact A_of_tok c' hpos hw
  have hrender : out = renderChunks [.ws (wrapWs wrap), .tk (.val p s')] := by
    simp [renderChunks, renderWs_wrapWs, Tk.chars, hout]
  by_cases hp : p = .text
  · subst hp
    refine ⟨.enc s s', _, hrender, rfl, ?_, ⟨true, rfl, fun _ => rfl, fun hq hb => (hnotbare (by intro e; cases e) hq hb).elim⟩, hmach⟩
    simp only [Parser.wfVal, hun, hpr, hs2 rfl, noNul_of_not_mem s h0, beq_self_eq_true, Bool.and_self]
  · have hs := hs1 hp
    subst hs
    refine ⟨.str s' p, _, hrender, rfl, ?_, ?_, hmach⟩
    · cases p with
      | bare =>
        simp only [Parser.wfVal]
        have := (hbare rfl).2.2
        rw [hd]
        exact bare_wf _ s' _ _ hok' this
      | text => exact absurd rfl hp
      | squote => simp only [Parser.wfVal]; exact noNul_of_not_mem s' h0
      | dquote => simp only [Parser.wfVal]; exact noNul_of_not_mem s' h0
      | tsquote => simp only [Parser.wfVal]; exact noNul_of_not_mem s' h0
      | tdquote => simp only [Parser.wfVal]; exact noNul_of_not_mem s' h0
    · cases p with
      | bare =>
        refine ⟨_, rfl, fun hq => (by rw [(hbare rfl).1] at hq; cases hq), fun _ _ => ?_⟩
        rw [recommend_none_noBracket s' _ _ h0 (hbare rfl).2.2]; simp
      | text => exact absurd rfl hp
      | squote => exact ⟨true, rfl, fun _ => rfl, fun hq hb => (hnotbare (by intro e; cases e) hq hb).elim⟩
      | dquote => exact ⟨true, rfl, fun _ => rfl, fun hq hb => (hnotbare (by intro e; cases e) hq hb).elim⟩
      | tsquote => exact ⟨true, rfl, fun _ => rfl, fun hq hb => (hnotbare (by intro e; cases e) hq hb).elim⟩
      | tdquote => exact ⟨true, rfl, fun _ => rfl, fun hq hb => (hnotbare (by intro e; cases e) hq hb).elim⟩

/-! ### literals, keys, numbers, the item head -/

/-- `write_literal` without wrapping writes the text as it is, within the line -/
theorem writeLiteral_nowrap (c : Ctx) (t : Str) (r : Str × Ctx) (ht : t ≠ []) (h : writeLiteral c t false = some r) :
    r.1 = t ∧ Keep c r.2 ∧ 0 < r.2.lastColumn ∧ r.2.lastColumn ≤ LINE := by
  have hlen : t.length ≠ 0 := fun h0 => ht (List.length_eq_zero_iff.mp h0)
  unfold writeLiteral at h
  rw [if_neg hlen] at h
  by_cases h1 : t.length + c.lastColumn > LINE
  · rw [if_pos h1] at h; simp at h
  · rw [if_neg h1] at h
    simp only [Option.some.injEq] at h
    subst h
    exact ⟨rfl, keep_col _ _, by simp only; omega, by simp only; omega⟩

theorem literalOrError_out (c : Ctx) (t : Str) (out : Str) (c' : Ctx) (ht : t ≠ []) (h : literalOrError c t true = .ok (out, c')) :
    ∃ b, out = wrapLf b ++ t ∧ Keep c c' ∧ 0 < c'.lastColumn := by
  unfold literalOrError at h
  cases hw : writeLiteral c t true with
  | none => rw [hw] at h; cases h
  | some r =>
    rw [hw] at h
    injection h with h
    subst h
    exact writeLiteral_out c t true _ ht hw

/-- a one-token literal, as chunks -/
theorem literal_chunks (dia : Dialect) (c : Ctx) (pre : List WsAtom) (t : Tk) (out : Str) (c' : Ctx)
    (hpre : plainWs pre) (hne : t.chars ≠ []) (hok : t.ok dia = true) (htext : t.isText = false)
    (h : literalOrError c (renderWs pre ++ t.chars) true = .ok (out, c')) :
    Keep c c' ∧ 0 < c'.lastColumn ∧ ∃ a, plainWs a ∧ (pre ≠ [] → a ≠ []) ∧ out = renderChunks [.ws a, .tk t]
      ∧ Mach dia (fun lt w => wOk dia lt w ∧ (pre ≠ [] ∨ w ≠ [] ∨ adjOk lt t = true)) [.ws a, .tk t] (A dia c') := by
  obtain ⟨b, hout, hk, hpos⟩ := literalOrError_out c _ out c' (by simp [hne]) h
  refine ⟨hk, hpos, wrapWs b ++ pre, ?_, ?_, ?_, ?_⟩
  · intro x hx
    rcases List.mem_append.mp hx with h | h
    · exact plain_wrapWs b x h
    · exact hpre x h
  · intro h; simp [h]
  · simp [renderChunks, renderWs_append, renderWs_wrapWs, hout]
  · refine (mach_wtk dia (wrapWs b ++ pre) t ?_ hok (by rw [htext]; intro h; cases h)).weaken ?_ ?_
    · intro x hx
      rcases List.mem_append.mp hx with h | h
      · exact plain_wrapWs b x h
      · exact hpre x h
    · intro lt w hw
      refine ⟨hw.1, ?_⟩
      rcases hw.2 with h | h | h
      · exact Or.inl (by simp [h])
      · exact Or.inr (Or.inl h)
      · exact Or.inr (Or.inr h)
    · intro lt w hw
      exact A_of_tok c' hpos hw

/-- a table key with its colon, as chunks -/
theorem key_chunks (c : Ctx) (k : Str) (o1 o2 : Str) (c3 c4 : Ctx) (h2 : c.isCif1 = false)
    (hok : okUnits .cif2 none k = true) (hcol : c.lastColumn ≤ LINE)
    (h : writeChar c k true false = .ok (o1, c3)) (hl : writeLiteral c3 [58] false = some (o2, c4)) :
    c4.lastColumn ≤ LINE ∧ 0 < c4.lastColumn ∧ Keep c c4 ∧
    ∃ a p, o1 ++ o2 = renderChunks [.ws a, .tk (.key p k)]
      ∧ Mach .cif2 (AS .cif2) [.ws a, .tk (.key p k)] (fun lt w => lt = TokType.key ∧ w = []) := by
  have hdia : diaOf c = .cif2 := by simp [diaOf, h2]
  have hv : ¬(c.isCif1 = true ∧ validate11 k = false) := by simp [h2]
  have hd : (analyze k (!true) (!c.isCif1) LINE).delimLength ≠ 2 := by
    intro hd
    have h' := (Lemmas.WriterChar.writeChar_ok c k true false (o1, c3) h).2
    rw [Lemmas.WriterChar.writeChar_delim2_refused c k true false hv hd (Or.inl rfl)] at h'
    cases h'
  obtain ⟨wrap, p, s', ⟨hout, hadm, _, _, hs1, _, hbare⟩, hnt⟩ :=
    writeChar_presented_nt c k true false o1 c3 (by rw [hdia]; exact hok) hcol hd h
  have hs := hs1 hnt
  subst hs
  rw [hdia] at hadm
  have hnb : p ≠ .bare := fun hp => by have := (hbare hp).1; cases this
  obtain ⟨ho2, hk2, hpos, hle⟩ := writeLiteral_nowrap c3 [58] _ (by simp) hl
  have hk1 := writeChar_keep c s' true false o1 c3 h
  refine ⟨hle, hpos, hk1.trans hk2, wrapWs wrap, p, ?_, ?_⟩
  · simp only at ho2
    simp [renderChunks, renderWs_wrapWs, Tk.chars, hout, ho2]
  · refine (mach_wtk .cif2 (wrapWs wrap) (.key p s') (plain_wrapWs _) ?_ (by intro h; cases h)).weaken ?_ ?_
    · simp only [Tk.ok, hadm, Bool.and_true, beq_self_eq_true, Bool.true_and]
      cases p <;> first | rfl | exact absurd rfl hnb | exact absurd rfl hnt
    · intro lt w hw
      refine ⟨hw.1, Or.inr ?_⟩
      rcases hw.2 with h | h
      · exact Or.inl h
      · exact Or.inr (by simp [adjOk, h])
    · intro lt w hw
      exact hw

/-- what is asked of a number's text: allowed characters on one line; if it is written as it is (unquoted, not longer than a
    line) it is a whitespace-delimited value of the grammar -/
def numR (dia : Dialect) (q : Bool) (t : Str) : Prop :=
  okUnits dia none t = true ∧ numbOk t ∧
    (q = false → t.length ≤ LINE → bareOk dia t = true ∧ Parser.wfBare dia t = true ∧ t.head? ≠ some 59 ∧ hasBracket t = false)

/-- `write_numb`, as chunks -/
theorem numb_chunks (o : Parser.Opts) (hun : o.unfold = true) (hpr : o.prem = true) (c : Ctx) (t : Str) (q : Bool) (out : Str) (c' : Ctx)
    (hd : o.dia = diaOf c) (hr : numR o.dia q t) (hcol : c.lastColumn ≤ LINE)
    (h : writeNumb c t q = .ok (out, c')) :
    c'.lastColumn ≤ LINE ∧ 0 < c'.lastColumn ∧ Keep c c' ∧
    ∃ val cs, out = renderChunks cs ∧ toks cs = valToks val ∧ Parser.wfVal o val = true
      ∧ (∃ q', denoteVal o.dia o.normKey val = .chr q' t ∧ (q = true → q' = true) ∧ (q = false → t.length ≤ LINE → q' = false))
      ∧ Mach o.dia (AS o.dia) cs (A o.dia c') := by
  obtain ⟨hok, hnum, hbare⟩ := hr
  have hl0 := lineOk_writeNumb c t q hnum hcol out c' h
  unfold writeNumb at h
  cases q with
  | true =>
    simp only [if_true] at h
    obtain ⟨h1, h2, h3, val, cs, h4, h5, h6, ⟨q', h7, h7', _⟩, h8⟩ := chr_chunks o hun hpr c t true out c' hd hok hcol h
    exact ⟨h1, h2, h3, val, cs, h4, h5, h6, ⟨q', h7, h7', fun h => (by cases h)⟩, h8⟩
  | false =>
    simp only [Bool.false_eq_true, if_false] at h
    by_cases hlong : t.length > LINE
    · rw [if_pos hlong] at h
      obtain ⟨h1, h2, h3, val, cs, h4, h5, h6, ⟨q', h7, _⟩, h8⟩ := chr_chunks o hun hpr c t false out c' hd hok hcol h
      exact ⟨h1, h2, h3, val, cs, h4, h5, h6, ⟨q', h7, fun h => (by cases h), fun _ hle => (by omega)⟩, h8⟩
    · rw [if_neg hlong] at h
      obtain ⟨hb1, hb2, hb3, hb4⟩ := hbare rfl (by omega)
      have hne : t ≠ [] := by intro e; subst e; simp [bareOk] at hb1
      cases hu : writeULiteral c t none true with
      | none => rw [hu] at h; cases h
      | some r =>
        obtain ⟨o', c1⟩ := r
        rw [hu] at h
        simp only at h
        split at h
        · cases h
        · injection h with h; injection h with e1 e2
          subst e1; subst e2
          obtain ⟨b, hout, hk, hpos⟩ := writeULiteral_out c t true _ hne hu
          refine ⟨hl0.1, hpos, hk, .str t .bare, [.ws (wrapWs b), .tk (.val .bare t)], ?_, rfl, ?_,
            ⟨_, rfl, fun h => (by cases h), fun _ _ => (by rw [hb4]; simp)⟩, ?_⟩
          · simp only at hout
            simp [renderChunks, renderWs_wrapWs, Tk.chars, hout, renderValue]
          · simp only [Parser.wfVal]; exact hb2
          · refine (mach_wtk o.dia (wrapWs b) (.val .bare t) (plain_wrapWs _) ?_ (by intro h; cases h)).weaken ?_ ?_
            · simp only [Tk.ok, admissible, hb1, Bool.true_and, Bool.or_eq_true, bne_iff_ne, ne_eq]
              exact Or.inr hb3
            · intro lt w hw
              refine ⟨hw.1, Or.inr ?_⟩
              rcases hw.2 with h | h
              · exact Or.inl h
              · exact Or.inr (by simp [adjOk, h])
            · intro lt w hw
              exact A_of_tok c1 hpos hw

/-- what is asked of a data name: underscore, allowed non-blank characters, not longer than a line -/
def nameR (dia : Dialect) (n : Str) : Prop := (Tk.name n).ok dia = true ∧ n.length ≤ LINE

theorem nameR_nameL {dia : Dialect} {n : Str} (h : nameR dia n) : nameL n := by
  refine ⟨?_, h.2⟩
  obtain ⟨h1, _⟩ := h
  cases n with
  | nil => simp
  | cons u s =>
    simp only [Tk.ok] at h1
    split at h1
    · rename_i s' heq
      injection heq with e1 e2
      subst e1; subst e2
      have := noeol_of_nonBlank h1
      simp only [List.all_eq_true] at this
      intro hm
      rcases List.mem_cons.mp hm with hm | hm
      · cases hm
      · have := this 10 hm
        simp [isEol] at this
    · cases h1

/-- the precondition of `write_item`: the invariant, and with `separate_values` off (behind a table key) nothing is named and
    the value may come at once -/
def PreItem (dia : Dialect) (c : Ctx) : TokType → List WsAtom → Prop :=
  fun lt w => A dia c lt w ∧ (c.separateValues = false → c.writeItemNames = false ∧ Sep lt w)

/-- the part of `write_item` before the value, as chunks: the name on a new line (if names are written), then a separator -/
theorem head_chunks (dia : Dialect) (c : Ctx) (n : Str) (out : Str) (c1 : Ctx) (hdia : dia = diaOf c) (hcol : c.lastColumn ≤ LINE)
    (hn : c.writeItemNames = true → nameR dia n) (h : writeItemHead c n = .ok (out, c1)) :
    c1.lastColumn ≤ LINE ∧ Keep c c1 ∧
    ∃ cs, out = renderChunks cs ∧ toks cs = (if c.writeItemNames then [(TokType.name, n)] else [])
      ∧ Mach dia (PreItem dia c) cs (AS dia) := by
  have hl := lineOk_writeItemHead c n (fun hnm => nameR_nameL (hn hnm)) hcol out c1 h
  refine ⟨hl.1, ?_⟩
  unfold writeItemHead at h
  obtain ⟨o1, c', o2, hnamed, hsep, rfl⟩ := andThen_ok h
  simp only [Except.ok.injEq, Prod.mk.injEq] at hsep
  cases hnm : c.writeItemNames with
  | false =>
    simp only [hnm, Bool.false_eq_true, if_false, Except.ok.injEq, Prod.mk.injEq] at hnamed
    obtain ⟨rfl, rfl⟩ := hnamed
    cases hsv : c.separateValues with
    | false =>
      simp only [hsv, Bool.false_eq_true, if_false, Prod.mk.injEq] at hsep
      obtain ⟨rfl, rfl⟩ := hsep
      refine ⟨Keep.refl c, [], rfl, rfl, ?_⟩
      intro lt w hw
      exact ⟨trivial, hw.1.1, (hw.2 hsv).2⟩
    | true =>
      simp only [hsv, if_true] at hsep
      obtain ⟨a, ha, hm⟩ := ensureSpaced_chunks dia c
      have e1 : (ensureSpaced c).1 = o2 := by rw [hsep]
      have e2 : (ensureSpaced c).2 = c1 := by rw [hsep]
      refine ⟨by rw [← e2]; exact (ensureSpaced_out c).1, [.ws a], by rw [← e1]; simpa using ha, rfl, ?_⟩
      exact hm.weaken (fun _ _ h => h.1) (fun _ _ h => h)
  | true =>
    have hnr := hn hnm
    simp only [hnm, if_true] at hnamed
    split at hnamed
    · cases hnamed
    · -- the optional line break
      generalize hp0 : (if c.lastColumn > 0 then writeNewline c else ([], c)) = p0 at hnamed
      obtain ⟨o0, c0⟩ := p0
      simp only at hnamed
      cases hu : writeULiteral c0 n none false with
      | none => rw [hu] at hnamed; cases hnamed
      | some r =>
        obtain ⟨o2', c2⟩ := r
        rw [hu] at hnamed
        simp only at hnamed
        split at hnamed
        · cases hnamed
        · injection hnamed with hnamed; injection hnamed with e1 e2
          subst e1; subst e2
          have hne : n ≠ [] := by
            intro e; subst e; simp [nameR, Tk.ok] at hnr
          obtain ⟨b, hout, hk2, hpos⟩ := writeULiteral_out c0 n false _ hne hu
          -- without wrapping the name is written as it is
          have hb : o2' = n := by
            unfold writeULiteral at hu
            simp only [printfS_self] at hu
            have hcnt : Writer.countChar32 n ≠ 0 := Nat.pos_iff_ne_zero.mp (Lemmas.WriterTotal.countChar32_pos n hne)
            rw [if_neg hcnt] at hu
            by_cases h1 : Writer.countChar32 n + c0.lastColumn > LINE
            · rw [if_pos h1] at hu; simp at hu
            · rw [if_neg h1] at hu
              simp only [Option.some.injEq, Prod.mk.injEq] at hu
              exact hu.1.symm
          subst hb
          have hk0 : Keep c c0 ∧ (o0 = renderWs (if c.lastColumn > 0 then [WsAtom.eol] else [])) := by
            by_cases hc : c.lastColumn > 0
            · rw [if_pos hc] at hp0 ⊢
              simp only [writeNewline, Prod.mk.injEq] at hp0
              obtain ⟨rfl, rfl⟩ := hp0
              exact ⟨keep_col _ _, rfl⟩
            · rw [if_neg hc] at hp0 ⊢
              simp only [Prod.mk.injEq] at hp0
              obtain ⟨rfl, rfl⟩ := hp0
              exact ⟨Keep.refl c, rfl⟩
          have hkc' : Keep c c2 := hk0.1.trans hk2
          -- name token: separated by the line break, or at column 0
          have hmname : Mach dia (PreItem dia c) [.ws (if c.lastColumn > 0 then [WsAtom.eol] else []), .tk (.name o2')]
              (fun lt w => lt = TokType.name ∧ w = []) := by
            refine (mach_wtk dia _ (.name o2') ?_ hnr.1 (by intro h; cases h)).weaken ?_ (fun _ _ h => h)
            · intro x hx
              split at hx
              · simp only [List.mem_singleton] at hx; exact Or.inr hx
              · cases hx
            · intro lt w hw
              refine ⟨hw.1.1, ?_⟩
              by_cases hc : c.lastColumn > 0
              · left; simp [hc]
              · right
                rcases hw.1.2 (by omega) with h | h
                · exact Or.inl h
                · exact Or.inr (by simp [adjOk, h])
          cases hsv : c2.separateValues with
          | false =>
            -- not reachable from `PreItem`: names are written only with `separate_values` on
            simp only [hsv, Bool.false_eq_true, if_false, Prod.mk.injEq] at hsep
            obtain ⟨rfl, rfl⟩ := hsep
            refine ⟨hkc', [.ws (if c.lastColumn > 0 then [WsAtom.eol] else []), .tk (.name o2')],
              by rw [hk0.2]; simp [renderChunks, Tk.chars], rfl, ?_⟩
            intro lt w hw
            have := (hw.2 (by rw [← hkc'.1]; exact hsv)).1
            rw [hnm] at this; cases this
          | true =>
            simp only [hsv, if_true] at hsep
            obtain ⟨a, ha, hm⟩ := ensureSpaced_chunks dia c2
            have e1 : (ensureSpaced c2).1 = o2 := by rw [hsep]
            have e2 : (ensureSpaced c2).2 = c1 := by rw [hsep]
            refine ⟨by rw [← e2]; exact hkc'.trans (ensureSpaced_out c2).1,
              [.ws (if c.lastColumn > 0 then [WsAtom.eol] else []), .tk (.name o2')] ++ [.ws a], ?_, rfl, ?_⟩
            · rw [← e1, hk0.2, renderChunks_append, ← ha]; simp [renderChunks, Tk.chars]
            · exact hmname.append (hm.weaken (fun lt w h => A_of_tok c2 hpos h) (fun _ _ h => h))

/-! ### values: what is asked of them -/

mutual
  /-- the strings of a value consist of characters the dialect allows (well-formed UTF-16); numbers as `numR`; table entries are
      stored under the normalised form of their key, keys are valid and pairwise different -/
  def valueR (dia : Dialect) (nk : Str → Str) : V → Prop
    | .chr _ t => okUnits dia none t = true
    | .numb q t _ _ _ _ => numR dia q t
    | .lst vs => elemsR dia nk vs
    | .tbl es => entriesR dia nk es
    | _ => True
  def elemsR (dia : Dialect) (nk : Str → Str) : List V → Prop
    | [] => True
    | v :: r => valueR dia nk v ∧ elemsR dia nk r
  def entriesR (dia : Dialect) (nk : Str → Str) : List (Str × Str × V) → Prop
    | [] => True
    | (k, key, v) :: r =>
      okUnits dia none key = true ∧ hasDisallowed key = false ∧ k = nk key ∧ (∀ e ∈ r, e.1 ≠ k)
        ∧ valueR dia nk v ∧ entriesR dia nk r
end

mutual
  theorem valueR_L {dia : Dialect} {nk : Str → Str} : ∀ (v : V), valueR dia nk v → valueL v
    | .chr _ t, h => ⟨okUnits_noNUL dia t h, okUnits_noCR dia t h⟩
    | .numb _ _ _ _ _ _, h => h.2.1
    | .lst vs, h => by simp only [valueL]; exact elemsR_L vs (by simpa [valueR] using h)
    | .tbl es, h => by simp only [valueL]; exact entriesR_L es (by simpa [valueR] using h)
    | .na, _ => trivial
    | .unk, _ => trivial
  theorem elemsR_L {dia : Dialect} {nk : Str → Str} : ∀ (vs : List V), elemsR dia nk vs → elemsL vs
    | [], _ => trivial
    | v :: r, h => by
      simp only [elemsR] at h
      exact ⟨valueR_L v h.1, elemsR_L r h.2⟩
  theorem entriesR_L {dia : Dialect} {nk : Str → Str} : ∀ (es : List (Str × Str × V)), entriesR dia nk es → entriesL es
    | [], _ => trivial
    | (k, key, v) :: r, h => by
      simp only [entriesR] at h
      exact ⟨⟨okUnits_noNUL dia key h.1, okUnits_noCR dia key h.1⟩, valueR_L v h.2.2.2.2.1, entriesR_L r h.2.2.2.2.2⟩
end

/-- the entries written, one by one: key, some quoted presentation, a value that reads back as the value written -/
def entsBack (dia : Dialect) (nk : Str → Str) : List (Str × Str × V) → List (Str × Presentation × Val) → Prop
  | [], ents => ents = []
  | (_, key, v) :: es, ents =>
    ∃ p val ents', ents = (key, p, val) :: ents' ∧ backV v (denoteVal dia nk val) ∧ entsBack dia nk es ents'

/-- keys: stored under their normalised form, pairwise different -/
def keysOk (nk : Str → Str) : List (Str × Str × V) → Prop
  | [] => True
  | (k, key, _) :: r => k = nk key ∧ (∀ e ∈ r, e.1 ≠ k) ∧ keysOk nk r

theorem entriesR_keys {dia : Dialect} {nk : Str → Str} : ∀ (es : List (Str × Str × V)), entriesR dia nk es → keysOk nk es
  | [], _ => trivial
  | (k, key, v) :: r, h => by
    simp only [entriesR] at h
    exact ⟨h.2.2.1, h.2.2.2.1, entriesR_keys r h.2.2.2.2.2⟩

/-- the table the parser builds from the entries is the table written -/
theorem denoteEntries_back (dia : Dialect) (nk : Str → Str) : ∀ (es : List (Str × Str × V)) (ents : List (Str × Presentation × Val))
    (acc : List (Str × Str × V)), entsBack dia nk es ents → keysOk nk es → (∀ e ∈ es, ∀ a ∈ acc, a.1 ≠ e.1) →
    ∃ rs, denoteEntries dia nk ents acc = acc ++ rs ∧ backEs es rs
  | [], ents, acc, hb, _, _ => by
    simp only [entsBack] at hb
    subst hb
    exact ⟨[], by simp [denoteEntries], by simp [backEs]⟩
  | (k, key, v) :: es, ents, acc, hb, hk, hacc => by
    obtain ⟨p, val, ents', rfl, hbv, hbe⟩ := hb
    obtain ⟨rfl, hlater, hk'⟩ := hk
    have hfresh : acc.any (fun e => e.1 == nk key) = false := by
      rw [List.any_eq_false]
      intro a ha
      have := hacc _ (List.mem_cons_self) a ha
      simpa using this
    have hput : putEntry nk acc key (denoteVal dia nk val) = acc ++ [(nk key, key, denoteVal dia nk val)] := by
      simp [putEntry, hfresh]
    obtain ⟨rs, hrs, hbr⟩ := denoteEntries_back dia nk es ents' (acc ++ [(nk key, key, denoteVal dia nk val)]) hbe hk' (by
      intro e he a ha
      rcases List.mem_append.mp ha with ha | ha
      · exact hacc e (List.mem_cons_of_mem _ he) a ha
      · simp only [List.mem_singleton] at ha
        subst ha
        exact fun h => hlater e he h.symm)
    refine ⟨(nk key, key, denoteVal dia nk val) :: rs, ?_, ?_⟩
    · rw [denoteEntries, hput, hrs]; simp
    · exact ⟨_, _, rfl, hbv, hbr⟩

theorem keep_dia {o : Parser.Opts} {c c1 : Ctx} (hd : o.dia = diaOf c) (hk : Keep c c1) : o.dia = diaOf c1 := by rw [hd, hk.dia]

theorem preItem_of_AS {dia : Dialect} (c : Ctx) (hc : c.separateValues = false → c.writeItemNames = false)
    {lt : TokType} {w : List WsAtom} (h : AS dia lt w) : PreItem dia c lt w :=
  ⟨A_of_AS c h, fun hs => ⟨hc hs, h.2⟩⟩

theorem preItem_of_A {dia : Dialect} (c : Ctx) (hsv : c.separateValues = true)
    {lt : TokType} {w : List WsAtom} (h : A dia c lt w) : PreItem dia c lt w :=
  ⟨h, fun hs => by rw [hsv] at hs; cases hs⟩

end CifModel.Lemmas.WriterChunks
