import CifModel.Lemmas.WriterLinesC
/-
  Lemmas/WriterClean — success implies clean: whatever `cif_write` writes successfully held no carriage return in any string,
  number text (that went through `write_char`) or table key, and — in CIF 2.0 mode — no character CIF 2.0 does not allow.
  (`write_char` refuses such a text before anything else: repairs of F-cr-altered and F-disallowed-char-written.)
  Invariant `Imp c r P`: "if the step succeeds then `P`, and the output version is kept"; closed under `andThen`.
-/
set_option linter.unusedSimpArgs false
set_option linter.unusedVariables false

namespace CifModel.Lemmas.WriterClean
open CifModel CifModel.Model CifModel.Model.Writer CifModel.Gen CifModel.Lemmas.WriterChunks CifModel.Lemmas.WriterChar

def Imp (c : Ctx) (r : W) (P : Prop) : Prop := ∀ o c', r = .ok (o, c') → P ∧ c'.version = c.version

theorem imp_error (c : Ctx) (e : Code) (P : Prop) : Imp c (.error e) P := by intro o c' h; cases h

theorem imp_ok (c : Ctx) (o : Str) (c' : Ctx) (hv : c'.version = c.version) : Imp c (.ok (o, c')) True := by
  intro o1 c1 h
  simp only [Except.ok.injEq, Prod.mk.injEq] at h
  exact ⟨trivial, by rw [← h.2]; exact hv⟩

theorem imp_andThen {c : Ctx} {a : W} {f : Ctx → W} {P1 P2 : Prop} (ha : Imp c a P1)
    (hf : ∀ c1, c1.version = c.version → Imp c1 (f c1) P2) : Imp c (andThen a f) (P1 ∧ P2) := by
  intro o c' h
  obtain ⟨o1, c1, o2, e1, e2, _⟩ := andThen_ok h
  obtain ⟨p1, v1⟩ := ha o1 c1 e1
  obtain ⟨p2, v2⟩ := hf c1 v1 o2 c' e2
  exact ⟨⟨p1, p2⟩, v2.trans v1⟩

theorem Imp.mono {c : Ctx} {r : W} {P Q : Prop} (h : Imp c r P) (hpq : P → Q) : Imp c r Q :=
  fun o c' e => ⟨hpq (h o c' e).1, (h o c' e).2⟩

theorem Imp.congr {c c2 : Ctx} {r : W} {P : Prop} (h : Imp c r P) (hv : c2.version = c.version) : Imp c2 r P :=
  fun o c' e => ⟨(h o c' e).1, by rw [hv]; exact (h o c' e).2⟩

theorem isCif1_of_version {c c' : Ctx} (h : c'.version = c.version) : c'.isCif1 = c.isCif1 := by
  unfold Ctx.isCif1; rw [h]

/-- a step that keeps everything but the column (`Keep`) -/
theorem imp_of_keep {c : Ctx} {r : W} (h : ∀ o c', r = .ok (o, c') → Keep c c') : Imp c r True :=
  fun o c' e => ⟨trivial, (h o c' e).2.2.2⟩

theorem imp_writeChar (c : Ctx) (s : Str) (q a : Bool) : Imp c (writeChar c s q a) (strClean c.isCif1 s = true) :=
  fun o c' e => ⟨(writeChar_ok c s q a (o, c') e).1, (writeChar_keep c s q a o c' e).2.2.2⟩

theorem imp_literal (c : Ctx) (t : Str) (w : Bool) : Imp c (literalOrError c t w) True :=
  imp_of_keep (fun o c' e => Lemmas.WriterLinesC.literalOrError_keep c t w o c' e)

theorem imp_head (c : Ctx) (n : Str) : Imp c (writeItemHead c n) True :=
  imp_of_keep (fun o c' e => Lemmas.WriterLinesC.head_keep c n o c' e)

/-- the texts of a number that `write_numb` hands to `write_char`: a quoted number, or one longer than a line -/
def numbThroughChar (q : Bool) (t : Str) : Prop := q = true ∨ t.length > LINE

theorem imp_writeNumb (c : Ctx) (t : Str) (q : Bool) :
    Imp c (writeNumb c t q) (numbThroughChar q t → strClean c.isCif1 t = true) := by
  unfold writeNumb
  cases q with
  | true => simp only [if_true]; exact (imp_writeChar c t true true).mono (fun h _ => h)
  | false =>
    simp only [Bool.false_eq_true, if_false]
    by_cases hl : t.length > LINE
    · rw [if_pos hl]; exact (imp_writeChar c t false true).mono (fun h _ => h)
    · rw [if_neg hl]
      intro o c' e
      refine ⟨fun h => by rcases h with h | h; cases h; exact absurd h hl, ?_⟩
      cases hu : writeULiteral c t none true with
      | none => simp [hu] at e
      | some r =>
        obtain ⟨o3, c3⟩ := r
        simp only [hu] at e
        split at e
        · cases e
        · simp only [Except.ok.injEq, Prod.mk.injEq] at e
          rw [← e.2]; exact (writeULiteral_keep c t none true (o3, c3) hu).2.2.2

mutual
  /-- every text of the value that reaches `write_char` — strings, table keys, quoted or over-long number texts — is clean -/
  def valueW (cif1 : Bool) : V → Prop
    | .chr _ t => strClean cif1 t = true
    | .numb q t _ _ _ _ => numbThroughChar q t → strClean cif1 t = true
    | .lst vs => elemsW cif1 vs
    | .tbl es => entriesW cif1 es
    | _ => True
  def elemsW (cif1 : Bool) : List V → Prop
    | [] => True
    | v :: r => valueW cif1 v ∧ elemsW cif1 r
  def entriesW (cif1 : Bool) : List (Str × Str × V) → Prop
    | [] => True
    | (_, key, v) :: r => strClean cif1 key = true ∧ valueW cif1 v ∧ entriesW cif1 r
end

mutual
  theorem imp_item (n : Str) (v : V) (c : Ctx) : Imp c (writeItem n v c) (valueW c.isCif1 v) := by
    unfold writeItem
    refine (imp_andThen (imp_head c n) (P2 := valueW c.isCif1 v) ?_).mono (fun h => h.2)
    intro c1 hv1
    have hi := isCif1_of_version hv1
    match v with
    | .chr q t => simp only [valueW]; rw [← hi]; exact imp_writeChar c1 t q true
    | .numb q t _ _ _ _ => simp only [valueW]; rw [← hi]; exact imp_writeNumb c1 t q
    | .na => exact (imp_literal c1 _ _).mono (fun _ => by simp [valueW])
    | .unk => exact (imp_literal c1 _ _).mono (fun _ => by simp [valueW])
    | .lst vs =>
      simp only [valueW]
      split
      · exact imp_error _ _ _
      · refine (imp_andThen (imp_literal c1 [91] true) (P2 := elemsW c.isCif1 vs) ?_).mono (fun h => h.2)
        intro c2 hv2
        have hE := (imp_elems vs { c2 with writeItemNames := false, separateValues := true }).congr (c2 := c2) rfl
        have hi2 : ({ c2 with writeItemNames := false, separateValues := true } : Ctx).isCif1 = c.isCif1 := by
          rw [← hi, ← isCif1_of_version hv2]; rfl
        rw [hi2] at hE
        refine (imp_andThen hE (P2 := True) ?_).mono (fun h => h.1)
        intro c3 hv3
        refine (imp_andThen (imp_literal c3 [32, 93] true) (P2 := True) ?_).mono (fun _ => trivial)
        intro c4 hv4
        exact imp_ok _ _ _ rfl
    | .tbl es =>
      simp only [valueW]
      split
      · exact imp_error _ _ _
      · refine (imp_andThen (imp_literal c1 [123] true) (P2 := entriesW c.isCif1 es) ?_).mono (fun h => h.2)
        intro c2 hv2
        have hE := (imp_entries es { c2 with writeItemNames := false }).congr (c2 := c2) rfl
        have hi2 : ({ c2 with writeItemNames := false } : Ctx).isCif1 = c.isCif1 := by
          rw [← hi, ← isCif1_of_version hv2]; rfl
        rw [hi2] at hE
        refine (imp_andThen hE (P2 := True) ?_).mono (fun h => h.1)
        intro c3 hv3
        refine (imp_andThen (imp_literal c3 [32, 125] true) (P2 := True) ?_).mono (fun _ => trivial)
        intro c4 hv4
        exact imp_ok _ _ _ rfl
  theorem imp_elems (vs : List V) (c : Ctx) : Imp c (writeElems vs c) (elemsW c.isCif1 vs) := by
    match vs with
    | [] => unfold writeElems; exact (imp_ok c [] c rfl).mono (fun _ => by simp [elemsW])
    | v :: rest =>
      unfold writeElems
      simp only [elemsW]
      refine imp_andThen (imp_item [] v c) ?_
      intro c1 hv1
      rw [← isCif1_of_version hv1]
      exact imp_elems rest c1
  theorem imp_entries (es : List (Str × Str × V)) (c : Ctx) : Imp c (writeEntries es c) (entriesW c.isCif1 es) := by
    match es with
    | [] => unfold writeEntries; exact (imp_ok c [] c rfl).mono (fun _ => by simp [entriesW])
    | (kn, key, v) :: rest =>
      unfold writeEntries
      simp only [entriesW]
      generalize hp0 : (if (key.length : Int) > (LINE : Int) - (c.lastColumn + 8) then writeNewline c else ([], c)) = p0
      have hv0 : p0.2.version = c.version := by rw [← hp0]; split <;> rfl
      obtain ⟨o0, c0⟩ := p0
      simp only
      generalize hp1 : ensureSpaced { c0 with separateValues := false } = p1
      have hv1 : p1.2.version = c.version := by
        rw [← hp1]
        exact ((Lemmas.WriterLinesC.ensureSpaced_keep { c0 with separateValues := false }).2.2.2).trans hv0
      obtain ⟨o1, c2⟩ := p1
      simp only
      refine (imp_andThen (imp_ok c (o0 ++ o1) c2 hv1) (P2 := strClean c.isCif1 key = true ∧ valueW c.isCif1 v ∧ entriesW c.isCif1 rest) ?_).mono
        (fun h => h.2)
      intro c2' hv2
      have hi2 := isCif1_of_version hv2
      refine (imp_andThen (by rw [← hi2]; exact imp_writeChar c2' key true false) (P2 := valueW c.isCif1 v ∧ entriesW c.isCif1 rest) ?_)
      intro c3 hv3
      have hi3 := isCif1_of_version hv3
      refine (imp_andThen (P1 := True) (P2 := valueW c.isCif1 v ∧ entriesW c.isCif1 rest) ?_ ?_).mono (fun h => h.2)
      · intro o c' e
        cases hl : writeLiteral c3 [58] false with
        | none => simp [hl] at e
        | some r =>
          simp only [hl, Except.ok.injEq] at e
          have := Lemmas.WriterTotal.writeLiteral_same c3 [58] false r hl
          have e2 : r.2 = c' := by rw [e]
          exact ⟨trivial, by rw [← e2]; exact this.1⟩
      · intro c4 hv4
        have hi4 := isCif1_of_version hv4
        refine imp_andThen (by rw [← hi2, ← hi3, ← hi4]; exact imp_item [] v c4) ?_
        intro c5 hv5
        rw [← hi2, ← hi3, ← hi4, ← isCif1_of_version hv5]
        exact imp_entries rest c5
end

/-! ### items, packets, loops, containers -/

def itemsW (cif1 : Bool) (p : List (Str × V)) : Prop := ∀ nv ∈ p, valueW cif1 nv.2

theorem imp_items : ∀ (p : List (Str × V)) (c : Ctx), Imp c (writeItems p c) (itemsW c.isCif1 p) := by
  intro p
  induction p with
  | nil => intro c; exact (imp_ok c [] c rfl).mono (fun _ nv h => by cases h)
  | cons nv rest ih =>
    intro c
    obtain ⟨n, v⟩ := nv
    simp only [writeItems]
    refine (imp_andThen (imp_item n v c) (P2 := itemsW c.isCif1 rest) ?_).mono ?_
    · intro c1 hv1; rw [← isCif1_of_version hv1]; exact ih c1
    · rintro ⟨h1, h2⟩ x hx
      rcases List.mem_cons.mp hx with e | e
      · subst e; exact h1
      · exact h2 x e

theorem imp_packets : ∀ (ps : List (List (Str × V))) (c : Ctx), Imp c (writePackets ps c) (∀ p ∈ ps, itemsW c.isCif1 p) := by
  intro ps
  induction ps with
  | nil => intro c; exact (imp_ok c [] c rfl).mono (fun _ p h => by cases h)
  | cons p rest ih =>
    intro c
    simp only [writePackets, writePacket]
    have hp : Imp c (andThen (writeItems p c) fun c1 => .ok (writeNewline c1)) (itemsW c.isCif1 p ∧ True) :=
      imp_andThen (imp_items p c) (fun c1 _ => imp_ok c1 _ _ rfl)
    refine (imp_andThen hp (P2 := ∀ q ∈ rest, itemsW c.isCif1 q) ?_).mono ?_
    · intro c1 hv1; rw [← isCif1_of_version hv1]; exact ih c1
    · rintro ⟨⟨h1, _⟩, h2⟩ x hx
      rcases List.mem_cons.mp hx with e | e
      · subst e; exact h1
      · exact h2 x e

theorem imp_header : ∀ (ns : List Str) (c : Ctx), Imp c (writeHeaderNames ns c) True := by
  intro ns
  induction ns with
  | nil => intro c; exact imp_ok c [] c rfl
  | cons n rest ih =>
    intro c
    simp only [writeHeaderNames]
    split
    · exact imp_error _ _ _
    · exact (imp_andThen (imp_ok c _ { c with lastColumn := 0 } rfl) (fun c1 _ => ih c1)).mono (fun _ => trivial)

def loopW (cif1 : Bool) (l : WLoop) : Prop := ∀ p ∈ l.packets, itemsW cif1 p

theorem imp_loop (l : WLoop) (c : Ctx) : Imp c (writeLoop l c) (loopW c.isCif1 l) := by
  unfold writeLoop
  refine (imp_andThen (P1 := True) (P2 := loopW c.isCif1 l) ?_ ?_).mono (fun h => h.2)
  · split
    · exact imp_ok _ _ _ rfl
    · exact (imp_andThen (imp_ok c LOOP_HEAD { c with writeItemNames := false, lastColumn := 0 } rfl)
        (fun c1 _ => imp_header l.header c1)).mono (fun _ => trivial)
  · intro c1 hv1
    split
    · exact imp_error _ _ _
    · refine (imp_andThen (by rw [← isCif1_of_version hv1]; exact imp_packets l.packets c1) (P2 := True) ?_).mono (fun h => h.1)
      intro c2 _; exact imp_ok c2 _ _ rfl

theorem imp_loops : ∀ (ls : List WLoop) (c : Ctx), Imp c (writeLoops ls c) (∀ l ∈ ls, loopW c.isCif1 l) := by
  intro ls
  induction ls with
  | nil => intro c; exact (imp_ok c [] c rfl).mono (fun _ l h => by cases h)
  | cons l rest ih =>
    intro c
    simp only [writeLoops]
    refine (imp_andThen (imp_loop l c) (P2 := ∀ q ∈ rest, loopW c.isCif1 q) ?_).mono ?_
    · intro c1 hv1; rw [← isCif1_of_version hv1]; exact ih c1
    · rintro ⟨h1, h2⟩ x hx
      rcases List.mem_cons.mp hx with e | e
      · subst e; exact h1
      · exact h2 x e

mutual
  /-- every text of the container (its save frames included) that reaches `write_char` is clean -/
  def containerW (cif1 : Bool) : WContainer → Prop
    | .mk _ frames loops => containersW cif1 frames ∧ ∀ l ∈ loops, loopW cif1 l
  def containersW (cif1 : Bool) : List WContainer → Prop
    | [] => True
    | k :: rest => containerW cif1 k ∧ containersW cif1 rest
end

mutual
  theorem imp_container (k : WContainer) (c : Ctx) : Imp c (writeContainer k c) (containerW c.isCif1 k) := by
    match k with
    | .mk code frames loops =>
      unfold writeContainer
      simp only [containerW]
      split
      · exact imp_error _ _ _
      · refine (imp_andThen (imp_ok c _ { c with lastColumn := 0, depth := c.depth + 1 } rfl)
          (P2 := containersW c.isCif1 frames ∧ ∀ l ∈ loops, loopW c.isCif1 l) ?_).mono (fun h => h.2)
        intro c1 hv1
        have hi1 := isCif1_of_version hv1
        refine (imp_andThen (by rw [← hi1]; exact imp_containers frames c1) (P2 := ∀ l ∈ loops, loopW c.isCif1 l) ?_)
        intro c2 hv2
        have hi2 := isCif1_of_version hv2
        refine (imp_andThen (by rw [← hi1, ← hi2]; exact imp_loops loops c2) (P2 := True) ?_).mono (fun h => h.1)
        intro c3 hv3
        split
        · exact imp_ok _ _ _ (by simp [writeNewline])
        · exact imp_ok _ _ _ rfl
  theorem imp_containers (ks : List WContainer) (c : Ctx) : Imp c (writeContainers ks c) (containersW c.isCif1 ks) := by
    match ks with
    | [] => unfold writeContainers; exact (imp_ok c [] c rfl).mono (fun _ => by simp [containersW])
    | k :: rest =>
      unfold writeContainers
      simp only [containersW]
      refine imp_andThen (imp_container k c) ?_
      intro c1 hv1
      rw [← isCif1_of_version hv1]
      exact imp_containers rest c1
end

/-- **success implies clean**: whatever `cif_write` writes held no CR and — CIF 2.0 output — only allowed characters in every
    text that reached `write_char` -/
theorem writeCif_clean (version : Nat) (cif : WCif) (out : Str) (h : writeCif version cif = .ok out) :
    containersW (decide (version = 1)) cif := by
  unfold writeCif at h
  simp only at h
  generalize hc0 : ({ version := if version = 1 then 1 else 0 } : Ctx) = c0 at h
  have hi : c0.isCif1 = decide (version = 1) := by
    rw [← hc0]; unfold Ctx.isCif1; by_cases hv : version = 1 <;> simp [hv]
  have L : Imp c0 (andThen (.ok ((if c0.isCif1 then MAGIC11 else MAGIC20), c0)) fun c1 =>
      andThen (writeContainers cif c1) fun c2 => .ok (writeNewline c2)) (True ∧ containersW c0.isCif1 cif ∧ True) := by
    refine imp_andThen (imp_ok c0 _ c0 rfl) ?_
    intro c1 hv1
    refine imp_andThen (by rw [← isCif1_of_version hv1]; exact imp_containers cif c1) ?_
    intro c2 _; exact imp_ok c2 _ _ rfl
  cases hr : (andThen (.ok ((if c0.isCif1 then MAGIC11 else MAGIC20), c0)) fun c1 =>
      andThen (writeContainers cif c1) fun c2 => (.ok (writeNewline c2) : W)) with
  | error e => simp [hr] at h
  | ok p =>
    obtain ⟨o, c'⟩ := p
    have := (L o c' hr).1.2.1
    rw [hi] at this
    exact this

end CifModel.Lemmas.WriterClean
