import CifModel.Model.ScanBuf
/-
  The buffer moves of get_more_chars() preserve the token being scanned.
-/
namespace CifModel.Model.ScanBuf

theorem copyFront_length (dst src : Str) (n : Nat) (hs : n ≤ src.length) (hd : n ≤ dst.length) :
    (copyFront dst src n).length = dst.length := by
  unfold copyFront
  rw [List.length_append, List.length_take, List.length_drop]; omega

theorem copyFront_take (dst src : Str) (n : Nat) (hs : n ≤ src.length) :
    (copyFront dst src n).take n = src.take n := by
  unfold copyFront
  have hl : (src.take n).length = n := by rw [List.length_take]; omega
  exact List.take_left' hl

theorem tokenText_mk0 (buf : Str) (sz lim cur tv : Nat) :
    (SB.mk buf sz lim cur 0 tv).tokenText = buf.take cur := by
  simp [SB.tokenText]

/-- **make room**: in every case the token text and the token-value offset are what they were, the invariant holds again,
    and — when the scanner had scanned everything buffered, as at every call site — nothing unread is lost -/
theorem makeRoom_spec (minFill : Nat) (b : SB) (hinv : b.Inv) :
    (makeRoom minFill b).Inv ∧
    (makeRoom minFill b).tokenText = b.tokenText ∧ (makeRoom minFill b).tvalueOffset = b.tvalueOffset ∧
    (b.next = b.limit → (makeRoom minFill b).unread = [] ∧ (makeRoom minFill b).next = (makeRoom minFill b).limit) := by
  obtain ⟨h1, h2, h3, h4, h5⟩ := hinv
  unfold makeRoom
  by_cases hr : b.textStart ≥ b.limit
  · -- reset: text_start = tvalue_start = next_char = limit, the token text is empty
    rw [if_pos hr]
    have e1 : b.next = b.textStart := by omega
    have e2 : b.tvalueStart = b.textStart := by omega
    refine ⟨⟨Nat.le_refl _, Nat.le_refl _, Nat.le_refl _, Nat.zero_le _, h5⟩, ?_, ?_, fun _ => ⟨?_, rfl⟩⟩
    · simp [SB.tokenText, e1]
    · simp [SB.tvalueOffset, e2]
    · simp [SB.unread]
  · rw [if_neg hr]
    by_cases hm : b.size < b.limit + minFill
    · rw [if_pos hm]
      have hcur : b.next - b.textStart ≤ (b.buffer.drop b.textStart).length := by
        rw [List.length_drop]; omega
      have htok : ((b.buffer.drop b.textStart).take (b.next - b.textStart)) = b.tokenText := rfl
      by_cases hh : (b.next - b.textStart) * 2 < b.size
      · simp only [hh, if_true]
        refine ⟨⟨Nat.zero_le _, ?_, Nat.le_refl _, ?_, ?_⟩, ?_, ?_, fun _ => ⟨?_, trivial⟩⟩
        · show b.tvalueStart - b.textStart ≤ b.next - b.textStart; omega
        · show b.next - b.textStart ≤ b.size; omega
        · show (copyFront b.buffer (b.buffer.drop b.textStart) (b.next - b.textStart)).length = b.size
          rw [copyFront_length _ _ _ hcur (by omega)]; exact h5
        · rw [tokenText_mk0, copyFront_take _ _ _ hcur]; rfl
        · simp [SB.tvalueOffset]
        · simp [SB.unread]
      · simp only [hh, if_false]
        refine ⟨⟨Nat.zero_le _, ?_, Nat.le_refl _, ?_, ?_⟩, ?_, ?_, fun _ => ⟨?_, trivial⟩⟩
        · show b.tvalueStart - b.textStart ≤ b.next - b.textStart; omega
        · show b.next - b.textStart ≤ b.size * 2; omega
        · show (copyFront (List.replicate (b.size * 2) 0) (b.buffer.drop b.textStart) (b.next - b.textStart)).length = b.size * 2
          rw [copyFront_length _ _ _ hcur (by rw [List.length_replicate]; omega), List.length_replicate]
        · rw [tokenText_mk0, copyFront_take _ _ _ hcur]; rfl
        · simp [SB.tvalueOffset]
        · simp [SB.unread]
    · rw [if_neg hm]
      exact ⟨⟨h1, h2, h3, h4, h5⟩, rfl, rfl, fun h => ⟨by simp [SB.unread, h], h⟩⟩

/-- after making room there is room for at least `BUF_MIN_FILL` units, provided the buffer is at least twice that long
    (`BUF_SIZE_INITIAL = 64 · BUF_MIN_FILL`, and the size only ever doubles) -/
theorem makeRoom_room (minFill : Nat) (b : SB) (hinv : b.Inv) (hsize : 2 * minFill ≤ b.size) :
    minFill ≤ (makeRoom minFill b).room ∧ 2 * minFill ≤ (makeRoom minFill b).size := by
  obtain ⟨h1, h2, h3, h4, h5⟩ := hinv
  unfold makeRoom SB.room
  by_cases hr : b.textStart ≥ b.limit
  · rw [if_pos hr]; simp only; omega
  · rw [if_neg hr]
    by_cases hm : b.size < b.limit + minFill
    · rw [if_pos hm]
      by_cases hh : (b.next - b.textStart) * 2 < b.size
      · simp only [hh, if_true]; omega
      · simp only [hh, if_false]; omega
    · rw [if_neg hm]; omega

/-- **append**: the fill does not touch the token scanned so far, and is exactly what becomes unread -/
theorem append_spec (b : SB) (units : Str) (hinv : b.Inv) (hroom : units.length ≤ b.room) :
    (append b units).Inv ∧ (append b units).tokenText = b.tokenText ∧ (append b units).tvalueOffset = b.tvalueOffset ∧
    (append b units).unread = b.unread ++ units := by
  obtain ⟨h1, h2, h3, h4, h5⟩ := hinv
  unfold SB.room at hroom
  have hpre : (b.buffer.take b.limit).length = b.limit := by rw [List.length_take]; omega
  have hdrop : (b.buffer.take b.limit).drop b.next = (b.buffer.drop b.next).take (b.limit - b.next) := by
    rw [List.drop_take]
  have hdl : ((b.buffer.take b.limit).drop b.next).length = b.limit - b.next := by
    rw [List.length_drop, hpre]
  refine ⟨⟨h1, h2, ?_, ?_, ?_⟩, ?_, rfl, ?_⟩
  · show b.next ≤ b.limit + units.length; omega
  · show b.limit + units.length ≤ b.size; omega
  · show (b.buffer.take b.limit ++ units ++ b.buffer.drop (b.limit + units.length)).length = b.size
    rw [List.length_append, List.length_append, hpre, List.length_drop]; omega
  · show ((b.buffer.take b.limit ++ units ++ b.buffer.drop (b.limit + units.length)).drop b.textStart).take (b.next - b.textStart)
        = (b.buffer.drop b.textStart).take (b.next - b.textStart)
    rw [List.append_assoc, List.drop_append_of_le_length (by rw [hpre]; omega)]
    rw [List.take_append_of_le_length (by rw [List.length_drop, hpre]; omega)]
    rw [List.drop_take, List.take_take]
    congr 1
    omega
  · show ((b.buffer.take b.limit ++ units ++ b.buffer.drop (b.limit + units.length)).drop b.next).take (b.limit + units.length - b.next)
        = (b.buffer.drop b.next).take (b.limit - b.next) ++ units
    rw [List.append_assoc, List.drop_append_of_le_length (by rw [hpre]; omega), ← List.append_assoc, ← hdrop]
    have hl : ((b.buffer.take b.limit).drop b.next ++ units).length = b.limit + units.length - b.next := by
      rw [List.length_append, hdl]; omega
    exact List.take_left' hl

end CifModel.Model.ScanBuf
