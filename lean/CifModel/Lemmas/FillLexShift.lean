import CifModel.Model.Lexer
/-
  Line-shift invariance of the lexer model (Model.Lexer, group gD): `scanner->line` is only ever passed along, incremented
  by HANDLE_EOL and copied into reports and tokens; it never steers the scan.  Hence starting the same scan `k` lines further
  down yields the same result with every line number `k` higher — provided the callback policy does not itself react to line
  numbers (`polD`: the policy the shifted run faces answers what the original policy answers to the un-shifted report).

  Reports made BEFORE the point where the two runs start (`old`) are common to both runs and not shifted.
-/
namespace CifModel.Model.Lexer
open CifModel.Model.Chars

section Shift
variable (k : Nat)

def shR (r : Report) : Report := ⟨r.code, r.line + k, r.col⟩

/-- the policy the shifted run faces -/
def polD (pol : Policy) : Policy := fun i r => pol i ⟨r.code, r.line - k, r.col⟩

theorem polD_shR (pol : Policy) (i : Nat) (r : Report) : polD k pol i (shR k r) = pol i r := by
  simp [polD, shR]

/-- the two logs: the same `old` part, the new reports shifted -/
def LogRel (old l1 l2 : List Report) : Prop := ∃ new, l1 = new ++ old ∧ l2 = new.map (shR k) ++ old

theorem LogRel.refl (old : List Report) : LogRel k old old old := ⟨[], rfl, rfl⟩

theorem LogRel.length {old l1 l2 : List Report} (h : LogRel k old l1 l2) : l2.length = l1.length := by
  obtain ⟨new, h1, h2⟩ := h; subst h1 h2; simp

theorem LogRel.cons {old l1 l2 : List Report} (h : LogRel k old l1 l2) (r : Report) :
    LogRel k old (r :: l1) (shR k r :: l2) := by
  obtain ⟨new, h1, h2⟩ := h; subst h1 h2; exact ⟨r :: new, rfl, rfl⟩

/-- related outcomes: both complete with related values and logs, or both abort with the same return value -/
def ResRel {α β : Type} (old : List Report) (f : α → β → Prop) : Res α → Res β → Prop
  | .ok a l1, .ok b l2 => f a b ∧ LogRel k old l1 l2
  | .abort rv l1, .abort rv' l2 => rv = rv' ∧ LogRel k old l1 l2
  | _, _ => False

/-- related actions -/
def Rel {α β : Type} (old : List Report) (f : α → β → Prop) (m1 : L α) (m2 : L β) : Prop :=
  ∀ pol l1 l2, LogRel k old l1 l2 → ResRel k old f (m1 pol l1) (m2 (polD k pol) l2)

theorem rel_pure {α β : Type} (old : List Report) (f : α → β → Prop) (a : α) (b : β) (h : f a b) :
    Rel k old f (pure a : L α) (pure b : L β) := by
  intro pol l1 l2 hl
  exact ⟨h, hl⟩

theorem rel_bind {α β γ δ : Type} (old : List Report) (f : α → β → Prop) (g : γ → δ → Prop)
    (m1 : L α) (m2 : L β) (k1 : α → L γ) (k2 : β → L δ)
    (hm : Rel k old f m1 m2) (hk : ∀ a b, f a b → Rel k old g (k1 a) (k2 b)) :
    Rel k old g (m1 >>= k1) (m2 >>= k2) := by
  intro pol l1 l2 hl
  have h := hm pol l1 l2 hl
  show ResRel k old g (L.bind m1 k1 pol l1) (L.bind m2 k2 (polD k pol) l2)
  unfold L.bind
  cases h1 : m1 pol l1 with
  | ok a la =>
    cases h2 : m2 (polD k pol) l2 with
    | ok b lb =>
      rw [h1, h2] at h
      exact hk a b h.1 pol la lb h.2
    | abort rv lb => rw [h1, h2] at h; exact h.elim
  | abort rv la =>
    cases h2 : m2 (polD k pol) l2 with
    | ok b lb => rw [h1, h2] at h; exact h.elim
    | abort rv' lb => rw [h1, h2] at h; exact h

theorem rel_report (old : List Report) (code : Code) (line col : Nat) :
    Rel k old (fun _ _ => True) (report code line col) (report code (line + k) col) := by
  intro pol l1 l2 hl
  unfold report
  simp only
  have hp : polD k pol l2.length ⟨code, line + k, col⟩ = pol l1.length ⟨code, line, col⟩ := by
    rw [hl.length]; exact polD_shR k pol _ ⟨code, line, col⟩
  rw [hp]
  by_cases h0 : pol l1.length ⟨code, line, col⟩ = 0
  · simp only [h0, if_true]
    exact ⟨trivial, hl.cons k ⟨code, line, col⟩⟩
  · simp only [h0, if_false]
    exact ⟨rfl, hl.cons k ⟨code, line, col⟩⟩

theorem rel_reportIf (old : List Report) (c : Bool) (code : Code) (line col : Nat) :
    Rel k old (fun _ _ => True) (reportIf c code line col) (reportIf c code (line + k) col) := by
  unfold reportIf
  cases c
  · exact rel_pure k old _ () () trivial
  · exact rel_report k old code line col

/-- a report, then a continuation -/
theorem rel_seq {γ δ : Type} (old : List Report) (g : γ → δ → Prop) (m1 m2 : L Unit) (n1 : L γ) (n2 : L δ)
    (hm : Rel k old (fun _ _ => True) m1 m2) (hn : Rel k old g n1 n2) :
    Rel k old g (m1 >>= fun _ => n1) (m2 >>= fun _ => n2) :=
  rel_bind k old _ g m1 m2 _ _ hm (fun _ _ _ => hn)


theorem rel_scanUChar (old : List Report) (dia : Dialect) (line col prev c : Nat) (lead : Bool) :
    Rel k old (fun a b => a = b) (scanUChar dia line col prev c lead) (scanUChar dia (line + k) col prev c lead) := by
  unfold scanUChar
  simp only
  split
  · split
    · exact rel_seq k old _ _ _ _ _ (rel_reportIf k old _ _ _ _) (rel_pure k old _ _ _ rfl)
    · exact rel_seq k old _ _ _ _ _ (rel_report k old _ _ _) (rel_pure k old _ _ _ rfl)
  · refine rel_seq k old _ _ _ _ _ (rel_reportIf k old _ _ _ _) ?_
    refine rel_seq k old _ _ _ _ _ (rel_reportIf k old _ _ _ _) ?_
    exact rel_seq k old _ _ _ _ _ (rel_reportIf k old _ _ _ _) (rel_pure k old _ _ _ rfl)

theorem rel_leadAtEof (old : List Report) (dia : Dialect) (line col : Nat) (lead : Bool) (acc : Str) :
    Rel k old (fun a b => a = b) (leadAtEof dia line col lead acc) (leadAtEof dia (line + k) col lead acc) := by
  unfold leadAtEof
  exact rel_seq k old _ _ _ _ _ (rel_reportIf k old _ _ _ _) (rel_pure k old _ _ _ rfl)

def sh3 (a : Nat × Nat × Nat) : Nat × Nat × Nat := (a.1 + k, a.2.1, a.2.2)
def shPos (p : Pos) : Pos := ⟨p.rest, p.line + k, p.col⟩
def shScanned (s : Scanned) : Scanned := ⟨s.acc, shPos k s.pos⟩

theorem rel_handleEol (old : List Report) (line col sol c : Nat) :
    Rel k old (fun a b => b = sh3 k a) (handleEol line col sol c) (handleEol (line + k) col sol c) := by
  unfold handleEol
  refine rel_seq k old _ _ _ _ _ (rel_reportIf k old _ _ _ _) (rel_pure k old _ _ _ ?_)
  simp only [sh3]
  congr 1
  omega

theorem rel_scanWs (old : List Report) (dia : Dialect) : ∀ (inp : Str) (line col sol : Nat),
    Rel k old (fun a b => b = shPos k a) (scanWs dia inp line col sol) (scanWs dia inp (line + k) col sol) := by
  intro inp
  induction inp with
  | nil => intro line col sol; unfold scanWs; exact rel_pure k old _ _ _ rfl
  | cons c r ih =>
    intro line col sol
    unfold scanWs
    split
    · exact ih line (col + 1) 0
    · split
      · refine rel_bind k old _ _ _ _ _ _ (rel_handleEol k old line col sol c) ?_
        intro a b hab
        subst hab
        obtain ⟨l, c', s⟩ := a
        exact ih l c' s
      · exact rel_pure k old _ _ _ rfl

theorem rel_scanToWs (old : List Report) (dia : Dialect) : ∀ (inp : Str) (line col : Nat) (lead : Bool) (acc : Str),
    Rel k old (fun a b => b = shScanned k a) (scanToWs dia inp line col lead acc) (scanToWs dia inp (line + k) col lead acc) := by
  intro inp
  induction inp with
  | nil =>
    intro line col lead acc; unfold scanToWs
    refine rel_bind k old _ _ _ _ _ _ (rel_leadAtEof k old dia line col lead acc) ?_
    intro a b hab; subst hab
    exact rel_pure k old _ _ _ rfl
  | cons c r ih =>
    intro line col lead acc
    unfold scanToWs
    refine rel_bind k old _ _ _ _ _ _ (rel_scanUChar k old dia line col _ c lead) ?_
    intro a b hab; subst hab
    simp only
    split
    · exact rel_pure k old _ _ _ rfl
    · exact ih line a.col a.lead _

theorem rel_scanToEol (old : List Report) (dia : Dialect) : ∀ (inp : Str) (line col : Nat) (lead : Bool) (acc : Str),
    Rel k old (fun a b => b = shScanned k a) (scanToEol dia inp line col lead acc) (scanToEol dia inp (line + k) col lead acc) := by
  intro inp
  induction inp with
  | nil =>
    intro line col lead acc; unfold scanToEol
    refine rel_bind k old _ _ _ _ _ _ (rel_leadAtEof k old dia line col lead acc) ?_
    intro a b hab; subst hab
    exact rel_pure k old _ _ _ rfl
  | cons c r ih =>
    intro line col lead acc
    unfold scanToEol
    refine rel_bind k old _ _ _ _ _ _ (rel_scanUChar k old dia line col _ c lead) ?_
    intro a b hab; subst hab
    simp only
    split
    · exact rel_pure k old _ _ _ rfl
    · exact ih line a.col a.lead _

theorem rel_scanUnquoted (old : List Report) (dia : Dialect) :
    ∀ (inp : Str) (line col : Nat) (lead : Bool) (acc : Str) (n : Nat) (kd ks : Bool),
    Rel k old (fun a b => b = shScanned k a) (scanUnquoted dia inp line col lead acc n kd ks)
      (scanUnquoted dia inp (line + k) col lead acc n kd ks) := by
  intro inp
  induction inp with
  | nil =>
    intro line col lead acc n kd ks; unfold scanUnquoted
    refine rel_bind k old _ _ _ _ _ _ (rel_leadAtEof k old dia line col lead acc) ?_
    intro a b hab; subst hab
    exact rel_pure k old _ _ _ rfl
  | cons c r ih =>
    intro line col lead acc n kd ks
    unfold scanUnquoted
    refine rel_bind k old _ _ _ _ _ _ (rel_scanUChar k old dia line col _ c lead) ?_
    intro a b hab; subst hab
    simp only
    split
    · exact ih _ _ _ _ _ _ _
    · split
      · exact rel_seq k old _ _ _ _ _ (rel_report k old _ _ _) (rel_pure k old _ _ _ rfl)
      · exact ih _ _ _ _ _ _ _
    · split
      · exact rel_pure k old _ _ _ rfl
      · exact ih _ _ _ _ _ _ _
    · split
      · exact rel_pure k old _ _ _ rfl
      · exact rel_pure k old _ _ _ rfl
    · exact ih _ _ _ _ _ _ _

theorem rel_scanTriple (old : List Report) (dia : Dialect) (delim : Nat) :
    ∀ (inp : Str) (line col : Nat) (lead : Bool) (acc : Str) (dc sol : Nat),
    Rel k old (fun a b => b = shScanned k a) (scanTriple dia delim inp line col lead acc dc sol)
      (scanTriple dia delim inp (line + k) col lead acc dc sol) := by
  intro inp
  induction inp with
  | nil =>
    intro line col lead acc dc sol; unfold scanTriple
    refine rel_bind k old _ _ _ _ _ _ (rel_leadAtEof k old dia line col lead acc) ?_
    intro a b hab; subst hab
    exact rel_seq k old _ _ _ _ _ (rel_report k old _ _ _) (rel_pure k old _ _ _ rfl)
  | cons c r ih =>
    intro line col lead acc dc sol
    unfold scanTriple
    refine rel_bind k old _ _ _ _ _ _ (rel_scanUChar k old dia line col _ c lead) ?_
    intro a b hab; subst hab
    simp only
    split
    · split
      · exact rel_pure k old _ _ _ rfl
      · exact ih _ _ _ _ _ _
    · split
      · refine rel_bind k old _ _ _ _ _ _ (rel_handleEol k old line _ sol a.c) ?_
        intro x y hxy; subst hxy
        obtain ⟨l, c', s⟩ := x
        exact ih l c' _ _ _ s
      · exact ih _ _ _ _ _ _

theorem rel_scanDelim (old : List Report) (dia : Dialect) (delim : Nat) :
    ∀ (inp : Str) (line col : Nat) (lead : Bool) (acc : Str) (first : Bool),
    Rel k old (fun a b => b = shScanned k a) (scanDelim dia delim inp line col lead acc first)
      (scanDelim dia delim inp (line + k) col lead acc first) := by
  intro inp
  induction inp with
  | nil =>
    intro line col lead acc first; unfold scanDelim
    refine rel_bind k old _ _ _ _ _ _ (rel_leadAtEof k old dia line col lead acc) ?_
    intro a b hab; subst hab
    exact rel_seq k old _ _ _ _ _ (rel_report k old _ _ _) (rel_pure k old _ _ _ rfl)
  | cons c r ih =>
    intro line col lead acc first
    unfold scanDelim
    refine rel_bind k old _ _ _ _ _ _ (rel_scanUChar k old dia line col _ c lead) ?_
    intro a b hab; subst hab
    simp only
    split
    · split
      · exact rel_pure k old _ _ _ rfl
      · split
        · split
          · exact ih _ _ _ _ _
          · exact rel_pure k old _ _ _ rfl
        · split
          · exact rel_scanTriple k old dia delim _ _ _ _ _ _ _
          · exact rel_pure k old _ _ _ rfl
    · split
      · exact rel_seq k old _ _ _ _ _ (rel_report k old _ _ _) (rel_pure k old _ _ _ rfl)
      · exact ih _ _ _ _ _

theorem rel_scanText (old : List Report) (dia : Dialect) :
    ∀ (inp : Str) (line col : Nat) (lead : Bool) (acc : Str) (sol : Nat),
    Rel k old (fun a b => b = shScanned k a) (scanText dia inp line col lead acc sol)
      (scanText dia inp (line + k) col lead acc sol) := by
  intro inp
  induction inp with
  | nil =>
    intro line col lead acc sol; unfold scanText
    refine rel_bind k old _ _ _ _ _ _ (rel_leadAtEof k old dia line col lead acc) ?_
    intro a b hab; subst hab
    exact rel_seq k old _ _ _ _ _ (rel_report k old _ _ _) (rel_pure k old _ _ _ rfl)
  | cons c r ih =>
    intro line col lead acc sol
    unfold scanText
    refine rel_bind k old _ _ _ _ _ _ (rel_scanUChar k old dia line col _ c lead) ?_
    intro a b hab; subst hab
    simp only
    split
    · split
      · exact rel_pure k old _ _ _ rfl
      · exact ih _ _ _ _ _
    · split
      · refine rel_bind k old _ _ _ _ _ _ (rel_handleEol k old line _ sol a.c) ?_
        intro x y hxy; subst hxy
        obtain ⟨l, c', s⟩ := x
        exact ih l c' _ _ s
      · exact ih _ _ _ _ _

def shTok (t : Tok) : Tok := ⟨t.ty, t.text, t.line + k, t.col⟩
def shScan (s : Scan) : Scan := ⟨s.rest, s.line + k, s.col, s.lastType⟩
def shStep : Step → Step
  | .tok t p => .tok (shTok k t) (shPos k p)
  | .skip aw p => .skip aw (shPos k p)

theorem mkTok_sh (ty : TokType) (text : Str) (p : Pos) : mkTok ty text (shPos k p) = shStep k (mkTok ty text p) := rfl

theorem keyPeek_sh (a b : TokType) (text : Str) (p : Pos) : keyPeek a b text (shPos k p) = shStep k (keyPeek a b text p) := by
  obtain ⟨rest, line, col⟩ := p
  cases rest with
  | nil => rfl
  | cons c r =>
    simp only [keyPeek, shPos]
    split <;> rfl

theorem rel_finishUnquoted (old : List Report) (dia : Dialect) (aw : Bool) (t : Str) (p : Pos) :
    Rel k old (fun a b => b = shStep k a) (finishUnquoted dia aw t p) (finishUnquoted dia aw t (shPos k p)) := by
  unfold finishUnquoted
  split
  · exact rel_pure k old _ _ _ (mkTok_sh k _ _ _)
  · exact rel_pure k old _ _ _ (mkTok_sh k _ _ _)
  · exact rel_pure k old _ _ _ (mkTok_sh k _ _ _)
  · exact rel_pure k old _ _ _ (mkTok_sh k _ _ _)
  · exact rel_pure k old _ _ _ (mkTok_sh k _ _ _)
  · exact rel_seq k old _ _ _ _ _ (rel_report k old _ p.line _) (rel_pure k old _ _ _ rfl)

theorem rel_ite {α β : Type} (old : List Report) (f : α → β → Prop) (c : Prop) [Decidable c] (a1 b1 : L α) (a2 b2 : L β)
    (ht : Rel k old f a1 a2) (he : Rel k old f b1 b2) :
    Rel k old f (if c then a1 else b1) (if c then a2 else b2) := by
  by_cases h : c
  · rw [if_pos h, if_pos h]; exact ht
  · rw [if_neg h, if_neg h]; exact he

theorem rel_stepTok (old : List Report) (dia : Dialect) (aw : Bool) (c : Nat) (r : Str) (line col : Nat) :
    Rel k old (fun a b => b = shStep k a) (stepTok dia aw c r line col) (stepTok dia aw c r (line + k) col) := by
  unfold stepTok
  refine rel_seq k old _ _ _ _ _ (rel_reportIf k old _ _ _ _) ?_
  refine rel_ite k old _ _ _ _ _ _ ?_ ?_
  · refine rel_bind k old _ _ _ _ _ _ (rel_scanWs k old dia _ line _ 0) ?_
    intro a b hab; subst hab; exact rel_pure k old _ _ _ rfl
  refine rel_ite k old _ _ _ _ _ _ ?_ ?_
  · refine rel_bind k old _ _ _ _ _ _ (rel_scanWs k old dia _ line _ 0) ?_
    intro a b hab; subst hab; exact rel_pure k old _ _ _ rfl
  refine rel_ite k old _ _ _ _ _ _ ?_ ?_
  · refine rel_bind k old _ _ _ _ _ _ (rel_scanToEol k old dia _ line _ _ _) ?_
    intro a b hab; subst hab; exact rel_pure k old _ _ _ rfl
  refine rel_ite k old _ _ _ _ _ _ ?_ ?_
  · refine rel_bind k old _ _ _ _ _ _ (rel_scanToWs k old dia _ line _ _ _) ?_
    intro a b hab; subst hab; exact rel_pure k old _ _ _ (mkTok_sh k _ _ _)
  refine rel_ite k old _ _ _ _ _ _ (rel_pure k old _ _ _ rfl) ?_
  refine rel_ite k old _ _ _ _ _ _ (rel_pure k old _ _ _ rfl) ?_
  refine rel_ite k old _ _ _ _ _ _ (rel_pure k old _ _ _ rfl) ?_
  refine rel_ite k old _ _ _ _ _ _ (rel_pure k old _ _ _ rfl) ?_
  refine rel_ite k old _ _ _ _ _ _ ?_ ?_
  · refine rel_bind k old _ _ _ _ _ _ (rel_scanDelim k old dia c _ line _ _ _ _) ?_
    intro a b hab; subst hab; exact rel_pure k old _ _ _ (keyPeek_sh k _ _ _ _)
  refine rel_ite k old _ _ _ _ _ _ ?_ ?_
  · refine rel_ite k old _ _ _ _ _ _ ?_ ?_
    · refine rel_bind k old _ _ _ _ _ _ (rel_scanText k old dia _ line _ _ _ _) ?_
      intro a b hab; subst hab
      refine rel_ite k old _ _ _ _ _ _ ?_ ?_
      · exact rel_pure k old _ _ _ (keyPeek_sh k _ _ _ _)
      · exact rel_pure k old _ _ _ (mkTok_sh k _ _ _)
    · refine rel_bind k old _ _ _ _ _ _ (rel_scanUnquoted k old dia _ line _ _ _ _ _ _) ?_
      intro a b hab; subst hab
      exact rel_finishUnquoted k old dia aw _ _
  · refine rel_bind k old _ _ _ _ _ _ (rel_scanUnquoted k old dia _ line _ _ _ _ _ _) ?_
    intro a b hab; subst hab
    exact rel_finishUnquoted k old dia aw _ _

theorem rel_tokLoop (old : List Report) (dia : Dialect) : ∀ (fuel : Nat) (aw : Bool) (p : Pos),
    Rel k old (fun a b => b = (shTok k a.1, shPos k a.2)) (tokLoop dia fuel aw p) (tokLoop dia fuel aw (shPos k p)) := by
  intro fuel
  induction fuel with
  | zero => intro aw p; unfold tokLoop; exact rel_pure k old _ _ _ rfl
  | succ f ih =>
    intro aw p
    obtain ⟨rest, line, col⟩ := p
    cases rest with
    | nil => unfold tokLoop; exact rel_pure k old _ _ _ rfl
    | cons c r =>
      unfold tokLoop
      simp only [shPos]
      refine rel_bind k old _ _ _ _ _ _ (rel_stepTok k old dia aw c r line col) ?_
      intro a b hab; subst hab
      cases a with
      | tok t p' => exact rel_pure k old _ _ _ rfl
      | skip aw' p' => exact ih aw' p'

theorem rel_nextToken (old : List Report) (dia : Dialect) (s : Scan) :
    Rel k old (fun a b => b = (shTok k a.1, shScan k a.2)) (nextToken dia s) (nextToken dia (shScan k s)) := by
  unfold nextToken
  refine rel_bind k old _ _ _ _ _ _ (rel_tokLoop k old dia (s.rest.length + 1) (afterWsOf s.lastType) ⟨s.rest, s.line, s.col⟩) ?_
  intro a b hab; subst hab
  obtain ⟨t, p⟩ := a
  exact rel_pure k old _ _ _ rfl

/-- the two token accumulators: the same `oldT` part, the new tokens shifted -/
def TokRel (oldT t1 t2 : List Tok) : Prop := ∃ new, t1 = new ++ oldT ∧ t2 = new.map (shTok k) ++ oldT

theorem TokRel.cons {oldT t1 t2 : List Tok} (h : TokRel k oldT t1 t2) (t : Tok) : TokRel k oldT (t :: t1) (shTok k t :: t2) := by
  obtain ⟨new, h1, h2⟩ := h; subst h1 h2; exact ⟨t :: new, rfl, rfl⟩

/-- **the whole token stream shifts**: started `k` lines further down, in front of the same remaining input, the
    repeated next_token delivers the same tokens (types, texts, columns) with every line number `k` higher, the same
    return value, and the same reports with line numbers `k` higher -/
theorem tokensLoop_shift (dia : Dialect) (pol : Policy) (old : List Report) (oldT : List Tok) :
    ∀ (fuel : Nat) (s : Scan) (t1 t2 : List Tok) (l1 l2 : List Report), TokRel k oldT t1 t2 → LogRel k old l1 l2 →
      TokRel k oldT (tokensLoop dia pol fuel s t1 l1).1.reverse (tokensLoop dia (polD k pol) fuel (shScan k s) t2 l2).1.reverse ∧
      (tokensLoop dia pol fuel s t1 l1).2.1 = (tokensLoop dia (polD k pol) fuel (shScan k s) t2 l2).2.1 ∧
      LogRel k old (tokensLoop dia pol fuel s t1 l1).2.2 (tokensLoop dia (polD k pol) fuel (shScan k s) t2 l2).2.2 := by
  intro fuel
  induction fuel with
  | zero =>
    intro s t1 t2 l1 l2 ht hl
    simp only [tokensLoop, List.reverse_reverse]
    exact ⟨ht, trivial, hl⟩
  | succ f ih =>
    intro s t1 t2 l1 l2 ht hl
    have h := rel_nextToken k old dia s pol l1 l2 hl
    unfold tokensLoop
    cases h1 : nextToken dia s pol l1 with
    | abort rv la =>
      cases h2 : nextToken dia (shScan k s) (polD k pol) l2 with
      | ok b lb => rw [h1, h2] at h; exact h.elim
      | abort rv' lb =>
        rw [h1, h2] at h
        simp only [List.reverse_reverse]
        exact ⟨ht, h.1, h.2⟩
    | ok a la =>
      cases h2 : nextToken dia (shScan k s) (polD k pol) l2 with
      | abort rv' lb => rw [h1, h2] at h; exact h.elim
      | ok b lb =>
        rw [h1, h2] at h
        obtain ⟨hab, hlog⟩ := h
        obtain ⟨t, s'⟩ := a
        subst hab
        have hty : (shTok k t).ty = t.ty := rfl
        simp only [hty]
        by_cases hend : t.ty = .end_
        · rw [if_pos hend, if_pos hend]
          simp only [List.reverse_reverse]
          exact ⟨ht.cons k t, trivial, hlog⟩
        · rw [if_neg hend, if_neg hend]
          exact ih s' (t :: t1) (shTok k t :: t2) la lb (ht.cons k t) hlog

/-- tokensLoop looks at its scanner state only through the first next_token call -/
theorem tokensLoop_congr (dia : Dialect) (pol : Policy) (fuel : Nat) (s s2 : Scan) (toks : List Tok) (log : List Report)
    (h : nextToken dia s pol log = nextToken dia s2 pol log) :
    tokensLoop dia pol (fuel + 1) s toks log = tokensLoop dia pol (fuel + 1) s2 toks log := by
  unfold tokensLoop
  rw [h]

end Shift
end CifModel.Model.Lexer
