import CifModel.Lemmas.StoreSpecRefine
import CifModel.Lemmas.StoreIterSpec
import CifModel.Lemmas.StoreWOkQ
import CifModel.Lemmas.StoreSpecSetValue
/-
  Lemmas/StoreSpecWorld — `specStep_refines`: the world-level refinement, for ALL 31 ops of a history.

  In a world satisfying `WOk`, an op that keeps to the contract does to the documented model with object identities (`absW`: every
  managed CIF as `absS`, every open iterator as the abstract iterator `absIter` of its store) exactly what `specStep` says, and returns
  the same result.  The per-call commutation lemmas are those of Lemmas/StoreSpecRefine (24 ops), Lemmas/StoreSpecSetValue
  (cif_container_set_value) and Lemmas/StoreIterSpec (the iterator calls, C06); here they are lifted over the handle tables.
-/
namespace CifModel.Store
open Gen.ErrCodes

-- ---- the tree model is a projection of the identity model ---------------------------------------------------------------------------

theorem absALoop_toLoop (d : Db) (x : LoopRow) : (absALoop d x).toLoop = absLoop d x := by
  unfold ALoop.toLoop absALoop absLoop
  simp only [List.map_map]
  rfl

theorem treeContainer_absS (d : Db) : ∀ fuel,
    (∀ cid code, (absS d).treeContainer fuel cid code = absContainer d fuel cid code) ∧
    (∀ fs, (absS d).treeFrames fuel fs = absFrames d fuel fs) := by
  have hl : ∀ cid, ((absS d).loops.filter (fun y => y.cid == cid)).map ALoop.toLoop = (d.loops.filter (fun l => l.cid == cid)).map (absLoop d) := by
    intro cid
    show ((d.loops.map (absALoop d)).filter _).map _ = _
    rw [List.filter_map, List.map_map]
    have : (fun y : ALoop => y.cid == cid) ∘ absALoop d = (fun l : LoopRow => l.cid == cid) := by funext x; rfl
    rw [this]
    apply List.map_congr_left
    intro x _
    exact absALoop_toLoop d x
  intro fuel
  induction fuel with
  | zero =>
    refine ⟨fun cid code => by simp [AState.treeContainer, absContainer], ?_⟩
    intro fs
    induction fs with
    | nil => simp [AState.treeFrames, absFrames]
    | cons f fs ih => simp [AState.treeFrames, absFrames, AState.treeContainer, absContainer, ih]
  | succ k ih =>
    have hc : ∀ cid code, (absS d).treeContainer (k + 1) cid code = absContainer d (k + 1) cid code := by
      intro cid code
      simp only [AState.treeContainer, absContainer, hl]
      congr 1
      exact ih.2 _
    refine ⟨hc, ?_⟩
    intro fs
    induction fs with
    | nil => simp [AState.treeFrames, absFrames]
    | cons f fs ihf => simp only [AState.treeFrames, absFrames, hc, ihf]

/-- what a dump through the public query API shows (`abs`) is the tree projection of the identity model -/
theorem absS_tree (d : Db) : (absS d).tree = abs d := by
  unfold AState.tree abs
  show d.blocks.map _ = d.blocks.map _
  apply List.map_congr_left
  intro b _
  exact (treeContainer_absS d _).1 _ _

-- ---- worlds ------------------------------------------------------------------------------------------------------------------------------

theorem AWorld.ext4 {a b : AWorld} (h1 : a.cifs = b.cifs) (h2 : a.chs = b.chs) (h3 : a.lhs = b.lhs) (h4 : a.its = b.its) : a = b := by
  cases a; cases b; simp only [] at h1 h2 h3 h4; subst h1; subst h2; subst h3; subst h4; rfl

/-- the abstract iterator looks at the content and at the BEGIN snapshot of its store only -/
theorem absIter_congr (it : Iter) (s s' : Store) (hd : s'.db = s.db) (ht : s'.txn = s.txn) : absIter it s' = absIter it s := by
  unfold absIter; rw [hd, ht]

theorem absITE_congr (cifs cifs' : List (Option Store)) (e : ITE) (h : cifs'.getD e.cif none = cifs.getD e.cif none) :
    absITE cifs' e = absITE cifs e := by
  unfold absITE; rw [h]

theorem absITE_live {cifs : List (Option Store)} {e : ITE} {s : Store} (h : cifs.getD e.cif none = some s) :
    absITE cifs e = { cif := e.cif, lh := e.lh, it := absIter e.it s } := by
  unfold absITE; rw [h]; rfl

open World in
theorem notBusy_mem {w : World} {c : Nat} (hb : w.cifBusy c = false) : ∀ e, some e ∈ w.its → e.cif ≠ c := by
  intro e he hc
  unfold cifBusy at hb
  have := List.any_eq_false.mp hb (some e) he
  simp [hc] at this

/-- the abstract iterator table does not see a change of a CIF on which no iterator is open -/
theorem absW_its_free (w w' : World) (c : Nat) (hb : w.cifBusy c = false) (hits : w'.its = w.its)
    (hc : ∀ j, j ≠ c → w'.cifs.getD j none = w.cifs.getD j none) : (absW w).its = (absW w').its := by
  show w.its.map _ = w'.its.map _
  rw [hits]
  apply List.map_congr_left
  intro o ho
  cases o with
  | none => rfl
  | some e => simp only [Option.map_some]; rw [absITE_congr w.cifs w'.cifs e (hc _ (notBusy_mem hb e ho))]

open World in
theorem cifBusy_absW (w : World) (c : Nat) : (absW w).cifBusy c = w.cifBusy c := by
  unfold AWorld.cifBusy cifBusy absW
  simp only [List.any_map]
  congr 1
  funext o
  cases o <;> rfl

open World in
theorem itOnLh_absW (w : World) (l : Nat) : (absW w).itOnLh l = w.itOnLh l := by
  unfold AWorld.itOnLh itOnLh absW
  simp only [List.any_map]
  congr 1
  funext o
  cases o <;> rfl

open World in
theorem itOnCh_absW (w : World) (h : Nat) : (absW w).itOnCh h = w.itOnCh h := by
  unfold AWorld.itOnCh itOnCh absW
  simp only [List.any_map]
  congr 1
  funext o
  cases o <;> rfl

open World in
theorem liveC_absW (w : World) (c : Nat) : (absW w).liveC c = (w.liveC c).map (fun s => absS s.db) := by
  unfold AWorld.liveC liveC absW
  simp only [List.getD, List.getElem?_map]
  cases w.cifs[c]? with
  | none => rfl
  | some x => cases x <;> rfl

open World in
theorem liveH_absW (w : World) (h : Nat) : (absW w).liveH h = (w.liveH h).map (fun p => (p.1, absS p.2.db)) := by
  unfold AWorld.liveH liveH
  show (match w.chs.getD h none with | none => none | some e => ((absW w).liveC e.cif).map (fun s => (e, s))) = _
  cases w.chs.getD h none with
  | none => rfl
  | some e =>
    simp only [liveC_absW]
    cases w.liveC e.cif <;> rfl

open World in
theorem liveL_absW (w : World) (l : Nat) : (absW w).liveL l = (w.liveL l).map (fun p => (p.1, absS p.2.db)) := by
  unfold AWorld.liveL liveL
  show (match w.lhs.getD l none with
        | none => none
        | some e => match (absW w).liveH e.ch with
          | none => none
          | some _ => ((absW w).liveC e.cif).map (fun s => (e, s))) = _
  cases w.lhs.getD l none with
  | none => rfl
  | some e =>
    simp only [liveH_absW, liveC_absW]
    cases w.liveH e.ch with
    | none => rfl
    | some p => cases w.liveC e.cif <;> rfl

open World in
/-- a live iterator of the world is, in the documented model, the abstract iterator of its store -/
theorem liveI_absW (w : World) (i : Nat) :
    (absW w).liveI i = (w.liveI i).map (fun p => ({ cif := p.1.cif, lh := p.1.lh, it := absIter p.1.it p.2 }, absS p.2.db)) := by
  unfold AWorld.liveI liveI
  have hg : (absW w).its.getD i none = (w.its.getD i none).map (absITE w.cifs) := by
    show (w.its.map _).getD i none = _
    simp only [List.getD, List.getElem?_map]
    cases w.its[i]? with
    | none => rfl
    | some o => cases o <;> rfl
  rw [hg]
  cases w.its.getD i none with
  | none => rfl
  | some e =>
    simp only [Option.map_some]
    have h1 : (absITE w.cifs e).lh = e.lh := rfl
    have h2 : (absITE w.cifs e).cif = e.cif := rfl
    rw [h1, h2, liveL_absW, liveC_absW]
    cases w.liveL e.lh with
    | none => rfl
    | some p =>
      simp only [Option.map_some]
      cases hc : w.liveC e.cif with
      | none => rfl
      | some s =>
        simp only [Option.map_some]
        rw [absITE_live (cifs := w.cifs) (e := e) (s := s) hc]

open World in
theorem absW_setCif (w : World) (c : Nat) (s1 : Store) : (absW (w.setCif c s1)).cifs = ((absW w).setCif c (absS s1.db)).cifs := by
  unfold absW setCif AWorld.setCif
  simp only [List.map_set]
  rfl

open World in
theorem okC_free {w : World} {c : Nat} {s : Store} (hin : okC w c = true) (hl : w.liveC c = some s) : w.cifBusy c = false := by
  unfold okC at hin; rw [hl] at hin; simpa using hin
open World in
theorem okH_free {w : World} {hh : Nat} {e : CHE} {s : Store} (hin : okH w hh = true) (hl : w.liveH hh = some (e, s)) :
    w.cifBusy e.cif = false ∧ e.h.validB s.db = true := by
  unfold okH CH.okB at hin; rw [hl] at hin; simp only [Bool.and_eq_true, Bool.not_eq_true'] at hin; exact ⟨hin.1, hin.2.1⟩
open World in
theorem okL_free {w : World} {l : Nat} {e : LHE} {s : Store} (hin : okL w l = true) (hl : w.liveL l = some (e, s)) :
    w.cifBusy e.cif = false ∧ e.h.validB s.db = true := by
  unfold okL LH.okB at hin; rw [hl] at hin; simp only [Bool.and_eq_true, Bool.not_eq_true'] at hin; exact ⟨hin.1, hin.2.1⟩


-- ---- the iterator table under a change of the iterated CIF ---------------------------------------------------------------------------

theorem mem_of_getD_some {α} {l : List (Option α)} {i : Nat} {a : α} (h : l.getD i none = some a) : some a ∈ l := by
  simp only [List.getD] at h
  cases hq : l[i]? with
  | none => rw [hq] at h; cases h
  | some o =>
    rw [hq] at h
    simp only [Option.getD_some] at h
    subst h
    exact List.mem_of_getElem? hq

theorem getD_of_mem {α} {l : List (Option α)} {a : α} (h : some a ∈ l) : ∃ i, l.getD i none = some a := by
  obtain ⟨i, hi, hget⟩ := List.getElem_of_mem h
  exact ⟨i, by simp [List.getD, hi, hget]⟩

theorem set_self_getD {α} (l : List (Option α)) (i : Nat) (a : α) (h : l.getD i none = some a) : l.set i (some a) = l := by
  apply List.ext_getElem?
  intro j
  by_cases hj : i = j
  · subst hj
    simp only [List.getD] at h
    cases hq : l[i]? with
    | none => rw [hq] at h; cases h
    | some o =>
      rw [hq] at h
      simp only [Option.getD_some] at h
      subst h
      have hlt : i < l.length := (List.getElem?_eq_some_iff.mp hq).1
      simp [hlt]
  · rw [List.getElem?_set_ne hj]

open World in
/-- the abstract iterator table when CIF `c` changes from `s` to `s1` and every iterator on `c` looks the same in both -/
theorem its_map_cif (w : World) (c : Nat) (s s1 : Store) (hs : w.liveC c = some s) (its : List (Option ITE))
    (hit : ∀ e, some e ∈ its → e.cif = c → absIter e.it s1 = absIter e.it s) :
    its.map (fun o => o.map (absITE (w.cifs.set c (some s1)))) = its.map (fun o => o.map (absITE w.cifs)) := by
  apply List.map_congr_left
  intro o ho
  cases o with
  | none => rfl
  | some e =>
    simp only [Option.map_some, Option.some.injEq]
    by_cases hc : e.cif = c
    · have h1 : (w.cifs.set c (some s1)).getD e.cif none = some s1 := by rw [hc]; exact liveC_set_self w c s s1 hs
      have h2 : w.cifs.getD e.cif none = some s := by rw [hc]; exact hs
      rw [absITE_live h1, absITE_live h2, hit e ho hc]
    · exact absITE_congr _ _ e (getD_set_ne' _ _ _ _ hc)

open World in
/-- … and when entry `i` — the one iterator open on that CIF — is replaced -/
theorem its_map_set (w : World) (i : Nat) (e0 : ITE) (s1 : Store) (hi : w.its.getD i none = some e0) (hone : OneIter w)
    (x : Option ITE) :
    (w.its.set i x).map (fun o => o.map (absITE (w.cifs.set e0.cif (some s1)))) =
      (w.its.map (fun o => o.map (absITE w.cifs))).set i (x.map (absITE (w.cifs.set e0.cif (some s1)))) := by
  rw [List.map_set]
  apply List.ext_getElem?
  intro j
  by_cases hj : i = j
  · subst hj
    simp only [List.getElem?_set_self', List.getElem?_map]
    cases w.its[i]? <;> rfl
  · rw [List.getElem?_set_ne hj, List.getElem?_set_ne hj, List.getElem?_map, List.getElem?_map]
    cases hq : w.its[j]? with
    | none => rfl
    | some o =>
      cases o with
      | none => rfl
      | some e =>
        simp only [Option.map_some, Option.some.injEq]
        have hje : w.its.getD j none = some e := by simp [List.getD, hq]
        have hne : e.cif ≠ e0.cif := fun hc => hj (hone i j e0 e hi hje hc.symm)
        exact absITE_congr _ _ e (getD_set_ne' _ _ _ _ hne)

/-- cif_loop_get_packets inside a transaction: the code of the refusal is the documented model's -/
theorem getPackets_refused_code (s : Store) (l : LH) (d : Db) (ht : s.txn = some d) (hinv : Inv s.db) :
    (getPackets s l).2 = .error (specItOpenRefused (absS s.db) l) := by
  have hsame := getNames_same s l
  have hnr : (getNames s l).2 = (match s.db.loopItems l.cid l.loopNum with
      | [] => .error CIF_INVALID_HANDLE
      | is => .ok (is.map (fun i => (i.name, i.nameOrig)))) := by
    unfold getNames; rw [nestRO_snd]; cases s.db.loopItems l.cid l.loopNum <;> rfl
  have hspec : specItOpenRefused (absS s.db) l = if (s.db.loopItems l.cid l.loopNum).isEmpty then CIF_INVALID_HANDLE else CIF_ERROR := by
    unfold specItOpenRefused
    rw [findLoop_absS]
    cases hf : s.db.loops.find? (fun x => x.cid == l.cid && x.loopNum == l.loopNum) with
    | none =>
      have : s.db.loopItems l.cid l.loopNum = [] := by
        unfold Db.loopItems
        rw [List.filter_eq_nil_iff]
        intro i hi hk
        simp only [Bool.and_eq_true, beq_iff_eq] at hk
        obtain ⟨x, hx, h1, h2⟩ := (hasLoop_iff _ _ _).mp (hinv.itemFK i hi)
        have := List.find?_eq_none.mp hf x hx
        simp [h1, h2, hk.1, hk.2] at this
      simp [this]
    | some x =>
      have hk := List.find?_some hf
      simp only [Bool.and_eq_true, beq_iff_eq] at hk
      simp only [Option.map_some]
      show (if ((s.db.loopItems x.cid x.loopNum).map (fun i => (i.name, i.nameOrig))).isEmpty then _ else _) = _
      rw [hk.1, hk.2]
      cases s.db.loopItems l.cid l.loopNum <;> rfl
  rw [hspec]
  unfold getPackets
  cases hg : getNames s l with
  | mk s1 r =>
    rw [hg] at hsame hnr
    simp only [] at hnr
    cases r with
    | error c =>
      simp only []
      cases hli : s.db.loopItems l.cid l.loopNum with
      | nil => rw [hli] at hnr; simp only [] at hnr; cases hnr; rfl
      | cons a as => rw [hli] at hnr; cases hnr
    | ok ns =>
      simp only []
      have hb : s1.begin = none := by
        unfold Store.begin
        have h1 : s1.txn = some d := by rw [← ht]; exact hsame.2.1
        have : s1.autocommit = false := by simp [Store.autocommit, h1]
        simp [this]
      rw [hb]
      cases hli : s.db.loopItems l.cid l.loopNum with
      | nil => rw [hli] at hnr; cases hnr
      | cons a as => rfl

open World in
/-- `C04_refines`, every op: in a world satisfying WOk, an op that keeps to the contract does to the documented model (`absW`) exactly
    what `specStep` says, and returns the same result -/
theorem specStep_refines (w : World) (op : Op) (h : WOk w) (hin : inContract w op = true) :
    specStep (absW w) op = some (absW (step w op).1, (step w op).2) := by
  cases op with
  | addPkt l p =>
    have hin' : (okL w l && keysDistinct p) = true := hin
    simp only [Bool.and_eq_true] at hin'
    simp only [specStep, step, liveL_absW]
    cases hl : w.liveL l with
    | none => rfl
    | some pr =>
      obtain ⟨e, s⟩ := pr
      have hb : w.cifBusy e.cif = false := (okL_free hin'.1 hl).1
      have hv : e.h.validB s.db = true := (okL_free hin'.1 hl).2
      have hg := (h.good.live (liveL_liveC hl)).db
      obtain ⟨h1, h2⟩ := addPacket_spec s e.h p hg hv hin'.2
      simp only [Option.map_some]
      rw [← h1, ← h2]
      simp only [Option.some.injEq, Prod.mk.injEq, and_true]
      refine AWorld.ext4 ?_ rfl rfl ?_
      · exact (absW_setCif w e.cif _).symm
      · exact absW_its_free w _ e.cif hb rfl (fun j hj => getD_set_ne' _ _ _ _ hj)
  | setCat l cat =>
    simp only [specStep, step, liveL_absW]
    cases hl : w.liveL l with
    | none => rfl
    | some pr =>
      obtain ⟨e, s⟩ := pr
      have hb : w.cifBusy e.cif = false := (okL_free hin hl).1
      have hv : e.h.validB s.db = true := (okL_free hin hl).2
      have hg := (h.good.live (liveL_liveC hl)).db
      obtain ⟨h1, h2, h3⟩ := setCategory_spec s e.h cat hg hv
      simp only [Option.map_some]
      rw [← h1, ← h2, ← h3]
      simp only [Option.some.injEq, Prod.mk.injEq, and_true]
      refine AWorld.ext4 ?_ rfl rfl ?_
      · exact (absW_setCif w e.cif _).symm
      · exact absW_its_free w _ e.cif hb rfl (fun j hj => getD_set_ne' _ _ _ _ hj)
  | ldestroy l =>
    simp only [specStep, step, liveL_absW]
    cases hl : w.liveL l with
    | none => rfl
    | some pr =>
      obtain ⟨e, s⟩ := pr
      have hb : w.cifBusy e.cif = false := (okL_free hin hl).1
      have hv : e.h.validB s.db = true := (okL_free hin hl).2
      have hg := (h.good.live (liveL_liveC hl)).db
      obtain ⟨h1, h2⟩ := destroyLoop_spec s e.h hg hv
      simp only [Option.map_some]
      have hit : (absW w).itOnLh l = w.itOnLh l := itOnLh_absW w l
      rw [hit]
      cases w.itOnLh l with
      | true => rfl
      | false =>
        simp only [Bool.false_eq_true, if_false]
        rw [← h1, ← h2]
        simp only [Option.some.injEq, Prod.mk.injEq, and_true]
        refine AWorld.ext4 ?_ rfl rfl ?_
        · exact (absW_setCif w e.cif _).symm
        · exact absW_its_free w _ e.cif hb rfl (fun j hj => getD_set_ne' _ _ _ _ hj)
  | cifNew =>
    simp only [specStep, step]
    simp only [Option.some.injEq, Prod.mk.injEq, and_true]
    refine AWorld.ext4 ?_ rfl rfl ?_
    · simp only [absW, List.map_append]; rfl
    · show w.its.map _ = w.its.map _
      apply List.map_congr_left
      intro o ho
      cases o with
      | none => rfl
      | some e =>
        simp only [Option.map_some]
        obtain ⟨i, hi, hget⟩ := List.getElem_of_mem ho
        have hlt := entry_lt h (i := i) (e := e) (by simp [List.getD, hi, hget])
        rw [absITE_congr w.cifs (w.cifs ++ [some ({} : Store)]) e (by simp [List.getD, List.getElem?_append_left hlt])]
  | cifDel c =>
    simp only [specStep, step, liveC_absW]
    cases hl : w.liveC c with
    | none => rfl
    | some s =>
      simp only [Option.map_some, Option.some.injEq, Prod.mk.injEq, and_true]
      have hb : w.cifBusy c = false := okC_free hin hl
      refine AWorld.ext4 ?_ rfl rfl ?_
      · show (w.cifs.map _).set c none = (w.cifs.set c none).map _
        rw [List.map_set]; rfl
      · show (w.its.map _).map _ = (w.its.map _).map _
        rw [List.map_map, List.map_map]
        apply List.map_congr_left
        intro o ho
        cases o with
        | none => rfl
        | some e =>
          have hne := notBusy_mem hb e ho
          have hne' : (e.cif == c) = false := by simpa using hne
          simp only [Function.comp, Option.map_some, hne', Bool.false_eq_true, if_false]
          have h1 : (absITE w.cifs e).cif = e.cif := rfl
          simp only [h1, hne', Bool.false_eq_true, if_false]
          rw [absITE_congr w.cifs (w.cifs.set c none) e (getD_set_ne' _ _ _ _ hne)]
  | getBlock c n =>
    simp only [specStep, step, liveC_absW]
    cases hl : w.liveC c with
    | none => rfl
    | some s =>
      have hb : w.cifBusy c = false := okC_free hin hl
      simp only [Option.map_some]
      have h1 := getBlock_fst s n
      have h2 := getBlock_spec s n
      rw [← h2]
      simp only [Option.some.injEq, Prod.mk.injEq, and_true]
      refine AWorld.ext4 ?_ rfl rfl ?_
      · rw [h1]; exact (absW_setCif w c _).symm
      · exact absW_its_free w _ c hb rfl (fun j hj => getD_set_ne' _ _ _ _ hj)
  | blocks c =>
    simp only [specStep, step, liveC_absW]
    cases hl : w.liveC c with
    | none => rfl
    | some s =>
      have hb : w.cifBusy c = false := okC_free hin hl
      simp only [Option.map_some, Option.some.injEq, Prod.mk.injEq]
      refine ⟨?_, rfl⟩
      refine AWorld.ext4 ?_ rfl rfl ?_
      · exact (absW_setCif w c _).symm
      · exact absW_its_free w _ c hb rfl (fun j hj => getD_set_ne' _ _ _ _ hj)
  | getFrame hh n =>
    simp only [specStep, step, liveH_absW]
    cases hl : w.liveH hh with
    | none => rfl
    | some pr =>
      obtain ⟨e, s⟩ := pr
      have hb : w.cifBusy e.cif = false := (okH_free hin hl).1
      simp only [Option.map_some]
      have h1 := getFrame_fst s e.h n
      have h2 := getFrame_spec s e.h n
      rw [← h2]
      simp only [Option.some.injEq, Prod.mk.injEq, and_true]
      refine AWorld.ext4 ?_ rfl rfl ?_
      · rw [h1]; exact (absW_setCif w e.cif _).symm
      · exact absW_its_free w _ e.cif hb rfl (fun j hj => getD_set_ne' _ _ _ _ hj)
  | frames hh =>
    simp only [specStep, step, liveH_absW]
    cases hl : w.liveH hh with
    | none => rfl
    | some pr =>
      obtain ⟨e, s⟩ := pr
      have hb : w.cifBusy e.cif = false := (okH_free hin hl).1
      simp only [Option.map_some, Option.some.injEq, Prod.mk.injEq]
      refine ⟨?_, rfl⟩
      refine AWorld.ext4 ?_ rfl rfl ?_
      · exact (absW_setCif w e.cif _).symm
      · exact absW_its_free w _ e.cif hb rfl (fun j hj => getD_set_ne' _ _ _ _ hj)
  | code hh =>
    simp only [specStep, step, liveH_absW]
    cases hl : w.liveH hh with
    | none => rfl
    | some pr => rfl
  | isBlock hh =>
    simp only [specStep, step, liveH_absW]
    cases hl : w.liveH hh with
    | none => rfl
    | some pr => rfl
  | getCat l =>
    simp only [specStep, step, liveL_absW]
    cases hl : w.liveL l with
    | none => rfl
    | some pr => rfl
  | cdestroy hh =>
    simp only [specStep, step, liveH_absW]
    cases hl : w.liveH hh with
    | none => rfl
    | some pr =>
      obtain ⟨e, s⟩ := pr
      have hb : w.cifBusy e.cif = false := (okH_free hin hl).1
      have hv : e.h.validB s.db = true := (okH_free hin hl).2
      have hg := (h.good.live (liveH_liveC hl)).db
      obtain ⟨h1, h2⟩ := destroyContainer_spec s e.h hg hv
      simp only [Option.map_some]
      have hit : (absW w).itOnCh hh = w.itOnCh hh := itOnCh_absW w hh
      rw [hit]
      cases w.itOnCh hh with
      | true => rfl
      | false =>
        simp only [Bool.false_eq_true, if_false]
        rw [← h1, ← h2]
        simp only [Option.some.injEq, Prod.mk.injEq, and_true]
        refine AWorld.ext4 ?_ rfl rfl ?_
        · exact (absW_setCif w e.cif _).symm
        · exact absW_its_free w _ e.cif hb rfl (fun j hj => getD_set_ne' _ _ _ _ hj)
  | names l =>
    simp only [specStep, step, liveL_absW]
    cases hl : w.liveL l with
    | none => rfl
    | some pr =>
      obtain ⟨e, s⟩ := pr
      have hb : w.cifBusy e.cif = false := (okL_free hin hl).1
      have hv : e.h.validB s.db = true := (okL_free hin hl).2
      have hg := (h.good.live (liveL_liveC hl)).db
      obtain ⟨h1, h2⟩ := getNames_spec s e.h hg hv
      simp only [Option.map_some]
      rw [← h2]
      simp only [Option.some.injEq, Prod.mk.injEq]
      refine ⟨?_, rfl⟩
      refine AWorld.ext4 ?_ rfl rfl ?_
      · rw [← h1]; exact (absW_setCif w e.cif _).symm
      · exact absW_its_free w _ e.cif hb rfl (fun j hj => getD_set_ne' _ _ _ _ hj)
  | catLoop hh cat =>
    simp only [specStep, step, liveH_absW]
    cases hl : w.liveH hh with
    | none => rfl
    | some pr =>
      obtain ⟨e, s⟩ := pr
      have hb : w.cifBusy e.cif = false := (okH_free hin hl).1
      simp only [Option.map_some]
      have h1 := getCategoryLoop_fst s e.h cat
      have h2 := getCategoryLoop_spec s e.h cat
      rw [← h2]
      simp only [Option.some.injEq, Prod.mk.injEq, and_true]
      refine AWorld.ext4 ?_ rfl rfl ?_
      · rw [h1]; exact (absW_setCif w e.cif _).symm
      · exact absW_its_free w _ e.cif hb rfl (fun j hj => getD_set_ne' _ _ _ _ hj)
  | itemLoop hh n =>
    simp only [specStep, step, liveH_absW]
    cases hl : w.liveH hh with
    | none => rfl
    | some pr =>
      obtain ⟨e, s⟩ := pr
      have hb : w.cifBusy e.cif = false := (okH_free hin hl).1
      simp only [Option.map_some]
      have h1 := getItemLoop_fst s e.h n
      have h2 := getItemLoop_spec s e.h n
      rw [← h2]
      simp only [Option.some.injEq, Prod.mk.injEq]
      refine ⟨?_, rfl⟩
      refine AWorld.ext4 ?_ rfl rfl ?_
      · rw [h1]; exact (absW_setCif w e.cif _).symm
      · exact absW_its_free w _ e.cif hb rfl (fun j hj => getD_set_ne' _ _ _ _ hj)
  | prune hh =>
    simp only [specStep, step, liveH_absW]
    cases hl : w.liveH hh with
    | none => rfl
    | some pr =>
      obtain ⟨e, s⟩ := pr
      have hb : w.cifBusy e.cif = false := (okH_free hin hl).1
      have hg := (h.good.live (liveH_liveC hl)).db
      obtain ⟨h1, h2⟩ := prune_spec s e.h hg
      simp only [Option.map_some]
      rw [← h1, ← h2]
      simp only [Option.some.injEq, Prod.mk.injEq, and_true]
      refine AWorld.ext4 ?_ rfl rfl ?_
      · exact (absW_setCif w e.cif _).symm
      · exact absW_its_free w _ e.cif hb rfl (fun j hj => getD_set_ne' _ _ _ _ hj)
  | mkBlock c n len =>
    simp only [specStep, step, liveC_absW]
    cases hl : w.liveC c with
    | none => rfl
    | some s =>
      have hb : w.cifBusy c = false := okC_free hin hl
      have hg := (h.good.live hl).db
      obtain ⟨h1, h2⟩ := createBlock_specL s n len hg (h.autocommit hl hb)
      simp only [Option.map_some]
      rw [← h1, ← h2]
      simp only [Option.some.injEq, Prod.mk.injEq, and_true]
      refine AWorld.ext4 ?_ rfl rfl ?_
      · exact (absW_setCif w c _).symm
      · exact absW_its_free w _ c hb rfl (fun j hj => getD_set_ne' _ _ _ _ hj)
  | mkFrame hh n len =>
    simp only [specStep, step, liveH_absW]
    cases hl : w.liveH hh with
    | none => rfl
    | some pr =>
      obtain ⟨e, s⟩ := pr
      have hin' : w.cifBusy e.cif = false ∧ e.h.validB s.db = true := okH_free hin hl
      have hb := hin'.1
      have hg := (h.good.live (liveH_liveC hl)).db
      obtain ⟨h1, h2⟩ := createFrame_specL s e.h n len hg (h.autocommit (liveH_liveC hl) hin'.1) hin'.2
      simp only [Option.map_some]
      rw [← h1, ← h2]
      simp only [Option.some.injEq, Prod.mk.injEq, and_true]
      refine AWorld.ext4 ?_ rfl rfl ?_
      · exact (absW_setCif w e.cif _).symm
      · exact absW_its_free w _ e.cif hb rfl (fun j hj => getD_set_ne' _ _ _ _ hj)
  | mkLoop hh cat names =>
    simp only [specStep, step, liveH_absW]
    cases hl : w.liveH hh with
    | none => rfl
    | some pr =>
      obtain ⟨e, s⟩ := pr
      have hin' : w.cifBusy e.cif = false ∧ e.h.validB s.db = true := okH_free hin hl
      have hb := hin'.1
      have hg := (h.good.live (liveH_liveC hl)).db
      obtain ⟨h1, h2⟩ := createLoop_spec s e.h cat names hg hin'.2
      simp only [Option.map_some]
      rw [← h1, ← h2]
      simp only [Option.some.injEq, Prod.mk.injEq, and_true]
      refine AWorld.ext4 ?_ rfl rfl ?_
      · exact (absW_setCif w e.cif _).symm
      · exact absW_its_free w _ e.cif hb rfl (fun j hj => getD_set_ne' _ _ _ _ hj)
  | addItem l n v =>
    simp only [specStep, step, liveL_absW]
    cases hl : w.liveL l with
    | none => rfl
    | some pr =>
      obtain ⟨e, s⟩ := pr
      have hb : w.cifBusy e.cif = false := (okL_free hin hl).1
      have hv : e.h.validB s.db = true := (okL_free hin hl).2
      have hg := (h.good.live (liveL_liveC hl)).db
      simp only [Option.map_some]
      cases n with
      | none => rfl
      | some nm =>
        obtain ⟨h1, h2⟩ := addItem_spec s e.h (some nm) v hg hv
        simp only []
        rw [← h1, ← h2]
        simp only [Option.some.injEq, Prod.mk.injEq, and_true]
        refine AWorld.ext4 ?_ rfl rfl ?_
        · exact (absW_setCif w e.cif _).symm
        · exact absW_its_free w _ e.cif hb rfl (fun j hj => getD_set_ne' _ _ _ _ hj)
  | getVal hh n =>
    simp only [specStep, step, liveH_absW]
    cases hl : w.liveH hh with
    | none => rfl
    | some pr =>
      obtain ⟨e, s⟩ := pr
      have hb : w.cifBusy e.cif = false := (okH_free hin hl).1
      have hg := (h.good.live (liveH_liveC hl)).db
      simp only [Option.map_some]
      cases n with
      | none => rfl
      | some nm =>
        have h1 := getValue_fst s e.h (some nm)
        have h2 := getValue_spec s e.h (some nm) hg
        simp only []
        rw [← h2]
        cases hr : getValue s e.h (some nm) with
        | mk s1 r =>
          rw [hr] at h1
          simp only [] at h1
          subst h1
          cases r with
          | error c =>
            simp only [Option.some.injEq, Prod.mk.injEq, and_true]
            refine AWorld.ext4 ?_ rfl rfl ?_
            · exact (absW_setCif w e.cif _).symm
            · exact absW_its_free w _ e.cif hb rfl (fun j hj => getD_set_ne' _ _ _ _ hj)
          | ok va =>
            obtain ⟨v, amb⟩ := va
            simp only [Option.some.injEq, Prod.mk.injEq, and_true]
            refine AWorld.ext4 ?_ rfl rfl ?_
            · exact (absW_setCif w e.cif _).symm
            · exact absW_its_free w _ e.cif hb rfl (fun j hj => getD_set_ne' _ _ _ _ hj)
  | rmItem hh n =>
    simp only [specStep, step, liveH_absW]
    cases hl : w.liveH hh with
    | none => rfl
    | some pr =>
      obtain ⟨e, s⟩ := pr
      have hin' : w.cifBusy e.cif = false ∧ e.h.validB s.db = true := okH_free hin hl
      have hb := hin'.1
      have hg := (h.good.live (liveH_liveC hl)).db
      obtain ⟨h1, h2⟩ := removeItem_spec s e.h n hg (h.autocommit (liveH_liveC hl) hin'.1)
      simp only [Option.map_some]
      rw [← h1, ← h2]
      simp only [Option.some.injEq, Prod.mk.injEq, and_true]
      refine AWorld.ext4 ?_ rfl rfl ?_
      · exact (absW_setCif w e.cif _).symm
      · exact absW_its_free w _ e.cif hb rfl (fun j hj => getD_set_ne' _ _ _ _ hj)
  | loops hh =>
    simp only [specStep, step, liveH_absW]
    cases hl : w.liveH hh with
    | none => rfl
    | some pr =>
      obtain ⟨e, s⟩ := pr
      have hb : w.cifBusy e.cif = false := (okH_free hin hl).1
      have hg := (h.good.live (liveH_liveC hl)).db
      obtain ⟨hdb1, hres⟩ := allLoops_spec s e.h
      simp only [Option.map_some]
      cases hr : allLoops s e.h with
      | mk s1 r =>
        rw [hr] at hdb1 hres
        simp only [] at hdb1 hres
        cases r with
        | error c =>
          simp only []
          rw [← hres]
          simp only [Option.some.injEq, Prod.mk.injEq, and_true]
          refine AWorld.ext4 ?_ rfl rfl ?_
          · rw [← hdb1]; exact (absW_setCif w e.cif s1).symm
          · exact absW_its_free w _ e.cif hb rfl (fun j hj => getD_set_ne' _ _ _ _ hj)
        | ok ls =>
          simp only []
          rw [← hres]
          simp only []
          -- the handles returned are valid
          have hv : ∀ l ∈ ls, l.validB s.db = true := by
            intro l hlm
            have : Except.ok ls = specAllLoops (absS s.db) e.h := hres
            unfold specAllLoops at this
            split at this
            · cases this
            · simp only [Except.ok.injEq] at this
              rw [this] at hlm
              obtain ⟨y, hy, rfl⟩ := List.mem_map.mp hlm
              obtain ⟨hym, hyc⟩ := List.mem_filter.mp hy
              have hym' : y ∈ s.db.loops.map (absALoop s.db) := hym
              obtain ⟨x, hx, rfl⟩ := List.mem_map.mp hym'
              exact validB_of_mem s.db hg.inv x hx e.h.id (by simpa [absALoop] using hyc)
          obtain ⟨f1, f2⟩ := foldNames_spec s.db hg ls hv (s1, []) hdb1
          simp only [List.nil_append] at f2
          simp only [Option.some.injEq, Prod.mk.injEq]
          refine ⟨?_, congrArg (fun o => ({ rc := some CIF_OK, out := Out.loops o } : Result)) f2.symm⟩
          refine AWorld.ext4 ?_ rfl rfl (absW_its_free w _ e.cif hb rfl (fun j hj => getD_set_ne' _ _ _ _ hj))
          have f1' : (List.foldl (fun (acc : Store × List (Option Str × Option (List Str))) l =>
              match getNames acc.1 l with
              | (s', .ok ns) => (s', acc.2 ++ [(l.category, some (ns.map (·.2)))])
              | (s', .error _) => (s', acc.2 ++ [(l.category, none)])) (s1, []) ls).1.db = s.db := f1
          rw [← f1']; exact (absW_setCif w e.cif _).symm
  | setVal hh n v =>
    simp only [specStep, step, liveH_absW]
    cases hl : w.liveH hh with
    | none => rfl
    | some pr =>
      obtain ⟨e, s⟩ := pr
      have hin' := okH_free hin hl
      have hb := hin'.1
      have hgs := h.good.live (liveH_liveC hl)
      obtain ⟨h1, h2⟩ := setValue_spec s e.h n v hgs (h.autocommit (liveH_liveC hl) hb) hin'.2
      simp only [Option.map_some]
      rw [← h1, ← h2]
      simp only [Option.some.injEq, Prod.mk.injEq, and_true]
      refine AWorld.ext4 ?_ rfl rfl ?_
      · exact (absW_setCif w e.cif _).symm
      · exact absW_its_free w _ e.cif hb rfl (fun j hj => getD_set_ne' _ _ _ _ hj)
  | itOpen l =>
    simp only [specStep, step, liveL_absW]
    cases hl : w.liveL l with
    | none =>
      simp only [Option.map_none, Option.some.injEq, Prod.mk.injEq, and_true]
      refine AWorld.ext4 rfl rfl rfl ?_
      show (w.its.map _) ++ [none] = (w.its ++ [none]).map _
      rw [List.map_append]; rfl
    | some pr =>
      obtain ⟨e, s⟩ := pr
      have hs := liveL_liveC hl
      have hg := (h.good.live hs).db
      have hin' : (w.cifBusy e.cif || e.h.validB s.db) = true := by
        have : okLOpen w l = true := hin
        unfold okLOpen LH.okB at this; rw [hl] at this
        simp only [Bool.or_eq_true, Bool.and_eq_true] at this ⊢
        exact this.imp id (fun h => h.1)
      simp only [Option.map_some, cifBusy_absW]
      cases hb : w.cifBusy e.cif with
      | true =>
        obtain ⟨d, ht⟩ := h.loud e.cif s hs hb
        obtain ⟨_, htx, hdb⟩ := getPackets_refused s e.h d ht
        have hcode := getPackets_refused_code s e.h d ht hg.inv
        simp only [if_true, hcode, Option.some.injEq, Prod.mk.injEq]
        refine ⟨?_, rfl⟩
        refine AWorld.ext4 ?_ rfl rfl ?_
        · rw [← hdb]; exact (absW_setCif w e.cif _).symm
        · show (w.its.map _) ++ [none] = (w.its ++ [none]).map _
          rw [List.map_append]
          congr 1
          exact (its_map_cif w e.cif s _ hs w.its (fun e' _ _ => absIter_congr e'.it s _ hdb htx)).symm
      | false =>
        rw [hb] at hin'
        have hv : e.h.validB s.db = true := by simpa using hin'
        have hac := h.autocommit hs hb
        have hsp := getPackets_spec_abs s e.h hg hv hac
        simp only [Bool.false_eq_true, if_false]
        cases hr : getPackets s e.h with
        | mk s1 r =>
          rw [hr] at hsp
          cases r with
          | error c =>
            simp only [] at hsp
            obtain ⟨h1, h2⟩ := hsp
            subst h2
            simp only [h1, Option.some.injEq, Prod.mk.injEq]
            refine ⟨?_, rfl⟩
            refine AWorld.ext4 ?_ rfl rfl ?_
            · exact (absW_setCif w e.cif _).symm
            · show (w.its.map _) ++ [none] = (w.its ++ [none]).map _
              rw [List.map_append]
              congr 1
              exact (its_map_cif w e.cif s1 s1 hs w.its (fun _ _ _ => rfl)).symm
          | ok it =>
            simp only [] at hsp
            obtain ⟨h1, h2, h3, _⟩ := hsp
            simp only [h1, Option.some.injEq, Prod.mk.injEq]
            refine ⟨?_, rfl⟩
            refine AWorld.ext4 ?_ rfl rfl ?_
            · rw [← h2]; exact (absW_setCif w e.cif _).symm
            · show (w.its.map _) ++ [some _] = (w.its ++ [some _]).map _
              rw [List.map_append]
              congr 1
              · apply List.map_congr_left
                intro o ho
                cases o with
                | none => rfl
                | some e' =>
                  simp only [Option.map_some, Option.some.injEq]
                  exact (absITE_congr _ _ e' (getD_set_ne' _ _ _ _ (notBusy_mem hb e' ho))).symm
              · simp only [List.map_cons, List.map_nil, Option.map_some, List.cons.injEq, Option.some.injEq, and_true]
                exact (absITE_live (e := { cif := e.cif, lh := l, it := it }) (liveC_set_self w e.cif s s1 hs)).symm
  | itNext i =>
    simp only [specStep, step, liveI_absW]
    cases hl : w.liveI i with
    | none => rfl
    | some pr =>
      obtain ⟨e, s⟩ := pr
      have hs := liveI_liveC hl
      have hi := liveI_its hl
      have hg := (h.good.live hs).db
      have hok := h.iters.of_liveI hl
      obtain ⟨d, ht⟩ := h.loud e.cif s hs (busy_of_entry hi)
      have hac : s.autocommit = false := by simp [Store.autocommit, ht]
      obtain ⟨h1, h2⟩ := nextPacket_spec_abs s e.it hok hg hac
      simp only [Option.map_some]
      rw [← h1, ← h2]
      simp only [Option.some.injEq, Prod.mk.injEq]
      refine ⟨?_, rfl⟩
      refine AWorld.ext4 rfl rfl rfl ?_
      show (w.its.map _).set i _ = (w.its.set i _).map _
      rw [List.map_set]
      congr 1
      simp only [Option.map_some, Option.some.injEq]
      exact (absITE_live (e := { e with it := (nextPacket s e.it).1 }) hs).symm
  | itUpd i p =>
    simp only [specStep, step, liveI_absW]
    cases hl : w.liveI i with
    | none => rfl
    | some pr =>
      obtain ⟨e, s⟩ := pr
      have hs := liveI_liveC hl
      have hi := liveI_its hl
      have hg := (h.good.live hs).db
      have hok := h.iters.of_liveI hl
      obtain ⟨d, ht⟩ := h.loud e.cif s hs (busy_of_entry hi)
      have hk : keysDistinct p = true := hin
      obtain ⟨h1, h2, h3⟩ := updatePacket_spec_abs s e.it p hok hg d ht hk
      simp only [Option.map_some]
      rw [← h1, ← h2]
      simp only [Option.some.injEq, Prod.mk.injEq, and_true]
      refine AWorld.ext4 ?_ rfl rfl ?_
      · exact (absW_setCif w e.cif _).symm
      · refine (its_map_cif w e.cif s _ hs w.its ?_).symm
        intro e' he' hc
        obtain ⟨j, hj⟩ := getD_of_mem he'
        have : j = i := h.one j i e' e hj hi hc
        subst this
        rw [hi] at hj; cases hj
        exact h3
  | itRem i =>
    simp only [specStep, step, liveI_absW]
    cases hl : w.liveI i with
    | none => rfl
    | some pr =>
      obtain ⟨e, s⟩ := pr
      have hs := liveI_liveC hl
      have hi := liveI_its hl
      have hg := (h.good.live hs).db
      have hok := h.iters.of_liveI hl
      obtain ⟨d, ht⟩ := h.loud e.cif s hs (busy_of_entry hi)
      obtain ⟨h1, h2, h3⟩ := removePacket_spec_abs s e.it hok hg d ht
      simp only [Option.map_some]
      rw [← h1, ← h2, ← h3]
      simp only [Option.some.injEq, Prod.mk.injEq, and_true]
      refine AWorld.ext4 ?_ rfl rfl ?_
      · exact (absW_setCif w e.cif _).symm
      · refine Eq.trans ?_ (its_map_set w i e _ hi h.one _).symm
        show (w.its.map _).set i _ = _
        congr 1
        simp only [Option.map_some, Option.some.injEq]
        exact (absITE_live (e := { e with it := (removePacket s e.it).2.1 }) (liveC_set_self w e.cif s _ hs)).symm
  | itClose i =>
    simp only [specStep, step, liveI_absW]
    cases hl : w.liveI i with
    | none => rfl
    | some pr =>
      obtain ⟨e, s⟩ := pr
      have hs := liveI_liveC hl
      have hi := liveI_its hl
      obtain ⟨d, ht⟩ := h.loud e.cif s hs (busy_of_entry hi)
      obtain ⟨c1, c2, _, _, _, _⟩ := closeAbort_abs s e.it d ht
      simp only [Option.map_some, c2]
      simp only [Option.some.injEq, Prod.mk.injEq]
      refine ⟨?_, rfl⟩
      refine AWorld.ext4 ?_ rfl rfl ?_
      · rw [← c1]; exact (absW_setCif w e.cif _).symm
      · exact (its_map_set w i e _ hi h.one none).symm
  | itAbort i =>
    simp only [specStep, step, liveI_absW]
    cases hl : w.liveI i with
    | none => rfl
    | some pr =>
      obtain ⟨e, s⟩ := pr
      have hs := liveI_liveC hl
      have hi := liveI_its hl
      obtain ⟨d, ht⟩ := h.loud e.cif s hs (busy_of_entry hi)
      obtain ⟨_, _, _, a1, a2, _⟩ := closeAbort_abs s e.it d ht
      simp only [Option.map_some, a2]
      simp only [Option.some.injEq, Prod.mk.injEq]
      refine ⟨?_, rfl⟩
      refine AWorld.ext4 ?_ rfl rfl ?_
      · rw [← a1]; exact (absW_setCif w e.cif _).symm
      · exact (its_map_set w i e _ hi h.one none).symm

end CifModel.Store
