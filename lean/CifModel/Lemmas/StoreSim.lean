import CifModel.Lemmas.StoreTx
/-
  Lemmas/StoreSim — inside a BEGIN transaction no API function can tell apart two stores that differ only in their
  savepoint stacks (every `release s` / `rollback to s` of the library is preceded by its own `savepoint s`).
  Used for C05_next_call_unaffected inside an iterator's transaction.
-/
namespace CifModel.Store
open Gen.ErrCodes

/-- same content, same BEGIN snapshot, and a BEGIN transaction is open; the savepoint stacks are arbitrary -/
def SimT (s s' : Store) : Prop := s'.db = s.db ∧ s'.txn = s.txn ∧ ∃ d, s.txn = some d
def Sim (s s' : Store) : Prop := s' = s ∨ SimT s s'

theorem Sim.refl (s : Store) : Sim s s := Or.inl rfl

theorem SimT.ac {s s' : Store} (h : SimT s s') : s.autocommit = false ∧ s'.autocommit = false := by
  obtain ⟨_, ht, d, hd⟩ := h
  simp [Store.autocommit, hd, ht]

theorem SimT.begin {s s' : Store} (h : SimT s s') : s.begin = none ∧ s'.begin = none := by
  simp [Store.begin, h.ac.1, h.ac.2]

theorem SimT.setDb {s s' : Store} (h : SimT s s') (d : Db) : SimT { s with db := d } { s' with db := d } :=
  ⟨rfl, h.2.1, h.2.2⟩

theorem SimT.of_fields {s s' t t' : Store} (h : SimT s s') (hd : t'.db = t.db) (ht : t.txn = s.txn) (ht' : t'.txn = s'.txn) : SimT t t' := by
  obtain ⟨_, h2, d, h3⟩ := h
  exact ⟨hd, by rw [ht', h2, ht], d, by rw [ht, h3]⟩

theorem nest_simT {α} {s s' : Store} (h : SimT s s') (body : Db → Except Code (Db × α)) :
    (s'.nest body).2 = (s.nest body).2 ∧ SimT (s.nest body).1 (s'.nest body).1 := by
  have ha := h.ac
  obtain ⟨hd, ht, d, hsome⟩ := h
  unfold Store.nest Store.beginNest
  simp only [ha.1, ha.2, Bool.false_eq_true, if_false, Store.save, hd]
  split
  · refine ⟨rfl, ?_⟩
    simp only [Store.commitNest, Store.release, Bool.false_eq_true, if_false, Option.getD]
    exact ⟨rfl, ht, d, hsome⟩
  · refine ⟨rfl, ?_⟩
    simp only [Store.rollbackNest, Store.rollbackTo, Bool.false_eq_true, if_false, Option.getD]
    exact ⟨rfl, ht, d, hsome⟩

theorem nestRO_simT {α} {s s' : Store} (h : SimT s s') (body : Db → Except Code α) :
    (s'.nestRO body).2 = (s.nestRO body).2 ∧ SimT (s.nestRO body).1 (s'.nestRO body).1 := by
  have ha := h.ac
  obtain ⟨hd, ht, d, hsome⟩ := h
  unfold Store.nestRO Store.beginNest
  constructor
  · simp only [ha.1, ha.2, Bool.false_eq_true, if_false, Store.save, hd]
  · simp only [ha.1, ha.2, Bool.false_eq_true, if_false, Store.save, Store.rollbackNest, Store.rollbackTo, Option.getD]
    exact ⟨hd, ht, d, hsome⟩


macro "fin " t:term : tactic => `(tactic| first | exact ⟨rfl, $t⟩ | exact ⟨trivial, $t⟩)

-- ---- every API function ----------------------------------------------------------------------------------------------------

/-- shape of all the lemmas below -/
def Cong {α} (f : Store → R α) : Prop := ∀ s s', SimT s s' → (f s').2 = (f s).2 ∧ Sim (f s).1 (f s').1

theorem createBlock_cong (n : Option Name) (len : Bool) : Cong (fun s => createBlock s n len) := by
  intro s s' h
  simp only [createBlock, h.begin.1, h.begin.2]
  split
  · fin (Or.inr h)
  · split <;> fin (Or.inr h)

theorem createFrame_cong (hd : CH) (n : Option Name) (len : Bool) : Cong (fun s => createFrame s hd n len) := by
  intro s s' h
  simp only [createFrame, h.begin.1, h.begin.2]
  split
  · fin (Or.inr h)
  · split <;> fin (Or.inr h)

theorem setValue_cong (hd : CH) (n : Option Name) (v : Option V) : Cong (fun s => setValue s hd n v) := by
  intro s s' h
  simp only [setValue, h.begin.1, h.begin.2]
  split
  · fin (Or.inr h)
  · split <;> fin (Or.inr h)

theorem removeItem_cong (hd : CH) (n : Option Name) : Cong (fun s => removeItem s hd n) := by
  intro s s' h
  simp only [removeItem, h.begin.1, h.begin.2]
  split
  · fin (Or.inr h)
  · split <;> fin (Or.inr h)

theorem getBlock_cong (n : Name) : Cong (fun s => getBlock s n) := by
  intro s s' h
  simp only [getBlock, h.1]
  split <;> fin (Or.inr h)

theorem allBlocks_cong : Cong (fun s => allBlocks s) := by
  intro s s' h
  simp only [allBlocks, h.1]
  fin (Or.inr h)

theorem getFrame_cong (hd : CH) (n : Option Name) : Cong (fun s => getFrame s hd n) := by
  intro s s' h
  simp only [getFrame, h.1]
  split
  · fin (Or.inr h)
  · split
    · fin (Or.inr h)
    · split <;> fin (Or.inr h)

theorem allFrames_cong (hd : CH) : Cong (fun s => allFrames s hd) := by
  intro s s' h
  simp only [allFrames, h.1]
  fin (Or.inr h)

theorem getCategoryLoop_cong (hd : CH) (cat : Option Str) : Cong (fun s => getCategoryLoop s hd cat) := by
  intro s s' h
  simp only [getCategoryLoop, h.1]
  split
  · fin (Or.inr h)
  · split <;> fin (Or.inr h)

theorem getItemLoop_cong (hd : CH) (n : Option Name) : Cong (fun s => getItemLoop s hd n) := by
  intro s s' h
  simp only [getItemLoop, h.1]
  split
  · fin (Or.inr h)
  · split <;> fin (Or.inr h)

theorem getValue_cong (hd : CH) (n : Option Name) : Cong (fun s => getValue s hd n) := by
  intro s s' h
  simp only [getValue, h.1]
  split
  · fin (Or.inr h)
  · split
    · fin (Or.inr h)
    · split <;> fin (Or.inr h)

theorem destroyContainer_cong (hd : CH) : Cong (fun s => destroyContainer s hd) := by
  intro s s' h
  simp only [destroyContainer, h.1]
  split <;> fin (Or.inr (h.setDb _))

theorem destroyLoop_cong (l : LH) : Cong (fun s => destroyLoop s l) := by
  intro s s' h
  simp only [destroyLoop, h.1]
  split
  · fin (Or.inr (h.setDb _))
  · split <;> fin (Or.inr (h.setDb _))

theorem prune_cong (hd : CH) : Cong (fun s => prune s hd) := by
  intro s s' h
  simp only [prune, h.1]
  fin (Or.inr (h.setDb _))

theorem createLoop_cong (hd : CH) (cat : Option Str) (names : List Name) : Cong (fun s => createLoop s hd cat names) := by
  intro s s' h
  simp only [createLoop, createLoopInternal]
  split
  · fin (Or.inr h)
  · split
    · fin (Or.inr h)
    · have := nest_simT h (createLoopBody hd.id cat names)
      exact ⟨this.1, Or.inr this.2⟩

theorem addItem_cong (l : LH) (n : Option Name) (v : Option V) : Cong (fun s => addItem s l n v) := by
  intro s s' h
  simp only [addItem, addItemInternal]
  split
  · fin (Or.inr h)
  · rename_i nm
    split
    · fin (Or.inr h)
    · have := nest_simT h (addItemBody l nm.key nm.orig (v.getD .unk))
      generalize s.nest (addItemBody l nm.key nm.orig (v.getD .unk)) = r at this
      generalize s'.nest (addItemBody l nm.key nm.orig (v.getD .unk)) = r' at this
      obtain ⟨s1, e1⟩ := r
      obtain ⟨s1', e1'⟩ := r'
      simp only [] at this
      obtain ⟨he, hs⟩ := this
      subst he
      cases e1' <;> fin (Or.inr hs)

theorem addPacket_cong (l : LH) (p : List (Str × V)) : Cong (fun s => addPacket s l p) := by
  intro s s' h
  simp only [addPacket]
  split
  · fin (Or.inr h)
  · have := nest_simT h (addPacketBody l p)
    exact ⟨this.1, Or.inr this.2⟩

theorem allLoops_cong (hd : CH) : Cong (fun s => allLoops s hd) := by
  intro s s' h
  have := nestRO_simT h (fun d =>
    if !d.hasContainer hd.id then .error CIF_INVALID_HANDLE
    else .ok ((d.loops.filter (fun l => l.cid == hd.id)).map (fun l => ({ cid := hd.id, loopNum := l.loopNum, category := l.category } : LH))))
  exact ⟨this.1, Or.inr this.2⟩

theorem getNames_cong (l : LH) : Cong (fun s => getNames s l) := by
  intro s s' h
  have := nestRO_simT h (fun d => match d.loopItems l.cid l.loopNum with
    | [] => .error CIF_INVALID_HANDLE
    | is => .ok (is.map (fun i => (i.name, i.nameOrig))))
  exact ⟨this.1, Or.inr this.2⟩

theorem getNames_simT (l : LH) {s s' : Store} (h : SimT s s') :
    (getNames s' l).2 = (getNames s l).2 ∧ SimT (getNames s l).1 (getNames s' l).1 :=
  nestRO_simT h _

theorem getPackets_cong (l : LH) : Cong (fun s => getPackets s l) := by
  intro s s' h
  have hn := getNames_simT l h
  simp only [getPackets]
  generalize getNames s l = r at hn
  generalize getNames s' l = r' at hn
  obtain ⟨s1, e1⟩ := r
  obtain ⟨s1', e1'⟩ := r'
  simp only [] at hn
  obtain ⟨he, hs1⟩ := hn
  subst he
  cases e1' with
  | error c => fin (Or.inr hs1)
  | ok names =>
    simp only [hs1.begin.1, hs1.begin.2]
    fin (Or.inr hs1)

-- the iterator calls

theorem nextPacket_cong (it : Iter) {s s' : Store} (h : SimT s s') : nextPacket s' it = nextPacket s it := by
  simp only [nextPacket, h.ac.1, h.ac.2]

theorem updatePacket_cong (it : Iter) (p : List (Str × V)) : Cong (fun s => updatePacket s it p) := by
  intro s s' h
  have ha := h.ac
  obtain ⟨hd, ht, d, hsome⟩ := h
  simp only [updatePacket, ha.1, ha.2, Bool.false_eq_true, if_false, Store.save, hd]
  split
  · fin (Or.inr ⟨hd, ht, d, hsome⟩)
  · split
    · constructor
      · rfl
      · simp only [Store.release, Option.getD]
        exact Or.inr ⟨rfl, ht, d, hsome⟩
    · constructor
      · rfl
      · simp only [Store.rollbackTo, Option.getD]
        exact Or.inr ⟨rfl, ht, d, hsome⟩

theorem removePacket_cong (it : Iter) {s s' : Store} (h : SimT s s') :
    (removePacket s' it).2 = (removePacket s it).2 ∧ Sim (removePacket s it).1 (removePacket s' it).1 := by
  have ha := h.ac
  obtain ⟨hd, ht, d, hsome⟩ := h
  simp only [removePacket, ha.1, ha.2, Bool.false_eq_true, if_false, Store.save, hd]
  split
  · fin (Or.inr ⟨hd, ht, d, hsome⟩)
  · constructor
    · rfl
    · simp only [Store.release, Option.getD]
      exact Or.inr ⟨rfl, ht, d, hsome⟩

theorem setCategory_cong (l : LH) (cat : Option Str) {s s' : Store} (h : SimT s s') :
    (setCategory s' l cat).2 = (setCategory s l cat).2 ∧ Sim (setCategory s l cat).1 (setCategory s' l cat).1 := by
  simp only [setCategory, h.1]
  split
  · fin (Or.inr h)
  · split
    · fin (Or.inr h)
    · split
      · fin (Or.inr (h.setDb _))
      · split <;> fin (Or.inr (h.setDb _))

/-- close / abort end the transaction: the stores are then identical -/
theorem closeIter_cong : Cong (fun s => closeIter s) := by
  intro s s' h
  have ha := h.ac
  obtain ⟨hd, ht, d, hsome⟩ := h
  simp only [closeIter, Store.commit, ha.1, ha.2, Bool.false_eq_true, if_false, hd]
  fin (Or.inl rfl)

theorem abortIter_cong : Cong (fun s => abortIter s) := by
  intro s s' h
  have ha := h.ac
  obtain ⟨hd, ht, d, hsome⟩ := h
  simp only [abortIter, Store.rollback, Store.outermost, ha.1, ha.2, Bool.false_eq_true, if_false, ht, hsome]
  fin (Or.inl rfl)

/-- the left-over savepoints of a failed call are invisible in this sense -/
theorem Same.sim {s s' : Store} (h : Same s s') (hwf : s.txn = none → s.saves = []) : Sim s s' := by
  cases ht : s.txn with
  | none =>
    left
    have ha : s.autocommit = true := by simp [Store.autocommit, ht, hwf ht]
    exact h.eq_of_autocommit ha
  | some d => exact Or.inr ⟨h.1, by rw [h.2.1], d, ht⟩

end CifModel.Store
