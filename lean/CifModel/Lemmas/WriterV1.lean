import CifModel.Props.C13
import CifModel.Lemmas.WriterTotal
/-
  CIF 1.1 output mode, whole documents: every unit written is a CIF 1.1 character, and the only result codes are
  CIF_DISALLOWED_CHAR and CIF_DISALLOWED_VALUE.
-/
namespace CifModel.Lemmas.WriterV1
open CifModel.Model CifModel.Model.Writer
open CifModel.Gen
open CifModel.Lemmas.WriterTotal (Same nameOk)

/-- in CIF 1.1 mode: success keeps the mode and writes CIF 1.1 characters only; failure is one of the two documented codes -/
def V1Ok (c : Ctx) (r : W) : Prop :=
  c.isCif1 = true →
    (∀ o c', r = .ok (o, c') → c'.isCif1 = true ∧ validate11 o = true) ∧
    (∀ e, r = .error e → e = ErrCodes.CIF_DISALLOWED_CHAR ∨ e = ErrCodes.CIF_DISALLOWED_VALUE)

theorem validate11_append (a b : Str) : validate11 (a ++ b) = (validate11 a && validate11 b) := by
  simp [validate11, List.all_append]

theorem v1_andThen {c : Ctx} {a : W} {f : Ctx → W} (ha : V1Ok c a) (hf : ∀ c1, V1Ok c1 (f c1)) : V1Ok c (andThen a f) := by
  intro hc
  obtain ⟨a1, a2⟩ := ha hc
  cases h : a with
  | error e =>
    have : andThen (.error e) f = .error e := rfl
    rw [this]
    exact ⟨(by intro o c' he; cases he), (by intro e' he; cases he; exact a2 e h)⟩
  | ok p =>
    obtain ⟨o1, c1⟩ := p
    obtain ⟨b1, b2⟩ := a1 o1 c1 h
    obtain ⟨f1, f2⟩ := hf c1 b1
    cases h2 : f c1 with
    | error e =>
      have : andThen (.ok (o1, c1)) f = .error e := by simp [andThen, h2]
      rw [this]
      exact ⟨(by intro o c' he; cases he), (by intro e' he; cases he; exact f2 e h2)⟩
    | ok p2 =>
      obtain ⟨o2, c2⟩ := p2
      obtain ⟨g1, g2⟩ := f1 o2 c2 h2
      have : andThen (.ok (o1, c1)) f = .ok (o1 ++ o2, c2) := by simp [andThen, h2]
      rw [this]
      refine ⟨?_, (by intro e he; cases he)⟩
      intro o c' he
      simp only [Except.ok.injEq, Prod.mk.injEq] at he
      rw [← he.1, ← he.2, validate11_append, b2, g2]
      exact ⟨g1, rfl⟩

theorem v1_ok {c : Ctx} {o : Str} {c' : Ctx} (hs : Same c c') (ho : validate11 o = true) : V1Ok c (.ok (o, c')) := by
  intro hc
  refine ⟨?_, (by intro e he; cases he)⟩
  intro o' c'' he
  simp only [Except.ok.injEq, Prod.mk.injEq] at he
  rw [← he.1, ← he.2, hs.isCif1]
  exact ⟨hc, ho⟩

theorem v1_error_char (c : Ctx) : V1Ok c (.error ErrCodes.CIF_DISALLOWED_CHAR) := by
  intro _; exact ⟨(by intro o c' he; cases he), (by intro e he; cases he; left; rfl)⟩

theorem v1_error_value (c : Ctx) : V1Ok c (.error ErrCodes.CIF_DISALLOWED_VALUE) := by
  intro _; exact ⟨(by intro o c' he; cases he), (by intro e he; cases he; right; rfl)⟩

theorem validate11_of_mem (o : Str) (h : ∀ x ∈ o, isAllowed11 x = true ∧ x < WriterConsts.isAllowedBound) : validate11 o = true := by
  unfold validate11
  rw [List.all_eq_true]
  intro x hx
  have := h x hx
  simp [this.1, this.2]

theorem mem_of_validate11 (s : Str) (h : validate11 s = true) (x : CU) (hx : x ∈ s) :
    isAllowed11 x = true ∧ x < WriterConsts.isAllowedBound := by
  unfold validate11 at h
  rw [List.all_eq_true] at h
  have := h x hx
  simp only [Bool.and_eq_true, decide_eq_true_eq] at this
  exact ⟨this.2, this.1⟩

theorem allowed_lit (x : CU) (h : x = 10 ∨ x = 32 ∨ x = 39 ∨ x = 34 ∨ x = 59) :
    isAllowed11 x = true ∧ x < WriterConsts.isAllowedBound := by
  rcases h with h | h | h | h | h <;> subst h <;> decide

theorem writeULiteral_core_mem (c : Ctx) (t : Str) (len units : Nat) (w : Bool) (o : Str) (c' : Ctx)
    (h : (if len = 0 then some ([], c)
          else if len + c.lastColumn > LINE then
            if w then some (10 :: printfS units t, { c with lastColumn := (printfS units t).length })
            else none
          else some (printfS units t, { c with lastColumn := c.lastColumn + (printfS units t).length })) = some (o, c')) :
    ∀ x ∈ o, x = 10 ∨ x = 32 ∨ x ∈ t := by
  intro x hx
  by_cases h0 : len = 0
  · rw [if_pos h0] at h; cases h; cases hx
  · rw [if_neg h0] at h
    by_cases h1 : len + c.lastColumn > LINE
    · rw [if_pos h1] at h
      cases w with
      | false => simp at h
      | true =>
        rw [if_pos rfl] at h; cases h
        rcases List.mem_cons.mp hx with e | e
        · left; exact e
        · right; exact Lemmas.WriterPure.printfS_mem _ _ _ e
    · rw [if_neg h1] at h; cases h; right; exact Lemmas.WriterPure.printfS_mem _ _ _ hx

/-- what `write_uliteral` prints: line break, padding blanks and units of the text -/
theorem writeULiteral_mem (c : Ctx) (t : Str) (n : Option Nat) (w : Bool) (o : Str) (c' : Ctx)
    (h : writeULiteral c t n w = some (o, c')) : ∀ x ∈ o, x = 10 ∨ x = 32 ∨ x ∈ t := by
  unfold writeULiteral at h
  cases n with
  | none => exact writeULiteral_core_mem c t _ _ w o c' h
  | some k => exact writeULiteral_core_mem c t _ _ w o c' h

theorem writeULiteral_pure (c : Ctx) (t : Str) (n : Option Nat) (w : Bool) (o : Str) (c' : Ctx) (ht : validate11 t = true)
    (h : writeULiteral c t n w = some (o, c')) : validate11 o = true := by
  apply validate11_of_mem
  intro x hx
  rcases writeULiteral_mem c t n w o c' h x hx with e | e | e
  · exact allowed_lit x (Or.inl e)
  · exact allowed_lit x (Or.inr (Or.inl e))
  · exact mem_of_validate11 t ht x e

theorem same_isCif1 {c c' : Ctx} (h : Same c c') (hc : c.isCif1 = true) : c'.isCif1 = true := by
  rw [h.isCif1]; exact hc

/-- `write_char` in CIF 1.1 mode -/
theorem v1_writeChar (c : Ctx) (s : Str) (q : Bool) : V1Ok c (writeChar c s q true) := by
  intro hc
  refine ⟨?_, fun e he => ?_⟩
  · intro o c' h
    have h := (Lemmas.WriterChar.writeChar_ok c s q true (o, c') h).2
    have hv : ¬(c.isCif1 = true ∧ validate11 s = false) := by
      intro hv; rw [Lemmas.WriterChar.writeChar_invalid c s q true hv] at h; cases h
    have hvs : validate11 s = true := by
      cases hh : validate11 s
      · exact absurd ⟨hc, hh⟩ hv
      · rfl
    have hcf : (!c.isCif1) = false := by simp [hc]
    obtain ⟨hdel, hlen⟩ := Lemmas.WriterChar.analyze_delim s (!q) (!c.isCif1) LINE
    cases hrec : recommend s (!q) (!c.isCif1) LINE with
    | none =>
      have hd0 : (analyze s (!q) (!c.isCif1) LINE).delimLength = 0 := by rw [hlen, hrec]; rfl
      rw [Lemmas.WriterChar.writeChar_delim0 c s q true hv hd0] at h
      unfold writeUnquoted at h
      cases hw : writeULiteral c s (some (analyze s (!q) (!c.isCif1) LINE).lengthMax) true with
      | none => simp [hw] at h
      | some r =>
        obtain ⟨o1, c1⟩ := r
        simp only [hw, Lemmas.WriterChar.printfS_length] at h
        have hres : o = o1 ∧ c' = c1 := by
          by_cases h0 : (analyze s (!q) (!c.isCif1) LINE).lengthMax = 0
          · simp only [h0, ↓reduceIte, Except.ok.injEq, Prod.mk.injEq] at h; exact ⟨h.1.symm, h.2.symm⟩
          · simp only [h0, ↓reduceIte, Except.ok.injEq, Prod.mk.injEq] at h; exact ⟨h.1.symm, h.2.symm⟩
        rw [hres.1, hres.2]
        exact ⟨same_isCif1 (Lemmas.WriterTotal.writeULiteral_same c s _ true (o1, c1) hw) hc,
          writeULiteral_pure c s _ true o1 c1 hvs hw⟩
    | apos =>
      have hd1 : (analyze s (!q) (!c.isCif1) LINE).delimLength = 1 := by rw [hlen, hrec]; rfl
      rw [Lemmas.WriterChar.writeChar_delim1 c s q true hv hd1, hdel, hrec] at h
      unfold writeQuoted at h
      simp only at h
      split at h
      · simp only [Except.ok.injEq, Prod.mk.injEq] at h
        rw [← h.1, ← h.2]
        refine ⟨hc, validate11_of_mem _ ?_⟩
        intro x hx
        simp only [List.mem_append, List.mem_cons, List.not_mem_nil, or_false] at hx
        rcases hx with hx | (hx | hx) | hx
        · split at hx
          · simp at hx; exact allowed_lit x (Or.inl hx)
          · simp at hx
        · exact allowed_lit x (Or.inr (Or.inr (Or.inl (by simpa [Delim.units] using hx))))
        · rcases Lemmas.WriterPure.printfS_mem _ _ _ hx with e | e
          · exact allowed_lit x (Or.inr (Or.inl e))
          · exact mem_of_validate11 s hvs x e
        · exact allowed_lit x (Or.inr (Or.inr (Or.inl (by simpa [Delim.units] using hx))))
      · cases h
    | quot =>
      have hd1 : (analyze s (!q) (!c.isCif1) LINE).delimLength = 1 := by rw [hlen, hrec]; rfl
      rw [Lemmas.WriterChar.writeChar_delim1 c s q true hv hd1, hdel, hrec] at h
      unfold writeQuoted at h
      simp only at h
      split at h
      · simp only [Except.ok.injEq, Prod.mk.injEq] at h
        rw [← h.1, ← h.2]
        refine ⟨hc, validate11_of_mem _ ?_⟩
        intro x hx
        simp only [List.mem_append, List.mem_cons, List.not_mem_nil, or_false] at hx
        rcases hx with hx | (hx | hx) | hx
        · split at hx
          · simp at hx; exact allowed_lit x (Or.inl hx)
          · simp at hx
        · exact allowed_lit x (Or.inr (Or.inr (Or.inr (Or.inl (by simpa [Delim.units] using hx)))))
        · rcases Lemmas.WriterPure.printfS_mem _ _ _ hx with e | e
          · exact allowed_lit x (Or.inr (Or.inl e))
          · exact mem_of_validate11 s hvs x e
        · exact allowed_lit x (Or.inr (Or.inr (Or.inr (Or.inl (by simpa [Delim.units] using hx)))))
      · cases h
    | text =>
      have hd2 : (analyze s (!q) (!c.isCif1) LINE).delimLength = 2 := by rw [hlen, hrec]; rfl
      by_cases hr : (true : Bool) = false ∨ ((analyze s (!q) (!c.isCif1) LINE).containsTextDelim = true ∧ c.isCif1 = true)
      · rw [Lemmas.WriterChar.writeChar_delim2_refused c s q true hv hd2 hr] at h; cases h
      · rw [Lemmas.WriterChar.writeChar_delim2 c s q true hv hd2 hr] at h
        unfold writeText at h
        split at h
        · cases h
        · rename_i body hb
          simp only [Except.ok.injEq, Prod.mk.injEq] at h
          rw [← h.1, ← h.2]
          refine ⟨hc, ?_⟩
          rw [validate11_append, validate11_append, C13_text_pure s _ _ body hvs hb]
          decide
    | apos3 =>
      exfalso
      have := C13_no_triple s (!q) LINE
      apply this
      rw [← hcf, hlen, hrec]; rfl
    | quot3 =>
      exfalso
      have := C13_no_triple s (!q) LINE
      apply this
      rw [← hcf, hlen, hrec]; rfl
  · have hcf : (!c.isCif1) = false := by simp [hc]
    have := C13_refusal_codes c s q true e hc he
    rcases this with h | h | h
    · left; exact h.1
    · right; exact h.1
    · right; exact h.1

theorem v1_literal_wrap (c : Ctx) (t : Str) (ht : validate11 t = true) : V1Ok c (literalOrError c t true) := by
  obtain ⟨r, hr⟩ := Lemmas.WriterTotal.writeLiteral_wrap_some c t
  have hs := Lemmas.WriterTotal.writeLiteral_same c t true r hr
  unfold literalOrError
  rw [hr]
  obtain ⟨o, c'⟩ := r
  apply v1_ok hs
  -- what is printed: an optional line break and the literal
  unfold writeLiteral at hr
  by_cases h0 : t.length = 0
  · rw [if_pos h0] at hr; cases hr; rfl
  · rw [if_neg h0] at hr
    by_cases h1 : t.length + c.lastColumn > LINE
    · rw [if_pos h1, if_pos rfl] at hr; cases hr
      have : (10 :: t) = [10] ++ t := rfl
      rw [this, validate11_append, ht]; decide
    · rw [if_neg h1] at hr; cases hr; exact ht

theorem ensureSpaced_pure (c : Ctx) : validate11 (ensureSpaced c).1 = true := by
  unfold ensureSpaced
  by_cases h0 : c.lastColumn = 0
  · rw [if_pos h0]; rfl
  · rw [if_neg h0]
    unfold writeLiteral
    simp only [List.length_cons, List.length_nil, Nat.zero_add, Nat.add_one_ne_zero, ↓reduceIte, Bool.false_eq_true]
    by_cases h1 : 1 + c.lastColumn > LINE
    · rw [if_pos h1]; rfl
    · rw [if_neg h1]; rfl

theorem v1_of_pair (c : Ctx) (p : Str × Ctx) (hs : Same c p.2) (ho : validate11 p.1 = true) : V1Ok c (.ok p) := by
  obtain ⟨o, c'⟩ := p
  exact v1_ok hs ho

theorem v1_ensureSpaced (c : Ctx) : V1Ok c (.ok (ensureSpaced c)) :=
  v1_of_pair c _ (Lemmas.WriterTotal.ensureSpaced_same c) (ensureSpaced_pure c)

/-- a number the CIF 1.1 writer can print: non-empty text of CIF 1.1 characters -/
def valueV1 : V → Prop
  | .numb _ t _ _ _ _ => t ≠ [] ∧ validate11 t = true
  | _ => True

theorem v1_writeNumb (c : Ctx) (t : Str) (q : Bool) (ht : t ≠ [] ∧ validate11 t = true) : V1Ok c (writeNumb c t q) := by
  unfold writeNumb
  cases q with
  | true => exact v1_writeChar c t true
  | false =>
    simp only [Bool.false_eq_true, ↓reduceIte]
    by_cases hlong : t.length > LINE
    · rw [if_pos hlong]; exact v1_writeChar c t false
    rw [if_neg hlong]
    obtain ⟨r, hr⟩ := Lemmas.WriterTotal.writeULiteral_wrap_some c t none
    obtain ⟨o, c'⟩ := r
    rw [hr]
    simp only
    have hne : o.isEmpty = false := by
      have hpos := Lemmas.WriterTotal.countChar32_pos t ht.1
      unfold writeULiteral at hr
      simp only at hr
      have hn0 : ¬ Writer.countChar32 t = 0 := by omega
      rw [if_neg hn0] at hr
      have hpl : (printfS t.length t) = t := by simp [printfS]
      by_cases h1 : Writer.countChar32 t + c.lastColumn > LINE
      · rw [if_pos h1, if_pos trivial] at hr; cases hr; rfl
      · rw [if_neg h1] at hr; cases hr; rw [hpl]
        cases t with
        | nil => exact absurd rfl ht.1
        | cons a r => rfl
    simp only [hne, Bool.false_eq_true, ↓reduceIte]
    exact v1_ok (Lemmas.WriterTotal.writeULiteral_same c t none true (o, c') hr) (writeULiteral_pure c t none true o c' ht.2 hr)

theorem v1_writeItemHead (c : Ctx) (n : Str) (hn : nameOk n) : V1Ok c (writeItemHead c n) := by
  unfold writeItemHead
  apply v1_andThen
  · cases hw : c.writeItemNames with
    | false => simp only [Bool.false_eq_true, ↓reduceIte]; exact v1_ok (Same.refl c) rfl
    | true =>
      simp only [↓reduceIte]
      by_cases hv : c.isCif1 = true ∧ validate11 n = false
      · rw [if_pos hv]; exact v1_error_char c
      · rw [if_neg hv]
        intro hc
        have hvn : validate11 n = true := by
          cases hh : validate11 n
          · exact absurd ⟨hc, hh⟩ hv
          · rfl
        -- the name is printed at the beginning of a line
        have hpos : ¬ Writer.countChar32 n = 0 := by
          have h1 := hn.1
          have := Lemmas.WriterTotal.countChar32_pos n (by intro e; rw [e] at h1; simp at h1)
          omega
        have hpl : (printfS n.length n) = n := by simp [printfS]
        have hfit : ¬ Writer.countChar32 n > LINE := by have := hn.2; omega
        have hlen2 : ¬ n.length < 2 := by have := hn.1; omega
        have hw2 : ∀ c1 : Ctx, c1.lastColumn = 0 →
            writeULiteral c1 n none false = some (n, { c1 with lastColumn := c1.lastColumn + n.length }) := by
          intro c1 h0
          unfold writeULiteral
          simp only [hpos, ↓reduceIte, h0, Nat.add_zero, hpl, hfit, Nat.zero_add]
        by_cases hcol : c.lastColumn > 0
        · simp only [hcol, ↓reduceIte, hw2 (writeNewline c).2 rfl, hlen2]
          exact v1_ok (c := c) (o := (writeNewline c).1 ++ n) ⟨rfl, rfl⟩ (by rw [validate11_append, hvn]; rfl) hc
        · simp only [hcol, ↓reduceIte, hw2 c (by omega), hlen2]
          exact v1_ok (c := c) (o := [] ++ n) ⟨rfl, rfl⟩ (by rw [validate11_append, hvn]; rfl) hc
  · intro c1
    split
    · exact v1_ensureSpaced c1
    · exact v1_ok (Same.refl c1) rfl

theorem v1_writeItem (n : Str) (v : V) (c : Ctx) (hn : nameOk n) (hv : valueV1 v) : V1Ok c (writeItem n v c) := by
  unfold writeItem
  apply v1_andThen (v1_writeItemHead c n hn)
  intro c1
  intro hc1
  match v, hv with
  | .chr q t, _ => exact v1_writeChar c1 t q hc1
  | .numb q t _ _ _ _, hv => exact v1_writeNumb c1 t q hv hc1
  | .na, _ => exact v1_literal_wrap c1 _ (by decide) hc1
  | .unk, _ => exact v1_literal_wrap c1 _ (by decide) hc1
  | .lst vs, _ => simp only [hc1, ↓reduceIte]; exact v1_error_value c1 hc1
  | .tbl es, _ => simp only [hc1, ↓reduceIte]; exact v1_error_value c1 hc1

/-! ### items, packets, loops, containers -/

theorem v1_same_version {c : Ctx} {o : Str} {c' : Ctx} (hv : c'.version = c.version) (ho : validate11 o = true) :
    V1Ok c (.ok (o, c')) := by
  intro hc
  refine ⟨?_, (by intro e he; cases he)⟩
  intro o' c'' he
  simp only [Except.ok.injEq, Prod.mk.injEq] at he
  rw [← he.1, ← he.2]
  exact ⟨by unfold Ctx.isCif1 at hc ⊢; rw [hv]; exact hc, ho⟩


def itemsV1 (p : List (Str × V)) : Prop := ∀ nv ∈ p, nameOk nv.1 ∧ valueV1 nv.2

theorem v1_items : ∀ (p : List (Str × V)) (c : Ctx), itemsV1 p → V1Ok c (writeItems p c) := by
  intro p
  induction p with
  | nil => intro c _; exact v1_ok (Same.refl c) rfl
  | cons nv rest ih =>
    intro c h
    obtain ⟨n, v⟩ := nv
    simp only [writeItems]
    have h1 := h (n, v) List.mem_cons_self
    apply v1_andThen (v1_writeItem n v c h1.1 h1.2)
    intro c1; exact ih c1 (fun x hx => h x (List.mem_cons_of_mem _ hx))

theorem v1_newline (c : Ctx) : V1Ok c (.ok (writeNewline c)) := by
  unfold writeNewline
  apply v1_same_version
  · rfl
  · decide

theorem v1_packets : ∀ (ps : List (List (Str × V))) (c : Ctx), (∀ p ∈ ps, itemsV1 p) → V1Ok c (writePackets ps c) := by
  intro ps
  induction ps with
  | nil => intro c _; exact v1_ok (Same.refl c) rfl
  | cons p rest ih =>
    intro c h
    simp only [writePackets, writePacket]
    apply v1_andThen
    · apply v1_andThen (v1_items p c (h p List.mem_cons_self))
      intro c1; exact v1_newline c1
    · intro c1; exact ih c1 (fun x hx => h x (List.mem_cons_of_mem _ hx))

theorem v1_headerNames : ∀ (ns : List Str) (c : Ctx), V1Ok c (writeHeaderNames ns c) := by
  intro ns
  induction ns with
  | nil => intro c; exact v1_ok (Same.refl c) rfl
  | cons n rest ih =>
    intro c
    simp only [writeHeaderNames]
    by_cases hv : c.isCif1 = true ∧ validate11 n = false
    · rw [if_pos hv]; exact v1_error_char c
    · rw [if_neg hv]
      intro hc
      have hvn : validate11 n = true := by
        cases hh : validate11 n
        · exact absurd ⟨hc, hh⟩ hv
        · rfl
      apply v1_andThen (c := c) _ (fun c1 => ih c1) hc
      apply v1_same_version
      · rfl
      · rw [validate11_append, validate11_append, hvn]
        split <;> decide

/-- a loop the CIF 1.1 writer can handle: it holds a packet, names printable, numbers non-empty CIF 1.1 text -/
def loopV1 (l : WLoop) : Prop := l.packets ≠ [] ∧ ∀ p ∈ l.packets, itemsV1 p

theorem v1_loop (l : WLoop) (c : Ctx) (h : loopV1 l) : V1Ok c (writeLoop l c) := by
  unfold writeLoop
  have hne : l.packets.isEmpty = false := by
    cases hp : l.packets with
    | nil => exact absurd hp h.1
    | cons a b => rfl
  apply v1_andThen
  · split
    · unfold writeNewline
      apply v1_same_version
      · rfl
      · decide
    · apply v1_andThen (c := c)
      · apply v1_same_version
        · rfl
        · decide
      · intro c1; exact v1_headerNames l.header c1
  · intro c1
    simp only [hne, Bool.false_eq_true, ↓reduceIte]
    apply v1_andThen (v1_packets l.packets c1 h.2)
    intro c2; exact v1_newline c2

theorem v1_loops : ∀ (ls : List WLoop) (c : Ctx), (∀ l ∈ ls, loopV1 l) → V1Ok c (writeLoops ls c) := by
  intro ls
  induction ls with
  | nil => intro c _; exact v1_ok (Same.refl c) rfl
  | cons l rest ih =>
    intro c h
    simp only [writeLoops]
    apply v1_andThen (v1_loop l c (h l List.mem_cons_self))
    intro c1; exact ih c1 (fun x hx => h x (List.mem_cons_of_mem _ hx))

mutual
  def containerV1 : WContainer → Prop
    | .mk _ frames loops => containersV1 frames ∧ ∀ l ∈ loops, loopV1 l
  def containersV1 : List WContainer → Prop
    | [] => True
    | k :: rest => containerV1 k ∧ containersV1 rest
end

mutual
  theorem v1_container (k : WContainer) (c : Ctx) (h : containerV1 k) : V1Ok c (writeContainer k c) := by
    match k, h with
    | .mk code frames loops, h =>
      simp only [containerV1] at h
      unfold writeContainer
      by_cases hv : c.isCif1 = true ∧ validate11 code = false
      · rw [if_pos hv]; exact v1_error_char c
      · rw [if_neg hv]
        intro hc
        have hvc : validate11 code = true := by
          cases hh : validate11 code
          · exact absurd ⟨hc, hh⟩ hv
          · rfl
        apply v1_andThen (c := c) _ _ hc
        · apply v1_same_version
          · rfl
          · rw [validate11_append, validate11_append, hvc]
            split <;> decide
        · intro c1
          apply v1_andThen (v1_containers frames c1 h.1)
          intro c2
          apply v1_andThen (v1_loops loops c2 h.2)
          intro c3
          simp only []
          split
          · unfold writeNewline
            apply v1_same_version
            · rfl
            · decide
          · apply v1_same_version
            · rfl
            · decide
  theorem v1_containers (ks : List WContainer) (c : Ctx) (h : containersV1 ks) : V1Ok c (writeContainers ks c) := by
    match ks, h with
    | [], _ => unfold writeContainers; exact v1_ok (Same.refl c) rfl
    | k :: rest, h =>
      simp only [containersV1] at h
      unfold writeContainers
      apply v1_andThen (v1_container k c h.1)
      intro c1; exact v1_containers rest c1 h.2
end

end CifModel.Lemmas.WriterV1
