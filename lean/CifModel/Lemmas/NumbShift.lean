import CifModel.Lemmas.NumbToDouble
/-
  Lemmas for C10_to_double_big, part 2: the shift estimate `right_shift_max` computed from the leading digit puts the
  value into `[2^51, 2^53)·2^rs` — the hypothesis of `toDoubleCore_rne`.
-/
namespace CifModel.Lemmas.NumbShift
open CifModel.Model.Numb CifModel.Spec.Rounding CifModel.Lemmas.NumbRound CifModel.Lemmas.NumbToDouble

/-- `2^k ≤ p/q < 2^(k+1)` for `k = flog2Rat p q` -/
theorem flog2Rat_spec (p q : Nat) (hp : 0 < p) (hq : 0 < q) :
    P (flog2Rat p q) * q ≤ p * Q (flog2Rat p q) ∧ p * Q (flog2Rat p q) < 2 * (P (flog2Rat p q) * q) := by
  unfold flog2Rat
  by_cases h : q ≤ p
  · rw [if_pos h]
    have ht : p / q ≠ 0 := by
      have : 1 ≤ p / q := (Nat.le_div_iff_mul_le hq).mpr (by omega)
      omega
    have a1 := Nat.log2_self_le ht
    have a2 := @Nat.lt_log2_self (p / q)
    generalize (p / q).log2 = c at *
    have hP : P ((c : Nat) : Int) = 2 ^ c := by unfold P; simp
    have hQ : Q ((c : Nat) : Int) = 1 := P_nonneg_Q _ (by omega)
    rw [hP, hQ, Nat.mul_one]
    have b1 : 2 ^ c * q ≤ p := (Nat.le_div_iff_mul_le hq).mp a1
    have b2 : p < 2 ^ (c + 1) * q := (Nat.div_lt_iff_lt_mul hq).mp a2
    rw [Nat.pow_succ] at b2
    refine ⟨b1, ?_⟩
    calc p < 2 ^ c * 2 * q := b2
      _ = 2 * (2 ^ c * q) := by grind
  · rw [if_neg h]
    have hlt : p < q := by omega
    have ht : q / p ≠ 0 := by
      have : 1 ≤ q / p := (Nat.le_div_iff_mul_le hp).mpr (by omega)
      omega
    have a1 := Nat.log2_self_le ht
    have a2 := @Nat.lt_log2_self (q / p)
    generalize (q / p).log2 = c at *
    have b1 : 2 ^ c * p ≤ q := (Nat.le_div_iff_mul_le hp).mp a1
    have b2 : q < 2 ^ (c + 1) * p := (Nat.div_lt_iff_lt_mul hp).mp a2
    rw [Nat.pow_succ] at b2
    simp only
    by_cases h2 : q ≤ p * pow2 c
    · rw [if_pos h2]
      unfold pow2 at h2
      have hP : P (-((c : Nat) : Int)) = 1 := Q_nonpos_P _ (by omega)
      have hQ : Q (-((c : Nat) : Int)) = 2 ^ c := by unfold Q; simp
      rw [hP, hQ, Nat.one_mul]
      refine ⟨h2, ?_⟩
      have : p * 2 ^ c = 2 ^ c * p := Nat.mul_comm _ _
      omega
    · rw [if_neg h2]
      unfold pow2 at h2
      have hP : P (-(((c : Nat) : Int) + 1)) = 1 := Q_nonpos_P _ (by omega)
      have hQ : Q (-(((c : Nat) : Int) + 1)) = 2 ^ c * 2 := by
        unfold Q
        have : (-(-(((c : Nat) : Int) + 1))).toNat = c + 1 := by omega
        rw [this, Nat.pow_succ]
      rw [hP, hQ, Nat.one_mul]
      have e1 : p * (2 ^ c * 2) = 2 ^ c * 2 * p := Nat.mul_comm _ _
      have e2 : p * (2 ^ c * 2) = 2 * (p * 2 ^ c) := by grind
      constructor
      · omega
      · omega

/-- transitivity of `<`/`≤` between fractions with positive denominators, cross-multiplied -/
theorem frac_lt_of_lt_of_le (a b c d e f : Nat) (hd : 0 < d) (hf : 0 < f) (h1 : a * d < c * b) (h2 : c * f ≤ e * d) :
    a * f < e * b := by
  apply Nat.lt_of_mul_lt_mul_right (a := d)
  calc a * f * d = (a * d) * f := by grind
    _ < (c * b) * f := Nat.mul_lt_mul_of_pos_right h1 hf
    _ = (c * f) * b := by grind
    _ ≤ (e * d) * b := Nat.mul_le_mul_right b h2
    _ = e * b * d := by grind

theorem frac_lt_of_le_of_lt (a b c d e f : Nat) (hb : 0 < b) (hd : 0 < d) (h1 : a * d ≤ c * b) (h2 : c * f < e * d) :
    a * f < e * b := by
  apply Nat.lt_of_mul_lt_mul_right (a := d)
  calc a * f * d = (a * d) * f := by grind
    _ ≤ (c * b) * f := Nat.mul_le_mul_right f h1
    _ = (c * f) * b := by grind
    _ < (e * d) * b := Nat.mul_lt_mul_of_pos_right h2 hb
    _ = e * b * d := by grind

theorem frac_le_trans (a b c d e f : Nat) (hd : 0 < d) (h1 : a * d ≤ c * b) (h2 : c * f ≤ e * d) :
    a * f ≤ e * b := by
  apply Nat.le_of_mul_le_mul_right (c := d) _ hd
  calc a * f * d = (a * d) * f := by grind
    _ ≤ (c * b) * f := Nat.mul_le_mul_right f h1
    _ = (c * f) * b := by grind
    _ ≤ (e * d) * b := Nat.mul_le_mul_right b h2
    _ = e * b * d := by grind

/-- **The estimate is good enough.**  With `V = num0/den0`, `U = un/ud`, `V < U ≤ 2V` and `rs = ⌊log₂ U⌋ − 52`:
    `2^51 ≤ V/2^rs < 2^53`. -/
theorem rsMax_bounds (num0 den0 un ud : Nat) (hnum0 : 0 < num0) (hden0 : 0 < den0) (hun : 0 < un) (hud : 0 < ud)
    (hVU : num0 * ud < un * den0) (hU2V : un * den0 ≤ 2 * num0 * ud) :
    den0 * P (1 + flog2Rat un ud - ((DBL_MANT_DIG : Nat) : Int)) * 2 ^ 51 ≤ num0 * Q (1 + flog2Rat un ud - ((DBL_MANT_DIG : Nat) : Int)) ∧
    num0 * Q (1 + flog2Rat un ud - ((DBL_MANT_DIG : Nat) : Int)) < den0 * P (1 + flog2Rat un ud - ((DBL_MANT_DIG : Nat) : Int)) * 2 ^ 53 := by
  obtain ⟨s1, s2⟩ := flog2Rat_spec un ud hun hud
  generalize flog2Rat un ud = k at *
  have hrs : 1 + k - ((DBL_MANT_DIG : Nat) : Int) = k - 52 := by unfold DBL_MANT_DIG; omega
  rw [hrs]
  -- 2^k = 2^(k-52) · 2^52
  have law := PQ_add (k - 52) 52
  have hk : k - 52 + 52 = k := by omega
  have q52 : Q 52 = 1 := by decide
  have p52 : P 52 = 2 ^ 52 := by decide
  rw [hk, q52, p52, Nat.mul_one] at law
  -- law : P k * Q (k - 52) = P (k - 52) * 2 ^ 52 * Q k
  have e53 : (2 : Nat) ^ 53 = 2 * 2 ^ 52 := by decide
  have e52 : (2 : Nat) ^ 52 = 2 * 2 ^ 51 := by decide
  have hQk := Q_pos k
  have hPk := P_pos k
  have hQr := Q_pos (k - 52)
  have hPr := P_pos (k - 52)
  constructor
  · -- 2^(rs+51) = 2^(k-1) ≤ U/2 ≤ V :   (P rs · 2^52)/(Q rs) = P k / Q k ≤ un/ud ≤ 2·num0/den0
    -- step 1: (P k)/(Q k) ≤ (2 num0)/den0
    have t1 : P k * den0 ≤ 2 * num0 * Q k := by
      have := frac_le_trans (P k) (Q k) un ud (2 * num0) den0 hud (by
        calc P k * ud ≤ un * Q k := s1
          _ = un * Q k := rfl) (by
        calc un * den0 ≤ 2 * num0 * ud := hU2V
          _ = 2 * num0 * ud := rfl)
      exact this
    -- step 2: rewrite P k via the law
    apply Nat.le_of_mul_le_mul_right (c := 2 * Q k) _ (by omega)
    calc den0 * P (k - 52) * 2 ^ 51 * (2 * Q k) = (P (k - 52) * 2 ^ 52 * Q k) * den0 := by rw [e52]; grind
      _ = P k * Q (k - 52) * den0 := by rw [law]
      _ = (P k * den0) * Q (k - 52) := by grind
      _ ≤ (2 * num0 * Q k) * Q (k - 52) := Nat.mul_le_mul_right _ t1
      _ = num0 * Q (k - 52) * (2 * Q k) := by grind
  · -- V < U < 2^(k+1) = 2^(rs+53)
    have t1 : num0 * (2 * (P k)) < 2 * (P k) * den0 * 1 + 0 ∨ True := Or.inr trivial
    have t2 : num0 * Q k < 2 * P k * den0 := by
      have := frac_lt_of_lt_of_le num0 den0 un ud (2 * P k) (Q k) hud hQk hVU (by
        have : un * Q k ≤ 2 * P k * ud := by
          have : 2 * (P k * ud) = 2 * P k * ud := by grind
          omega
        exact this)
      exact this
    apply Nat.lt_of_mul_lt_mul_right (a := Q k)
    calc num0 * Q (k - 52) * Q k = (num0 * Q k) * Q (k - 52) := by grind
      _ < (2 * P k * den0) * Q (k - 52) := Nat.mul_lt_mul_of_pos_right t2 hQr
      _ = 2 * den0 * (P k * Q (k - 52)) := by grind
      _ = 2 * den0 * (P (k - 52) * 2 ^ 52 * Q k) := by rw [law]
      _ = den0 * P (k - 52) * 2 ^ 53 * Q k := by rw [e53]; grind

end CifModel.Lemmas.NumbShift
