import CifModel.Lemmas.ParserDefectDie
/-
  Lemmas/ParserDefectBare (group gW) — CIF_INVALID_BARE_VALUE (decided in parse_value, not in the scanner): a whitespace-delimited
  value that cif_value_set_quoted / try_quoted refuse to take as an unquoted string (`bareValue … = none`: e.g. a first character
  `$`).  The recovery table says "accept"; the code reports and keeps the text, marked QUOTED.

  And the text-prefix class (CIF_MISSING_PREFIX): parse_value never reports it — a text field is decoded by `decode_text`
  whatever its lines look like (a line that lacks the prefix makes the field an unprefixed one: taken verbatim), silently.
-/
set_option linter.unusedSimpArgs false

namespace CifModel.Model.Parser
open CifModel CifModel.Model CifModel.Model.Lexer CifModel.Spec.Grammar CifModel.Spec.Lexical
open CifModel.Gen.ErrCodes

/-- parse_value on a VALUE token that must not stand unquoted: one report (at the scanner's position behind the token, the token
    still pending), the value is the token's text as a QUOTED string -/
theorem invalid_bare_value_tok_at (o : Opts) (s : PS) (tx : Str) (rest : List TokSpec) (fuel : Nat) (w : W)
    (hf : Feeds o s ((.value, tx) :: rest)) (hb : bareValue o.dia tx = none) :
    ∃ s' r, parseValue o (fuel + 1) s acceptAll w = .ok (.chr true (cstr tx), s') { w with log := r :: w.log }
      ∧ r.code = CIF_INVALID_BARE_VALUE ∧ Lands o s 1 s' rest ∧ RepAt o s 0 r := by
  obtain ⟨t, s1, hty, htx, hn, ht, hr⟩ := hf.inv
  refine ⟨consume s1, ⟨CIF_INVALID_BARE_VALUE, s1.scan.line, s1.scan.col⟩, ?_, rfl, ⟨hr, (At.refl o s).step hn ht⟩,
    ⟨s1, (At.refl o s).peek hn ht, rfl⟩⟩
  rw [parseValue]
  simp only [bind_eq, pure_eq, P.bind, P.pure, hn, hty, htx, hb, report_accept]

/-- … under the abort-on-error handler -/
theorem invalid_bare_value_tok_die (o : Opts) (s : PS) (tx : Str) (rest : List TokSpec) (fuel : Nat) (w : W)
    (hf : Feeds o s ((.value, tx) :: rest)) (hb : bareValue o.dia tx = none) :
    ∃ r, parseValue o (fuel + 1) s dieAll w = .abort (CIF_INVALID_BARE_VALUE : Int) { w with log := r :: w.log }
      ∧ r.code = CIF_INVALID_BARE_VALUE ∧ RepAt o s 0 r := by
  obtain ⟨t, s1, hty, htx, hn, ht, hr⟩ := hf.inv
  refine ⟨⟨CIF_INVALID_BARE_VALUE, s1.scan.line, s1.scan.col⟩, ?_, rfl, ⟨s1, (At.refl o s).peek hn ht, rfl⟩⟩
  rw [parseValue]
  simp only [bind_eq, pure_eq, P.bind, P.pure, hn, hty, htx, hb, report_die CIF_INVALID_BARE_VALUE _ _ w (by decide)]

/-- **an item whose value must not stand unquoted**, as a segment of the element loop of any container: `_n tx`.  One report,
    CIF_INVALID_BARE_VALUE, made behind the value token; the item is stored with the text as a quoted string. -/
theorem Seg.invalid_bare_value (o : Opts) {path : Path} {put : Container → Cif} {code : Str} (hv : View o path put code)
    (isBlock : Bool) (n tx : Str) (fs : List Container) (ls : List Loop)
    (hname : wfName n = true) (hfresh : o.norm n ∉ normNames o ls) (hb : bareValue o.dia tx = none) :
    Seg o path put code isBlock [(.name, n), (.value, tx)] fs ls fs (putScalar ls n (.chr true (cstr tx)))
      [(CIF_INVALID_BARE_VALUE, 1)] 2 1 1 (fun _ => True) := by
  intro rest s fuel w hw hf _ hF
  obtain ⟨f, rfl⟩ : ∃ f, fuel = f + 1 := ⟨fuel - 1, by omega⟩
  simp only [wfName, Bool.and_eq_true] at hname
  simp only [List.cons_append, List.nil_append] at hF
  obtain ⟨t, s1, hty, htx, hn, ht, hr⟩ := hF.inv
  have a1 : At o s 1 (consume s1) := (At.refl o s).step hn ht
  obtain ⟨t2, s2, hty2, htx2, hn2, ht2, hr2⟩ := hr.inv
  have hpend : Feeds o s2 ((.value, tx) :: rest) := by
    rw [← hty2, ← htx2]; exact Feeds.pending ht2 hr2
  obtain ⟨s3, r, h1, hc, ⟨h2, ha2⟩, hrep⟩ := invalid_bare_value_tok_at o s2 tx rest f { w with cif := w.cif } hpend hb
  have hitem : parseItem o (f + 1) (consume s1) (some path) (some n) acceptAll w
      = .ok s3 { log := r :: w.log, cif := put (.mk code fs (putScalar ls n (.chr true (cstr tx)))) } := by
    unfold parseItem
    have hk : isKeyTok t2.ty = false := by rw [hty2]; rfl
    have hs : isValueStart t2.ty = true := by rw [hty2]; rfl
    simp only [bind_eq, pure_eq, P.bind, P.pure, hn2, hk, hs, if_true, Bool.false_eq_true, if_false, h1,
      setValue_new o hv n _ fs ls acceptAll { w with log := r :: w.log } hw hname.1 hfresh]
  refine ⟨s3, [r], ?_, RepsAt.one hc (RepAt.shift (a1.peek hn2 ht2) hrep), h2, ((a1.peek hn2 ht2).trans ha2).cast (by omega)⟩
  conv => lhs; rw [elemsLoop]
  simp only [bind_eq, pure_eq, P.bind, P.pure, hn, hty, htx, cstr_noNul hname.2,
    itemExists_false o hv n fs ls acceptAll w hw hname.1 hfresh, Bool.false_eq_true, if_false, hname.1, Bool.not_true, and_false, hitem]
  simp

/-- … under the abort-on-error handler: the item is not stored -/
theorem die_invalid_bare_value (o : Opts) {path : Path} {put : Container → Cif} {code : Str} (hv : View o path put code)
    (isBlock : Bool) (n tx : Str) (fs : List Container) (ls : List Loop)
    (hname : wfName n = true) (hfresh : o.norm n ∉ normNames o ls) (hb : bareValue o.dia tx = none) :
    DieSeg o path put code isBlock [(.name, n), (.value, tx)] fs ls fs ls CIF_INVALID_BARE_VALUE 1 2 (fun _ => True) := by
  intro rest s fuel w hw hf _ hF
  obtain ⟨f, rfl⟩ : ∃ f, fuel = (f + 1) + 1 := ⟨fuel - 2, by omega⟩
  simp only [wfName, Bool.and_eq_true] at hname
  simp only [List.cons_append, List.nil_append] at hF
  obtain ⟨t, s1, hty, htx, hn, ht, hr⟩ := hF.inv
  have a1 : At o s 1 (consume s1) := (At.refl o s).step hn ht
  obtain ⟨t2, s2, hty2, htx2, hn2, ht2, hr2⟩ := hr.inv
  have hpend : Feeds o s2 ((.value, tx) :: rest) := by
    rw [← hty2, ← htx2]; exact Feeds.pending ht2 hr2
  obtain ⟨r, h1, hc, hrep⟩ := invalid_bare_value_tok_die o s2 tx rest f w hpend hb
  refine ⟨r, ?_, hc, (RepAt.shift (a1.peek hn2 ht2) hrep).cast (by omega)⟩
  conv => lhs; rw [elemsLoop]
  simp only [bind_eq, pure_eq, P.bind, P.pure, hn, hty, htx, cstr_noNul hname.2,
    itemExists_false o hv n fs ls dieAll w hw hname.1 hfresh, Bool.false_eq_true, if_false, hname.1, Bool.not_true, and_false]
  unfold parseItem
  have hk : isKeyTok t2.ty = false := by rw [hty2]; rfl
  have hs : isValueStart t2.ty = true := by rw [hty2]; rfl
  simp only [bind_eq, pure_eq, P.bind, P.pure, hn2, hk, hs, if_true, Bool.false_eq_true, if_false, h1]
  simp [hw]

/-- **the text-prefix class is never reported**: parse_value on a text-field token, whatever its body (prefixed, folded, a line
    without the prefix, a stray backslash …) — no report under ANY policy; the value is what `decode_text` makes of the body, a
    quoted string -/
theorem text_field_never_reports (o : Opts) (s : PS) (body : Str) (rest : List TokSpec) (fuel : Nat) (pol : Policy) (w : W)
    (hf : Feeds o s ((.tvalue, body) :: rest)) :
    ∃ s', parseValue o (fuel + 1) s pol w = .ok (.chr true (cstr (Decode.decodeText o.unfold o.prem body)), s') w
      ∧ Lands o s 1 s' rest := by
  obtain ⟨t, s1, hty, htx, hn, ht, hr⟩ := hf.inv
  refine ⟨consume s1, ?_, hr, (At.refl o s).step hn ht⟩
  rw [parseValue]
  simp only [bind_eq, pure_eq, P.bind, P.pure, hn, hty, htx]

end CifModel.Model.Parser
