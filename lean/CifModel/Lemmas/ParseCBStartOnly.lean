import CifModel.Lemmas.ParseCBCut
import CifModel.Spec.TraversalEvents
/-
  CifModel.Lemmas.ParseCBStartOnly — for handler programs that steer from the start callbacks only (`StartOnly`), the structural
  interpreter `xDoc` (hence, by `doc_x`, the parse of a well-formed document) delivers exactly the callbacks of the formula `evDoc`
  (Spec/TraversalEvents.lean).
-/
set_option linter.unusedSimpArgs false
set_option linter.unusedVariables false

namespace CifModel.Lemmas.ParseCB
open CifModel.ParseCB CifModel.Spec.Doc

/-- the state with the depth set -/
def sk (s : St) (k : Int) : St := { s with skip := k }

@[simp] theorem sk_skip (s : St) (k : Int) : (sk s k).skip = k := rfl
@[simp] theorem sk_n (s : St) (k : Int) : (sk s k).n = s.n := rfl
@[simp] theorem sk_sk (s : St) (a b : Int) : sk (sk s a) b = sk s b := rfl
theorem sk_self (s : St) (k : Int) (h : s.skip = k) : sk s k = s := by subst h; rfl
theorem setSkip_sk (s : St) (k : Int) : setSkip s (some k) = sk s k := rfl
theorem push_sk (s : St) (k : Int) (e : Ev) : push (sk s k) e = sk (push s e) k := rfl
theorem adv_sk (s : St) (k : Int) (l : List Ev) : adv (sk s k) l = sk (adv s l) k := rfl
theorem adv_n_hc (s : St) (l : List Ev) : (adv s l).n = s.n + hc l := rfl

/-- the state after the construct -/
def endSt (s : St) (d : Del) : St :=
  match d.flow with
  | .sib => sk (adv s d.evs) 1
  | _ => adv s d.evs

/-- the result of the production -/
def endCode (d : Del) : Int :=
  match d.flow with
  | .stop => END
  | _ => OK

theorem end_ne_ok : END ≠ OK := by decide
theorem end_ne_cont : ¬ (END = CONTINUE) := by decide
theorem end_ne_cur : ¬ (END = SKIP_CURRENT) := by decide
theorem end_ne_sib : ¬ (END = SKIP_SIBLINGS) := by decide

variable {p : Prog}

theorem so_other (hp : StartOnly p) (k : Nat) (e : Ev) (he : isStart e = false) : p k e = CONTINUE := (hp k e).1 he

theorem flowOf_cur : flowOf SKIP_CURRENT = .go := by decide
theorem flowOf_sib : flowOf SKIP_SIBLINGS = .sib := by decide
theorem flowOf_end : flowOf END = .stop := by decide

theorem xRow_so (hp : StartOnly p) (names : List Str) : ∀ (vals : List V) (col : Nat) (s : St), s.skip = 0 →
    col + vals.length ≤ names.length →
    xRow p names col vals s = (OK, adv s (itemEvs (names.drop col) vals))
  | [], col, s, _, _ => by simp [xRow, itemEvs, adv_nil]
  | v :: vs, col, s, h0, hl => by
    have hlt : col < names.length := by simp at hl; omega
    have hdrop : names.drop col = names[col] :: names.drop (col + 1) := by rw [List.drop_eq_getElem_cons hlt]
    have hget : names.getD col [] = names[col] := by simp [List.getD, hlt]
    have hsite : site p s (.item (names.getD col []) v) none (some 1) = (OK, push s (.item (names.getD col []) v)) :=
      site_cont p s _ _ _ (so_other hp s.n _ rfl)
    simp only [xRow, itemStep, h0, Int.le_refl, and_self, if_true, hsite]
    rw [xRow_so hp names vs (col + 1) _ (by simp [push, h0]) (by simp at hl ⊢; omega), hget,
      push_adv _ _ rfl, adv_adv]
    rw [hdrop]
    rfl

theorem xPk_so (hp : StartOnly p) (names : List Str) (pk : List V) (s : St) (h0 : s.skip = 0) (hl : pk.length = names.length) :
    (xPk p names 0 [] pk s).1 = endCode (ePacket p names pk s.n)
    ∧ (xPk p names 0 [] pk s).2.1 = endSt s (ePacket p names pk s.n) := by
  have hns : ¬ s.skip > 0 := by omega
  unfold xPk pktStartStep ePacket
  simp only [if_true, hns, if_false, List.nil_append]
  rcases (hp s.n .pktStart).2 with h | h | h | h
  · rw [site_cont p s _ _ _ h]
    simp only [h, if_true, ne_eq, not_true_eq_false, if_false]
    have hrow := xRow_so hp names pk 0 (push s .pktStart) (by simp [h0]) (by simp [hl])
    simp only [List.drop_zero] at hrow
    rw [hrow]
    simp only [ne_eq, not_true_eq_false, if_false, pktEndStep, adv_skip, push_skip, hns,
      site_cont p _ _ _ _ (so_other hp _ (.pktEnd (List.zip names pk)) rfl), endCode, endSt]
    refine ⟨trivial, ?_⟩
    rw [push_adv s _ rfl, push_adv _ (Ev.pktEnd _) rfl, adv_adv, adv_adv]
    simp [itemEvs]
  · rw [site_cur p s _ _ _ h]
    simp only [h, cur_ne_cont, if_false, flowOf_cur, ne_eq, not_true_eq_false, setSkip_sk,
      xRow_skipped p names pk 0 (sk (push s Ev.pktStart) 1) (by simp)]
    simp only [ne_eq, not_true_eq_false, if_false, pktEndStep, sk_skip, endCode, endSt, show (1 : Int) > 0 by decide, if_true]
    refine ⟨trivial, ?_⟩
    rw [push_adv s _ rfl]
    show sk (sk (adv s [Ev.pktStart]) 1) (1 - 1) = adv s [Ev.pktStart]
    rw [sk_sk]; exact sk_self _ _ (by simp [h0])
  · rw [site_sib p s _ _ _ h]
    simp only [h, sib_ne_cont, if_false, flowOf_sib, ne_eq, not_true_eq_false, setSkip_sk,
      xRow_skipped p names pk 0 (sk (push s Ev.pktStart) 2) (by simp)]
    simp only [ne_eq, not_true_eq_false, if_false, pktEndStep, sk_skip, endCode, endSt, show (2 : Int) > 0 by decide, if_true]
    refine ⟨trivial, ?_⟩
    rw [push_adv s _ rfl]
    show sk (sk (adv s [Ev.pktStart]) 2) (2 - 1) = sk (adv s [Ev.pktStart]) 1
    rw [sk_sk]; rfl
  · rw [site_stop' p s _ _ _ (by rw [h]; exact end_ne_cont) (by rw [h]; exact end_ne_cur) (by rw [h]; exact end_ne_sib)]
    simp only [h, end_ne_cont, if_false, flowOf_end, end_ne_ok, ne_eq, not_false_eq_true, if_true, endCode, endSt]
    exact ⟨trivial, push_adv s _ rfl⟩

theorem endCode_go (l : List Ev) : endCode ⟨l, .go⟩ = OK := rfl
theorem endCode_sib (l : List Ev) : endCode ⟨l, .sib⟩ = OK := rfl
theorem endCode_stop (l : List Ev) : endCode ⟨l, .stop⟩ = END := rfl
theorem endSt_go (s : St) (l : List Ev) : endSt s ⟨l, .go⟩ = adv s l := rfl
theorem endSt_sib (s : St) (l : List Ev) : endSt s ⟨l, .sib⟩ = sk (adv s l) 1 := rfl
theorem endSt_stop (s : St) (l : List Ev) : endSt s ⟨l, .stop⟩ = adv s l := rfl

theorem xPackets_so (hp : StartOnly p) (loopH : Bool) (names : List Str) : ∀ (pks : List (List V)) (s : St) (acc : List (List V)),
    s.skip = 0 → (∀ pk ∈ pks, pk.length = names.length) →
    (xPackets p loopH names pks s acc).1 = endCode (ePackets p names pks s.n)
    ∧ (xPackets p loopH names pks s acc).2.1 = endSt s (ePackets p names pks s.n)
  | [], s, acc, _, _ => by simp [xPackets, ePackets, endCode, endSt, adv_nil]
  | pk :: pks, s, acc, h0, hl => by
    obtain ⟨a, b⟩ := xPk_so hp names pk s h0 (hl pk (List.mem_cons_self ..))
    simp only [xPackets, ePackets]
    generalize hd : ePacket p names pk s.n = d at a b
    rcases d with ⟨evs, fl⟩
    cases fl with
    | go =>
      rw [endCode_go] at a
      rw [endSt_go] at b
      simp only [a, b, ne_eq, not_true_eq_false, if_false]
      have ih := xPackets_so hp loopH names pks (adv s evs)
        (if (xPk p names 0 [] pk s).2.2 && loopH then acc ++ [pk] else acc) (by simp [h0])
        (fun q hq => hl q (List.mem_cons_of_mem _ hq))
      rw [adv_n_hc] at ih
      obtain ⟨i1, i2⟩ := ih
      generalize ePackets p names pks (s.n + hc evs) = r at i1 i2 ⊢
      rcases r with ⟨evs2, fl2⟩
      refine ⟨?_, ?_⟩
      · rw [i1]; cases fl2 <;> rfl
      · rw [i2]; cases fl2 <;> simp [endSt, adv_adv]
    | sib =>
      rw [endCode_sib] at a
      rw [endSt_sib] at b
      simp only [a, b, ne_eq, not_true_eq_false, if_false]
      rw [xPackets_skipped p loopH names pks _ _ (by simp)]
      exact ⟨rfl, rfl⟩
    | stop =>
      rw [endCode_stop] at a
      rw [endSt_stop] at b
      simp only [a, b, end_ne_ok, ne_eq, not_false_eq_true, if_true]
      exact ⟨rfl, rfl⟩

/-- a loop element (from its `loop_` keyword on) -/
theorem xLoopElem_so (hp : StartOnly p) (cont : Bool) (names : List Str) (pks : List (List V)) (s : St) (c : Content)
    (h0 : s.skip = 0) (hl : ∀ pk ∈ pks, pk.length = names.length) :
    (xElem p cont (.loop names pks) s c).1 = endCode (eElem p cont (.loop names pks) s.n)
    ∧ (xElem p cont (.loop names pks) s c).2.1 = endSt s (eElem p cont (.loop names pks) s.n) := by
  have hle : s.skip ≤ 0 := by omega
  have hn0 : (note s (Ev.keyword [])).skip = 0 := h0
  simp only [xElem, hle, if_true, xLoop, inc0 _ hn0, kHeader_allCont names _ hn0, loopStartStep, adv_skip, eElem, eLoop]
  have hnn : (adv (note s (Ev.keyword [])) (names.map Ev.dataname)).n = s.n := by
    simp [adv, hs, ParseCB.note, Ev.isHandler]
  have hsk : (adv (note s (Ev.keyword [])) (names.map Ev.dataname)).skip = 0 := h0
  have hle2 : (note s (Ev.keyword [])).skip ≤ 0 := by rw [hn0]; decide
  simp only [hle2, if_true]
  generalize hS : adv (note s (Ev.keyword [])) (names.map Ev.dataname) = S at hnn hsk
  have hSadv : ∀ l, adv S l = adv s (Ev.keyword [] :: (names.map Ev.dataname ++ l)) := by
    intro l; rw [← hS, note_adv _ _ rfl, adv_adv, adv_adv]; rfl
  rw [← hnn]
  rcases (hp S.n (.loopStart names)).2 with h | h | h | h
  · rw [site_cont p S _ _ _ h]
    simp only [h, if_true, decide_true, Bool.and_true]
    obtain ⟨a, b⟩ := xPackets_so hp cont names pks (push S (.loopStart names)) [] (by simp [hsk]) hl
    simp only [push_n] at a b
    generalize ePackets p names pks (S.n + 1) = r at a b ⊢
    rcases r with ⟨evs, fl⟩
    cases fl with
    | go =>
      rw [endCode_go] at a; rw [endSt_go] at b
      simp only [a, b, loopEndStep, adv_skip, push_skip, hsk, Int.lt_irrefl, gt_iff_lt, if_false, if_true,
        site_cont p _ _ _ _ (so_other hp _ (.loopEnd _) rfl), endCode, endSt]
      refine ⟨trivial, ?_⟩
      rw [push_adv S _ rfl, push_adv _ (Ev.loopEnd _) rfl, adv_adv, adv_adv, hSadv]
      cases cont <;> simp
    | sib =>
      rw [endCode_sib] at a; rw [endSt_sib] at b
      simp only [a, b, loopEndStep, sk_skip, show (1 : Int) > 0 by decide, if_true, endCode, endSt]
      refine ⟨trivial, ?_⟩
      rw [push_adv S _ rfl, adv_adv, hSadv]
      show sk (sk _ 1) (1 - 1) = _
      rw [sk_sk]
      exact sk_self _ _ (by simp [h0])
    | stop =>
      rw [endCode_stop] at a; rw [endSt_stop] at b
      simp only [a, b, loopEndStep, adv_skip, push_skip, hsk, Int.lt_irrefl, gt_iff_lt, if_false, end_ne_ok, endCode, endSt]
      refine ⟨trivial, ?_⟩
      rw [push_adv S _ rfl, adv_adv, hSadv]
      simp
  · rw [site_cur p S _ _ _ h]
    simp only [h, cur_ne_cont, if_false, flowOf_cur, decide_false, Bool.and_false, decide_true, if_true, setSkip_sk,
      Bool.false_eq_true]
    rw [xPackets_skipped p false names pks _ [] (by simp)]
    simp only [loopEndStep, sk_skip, show (1 : Int) > 0 by decide, if_true, endCode, endSt]
    refine ⟨trivial, ?_⟩
    rw [push_adv S _ rfl, hSadv]
    show sk (sk _ 1) (1 - 1) = _
    rw [sk_sk]
    exact sk_self _ _ (by simp [h0])
  · rw [site_sib p S _ _ _ h]
    simp only [h, sib_ne_cont, if_false, flowOf_sib, decide_false, Bool.and_false, decide_true, if_true, setSkip_sk,
      Bool.false_eq_true]
    rw [xPackets_skipped p false names pks _ [] (by simp)]
    simp only [loopEndStep, sk_skip, show (2 : Int) > 0 by decide, if_true, endCode, endSt]
    refine ⟨trivial, ?_⟩
    rw [push_adv S _ rfl, hSadv]
    show sk (sk _ 2) (2 - 1) = _
    rw [sk_sk]
    rfl
  · rw [site_stop' p S _ _ _ (by rw [h]; exact end_ne_cont) (by rw [h]; exact end_ne_cur) (by rw [h]; exact end_ne_sib)]
    simp only [h, end_ne_cont, if_false, flowOf_end, decide_false, Bool.and_false, end_ne_ok, Bool.false_eq_true,
      loopEndStep, push_skip, hsk, Int.lt_irrefl, gt_iff_lt, endCode, endSt]
    refine ⟨trivial, ?_⟩
    rw [push_adv S _ rfl, hSadv]

theorem dec_sk_pos (X : St) (k : Int) (hk : k > 0) : dec (sk X k) = sk X (k - 1) := by
  unfold dec
  simp only [sk_skip, hk, if_true]
  rfl

/-- the start / end callbacks of a container -/
def cS (isBlock fc : Bool) (code : Str) : Ev := if isBlock then .blockStart (if fc then some code else none) else .frameStart (if fc then some code else none)
def cE (isBlock fc : Bool) (code : Str) : Ev := if isBlock then .blockEnd (if fc then some code else none) else .frameEnd (if fc then some code else none)

theorem cS_handler (isBlock fc : Bool) (code : Str) : (cS isBlock fc code).isHandler = true := by cases isBlock <;> rfl
theorem cE_handler (isBlock fc : Bool) (code : Str) : (cE isBlock fc code).isHandler = true := by cases isBlock <;> rfl
theorem cE_notStart (isBlock fc : Bool) (code : Str) : isStart (cE isBlock fc code) = false := by cases isBlock <;> rfl

/-- parse_container at depth 0, given the statement for its body -/
theorem xCont_so (hp : StartOnly p) (fc isBlock : Bool) (code : Str) (body : List Elem) (s : St) (h0 : s.skip = 0)
    (ihb : ∀ s' : St, s'.skip = 0 →
      (xElems p fc body s' .empty).1 = endCode (eElems p fc body s'.n)
      ∧ (xElems p fc body s' .empty).2.1 = endSt s' (eElems p fc body s'.n)) :
    (xCont p fc isBlock code body s).1 = endCode (wrapCont p (cS isBlock fc code) (cE isBlock fc code) s.n (eElems p fc body (s.n + 1)))
    ∧ (xCont p fc isBlock code body s).2.1
        = endSt s (wrapCont p (cS isBlock fc code) (cE isBlock fc code) s.n (eElems p fc body (s.n + 1))) := by
  have hns : ¬ s.skip > 0 := by omega
  have hstart : contStartStep p fc isBlock code s = site p s (cS isBlock fc code) (some 1) (some 2) := by
    unfold contStartStep cS
    simp only [hns, if_false]
  have hendC : ∀ (X : St) (c : Content), X.skip = 0 →
      (containerEnd p fc isBlock code OK X c).1 = OK ∧ (containerEnd p fc isBlock code OK X c).2.1 = push X (cE isBlock fc code) := by
    intro X c hX
    unfold containerEnd
    rw [dec0 X hX, if_pos (⟨rfl, by omega⟩ : OK = OK ∧ X.skip ≤ 0)]
    have hs := site_cont p X (cE isBlock fc code) none (some 1) (so_other hp X.n _ (cE_notStart isBlock fc code))
    show (site p X (cE isBlock fc code) none (some 1)).1 = OK ∧ (site p X (cE isBlock fc code) none (some 1)).2 = push X (cE isBlock fc code)
    rw [hs]; exact ⟨rfl, rfl⟩
  have hendStop : ∀ (X : St) (c : Content), X.skip = 0 →
      (containerEnd p fc isBlock code END X c).1 = END ∧ (containerEnd p fc isBlock code END X c).2.1 = X := by
    intro X c hX
    unfold containerEnd
    rw [if_neg (fun h => end_ne_ok h.1 : ¬ (END = OK ∧ (dec X).skip ≤ 0))]
    exact ⟨rfl, dec0 X hX⟩
  unfold xCont wrapCont
  rw [hstart]
  rcases (hp s.n (cS isBlock fc code)).2 with h | h | h | h
  · rw [site_cont p s _ _ _ h]
    simp only [h, if_true, ne_eq, not_true_eq_false, if_false]
    obtain ⟨a, b⟩ := ihb (push s (cS isBlock fc code)) (by simp [h0])
    simp only [push_n] at a b
    generalize eElems p fc body (s.n + 1) = r at a b ⊢
    rcases r with ⟨evs, fl⟩
    cases fl with
    | go =>
      rw [endCode_go] at a; rw [endSt_go] at b
      rw [a, b]
      obtain ⟨e1, e2⟩ := hendC (adv (push s (cS isBlock fc code)) evs) (xElems p fc body (push s (cS isBlock fc code)) Content.empty).2.2
        (by simp [h0])
      refine ⟨e1, ?_⟩
      rw [e2, endSt_go, push_adv s _ (cS_handler ..), push_adv _ _ (cE_handler ..), adv_adv, adv_adv]
      simp
    | sib =>
      rw [endCode_sib] at a; rw [endSt_sib] at b
      rw [a, b]
      -- the depth 1 a child left is popped by the container's own decrement; the end callback is delivered
      have hce : ∀ c, containerEnd p fc isBlock code OK (sk (adv (push s (cS isBlock fc code)) evs) 1) c
          = containerEnd p fc isBlock code OK (adv (push s (cS isBlock fc code)) evs) c := by
        intro c
        unfold containerEnd
        rw [dec_sk_pos _ 1 (by decide), dec0 (adv (push s (cS isBlock fc code)) evs) (by simp [h0])]
        have : sk (adv (push s (cS isBlock fc code)) evs) (1 - 1) = adv (push s (cS isBlock fc code)) evs :=
          sk_self _ _ (by simp [h0])
        rw [this]
      rw [hce]
      obtain ⟨e1, e2⟩ := hendC (adv (push s (cS isBlock fc code)) evs) (xElems p fc body (push s (cS isBlock fc code)) Content.empty).2.2
        (by simp [h0])
      refine ⟨e1, ?_⟩
      rw [e2, endSt_go, push_adv s _ (cS_handler ..), push_adv _ _ (cE_handler ..), adv_adv, adv_adv]
      simp
    | stop =>
      rw [endCode_stop] at a; rw [endSt_stop] at b
      rw [a, b]
      obtain ⟨e1, e2⟩ := hendStop (adv (push s (cS isBlock fc code)) evs) (xElems p fc body (push s (cS isBlock fc code)) Content.empty).2.2
        (by simp [h0])
      refine ⟨e1, ?_⟩
      rw [e2, endSt_stop, push_adv s _ (cS_handler ..), adv_adv]
      simp
  · rw [site_cur p s _ _ _ h]
    simp only [h, cur_ne_cont, if_false, if_true, ne_eq, not_true_eq_false, setSkip_sk]
    rw [xElems_skipped p fc body _ _ (by simp)]
    have hce : ∀ c, containerEnd p fc isBlock code OK (sk (push s (cS isBlock fc code)) 1) c
        = containerEnd p fc isBlock code OK (push s (cS isBlock fc code)) c := by
      intro c
      unfold containerEnd
      rw [dec_sk_pos _ 1 (by decide), dec0 (push s (cS isBlock fc code)) (by simp [h0])]
      have : sk (push s (cS isBlock fc code)) (1 - 1) = push s (cS isBlock fc code) := sk_self _ _ (by simp [h0])
      rw [this]
    rw [hce]
    obtain ⟨e1, e2⟩ := hendC (push s (cS isBlock fc code)) Content.empty (by simp [h0])
    refine ⟨e1, ?_⟩
    rw [e2, endSt_go, push_adv s _ (cS_handler ..), push_adv _ _ (cE_handler ..), adv_adv]
    simp
  · rw [site_sib p s _ _ _ h]
    simp only [h, sib_ne_cont, sib_ne_cur, if_false, flowOf_sib, ne_eq, not_true_eq_false, setSkip_sk]
    rw [xElems_skipped p fc body _ _ (by simp)]
    unfold containerEnd
    rw [dec_sk_pos _ 2 (by decide)]
    have hc : ¬ (OK = OK ∧ (sk (push s (cS isBlock fc code)) (2 - 1)).skip ≤ 0) := by
      intro h; have := h.2; simp at this
    rw [if_neg hc, endCode_sib, endSt_sib]
    refine ⟨rfl, ?_⟩
    rw [push_adv s _ (cS_handler ..)]
    rfl
  · rw [site_stop' p s _ _ _ (by rw [h]; exact end_ne_cont) (by rw [h]; exact end_ne_cur) (by rw [h]; exact end_ne_sib)]
    simp only [h, end_ne_cont, end_ne_cur, if_false, flowOf_end, end_ne_ok, ne_eq, not_false_eq_true, if_true]
    obtain ⟨e1, e2⟩ := hendStop (push s (cS isBlock fc code)) Content.empty (by simp [h0])
    refine ⟨e1, ?_⟩
    rw [e2, endSt_stop, push_adv s _ (cS_handler ..)]

mutual
  theorem xElem_so (hp : StartOnly p) (cont : Bool) : ∀ (e : Elem) (a : Bool) (s : St) (c : Content), s.skip = 0 → wfElem a e = true →
      (xElem p cont e s c).1 = endCode (eElem p cont e s.n)
      ∧ (xElem p cont e s c).2.1 = endSt s (eElem p cont e s.n)
    | .item nm v, a, s, c, h0, _ => by
      have hns : ¬ s.skip > 0 := by omega
      have hnote : (note s (Ev.dataname nm)).skip = 0 := h0
      have hsite := site_cont p (note s (Ev.dataname nm)) (.item nm v) none (some 2) (so_other hp _ (.item nm v) rfl)
      simp only [xElem, hns, if_false, inc0 _ hnote, scalarItemStep, hsite, eElem, endCode_go, endSt_go]
      refine ⟨trivial, ?_⟩
      rw [dec0 _ (by simpa using hnote), note_adv _ _ rfl, push_adv _ _ rfl, adv_adv]
      rfl
    | .loop names pks, a, s, c, h0, hw => by
      obtain ⟨_, _, hall⟩ := loop_wf_all names pks hw
      exact xLoopElem_so hp cont names pks s c h0 (fun pk h => (hall pk h).2.1)
    | .frame code body, a, s, c, h0, hw => by
      have hb : wfElems false body = true := by
        simp only [wfElem, Bool.and_eq_true] at hw; exact hw.2
      have hfc : (!decide ((!cont) = true ∨ s.skip > 0)) = cont := by
        have hns : ¬ s.skip > 0 := by omega
        cases cont <;> simp [hns]
      rw [xElem_frame]
      simp only [hfc]
      have := xCont_so hp cont false code body s h0 (fun s' hs' => xElems_so hp cont body false s' .empty hs' hb)
      simp only [eElem]
      exact this
  theorem xElems_so (hp : StartOnly p) (cont : Bool) : ∀ (es : List Elem) (a : Bool) (s : St) (c : Content), s.skip = 0 →
      wfElems a es = true →
      (xElems p cont es s c).1 = endCode (eElems p cont es s.n)
      ∧ (xElems p cont es s c).2.1 = endSt s (eElems p cont es s.n)
    | [], a, s, c, _, _ => by simp [xElems, eElems, endCode, endSt, adv_nil]
    | e :: es, a, s, c, h0, hw => by
      simp only [wfElems, Bool.and_eq_true] at hw
      obtain ⟨x1, x2⟩ := xElem_so hp cont e a s c h0 hw.1
      simp only [xElems, eElems]
      generalize eElem p cont e s.n = d at x1 x2 ⊢
      rcases d with ⟨evs, fl⟩
      cases fl with
      | go =>
        rw [endCode_go] at x1; rw [endSt_go] at x2
        simp only [x1, if_true, x2]
        have ih := xElems_so hp cont es a (adv s evs) (xElem p cont e s c).2.2 (by simp [h0]) hw.2
        rw [adv_n_hc] at ih
        obtain ⟨i1, i2⟩ := ih
        generalize eElems p cont es (s.n + hc evs) = r at i1 i2 ⊢
        rcases r with ⟨evs2, fl2⟩
        refine ⟨?_, ?_⟩
        · rw [i1]; cases fl2 <;> rfl
        · rw [i2]; cases fl2 <;> simp [endSt, adv_adv]
      | sib =>
        rw [endCode_sib] at x1; rw [endSt_sib] at x2
        simp only [x1, if_true, x2]
        rw [xElems_skipped p cont es _ _ (by simp)]
        exact ⟨rfl, rfl⟩
      | stop =>
        rw [endCode_stop] at x1; rw [endSt_stop] at x2
        simp only [x1, end_ne_ok, if_false]
        exact ⟨rfl, x2⟩
end

theorem xBlocks_so (hp : StartOnly p) (cif : Bool) : ∀ (d : Doc) (s : St) (acc : List Container), s.skip = 0 → wfDoc d = true →
    (xBlocks p cif d s acc).1 = endCode (eBlocks p cif d s.n)
    ∧ (xBlocks p cif d s acc).2.1 = endSt s (eBlocks p cif d s.n)
  | [], s, acc, _, _ => by simp [xBlocks, eBlocks, endCode, endSt, adv_nil]
  | b :: bs, s, acc, h0, hw => by
    simp only [wfDoc, List.all_cons, Bool.and_eq_true] at hw
    have hbs : wfDoc bs = true := by simpa [wfDoc] using hw.2
    have hbc : (cif && decide (s.skip ≤ 0)) = cif := by
      have : s.skip ≤ 0 := by omega
      simp [this]
    obtain ⟨x1, x2⟩ := xCont_so hp cif true b.code b.body s h0 (fun s' hs' => xElems_so hp cif b.body true s' .empty hs' hw.1)
    simp only [xBlocks, hbc, eBlocks, eBlock]
    have hS : cS true cif b.code = Ev.blockStart (if cif then some b.code else none) := rfl
    have hE : cE true cif b.code = Ev.blockEnd (if cif then some b.code else none) := rfl
    rw [hS, hE] at x1 x2
    generalize wrapCont p (Ev.blockStart (if cif = true then some b.code else none)) (Ev.blockEnd (if cif = true then some b.code else none))
      s.n (eElems p cif b.body (s.n + 1)) = d at x1 x2 ⊢
    rcases d with ⟨evs, fl⟩
    cases fl with
    | go =>
      rw [endCode_go] at x1; rw [endSt_go] at x2
      simp only [x1, if_true, x2]
      have ih := xBlocks_so hp cif bs (adv s evs)
        (if cif = true then acc ++ [Container.mk b.code (xCont p cif true b.code b.body s).2.2.frames (xCont p cif true b.code b.body s).2.2.loops]
          else acc) (by simp [h0]) hbs
      rw [adv_n_hc] at ih
      obtain ⟨i1, i2⟩ := ih
      generalize eBlocks p cif bs (s.n + hc evs) = r at i1 i2 ⊢
      rcases r with ⟨evs2, fl2⟩
      refine ⟨?_, ?_⟩
      · rw [i1]; cases fl2 <;> rfl
      · rw [i2]; cases fl2 <;> simp [endSt, adv_adv]
    | sib =>
      rw [endCode_sib] at x1; rw [endSt_sib] at x2
      simp only [x1, if_true, x2]
      rw [xBlocks_skipped p cif bs _ _ (by simp)]
      exact ⟨rfl, rfl⟩
    | stop =>
      rw [endCode_stop] at x1; rw [endSt_stop] at x2
      simp only [x1, end_ne_ok, if_false, x2]
      exact ⟨rfl, rfl⟩

theorem cifEnd_ok_so (hp : StartOnly p) (cif : Bool) (X : St) : cifEndStep p cif OK X = (OK, push (dec X) (.cifEnd cif)) := by
  unfold cifEndStep
  simp only [if_true, so_other hp (dec X).n (.cifEnd cif) rfl, show ¬ (CONTINUE > OK) by decide, if_false]

theorem cifEnd_end (cif : Bool) (X : St) : cifEndStep p cif END X = (OK, dec X) := by
  unfold cifEndStep
  simp only [end_ne_ok, if_false, show ¬ (END > OK) by decide]

/-- **the callbacks of the structural interpreter under a program that steers from the start callbacks only are `evDoc`** -/
theorem xDoc_so (hp : StartOnly p) (cif : Bool) (d : Doc) (hw : wfDoc d = true) :
    (xDoc p cif d (St.init [])).2.1.log.reverse = evDoc p cif d ∧ (xDoc p cif d (St.init [])).1 = OK := by
  have h0 : (St.init []).skip = 0 := rfl
  have hn0 : (St.init []).n = 0 := rfl
  have hlog : ∀ l, (adv (St.init []) l).log.reverse = l := by intro l; simp [adv, St.init]
  unfold xDoc evDoc
  rw [hn0]
  rcases (hp 0 (.cifStart cif)).2 with h | h | h | h
  · rw [site_cont p _ _ _ _ (by rw [hn0]; exact h)]
    simp only [h, show ¬ (CONTINUE = END) by decide, if_false, if_true]
    obtain ⟨x1, x2⟩ := xBlocks_so hp cif d (push (St.init []) (.cifStart cif)) [] (by simp [h0]) hw
    simp only [push_n, hn0, Nat.zero_add] at x1 x2
    generalize eBlocks p cif d 1 = r at x1 x2 ⊢
    rcases r with ⟨evs, fl⟩
    cases fl with
    | go =>
      rw [endCode_go] at x1; rw [endSt_go] at x2
      rw [x1, x2, cifEnd_ok_so hp]
      refine ⟨?_, rfl⟩
      rw [dec0 _ (by simp [h0]), push_adv _ (.cifStart cif) rfl, push_adv _ (.cifEnd cif) rfl, adv_adv, adv_adv, hlog]
      simp
    | sib =>
      rw [endCode_sib] at x1; rw [endSt_sib] at x2
      rw [x1, x2, cifEnd_ok_so hp]
      refine ⟨?_, rfl⟩
      show (Ev.cifEnd cif :: (dec (sk (adv (push (St.init []) (Ev.cifStart cif)) evs) 1)).log).reverse = _
      rw [dec_log]
      show (Ev.cifEnd cif :: (adv (push (St.init []) (Ev.cifStart cif)) evs).log).reverse = _
      rw [push_adv _ (.cifStart cif) rfl, adv_adv]
      simp [adv, St.init]
    | stop =>
      rw [endCode_stop] at x1; rw [endSt_stop] at x2
      rw [x1, x2, cifEnd_end]
      refine ⟨?_, rfl⟩
      rw [dec_log, push_adv _ (.cifStart cif) rfl, adv_adv, hlog]
      simp
  · rw [site_cur p _ _ _ _ (by rw [hn0]; exact h)]
    simp only [h, show ¬ (SKIP_CURRENT = END) by decide, cur_ne_cont, if_false, if_true, setSkip_sk]
    rw [xBlocks_skipped p cif d _ [] (by simp), cifEnd_ok_so hp]
    refine ⟨?_, rfl⟩
    show (Ev.cifEnd cif :: (dec (sk (push (St.init []) (Ev.cifStart cif)) 1)).log).reverse = _
    rw [dec_log]
    rfl
  · rw [site_sib p _ _ _ _ (by rw [hn0]; exact h)]
    simp only [h, show ¬ (SKIP_SIBLINGS = END) by decide, sib_ne_cont, if_false, if_true, setSkip_sk]
    rw [xBlocks_skipped p cif d _ [] (by simp), cifEnd_ok_so hp]
    refine ⟨?_, rfl⟩
    show (Ev.cifEnd cif :: (dec (sk (push (St.init []) (Ev.cifStart cif)) 1)).log).reverse = _
    rw [dec_log]
    rfl
  · simp only [h, if_true, end_ne_cont, if_false]
    exact ⟨rfl, trivial⟩

end CifModel.Lemmas.ParseCB
