import CifModel.Lemmas.BufScan
import CifModel.Lemmas.LexerTotal
/-
  Lemmas/BufScanSim — every buffer-level scan function (Model.BufScan) simulates the list-level one (Model.Lexer) on the
  abstraction of its state: same reports in the same order, same abort value, and on completion a state whose abstraction is
  the list-level result.  One lemma per scan function, by induction over the fuel (= the loop iterations of the C).
-/
namespace CifModel.Model.BufScan
open CifModel CifModel.Model.Chars CifModel.Model.Lexer CifModel.Model.Fill CifModel.Model.ScanBuf CifModel.Spec.Eol

/-! ### related outcomes / actions -/

def RSim {α β : Type} (R : α → β → Prop) : Res α → Res β → Prop
  | .ok a l, .ok b l' => l = l' ∧ R a b
  | .abort rv l, .abort rv' l' => rv = rv' ∧ l = l'
  | _, _ => False

/-- the buffer-level action and the list-level action make the same reports, abort alike, and complete with related values -/
def Sim {α β : Type} (R : α → β → Prop) (m : L α) (m' : L β) : Prop := ∀ pol log, RSim R (m pol log) (m' pol log)

theorem sim_pure {α β : Type} {R : α → β → Prop} {a : α} {b : β} (h : R a b) : Sim R (L.pure a) (L.pure b) :=
  fun _ _ => ⟨rfl, h⟩

theorem sim_bind {α β γ δ : Type} {Q : γ → δ → Prop} {R : α → β → Prop} {m : L γ} {m' : L δ} {f : γ → L α} {f' : δ → L β}
    (hm : Sim Q m m') (hf : ∀ a b, Q a b → Sim R (f a) (f' b)) : Sim R (L.bind m f) (L.bind m' f') := by
  intro pol log
  have h := hm pol log
  unfold L.bind
  cases h1 : m pol log with
  | ok a l =>
    cases h2 : m' pol log with
    | ok b l' =>
      rw [h1, h2] at h
      obtain ⟨e, q⟩ := h
      subst e
      exact hf a b q pol l
    | abort rv l' => rw [h1, h2] at h; exact h.elim
  | abort rv l =>
    cases h2 : m' pol log with
    | ok b l' => rw [h1, h2] at h; exact h.elim
    | abort rv' l' => rw [h1, h2] at h; exact h

/-- the same action on both sides (a report, SCAN_UCHAR's decision, HANDLE_EOL) -/
theorem sim_bind_same {α β γ : Type} {R : α → β → Prop} (m : L γ) {f : γ → L α} {f' : γ → L β}
    (hf : ∀ x, Sim R (f x) (f' x)) : Sim R (L.bind m f) (L.bind m f') := by
  intro pol log
  unfold L.bind
  cases h1 : m pol log with
  | ok a l => exact hf a pol l
  | abort rv l => exact ⟨rfl, rfl⟩

theorem sim_mono {α β : Type} {R R' : α → β → Prop} {m : L α} {m' : L β} (h : Sim R m m') (hr : ∀ a b, R a b → R' a b) :
    Sim R' m m' := by
  intro pol log
  have := h pol log
  cases h1 : m pol log <;> cases h2 : m' pol log <;> rw [h1, h2] at this <;> first | exact this.elim | skip
  · exact ⟨this.1, hr _ _ this.2⟩
  · exact this

/-! ### scan_ws -/

/-- exit relation of scan_ws -/
structure OutP (mf : Nat) (s' : BS) (p : Pos) : Prop where
  good : Good mf s'
  rem : s'.remaining = p.rest
  line : s'.line = p.line
  col : s'.col = p.col

theorem scanWsB_sim (dia : Dialect) (mf : Nat) : ∀ (fuel : Nat) (s : BS) (top sol : Nat), Good mf s → top = s.sb.limit →
    s.measure < fuel → Sim (OutP mf) (scanWsB dia mf fuel s top sol) (scanWs dia s.remaining s.line s.col sol) := by
  intro fuel
  induction fuel with
  | zero => intro s top sol g ht hm; omega
  | succ fuel ih =>
    intro s top sol g ht hm
    subst ht
    unfold scanWsB
    by_cases hlt : s.sb.next < s.sb.limit
    · rw [if_pos hlt]
      have a := setNext_adv mf dia s g hlt
      rw [a.rem]
      simp only [scanWs]
      by_cases hws : classOf dia (s.get s.sb.next) = .ws
      · simp only [hws, if_true]
        have a' : Adv mf dia s { s.setNext (s.sb.next + 1) with col := s.col + 1 } false (s.get s.sb.next) := a.congr rfl rfl rfl
        have := ih { s.setNext (s.sb.next + 1) with col := s.col + 1 } s.sb.limit 0 a'.good a'.limit.symm
          (by have := a'.measure; omega)
        exact this
      · simp only [hws, if_false]
        by_cases heol : classOf dia (s.get s.sb.next) = .eol
        · simp only [heol, if_true, handleEolB, bind_eq, pure_eq]
          rw [show ∀ (m : L (Nat × Nat × Nat)) (f : _ → L (BS × Nat)) (k : BS × Nat → L BS), L.bind (L.bind m f) k = L.bind m (fun x => L.bind (f x) k) from
            fun m f k => by funext pol log; simp only [L.bind]; cases m pol log <;> rfl]
          apply sim_bind_same
          intro x
          obtain ⟨l', c', s'⟩ := x
          simp only [L.pure_bind]
          have a' : Adv mf dia s (({ s with line := l', col := c' } : BS).setNext (s.sb.next + 1)) false (s.get s.sb.next) := a.congr rfl rfl rfl
          have := ih (({ s with line := l', col := c' } : BS).setNext (s.sb.next + 1)) s.sb.limit s' a'.good a'.limit.symm
            (by have := a'.measure; omega)
          exact this
        · simp only [heol, if_false]
          apply sim_pure
          exact ⟨g.congr rfl rfl rfl, a.rem, rfl, rfl⟩
    · rw [if_neg hlt]
      have hnl : s.sb.next = s.sb.limit := by have := g.inv.2.2.1; omega
      have hs := getMore_spec mf s g hnl
      show Sim _ (if (getMore mf s).1 = true then _ else _) _
      cases hb : (getMore mf s).1
      · rw [if_neg (by simp)]
        have hr := (hs.2.2.2.2.2.2.2.2.1 hb).1
        rw [hr]
        simp only [scanWs]
        apply sim_pure
        exact ⟨hs.1.congr rfl rfl rfl, hs.2.2.2.2.2.2.2.1.trans hr, hs.2.2.2.1, hs.2.2.2.2.1⟩
      · rw [if_pos rfl]
        have hp := hs.2.2.2.2.2.2.2.2.2 hb
        have := ih (getMore mf s).2 (getMore mf s).2.sb.limit sol hs.1 rfl (by
          simp only [BS.measure, hs.2.2.2.2.2.2.2.1] at hm ⊢; omega)
        rw [hs.2.2.2.2.2.2.2.1, hs.2.2.2.1, hs.2.2.2.2.1] at this
        exact this

/-! ### SCAN_UCHAR in a loop: the token text against the lexer model's accumulator -/

/-- the lexer model's accumulator: the token text behind its first `k` units (the opening delimiter), newest unit first -/
def racc (k : Nat) (s : BS) : Str := (s.text.drop k).reverse

theorem scanUChar_fix {dia : Dialect} {line col prev c : Nat} {lead : Bool} {pol : Policy} {log log' : List Report} {u : UStep}
    (h : scanUChar dia line col prev c lead pol log = .ok u log') : u.fixPrev = true → lead = true := by
  simp only [scanUChar, bind_eq, pure_eq] at h
  split at h
  · split at h
    · obtain ⟨_, l1, h1, h2⟩ := L.bind_ok_inv h
      obtain ⟨hu, _⟩ := L.pure_ok_inv h2
      subst hu; intro h; simp at h
    · obtain ⟨_, l1, h1, h2⟩ := L.bind_ok_inv h
      obtain ⟨hu, _⟩ := L.pure_ok_inv h2
      subst hu; intro h; simp at h
  · obtain ⟨_, l1, h1, h2⟩ := L.bind_ok_inv h
    obtain ⟨_, l2, h3, h4⟩ := L.bind_ok_inv h2
    obtain ⟨_, l3, h5, h6⟩ := L.bind_ok_inv h4
    obtain ⟨hu, _⟩ := L.pure_ok_inv h6
    subst hu; intro h; exact h

theorem scanUChar_prev (dia : Dialect) (line col p p' c : Nat) :
    scanUChar dia line col p c false = scanUChar dia line col p' c false := by
  simp [scanUChar]

/-- as `sim_bind_same`, with the knowledge that the value was produced by the action -/
theorem sim_bind_same' {α β γ : Type} {R : α → β → Prop} (m : L γ) {f : γ → L α} {f' : γ → L β}
    (hf : ∀ x, (∃ pol log log', m pol log = .ok x log') → Sim R (f x) (f' x)) : Sim R (L.bind m f) (L.bind m f') := by
  intro pol log
  unfold L.bind
  cases h1 : m pol log with
  | ok a l => exact hf a ⟨pol, log, l, h1⟩ pol l
  | abort rv l => exact ⟨rfl, rfl⟩

theorem racc_headD (mf : Nat) (s : BS) (k : Nat) (g : Good mf s) (hk : k < s.text.length) :
    (racc k s).headD 0 = s.get (s.sb.next - 1) := by
  have hlen := g.text_length
  have hp := get_prev mf s g (by omega)
  unfold racc
  have hne : s.text.drop k ≠ [] := by
    intro h; have := congrArg List.length h; simp at this; omega
  rw [List.headD_eq_head?_getD, List.head?_reverse, List.getLast?_drop, if_neg (by omega), hp]
  rfl

/-- one SCAN_UCHAR: the continuation is entered with the same `u` on both sides, and the new state is an `Adv` of the old one -/
theorem scanU_sim {α β : Type} {R : α → β → Prop} (mf : Nat) (dia : Dialect) (s : BS) (lead : Bool) (k : Nat)
    (g : Good mf s) (hlt : s.sb.next < s.sb.limit) (hk : k ≤ s.text.length) (hl : lead = true → k < s.text.length)
    {f : UStep × BS → L α} {f' : UStep → L β}
    (hf : ∀ u, (u.fixPrev = true → lead = true) → Adv mf dia s (stepU dia s u) u.fixPrev u.c →
      racc k (stepU dia s u) = u.c :: fixAcc dia u.fixPrev (racc k s) →
      Sim R (f (u, stepU dia s u)) (f' u)) :
    Sim R (L.bind (scanUCharB dia s lead) f)
      (L.bind (scanUChar dia s.line s.col ((racc k s).headD 0) (s.get s.sb.next) lead) f') := by
  have hargs : scanUChar dia s.line s.col ((racc k s).headD 0) (s.get s.sb.next) lead
      = scanUChar dia s.line s.col (s.get (s.sb.next - 1)) (s.get s.sb.next) lead := by
    cases lead with
    | false => exact scanUChar_prev _ _ _ _ _ _
    | true => rw [racc_headD mf s k g (hl rfl)]
  rw [hargs, scanUCharB_eq]
  rw [show ∀ (m : L UStep) (h : UStep → L (UStep × BS)) (q : UStep × BS → L α), L.bind (L.bind m h) q = L.bind m (fun x => L.bind (h x) q) from
    fun m h q => by funext pol log; simp only [L.bind]; cases m pol log <;> rfl]
  apply sim_bind_same'
  intro u ⟨pol, log, log', hu⟩
  simp only [L.pure_bind]
  have hfix := scanUChar_fix hu
  have hlen := g.text_length
  have a := (stepU_adv mf dia s u g hlt (fun h => by have := hl (hfix h); omega)).1
  apply hf u hfix a
  unfold racc
  rw [a.text]
  by_cases hfx : u.fixPrev = true
  · have hkl := hl (hfix hfx)
    simp only [hfx, if_true, fixAcc]
    have hne : s.text ≠ [] := by intro h; rw [h] at hkl; simp at hkl
    have hdl : s.text = s.text.dropLast ++ [s.text.getLast hne] := (List.dropLast_concat_getLast hne).symm
    have hk' : k ≤ s.text.dropLast.length := by simp; omega
    rw [List.append_assoc, List.drop_append_of_le_length hk', List.reverse_append]
    conv => rhs; rw [hdl, List.drop_append_of_le_length hk', List.reverse_append]
    simp
  · simp only [hfx, Bool.false_eq_true, if_false, fixAcc]
    rw [List.drop_append_of_le_length hk, List.reverse_append]
    simp

theorem Adv.tlen {mf : Nat} {dia : Dialect} {s s1 : BS} {fix : Bool} {c' : CU} (a : Adv mf dia s s1 fix c') (g : Good mf s) :
    s1.text.length = s.text.length + 1 := by
  have h1 := g.text_length
  have h2 := a.good.text_length
  have := g.inv.1; have := g.inv.2.1
  rw [h2, h1, a.next, a.textStart]; omega

theorem Adv.sum {mf : Nat} {dia : Dialect} {s s1 : BS} {fix : Bool} {c' : CU} (a : Adv mf dia s s1 fix c') (g : Good mf s) :
    s1.text.length + s1.remaining.length = s.text.length + s.remaining.length := by
  rw [a.tlen g, a.rem]; simp only [List.length_cons]; omega

/-! ### the end of a token scan -/

/-- exit relation of the token scans: the token value the parser will read is the lexer model's text, the rest of the
    input, line and column agree; `text.length + remaining.length` is conserved (no unit lost or duplicated) -/
structure Out (mf L0 : Nat) (W : Bool) (s' : BS) (sc : Scanned) : Prop where
  good : Good mf s'
  /-- `W`: the token value is the whole token text (`tvalue_start == text_start`, value ends at `next_char`) -/
  whole : W = true → s'.sb.tvalueOffset = 0 ∧ s'.sb.tvalueStart + s'.tvlen = s'.sb.next
  /-- a whitespace-delimited token never ends on the last unit of the buffer array: it was ended by BACK_UP, or by the end of the
      input after get_more_chars() made room — there is a unit behind it for the parser's string terminator -/
  fits : W = true → s'.sb.next < s'.sb.size
  value : s'.value = sc.acc.reverse
  bound : s'.sb.tvalueStart + s'.tvlen ≤ s'.sb.next
  rem : s'.remaining = sc.pos.rest
  line : s'.line = sc.pos.line
  col : s'.col = sc.pos.col
  len : s'.text.length + s'.remaining.length = L0

theorem reverse_drop_reverse (l : Str) (d : Nat) : (l.reverse.drop d).reverse = l.take (l.length - d) := by
  rw [List.drop_reverse, List.reverse_reverse]

/-- `TVALUE_INCSTART(k); TVALUE_SETLENGTH(next_char - tvalue_start - dsize)` with `tvalue_start == text_start` before -/
theorem out_endDelim (mf L0 : Nat) (s : BS) (k d : Nat) (g : Good mf s) (h0 : s.sb.tvalueOffset = 0) (hk : k ≤ s.text.length)
    (hL : s.text.length + s.remaining.length = L0) (hfit : (k == 0 && d == 0) = true → s.sb.next < s.sb.size) :
    Out mf L0 (k == 0 && d == 0) (endDelim s k d) ⟨(racc k s).drop d, ⟨s.remaining, s.line, s.col⟩⟩ := by
  obtain ⟨h1, h2, h3, h4, h5⟩ := g.inv
  have hlen := g.text_length
  have hts : s.sb.tvalueStart = s.sb.textStart := by simp only [SB.tvalueOffset] at h0; omega
  refine ⟨⟨⟨by show s.sb.textStart ≤ s.sb.tvalueStart + k; omega, by show s.sb.tvalueStart + k ≤ s.sb.next; omega, h3, h4, h5⟩,
    g.size, g.mf, g.ok, g.eof⟩, ?_, hfit, ?_, by show s.sb.tvalueStart + k + (s.sb.next - (s.sb.tvalueStart + k) - d) ≤ s.sb.next; omega,
    rfl, rfl, rfl, hL⟩
  · intro hw
    simp only [Bool.and_eq_true, beq_iff_eq] at hw
    obtain ⟨hk0, hd0⟩ := hw
    subst hk0; subst hd0
    refine ⟨?_, ?_⟩
    · show s.sb.tvalueStart + 0 - s.sb.textStart = 0
      omega
    · show s.sb.tvalueStart + 0 + (s.sb.next - (s.sb.tvalueStart + 0) - 0) = s.sb.next
      omega
  show (s.sb.buffer.drop (s.sb.tvalueStart + k)).take (s.sb.next - (s.sb.tvalueStart + k) - d) = ((racc k s).drop d).reverse
  unfold racc
  rw [reverse_drop_reverse, List.length_drop, hlen, hts]
  simp only [BS.text, SB.tokenText]
  buf_ext

theorem dropLast_drop' (l : Str) (k : Nat) : (l.dropLast).drop k = (l.drop k).dropLast := by
  rw [List.dropLast_eq_take, List.dropLast_eq_take, List.drop_take, List.length_drop]
  congr 1; omega

theorem endTok_eq (s : BS) : endTok s = endDelim s 0 0 := rfl

/-- BACK_UP of the unit just scanned -/
theorem adv_backUp {mf : Nat} {dia : Dialect} {s s1 : BS} {fix : Bool} {c' : CU} (a : Adv mf dia s s1 fix c') (g : Good mf s)
    (k : Nat) (hk : k ≤ s.text.length) :
    Good mf (backUp s1) ∧ racc k (backUp s1) = (racc k s1).tail ∧ (backUp s1).remaining = c' :: s1.remaining ∧
    (backUp s1).line = s1.line ∧ (backUp s1).col = s1.col - 1 ∧ (backUp s1).sb.tvalueOffset = s.sb.tvalueOffset ∧
    (backUp s1).text.length = s.text.length ∧
    (backUp s1).text.length + (backUp s1).remaining.length = s.text.length + s.remaining.length := by
  have hs : s.sb.tvalueStart ≤ s.sb.next := g.inv.2.1
  have b := backUp_spec mf s1 a.good (by rw [a.tvalueStart, a.next]; omega)
  have htl := a.tlen g
  have hlast : s1.get (s1.sb.next - 1) = c' := by
    rw [a.next]; exact a.last
  refine ⟨b.1, ?_, by rw [b.2.2.1, hlast], b.2.2.2.2.1, b.2.2.2.2.2.1, by rw [b.2.2.2.1, a.tvoff], ?_, ?_⟩
  · unfold racc
    rw [b.2.1, dropLast_drop', List.tail_reverse]
  · rw [b.2.1]; simp; omega
  · rw [b.2.1, b.2.2.1, a.rem]; simp; omega

/-- HANDLE_UNPAIRED_LEAD_OR_FAIL at the end of the input -/
theorem unpairedLeadB_sim (mf : Nat) (dia : Dialect) (s : BS) (lead : Bool) (k : Nat) (g : Good mf s)
    (hk : k ≤ s.text.length) (hl : lead = true → k < s.text.length) :
    Sim (fun s' acc' => Good mf s' ∧ racc k s' = acc' ∧ s'.remaining = s.remaining ∧ s'.line = s.line ∧ s'.col = s.col ∧
          s'.sb.tvalueOffset = s.sb.tvalueOffset ∧ s'.text.length = s.text.length ∧ s'.sb.next = s.sb.next ∧ s'.sb.size = s.sb.size)
      (unpairedLeadB dia s lead) (leadAtEof dia s.line s.col lead (racc k s)) := by
  simp only [unpairedLeadB, leadAtEof, bind_eq, pure_eq]
  apply sim_bind_same
  intro _
  apply sim_pure
  cases lead with
  | false => exact ⟨g, rfl, rfl, rfl, rfl, rfl, rfl, rfl, rfl⟩
  | true =>
    have hkl := hl rfl
    have hlen := g.text_length
    have f := fixLast_spec mf dia s g (by omega)
    simp only [if_true, fixAcc]
    refine ⟨f.1, ?_, f.2.2, rfl, rfl, rfl, by rw [f.2.1]; simp; omega, rfl, rfl⟩
    unfold racc
    rw [f.2.1]
    have hne : s.text ≠ [] := by intro h; rw [h] at hkl; simp at hkl
    have hdl : s.text = s.text.dropLast ++ [s.text.getLast hne] := (List.dropLast_concat_getLast hne).symm
    have hk' : k ≤ s.text.dropLast.length := by simp; omega
    rw [List.drop_append_of_le_length hk', List.reverse_append]
    conv => rhs; rw [hdl, List.drop_append_of_le_length hk', List.reverse_append]
    simp

theorem eofChar_meta (dia : Dialect) : metaOfCls (classOf dia eofChar) ≠ .ws := by cases dia <;> decide

/-! ### scan_to_ws, scan_to_eol -/

theorem scanToWsB_sim (dia : Dialect) (mf L0 : Nat) : ∀ (fuel : Nat) (s : BS) (top : Nat) (lead : Bool), Good mf s →
    top = s.sb.limit → s.sb.tvalueOffset = 0 → (lead = true → 0 < s.text.length) → s.measure < fuel →
    s.text.length + s.remaining.length = L0 →
    Sim (Out mf L0 true) (scanToWsB dia mf fuel s top lead) (scanToWs dia s.remaining s.line s.col lead (racc 0 s)) := by
  intro fuel
  induction fuel with
  | zero => intro s top lead g ht h0 hl hm hL; omega
  | succ fuel ih =>
    intro s top lead g ht h0 hl hm hL
    subst ht
    unfold scanToWsB
    by_cases hlt : s.sb.next < s.sb.limit
    · rw [if_pos hlt, remaining_cons mf s g hlt]
      simp only [scanToWs, bind_eq, pure_eq]
      apply scanU_sim mf dia s lead 0 g hlt (Nat.zero_le _) hl
      intro u hfl a hr
      have hrem : (s.remaining).tail = (stepU dia s u).remaining := by rw [a.rem]; rfl
      by_cases hws : metaOf dia u.c = .ws
      · simp only [hws, if_true]
        apply sim_pure
        have b := adv_backUp a g 0 (Nat.zero_le _)
        have o := out_endDelim mf L0 (backUp (stepU dia s u)) 0 0 b.1 (by rw [b.2.2.2.2.2.1, h0]) (Nat.zero_le _) (by rw [b.2.2.2.2.2.2.2, hL]) (fun _ => by obtain ⟨_, _, q3, q4, _⟩ := a.good.inv; have := a.next; show (stepU dia s u).sb.next - 1 < (stepU dia s u).sb.size; omega)
        rw [b.2.1, hr, b.2.2.1, b.2.2.2.1, b.2.2.2.2.1, stepU_col, stepU_line, ← hrem] at o
        exact o
      · simp only [hws, if_false]
        have := ih (stepU dia s u) s.sb.limit u.lead a.good a.limit.symm (by rw [a.tvoff, h0])
          (fun _ => by rw [a.tlen g]; omega) (by have := a.measure; omega) (by rw [a.sum g, hL])
        rw [hr, ← hrem, stepU_col, stepU_line] at this
        exact this
    · rw [if_neg hlt]
      have hnl : s.sb.next = s.sb.limit := by have := g.inv.2.2.1; omega
      have hs := getMore_spec mf s g hnl
      have hrc : racc 0 (getMore mf s).2 = racc 0 s := by unfold racc; rw [hs.2.1]
      show Sim _ (if (getMore mf s).1 = true then _ else _) _
      cases hb : (getMore mf s).1
      · rw [if_neg (by simp)]
        have hr := (hs.2.2.2.2.2.2.2.2.1 hb).1
        rw [hr]
        simp only [scanToWs, bind_eq, pure_eq]
        have hu := unpairedLeadB_sim mf dia (getMore mf s).2 lead 0 hs.1 (Nat.zero_le _) (by rw [hs.2.1]; exact hl)
        rw [hrc, hs.2.2.2.1, hs.2.2.2.2.1] at hu
        apply sim_bind hu
        intro s' acc' ⟨g', e1, e2, e3, e4, e5, e6, e7, e8⟩
        apply sim_pure
        have o := out_endDelim mf L0 s' 0 0 g' (by rw [e5, hs.2.2.1, h0]) (Nat.zero_le _)
          (by rw [e6, e2, hs.2.1, hs.2.2.2.2.2.2.2.1, hL]) (fun _ => by rw [e7, e8]; have := hs.2.2.2.2.2.2.2.2.1 hb; omega)
        subst e1
        rw [e2.trans (hs.2.2.2.2.2.2.2.1.trans hr), e3, e4] at o
        exact o
      · rw [if_pos rfl]
        have := ih (getMore mf s).2 (getMore mf s).2.sb.limit lead hs.1 rfl (by rw [hs.2.2.1, h0]) (by rw [hs.2.1]; exact hl)
          (by simp only [BS.measure, hs.2.2.2.2.2.2.2.1] at hm ⊢; have := (hs.2.2.2.2.2.2.2.2.2 hb).2; omega)
          (by rw [hs.2.1, hs.2.2.2.2.2.2.2.1, hL])
        rw [hs.2.2.2.2.2.2.2.1, hs.2.2.2.1, hs.2.2.2.2.1, hrc] at this
        exact this

theorem scanToEolB_sim (dia : Dialect) (mf L0 : Nat) : ∀ (fuel : Nat) (s : BS) (top : Nat) (lead : Bool), Good mf s →
    top = s.sb.limit → s.sb.tvalueOffset = 0 → (lead = true → 0 < s.text.length) → s.measure < fuel →
    s.text.length + s.remaining.length = L0 →
    Sim (Out mf L0 true) (scanToEolB dia mf fuel s top lead) (scanToEol dia s.remaining s.line s.col lead (racc 0 s)) := by
  intro fuel
  induction fuel with
  | zero => intro s top lead g ht h0 hl hm hL; omega
  | succ fuel ih =>
    intro s top lead g ht h0 hl hm hL
    subst ht
    unfold scanToEolB
    by_cases hlt : s.sb.next < s.sb.limit
    · rw [if_pos hlt, remaining_cons mf s g hlt]
      simp only [scanToEol, bind_eq, pure_eq]
      apply scanU_sim mf dia s lead 0 g hlt (Nat.zero_le _) hl
      intro u hfl a hr
      have hrem : (s.remaining).tail = (stepU dia s u).remaining := by rw [a.rem]; rfl
      by_cases hws : classOf dia u.c = .eol
      · simp only [hws, if_true]
        apply sim_pure
        have b := adv_backUp a g 0 (Nat.zero_le _)
        have o := out_endDelim mf L0 (backUp (stepU dia s u)) 0 0 b.1 (by rw [b.2.2.2.2.2.1, h0]) (Nat.zero_le _) (by rw [b.2.2.2.2.2.2.2, hL]) (fun _ => by obtain ⟨_, _, q3, q4, _⟩ := a.good.inv; have := a.next; show (stepU dia s u).sb.next - 1 < (stepU dia s u).sb.size; omega)
        rw [b.2.1, hr, b.2.2.1, b.2.2.2.1, b.2.2.2.2.1, stepU_col, stepU_line, ← hrem] at o
        exact o
      · simp only [hws, if_false]
        have := ih (stepU dia s u) s.sb.limit u.lead a.good a.limit.symm (by rw [a.tvoff, h0])
          (fun _ => by rw [a.tlen g]; omega) (by have := a.measure; omega) (by rw [a.sum g, hL])
        rw [hr, ← hrem, stepU_col, stepU_line] at this
        exact this
    · rw [if_neg hlt]
      have hnl : s.sb.next = s.sb.limit := by have := g.inv.2.2.1; omega
      have hs := getMore_spec mf s g hnl
      have hrc : racc 0 (getMore mf s).2 = racc 0 s := by unfold racc; rw [hs.2.1]
      show Sim _ (if (getMore mf s).1 = true then _ else _) _
      cases hb : (getMore mf s).1
      · rw [if_neg (by simp)]
        have hr := (hs.2.2.2.2.2.2.2.2.1 hb).1
        rw [hr]
        simp only [scanToEol, bind_eq, pure_eq]
        have hu := unpairedLeadB_sim mf dia (getMore mf s).2 lead 0 hs.1 (Nat.zero_le _) (by rw [hs.2.1]; exact hl)
        rw [hrc, hs.2.2.2.1, hs.2.2.2.2.1] at hu
        apply sim_bind hu
        intro s' acc' ⟨g', e1, e2, e3, e4, e5, e6, e7, e8⟩
        apply sim_pure
        have o := out_endDelim mf L0 s' 0 0 g' (by rw [e5, hs.2.2.1, h0]) (Nat.zero_le _)
          (by rw [e6, e2, hs.2.1, hs.2.2.2.2.2.2.2.1, hL]) (fun _ => by rw [e7, e8]; have := hs.2.2.2.2.2.2.2.2.1 hb; omega)
        subst e1
        rw [e2.trans (hs.2.2.2.2.2.2.2.1.trans hr), e3, e4] at o
        exact o
      · rw [if_pos rfl]
        have := ih (getMore mf s).2 (getMore mf s).2.sb.limit lead hs.1 rfl (by rw [hs.2.2.1, h0]) (by rw [hs.2.1]; exact hl)
          (by simp only [BS.measure, hs.2.2.2.2.2.2.2.1] at hm ⊢; have := (hs.2.2.2.2.2.2.2.2.2 hb).2; omega)
          (by rw [hs.2.1, hs.2.2.2.2.2.2.2.1, hL])
        rw [hs.2.2.2.2.2.2.2.1, hs.2.2.2.1, hs.2.2.2.2.1, hrc] at this
        exact this

/-! ### scan_unquoted -/

theorem scanUnquotedB_sim (dia : Dialect) (mf L0 : Nat) : ∀ (fuel : Nat) (s : BS) (top : Nat) (lead : Bool) (k : Nat) (kd ks : Bool),
    Good mf s → top = s.sb.limit → s.sb.tvalueOffset = 0 → (lead = true → 0 < s.text.length) → s.measure < fuel →
    s.text.length + s.remaining.length = L0 →
    Sim (Out mf L0 true) (scanUnquotedB dia mf fuel s top lead k kd ks)
      (scanUnquoted dia s.remaining s.line s.col lead (racc 0 s) k kd ks) := by
  intro fuel
  induction fuel with
  | zero => intro s top lead k kd ks g ht h0 hl hm hL; omega
  | succ fuel ih =>
    intro s top lead k kd ks g ht h0 hl hm hL
    subst ht
    unfold scanUnquotedB
    by_cases hlt : s.sb.next < s.sb.limit
    · rw [if_pos hlt, remaining_cons mf s g hlt]
      simp only [scanUnquoted, bind_eq, pure_eq]
      apply scanU_sim mf dia s lead 0 g hlt (Nat.zero_le _) hl
      intro u hfl a hr
      have hrem : (s.remaining).tail = (stepU dia s u).remaining := by rw [a.rem]; rfl
      have hback : Out mf L0 true (endTok (backUp (stepU dia s u)))
          ⟨fixAcc dia u.fixPrev (racc 0 s), ⟨u.c :: (s.remaining).tail, s.line, u.col - 1⟩⟩ := by
        have b := adv_backUp a g 0 (Nat.zero_le _)
        have o := out_endDelim mf L0 (backUp (stepU dia s u)) 0 0 b.1 (by rw [b.2.2.2.2.2.1, h0]) (Nat.zero_le _) (by rw [b.2.2.2.2.2.2.2, hL]) (fun _ => by obtain ⟨_, _, q3, q4, _⟩ := a.good.inv; have := a.next; show (stepU dia s u).sb.next - 1 < (stepU dia s u).sb.size; omega)
        rw [b.2.1, hr, b.2.2.1, b.2.2.2.1, b.2.2.2.2.1, stepU_col, stepU_line, ← hrem] at o
        exact o
      have hgo : ∀ k' kd' ks', Sim (Out mf L0 true) (scanUnquotedB dia mf fuel (stepU dia s u) s.sb.limit u.lead k' kd' ks')
          (scanUnquoted dia (s.remaining).tail s.line u.col u.lead (u.c :: fixAcc dia u.fixPrev (racc 0 s)) k' kd' ks') := by
        intro k' kd' ks'
        have := ih (stepU dia s u) s.sb.limit u.lead k' kd' ks' a.good a.limit.symm (by rw [a.tvoff, h0])
          (fun _ => by rw [a.tlen g]; omega) (by have := a.measure; omega) (by rw [a.sum g, hL])
        rw [hr, ← hrem, stepU_col, stepU_line] at this
        exact this
      cases hmeta : metaOfCls (classOf dia u.c) with
      | general => simp only []; exact hgo _ _ _
      | open_ =>
        simp only []
        by_cases hc : ((!kd && !ks) || decide (k < 5)) = true
        · simp only [hc, if_true]
          rw [stepU_line, stepU_col]
          apply sim_bind_same
          intro _
          apply sim_pure
          exact hback
        · simp only [hc, if_false]
          exact hgo _ _ _
      | close =>
        simp only []
        by_cases hc : ((!kd && !ks) || decide (k < 5)) = true
        · simp only [hc, if_true]
          apply sim_pure
          exact hback
        · simp only [hc, if_false]
          exact hgo _ _ _
      | ws =>
        simp only []
        by_cases hc : u.c ≠ eofChar
        · simp only [hc, ne_eq, not_false_eq_true, if_true]
          apply sim_pure
          exact hback
        · simp only [hc, if_false]
          apply sim_pure
          have o := out_endDelim mf L0 (stepU dia s u) 0 0 a.good (by rw [a.tvoff, h0]) (Nat.zero_le _) (by rw [a.sum g, hL]) (fun _ => absurd (by rw [← (Classical.not_not.mp hc)]; exact hmeta) (eofChar_meta dia))
          rw [hr, ← hrem, stepU_col, stepU_line] at o
          exact o
      | no => simp only []; exact hgo _ _ _
    · rw [if_neg hlt]
      have hnl : s.sb.next = s.sb.limit := by have := g.inv.2.2.1; omega
      have hs := getMore_spec mf s g hnl
      have hrc : racc 0 (getMore mf s).2 = racc 0 s := by unfold racc; rw [hs.2.1]
      show Sim _ (if (getMore mf s).1 = true then _ else _) _
      cases hb : (getMore mf s).1
      · rw [if_neg (by simp)]
        have hr := (hs.2.2.2.2.2.2.2.2.1 hb).1
        rw [hr]
        simp only [scanUnquoted, bind_eq, pure_eq]
        have hu := unpairedLeadB_sim mf dia (getMore mf s).2 lead 0 hs.1 (Nat.zero_le _) (by rw [hs.2.1]; exact hl)
        rw [hrc, hs.2.2.2.1, hs.2.2.2.2.1] at hu
        apply sim_bind hu
        intro s' acc' ⟨g', e1, e2, e3, e4, e5, e6, e7, e8⟩
        apply sim_pure
        have o := out_endDelim mf L0 s' 0 0 g' (by rw [e5, hs.2.2.1, h0]) (Nat.zero_le _)
          (by rw [e6, e2, hs.2.1, hs.2.2.2.2.2.2.2.1, hL]) (fun _ => by rw [e7, e8]; have := hs.2.2.2.2.2.2.2.2.1 hb; omega)
        subst e1
        rw [e2.trans (hs.2.2.2.2.2.2.2.1.trans hr), e3, e4] at o
        exact o
      · rw [if_pos rfl]
        have := ih (getMore mf s).2 (getMore mf s).2.sb.limit lead k kd ks hs.1 rfl (by rw [hs.2.2.1, h0]) (by rw [hs.2.1]; exact hl)
          (by simp only [BS.measure, hs.2.2.2.2.2.2.2.1] at hm ⊢; have := (hs.2.2.2.2.2.2.2.2.2 hb).2; omega)
          (by rw [hs.2.1, hs.2.2.2.2.2.2.2.1, hL])
        rw [hs.2.2.2.2.2.2.2.1, hs.2.2.2.1, hs.2.2.2.2.1, hrc] at this
        exact this

/-! ### scan_triple_delim_string -/

theorem handleEolB_eq (s : BS) (c : CU) (sol : Nat) :
    handleEolB s c sol = L.bind (handleEol s.line s.col sol c) (fun r => L.pure ({ s with line := r.1, col := r.2.1 }, r.2.2)) := rfl

theorem L.bind_assoc {α β γ : Type} (m : L α) (f : α → L β) (g : β → L γ) :
    L.bind (L.bind m f) g = L.bind m (fun x => L.bind (f x) g) := by
  funext pol log; simp only [L.bind]; cases m pol log <;> rfl

theorem scanTripleB_sim (dia : Dialect) (mf L0 : Nat) (delim : CU) : ∀ (fuel : Nat) (s : BS) (top : Nat) (lead : Bool) (dc sol : Nat),
    Good mf s → top = s.sb.limit → s.sb.tvalueOffset = 0 → 3 ≤ s.text.length → (lead = true → 3 < s.text.length) →
    s.measure < fuel → s.text.length + s.remaining.length = L0 →
    Sim (Out mf L0 false) (scanTripleB dia mf delim fuel s top lead dc sol)
      (scanTriple dia delim s.remaining s.line s.col lead (racc 3 s) dc sol) := by
  intro fuel
  induction fuel with
  | zero => intro s top lead dc sol g ht h0 h3 hl hm hL; omega
  | succ fuel ih =>
    intro s top lead dc sol g ht h0 h3 hl hm hL
    subst ht
    unfold scanTripleB
    by_cases hlt : s.sb.next < s.sb.limit
    · rw [if_pos hlt, remaining_cons mf s g hlt]
      simp only [scanTriple, bind_eq, pure_eq]
      apply scanU_sim mf dia s lead 3 g hlt h3 hl
      intro u hfl a hr
      have hrem : (s.remaining).tail = (stepU dia s u).remaining := by rw [a.rem]; rfl
      have hgo : ∀ l' c' dc' sol', Sim (Out mf L0 false)
          (scanTripleB dia mf delim fuel { stepU dia s u with line := l', col := c' } s.sb.limit u.lead dc' sol')
          (scanTriple dia delim (s.remaining).tail l' c' u.lead (u.c :: fixAcc dia u.fixPrev (racc 3 s)) dc' sol') := by
        intro l' c' dc' sol'
        have a' : Adv mf dia s { stepU dia s u with line := l', col := c' } u.fixPrev u.c := a.congr rfl rfl rfl
        have hr' : racc 3 { stepU dia s u with line := l', col := c' } = u.c :: fixAcc dia u.fixPrev (racc 3 s) := hr
        have hrem' : (s.remaining).tail = ({ stepU dia s u with line := l', col := c' } : BS).remaining := hrem
        have := ih { stepU dia s u with line := l', col := c' } s.sb.limit u.lead dc' sol' a'.good a'.limit.symm (by rw [a'.tvoff, h0])
          (by rw [a'.tlen g]; omega) (fun _ => by rw [a'.tlen g]; omega) (by have := a'.measure; omega) (by rw [a'.sum g, hL])
        rw [hr', ← hrem'] at this
        exact this
      by_cases hd : u.c = delim
      · simp only [hd, if_true]
        by_cases h3' : dc + 1 ≥ 3
        · simp only [h3', if_true]
          apply sim_pure
          have o := out_endDelim mf L0 (stepU dia s u) 3 3 a.good (by rw [a.tvoff, h0]) (by rw [a.tlen g]; omega) (by rw [a.sum g, hL]) (fun h => by simp at h)
          rw [hr, ← hrem, stepU_col, stepU_line, hd] at o
          exact o
        · simp only [h3', if_false]
          have := hgo s.line u.col (dc + 1) sol
          rw [hd] at this
          rw [← stepU_line dia s u, ← stepU_col dia s u]
          rw [← stepU_line dia s u, ← stepU_col dia s u] at this
          exact this
      · simp only [hd, if_false]
        by_cases he : classOf dia u.c = .eol
        · simp only [he, if_true]
          rw [handleEolB_eq, L.bind_assoc]
          show Sim _ (L.bind (handleEol (stepU dia s u).line ((stepU dia s u).col - 1) sol u.c) _) _
          rw [stepU_line, stepU_col]
          apply sim_bind_same
          intro x
          obtain ⟨l', c', s'⟩ := x
          simp only [L.pure_bind]
          exact hgo l' c' 0 s'
        · simp only [he, if_false]
          have := hgo s.line u.col 0 0
          rw [← stepU_line dia s u, ← stepU_col dia s u]
          rw [← stepU_line dia s u, ← stepU_col dia s u] at this
          exact this
    · rw [if_neg hlt]
      have hnl : s.sb.next = s.sb.limit := by have := g.inv.2.2.1; omega
      have hs := getMore_spec mf s g hnl
      have hrc : racc 3 (getMore mf s).2 = racc 3 s := by unfold racc; rw [hs.2.1]
      show Sim _ (if (getMore mf s).1 = true then _ else _) _
      cases hb : (getMore mf s).1
      · rw [if_neg (by simp)]
        have hr := (hs.2.2.2.2.2.2.2.2.1 hb).1
        rw [hr]
        simp only [scanTriple, bind_eq, pure_eq]
        have hu := unpairedLeadB_sim mf dia (getMore mf s).2 lead 3 hs.1 (by rw [hs.2.1]; exact h3) (by rw [hs.2.1]; exact hl)
        rw [hrc, hs.2.2.2.1, hs.2.2.2.2.1] at hu
        apply sim_bind hu
        intro s' acc' ⟨g', e1, e2, e3, e4, e5, e6, e7, e8⟩
        rw [e3, e4]
        apply sim_bind_same
        intro _
        apply sim_pure
        have o := out_endDelim mf L0 s' 3 0 g' (by rw [e5, hs.2.2.1, h0]) (by rw [e6, hs.2.1]; exact h3)
          (by rw [e6, e2, hs.2.1, hs.2.2.2.2.2.2.2.1, hL]) (fun h => by simp at h)
        subst e1
        rw [e2.trans (hs.2.2.2.2.2.2.2.1.trans hr), e3, e4] at o
        exact o
      · rw [if_pos rfl]
        have := ih (getMore mf s).2 (getMore mf s).2.sb.limit lead dc sol hs.1 rfl (by rw [hs.2.2.1, h0]) (by rw [hs.2.1]; exact h3)
          (by rw [hs.2.1]; exact hl)
          (by simp only [BS.measure, hs.2.2.2.2.2.2.2.1] at hm ⊢; have := (hs.2.2.2.2.2.2.2.2.2 hb).2; omega)
          (by rw [hs.2.1, hs.2.2.2.2.2.2.2.1, hL])
        rw [hs.2.2.2.2.2.2.2.1, hs.2.2.2.1, hs.2.2.2.2.1, hrc] at this
        exact this

/-! ### scan_text -/

/-- `*(next_char - j)` for a unit of the token text -/
theorem get_back (mf : Nat) (s : BS) (g : Good mf s) (j : Nat) (h1 : 1 ≤ j) (h2 : j ≤ s.text.length) :
    s.get (s.sb.next - j) = s.text.reverse.getD (j - 1) 0 := by
  obtain ⟨i1, i2, i3, i4, i5⟩ := g.inv
  have hlen := g.text_length
  simp only [BS.get, BS.text, SB.tokenText] at *
  rw [List.getD_eq_getElem?_getD, List.getD_eq_getElem?_getD, List.getElem?_reverse (by simp; omega)]
  grind

theorem racc_one (s : BS) (h : 1 ≤ s.text.length) : racc 1 s = s.text.reverse.take (s.text.length - 1) := by
  unfold racc
  rw [List.take_reverse]
  congr 2; omega

/-- the closing-delimiter size test of scan_text, `*(next_char - 2) == LF && *(next_char - 3) == CR`, against the lexer model's
    test on its accumulator (which does not hold the opening semicolon) -/
theorem dsize_eq (mf : Nat) (s : BS) (g : Good mf s) (h3 : 3 ≤ s.text.length) (hd : s.text.head? ≠ some 13) :
    (s.get (s.sb.next - 2) = 10 ∧ s.get (s.sb.next - 3) = 13) ↔ ((racc 1 s).getD 1 0 = 10 ∧ (racc 1 s).getD 2 0 = 13) := by
  rw [get_back mf s g 2 (by omega) (by omega), get_back mf s g 3 (by omega) (by omega), racc_one s (by omega)]
  have e1 : (s.text.reverse.take (s.text.length - 1)).getD 1 0 = s.text.reverse.getD 1 0 := by
    rw [List.getD_eq_getElem?_getD, List.getD_eq_getElem?_getD, List.getElem?_take, if_pos (by omega)]
  rw [e1]
  by_cases h4 : 4 ≤ s.text.length
  · have e2 : (s.text.reverse.take (s.text.length - 1)).getD 2 0 = s.text.reverse.getD 2 0 := by
      rw [List.getD_eq_getElem?_getD, List.getD_eq_getElem?_getD, List.getElem?_take, if_pos (by omega)]
    rw [e2]
  · have hl : s.text.length = 3 := by omega
    have e2 : (s.text.reverse.take (s.text.length - 1)).getD 2 0 = 0 := by
      rw [List.getD_eq_getElem?_getD, List.getElem?_take, if_neg (by omega)]; rfl
    have e3 : s.text.reverse.getD 2 0 ≠ 13 := by
      rw [List.getD_eq_getElem?_getD, List.getElem?_reverse (by omega), hl]
      intro h
      apply hd
      rw [List.head?_eq_getElem?]
      have : (3 - 1 - 2) = 0 := rfl
      rw [this] at h
      cases h0 : s.text[0]? with
      | none => rw [h0] at h; simp at h
      | some v => rw [h0] at h; simp at h; rw [h]
    rw [e2]
    constructor
    · intro h; exact absurd h.2 e3
    · intro h; exact absurd h.2 (by decide)

theorem Adv.head {mf : Nat} {dia : Dialect} {s s1 : BS} {fix : Bool} {c' : CU} (a : Adv mf dia s s1 fix c') (h1 : 1 ≤ s.text.length)
    (hf : fix = true → 1 < s.text.length) : s1.text.head? = s.text.head? := by
  rw [a.text]
  cases fix with
  | false =>
    simp only [Bool.false_eq_true, if_false]
    cases ht : s.text with
    | nil => rw [ht] at h1; simp at h1
    | cons x t => rfl
  | true =>
    have := hf rfl
    simp only [if_true]
    cases ht : s.text with
    | nil => rw [ht] at h1; simp at h1
    | cons x t =>
      cases t with
      | nil => rw [ht] at this; simp at this
      | cons y t' => rfl

theorem scanTextB_sim (dia : Dialect) (mf L0 : Nat) : ∀ (fuel : Nat) (s : BS) (top : Nat) (lead : Bool) (sol : Nat),
    Good mf s → top = s.sb.limit → s.sb.tvalueOffset = 0 → 1 ≤ s.text.length → (lead = true → 1 < s.text.length) →
    (sol ≠ 0 → 1 < s.text.length) → s.text.head? ≠ some 13 →
    s.measure < fuel → s.text.length + s.remaining.length = L0 →
    Sim (Out mf L0 false) (scanTextB dia mf fuel s top lead sol)
      (scanText dia s.remaining s.line s.col lead (racc 1 s) sol) := by
  intro fuel
  induction fuel with
  | zero => intro s top lead sol g ht h0 h1 hl hsol hhd hm hL; omega
  | succ fuel ih =>
    intro s top lead sol g ht h0 h1 hl hsol hhd hm hL
    subst ht
    unfold scanTextB
    by_cases hlt : s.sb.next < s.sb.limit
    · rw [if_pos hlt, remaining_cons mf s g hlt]
      simp only [scanText, bind_eq, pure_eq]
      apply scanU_sim mf dia s lead 1 g hlt h1 hl
      intro u hfl a hr
      have hrem : (s.remaining).tail = (stepU dia s u).remaining := by rw [a.rem]; rfl
      have hgo : ∀ l' c' sol', Sim (Out mf L0 false)
          (scanTextB dia mf fuel { stepU dia s u with line := l', col := c' } s.sb.limit u.lead sol')
          (scanText dia (s.remaining).tail l' c' u.lead (u.c :: fixAcc dia u.fixPrev (racc 1 s)) sol') := by
        intro l' c' sol'
        have a' : Adv mf dia s { stepU dia s u with line := l', col := c' } u.fixPrev u.c := a.congr rfl rfl rfl
        have hr' : racc 1 { stepU dia s u with line := l', col := c' } = u.c :: fixAcc dia u.fixPrev (racc 1 s) := hr
        have hrem' : (s.remaining).tail = ({ stepU dia s u with line := l', col := c' } : BS).remaining := hrem
        have hfx : u.fixPrev = true → 1 < s.text.length := fun h => hl (hfl h)
        have := ih { stepU dia s u with line := l', col := c' } s.sb.limit u.lead sol' a'.good a'.limit.symm (by rw [a'.tvoff, h0])
          (by rw [a'.tlen g]; omega) (fun _ => by rw [a'.tlen g]; omega) (fun _ => by rw [a'.tlen g]; omega)
          (by rw [a'.head h1 hfx]; exact hhd)
          (by have := a'.measure; omega) (by rw [a'.sum g, hL])
        rw [hr', ← hrem'] at this
        exact this
      by_cases hsemi : classOf dia u.c = .semi
      · simp only [hsemi, if_true]
        by_cases hs0 : sol ≠ 0
        · simp only [hs0, ne_eq, not_false_eq_true, if_true]
          apply sim_pure
          have hlen3 : 3 ≤ (stepU dia s u).text.length := by rw [a.tlen g]; have := hsol hs0; omega
          have hfx : u.fixPrev = true → 1 < s.text.length := fun _ => hsol hs0
          have hds := dsize_eq mf (stepU dia s u) a.good hlen3 (by rw [a.head h1 hfx]; exact hhd)
          rw [hr] at hds
          have o := fun d => out_endDelim mf L0 (stepU dia s u) 1 d a.good (by rw [a.tvoff, h0]) (by rw [a.tlen g]; omega) (by rw [a.sum g, hL]) (fun h => by simp at h)
          by_cases hcond : (stepU dia s u).get ((stepU dia s u).sb.next - 2) = 10 ∧ (stepU dia s u).get ((stepU dia s u).sb.next - 3) = 13
          · rw [if_pos hcond, if_pos (hds.mp hcond)]
            have := o 3
            rw [hr, ← hrem, stepU_col, stepU_line] at this
            exact this
          · rw [if_neg hcond, if_neg (fun h => hcond (hds.mpr h))]
            have := o 2
            rw [hr, ← hrem, stepU_col, stepU_line] at this
            exact this
        · simp only [hs0, if_false]
          have := hgo s.line u.col sol
          rw [← stepU_line dia s u, ← stepU_col dia s u]
          rw [← stepU_line dia s u, ← stepU_col dia s u] at this
          exact this
      · simp only [hsemi, if_false]
        by_cases he : classOf dia u.c = .eol
        · simp only [he, if_true]
          rw [handleEolB_eq, L.bind_assoc]
          show Sim _ (L.bind (handleEol (stepU dia s u).line ((stepU dia s u).col - 1) sol u.c) _) _
          rw [stepU_line, stepU_col]
          apply sim_bind_same
          intro x
          obtain ⟨l', c', s'⟩ := x
          simp only [L.pure_bind]
          exact hgo l' c' s'
        · simp only [he, if_false]
          have := hgo s.line u.col 0
          rw [← stepU_line dia s u, ← stepU_col dia s u]
          rw [← stepU_line dia s u, ← stepU_col dia s u] at this
          exact this
    · rw [if_neg hlt]
      have hnl : s.sb.next = s.sb.limit := by have := g.inv.2.2.1; omega
      have hs := getMore_spec mf s g hnl
      have hrc : racc 1 (getMore mf s).2 = racc 1 s := by unfold racc; rw [hs.2.1]
      show Sim _ (if (getMore mf s).1 = true then _ else _) _
      cases hb : (getMore mf s).1
      · rw [if_neg (by simp)]
        have hr := (hs.2.2.2.2.2.2.2.2.1 hb).1
        rw [hr]
        simp only [scanText, bind_eq, pure_eq]
        have hu := unpairedLeadB_sim mf dia (getMore mf s).2 lead 1 hs.1 (by rw [hs.2.1]; exact h1) (by rw [hs.2.1]; exact hl)
        rw [hrc, hs.2.2.2.1, hs.2.2.2.2.1] at hu
        apply sim_bind hu
        intro s' acc' ⟨g', e1, e2, e3, e4, e5, e6, e7, e8⟩
        rw [e3, e4]
        apply sim_bind_same
        intro _
        apply sim_pure
        have o := out_endDelim mf L0 s' 1 0 g' (by rw [e5, hs.2.2.1, h0]) (by rw [e6, hs.2.1]; exact h1)
          (by rw [e6, e2, hs.2.1, hs.2.2.2.2.2.2.2.1, hL]) (fun h => by simp at h)
        subst e1
        rw [e2.trans (hs.2.2.2.2.2.2.2.1.trans hr), e3, e4] at o
        exact o
      · rw [if_pos rfl]
        have := ih (getMore mf s).2 (getMore mf s).2.sb.limit lead sol hs.1 rfl (by rw [hs.2.2.1, h0]) (by rw [hs.2.1]; exact h1)
          (by rw [hs.2.1]; exact hl) (by rw [hs.2.1]; exact hsol) (by rw [hs.2.1]; exact hhd)
          (by simp only [BS.measure, hs.2.2.2.2.2.2.2.1] at hm ⊢; have := (hs.2.2.2.2.2.2.2.2.2 hb).2; omega)
          (by rw [hs.2.1, hs.2.2.2.2.2.2.2.1, hL])
        rw [hs.2.2.2.2.2.2.2.1, hs.2.2.2.1, hs.2.2.2.2.1, hrc] at this
        exact this

/-! ### scan_delim_string -/

/-- `*(text_start)` is the first unit of the token text -/
theorem get_first (mf : Nat) (s : BS) (g : Good mf s) (h : 1 ≤ s.text.length) : s.text.head? = some (s.get s.sb.textStart) := by
  obtain ⟨i1, i2, i3, i4, i5⟩ := g.inv
  have hlen := g.text_length
  simp only [BS.get, BS.text, SB.tokenText] at *
  rw [List.head?_eq_getElem?, List.getD_eq_getElem?_getD]
  grind

theorem Same.racc {mf : Nat} {s s1 : BS} (h : Same mf s s1) (k : Nat) : racc k s1 = racc k s := by
  unfold BufScan.racc; rw [h.text]

theorem Same.sum {mf : Nat} {s s1 : BS} (h : Same mf s s1) :
    s1.text.length + s1.remaining.length = s.text.length + s.remaining.length := by rw [h.text, h.rem]

/-- `next_char += 1; POSN_INCCOLUMN(1)` over a buffered unit -/
theorem skipOne_adv (mf : Nat) (dia : Dialect) (s : BS) (g : Good mf s) (hn : s.sb.next < s.sb.limit) :
    Adv mf dia s (skipOne s) false (s.get s.sb.next) := (setNext_adv mf dia s g hn).congr rfl rfl rfl

theorem scanDelimB_sim (dia : Dialect) (mf L0 : Nat) (delim : CU) : ∀ (fuel : Nat) (s : BS) (top : Nat) (lead first : Bool),
    Good mf s → top = s.sb.limit → s.sb.tvalueOffset = 0 → 1 ≤ s.text.length → (lead = true → 1 < s.text.length) →
    (first = true ↔ s.text.length = 1) → s.text.head? = some delim →
    s.measure < fuel → s.text.length + s.remaining.length = L0 →
    Sim (Out mf L0 false) (scanDelimB dia mf delim fuel s top lead)
      (scanDelim dia delim s.remaining s.line s.col lead (racc 1 s) first) := by
  intro fuel
  induction fuel with
  | zero => intro s top lead first g ht h0 h1 hl hfirst hhd hm hL; omega
  | succ fuel ih =>
    intro s top lead first g ht h0 h1 hl hfirst hhd hm hL
    subst ht
    unfold scanDelimB
    by_cases hlt : s.sb.next < s.sb.limit
    · rw [if_pos hlt, remaining_cons mf s g hlt]
      simp only [scanDelim, bind_eq, pure_eq]
      apply scanU_sim mf dia s lead 1 g hlt h1 hl
      intro u hfl a hr
      have hrem : (s.remaining).tail = (stepU dia s u).remaining := by rw [a.rem]; rfl
      have hfx : u.fixPrev = true → 1 < s.text.length := fun h => hl (hfl h)
      have hgo : ∀ (s2 : BS), Same mf (stepU dia s u) s2 → Sim (Out mf L0 false)
          (scanDelimB dia mf delim fuel s2 s2.sb.limit u.lead)
          (scanDelim dia delim (s.remaining).tail s.line u.col u.lead (u.c :: fixAcc dia u.fixPrev (racc 1 s)) false) := by
        intro s2 sm
        have := ih s2 s2.sb.limit u.lead false sm.good rfl (by rw [sm.tvoff, a.tvoff, h0])
          (by rw [sm.text, a.tlen g]; omega) (fun _ => by rw [sm.text, a.tlen g]; omega)
          (by rw [sm.text, a.tlen g]; constructor
              · intro h; simp at h
              · intro h; omega)
          (by rw [sm.text, a.head h1 hfx]; exact hhd)
          (by have := a.measure; have := sm.measure; omega) (by rw [sm.sum, a.sum g, hL])
        rw [sm.racc, hr, sm.rem, ← hrem, sm.line, sm.col, stepU_col, stepU_line] at this
        exact this
      by_cases hd : u.c = delim
      · simp only [hd, if_true]
        have pk := peekChar_spec mf (stepU dia s u) a.good
        have sm := pk.1
        have hclose : Out mf L0 false (endDelim (peekChar mf (stepU dia s u)).2 1 1)
            ⟨fixAcc dia u.fixPrev (racc 1 s), ⟨(s.remaining).tail, s.line, u.col⟩⟩ := by
          have o := out_endDelim mf L0 (peekChar mf (stepU dia s u)).2 1 1 sm.good (by rw [sm.tvoff, a.tvoff, h0])
            (by rw [sm.text, a.tlen g]; omega) (by rw [sm.sum, a.sum g, hL]) (fun h => by simp at h)
          rw [sm.racc, hr, sm.rem, ← hrem, sm.line, sm.col, stepU_col, stepU_line] at o
          exact o
        cases hp : (peekChar mf (stepU dia s u)).1 with
        | none =>
          have hnil := pk.2.1 hp
          rw [← hrem] at hnil
          simp only [hnil]
          apply sim_pure
          have := hclose
          rw [hnil] at this
          exact this
        | some d =>
          have hp2 := pk.2.2 d hp
          have hrc := remaining_cons mf _ sm.good hp2.1
          rw [sm.rem, ← hrem, ← hp2.2] at hrc
          rw [hrc]
          simp only []
          by_cases hv : dia = .cif1
          · simp only [hv, if_true]
            by_cases hws : metaOf Dialect.cif1 d ≠ .ws
            · simp only [hws, ne_eq, not_false_eq_true, if_true]
              have := hgo _ sm
              rw [hrc, hv, hd] at this
              exact this
            · simp only [hws, if_false]
              apply sim_pure
              have := hclose
              rw [hrc, hv] at this
              exact this
          · simp only [hv, if_false]
            have htl : (peekChar mf (stepU dia s u)).2.sb.next - (peekChar mf (stepU dia s u)).2.sb.textStart = s.text.length + 1 := by
              rw [← sm.good.text_length, sm.text, a.tlen g]
            by_cases htr : (peekChar mf (stepU dia s u)).2.sb.next - (peekChar mf (stepU dia s u)).2.sb.textStart = 2 ∧ d = delim
            · have hf1 : first = true := hfirst.mpr (by omega)
              rw [if_pos htr]
              simp only [hf1, htr.2, beq_self_eq_true, Bool.and_self, if_true]
              have ad := skipOne_adv mf dia _ sm.good hp2.1
              have hdel : (peekChar mf (stepU dia s u)).2.get (peekChar mf (stepU dia s u)).2.sb.textStart = delim := by
                have h1' := get_first mf _ sm.good (by rw [sm.text, a.tlen g]; omega)
                rw [sm.text, a.head h1 hfx, hhd] at h1'
                exact (Option.some.inj h1').symm
              rw [hdel]
              have t3 : (skipOne (peekChar mf (stepU dia s u)).2).text.length = 3 := by
                rw [ad.tlen sm.good, sm.text, a.tlen g]; omega
              have := scanTripleB_sim dia mf L0 delim fuel (skipOne (peekChar mf (stepU dia s u)).2) _ false 0 0 ad.good rfl
                (by rw [ad.tvoff, sm.tvoff, a.tvoff, h0]) (by omega) (fun h => by simp at h)
                (by have := a.measure; have := sm.measure; have := ad.measure; omega)
                (by rw [ad.sum sm.good, sm.sum, a.sum g, hL])
              have hr3 : racc 3 (skipOne (peekChar mf (stepU dia s u)).2) = [] := by
                unfold racc
                rw [List.drop_of_length_le (by omega)]; rfl
              have hrm : (skipOne (peekChar mf (stepU dia s u)).2).remaining = ((s.remaining).tail).tail := by
                have := ad.rem
                rw [sm.rem, ← hrem, hrc] at this
                rw [hrc]
                exact (List.cons.inj this).2.symm
              rw [hr3, hrm] at this
              have hl2 : (skipOne (peekChar mf (stepU dia s u)).2).line = s.line := by
                show (peekChar mf (stepU dia s u)).2.line = s.line
                rw [sm.line, stepU_line]
              have hc2 : (skipOne (peekChar mf (stepU dia s u)).2).col = u.col + 1 := by
                show (peekChar mf (stepU dia s u)).2.col + 1 = u.col + 1
                rw [sm.col, stepU_col]
              rw [hl2, hc2, hrc] at this
              exact this
            · rw [if_neg htr]
              have : (first && d == delim) = false := by
                cases hf : first with
                | false => rfl
                | true =>
                  have := hfirst.mp hf
                  have hdd : d ≠ delim := fun h => htr ⟨by omega, h⟩
                  simp [hdd]
              simp only [this, Bool.false_eq_true, if_false]
              apply sim_pure
              have := hclose
              rw [hrc] at this
              exact this
      · simp only [hd, if_false]
        by_cases he : classOf dia u.c = .eol
        · simp only [he, if_true]
          have b := adv_backUp a g 1 h1
          rw [b.2.2.2.1, b.2.2.2.2.1, stepU_line, stepU_col]
          apply sim_bind_same
          intro _
          apply sim_pure
          have o := out_endDelim mf L0 (backUp (stepU dia s u)) 1 0 b.1 (by rw [b.2.2.2.2.2.1, h0]) (by rw [b.2.2.2.2.2.2.1]; exact h1)
            (by rw [b.2.2.2.2.2.2.2, hL]) (fun h => by simp at h)
          rw [b.2.1, hr, b.2.2.1, b.2.2.2.1, b.2.2.2.2.1, stepU_col, stepU_line, ← hrem] at o
          exact o
        · simp only [he, if_false]
          have := hgo _ (Same.refl a.good)
          rw [a.limit] at this
          exact this
    · rw [if_neg hlt]
      have hnl : s.sb.next = s.sb.limit := by have := g.inv.2.2.1; omega
      have hs := getMore_spec mf s g hnl
      have hrc : racc 1 (getMore mf s).2 = racc 1 s := by unfold racc; rw [hs.2.1]
      show Sim _ (if (getMore mf s).1 = true then _ else _) _
      cases hb : (getMore mf s).1
      · rw [if_neg (by simp)]
        have hr := (hs.2.2.2.2.2.2.2.2.1 hb).1
        rw [hr]
        simp only [scanDelim, bind_eq, pure_eq]
        have hu := unpairedLeadB_sim mf dia (getMore mf s).2 lead 1 hs.1 (by rw [hs.2.1]; exact h1) (by rw [hs.2.1]; exact hl)
        rw [hrc, hs.2.2.2.1, hs.2.2.2.2.1] at hu
        apply sim_bind hu
        intro s' acc' ⟨g', e1, e2, e3, e4, e5, e6, e7, e8⟩
        rw [e3, e4]
        apply sim_bind_same
        intro _
        apply sim_pure
        have o := out_endDelim mf L0 s' 1 0 g' (by rw [e5, hs.2.2.1, h0]) (by rw [e6, hs.2.1]; exact h1)
          (by rw [e6, e2, hs.2.1, hs.2.2.2.2.2.2.2.1, hL]) (fun h => by simp at h)
        subst e1
        rw [e2.trans (hs.2.2.2.2.2.2.2.1.trans hr), e3, e4] at o
        exact o
      · rw [if_pos rfl]
        have := ih (getMore mf s).2 (getMore mf s).2.sb.limit lead first hs.1 rfl (by rw [hs.2.2.1, h0]) (by rw [hs.2.1]; exact h1)
          (by rw [hs.2.1]; exact hl) (by rw [hs.2.1]; exact hfirst) (by rw [hs.2.1]; exact hhd)
          (by simp only [BS.measure, hs.2.2.2.2.2.2.2.1] at hm ⊢; have := (hs.2.2.2.2.2.2.2.2.2 hb).2; omega)
          (by rw [hs.2.1, hs.2.2.2.2.2.2.2.1, hL])
        rw [hs.2.2.2.2.2.2.2.1, hs.2.2.2.1, hs.2.2.2.2.1, hrc] at this
        exact this
