import CifModel.Lemmas.StoreTotal
import CifModel.Spec.DataModel
/-
  Lemmas/StoreCodes — the result CODE of a call is the one the documented data model (Spec/DataModel) gives, success and every
  failure alike ("failure-code agreement").  The handle is assumed consistent with the store: it names a loop that exists, and its
  copy of the category is the stored one.
-/
namespace CifModel.Store
open Gen.ErrCodes

/-- the loop with a given key is found by the key lookup (unique keys) -/
theorem find_loop_of_mem (d : Db) (h : Inv d) (x : LoopRow) (hx : x ∈ d.loops) :
    d.loops.find? (fun l => l.cid == x.cid && l.loopNum == x.loopNum) = some x := by
  cases hf : d.loops.find? (fun l => l.cid == x.cid && l.loopNum == x.loopNum) with
  | none =>
    have := List.find?_eq_none.mp hf x hx
    simp at this
  | some y =>
    have hm := List.mem_of_find?_eq_some hf
    have hk := List.find?_some hf
    simp at hk
    rw [loopKey_unique d.loops h.loopPK y hm x hx hk.1 hk.2]

/-- cif_loop_set_category: CIF_RESERVED_LOOP exactly when the documented model refuses (the loop is the scalar loop, or "" is asked
    for), CIF_OK otherwise — no other code -/
theorem setCategory_code (s : Store) (l : LH) (cat : Option Str) (x : LoopRow) (h : Inv s.db) (hx : x ∈ s.db.loops)
    (hk : x.cid = l.cid ∧ x.loopNum = l.loopNum) (hcat : l.category = x.category) :
    (setCategory s l cat).2.2 = ((absLoop s.db x).specSetCategory cat).map (fun _ => ()) := by
  unfold setCategory Loop.specSetCategory Loop.specIsScalar
  have hac : (absLoop s.db x).category = x.category := rfl
  rw [hac]
  have hfind := find_loop_of_mem s.db h x hx
  rw [hk.1, hk.2] at hfind
  cases hres : catReserved l cat with
  | true =>
    simp only [if_true]
    unfold catReserved at hres
    cases cat with
    | none =>
      simp only [] at hres
      rw [hcat] at hres
      simp [hres, Except.map]
    | some c =>
      simp only [Bool.or_eq_true] at hres
      rw [hcat] at hres
      by_cases hsc : (x.category == some []) = true
      · simp [hsc, Except.map]
      · rcases hres with hres | hres
        · have : c = [] := by simpa using hres
          subst this
          simp [hsc, Except.map]
        · exact absurd hres hsc
  | false =>
    simp only [Bool.false_eq_true, if_false]
    unfold catReserved at hres
    have hns : (x.category == some []) = false := by
      cases cat with
      | none => simp only [] at hres; rw [hcat] at hres; exact hres
      | some c => simp only [Bool.or_eq_false_iff] at hres; rw [hcat] at hres; exact hres.2
    have hne : (cat == some []) = false := by
      cases cat with
      | none => rfl
      | some c =>
        simp only [Bool.or_eq_false_iff] at hres
        cases c with
        | nil => simp at hres
        | cons a b => rfl
    unfold Db.setCategory
    rw [hfind]
    simp [hne, hns, Except.map]

theorem specHasItem_absLoop (norm : Str → Str) (d : Db) (y : LoopRow) (hn : ItemsNormOK norm d) (key : Str) :
    (absLoop d y).specHasItem norm key = (d.loopItems y.cid y.loopNum).any (fun i => i.name == key) := by
  show ((d.loopItems y.cid y.loopNum).map (·.nameOrig)).any (fun n => norm n == key) = _
  rw [List.any_map]
  apply Bool.eq_iff_iff.mpr
  simp only [List.any_eq_true, Function.comp]
  constructor
  · rintro ⟨i, hi, hik⟩; exact ⟨i, hi, by rw [hn i (List.mem_filter.mp hi).1]; exact hik⟩
  · rintro ⟨i, hi, hik⟩; exact ⟨i, hi, by rw [← hn i (List.mem_filter.mp hi).1]; exact hik⟩

/-- cif_container_remove_item, valid name, no transaction open: CIF_NOSUCH_ITEM exactly when the documented model has no loop of the
    container with the item; CIF_OK otherwise — no other code -/
theorem removeItem_code (norm : Str → Str) (s : Store) (hd : CH) (n : Name) (code : Str) (fs : List Container) (h : Inv s.db)
    (hv : n.valid = true) (hac : s.autocommit = true) (hn : ItemsNormOK norm s.db) :
    (removeItem s hd (some n)).2 = ((Container.mk code fs (absLoops s.db hd.id)).specRemoveItem norm n.key).map (fun _ => ()) := by
  -- the documented model has the item iff loop_item has the row
  have hiff : (absLoops s.db hd.id).any (fun l => l.specHasItem norm n.key) = s.db.hasItem hd.id n.key := by
    apply Bool.eq_iff_iff.mpr
    unfold absLoops
    rw [List.any_map]
    simp only [List.any_eq_true, Function.comp]
    constructor
    · rintro ⟨y, hy, hhas⟩
      rw [specHasItem_absLoop norm s.db y hn] at hhas
      obtain ⟨i, hi, hik⟩ := List.any_eq_true.mp hhas
      obtain ⟨him, hic⟩ := List.mem_filter.mp hi
      obtain ⟨_, hyc⟩ := List.mem_filter.mp hy
      simp at hic hik hyc
      exact (hasItem_iff _ _ _).mpr ⟨i, him, by rw [hic.1, hyc], hik⟩
    · intro hi
      obtain ⟨i, him, hic, hik⟩ := (hasItem_iff _ _ _).mp hi
      obtain ⟨y, hy, hyc, hyn⟩ := (hasLoop_iff _ _ _).mp (h.itemFK i him)
      refine ⟨y, List.mem_filter.mpr ⟨hy, by simp [hyc, hic]⟩, ?_⟩
      rw [specHasItem_absLoop norm s.db y hn]
      exact List.any_eq_true.mpr ⟨i, List.mem_filter.mpr ⟨him, by simp [hyc, hyn]⟩, by simp [hik]⟩
  unfold Container.specRemoveItem
  simp only []
  rw [hiff]
  unfold removeItem
  simp only [hv, Bool.not_true, Bool.false_eq_true, if_false]
  have hb : s.begin = some { s with txn := some s.db } := by unfold Store.begin; simp [hac]
  rw [hb]
  simp only []
  cases hi : s.db.hasItem hd.id n.key with
  | false =>
    have : s.db.loopSize hd.id n.key = none := by
      unfold Db.loopSize Db.loopOfItem
      have : s.db.items.find? (fun i => i.cid == hd.id && i.name == n.key) = none := by
        apply List.find?_eq_none.mpr
        intro i him hk
        simp at hk
        have := (hasItem_iff _ _ _).mpr ⟨i, him, hk.1, hk.2⟩
        rw [hi] at this; cases this
      rw [this]; rfl
    rw [this]
    simp [Except.map]
  | true =>
    obtain ⟨i, him, hic, hik⟩ := (hasItem_iff _ _ _).mp hi
    have : ∃ p, s.db.loopSize hd.id n.key = some p := by
      unfold Db.loopSize Db.loopOfItem
      cases hf : s.db.items.find? (fun i => i.cid == hd.id && i.name == n.key) with
      | none =>
        have := List.find?_eq_none.mp hf i him
        simp [hic, hik] at this
      | some j => exact ⟨_, rfl⟩
    obtain ⟨p, hp⟩ := this
    rw [hp]
    simp [Except.map]

/-- the entry loop of cif_loop_add_packet: CIF_WRONG_LOOP at the first entry that is not an item of the loop; no other failure when
    the entries of the loop's items find no value in the new row and the packet's keys are distinct (a packet is a map) -/
theorem addValues_code : ∀ (p : List (Str × V)) (d : Db) (cid ln row : Nat), 0 < row →
    (∀ e ∈ p, (d.loopItems cid ln).any (fun i => i.name == e.1) = true → d.hasValue cid e.1 row = false) →
    p.Pairwise (fun a b => a.1 ≠ b.1) →
    match addValues d cid ln row p with
    | .ok _ => p.any (fun e => !(d.loopItems cid ln).any (fun i => i.name == e.1)) = false
    | .error c => c = CIF_WRONG_LOOP ∧ p.any (fun e => !(d.loopItems cid ln).any (fun i => i.name == e.1)) = true
  | [], d, cid, ln, row, _, _, _ => by simp [addValues]
  | (k, v) :: es, d, cid, ln, row, hpos, hfree, hnd => by
    unfold addValues
    cases hin : (d.loopItems cid ln).any (fun i => i.name == k) with
    | false => simp [hin]
    | true =>
      simp only [Bool.not_true, Bool.false_eq_true, if_false]
      have hv : d.hasValue cid k row = false := hfree (k, v) List.mem_cons_self hin
      have hitem : d.hasItem cid k = true := by
        obtain ⟨i, hi, hik⟩ := List.any_eq_true.mp hin
        obtain ⟨him, hic⟩ := List.mem_filter.mp hi
        simp at hic hik
        exact (hasItem_iff d _ _).mpr ⟨i, him, hic.1, hik⟩
      have hins : d.insertValue cid k row v = some { d with values := d.values ++ [{ cid := cid, name := k, rowNum := row, val := v }] } := by
        unfold Db.insertValue
        have : (row == 0) = false := by cases row with | zero => omega | succ n => rfl
        simp [hv, this, hitem]
      rw [hins]
      simp only []
      rw [List.pairwise_cons] at hnd
      have ih := addValues_code es { d with values := d.values ++ [{ cid := cid, name := k, rowNum := row, val := v }] } cid ln row hpos
        (by
          intro e he hany
          have h0 := hfree e (List.mem_cons_of_mem _ he) hany
          have hne : k ≠ e.1 := hnd.1 e he
          show (d.values ++ [({ cid := cid, name := k, rowNum := row, val := v } : ValueRow)]).any
              (fun w => w.cid == cid && w.name == e.1 && w.rowNum == row) = false
          have h0' : d.values.any (fun w => w.cid == cid && w.name == e.1 && w.rowNum == row) = false := h0
          rw [List.any_append, h0']
          simp [hne])
        hnd.2
      have hsame : ∀ e : Str × V, (Db.loopItems { d with values := d.values ++ [{ cid := cid, name := k, rowNum := row, val := v }] } cid ln).any (fun i => i.name == e.1)
          = (d.loopItems cid ln).any (fun i => i.name == e.1) := fun _ => rfl
      simp only [List.any_cons, hin, Bool.not_true, Bool.false_or]
      exact ih


/-- cif_loop_add_packet after UPDATE_PACKET_NUM_SQL went through -/
theorem addPacket_tail (d d1 : Db) (l : LH) (pkt : List (Str × V)) (x : LoopRow) (h : Inv d) (hx : x ∈ d.loops)
    (hk : x.cid = l.cid ∧ x.loopNum = l.loopNum) (hrb : RowsBelow d l.cid l.loopNum) (hnd : pkt.Pairwise (fun a b => a.1 ≠ b.1))
    (hl : d1.loops = d.loops.map (fun y => if y.cid == l.cid && y.loopNum == l.loopNum then { y with lastRowNum := y.lastRowNum + 1 } else y))
    (hi : d1.items = d.items) (hv : d1.values = d.values) (L : Loop) :
    (match d1.lastRowNum l.cid l.loopNum with
      | none => (.error CIF_INTERNAL_ERROR : Except Code (Db × Unit))
      | some row => match addValues d1 l.cid l.loopNum row pkt with
        | .error c => .error c
        | .ok d2 => .ok (d2.fillPacket l.cid l.loopNum row, ())).map (fun _ => ()) =
    (if pkt.any (fun e => !(d.loopItems l.cid l.loopNum).any (fun i => i.name == e.1)) then (.error CIF_WRONG_LOOP : Except Code Loop)
     else .ok L).map (fun _ => ()) := by
  have hfind := find_loop_of_mem d h x hx
  rw [hk.1, hk.2] at hfind
  have hlast : d1.lastRowNum l.cid l.loopNum = some (x.lastRowNum + 1) := by
    unfold Db.lastRowNum
    rw [hl, List.find?_map]
    have : ((fun y : LoopRow => y.cid == l.cid && y.loopNum == l.loopNum) ∘
        (fun y : LoopRow => if y.cid == l.cid && y.loopNum == l.loopNum then { y with lastRowNum := y.lastRowNum + 1 } else y)) =
        (fun y : LoopRow => y.cid == l.cid && y.loopNum == l.loopNum) := by
      funext y; simp only [Function.comp]; split <;> rfl
    rw [this, hfind]
    simp [hk.1, hk.2]
  rw [hlast]
  simp only []
  have hitems : d1.loopItems l.cid l.loopNum = d.loopItems l.cid l.loopNum := by simp only [Db.loopItems, hi]
  have hcode := addValues_code pkt d1 l.cid l.loopNum (x.lastRowNum + 1) (by omega)
    (by
      intro e _ hany
      rw [hitems] at hany
      cases hh : d1.hasValue l.cid e.1 (x.lastRowNum + 1) with
      | false => rfl
      | true =>
        exfalso
        obtain ⟨w, hw, e1, e2, e3⟩ := (hasValue_iff d1 _ _ _).mp hh
        rw [hv] at hw
        have := hrb x hx hk.1 hk.2 w hw e1 (by rw [e2]; exact hany)
        omega)
    hnd
  rw [hitems] at hcode
  cases hav : addValues d1 l.cid l.loopNum (x.lastRowNum + 1) pkt with
  | ok d2 => rw [hav] at hcode; simp only [] at hcode; rw [hcode]; rfl
  | error c => rw [hav] at hcode; simp only [] at hcode; rw [hcode.2, hcode.1]; rfl

/-- the code of cif_loop_add_packet in terms of the tables: CIF_RESERVED_LOOP for the scalar loop that has its packet,
    CIF_WRONG_LOOP for an entry that is not an item of the loop, CIF_OK otherwise -/
theorem addPacketBody_codeK (d : Db) (l : LH) (pkt : List (Str × V)) (x : LoopRow) (h : Inv d) (hx : x ∈ d.loops)
    (hk : x.cid = l.cid ∧ x.loopNum = l.loopNum) (hrb : RowsBelow d l.cid l.loopNum)
    (hsc : x.category = some [] → (1 ≤ x.lastRowNum ↔ d.loopRows x.cid x.loopNum ≠ []))
    (hnd : pkt.Pairwise (fun a b => a.1 ≠ b.1)) :
    (addPacketBody l pkt d).map (fun _ => ()) =
      if x.category == some [] && !(d.loopRows x.cid x.loopNum).isEmpty then .error CIF_RESERVED_LOOP
      else if pkt.any (fun e => !(d.loopItems l.cid l.loopNum).any (fun i => i.name == e.1)) then .error CIF_WRONG_LOOP
      else .ok () := by
  have hbump : d.loops.any (fun l' => l'.cid == l.cid && l'.loopNum == l.loopNum && l'.category == some [] && decide (l'.lastRowNum + 1 > 1)) =
      (x.category == some [] && decide (1 ≤ x.lastRowNum)) := by
    apply Bool.eq_iff_iff.mpr
    constructor
    · intro ha
      obtain ⟨y, hy, hyk⟩ := List.any_eq_true.mp ha
      simp only [Bool.and_eq_true, beq_iff_eq, decide_eq_true_eq] at hyk
      have : y = x := loopKey_unique d.loops h.loopPK y hy x hx (by rw [hyk.1.1.1, hk.1]) (by rw [hyk.1.1.2, hk.2])
      subst this
      simp only [Bool.and_eq_true, beq_iff_eq, decide_eq_true_eq]
      exact ⟨hyk.1.2, by omega⟩
    · intro ha
      simp only [Bool.and_eq_true, beq_iff_eq, decide_eq_true_eq] at ha
      refine List.any_eq_true.mpr ⟨x, hx, ?_⟩
      simp only [Bool.and_eq_true, beq_iff_eq, decide_eq_true_eq]
      exact ⟨⟨⟨hk.1, hk.2⟩, ha.1⟩, by omega⟩
  have tail := addPacket_tail d { d with loops := d.loops.map (fun y => if y.cid == l.cid && y.loopNum == l.loopNum then { y with lastRowNum := y.lastRowNum + 1 } else y) } l pkt x h hx hk hrb hnd rfl rfl rfl default
  have tail' : ∀ b : Bool, ((if b = true then (.error CIF_WRONG_LOOP : Except Code Loop) else .ok default).map (fun _ => ())) =
      (if b = true then (.error CIF_WRONG_LOOP : Except Code Unit) else .ok ()) := by intro b; cases b <;> rfl
  rw [tail'] at tail
  unfold addPacketBody Db.bumpRowNum
  rw [hbump]
  by_cases hscal : x.category = some []
  · have hb : (x.category == some []) = true := by simpa using hscal
    by_cases hrow : 1 ≤ x.lastRowNum
    · have hne' := (hsc hscal).mp hrow
      have : (d.loopRows x.cid x.loopNum).isEmpty = false := by
        cases hr : d.loopRows x.cid x.loopNum with
        | nil => exact absurd hr hne'
        | cons a b => rfl
      simp [hb, hrow, this, Except.map, msgMultiScalar, multipleScalarMessage]
    · have hnr : d.loopRows x.cid x.loopNum = [] := by
        cases hr : d.loopRows x.cid x.loopNum with
        | nil => rfl
        | cons a b => exact absurd ((hsc hscal).mpr (by rw [hr]; exact List.cons_ne_nil _ _)) hrow
      simp only [hb, hrow, decide_false, Bool.and_false, Bool.false_eq_true, if_false, hnr, List.isEmpty_nil, Bool.not_true]
      exact tail
  · have hb : (x.category == some []) = false := by simpa using hscal
    simp only [hb, Bool.false_and, Bool.false_eq_true, if_false]
    exact tail

/-- cif_loop_add_packet: the code is the documented model's — CIF_INVALID_PACKET for the empty packet, CIF_RESERVED_LOOP for the
    scalar loop that has its packet, CIF_WRONG_LOOP for an entry that is not an item of the loop, CIF_OK otherwise; no other code.
    Hypotheses beyond `Inv`: the handle names an existing loop; `RowsBelow`; for the scalar loop, last_row_num counts its packet;
    the packet's keys are distinct (a packet is a map); item names are stored normalised. -/
theorem addPacketBody_code (norm : Str → Str) (d : Db) (l : LH) (pkt : List (Str × V)) (x : LoopRow) (h : Inv d) (hx : x ∈ d.loops)
    (hk : x.cid = l.cid ∧ x.loopNum = l.loopNum) (hrb : RowsBelow d l.cid l.loopNum)
    (hsc : x.category = some [] → (1 ≤ x.lastRowNum ↔ d.loopRows x.cid x.loopNum ≠ []))
    (hnd : pkt.Pairwise (fun a b => a.1 ≠ b.1)) (hn : ItemsNormOK norm d) (hne : pkt ≠ []) :
    (addPacketBody l pkt d).map (fun _ => ()) = ((absLoop d x).specAddPacket norm pkt).map (fun _ => ()) := by
  have hfind := find_loop_of_mem d h x hx
  rw [hk.1, hk.2] at hfind
  -- the documented model's view of "is an item of the loop"
  have hhas : ∀ key : Str, (absLoop d x).specHasItem norm key = (d.loopItems l.cid l.loopNum).any (fun i => i.name == key) := by
    intro key
    show ((d.loopItems x.cid x.loopNum).map (·.nameOrig)).any (fun n => norm n == key) = _
    rw [hk.1, hk.2, List.any_map]
    apply Bool.eq_iff_iff.mpr
    simp only [List.any_eq_true, Function.comp]
    constructor
    · rintro ⟨i, hi, hik⟩; exact ⟨i, hi, by rw [hn i (List.mem_filter.mp hi).1]; exact hik⟩
    · rintro ⟨i, hi, hik⟩; exact ⟨i, hi, by rw [← hn i (List.mem_filter.mp hi).1]; exact hik⟩
  have hpk : (absLoop d x).packets.isEmpty = (d.loopRows x.cid x.loopNum).isEmpty := by
    show ((d.loopRows x.cid x.loopNum).map _).isEmpty = _
    cases d.loopRows x.cid x.loopNum <;> rfl
  have hempty : pkt.isEmpty = false := by cases pkt with | nil => exact absurd rfl hne | cons a b => rfl
  unfold Loop.specAddPacket Loop.specIsScalar
  simp only [hempty, Bool.false_eq_true, if_false]
  have hac : (absLoop d x).category = x.category := rfl
  rw [hac, hpk]
  -- the trigger of UPDATE_PACKET_NUM fires exactly for the scalar loop that has a packet
  have hbump : d.loops.any (fun l' => l'.cid == l.cid && l'.loopNum == l.loopNum && l'.category == some [] && decide (l'.lastRowNum + 1 > 1)) =
      (x.category == some [] && decide (1 ≤ x.lastRowNum)) := by
    apply Bool.eq_iff_iff.mpr
    constructor
    · intro ha
      obtain ⟨y, hy, hyk⟩ := List.any_eq_true.mp ha
      simp only [Bool.and_eq_true, beq_iff_eq, decide_eq_true_eq] at hyk
      have : y = x := loopKey_unique d.loops h.loopPK y hy x hx (by rw [hyk.1.1.1, hk.1]) (by rw [hyk.1.1.2, hk.2])
      subst this
      simp only [Bool.and_eq_true, beq_iff_eq, decide_eq_true_eq]
      exact ⟨hyk.1.2, by omega⟩
    · intro ha
      simp only [Bool.and_eq_true, beq_iff_eq, decide_eq_true_eq] at ha
      refine List.any_eq_true.mpr ⟨x, hx, ?_⟩
      simp only [Bool.and_eq_true, beq_iff_eq, decide_eq_true_eq]
      exact ⟨⟨⟨hk.1, hk.2⟩, ha.1⟩, by omega⟩
  unfold addPacketBody Db.bumpRowNum
  rw [hbump]
  by_cases hscal : x.category = some []
  · have hb : (x.category == some []) = true := by simpa using hscal
    by_cases hrow : 1 ≤ x.lastRowNum
    · have hne' := (hsc hscal).mp hrow
      have : (d.loopRows x.cid x.loopNum).isEmpty = false := by
        cases hr : d.loopRows x.cid x.loopNum with
        | nil => exact absurd hr hne'
        | cons a b => rfl
      simp [hb, hrow, this, Except.map, msgMultiScalar, multipleScalarMessage]
    · have hnr : d.loopRows x.cid x.loopNum = [] := by
        cases hr : d.loopRows x.cid x.loopNum with
        | nil => rfl
        | cons a b => exact absurd ((hsc hscal).mpr (by rw [hr]; exact List.cons_ne_nil _ _)) hrow
      simp only [hb, hrow, decide_false, Bool.and_false, Bool.false_eq_true, if_false, hnr, List.isEmpty_nil, Bool.not_true]
      have hfun : (fun e : Str × V => !(absLoop d x).specHasItem norm e.1) = (fun e : Str × V => !(d.loopItems l.cid l.loopNum).any (fun i => i.name == e.1)) := by
        funext e; rw [hhas]
      rw [hfun]
      exact addPacket_tail d { d with loops := d.loops.map (fun y => if y.cid == l.cid && y.loopNum == l.loopNum then { y with lastRowNum := y.lastRowNum + 1 } else y) } l pkt x h hx hk hrb hnd rfl rfl rfl _
  · have hb : (x.category == some []) = false := by simpa using hscal
    simp only [hb, Bool.false_and, Bool.false_eq_true, if_false]
    have hfun : (fun e : Str × V => !(absLoop d x).specHasItem norm e.1) = (fun e : Str × V => !(d.loopItems l.cid l.loopNum).any (fun i => i.name == e.1)) := by
      funext e; rw [hhas]
    rw [hfun]
    exact addPacket_tail d { d with loops := d.loops.map (fun y => if y.cid == l.cid && y.loopNum == l.loopNum then { y with lastRowNum := y.lastRowNum + 1 } else y) } l pkt x h hx hk hrb hnd rfl rfl rfl _

end CifModel.Store
