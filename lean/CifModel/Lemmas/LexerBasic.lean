import CifModel.Model.Lexer
import CifModel.Spec.Lexical
/-
  Lemmas/LexerBasic — the reporting monad, character facts (specification characters against the scanner's class
  tables), and SCAN_UCHAR on admissible code units.
-/
namespace CifModel.Model.Lexer
open CifModel CifModel.Model.Chars CifModel.Spec.Lexical

/-- `omega` does not look through the abbreviation `CU := Nat` in `@Eq CU c 9`; unfold it first -/
macro "omega_cu" : tactic => `(tactic| ((try simp only [CU] at *); omega))

/-! ### the monad -/

@[simp] theorem bind_eq {α β} (m : L α) (f : α → L β) : (m >>= f) = L.bind m f := rfl
@[simp] theorem pure_eq {α} (a : α) : (pure a : L α) = L.pure a := rfl
@[simp] theorem L.pure_apply {α} (a : α) (pol : Policy) (log : List Report) : L.pure a pol log = .ok a log := rfl
@[simp] theorem L.pure_bind {α β} (a : α) (f : α → L β) : L.bind (L.pure a) f = f a := rfl

theorem L.bind_ok {α β} {m : L α} {f : α → L β} {pol : Policy} {log log' : List Report} {a : α}
    (h : m pol log = .ok a log') : L.bind m f pol log = f a pol log' := by
  simp [L.bind, h]

theorem L.bind_abort {α β} {m : L α} {f : α → L β} {pol : Policy} {log log' : List Report} {rv : Int}
    (h : m pol log = .abort rv log') : L.bind m f pol log = .abort rv log' := by
  simp [L.bind, h]

@[simp] theorem reportIf_false (code : Code) (line col : Nat) : reportIf false code line col = L.pure () := rfl
@[simp] theorem reportIf_true (code : Code) (line col : Nat) : reportIf true code line col = report code line col := rfl

@[simp] theorem cif2_beq_cif1 : (Dialect.cif2 == Dialect.cif1) = false := rfl
@[simp] theorem cif1_beq_cif2 : (Dialect.cif1 == Dialect.cif2) = false := rfl
@[simp] theorem cif1_beq_cif1 : (Dialect.cif1 == Dialect.cif1) = true := rfl
@[simp] theorem cif2_beq_cif2 : (Dialect.cif2 == Dialect.cif2) = true := rfl

/-! ### specification characters against the class tables -/

/-- everything the scanner tests about one unit, for a unit the specification allows (surrogates excluded) -/
def bmpFacts (dia : Dialect) (c : Nat) : Bool :=
  !isTrail c && !isLead c && !disallowedBmp dia c && !(dia == .cif1 && decide (c > cif1MaxChar))
  && ((classOf dia c == .eol) == (c == 10))
  && ((classOf dia c == .ws) == isBlank c)
  && ((metaOf dia c == .ws) == isWs c)
  && (classOf dia c != .no)
  && ((classOf dia c == .semi) == (c == 59))
  && ((metaOf dia c == .open_) == (dia == .cif2 && (c == 91 || c == 123)))
  && ((metaOf dia c == .close) == (dia == .cif2 && (c == 93 || c == 125)))
  && (metaOf dia c != .no)
  && ((classOf dia c == .hash) == (c == 35))
  && ((classOf dia c == .undersc) == (c == 95))
  && ((classOf dia c == .quote) == (c == 34 || c == 39))

theorem bmpFacts_of_allowed (dia : Dialect) (c : Nat) (h : allowedBmp dia c = true) : bmpFacts dia c = true := by
  by_cases hc : c < 160
  · have key : ∀ d : Dialect, (List.range 160).all (fun c => !allowedBmp d c || bmpFacts d c) = true := by
      intro d; cases d <;> decide +kernel
    have := forall_lt_of_range_all (key dia) c hc
    simpa [h] using this
  · cases dia with
    | cif1 =>
      simp [allowedBmp] at h
      omega_cu
    | cif2 =>
      simp [allowedBmp] at h
      have hcls : classOf .cif2 c = .general := by simp [classOf, hc]
      have h1 : isTrail c = false := by simp [isTrail]; omega_cu
      have h2 : isLead c = false := by simp [isLead]; omega_cu
      have h3 : disallowedBmp .cif2 c = false := by
        simp [disallowedBmp, hc]; omega_cu
      have h4 : isWs c = false := by simp [isWs, isBlank, isEol]; omega_cu
      have h5 : isBlank c = false := by simp [isBlank]; omega_cu
      have h6 : (c == 10) = false := by simp; omega_cu
      have h7 : (c == 59) = false := by simp; omega_cu
      have h8 : (c == 91) = false ∧ (c == 123) = false ∧ (c == 93) = false ∧ (c == 125) = false := by
        refine ⟨?_, ?_, ?_, ?_⟩ <;> simp <;> omega_cu
      have h9 : (c == 35) = false ∧ (c == 95) = false ∧ (c == 34) = false ∧ (c == 39) = false := by
        refine ⟨?_, ?_, ?_, ?_⟩ <;> simp <;> omega_cu
      simp [bmpFacts, h1, h2, h3, hcls, metaOf, metaOfCls, h4, h5, h6, h7, h8, h9]

/-- a lead surrogate, as the CIF 2.0 scanner sees it -/
theorem lead_facts (c : Nat) (h : isLeadU c = true) :
    isTrail c = false ∧ isLead c = true ∧ disallowedBmp .cif2 c = false ∧ classOf .cif2 c = .general := by
  simp [isLeadU] at h
  have hc : ¬ c < 160 := by omega_cu
  refine ⟨?_, ?_, ?_, ?_⟩
  · simp [isTrail]; omega_cu
  · simp [isLead]; omega_cu
  · simp [disallowedBmp, hc]; omega_cu
  · simp [classOf, hc]

theorem trail_facts (c : Nat) (h : isTrailU c = true) : isTrail c = true ∧ classOf .cif2 c = .general := by
  simp [isTrailU] at h
  have hc : ¬ c < 160 := by omega_cu
  refine ⟨?_, ?_⟩
  · simp [isTrail]; omega_cu
  · simp [classOf, hc]

/-! ### SCAN_UCHAR on admissible units -/

theorem scanUChar_bmp (dia : Dialect) (c : Nat) (h : allowedBmp dia c = true) (line col prev : Nat) (pol : Policy)
    (log : List Report) : scanUChar dia line col prev c false pol log = .ok ⟨c, false, col + 1, false⟩ log := by
  have f := bmpFacts_of_allowed dia c h
  simp only [bmpFacts, Bool.and_eq_true, Bool.not_eq_true', beq_iff_eq, bne_iff_ne] at f
  obtain ⟨⟨⟨⟨⟨⟨⟨⟨⟨⟨⟨⟨⟨⟨f1, f2⟩, f3⟩, f4⟩, _⟩, _⟩, _⟩, _⟩, _⟩, _⟩, _⟩, _⟩, _⟩, _⟩, _⟩ := f
  simp [scanUChar, f1, f2, f3, f4]

theorem scanUChar_lead (c : Nat) (h : isLeadU c = true) (line col prev : Nat) (pol : Policy) (log : List Report) :
    scanUChar .cif2 line col prev c false pol log = .ok ⟨c, false, col + 1, true⟩ log := by
  obtain ⟨f1, f2, f3, _⟩ := lead_facts c h
  simp [scanUChar, f1, f2, f3]

theorem scanUChar_trail (l c : Nat) (hl : isLeadU l = true) (h : isTrailU c = true) (hn : nonCharPair l c = false)
    (line col : Nat) (pol : Policy) (log : List Report) :
    scanUChar .cif2 line col l c true pol log = .ok ⟨c, false, col, false⟩ log := by
  obtain ⟨f1, _⟩ := trail_facts c h
  have hcond : ((c / 2 == 0x6FFF) && (l / 1024 == 54 && l % 64 == 63)) = false := by
    simp [isLeadU] at hl
    simp [isTrailU] at h
    simp [nonCharPair] at hn
    by_cases h1 : l % 64 = 63
    · have : ¬ (c / 2 = 0x6FFF) := by omega_cu
      simp [this]
    · simp [h1]
  simp [scanUChar, f1, hcond]

end CifModel.Model.Lexer
