import CifModel.Lemmas.ParseCBCut
/-
  CifModel.Lemmas.ParseCBSub — for EVERY handler program the callbacks of the structural interpreter `xDoc` (hence, by
  `doc_x`, of the parse of a well-formed document) are, in order, callbacks of `docEvents`: directives only ever leave
  callbacks out.
-/
set_option linter.unusedSimpArgs false
set_option linter.unusedVariables false

namespace CifModel.Lemmas.ParseCB
open CifModel.ParseCB CifModel.Spec.Doc

/-- between `s` and `s'` callbacks were appended that form a sublist of `E` -/
def Sub (s s' : St) (E : List Ev) : Prop := ∃ l : List Ev, s'.log = l.reverse ++ s.log ∧ l.Sublist E

theorem Sub.same {s s' : St} (E : List Ev) (h : s'.log = s.log) : Sub s s' E := ⟨[], by simp [h], List.nil_sublist _⟩

theorem Sub.trans {s s1 s2 : St} {E1 E2 : List Ev} (h1 : Sub s s1 E1) (h2 : Sub s1 s2 E2) : Sub s s2 (E1 ++ E2) := by
  obtain ⟨l1, a1, b1⟩ := h1
  obtain ⟨l2, a2, b2⟩ := h2
  exact ⟨l1 ++ l2, by rw [a2, a1]; simp, List.Sublist.append b1 b2⟩

theorem Sub.mono {s s' : St} {E E' : List Ev} (h : Sub s s' E) (hE : E.Sublist E') : Sub s s' E' := by
  obtain ⟨l, a, b⟩ := h
  exact ⟨l, a, b.trans hE⟩

theorem Sub.one {s s' : St} (e : Ev) (h : s'.log = e :: s.log) : Sub s s' [e] := ⟨[e], by simp [h], List.Sublist.refl _⟩

theorem setSkip_log (s : St) (d : Option Int) : (setSkip s d).log = s.log := by cases d <;> rfl
theorem inc_log (s : St) : (inc s).log = s.log := by unfold inc; split <;> rfl

theorem site_log (p : Prog) (s : St) (e : Ev) (cur sib : Option Int) : (site p s e cur sib).2.log = e :: s.log := by
  unfold site
  split
  · rfl
  · split
    · simp [setSkip_log]
    · split
      · simp [setSkip_log]
      · rfl

theorem itemStep_sub (p : Prog) (nm : Str) (r : Int) (v : V) (s : St) : Sub s (itemStep p nm r v s).2 [.item nm v] := by
  unfold itemStep
  split
  · exact Sub.one _ (site_log ..)
  · exact Sub.same _ rfl

/-- the item callbacks of the values of a packet from column `col` on -/
def rowE (names : List Str) : Nat → List V → List Ev
  | _, [] => []
  | col, v :: vs => .item (names.getD col []) v :: rowE names (col + 1) vs

theorem xRow_sub (p : Prog) (names : List Str) : ∀ (vals : List V) (col : Nat) (s : St),
    Sub s (xRow p names col vals s).2 (rowE names col vals)
  | [], _, s => Sub.same _ rfl
  | v :: vs, col, s => by
    simp only [xRow, rowE]
    have h1 := itemStep_sub p (names.getD col []) OK v s
    split
    · exact Sub.trans h1 (xRow_sub p names vs (col + 1) _)
    · exact Sub.mono h1 (by simp)

theorem rowE_eq (names : List Str) : ∀ (vals : List V) (col : Nat), col + vals.length ≤ names.length →
    rowE names col vals = itemEvs (names.drop col) vals
  | [], _, _ => by simp [rowE, itemEvs]
  | v :: vs, col, h => by
    have hlt : col < names.length := by simp at h; omega
    have hdrop : names.drop col = names[col] :: names.drop (col + 1) := by rw [List.drop_eq_getElem_cons hlt]
    have hget : names.getD col [] = names[col] := by simp [List.getD, hlt]
    simp only [rowE, hget]
    rw [rowE_eq names vs (col + 1) (by simp at h ⊢; omega)]
    simp only [itemEvs]
    conv => rhs; rw [hdrop]
    simp only [List.zip_cons_cons, List.map_cons]

theorem pktStart_sub (p : Prog) (s : St) : Sub s (pktStartStep p s).2 [.pktStart] := by
  unfold pktStartStep
  split
  · exact Sub.same _ rfl
  · exact Sub.one _ (site_log ..)

theorem pktEnd_sub (p : Prog) (items : List (Str × V)) (s : St) : Sub s (pktEndStep p items s).2.1 [.pktEnd items] := by
  unfold pktEndStep
  split
  · exact Sub.same _ rfl
  · exact Sub.one _ (site_log ..)

def pktE (names : List Str) (pk : List V) : List Ev := .pktStart :: (rowE names 0 pk ++ [.pktEnd (List.zip names pk)])

theorem xPk_sub (p : Prog) (names : List Str) (pk : List V) (s : St) : Sub s (xPk p names 0 [] pk s).2.1 (pktE names pk) := by
  unfold xPk pktE
  simp only [if_true, List.nil_append]
  have h1 := pktStart_sub p s
  split
  · exact Sub.mono h1 (by simp)
  · have h2 := xRow_sub p names pk 0 (pktStartStep p s).2
    split
    · exact Sub.mono (Sub.trans h1 h2) (by simp)
    · have h3 := pktEnd_sub p (List.zip names pk) (xRow p names 0 pk (pktStartStep p s).2).2
      exact Sub.mono (Sub.trans (Sub.trans h1 h2) h3) (by simp)

theorem xPackets_sub (p : Prog) (loopH : Bool) (names : List Str) : ∀ (pks : List (List V)) (s : St) (acc : List (List V)),
    Sub s (xPackets p loopH names pks s acc).2.1 (pks.map (pktE names)).flatten
  | [], s, _ => Sub.same _ rfl
  | pk :: pks, s, acc => by
    simp only [xPackets, List.map_cons, List.flatten_cons]
    have h1 := xPk_sub p names pk s
    split
    · exact Sub.mono h1 (List.sublist_append_left _ _)
    · exact Sub.trans h1 (xPackets_sub p loopH names pks _ _)

theorem kHeader_sub : ∀ (names : List Str) (s : St), Sub s (kHeader names s) (names.map Ev.dataname)
  | [], s => Sub.same _ rfl
  | nm :: ns, s => by
    simp only [kHeader, List.map_cons]
    have h2 := fun s' => kHeader_sub ns s'
    split
    · exact Sub.trans (Sub.one (Ev.dataname nm) rfl : Sub s (note s (Ev.dataname nm)) [Ev.dataname nm]) (h2 _)
    · exact Sub.mono (h2 s) (by simp)

theorem kHeader_skip' (names : List Str) (s : St) : (kHeader names s).skip = s.skip := (kHeader_ns names s).2

theorem loopEnd_sub (p : Prog) (hd : Option (List Str)) (r : Int) (s : St) : Sub s (loopEndStep p hd r s).2 [.loopEnd hd] := by
  unfold loopEndStep
  split
  · exact Sub.same _ rfl
  · split
    · exact Sub.one _ (site_log ..)
    · exact Sub.same _ rfl

theorem pktE_eq (names : List Str) (pk : List V) (h : pk.length = names.length) : pktE names pk = pktEvs names pk := by
  unfold pktE pktEvs
  rw [rowE_eq names pk 0 (by simp [h])]
  simp

/-- a loop: what is delivered is a sublist of its callbacks (the handle of loop_end is the one the document owes) -/
theorem xLoop_sub (p : Prog) (storing : Bool) (names : List Str) (pks : List (List V)) (s : St)
    (hl : ∀ pk ∈ pks, pk.length = names.length) :
    Sub s (xLoop p storing names pks s).2.1 (loopEvs storing names pks) := by
  by_cases hsk : s.skip > 0
  · rw [xLoop_skipped p storing names pks s hsk]
    exact Sub.same _ rfl
  · have hinc : inc s = s := by unfold inc; simp [hsk]
    have hpk : (pks.map (pktE names)).flatten = (pks.map (pktEvs names)).flatten := by
      congr 1
      apply List.map_congr_left
      intro pk h
      exact pktE_eq names pk (hl pk h)
    unfold xLoop loopEvs
    rw [hinc]
    have hh := kHeader_sub names s
    have hks : (kHeader names s).skip ≤ 0 := by rw [kHeader_skip']; omega
    generalize kHeader names s = s1 at hh hks
    simp only [loopStartStep, hks, if_true]
    have hstart : Sub s1 (site p s1 (.loopStart names) (some 1) (some 2)).2 [.loopStart names] := Sub.one _ (site_log ..)
    rcases ans4 (p s1.n (.loopStart names)) with h | h | h | ⟨h1, h2, h3⟩
    · rw [site_cont p s1 _ _ _ h] at hstart ⊢
      simp only [h, decide_true, Bool.and_true, if_true]
      have hb := xPackets_sub p storing names pks (push s1 (.loopStart names)) []
      rw [hpk] at hb
      have he := loopEnd_sub p (if storing = true then some names else none)
        (xPackets p storing names pks (push s1 (.loopStart names)) []).1
        (xPackets p storing names pks (push s1 (.loopStart names)) []).2.1
      exact Sub.mono (Sub.trans hh (Sub.trans hstart (Sub.trans hb he))) (by simp)
    · rw [site_cur p s1 _ _ _ h] at hstart ⊢
      simp only [h, cur_ne_cont, decide_false, Bool.and_false, if_true, Bool.false_eq_true, if_false]
      rw [xPackets_skipped p false names pks _ [] (by simp)]
      have hle : (loopEndStep p none OK (setSkip (push s1 (.loopStart names)) (some 1))).2.log
          = (setSkip (push s1 (.loopStart names)) (some 1)).log := by
        unfold loopEndStep; simp
      exact Sub.mono (Sub.trans hh (Sub.trans hstart (Sub.same [] hle))) (by simp)
    · rw [site_sib p s1 _ _ _ h] at hstart ⊢
      simp only [h, sib_ne_cont, decide_false, Bool.and_false, if_true, Bool.false_eq_true, if_false]
      rw [xPackets_skipped p false names pks _ [] (by simp)]
      have hle : (loopEndStep p none OK (setSkip (push s1 (.loopStart names)) (some 2))).2.log
          = (setSkip (push s1 (.loopStart names)) (some 2)).log := by
        unfold loopEndStep; simp
      exact Sub.mono (Sub.trans hh (Sub.trans hstart (Sub.same [] hle))) (by simp)
    · rw [site_stop' p s1 _ _ _ h1 h2 h3] at hstart ⊢
      have hne : ¬ (p s1.n (Ev.loopStart names) = OK) := h1
      simp only [h1, hne, decide_false, Bool.and_false, Bool.false_eq_true, if_false]
      have hle : (loopEndStep p none (p s1.n (Ev.loopStart names)) (push s1 (.loopStart names))).2.log
          = (push s1 (.loopStart names)).log := by
        unfold loopEndStep
        have : ¬ (push s1 (Ev.loopStart names)).skip > 0 := by simpa using hks
        simp only [this, if_false, hne]
      exact Sub.mono (Sub.trans hh (Sub.trans hstart (Sub.same [] hle))) (by simp)


theorem contStart_sub (p : Prog) (cont isBlock : Bool) (code : Str) (s : St) :
    Sub s (contStartStep p cont isBlock code s).2
      [if isBlock then Ev.blockStart (if cont then some code else none) else Ev.frameStart (if cont then some code else none)] := by
  unfold contStartStep
  split
  · exact Sub.same _ (inc_log s)
  · exact Sub.one _ (site_log ..)

theorem containerEnd_sub (p : Prog) (cont isBlock : Bool) (code : Str) (r : Int) (s : St) (c : Content) :
    Sub s (containerEnd p cont isBlock code r s c).2.1
      [if isBlock then Ev.blockEnd (if cont then some code else none) else Ev.frameEnd (if cont then some code else none)] := by
  unfold containerEnd
  split
  · exact Sub.one _ (by rw [site_log, dec_log])
  · exact Sub.same _ (dec_log s)

/-- a container body and its two handlers, given the statement for the body -/
theorem xCont_sub (p : Prog) (storing isBlock : Bool) (code : Str) (body : List Elem) (s : St)
    (ih : ∀ s' c', Sub s' (xElems p storing body s' c').2.1 (elemsEvents storing body)) :
    Sub s (xCont p storing isBlock code body s).2.1
      ((if isBlock then Ev.blockStart (if storing then some code else none) else Ev.frameStart (if storing then some code else none))
        :: (elemsEvents storing body ++
          [if isBlock then Ev.blockEnd (if storing then some code else none) else Ev.frameEnd (if storing then some code else none)])) := by
  unfold xCont
  have h1 := contStart_sub p storing isBlock code s
  by_cases hst : (contStartStep p storing isBlock code s).1 ≠ OK
  · rw [if_pos hst]
    exact Sub.mono (Sub.trans h1 (containerEnd_sub p storing isBlock code _ _ _)) (by simp)
  · rw [if_neg hst]
    have h2 := ih (contStartStep p storing isBlock code s).2 .empty
    exact Sub.mono (Sub.trans h1 (Sub.trans h2 (containerEnd_sub p storing isBlock code _ _ _))) (by simp)

theorem wfElem_loop_len {a : Bool} {names : List Str} {pks : List (List V)} (hw : wfElem a (.loop names pks) = true) :
    ∀ pk ∈ pks, pk.length = names.length := fun pk h => ((loop_wf_all names pks hw).2.2 pk h).2.1

mutual
  /-- an element entered with a container handle that is non-NULL exactly in storing mode (`cont = storing`), or while skipping -/
  theorem xElem_sub (p : Prog) (storing : Bool) : ∀ (e : Elem) (a : Bool) (s : St) (c : Content), wfElem a e = true →
      Sub s (xElem p storing e s c).2.1 (elemEvents storing e)
    | .item nm v, a, s, c, _ => by
      simp only [xElem, elemEvents]
      split
      · exact Sub.same _ (by rw [dec_log, inc_log])
      · have h1 : Sub s (inc (note s (.dataname nm))) [.dataname nm] := Sub.one _ (by rw [inc_log]; rfl)
        have h2 : Sub (inc (note s (.dataname nm))) (dec (scalarItemStep p storing nm v (inc (note s (.dataname nm)))).2.1) [.item nm v] :=
          Sub.one _ (by rw [dec_log]; exact site_log ..)
        exact Sub.trans h1 h2
    | .loop names pks, a, s, c, hw => by
      simp only [xElem]
      rw [elemEvents_loop]
      have hl := wfElem_loop_len hw
      split
      · exact Sub.trans (Sub.one (Ev.keyword []) rfl : Sub s (note s (Ev.keyword [])) [Ev.keyword []]) (xLoop_sub p storing names pks _ hl)
      · exact Sub.mono (xLoop_sub p storing names pks s hl) (by simp)
    | .frame code body, a, s, c, hw => by
      have hwb : wfElems false body = true := by
        simp only [wfElem, Bool.and_eq_true] at hw; exact hw.2
      by_cases hsk : s.skip > 0
      · rw [xElem_skipped p storing _ s c hsk]
        exact Sub.same _ rfl
      · rw [xElem_frame]
        have hfc : (!decide ((!storing) = true ∨ s.skip > 0)) = storing := by
          cases storing <;> simp [hsk]
        simp only [hfc, elemEvents]
        have := xCont_sub p storing false code body s (fun s' c' => xElems_sub p storing body false s' c' hwb)
        simpa using this
  theorem xElems_sub (p : Prog) (storing : Bool) : ∀ (es : List Elem) (a : Bool) (s : St) (c : Content), wfElems a es = true →
      Sub s (xElems p storing es s c).2.1 (elemsEvents storing es)
    | [], _, s, _, _ => Sub.same _ rfl
    | e :: es, a, s, c, hw => by
      simp only [wfElems, Bool.and_eq_true] at hw
      simp only [xElems, elemsEvents]
      have h1 := xElem_sub p storing e a s c hw.1
      split
      · exact Sub.trans h1 (xElems_sub p storing es a _ _ hw.2)
      · exact Sub.mono h1 (List.sublist_append_left _ _)
end

def blocksEvents (storing : Bool) (d : Doc) : List Ev :=
  (d.map (fun b => .blockStart (if storing then some b.code else none)
      :: (elemsEvents storing b.body ++ [.blockEnd (if storing then some b.code else none)]))).flatten

theorem xBlocks_sub (p : Prog) (storing : Bool) : ∀ (d : Doc) (s : St) (acc : List Container), wfDoc d = true →
    Sub s (xBlocks p storing d s acc).2.1 (blocksEvents storing d)
  | [], s, _, _ => Sub.same _ rfl
  | b :: bs, s, acc, hw => by
    simp only [wfDoc, List.all_cons, Bool.and_eq_true] at hw
    by_cases hsk : s.skip > 0
    · rw [xBlocks_skipped p storing _ s acc hsk]
      exact Sub.same _ rfl
    · have hbc : (storing && decide (s.skip ≤ 0)) = storing := by
        have : s.skip ≤ 0 := by omega
        cases storing <;> simp [this]
      simp only [xBlocks, hbc, blocksEvents, List.map_cons, List.flatten_cons]
      have h1 := xCont_sub p storing true b.code b.body s (fun s' c' => xElems_sub p storing b.body true s' c' hw.1)
      simp only [if_true] at h1
      split
      · exact Sub.trans h1 (xBlocks_sub p storing bs _ _ (by simpa [wfDoc] using hw.2))
      · exact Sub.mono h1 (List.sublist_append_left _ _)

/-- **every program**: the callbacks of the structural interpreter are, in order, callbacks the document owes -/
theorem xDoc_sub (p : Prog) (storing : Bool) (d : Doc) (hw : wfDoc d = true) :
    (xDoc p storing d (St.init [])).2.1.log.reverse.Sublist (docEvents storing d) := by
  have hdoc : docEvents storing d = Ev.cifStart storing :: (blocksEvents storing d ++ [Ev.cifEnd storing]) := rfl
  have fin : ∀ (s' : St), Sub (St.init []) s' (docEvents storing d) → s'.log.reverse.Sublist (docEvents storing d) := by
    intro s' h
    obtain ⟨l, a, b⟩ := h
    rw [a]; simpa [St.init] using b
  have cifEnd_sub : ∀ (r : Int) (s : St), Sub s (cifEndStep p storing r s).2 [Ev.cifEnd storing] := by
    intro r s
    unfold cifEndStep
    split
    · exact Sub.one _ (by simp [push, dec_log])
    · exact Sub.same _ (dec_log s)
  apply fin
  unfold xDoc
  split
  · exact Sub.mono (Sub.one (Ev.cifStart storing) rfl : Sub (St.init []) (push (St.init []) (Ev.cifStart storing)) [Ev.cifStart storing])
      (by rw [hdoc]; simp)
  · have h1 : Sub (St.init []) (site p (St.init []) (Ev.cifStart storing) (some 1) (some 1)).2 [Ev.cifStart storing] :=
      Sub.one _ (site_log ..)
    by_cases hok : (site p (St.init []) (Ev.cifStart storing) (some 1) (some 1)).1 = OK
    · simp only [hok, if_true]
      have h2 := xBlocks_sub p storing d (site p (St.init []) (Ev.cifStart storing) (some 1) (some 1)).2 [] hw
      have := Sub.trans h1 (Sub.trans h2 (cifEnd_sub (xBlocks p storing d (site p (St.init []) (Ev.cifStart storing) (some 1) (some 1)).2 []).1 _))
      rw [hdoc]
      simpa using this
    · simp only [hok, if_false]
      have := Sub.trans h1 (cifEnd_sub (site p (St.init []) (Ev.cifStart storing) (some 1) (some 1)).1 _)
      exact Sub.mono this (by rw [hdoc]; simp)


-- ---- whitespace and comment callbacks -------------------------------------------------------------------------------------------

/-- the callbacks owed for the layout in front of a token: every comment; every whitespace run unless something is being skipped -/
def segEvents (skip : Int) : List Seg → List Ev
  | [] => []
  | .ws t :: r => (if skip ≤ 0 then [Ev.ws t] else []) ++ segEvents skip r
  | .comment t :: r => Ev.ws t :: segEvents skip r

theorem reportPre_spec : ∀ (segs : List Seg) (s : St),
    (reportPre segs s).log = (segEvents s.skip segs).reverse ++ s.log ∧ (reportPre segs s).skip = s.skip
      ∧ (reportPre segs s).n = s.n ∧ (reportPre segs s).toks = s.toks ∧ (reportPre segs s).scanned = s.scanned
  | [], s => by simp [reportPre, segEvents]
  | .ws t :: r, s => by
    simp only [reportPre, segEvents]
    by_cases h : s.skip ≤ 0
    · simp only [h, if_true]
      obtain ⟨a, b, c, d, e⟩ := reportPre_spec r (note s (.ws t))
      refine ⟨by rw [a]; simp [note], by rw [b]; rfl, by rw [c]; rfl, by rw [d]; rfl, by rw [e]; rfl⟩
    · simp only [h, if_false]
      obtain ⟨a, b, c, d, e⟩ := reportPre_spec r s
      exact ⟨by rw [a]; simp, b, c, d, e⟩
  | .comment t :: r, s => by
    simp only [reportPre, segEvents]
    obtain ⟨a, b, c, d, e⟩ := reportPre_spec r (note s (.ws t))
    refine ⟨by rw [a]; simp [note], by rw [b]; rfl, by rw [c]; rfl, by rw [d]; rfl, by rw [e]; rfl⟩

end CifModel.Lemmas.ParseCB
