import CifModel.Lemmas.WriterChunks
import CifModel.Lemmas.WriterV1
import CifModel.Props.C13
/-
  Lemmas/WriterV1Refuse — the CIF 1.1 writer succeeds EXACTLY on what CIF 1.1 can express, and its refusal code names what it
  cannot.  One invariant `Out c r CE VE` over the result `r` of a writing step in CIF 1.1 mode, for two propositions about what
  the step is given — `CE` "every string it must validate consists of CIF 1.1 characters", `VE` "every value is expressible (no
  list, no table, no string that needs a text field and contains `<LF>;`)":
    * `CE ∧ VE` → the step succeeds,
    * the step succeeds → `CE ∧ VE`,
    * the step fails → CIF_DISALLOWED_CHAR and `¬CE`, or CIF_DISALLOWED_VALUE and `¬VE`.
  It is closed under `andThen` (conjunction of the propositions) and established for every handler.
-/
set_option linter.unusedSimpArgs false
set_option linter.unusedVariables false

namespace CifModel.Lemmas.WriterV1
open CifModel CifModel.Model CifModel.Model.Writer CifModel.Gen CifModel.Lemmas.WriterTotal
open CifModel.Lemmas.WriterChunks (andThen_ok)

def Out (R : Ctx → Ctx → Prop) (c : Ctx) (r : W) (CE VE : Prop) : Prop :=
  (CE → VE → ∃ o c', r = .ok (o, c') ∧ R c c') ∧
  (∀ o c', r = .ok (o, c') → CE ∧ VE ∧ R c c') ∧
  (∀ e, r = .error e → (e = ErrCodes.CIF_DISALLOWED_CHAR ∧ ¬CE) ∨ (e = ErrCodes.CIF_DISALLOWED_VALUE ∧ ¬VE))

/-- only the version is kept (loops switch `write_item_names`) -/
def SameV (c c' : Ctx) : Prop := c'.version = c.version

theorem SameV.isCif1 {a b : Ctx} (h : SameV a b) : b.isCif1 = a.isCif1 := by unfold Ctx.isCif1; rw [h]

theorem andThen_err {a : W} {f : Ctx → W} {e : Code} (h : andThen a f = .error e) :
    a = .error e ∨ ∃ o1 c1, a = .ok (o1, c1) ∧ f c1 = .error e := by
  unfold andThen at h
  cases a with
  | error e' => simp only [Except.error.injEq] at h; left; rw [h]
  | ok r =>
    obtain ⟨o1, c1⟩ := r
    simp only at h
    cases hf : f c1 with
    | error e' => rw [hf] at h; simp only [Except.error.injEq] at h; right; exact ⟨o1, c1, rfl, by rw [hf, h]⟩
    | ok r2 => rw [hf] at h; cases h

theorem out_andThen {R : Ctx → Ctx → Prop} (htr : ∀ a b c, R a b → R b c → R a c) {c : Ctx} {a : W} {f : Ctx → W}
    {CE1 VE1 CE2 VE2 : Prop} (ha : Out R c a CE1 VE1) (hf : ∀ c1, R c c1 → Out R c1 (f c1) CE2 VE2) :
    Out R c (andThen a f) (CE1 ∧ CE2) (VE1 ∧ VE2) := by
  refine ⟨?_, ?_, ?_⟩
  · rintro ⟨h1, h2⟩ ⟨v1, v2⟩
    obtain ⟨o1, c1, e1, r1⟩ := ha.1 h1 v1
    obtain ⟨o2, c2, e2, r2⟩ := (hf c1 r1).1 h2 v2
    exact ⟨o1 ++ o2, c2, by simp [andThen, e1, e2], htr _ _ _ r1 r2⟩
  · intro o c' h
    obtain ⟨o1, c1, o2, e1, e2, _⟩ := andThen_ok h
    obtain ⟨h1, v1, r1⟩ := ha.2.1 o1 c1 e1
    obtain ⟨h2, v2, r2⟩ := (hf c1 r1).2.1 o2 c' e2
    exact ⟨⟨h1, h2⟩, ⟨v1, v2⟩, htr _ _ _ r1 r2⟩
  · intro e h
    rcases andThen_err h with h | ⟨o1, c1, e1, e2⟩
    · rcases ha.2.2 e h with ⟨he, hn⟩ | ⟨he, hn⟩
      · exact Or.inl ⟨he, fun hh => hn hh.1⟩
      · exact Or.inr ⟨he, fun hh => hn hh.1⟩
    · obtain ⟨_, _, r1⟩ := ha.2.1 o1 c1 e1
      rcases (hf c1 r1).2.2 e e2 with ⟨he, hn⟩ | ⟨he, hn⟩
      · exact Or.inl ⟨he, fun hh => hn hh.2⟩
      · exact Or.inr ⟨he, fun hh => hn hh.2⟩

theorem Out.iff {R : Ctx → Ctx → Prop} {c : Ctx} {r : W} {CE VE CE' VE' : Prop} (h : Out R c r CE VE) (hc : CE' ↔ CE) (hv : VE' ↔ VE) :
    Out R c r CE' VE' := by
  refine ⟨fun a b => h.1 (hc.mp a) (hv.mp b), fun o c' e => ?_, fun e he => ?_⟩
  · obtain ⟨a, b, r⟩ := h.2.1 o c' e
    exact ⟨hc.mpr a, hv.mpr b, r⟩
  · rcases h.2.2 e he with ⟨h1, h2⟩ | ⟨h1, h2⟩
    · exact Or.inl ⟨h1, fun x => h2 (hc.mp x)⟩
    · exact Or.inr ⟨h1, fun x => h2 (hv.mp x)⟩

theorem Out.rel {R R' : Ctx → Ctx → Prop} {c0 c : Ctx} {r : W} {CE VE : Prop} (h : Out R c0 r CE VE) (hr : ∀ b, R c0 b → R' c b) :
    Out R' c r CE VE := by
  refine ⟨fun a b => ?_, fun o c' e => ?_, h.2.2⟩
  · obtain ⟨o, c', e, r⟩ := h.1 a b
    exact ⟨o, c', e, hr _ r⟩
  · obtain ⟨a, b, r⟩ := h.2.1 o c' e
    exact ⟨a, b, hr _ r⟩

/-- a step that only emits units and sets the context, followed by `f` -/
theorem out_andThen_ok {R : Ctx → Ctx → Prop} {c0 : Ctx} (o : Str) (f : Ctx → W) {CE VE : Prop} (h : Out R c0 (f c0) CE VE) :
    Out R c0 (andThen (.ok (o, c0)) f) CE VE := by
  refine ⟨fun a b => ?_, fun o' c' e => ?_, fun e he => ?_⟩
  · obtain ⟨o2, c2, e2, r⟩ := h.1 a b
    exact ⟨o ++ o2, c2, by simp [andThen, e2], r⟩
  · obtain ⟨o1, c1, o2, e1, e2, _⟩ := andThen_ok e
    cases e1
    exact h.2.1 o2 c' e2
  · rcases andThen_err he with he | ⟨o1, c1, e1, e2⟩
    · cases he
    · cases e1
      exact h.2.2 e e2

theorem out_ok {R : Ctx → Ctx → Prop} {c : Ctx} {o : Str} {c' : Ctx} (hr : R c c') : Out R c (.ok (o, c')) True True := by
  refine ⟨fun _ _ => ⟨o, c', rfl, hr⟩, ?_, ?_⟩
  · intro o1 c1 e; cases e; exact ⟨trivial, trivial, hr⟩
  · intro e he; cases he

theorem out_of_good {c : Ctx} {r : W} (h : Good c r False) : Out Same c r True True := by
  rcases h with ⟨o, c', e, hs⟩ | ⟨_, hf⟩
  · rw [e]; exact out_ok hs
  · exact hf.elim

theorem out_err_char {R : Ctx → Ctx → Prop} (c : Ctx) {CE VE : Prop} (h : ¬CE) :
    Out R c (.error ErrCodes.CIF_DISALLOWED_CHAR) CE VE := by
  refine ⟨fun hc _ => (h hc).elim, ?_, ?_⟩
  · intro o c' e; cases e
  · intro e he; cases he; exact Or.inl ⟨rfl, h⟩

theorem out_err_value {R : Ctx → Ctx → Prop} (c : Ctx) {CE VE : Prop} (h : ¬VE) :
    Out R c (.error ErrCodes.CIF_DISALLOWED_VALUE) CE VE := by
  refine ⟨fun _ hv => (h hv).elim, ?_, ?_⟩
  · intro o c' e; cases e
  · intro e he; cases he; exact Or.inr ⟨rfl, h⟩

theorem same_trans : ∀ a b c : Ctx, Same a b → Same b c → Same a c := fun _ _ _ h1 h2 => h1.trans h2
theorem sameV_trans : ∀ a b c : Ctx, SameV a b → SameV b c → SameV a c := fun _ _ _ h1 h2 => by
  unfold SameV at *; rw [h2, h1]
theorem same_toV : ∀ a b : Ctx, Same a b → SameV a b := fun _ _ h => h.1

/-! ### strings and numbers -/

/-- CIF 1.1 has no presentation for the string: it holds a carriage return (no CIF reader gives one back), or it can only be
    written as a text field and contains `<LF>;` -/
def refusedText (t : Str) (q : Bool) : Prop :=
  (13 : CU) ∈ t ∨ ((analyze t (!q) false LINE).delimLength = 2 ∧ (analyze t (!q) false LINE).containsTextDelim = true)

theorem out_writeChar (c : Ctx) (t : Str) (q : Bool) (hc : c.isCif1 = true) :
    Out Same c (writeChar c t q true) (validate11 t = true) (¬ refusedText t q) := by
  have hnc : (!c.isCif1) = false := by simp [hc]
  refine ⟨?_, ?_, ?_⟩
  · intro hv hr
    have hcl : Lemmas.WriterChar.strClean c.isCif1 t = true :=
      Lemmas.WriterChar.strClean_of _ t (fun h => hr (Or.inl h)) (fun h => by rw [hc] at h; cases h)
    have := writeChar_value_good_gen c t q (by simp [hv]) (by
      rw [hnc]; intro d h; exact hr (Or.inr ⟨d, h.1⟩)) hcl False
    rcases this with h | ⟨_, hf⟩
    · exact h
    · exact hf.elim
  · intro o c' h
    obtain ⟨hcl, hcore⟩ := Lemmas.WriterChar.writeChar_ok c t q true (o, c') h
    have h13 := Lemmas.WriterChar.strClean_noCR _ t hcl
    have hv : validate11 t = true := by
      cases hv : validate11 t with
      | true => rfl
      | false => rw [Lemmas.WriterChar.writeChar_invalid c t q true ⟨hc, hv⟩] at hcore; cases hcore
    refine ⟨hv, ?_, ?_⟩
    · rintro (hcr | ⟨d, hd⟩)
      · exact h13 hcr
      · rw [Lemmas.WriterChar.writeChar_delim2_refused c t q true (by simp [hv]) (by rw [hnc]; exact d)
          (Or.inr ⟨by rw [hnc]; exact hd, hc⟩)] at hcore
        cases hcore
    · have := Lemmas.WriterChunks.writeChar_keep c t q true o c' h
      exact ⟨this.2.2.2, this.2.1⟩
  · intro e he
    rcases C13_refusal_codes c t q true e hc he with ⟨h1, h2⟩ | ⟨h1, h2, h3⟩ | ⟨h1, h2⟩
    · exact Or.inl ⟨h1, by rw [h2]; simp⟩
    · refine Or.inr ⟨h1, fun hn => hn (Or.inr ⟨h2, ?_⟩)⟩
      rcases h3 with h3 | h3
      · cases h3
      · exact h3
    · exact Or.inr ⟨h1, fun hn => hn (Or.inl h2)⟩

/-- the characters of a value that the writer validates -/
def valCE : V → Prop
  | .chr _ t => validate11 t = true
  | .numb q t _ _ _ _ => (q = true ∨ t.length > LINE) → validate11 t = true
  | _ => True

/-- the value is expressible in CIF 1.1: no list, no table, no string that needs a text field and contains `<LF>;` -/
def valVE : V → Prop
  | .chr q t => ¬ refusedText t q
  | .numb q t _ _ _ _ => (q = true → ¬ refusedText t true) ∧ (q = false → t.length > LINE → ¬ refusedText t false)
  | .lst _ => False
  | .tbl _ => False
  | _ => True

theorem out_writeNumb (c : Ctx) (t : Str) (q : Bool) (hc : c.isCif1 = true) (ht : t ≠ []) :
    Out Same c (writeNumb c t q) ((q = true ∨ t.length > LINE) → validate11 t = true)
      ((q = true → ¬ refusedText t true) ∧ (q = false → t.length > LINE → ¬ refusedText t false)) := by
  cases q with
  | true =>
    have e : writeNumb c t true = writeChar c t true true := by unfold writeNumb; simp
    rw [e]
    exact (out_writeChar c t true hc).iff (by simp) (by simp)
  | false =>
    by_cases hlong : t.length > LINE
    · have e : writeNumb c t false = writeChar c t false true := by unfold writeNumb; simp [hlong]
      rw [e]
      exact (out_writeChar c t false hc).iff (by simp [hlong]) (by simp [hlong])
    · have := writeNumb_good_gen c t false ht False (fun h => by cases h) (fun _ h => absurd h hlong)
      exact (out_of_good this).iff (by simp [hlong]) (by simp [hlong])

theorem out_literal (c : Ctx) (t : Str) : Out Same c (literalOrError c t true) True True :=
  out_of_good (literalOrError_wrap_good c t False)

/-! ### items -/

theorem out_head (c : Ctx) (n : Str) (hc : c.isCif1 = true) (hn : c.writeItemNames = true → nameOk n) :
    Out Same c (writeItemHead c n) (c.writeItemNames = true → validate11 n = true) True := by
  by_cases hbad : c.writeItemNames = true ∧ validate11 n = false
  · -- the name is refused
    have e : writeItemHead c n = .error ErrCodes.CIF_DISALLOWED_CHAR := by
      unfold writeItemHead
      simp [hbad.1, hc, hbad.2, andThen]
    rw [e]
    exact out_err_char c (by simp [hbad.1, hbad.2])
  · have hv : c.writeItemNames = true → validate11 n = true := by
      intro hw
      cases h : validate11 n with
      | true => rfl
      | false => exact absurd ⟨hw, h⟩ hbad
    have := writeItemHead_good_gen c n (fun hw => by simp [hv hw]) hn False
    exact (out_of_good this).iff ⟨fun _ => trivial, fun _ => hv⟩ Iff.rfl

theorem out_item (n : Str) (v : V) (c : Ctx) (hc : c.isCif1 = true) (hn : c.writeItemNames = true → nameOk n)
    (hv : valueOk v = true) :
    Out Same c (writeItem n v c) ((c.writeItemNames = true → validate11 n = true) ∧ valCE v) (True ∧ valVE v) := by
  unfold writeItem
  apply out_andThen same_trans (out_head c n hc hn)
  intro c1 hs
  have hc1 : c1.isCif1 = true := by rw [hs.isCif1]; exact hc
  match v, hv with
  | .chr q t, _ => exact out_writeChar c1 t q hc1
  | .numb q t _ _ _ _, hv =>
    exact out_writeNumb c1 t q hc1 (by intro e; subst e; simp [valueOk] at hv)
  | .na, _ => exact out_literal c1 _
  | .unk, _ => exact out_literal c1 _
  | .lst vs, _ => simp only [hc1, if_true]; exact out_err_value c1 (fun h => h)
  | .tbl es, _ => simp only [hc1, if_true]; exact out_err_value c1 (fun h => h)

def itemsCE (named : Bool) : List (Str × V) → Prop
  | [] => True
  | (n, v) :: r => ((named = true → validate11 n = true) ∧ valCE v) ∧ itemsCE named r

def itemsVE : List (Str × V) → Prop
  | [] => True
  | (_, v) :: r => valVE v ∧ itemsVE r

theorem out_items : ∀ (p : List (Str × V)) (c : Ctx), c.isCif1 = true → itemsOk c.writeItemNames p →
    Out Same c (writeItems p c) (itemsCE c.writeItemNames p) (itemsVE p) := by
  intro p
  induction p with
  | nil => intro c _ _; exact out_ok (Same.refl c)
  | cons nv rest ih =>
    intro c hc hok
    obtain ⟨n, v⟩ := nv
    simp only [writeItems]
    have h1 := hok (n, v) List.mem_cons_self
    have := out_andThen same_trans (out_item n v c hc h1.2 h1.1) (fun c1 hs =>
      (ih c1 (by rw [hs.isCif1]; exact hc) (by rw [hs.names]; exact fun x hx => hok x (List.mem_cons_of_mem _ hx))).iff
        (CE' := itemsCE c.writeItemNames rest) (by rw [hs.names]) Iff.rfl)
    refine this.iff ?_ ?_
    · simp only [itemsCE]
    · simp only [itemsVE, true_and]
  -- note: the tail is stated for `c1.writeItemNames`, which `Same` identifies with `c.writeItemNames`

def packetsCE (named : Bool) : List (List (Str × V)) → Prop
  | [] => True
  | p :: r => itemsCE named p ∧ packetsCE named r

def packetsVE : List (List (Str × V)) → Prop
  | [] => True
  | p :: r => itemsVE p ∧ packetsVE r

theorem out_packets : ∀ (ps : List (List (Str × V))) (c : Ctx), c.isCif1 = true → (∀ p ∈ ps, itemsOk c.writeItemNames p) →
    Out Same c (writePackets ps c) (packetsCE c.writeItemNames ps) (packetsVE ps) := by
  intro ps
  induction ps with
  | nil => intro c _ _; exact out_ok (Same.refl c)
  | cons p rest ih =>
    intro c hc hok
    simp only [writePackets, writePacket]
    have hp : Out Same c (andThen (writeItems p c) fun c1 => .ok (writeNewline c1)) (itemsCE c.writeItemNames p ∧ True) (itemsVE p ∧ True) :=
      out_andThen same_trans (out_items p c hc (hok p List.mem_cons_self)) (fun c1 _ => out_ok (writeNewline_same c1))
    have := out_andThen same_trans hp (fun c1 hs =>
      (ih c1 (by rw [hs.isCif1]; exact hc) (by rw [hs.names]; exact fun x hx => hok x (List.mem_cons_of_mem _ hx))).iff
        (CE' := packetsCE c.writeItemNames rest) (by rw [hs.names]) Iff.rfl)
    refine this.iff ?_ ?_
    · simp only [packetsCE, and_true]
    · simp only [packetsVE, and_true]

/-! ### loops -/

def headerCE : List Str → Prop
  | [] => True
  | n :: r => validate11 n = true ∧ headerCE r

theorem out_header : ∀ (ns : List Str) (c : Ctx), c.isCif1 = true → Out Same c (writeHeaderNames ns c) (headerCE ns) True := by
  intro ns
  induction ns with
  | nil => intro c _; exact out_ok (Same.refl c)
  | cons n rest ih =>
    intro c hc
    simp only [writeHeaderNames]
    cases hv : validate11 n with
    | false =>
      simp only [hc, true_and, if_true]
      exact out_err_char c (by simp [headerCE, hv])
    | true =>
      simp only [hc, Bool.true_eq_false, and_false, if_false]
      have := out_andThen same_trans (out_ok (R := Same) (c := c) (o := (if Writer.countChar32 n < LINE then [32] else []) ++ n ++ [10])
        (c' := { c with lastColumn := 0 }) ⟨rfl, rfl⟩) (fun c1 hs => ih c1 (by rw [hs.isCif1]; exact hc))
      exact this.iff (by simp [headerCE, hv]) (by simp)

def loopCE (l : WLoop) : Prop :=
  if isScalars l.category then packetsCE true l.packets else headerCE l.header ∧ packetsCE false l.packets

theorem out_loop (l : WLoop) (c : Ctx) (hc : c.isCif1 = true) (hok : loopOk l) :
    Out SameV c (writeLoop l c) (loopCE l) (packetsVE l.packets) := by
  unfold writeLoop
  have hne : l.packets.isEmpty = false := by
    cases hp : l.packets with
    | nil => exact absurd hp hok.1
    | cons a b => rfl
  have key : ∀ (c1 : Ctx), c1.isCif1 = true → c1.writeItemNames = isScalars l.category →
      Out Same c1 ((fun c1 => if l.packets.isEmpty then (.error ErrCodes.CIF_EMPTY_LOOP : W)
          else andThen (writePackets l.packets c1) fun c2 => .ok (writeNewline c2)) c1)
        (packetsCE (isScalars l.category) l.packets) (packetsVE l.packets) := by
    intro c1 hc1 hn
    simp only [hne, Bool.false_eq_true, if_false]
    have hp := out_packets l.packets c1 hc1 (by rw [hn]; exact hok.2)
    rw [hn] at hp
    have := out_andThen same_trans hp (fun c2 _ => out_ok (R := Same) (o := (writeNewline c2).1) (writeNewline_same c2))
    exact this.iff (by simp) (by simp)
  cases hs : isScalars l.category with
  | true =>
    simp only [hs, if_true, writeNewline]
    have hk := key { c with lastColumn := 0, writeItemNames := true } (by simpa [Ctx.isCif1] using hc) (by rw [hs])
    have := out_andThen_ok [10] (fun c1 => if l.packets.isEmpty then (.error ErrCodes.CIF_EMPTY_LOOP : W)
          else andThen (writePackets l.packets c1) fun c2 => .ok (writeNewline c2)) hk
    refine (this.rel (R' := SameV) (c := c) (fun b hb => hb.1)).iff ?_ Iff.rfl
    simp [loopCE, hs]
  | false =>
    simp only [hs, Bool.false_eq_true, if_false]
    have hh := out_header l.header { c with writeItemNames := false, lastColumn := 0 } (by simpa [Ctx.isCif1] using hc)
    have inner := out_andThen_ok LOOP_HEAD (fun c1 => writeHeaderNames l.header c1) hh
    have := out_andThen same_trans inner (fun c1 hs1 => key c1 (by rw [hs1.isCif1]; simpa [Ctx.isCif1] using hc) (by rw [hs1.names, hs]))
    refine (this.rel (R' := SameV) (c := c) (fun b hb => hb.1)).iff ?_ (by simp)
    simp [loopCE, hs]

def loopsCE : List WLoop → Prop
  | [] => True
  | l :: r => loopCE l ∧ loopsCE r

def loopsVE : List WLoop → Prop
  | [] => True
  | l :: r => packetsVE l.packets ∧ loopsVE r

theorem out_loops : ∀ (ls : List WLoop) (c : Ctx), c.isCif1 = true → (∀ l ∈ ls, loopOk l) →
    Out SameV c (writeLoops ls c) (loopsCE ls) (loopsVE ls) := by
  intro ls
  induction ls with
  | nil => intro c _ _; exact out_ok rfl
  | cons l rest ih =>
    intro c hc hok
    simp only [writeLoops]
    exact out_andThen sameV_trans (out_loop l c hc (hok l List.mem_cons_self))
      (fun c1 hv => ih c1 (by rw [hv.isCif1]; exact hc) (fun x hx => hok x (List.mem_cons_of_mem _ hx)))

/-! ### containers, the CIF -/

mutual
  /-- every code, every data name that is written and every string consists of CIF 1.1 characters -/
  def containerCE : WContainer → Prop
    | .mk code frames loops => validate11 code = true ∧ containersCE frames ∧ loopsCE loops
  def containersCE : List WContainer → Prop
    | [] => True
    | k :: r => containerCE k ∧ containersCE r
end

mutual
  /-- every value is expressible in CIF 1.1 -/
  def containerVE : WContainer → Prop
    | .mk _ frames loops => containersVE frames ∧ loopsVE loops
  def containersVE : List WContainer → Prop
    | [] => True
    | k :: r => containerVE k ∧ containersVE r
end

mutual
  theorem out_container (k : WContainer) (c : Ctx) (hc : c.isCif1 = true) (hok : containerOk k) :
      Out SameV c (writeContainer k c) (containerCE k) (containerVE k) := by
    match k, hok with
    | .mk code frames loops, hok =>
      simp only [containerOk] at hok
      unfold writeContainer
      cases hv : validate11 code with
      | false =>
        simp only [hc, true_and, if_true]
        exact out_err_char c (by simp [containerCE, hv])
      | true =>
        simp only [hc, Bool.true_eq_false, and_false, if_false]
        have hc0 : ({ c with lastColumn := 0, depth := c.depth + 1 } : Ctx).isCif1 = true := by simpa [Ctx.isCif1] using hc
        let K : Ctx → W := fun c1 =>
            andThen (writeContainers frames c1) fun c2 =>
              andThen (writeLoops loops c2) fun c3 =>
                if ({ c3 with depth := c3.depth - 1, lastColumn := 0 } : Ctx).depth = 0
                then .ok (writeNewline { c3 with depth := c3.depth - 1, lastColumn := 0 })
                else .ok (FRAME_END, { c3 with depth := c3.depth - 1, lastColumn := 0 })
        have hbody : Out SameV { c with lastColumn := 0, depth := c.depth + 1 } (K { c with lastColumn := 0, depth := c.depth + 1 })
            (containersCE frames ∧ loopsCE loops ∧ True) (containersVE frames ∧ loopsVE loops ∧ True) := by
          apply out_andThen sameV_trans (out_containers frames _ hc0 hok.1)
          intro c2 hv2
          apply out_andThen sameV_trans (out_loops loops c2 (by rw [hv2.isCif1]; exact hc0) hok.2)
          intro c3 hv3
          split
          · exact out_ok rfl
          · exact out_ok rfl
        have := out_andThen_ok ((if c.depth = 0 then BLOCK_HEAD else FRAME_HEAD) ++ code ++ [10]) K hbody
        refine (this.rel (R' := SameV) (c := c) (fun b hb => hb)).iff ?_ ?_
        · simp [containerCE, hv]
        · simp [containerVE]
  theorem out_containers (ks : List WContainer) (c : Ctx) (hc : c.isCif1 = true) (hok : containersOk ks) :
      Out SameV c (writeContainers ks c) (containersCE ks) (containersVE ks) := by
    match ks, hok with
    | [], _ => unfold writeContainers; exact out_ok rfl
    | k :: rest, hok =>
      simp only [containersOk] at hok
      unfold writeContainers
      exact out_andThen sameV_trans (out_container k c hc hok.1)
        (fun c1 hv => out_containers rest c1 (by rw [hv.isCif1]; exact hc) hok.2)
end

/-- `cif_write` in CIF 1.1 mode -/
theorem out_writeCif (cif : WCif) (hok : containersOk cif) :
    ((∃ out, writeCif 1 cif = .ok out) ↔ (containersCE cif ∧ containersVE cif)) ∧
    (∀ e, writeCif 1 cif = .error e →
      (e = ErrCodes.CIF_DISALLOWED_CHAR ∧ ¬ containersCE cif) ∨ (e = ErrCodes.CIF_DISALLOWED_VALUE ∧ ¬ containersVE cif)) := by
  have hc : ({ version := 1 } : Ctx).isCif1 = true := rfl
  have hbody : Out SameV { version := 1 } ((fun c1 => andThen (writeContainers cif c1) fun c2 => (.ok (writeNewline c2) : W)) { version := 1 })
      (containersCE cif ∧ True) (containersVE cif ∧ True) :=
    out_andThen sameV_trans (out_containers cif _ hc hok) (fun c2 _ => out_ok rfl)
  have L := (out_andThen_ok MAGIC11 (fun c1 => andThen (writeContainers cif c1) fun c2 => (.ok (writeNewline c2) : W)) hbody).iff (CE' := containersCE cif) (VE' := containersVE cif) (by simp) (by simp)
  unfold writeCif
  simp only [if_true, hc]
  cases hr : (andThen (.ok (MAGIC11, ({ version := 1 } : Ctx))) fun c1 =>
      andThen (writeContainers cif c1) fun c2 => (.ok (writeNewline c2) : W)) with
  | error e =>
    refine ⟨⟨fun ⟨out, h⟩ => (by cases h), fun ⟨h1, h2⟩ => ?_⟩, fun e' he => ?_⟩
    · obtain ⟨o, c', e2, _⟩ := L.1 h1 h2
      rw [hr] at e2; cases e2
    · cases he
      exact L.2.2 e hr
  | ok p =>
    obtain ⟨o, c'⟩ := p
    refine ⟨⟨fun _ => ?_, fun _ => ⟨o, rfl⟩⟩, fun e he => (by cases he)⟩
    obtain ⟨h1, h2, _⟩ := L.2.1 o c' hr
    exact ⟨h1, h2⟩

end CifModel.Lemmas.WriterV1
