import CifModel.Lemmas.LexerTotal
/-
  Lemmas/LexerSep — whitespace and comments between tokens: a run of whitespace atoms of any shape produces no token,
  reports nothing (unless a line is over-long) and hands the rest of the input to the loop with `after_ws` set.
-/
namespace CifModel.Model.Lexer
open CifModel CifModel.Model.Chars CifModel.Spec.Lexical

/-- scan_ws only looks at the last terminator seen (`sol % 4`) -/
theorem scanWs_sol_congr (dia : Dialect) : ∀ (inp : Str) (line col sol sol2 : Nat) (pol : Policy) (log : List Report),
    (sol % 4 = 2 ↔ sol2 % 4 = 2) → scanWs dia inp line col sol pol log = scanWs dia inp line col sol2 pol log := by
  intro inp
  induction inp with
  | nil => intro line col sol sol2 pol log _; rfl
  | cons c r ih =>
    intro line col sol sol2 pol log hs
    simp only [scanWs]
    by_cases hw : classOf dia c = .ws
    · simp only [hw, if_true]
    · simp only [hw, if_false]
      by_cases he : classOf dia c = .eol
      · simp only [he, if_true, handleEol, bind_eq, pure_eq, L.bind]
        cases hr : reportIf (decide (col > lineLength)) Gen.ErrCodes.CIF_OVERLENGTH_LINE line col pol log with
        | abort rv l => rfl
        | ok x l =>
          simp only [L.pure_apply]
          have hx : (if c = 10 then 1 else if c = 13 then 2 else 3) = 1 ∨ (if c = 10 then 1 else if c = 13 then 2 else 3) = 2
              ∨ (if c = 10 then 1 else if c = 13 then 2 else 3) = 3 := by
            by_cases h1 : c = 10 <;> by_cases h2 : c = 13 <;> simp [h1, h2]
          generalize (if c = 10 then 1 else if c = 13 then 2 else 3) = x at hx
          have e1 : ((sol * 4 + x) % 16 = 9) ↔ ((sol2 * 4 + x) % 16 = 9) := by
            constructor
            · intro h; have := hs.mp (by omega); omega
            · intro h; have := hs.mpr (by omega); omega
          have e2 : ((sol * 4 + x) % 16 % 4 = 2) ↔ ((sol2 * 4 + x) % 16 % 4 = 2) := by omega
          have e3 : (if (sol * 4 + x) % 16 = 9 then 0 else 1) = (if (sol2 * 4 + x) % 16 = 9 then 0 else 1) := by
            by_cases h : (sol * 4 + x) % 16 = 9
            · rw [if_pos h, if_pos (e1.mp h)]
            · rw [if_neg h, if_neg (fun h' => h (e1.mpr h'))]
          rw [e3]
          exact ih _ _ _ _ _ _ e2
      · simp only [he, if_false]


theorem stepTok_wsclass (dia : Dialect) (aw : Bool) (c : Nat) (r : Str) (line col : Nat) (h : classOf dia c = .ws) :
    stepTok dia aw c r line col = L.bind (scanWs dia r line (col + 1) 0) (fun p => L.pure (.skip true p)) := by
  unfold stepTok
  simp only [bind_eq]
  simp only [pure_eq]
  have : (metaOfCls (classOf dia c) != Meta.close && metaOfCls (classOf dia c) != Meta.ws && !aw) = false := by
    simp [h, metaOfCls]
  rw [this, reportIf_false, L.pure_bind]
  rw [if_neg (by rw [h]; decide), if_pos h]

theorem stepTok_eolclass (dia : Dialect) (aw : Bool) (c : Nat) (r : Str) (line col : Nat) (h : classOf dia c = .eol) :
    stepTok dia aw c r line col = L.bind (scanWs dia (c :: r) line col 0) (fun p => L.pure (.skip true p)) := by
  unfold stepTok
  simp only [bind_eq]
  simp only [pure_eq]
  have : (metaOfCls (classOf dia c) != Meta.close && metaOfCls (classOf dia c) != Meta.ws && !aw) = false := by
    simp [h, metaOfCls]
  rw [this, reportIf_false, L.pure_bind]
  rw [if_pos h, Nat.add_sub_cancel]

/-- an iteration that starts at a whitespace unit runs scan_ws from that unit and goes on with `after_ws` set -/
theorem tokLoop_wsrun (dia : Dialect) (f : Nat) (aw : Bool) (c : Nat) (r : Str) (line col : Nat) (pol : Policy) (log : List Report)
    (h : classOf dia c = .ws ∨ classOf dia c = .eol) :
    tokLoop dia (f + 1) aw ⟨c :: r, line, col⟩ pol log
      = match scanWs dia (c :: r) line col 0 pol log with
        | .ok p l => tokLoop dia f true p pol l
        | .abort rv l => .abort rv l := by
  rw [tokLoop_cons]
  rcases h with h | h
  · rw [stepTok_wsclass dia aw c r line col h]
    have e : scanWs dia (c :: r) line col 0 = scanWs dia r line (col + 1) 0 := by
      simp only [scanWs, h, if_true]
    rw [e]
    simp only [L.bind]
    cases scanWs dia r line (col + 1) 0 pol log <;> rfl
  · rw [stepTok_eolclass dia aw c r line col h]
    simp only [L.bind]
    cases scanWs dia (c :: r) line col 0 pol log <;> rfl

/-- with `after_ws` already set, running scan_ws first changes nothing -/
theorem tokLoop_absorb (dia : Dialect) (R : Str) (line col g g2 : Nat) (pol : Policy) (log : List Report)
    (hg : R.length < g) (hg2 : R.length < g2) :
    tokLoop dia g true ⟨R, line, col⟩ pol log
      = match scanWs dia R line col 0 pol log with
        | .ok p l => tokLoop dia g2 true p pol l
        | .abort rv l => .abort rv l := by
  cases R with
  | nil =>
    cases g with
    | zero => simp at hg
    | succ g =>
      cases g2 with
      | zero => simp at hg2
      | succ g2 => rfl
  | cons y R' =>
    cases g with
    | zero => simp at hg
    | succ g =>
      by_cases h : classOf dia y = .ws ∨ classOf dia y = .eol
      · rw [tokLoop_wsrun dia g true y R' line col pol log h]
        cases hs : scanWs dia (y :: R') line col 0 pol log with
        | abort rv l => rfl
        | ok p l =>
          have := scanWs_len_lt dia y R' h line col 0 pol log l p hs
          simp only [List.length_cons] at hg hg2
          exact tokLoop_fuel dia pol g g2 true p l (by omega) (by omega)
      · have h1 : ¬ classOf dia y = .ws := fun e => h (Or.inl e)
        have h2 : ¬ classOf dia y = .eol := fun e => h (Or.inr e)
        have e : scanWs dia (y :: R') line col 0 pol log = .ok ⟨y :: R', line, col⟩ log := by
          simp only [scanWs, h1, h2, if_false, pure_eq, L.pure_apply]
        rw [e]
        exact tokLoop_fuel dia pol (g + 1) g2 true _ log hg hg2

theorem ws_class (dia : Dialect) (x : Nat) (h : isWs x = true) :
    (x = 10 ∧ classOf dia x = .eol) ∨ (x ≠ 10 ∧ classOf dia x = .ws) := by
  simp [isWs, isBlank, isEol] at h
  rcases h with (h | h) | h <;> subst h <;> cases dia <;> decide

/-- one whitespace unit: the loop goes on after it with `after_ws` set -/
theorem tokLoop_ws1 (dia : Dialect) (x : Nat) (hx : isWs x = true) (R : Str) (line col f : Nat) (aw : Bool) (pol : Policy)
    (log : List Report) (hf : R.length + 1 < f) (hcol : x = 10 → col ≤ 2048) :
    tokLoop dia f aw ⟨x :: R, line, col⟩ pol log
      = tokLoop dia (R.length + 1) true ⟨R, (posAfter line col [x]).1, (posAfter line col [x]).2⟩ pol log := by
  cases f with
  | zero => omega
  | succ f =>
    rcases ws_class dia x hx with ⟨h10, hc⟩ | ⟨h10, hc⟩
    · subst h10
      rw [tokLoop_wsrun dia f aw 10 R line col pol log (Or.inr hc)]
      have e : scanWs dia (10 :: R) line col 0 pol log = scanWs dia R (line + 1) 0 1 pol log := by
        have hne : ¬ (Cls.eol = Cls.ws) := by decide
        simp only [scanWs, hc, hne, if_false, if_true, bind_eq]
        rw [L.bind_ok (handleEol_lf line col 0 (hcol rfl) (by decide) pol log)]
      rw [e, scanWs_sol_congr dia R (line + 1) 0 1 0 pol log (by decide)]
      have : posAfter line col [10] = (line + 1, 0) := by simp [posAfter]
      rw [this]
      exact (tokLoop_absorb dia R (line + 1) 0 (R.length + 1) f pol log (by omega) (by omega)).symm
    · rw [tokLoop_wsrun dia f aw x R line col pol log (Or.inl hc)]
      have e : scanWs dia (x :: R) line col 0 pol log = scanWs dia R line (col + 1) 0 pol log := by
        simp only [scanWs, hc, if_true]
      rw [e]
      have ht : isTrailU x = false := by
        simp [isWs, isBlank, isEol] at hx
        rcases hx with (h | h) | h <;> subst h <;> decide
      have : posAfter line col [x] = (line, col + 1) := by simp [posAfter, h10, ht]
      rw [this]
      exact (tokLoop_absorb dia R line (col + 1) (R.length + 1) f pol log (by omega) (by omega)).symm

/-- comment body up to (not including) the terminator -/
theorem scanToEol_ok (dia : Dialect) (R : Str) (line : Nat) (pol : Policy) (log : List Report) :
    ∀ (s : Str) (pend : Option CU) (acc : Str) (col : Nat),
      okUnits dia pend s = true → pendOk dia pend acc → s.all (fun x => !isEol x) = true →
      scanToEol dia (s ++ 10 :: R) line col pend.isSome acc pol log
        = .ok ⟨s.reverse ++ acc, ⟨10 :: R, line, col + colAdd s⟩⟩ log := by
  have hlf : allowedBmp dia 10 = true := by cases dia <;> decide
  have hlfc : classOf dia 10 = .eol := by cases dia <;> decide
  intro s
  induction s with
  | nil =>
    intro pend acc col hok _ _
    cases pend with
    | some l => simp [okUnits] at hok
    | none =>
      simp only [List.nil_append, scanToEol, Option.isSome_none, bind_eq, pure_eq]
      rw [L.bind_ok (scanUChar_bmp dia 10 hlf line col _ pol log)]
      simp [hlfc]
  | cons c s ih =>
    intro pend acc col hok hp heol
    obtain ⟨hstep, hok', hp', hf, _⟩ := ok_step dia pend c s acc hok hp line col pol log
    simp only [List.all_cons, Bool.and_eq_true, Bool.not_eq_true'] at heol
    simp only [List.cons_append, scanToEol, bind_eq, pure_eq]
    rw [L.bind_ok hstep]
    have hne : ¬ classOf dia c = .eol := by rw [hf.eol]; simpa [isEol] using heol.1
    simp only [fixAcc_false, hne, if_false]
    have := ih (nextPend c) (c :: acc) (col + (if isTrailU c then 0 else 1)) hok' hp' heol.2
    rw [isSome_nextPend] at this
    rw [this, colAdd_cons]
    simp [Nat.add_comm, Nat.add_left_comm]

/-- a comment: `#`, body, and the loop is at the terminator -/
theorem tokLoop_comment (dia : Dialect) (body R : Str) (line col f : Nat) (pol : Policy) (log : List Report)
    (hok : okUnits dia none body = true) (hne : body.all (fun x => !isEol x) = true) :
    tokLoop dia (f + 1) true ⟨35 :: (body ++ 10 :: R), line, col⟩ pol log
      = tokLoop dia f true ⟨10 :: R, line, col + 1 + colAdd body⟩ pol log := by
  have hcls : classOf dia 35 = .hash := by cases dia <;> decide
  rw [tokLoop_cons]
  have hstep : stepTok dia true 35 (body ++ 10 :: R) line col pol log
      = .ok (.skip true ⟨10 :: R, line, col + 1 + colAdd body⟩) log := by
    unfold stepTok
    simp only [bind_eq]
    simp only [pure_eq]
    have : (metaOfCls (classOf dia 35) != Meta.close && metaOfCls (classOf dia 35) != Meta.ws && !true) = false := by simp
    rw [this, reportIf_false, L.pure_bind]
    rw [if_neg (by rw [hcls]; decide), if_neg (by rw [hcls]; decide), if_pos hcls]
    have := scanToEol_ok dia R line pol log body none [35] (col + 1) hok trivial hne
    simp only [Option.isSome_none] at this
    rw [L.bind_ok this]
    rfl
  rw [L.bind_ok hstep]

/-- **whitespace runs of any shape**: blanks, line terminators and comments in any order and number produce no token and
    no report; the loop continues behind them, at the position the specification gives, with `after_ws` set -/
theorem lex_sep_loop (dia : Dialect) (R : Str) (pol : Policy) : ∀ (w : List WsAtom) (line col f : Nat) (aw : Bool) (log : List Report),
    (∀ a ∈ w, a.ok dia = true) → linesFit col (renderWs w) = true →
    (aw = true ∨ ∀ b rest, w ≠ WsAtom.comment b :: rest) → (renderWs w ++ R).length < f →
    tokLoop dia f aw ⟨renderWs w ++ R, line, col⟩ pol log
      = tokLoop dia (R.length + 1) (aw || !w.isEmpty) ⟨R, (posAfter line col (renderWs w)).1, (posAfter line col (renderWs w)).2⟩ pol log := by
  intro w
  induction w with
  | nil =>
    intro line col f aw log _ _ _ hf
    simp only [renderWs, List.map_nil, List.flatten_nil, List.nil_append, posAfter, List.isEmpty_nil, Bool.not_true, Bool.or_false] at hf ⊢
    exact tokLoop_fuel dia pol f (R.length + 1) aw _ log hf (by simp)
  | cons a w ih =>
    intro line col f aw log hok hfit hfirst hf
    have hokw : ∀ a' ∈ w, a'.ok dia = true := fun a' h => hok a' (List.mem_cons_of_mem _ h)
    have hrender : renderWs (a :: w) = a.render ++ renderWs w := by simp [renderWs]
    rw [hrender, linesFit_append] at hfit
    simp only [Bool.and_eq_true] at hfit
    rw [hrender, posAfter_append]
    simp only [List.isEmpty_cons, Bool.not_false, Bool.or_true]
    have hlen : (renderWs (a :: w) ++ R).length = a.render.length + (renderWs w ++ R).length := by
      rw [hrender]; simp [Nat.add_assoc]
    have hcolindep := posAfter_col_indep a.render 0 line col
    -- continue behind the first atom with the induction hypothesis
    have cont : ∀ (l c : Nat), (posAfter line col a.render) = (l, c) → linesFit c (renderWs w) = true →
        tokLoop dia ((renderWs w ++ R).length + 1) true ⟨renderWs w ++ R, l, c⟩ pol log
          = tokLoop dia (R.length + 1) true ⟨R, (posAfter l c (renderWs w)).1, (posAfter l c (renderWs w)).2⟩ pol log := by
      intro l c _ hfit'
      have := ih l c ((renderWs w ++ R).length + 1) true log hokw hfit' (Or.inl rfl) (by omega)
      simpa using this
    cases a with
    | blank x =>
      have hx : isWs x = true := by
        have := hok (.blank x) (List.mem_cons_self ..)
        simp only [WsAtom.ok] at this
        simp [isWs, this]
      have h10 : x ≠ 10 := by
        have := hok (.blank x) (List.mem_cons_self ..)
        simp [WsAtom.ok, isBlank] at this
        omega_cu
      simp only [WsAtom.render, List.cons_append, List.nil_append]
      simp only [hrender, WsAtom.render, List.cons_append, List.nil_append, List.length_cons] at hf
      rw [tokLoop_ws1 dia x hx (renderWs w ++ R) line col f aw pol log (by omega) (fun e => absurd e h10)]
      have hfit2 : linesFit (posAfter line col [x]).2 (renderWs w) = true := by
        have := hfit.2
        simp only [WsAtom.render] at this
        rw [posAfter_col_indep [x] 0 line col] at this
        exact this
      exact cont _ _ rfl hfit2
    | eol =>
      simp only [WsAtom.render, List.cons_append, List.nil_append]
      simp only [hrender, WsAtom.render, List.cons_append, List.nil_append, List.length_cons] at hf
      have hcol : col ≤ 2048 := by
        have := hfit.1
        simpa [WsAtom.render, linesFit] using this
      rw [tokLoop_ws1 dia 10 (by decide) (renderWs w ++ R) line col f aw pol log (by omega) (fun _ => hcol)]
      have hfit2 : linesFit (posAfter line col [10]).2 (renderWs w) = true := by
        have := hfit.2
        simp only [WsAtom.render] at this
        rw [posAfter_col_indep [10] 0 line col] at this
        exact this
      exact cont _ _ rfl hfit2
    | comment body =>
      have haw : aw = true := by
        rcases hfirst with h | h
        · exact h
        · exact absurd rfl (h body w)
      subst haw
      have hb := hok (.comment body) (List.mem_cons_self ..)
      simp only [WsAtom.ok, Bool.and_eq_true] at hb
      have e : (WsAtom.comment body).render ++ (renderWs w ++ R) = 35 :: (body ++ 10 :: (renderWs w ++ R)) := by
        simp [WsAtom.render]
      rw [List.append_assoc, e]
      simp only [hrender, List.append_assoc, e, List.length_cons, List.length_append] at hf
      cases f with
      | zero => omega
      | succ f =>
        rw [tokLoop_comment dia body (renderWs w ++ R) line col f pol log hb.1 hb.2]
        have hfitc : linesFit col (35 :: (body ++ [10])) = true := by
          have := hfit.1
          simpa [WsAtom.render] using this
        have hcol : col + 1 + colAdd body ≤ 2048 := by
          simp only [linesFit, show ¬ (35 : Nat) = 10 from by decide, if_false, show isTrailU 35 = false from by decide,
            Bool.false_eq_true] at hfitc
          rw [linesFit_append, posAfter_noeol body hb.2] at hfitc
          simp only [Bool.and_eq_true, linesFit, if_true, decide_eq_true_eq] at hfitc
          exact hfitc.2.1
        rw [tokLoop_ws1 dia 10 (by decide) (renderWs w ++ R) line (col + 1 + colAdd body) f true pol log
          (by simp only [List.length_append] ; omega) (fun _ => hcol)]
        have hpa : posAfter line col (WsAtom.comment body).render = (line + 1, 0) := by
          simp only [WsAtom.render, posAfter, show ¬ (35 : Nat) = 10 from by decide, if_false,
            show isTrailU 35 = false from by decide, Bool.false_eq_true]
          rw [posAfter_append, posAfter_noeol body hb.2]
          simp [posAfter]
        have hfit2 : linesFit 0 (renderWs w) = true := by
          have := hfit.2
          rw [posAfter_col_indep _ 0 line col, hpa] at this
          exact this
        rw [hpa]
        have hp10 : posAfter line (col + 1 + colAdd body) [10] = (line + 1, 0) := by simp [posAfter]
        rw [hp10]
        exact cont (line + 1) 0 hpa hfit2

end CifModel.Model.Lexer
