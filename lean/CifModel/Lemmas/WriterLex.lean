import CifModel.Model.Writer
import CifModel.Props.C18
import CifModel.Spec.Lexical
import CifModel.Lemmas.LexerTok
import CifModel.Lemmas.WriterChar
import CifModel.Model.Decode
/-
  Bridging lemmas between the writer (`write_char`), the analysis theorems of property C18 and the lexical grammar of
  Spec/Lexical (property C01): each presentation `write_char` chooses is an ADMISSIBLE presentation of the grammar.
-/
namespace CifModel.Lemmas.WriterLex
open CifModel.Model CifModel.Model.Writer
open CifModel.Spec.Lexical
open CifModel.Lemmas.WriterChar

/-! ### characters -/

/-- a well-formed string of allowed characters holds neither CR nor NUL -/
theorem okUnits_mem (dia : Dialect) : ∀ (s : Str) (pend : Option CU), okUnits dia pend s = true →
    ∀ x ∈ s, x ≠ 13 ∧ x ≠ 0 := by
  intro s
  induction s with
  | nil => intro _ _ x hx; cases hx
  | cons c r ih =>
    intro pend h x hx
    cases pend with
    | none =>
      simp only [okUnits] at h
      split at h
      · rename_i hl
        simp only [Bool.and_eq_true] at h
        rcases List.mem_cons.mp hx with h1 | h1
        · subst h1
          constructor <;> (intro e; subst e; exact absurd hl (by decide))
        · exact ih _ h.2 x h1
      · simp only [Bool.and_eq_true] at h
        rcases List.mem_cons.mp hx with h1 | h1
        · subst h1
          have ha := h.1.2
          constructor
          · intro e; subst e; revert ha; cases dia <;> decide
          · intro e; subst e; revert ha; cases dia <;> decide
        · exact ih _ h.2 x h1
    | some l =>
      simp only [okUnits, Bool.and_eq_true] at h
      rcases List.mem_cons.mp hx with h1 | h1
      · subst h1
        have ht := h.1.1
        constructor <;> (intro e; subst e; exact absurd ht (by decide))
      · exact ih _ h.2 x h1

theorem okUnits_noCR (dia : Dialect) (s : Str) (h : okUnits dia none s = true) : (13 : CU) ∉ s :=
  fun hm => (okUnits_mem dia s none h 13 hm).1 rfl

theorem okUnits_noNUL (dia : Dialect) (s : Str) (h : okUnits dia none s = true) : (0 : CU) ∉ s :=
  fun hm => (okUnits_mem dia s none h 0 hm).2 rfl

/-! ### one line -/

/-- a string with a line terminator has at least two lines -/
theorem two_lines_of_terminator : ∀ (s : Str), ((10 : CU) ∈ s ∨ (13 : CU) ∈ s) → 2 ≤ (Spec.splitLines s).length := by
  intro s
  induction s with
  | nil => intro h; rcases h with h | h <;> cases h
  | cons c rest ih =>
    intro h
    have hne := Lemmas.Analyze.splitLines_ne_nil rest
    simp only [Spec.splitLines]
    by_cases h1 : c = 13 ∧ rest.head? = some 10
    · simp only [h1, and_self, ↓reduceIte]
      apply ih
      left
      cases rest with
      | nil => simp at h1
      | cons d r => simp at h1; simp [h1.2]
    · simp only [h1, ↓reduceIte]
      by_cases h2 : c = 10 ∨ c = 13
      · simp only [h2, ↓reduceIte, List.length_cons]
        have : 0 < (Spec.splitLines rest).length := List.length_pos_iff.mpr hne
        omega
      · simp only [h2, ↓reduceIte]
        have hrest : (10 : CU) ∈ rest ∨ (13 : CU) ∈ rest := by
          simp only [not_or] at h2
          rcases h with h | h
          · rcases List.mem_cons.mp h with e | e
            · exact absurd e.symm h2.1
            · left; exact e
          · rcases List.mem_cons.mp h with e | e
            · exact absurd e.symm h2.2
            · right; exact e
        have := ih hrest
        cases hs : Spec.splitLines rest with
        | nil => exact absurd hs hne
        | cons l ls => rw [hs] at this; simpa [Spec.consHead] using this

/-- the analysis of a one-line string: no terminator, and all the lengths are the length of the string -/
theorem one_line (s : Str) (unq tri : Bool) (limit : Nat) (h : (counters s).numLines = 1) :
    (∀ c ∈ s, c ≠ 10 ∧ c ≠ 13) ∧ (analyze s unq tri limit).lengthMax = s.length ∧ (analyze s unq tri limit).length = s.length := by
  have hst := C18_stats_exact s unq tri limit
  have hn : (Spec.splitLines s).length = 1 := by
    have := hst.2.1
    unfold analyze at this
    simp only at this
    rw [← this]; exact h
  have hno : ∀ c ∈ s, c ≠ 10 ∧ c ≠ 13 := by
    intro c hc
    constructor
    · intro e; subst e
      have := two_lines_of_terminator s (Or.inl hc); omega
    · intro e; subst e
      have := two_lines_of_terminator s (Or.inr hc); omega
  refine ⟨hno, ?_, hst.1⟩
  rw [hst.2.2.2.2.1, Lemmas.Analyze.splitLines_single s hno]
  simp [Spec.maxLen]

/-! ### reserved words: the two specifications agree -/

theorem lowerAscii_eq : Spec.lowerAscii = Spec.Lexical.lowerAscii := rfl

theorem isReservedWord_iff (s : Str) : isReservedWord s = true ↔ Spec.reservedWord s := by
  unfold isReservedWord Spec.reservedWord Spec.ciPrefix Spec.ciEq startsWithCI
  rw [lowerAscii_eq]
  simp only [Bool.or_eq_true, beq_iff_eq, List.length_cons, List.length_nil]
  constructor
  · rintro ((((h | h) | h) | h) | h)
    · exact Or.inl h
    · exact Or.inr (Or.inl h)
    · exact Or.inr (Or.inr (Or.inl h))
    · exact Or.inr (Or.inr (Or.inr (Or.inl h)))
    · exact Or.inr (Or.inr (Or.inr (Or.inr h)))
  · rintro (h | h | h | h | h)
    · exact Or.inl (Or.inl (Or.inl (Or.inl h)))
    · exact Or.inl (Or.inl (Or.inl (Or.inr h)))
    · exact Or.inl (Or.inl (Or.inr h))
    · exact Or.inl (Or.inr h)
    · exact Or.inr h

/-! ### the dialect of a write context -/

def diaOf (c : Ctx) : Dialect := if c.isCif1 then .cif1 else .cif2

/-- what `write_char` puts in front of a value that does not fit on the current line -/
def wrapLf (wrap : Bool) : Str := if wrap then [10] else []

theorem printfS_self (s : Str) : printfS s.length s = s := by simp [printfS]

theorem writeUnquoted_out (c : Ctx) (s : Str) (hne : s ≠ []) :
    ∃ c', writeUnquoted c s s.length = .ok (wrapLf (decide (s.length + c.lastColumn > LINE)) ++ s, c') := by
  have hlen : s.length ≠ 0 := by
    intro h; exact hne (List.length_eq_zero_iff.mp h)
  unfold writeUnquoted writeULiteral
  simp only [hlen, ↓reduceIte, printfS_self]
  by_cases hw : s.length + c.lastColumn > LINE
  · simp [hw, wrapLf]
  · simp [hw, wrapLf]

theorem writeQuoted_out (c : Ctx) (s : Str) (d : CU) :
    ∃ c', writeQuoted c s s.length d = .ok (wrapLf (decide (c.lastColumn + s.length + 2 > LINE)) ++ d :: (s ++ [d]), c') := by
  unfold writeQuoted
  simp only [printfS_self]
  have : ([d] ++ s ++ [d]).length = s.length + 2 := by simp
  simp only [this, ↓reduceIte]
  by_cases hw : c.lastColumn + s.length + 2 > LINE
  · simp [hw, wrapLf]
  · simp [hw, wrapLf]

theorem noQuoteBlank_of_not_mem (q : CU) (s : Str) (h : q ∉ s) : noQuoteBlank q s = true := by
  induction s with
  | nil => rfl
  | cons c r ih =>
    have hc : (c == q) = false := by
      simp only [beq_eq_false_iff_ne, ne_eq]
      intro e; exact h (e ▸ List.mem_cons_self)
    simp only [noQuoteBlank, hc, Bool.false_and, Bool.not_false, Bool.true_and]
    exact ih (fun hm => h (List.mem_cons_of_mem _ hm))

/-- the whitespace-delimited presentation is admissible whenever the analysis recommends it -/
theorem bare_admissible (dia : Dialect) (s : Str) (unq tri : Bool) (limit : Nat)
    (hok : okUnits dia none s = true) (hr : recommend s unq tri limit = .none) :
    admissible dia .bare s = true ∧ (∀ c ∈ s, c ≠ 10 ∧ c ≠ 13) ∧ s ≠ [] ∧ s.head? ≠ some 59
      ∧ (analyze s unq tri limit).lengthMax = s.length := by
  have h0 := okUnits_noNUL dia s hok
  obtain ⟨hnd, hnr, hne, h59, _, _, hn, _⟩ := (C18_delim_admissible s unq tri limit h0).1 hr
  obtain ⟨hno, hmax, _⟩ := one_line s unq tri limit hn
  refine ⟨?_, hno, hne, h59, hmax⟩
  cases s with
  | nil => exact absurd rfl hne
  | cons c r =>
    simp only [admissible, bareOk, Bool.and_eq_true, Bool.not_eq_true', hok, true_and]
    refine ⟨⟨⟨?_, ?_⟩, ?_⟩, ?_⟩
    · rw [List.all_eq_true]
      intro x hx
      have h1 := hnd x hx
      have h2 := hno x hx
      simp [isWs, Spec.Lexical.isBlank, isEol, h1.1, h1.2.1, h2.1]
    · have : ¬ ∃ c', (c :: r).head? = some c' ∧ Spec.reservedLead c' := fun h => hnr (Or.inl h)
      simp only [List.head?_cons, Option.some.injEq, exists_eq_left', Spec.reservedLead, not_or] at this
      simp [this.1, this.2.1, this.2.2.1, this.2.2.2.1, this.2.2.2.2]
    · cases dia with
      | cif2 =>
        simp only
        rw [List.all_eq_true]
        intro x hx
        have h1 := hnd x hx
        simp [h1.2.2.1, h1.2.2.2.1, h1.2.2.2.2.1, h1.2.2.2.2.2]
      | cif1 =>
        have h1 := hnd c List.mem_cons_self
        simp [h1.2.2.1, h1.2.2.2.1]
    · cases hrw : isReservedWord (c :: r)
      · rfl
      · exact absurd (Or.inr ((isReservedWord_iff _).mp hrw)) hnr

/-- the single-quote presentations are admissible whenever the analysis recommends them -/
theorem quoted_admissible (dia : Dialect) (s : Str) (unq tri : Bool) (limit : Nat) (q : CU) (p : Presentation)
    (hok : okUnits dia none s = true)
    (hr : (recommend s unq tri limit = .apos ∧ q = 39 ∧ p = .squote) ∨ (recommend s unq tri limit = .quot ∧ q = 34 ∧ p = .dquote)) :
    admissible dia p s = true ∧ (∀ c ∈ s, c ≠ 10 ∧ c ≠ 13) ∧ (analyze s unq tri limit).length = s.length
      ∧ renderValue p s = q :: (s ++ [q]) := by
  have h0 := okUnits_noNUL dia s hok
  have hadm := C18_delim_admissible s unq tri limit h0
  have key : q ∉ s ∧ (counters s).numLines = 1 := by
    rcases hr with ⟨h, hq, _⟩ | ⟨h, hq, _⟩
    · subst hq; exact ⟨(hadm.2.1 h).1, (hadm.2.1 h).2.1⟩
    · subst hq; exact ⟨(hadm.2.2.1 h).1, (hadm.2.2.1 h).2.1⟩
  obtain ⟨hno, _, hlen⟩ := one_line s unq tri limit key.2
  have hq : quotedOk dia q s = true := by
    simp only [quotedOk, Bool.and_eq_true, hok, true_and]
    constructor
    · rw [List.all_eq_true]; intro x hx; simp [isEol, (hno x hx).1]
    · cases dia with
      | cif2 =>
        simp only
        rw [List.all_eq_true]; intro x hx
        simp only [bne_iff_ne, ne_eq]
        intro e; exact key.1 (e ▸ hx)
      | cif1 => exact noQuoteBlank_of_not_mem q s key.1
  rcases hr with ⟨_, hq', hp⟩ | ⟨_, hq', hp⟩ <;> subst hq' <;> subst hp
  · exact ⟨hq, hno, hlen, rfl⟩
  · exact ⟨hq, hno, hlen, rfl⟩

/-! ### triple-quoted strings -/

theorem hasTriple_append_right (q : CU) (a b : Str) (h : hasTriple q b = true) : hasTriple q (a ++ b) = true := by
  induction a with
  | nil => exact h
  | cons x r ih => simp [hasTriple, ih]

theorem replicate_succ_append (q : CU) (n : Nat) (r : Str) :
    List.replicate (n + 1) q ++ r = List.replicate n q ++ q :: r := by
  induction n with
  | zero => rfl
  | succ k ih => simp only [List.replicate_succ, List.cons_append] at *; rw [ih]

/-- "does not contain the triple delimiter and does not end with its character" (C18) gives the EBNF body (C01) -/
theorem tripleBody_of_tripleOk (q : CU) : ∀ (s : Str) (cnt : Nat), cnt ≤ 2 →
    hasTriple q (List.replicate cnt q ++ s) = false → (List.replicate cnt q ++ s).getLast? ≠ some q →
    tripleBody q cnt s = true := by
  intro s
  induction s with
  | nil =>
    intro cnt _ _ hl
    simp only [tripleBody, beq_iff_eq]
    cases cnt with
    | zero => rfl
    | succ k => exfalso; apply hl; simp [List.getLast?_replicate]
  | cons c r ih =>
    intro cnt hcnt ht hl
    simp only [tripleBody]
    by_cases hc : c = q
    · subst hc
      simp only [↓reduceIte, Bool.and_eq_true, decide_eq_true_eq]
      have hlt : cnt + 1 < 3 := by
        by_cases h2 : cnt = 2
        · subst h2
          exfalso
          have : hasTriple c (List.replicate 2 c ++ c :: r) = true := by
            simp [List.replicate, hasTriple]
          rw [this] at ht; cases ht
        · omega
      refine ⟨hlt, ih (cnt + 1) (by omega) ?_ ?_⟩
      · rw [replicate_succ_append]; exact ht
      · rw [replicate_succ_append]; exact hl
    · simp only [hc, ↓reduceIte]
      apply ih 0 (by omega)
      · simp only [List.replicate, List.nil_append]
        cases hh : hasTriple q r
        · rfl
        · have := hasTriple_append_right q (List.replicate cnt q ++ [c]) r hh
          rw [List.append_assoc] at this
          simp only [List.cons_append, List.nil_append] at this
          rw [this] at ht; cases ht
      · simp only [List.replicate, List.nil_append]
        cases r with
        | nil => simp
        | cons d r' =>
          intro e
          apply hl
          have : (List.replicate cnt q ++ c :: d :: r').getLast? = (d :: r').getLast? := by
            simp [List.getLast?_append, List.getLast?_cons_cons, e]
          rw [this]; exact e

/-- line lengths of a CR-free text (in units) bound the lexer's line lengths (in characters) -/
theorem linesFit_of_lines : ∀ (s t : Str) (k k' : Nat), (13 : CU) ∉ s → t.all (fun x => !isEol x) = true → k' ≤ k →
    k + ((Spec.splitLines s).headD []).length ≤ 2048 → (∀ l ∈ (Spec.splitLines s).tail, l.length ≤ 2048) →
    linesFit k' (s ++ t) = true := by
  intro s
  induction s with
  | nil => intro t k k' _ ht _ _ _; exact CifModel.Model.Lexer.linesFit_noeol t ht k'
  | cons c rest ih =>
    intro t k k' h13 ht hk hfirst htail
    have hc13 : c ≠ 13 := fun e => h13 (e ▸ List.mem_cons_self)
    have hrest : (13 : CU) ∉ rest := fun e => h13 (List.mem_cons_of_mem _ e)
    have hne := Lemmas.Analyze.splitLines_ne_nil rest
    by_cases hc : c = 10
    · subst hc
      rw [Lemmas.Analyze.splitLines_cons_lf] at hfirst htail
      simp only [List.cons_append, linesFit, ↓reduceIte, Bool.and_eq_true, decide_eq_true_eq]
      refine ⟨by simp at hfirst; omega, ih t 0 0 hrest ht (Nat.le_refl _) ?_ ?_⟩
      · cases hs : Spec.splitLines rest with
        | nil => exact absurd hs hne
        | cons l ls =>
          rw [hs] at htail
          simpa using htail l (by simp)
      · intro l hl
        cases hs : Spec.splitLines rest with
        | nil => exact absurd hs hne
        | cons l0 ls =>
          rw [hs] at htail hl
          exact htail l (by simp at hl ⊢; right; exact hl)
    · have hsl : Spec.splitLines (c :: rest) = Spec.consHead c (Spec.splitLines rest) := by
        simp [Spec.splitLines, hc, hc13]
      rw [hsl] at hfirst htail
      simp only [List.cons_append, linesFit, hc, ↓reduceIte]
      cases hs : Spec.splitLines rest with
      | nil => exact absurd hs hne
      | cons l0 ls =>
        rw [hs] at hfirst htail
        simp only [Spec.consHead, List.headD_cons, List.length_cons, List.tail_cons] at hfirst htail
        apply ih t (k + 1) _ hrest ht
        · split <;> omega
        · rw [hs]; simp; omega
        · rw [hs]; simpa using htail

theorem writeTripleQuoted_out (c : Ctx) (s : Str) (l1 ll : Nat) (d : CU) (o : Str) (c' : Ctx)
    (h : writeTripleQuoted c s l1 ll d = .ok (o, c')) :
    o = wrapLf (decide (c.lastColumn + l1 + (if decide (l1 < s.length) = true then 3 else 6) > LINE)) ++ d :: d :: d :: (s ++ [d, d, d]) := by
  unfold writeTripleQuoted at h
  simp only at h
  split at h
  · simp only [Except.ok.injEq, Prod.mk.injEq] at h
    rw [← h.1]
    simp [wrapLf]
  · cases h

theorem le_maxLen (ls : List Str) (l : Str) (h : l ∈ ls) : l.length ≤ Spec.maxLen ls := by
  induction ls with
  | nil => cases h
  | cons a r ih =>
    rw [Lemmas.Analyze.maxLen_cons]
    rcases List.mem_cons.mp h with e | e
    · subst e; omega
    · have := ih e; omega

/-- the triple-quoted presentations: admissible, and no line of what is written exceeds the limit -/
theorem triple_admissible (s : Str) (unq tri : Bool) (q : CU) (p : Presentation)
    (hok : okUnits .cif2 none s = true)
    (hr : (recommend s unq tri LINE = .apos3 ∧ q = 39 ∧ p = .tsquote) ∨ (recommend s unq tri LINE = .quot3 ∧ q = 34 ∧ p = .tdquote)) :
    admissible .cif2 p s = true ∧ renderValue p s = q :: q :: q :: (s ++ [q, q, q]) ∧
    (∀ (K k : Nat) (wrap : Bool), k ≤ K → K ≤ LINE → (wrap = false → K + (analyze s unq tri LINE).lengthFirst + 3 ≤ LINE) →
        linesFit k (wrapLf wrap ++ q :: q :: q :: (s ++ [q, q, q])) = true) := by
  have h0 := okUnits_noNUL .cif2 s hok
  have h13 := okUnits_noCR .cif2 s hok
  have hadm := C18_delim_admissible s unq tri LINE h0
  have hst := C18_stats_exact s unq tri LINE
  have key : Model.tripleOk q s = true ∧
      (if (counters s).numLines = 1 then (counters s).maxLine + 6 ≤ LINE
       else (counters s).firstLine + 3 ≤ LINE ∧ (counters s).thisLine + 3 < LINE ∧ (counters s).maxLine ≤ LINE) := by
    rcases hr with ⟨h, hq, _⟩ | ⟨h, hq, _⟩
    · subst hq; exact hadm.2.2.2.1 h
    · subst hq; exact hadm.2.2.2.2 h
  have hq10 : q ≠ 10 := by rcases hr with ⟨_, hq, _⟩ | ⟨_, hq, _⟩ <;> subst hq <;> decide
  have hqt : isTrailU q = false := by rcases hr with ⟨_, hq, _⟩ | ⟨_, hq, _⟩ <;> subst hq <;> decide
  have hbody : tripleBody q 0 s = true := by
    have hk := key.1
    simp only [Model.tripleOk, Bool.and_eq_true, bne_iff_ne, ne_eq, Bool.not_eq_true'] at hk
    exact tripleBody_of_tripleOk q s 0 (by omega) (by simpa using hk.2) (by simpa using hk.1)
  have hmaxf : (analyze s unq tri LINE).lengthMax = (counters s).maxLine := rfl
  have hfirstf : (analyze s unq tri LINE).lengthFirst = (counters s).firstLine := rfl
  -- first line + 3 and every line fit
  have hfirst : ((Spec.splitLines s).headD []).length + 3 ≤ LINE ∧ ∀ l ∈ Spec.splitLines s, l.length ≤ LINE := by
    have e1 : ((Spec.splitLines s).headD []).length = (counters s).firstLine := by rw [← hfirstf]; exact hst.2.2.1.symm
    have e2 : Spec.maxLen (Spec.splitLines s) = (counters s).maxLine := by rw [← hmaxf]; exact hst.2.2.2.2.1.symm
    have hne := Lemmas.Analyze.splitLines_ne_nil s
    have hhead : (Spec.splitLines s).headD [] ∈ Spec.splitLines s := by
      cases hs : Spec.splitLines s with
      | nil => exact absurd hs hne
      | cons a r => simp
    have hle := le_maxLen _ _ hhead
    have k2 := key.2
    split at k2
    · constructor
      · omega
      · intro l hl; have := le_maxLen _ _ hl; omega
    · constructor
      · omega
      · intro l hl; have := le_maxLen _ _ hl; omega
  refine ⟨?_, ?_, ?_⟩
  · rcases hr with ⟨_, hq, hp⟩ | ⟨_, hq, hp⟩ <;> subst hq <;> subst hp <;> simp [admissible, Spec.Lexical.tripleOk, hok, hbody]
  · rcases hr with ⟨_, hq, hp⟩ | ⟨_, hq, hp⟩ <;> subst hq <;> subst hp <;> rfl
  · intro K k wrap hk hK hnw
    have hq3 : ([q, q, q] : Str).all (fun x => !isEol x) = true := by
      rcases hr with ⟨_, hq, _⟩ | ⟨_, hq, _⟩ <;> subst hq <;> decide
    have step3 : ∀ (j J : Nat), j ≤ J → J + 3 + ((Spec.splitLines s).headD []).length ≤ 2048 →
        linesFit j (q :: q :: q :: (s ++ [q, q, q])) = true := by
      intro j J hj hJ
      simp only [linesFit, hq10, ↓reduceIte, hqt, Bool.false_eq_true]
      exact linesFit_of_lines s [q, q, q] (J + 3) (j + 1 + 1 + 1) h13 hq3 (by omega) hJ
        (fun l hl => hfirst.2 l (List.mem_of_mem_tail hl))
    cases wrap with
    | true =>
      simp only [wrapLf, ↓reduceIte, List.cons_append, List.nil_append, linesFit, Bool.and_eq_true, decide_eq_true_eq]
      have hL : LINE = 2048 := rfl
      refine ⟨by omega, step3 0 0 (Nat.le_refl _) ?_⟩
      have := hfirst.1; omega
    | false =>
      simp only [wrapLf, Bool.false_eq_true, ↓reduceIte, List.nil_append]
      apply step3 k K hk
      have hL : LINE = 2048 := rfl
      have := hnw rfl
      rw [hst.2.2.1] at this
      omega

/-! ### what `write_char` writes, as a presentation of the lexical grammar -/

/-- `out` is (an optional line break and) an admissible presentation `p` of a string `s'` that stands for `s`: `s` itself,
    or — for a text field — a body that `decode_text` maps to `s`; no line that ends inside `out` is over-long whatever
    the true column `col ≤ last_column` the value starts at. -/
def Presented (dia : Dialect) (c : Ctx) (s : Str) (q : Bool) (out : Str) : Prop :=
  ∃ (wrap : Bool) (p : Presentation) (s' : Str),
    out = wrapLf wrap ++ renderValue p s' ∧ admissible dia p s' = true ∧ (p = .text → wrap = true)
    ∧ (∀ col, col ≤ c.lastColumn → linesFit col out = true)
    ∧ (p ≠ .text → s' = s) ∧ (p = .text → Model.Decode.decodeText true true s' = s)
    ∧ (p = .bare → q = false ∧ s.head? ≠ some 59 ∧ recommend s (!q) (!c.isCif1) LINE = .none)

theorem linesFit_wrap_noeol (wrap : Bool) (t : Str) (col : Nat) (hcol : col ≤ LINE) (ht : t.all (fun x => !isEol x) = true) :
    linesFit col (wrapLf wrap ++ t) = true := by
  have hL : LINE = 2048 := rfl
  cases wrap with
  | true =>
    simp only [wrapLf, ↓reduceIte, List.cons_append, List.nil_append, linesFit, Bool.and_eq_true, decide_eq_true_eq]
    exact ⟨by omega, CifModel.Model.Lexer.linesFit_noeol t ht 0⟩
  | false => simpa [wrapLf] using CifModel.Model.Lexer.linesFit_noeol t ht col

theorem noeol_all (s : Str) (h : ∀ c ∈ s, c ≠ 10 ∧ c ≠ 13) : s.all (fun x => !isEol x) = true := by
  rw [List.all_eq_true]; intro x hx; simp [isEol, (h x hx).1]

/-- `Presented` by a presentation other than the text field -/
def PresentedNT (dia : Dialect) (c : Ctx) (s : Str) (q : Bool) (out : Str) : Prop :=
  ∃ (wrap : Bool) (p : Presentation) (s' : Str),
    (out = wrapLf wrap ++ renderValue p s' ∧ admissible dia p s' = true ∧ (p = .text → wrap = true)
    ∧ (∀ col, col ≤ c.lastColumn → linesFit col out = true)
    ∧ (p ≠ .text → s' = s) ∧ (p = .text → Model.Decode.decodeText true true s' = s)
    ∧ (p = .bare → q = false ∧ s.head? ≠ some 59 ∧ recommend s (!q) (!c.isCif1) LINE = .none)) ∧ p ≠ .text

/-- every presentation other than the text field (whether or not a text field would have been allowed) -/
theorem writeChar_presented_nt (c : Ctx) (s : Str) (q allowText : Bool) (out : Str) (c' : Ctx)
    (hok : okUnits (diaOf c) none s = true) (hcol : c.lastColumn ≤ LINE)
    (hd : (analyze s (!q) (!c.isCif1) LINE).delimLength ≠ 2)
    (h : writeChar c s q allowText = .ok (out, c')) : PresentedNT (diaOf c) c s q out := by
  have h := (writeChar_ok c s q allowText (out, c') h).2
  have hv : ¬(c.isCif1 = true ∧ validate11 s = false) := by
    intro hv; rw [writeChar_invalid c s q allowText hv] at h; cases h
  obtain ⟨hdel, hlen⟩ := analyze_delim s (!q) (!c.isCif1) LINE
  cases hrec : recommend s (!q) (!c.isCif1) LINE with
  | none =>
    have hd0 : (analyze s (!q) (!c.isCif1) LINE).delimLength = 0 := by rw [hlen, hrec]; rfl
    rw [writeChar_delim0 c s q allowText hv hd0] at h
    obtain ⟨hadm, hno, hne, h59, hmax⟩ := bare_admissible (diaOf c) s (!q) (!c.isCif1) LINE hok hrec
    rw [hmax] at h
    obtain ⟨c'', hout⟩ := writeUnquoted_out c s hne
    rw [hout] at h
    simp only [Except.ok.injEq, Prod.mk.injEq] at h
    refine ⟨_, .bare, s, ⟨h.1.symm, hadm, (by intro e; cases e), ?_, (fun _ => rfl), (by intro e; cases e), ?_⟩, (by intro e; cases e)⟩
    · intro col hc
      rw [← h.1]
      exact linesFit_wrap_noeol _ s col (by omega) (noeol_all s hno)
    · intro _
      have := (C18_delim_permitted s (!q) (!c.isCif1) LINE).1 hrec
      exact ⟨by simpa using this, h59, hrec⟩
  | apos =>
    have hd1 : (analyze s (!q) (!c.isCif1) LINE).delimLength = 1 := by rw [hlen, hrec]; rfl
    rw [writeChar_delim1 c s q allowText hv hd1] at h
    obtain ⟨hadm, hno, hl, hren⟩ := quoted_admissible (diaOf c) s (!q) (!c.isCif1) LINE 39 .squote hok (Or.inl ⟨hrec, rfl, rfl⟩)
    have hq : (analyze s (!q) (!c.isCif1) LINE).delim.headD 0 = 39 := by rw [hdel, hrec]; rfl
    rw [hl, hq] at h
    obtain ⟨c'', hout⟩ := writeQuoted_out c s 39
    rw [hout] at h
    simp only [Except.ok.injEq, Prod.mk.injEq] at h
    refine ⟨_, .squote, s, ⟨(by rw [hren]; exact h.1.symm), hadm, (by intro e; cases e), ?_, (fun _ => rfl), (by intro e; cases e), (by intro e; cases e)⟩, (by intro e; cases e)⟩
    intro col hc
    rw [← h.1]
    apply linesFit_wrap_noeol _ _ col (by omega)
    have := noeol_all s hno
    simp only [List.all_cons, List.all_append, this, List.all_nil, Bool.and_true, Bool.true_and, Bool.and_self]
    decide
  | quot =>
    have hd1 : (analyze s (!q) (!c.isCif1) LINE).delimLength = 1 := by rw [hlen, hrec]; rfl
    rw [writeChar_delim1 c s q allowText hv hd1] at h
    obtain ⟨hadm, hno, hl, hren⟩ := quoted_admissible (diaOf c) s (!q) (!c.isCif1) LINE 34 .dquote hok (Or.inr ⟨hrec, rfl, rfl⟩)
    have hq : (analyze s (!q) (!c.isCif1) LINE).delim.headD 0 = 34 := by rw [hdel, hrec]; rfl
    rw [hl, hq] at h
    obtain ⟨c'', hout⟩ := writeQuoted_out c s 34
    rw [hout] at h
    simp only [Except.ok.injEq, Prod.mk.injEq] at h
    refine ⟨_, .dquote, s, ⟨(by rw [hren]; exact h.1.symm), hadm, (by intro e; cases e), ?_, (fun _ => rfl), (by intro e; cases e), (by intro e; cases e)⟩, (by intro e; cases e)⟩
    intro col hc
    rw [← h.1]
    apply linesFit_wrap_noeol _ _ col (by omega)
    have := noeol_all s hno
    simp only [List.all_cons, List.all_append, this, List.all_nil, Bool.and_true, Bool.true_and, Bool.and_self]
    decide
  | apos3 =>
    have hd3 : (analyze s (!q) (!c.isCif1) LINE).delimLength = 3 := by rw [hlen, hrec]; rfl
    have htri := (C18_delim_permitted s (!q) (!c.isCif1) LINE).2 (Or.inl hrec)
    have hdia : diaOf c = .cif2 := by
      unfold diaOf; cases hc1 : c.isCif1 <;> simp [hc1] at htri ⊢
    rw [hdia] at hok ⊢
    rw [writeChar_delim3 c s q allowText hv hd3] at h
    have hq : (analyze s (!q) (!c.isCif1) LINE).delim.headD 0 = 39 := by rw [hdel, hrec]; rfl
    rw [hq] at h
    have hout := writeTripleQuoted_out c s _ _ 39 out c' h
    obtain ⟨hadm, hren, hfit⟩ := triple_admissible s (!q) (!c.isCif1) 39 .tsquote hok (Or.inl ⟨hrec, rfl, rfl⟩)
    refine ⟨_, .tsquote, s, ⟨(by rw [hren]; exact hout), hadm, (by intro e; cases e), ?_, (fun _ => rfl), (by intro e; cases e), (by intro e; cases e)⟩, (by intro e; cases e)⟩
    intro col hc
    rw [hout]
    apply hfit c.lastColumn col _ hc hcol
    intro hw
    simp only [decide_eq_false_iff_not, Nat.not_lt] at hw
    split at hw <;> omega
  | quot3 =>
    have hd3 : (analyze s (!q) (!c.isCif1) LINE).delimLength = 3 := by rw [hlen, hrec]; rfl
    have htri := (C18_delim_permitted s (!q) (!c.isCif1) LINE).2 (Or.inr hrec)
    have hdia : diaOf c = .cif2 := by
      unfold diaOf; cases hc1 : c.isCif1 <;> simp [hc1] at htri ⊢
    rw [hdia] at hok ⊢
    rw [writeChar_delim3 c s q allowText hv hd3] at h
    have hq : (analyze s (!q) (!c.isCif1) LINE).delim.headD 0 = 34 := by rw [hdel, hrec]; rfl
    rw [hq] at h
    have hout := writeTripleQuoted_out c s _ _ 34 out c' h
    obtain ⟨hadm, hren, hfit⟩ := triple_admissible s (!q) (!c.isCif1) 34 .tdquote hok (Or.inr ⟨hrec, rfl, rfl⟩)
    refine ⟨_, .tdquote, s, ⟨(by rw [hren]; exact hout), hadm, (by intro e; cases e), ?_, (fun _ => rfl), (by intro e; cases e), (by intro e; cases e)⟩, (by intro e; cases e)⟩
    intro col hc
    rw [hout]
    apply hfit c.lastColumn col _ hc hcol
    intro hw
    simp only [decide_eq_false_iff_not, Nat.not_lt] at hw
    split at hw <;> omega
  | text =>
    exfalso; apply hd; rw [hlen, hrec]; rfl

/-- every presentation other than the text field -/
theorem writeChar_presented_nontext (c : Ctx) (s : Str) (q : Bool) (out : Str) (c' : Ctx)
    (hok : okUnits (diaOf c) none s = true) (hcol : c.lastColumn ≤ LINE)
    (hd : (analyze s (!q) (!c.isCif1) LINE).delimLength ≠ 2)
    (h : writeChar c s q true = .ok (out, c')) : Presented (diaOf c) c s q out := by
  obtain ⟨wrap, p, s', hp, _⟩ := writeChar_presented_nt c s q true out c' hok hcol hd h
  exact ⟨wrap, p, s', hp⟩

end CifModel.Lemmas.WriterLex
