import CifModel.Lemmas.LadderClone
/-
  CifModel.Lemmas.LadderPacket — cif_value_copy_char and the cif_packet_create ladder (normalised-name array,
  cif_packet_create_norm with uthash's table and bucket array, copies of respelled names, cif_packet_free).
-/
namespace CifModel.Lemmas.Ladder
open CifModel.Model.Ladder CifModel.Spec.HeapTrace

theorem Good.free {k N : Nat} {s s' : St} (i : Nat) (h : Good k N s s') : Good k N s (free i s') := by
  unfold Good at *; simpa using h

theorem Good.same {k N : Nat} {s s' s'' : St} (h : Good k N s s') (h' : Same s' s'') : Good k N s s'' := by
  unfold Good Same at *; rw [h'.1, h'.2]; exact h

theorem Same.freeAll (ids : List Nat) (s : St) : Same s (freeAll ids s) := ⟨freeAll_count ids s, freeAll_failIds ids s⟩

-- ---------------------------------------------------------------------------------------------------------------
-- cif_value_copy_char

theorem copyChar_spec (k : Nat) (old : Owned) (s : St) (L : List Nat) (h : Inv s (old.ids ++ L)) :
    (∃ t, (copyChar k old s).1 = OK ∧ (copyChar k old s).2.1 = some [t] ∧ Good k 1 s (copyChar k old s).2.2 ∧
        Inv (copyChar k old s).2.2 (old.obj :: t :: L)) ∨
    ((copyChar k old s).1 = MEMORY_ERROR ∧ (copyChar k old s).2.1 = none ∧ Bad k 1 s (copyChar k old s).2.2 ∧
        Inv (copyChar k old s).2.2 (old.ids ++ L)) := by
  simp only [copyChar]
  rcases alloc_cases k s with ⟨hk, ha⟩ | ⟨hk, ha⟩ <;> simp only [ha]
  · right
    exact ⟨trivial, trivial, Bad.alloc hk, h.fail⟩
  · left
    have i1 : Inv { count := s.count + 1, evs := s.evs ++ [.alloc (s.count + 1)] }
        (old.parts ++ (old.obj :: (s.count + 1) :: L)) := by
      have := h.alloc
      rw [ids_eq_obj_parts old] at this
      exact this.perm (by perm_ac)
    have ⟨c1, c2⟩ := cleanOwned_spec old _ _ i1
    exact ⟨_, by trivial, by trivial, (Good.alloc hk).same c2, c1⟩

-- ---------------------------------------------------------------------------------------------------------------
-- cif_normalize on an ASCII name, and the normalisation loop

theorem normalize_spec (k : Nat) (s : St) (L : List Nat) (h : Inv s L) :
    (∃ b, (normalize k s).1 = some b ∧ Good k 3 s (normalize k s).2 ∧ Inv (normalize k s).2 (b :: L)) ∨
    ((normalize k s).1 = none ∧ Bad k 3 s (normalize k s).2 ∧ Inv (normalize k s).2 L) := by
  simp only [normalize]
  rcases alloc_cases k s with ⟨hk, ha⟩ | ⟨hk, ha⟩ <;> simp only [ha]
  · right
    exact ⟨trivial, (Bad.alloc hk).mono (by omega), h.fail⟩
  · have g1 := Good.alloc hk
    have i1 := h.alloc
    generalize ({ count := s.count + 1, evs := s.evs ++ [.alloc (s.count + 1)] } : St) = s1 at g1 i1 ⊢
    generalize s.count + 1 = b1 at g1 i1 ⊢
    rcases alloc_cases k s1 with ⟨hk, ha⟩ | ⟨hk, ha⟩ <;> simp only [ha]
    · right
      exact ⟨trivial, g1.bad' ((Bad.alloc hk).free _) (by omega), Inv.free i1.fail⟩
    · have g2 := (g1.trans (Good.alloc hk)).free b1
      have i2 : Inv (free b1 { count := s1.count + 1, evs := s1.evs ++ [.alloc (s1.count + 1)] }) ((s1.count + 1) :: L) :=
        Inv.free (i1.alloc.perm (by perm_ac))
      generalize (free b1 { count := s1.count + 1, evs := s1.evs ++ [.alloc (s1.count + 1)] } : St) = s2 at g2 i2 ⊢
      generalize s1.count + 1 = b2 at g2 i2 ⊢
      rcases alloc_cases k s2 with ⟨hk, ha⟩ | ⟨hk, ha⟩ <;> simp only [ha]
      · right
        exact ⟨trivial, g2.bad' ((Bad.alloc hk).free _) (by omega), Inv.free i2.fail⟩
      · left
        exact ⟨_, rfl, (g2.trans (Good.alloc hk)).free _, Inv.free (i2.alloc.perm (by perm_ac))⟩

theorem normNames_spec (k arr : Nat) : ∀ (n : Nat) (done : List Nat) (s : St) (L : List Nat),
    Inv s (arr :: (done ++ L)) →
    (∃ keys, (normNames k arr n done s).1 = some keys ∧ Good k (3 * n) s (normNames k arr n done s).2 ∧
        Inv (normNames k arr n done s).2 (arr :: (keys ++ L)) ∧ keys.length = done.length + n) ∨
    ((normNames k arr n done s).1 = none ∧ Bad k (3 * n) s (normNames k arr n done s).2 ∧
        Inv (normNames k arr n done s).2 L) := by
  intro n
  induction n with
  | zero =>
    intro done s L h
    left
    simp only [normNames]
    refine ⟨_, rfl, Good.refl k s, h.perm ?_, by simp⟩
    exact List.Perm.cons _ (List.Perm.append_right _ (List.reverse_perm done).symm)
  | succ n ih =>
    intro done s L h
    simp only [normNames]
    have hh := normalize_spec k s _ h
    generalize normalize k s = r at hh ⊢
    obtain ⟨ro, rs⟩ := r
    rcases hh with ⟨b, h1, h2, h3⟩ | ⟨h1, h2, h3⟩ <;> simp only at h1 h2 h3 <;> subst h1 <;> simp only
    · have i1 : Inv rs (arr :: ((b :: done) ++ L)) := h3.perm (by perm_ac)
      rcases ih (b :: done) rs L i1 with ⟨keys, e1, e2, e3, e4⟩ | ⟨e1, e2, e3⟩
      · left
        exact ⟨keys, e1, h2.trans' e2 (by omega), e3, by rw [e4]; simp; omega⟩
      · right
        exact ⟨e1, h2.bad' e2 (by omega), e3⟩
    · right
      have i1 : Inv rs (done ++ (arr :: L)) := h3.perm (by perm_ac)
      have i2 := i1.freeAll done _ _
      exact ⟨trivial, ((h2.same (Same.freeAll done rs)).free _).mono (by omega), i2.free⟩

-- ---------------------------------------------------------------------------------------------------------------
-- entries of the packet's map

theorem entriesIds_append (a b : List Entry) : entriesIds (a ++ b) = entriesIds a ++ entriesIds b := by
  induction a with
  | nil => simp [entriesIds]
  | cons e es ih => simp [entriesIds, ih]

theorem entriesIds_perm {a b : List Entry} (p : a.Perm b) : (entriesIds a).Perm (entriesIds b) := by
  induction p with
  | nil => exact List.Perm.refl _
  | cons x _ ih => simp only [entriesIds]; exact List.Perm.append_left _ ih
  | swap x y l => simp only [entriesIds]; perm_ac
  | trans _ _ ih1 ih2 => exact ih1.trans ih2

/-- entries without a separate original spelling: their blocks are the entry objects and the keys -/
theorem entriesIds_alias : ∀ (es : List Entry), (∀ e ∈ es, e.orig = none) →
    (entriesIds es).Perm (es.map (·.ent) ++ es.map (·.key))
  | [], _ => by simp [entriesIds]
  | e :: es, h => by
    have ih := entriesIds_alias es (fun e' he' => h e' (List.mem_cons_of_mem _ he'))
    have he := h e (List.mem_cons_self ..)
    simp only [entriesIds, Entry.ids, he, Option.toList, List.map_cons]
    rw [List.perm_iff_count] at ih ⊢
    intro x
    have := ih x
    simp only [List.count_cons, List.count_append, List.cons_append, List.nil_append] at this ⊢
    omega

theorem freeEntry_alias (e : Entry) (he : e.orig = none) (s : St) (L : List Nat) (h : Inv s (e.ent :: L)) :
    Inv (freeEntry false e s) L ∧ Same s (freeEntry false e s) := by
  obtain ⟨ent, key, orig⟩ := e
  simp only at he
  subst he
  simp only [freeEntry, Bool.false_eq_true, if_false]
  exact ⟨h.free, (Same.refl s).free _⟩

theorem freeEntry_standalone (e : Entry) (s : St) (L : List Nat) (h : Inv s (e.ids ++ L)) :
    Inv (freeEntry true e s) L ∧ Same s (freeEntry true e s) := by
  obtain ⟨ent, key, orig⟩ := e
  cases orig with
  | none =>
    simp only [freeEntry, if_true]
    have h1 : Inv s (key :: ent :: L) := h.perm (by simp only [Entry.ids]; perm_ac)
    exact ⟨h1.free.free, ((Same.refl s).free _).free _⟩
  | some o =>
    simp only [freeEntry, if_true]
    have h1 : Inv s (key :: o :: ent :: L) := h.perm (by simp only [Entry.ids]; perm_ac)
    exact ⟨h1.free.free.free, (((Same.refl s).free _).free _).free _⟩

/-- cif_map_clean of a non-stand-alone map (keys aliased): entry objects, bucket array (if any) and table are released;
    the keys stay live -/
theorem freeEntries_alias (t : Nat) (bk : Option Nat) : ∀ (es : List Entry) (s : St) (L : List Nat),
    (∀ e ∈ es, e.orig = none) → es ≠ [] → Inv s (es.map (·.ent) ++ (t :: (bk.toList ++ L))) →
    Inv (freeEntries false t bk es s) L ∧ Same s (freeEntries false t bk es s)
  | [], _, _, _, hne, _ => absurd rfl hne
  | [e], s, L, ho, _, h => by
    have he := ho e (List.mem_cons_self ..)
    simp only [freeEntries, List.isEmpty_nil, if_true]
    cases bk with
    | none =>
      have h1 : Inv s (t :: e.ent :: L) := h.perm (by perm_ac)
      have ⟨f1, f2⟩ := freeEntry_alias e he _ L h1.free
      exact ⟨f1, ((Same.refl s).free _).trans f2⟩
    | some b =>
      have h1 : Inv s (b :: t :: e.ent :: L) := h.perm (by perm_ac)
      have ⟨f1, f2⟩ := freeEntry_alias e he _ L h1.free.free
      exact ⟨f1, (((Same.refl s).free _).free _).trans f2⟩
  | e :: e' :: es, s, L, ho, _, h => by
    have he := ho e (List.mem_cons_self ..)
    simp only [freeEntries, List.isEmpty_cons, Bool.false_eq_true, if_false]
    have h1 : Inv s (e.ent :: ((e' :: es).map (·.ent) ++ (t :: (bk.toList ++ L)))) := h.perm (by perm_ac)
    have ⟨f1, f2⟩ := freeEntry_alias e he s _ h1
    have ⟨g1, g2⟩ := freeEntries_alias t bk (e' :: es) _ L (fun x hx => ho x (List.mem_cons_of_mem _ hx))
      (List.cons_ne_nil _ _) f1
    simp only [freeEntries] at g1 g2
    exact ⟨g1, f2.trans g2⟩

/-- cif_map_clean of a stand-alone map: everything the entries own, bucket array and table -/
theorem freeEntries_standalone (t b : Nat) : ∀ (es : List Entry) (s : St) (L : List Nat),
    es ≠ [] → Inv s (entriesIds es ++ (t :: b :: L)) →
    Inv (freeEntries true t (some b) es s) L ∧ Same s (freeEntries true t (some b) es s)
  | [], _, _, hne, _ => absurd rfl hne
  | [e], s, L, _, h => by
    simp only [freeEntries, List.isEmpty_nil, if_true]
    have h1 : Inv s (b :: t :: (e.ids ++ L)) := h.perm (by simp only [entriesIds]; perm_ac)
    have ⟨f1, f2⟩ := freeEntry_standalone e _ L h1.free.free
    exact ⟨f1, (((Same.refl s).free _).free _).trans f2⟩
  | e :: e' :: es, s, L, _, h => by
    simp only [freeEntries, List.isEmpty_cons, Bool.false_eq_true, if_false]
    have h1 : Inv s (e.ids ++ (entriesIds (e' :: es) ++ (t :: b :: L))) := h.perm (by simp only [entriesIds]; perm_ac)
    have ⟨f1, f2⟩ := freeEntry_standalone e s _ h1
    have ⟨g1, g2⟩ := freeEntries_standalone t b (e' :: es) _ L (List.cons_ne_nil _ _) f1
    simp only [freeEntries] at g1 g2
    exact ⟨g1, f2.trans g2⟩

-- ---------------------------------------------------------------------------------------------------------------
-- cif_packet_create_norm

/-- the 2nd, 3rd, … entry.  `keys` (still to be used) and the keys of `done` are live throughout; on failure the entry
    objects, the bucket array, the table and the packet are released and all keys are still live -/
theorem moreEntries_spec (k pkt t b : Nat) : ∀ (keys : List Nat) (done : List Entry) (s : St) (L : List Nat),
    done ≠ [] → (∀ e ∈ done, e.orig = none) →
    Inv s (done.map (·.ent) ++ (t :: b :: pkt :: (done.map (·.key) ++ keys ++ L))) →
    (∃ es, (moreEntries k pkt t b keys done s).1 = some es ∧ Good k keys.length s (moreEntries k pkt t b keys done s).2 ∧
        Inv (moreEntries k pkt t b keys done s).2 (entriesIds es ++ (t :: b :: pkt :: L)) ∧
        (∀ e ∈ es, e.orig = none) ∧ es.length = done.length + keys.length) ∨
    ((moreEntries k pkt t b keys done s).1 = none ∧ Bad k keys.length s (moreEntries k pkt t b keys done s).2 ∧
        Inv (moreEntries k pkt t b keys done s).2 (done.map (·.key) ++ keys ++ L))
  | [], done, s, L, hne, ho, h => by
    left
    simp only [moreEntries]
    have ho' : ∀ e ∈ done.reverse, e.orig = none := fun e he => ho e (List.mem_reverse.mp he)
    refine ⟨_, rfl, Good.refl k s, ?_, ho', by simp⟩
    have p1 := entriesIds_alias done.reverse ho'
    have p2 : (done.reverse.map (·.ent)).Perm (done.map (·.ent)) := (List.reverse_perm done).map _
    have p3 : (done.reverse.map (·.key)).Perm (done.map (·.key)) := (List.reverse_perm done).map _
    refine h.perm ?_
    rw [List.perm_iff_count] at p1 p2 p3 ⊢
    intro x
    have := p1 x; have := p2 x; have := p3 x
    simp only [List.count_cons, List.count_append, List.append_nil] at *
    omega
  | key :: rest, done, s, L, hne, ho, h => by
    simp only [moreEntries]
    rcases alloc_cases k s with ⟨hk, ha⟩ | ⟨hk, ha⟩ <;> simp only [ha]
    · right
      simp only [packetFree]
      have ho' : ∀ e ∈ done.reverse, e.orig = none := fun e he => ho e (List.mem_reverse.mp he)
      have hne' : done.reverse ≠ [] := by simpa using hne
      have p2 : (done.reverse.map (·.ent)).Perm (done.map (·.ent)) := (List.reverse_perm done).map _
      have i1 : Inv { count := s.count + 1, evs := s.evs ++ [.fail (s.count + 1)] }
          (done.reverse.map (·.ent) ++ (t :: ((some b).toList ++ (pkt :: (done.map (·.key) ++ (key :: rest) ++ L))))) := by
        refine h.fail.perm ?_
        rw [List.perm_iff_count] at p2 ⊢
        intro x
        have := p2 x
        simp only [List.count_cons, List.count_append, Option.toList, List.cons_append, List.nil_append] at *
        omega
      have ⟨f1, f2⟩ := freeEntries_alias t (some b) done.reverse _ _ ho' hne' i1
      exact ⟨trivial, (((Bad.alloc hk).same f2).free _).mono (by simp), f1.free⟩
    · have i1 : Inv { count := s.count + 1, evs := s.evs ++ [.alloc (s.count + 1)] }
          ((({ ent := s.count + 1, key := key } : Entry) :: done).map (·.ent) ++
            (t :: b :: pkt :: ((({ ent := s.count + 1, key := key } : Entry) :: done).map (·.key) ++ rest ++ L))) :=
        h.alloc.perm (by perm_ac)
      have ho1 : ∀ e ∈ ({ ent := s.count + 1, key := key } : Entry) :: done, e.orig = none := by
        intro e he
        rcases List.mem_cons.mp he with rfl | he
        · rfl
        · exact ho e he
      rcases moreEntries_spec k pkt t b rest (_ :: done) _ L (List.cons_ne_nil _ _) ho1 i1
        with ⟨es, e1, e2, e3, e4, e5⟩ | ⟨e1, e2, e3⟩
      · left
        exact ⟨es, e1, (Good.alloc hk).trans' e2 (by simp; omega), e3, e4, by rw [e5]; simp; omega⟩
      · right
        exact ⟨e1, (Good.alloc hk).bad' e2 (by simp; omega), e3.perm (by perm_ac)⟩

/-- number of requests of cif_packet_create_norm for n names (fault-free): the packet, n entries, and for n > 0 uthash's
    table and bucket array -/
def normAllocs (n : Nat) : Nat := if n = 0 then 1 else n + 3

theorem createNorm_spec (fixed : Bool) (k : Nat) (keys : List Nat) (s : St) (L : List Nat) (h : Inv s (keys ++ L)) :
    (∃ pkt tbl es, (createNorm fixed k keys s).1 = .ok (pkt, tbl, es) ∧
        Good k (normAllocs keys.length) s (createNorm fixed k keys s).2 ∧
        Inv (createNorm fixed k keys s).2 (PacketOwned.ids ⟨pkt, tbl, es⟩ ++ L) ∧
        (∀ e ∈ es, e.orig = none) ∧ es.length = keys.length ∧ (tbl = none → keys = [])) ∨
    ((createNorm fixed k keys s).1 = .err ∧ Bad k (normAllocs keys.length) s (createNorm fixed k keys s).2 ∧
        Inv (createNorm fixed k keys s).2 (keys ++ L) ∧ (k = s.count + 3 → keys ≠ [] → fixed = true)) ∨
    ((createNorm fixed k keys s).1 = .undefined ∧ fixed = false ∧ keys ≠ [] ∧ k = s.count + 3 ∧
        Bad k (normAllocs keys.length) s (createNorm fixed k keys s).2) := by
  simp only [createNorm]
  rcases alloc_cases k s with ⟨hk, ha⟩ | ⟨hk, ha⟩ <;> simp only [ha]
  · right; left
    exact ⟨trivial, (Bad.alloc hk).mono (by unfold normAllocs; split <;> omega), h.fail, fun h3 => by omega⟩
  · have g1 := Good.alloc hk
    have i1 := h.alloc
    have c1 : ({ count := s.count + 1, evs := s.evs ++ [.alloc (s.count + 1)] } : St).count = s.count + 1 := rfl
    generalize ({ count := s.count + 1, evs := s.evs ++ [.alloc (s.count + 1)] } : St) = s1 at g1 i1 c1 ⊢
    generalize s.count + 1 = pkt at g1 i1 ⊢
    cases keys with
    | nil =>
      left
      exact ⟨pkt, none, [], rfl, g1, by simpa [PacketOwned.ids, entriesIds] using i1, by simp, rfl, fun _ => rfl⟩
    | cons key rest =>
      have hN : normAllocs (key :: rest).length = rest.length + 4 := by simp [normAllocs]
      rw [hN]
      simp only
      rcases alloc_cases k s1 with ⟨hk, ha⟩ | ⟨hk, ha⟩ <;> simp only [ha]
      · right; left
        simp only [packetFree]
        exact ⟨trivial, g1.bad' ((Bad.alloc hk).free _) (by omega), Inv.free i1.fail, fun h3 => by omega⟩
      · have g2 := g1.trans (Good.alloc hk)
        have i2 := i1.alloc
        have c2 : ({ count := s1.count + 1, evs := s1.evs ++ [.alloc (s1.count + 1)] } : St).count = s.count + 2 := by
          simp [c1]
        generalize ({ count := s1.count + 1, evs := s1.evs ++ [.alloc (s1.count + 1)] } : St) = s2 at g2 i2 c2 ⊢
        generalize s1.count + 1 = ent at g2 i2 ⊢
        rcases alloc_cases k s2 with ⟨hk, ha⟩ | ⟨hk, ha⟩ <;> simp only [ha]
        · cases fixed with
          | true =>
            right; left
            simp only [if_true]
            exact ⟨trivial, g2.bad' (((Bad.alloc hk).free _).free _) (by omega), Inv.free (Inv.free (i2.fail.perm (by perm_ac))),
              fun _ _ => trivial⟩
          | false =>
            right; right
            simp only [Bool.false_eq_true, if_false]
            exact ⟨trivial, trivial, List.cons_ne_nil _ _, by omega, g2.bad' (Bad.alloc hk) (by omega)⟩
        · have g3 := g2.trans (Good.alloc hk)
          have i3 := i2.alloc
          have c3 : ({ count := s2.count + 1, evs := s2.evs ++ [.alloc (s2.count + 1)] } : St).count = s.count + 3 := by
            simp [c2]
          generalize ({ count := s2.count + 1, evs := s2.evs ++ [.alloc (s2.count + 1)] } : St) = s3 at g3 i3 c3 ⊢
          generalize s2.count + 1 = t at g3 i3 ⊢
          rcases alloc_cases k s3 with ⟨hk, ha⟩ | ⟨hk, ha⟩ <;> simp only [ha]
          · right; left
            simp only [packetFree]
            have i4 : Inv { count := s3.count + 1, evs := s3.evs ++ [.fail (s3.count + 1)] }
                ([({ ent := ent, key := key } : Entry)].map (·.ent) ++ (t :: ((none : Option Nat).toList ++ (pkt :: (key :: rest ++ L))))) :=
              i3.fail.perm (by perm_ac)
            have ⟨f1, f2⟩ := freeEntries_alias t none [{ ent := ent, key := key }] _ _
              (by intro e he; rcases List.mem_singleton.mp he with rfl; rfl) (List.cons_ne_nil _ _) i4
            exact ⟨trivial, g3.bad' (((Bad.alloc hk).same f2).free _) (by omega), f1.free, fun h3 => by omega⟩
          · have g4 := g3.trans (Good.alloc hk)
            have i4 : Inv { count := s3.count + 1, evs := s3.evs ++ [.alloc (s3.count + 1)] }
                ([({ ent := ent, key := key } : Entry)].map (·.ent) ++
                  (t :: (s3.count + 1) :: pkt :: ([({ ent := ent, key := key } : Entry)].map (·.key) ++ rest ++ L))) :=
              i3.alloc.perm (by perm_ac)
            have c4 : ({ count := s3.count + 1, evs := s3.evs ++ [.alloc (s3.count + 1)] } : St).count = s.count + 4 := by
              simp [c3]
            have hh := moreEntries_spec k pkt t (s3.count + 1) rest [{ ent := ent, key := key }] _ L
              (List.cons_ne_nil _ _) (by intro e he; rcases List.mem_singleton.mp he with rfl; rfl) i4
            generalize ({ count := s3.count + 1, evs := s3.evs ++ [.alloc (s3.count + 1)] } : St) = s4 at g4 c4 hh ⊢
            generalize s3.count + 1 = b at hh ⊢
            generalize moreEntries k pkt t b rest [{ ent := ent, key := key }] s4 = r at hh ⊢
            obtain ⟨ro, rs⟩ := r
            rcases hh with ⟨es, e1, e2, e3, e4, e5⟩ | ⟨e1, e2, e3⟩ <;> simp only at e1 e2 e3 <;> subst e1 <;> simp only
            · left
              refine ⟨pkt, some (t, b), es, rfl, g4.trans' e2 (by omega), e3.perm ?_, e4, by rw [e5]; simp; omega,
                fun h => by cases h⟩
              simp only [PacketOwned.ids]; perm_ac
            · right; left
              refine ⟨trivial, g4.bad' e2 (by omega), e3.perm (by perm_ac), fun h3 => ?_⟩
              have := e2.1; omega

-- ---------------------------------------------------------------------------------------------------------------
-- copies of the respelled names, and the whole of cif_packet_create

def tblIds (tbl : Option (Nat × Nat)) : List Nat := match tbl with | some (t, b) => [t, b] | none => []

theorem packetOwned_ids (pkt : Nat) (tbl : Option (Nat × Nat)) (es : List Entry) :
    PacketOwned.ids ⟨pkt, tbl, es⟩ = pkt :: (tblIds tbl ++ entriesIds es) := rfl

/-- number of respelled names among the entries still to be visited -/
def countR : List (Bool × Entry) → Nat
  | [] => 0
  | (r, _) :: rest => (if r then 1 else 0) + countR rest

theorem respell_spec (k pkt arr : Nat) (tbl : Option (Nat × Nat)) : ∀ (todo : List (Bool × Entry)) (done : List Entry)
    (s : St) (L : List Nat), (∀ p ∈ todo, p.2.orig = none) → (tbl = none → todo = []) →
    Inv s (entriesIds done ++ (entriesIds (todo.map (·.2)) ++ (tblIds tbl ++ (pkt :: arr :: L)))) →
    (∃ es, (respell k pkt arr tbl todo done s).1 = some es ∧ Good k (countR todo) s (respell k pkt arr tbl todo done s).2 ∧
        Inv (respell k pkt arr tbl todo done s).2 (entriesIds es ++ (tblIds tbl ++ (pkt :: arr :: L)))) ∨
    ((respell k pkt arr tbl todo done s).1 = none ∧ Bad k (countR todo) s (respell k pkt arr tbl todo done s).2 ∧
        Inv (respell k pkt arr tbl todo done s).2 L)
  | [], done, s, L, _, _, h => by
    left
    simp only [respell, countR]
    refine ⟨_, rfl, Good.refl k s, h.perm ?_⟩
    have p := entriesIds_perm (List.reverse_perm done)
    rw [List.perm_iff_count] at p ⊢
    intro x
    have := p x
    simp only [List.count_cons, List.count_append, List.map_nil, entriesIds, List.count_nil] at *
    omega
  | (r, e) :: rest, done, s, L, ho, ht, h => by
    have he : e.orig = none := ho (r, e) (List.mem_cons_self ..)
    have ho' : ∀ p ∈ rest, p.2.orig = none := fun p hp => ho p (List.mem_cons_of_mem _ hp)
    have ht' : tbl = none → rest = [] := fun hn => by cases ht hn
    cases r with
    | false =>
      simp only [respell, countR, Bool.false_eq_true, if_false, Nat.zero_add]
      exact respell_spec k pkt arr tbl rest (e :: done) s L ho' ht'
        (h.perm (by simp only [entriesIds, List.map_cons]; perm_ac))
    | true =>
      simp only [respell, countR, if_true]
      rcases alloc_cases k s with ⟨hk, ha⟩ | ⟨hk, ha⟩ <;> simp only [ha]
      · right
        obtain ⟨t, b, hb⟩ : ∃ t b, tbl = some (t, b) := by
          cases tbl with
          | none => cases ht rfl
          | some tb => exact ⟨tb.1, tb.2, rfl⟩
        subst hb
        simp only [Option.map_some, packetFree]
        have p := entriesIds_perm (List.reverse_perm done)
        have i1 : Inv { count := s.count + 1, evs := s.evs ++ [.fail (s.count + 1)] }
            (entriesIds (done.reverse ++ e :: rest.map (·.2)) ++ (t :: b :: (pkt :: arr :: L))) := by
          refine h.fail.perm ?_
          rw [entriesIds_append]
          rw [List.perm_iff_count] at p ⊢
          intro x
          have := p x
          simp only [List.count_cons, List.count_append, List.map_cons, entriesIds, tblIds, List.count_nil] at *
          omega
        have ⟨f1, f2⟩ := freeEntries_standalone t b _ _ _ (by simp) i1
        exact ⟨trivial, ((((Bad.alloc hk).same f2).free _).free _).mono (by omega), f1.free.free⟩
      · have i1 : Inv { count := s.count + 1, evs := s.evs ++ [.alloc (s.count + 1)] }
            (entriesIds ({ e with orig := some (s.count + 1) } :: done) ++
              (entriesIds (rest.map (·.2)) ++ (tblIds tbl ++ (pkt :: arr :: L)))) := by
          refine h.alloc.perm ?_
          simp only [entriesIds, List.map_cons, Entry.ids, he, Option.toList]
          perm_ac
        rcases respell_spec k pkt arr tbl rest (_ :: done) _ L ho' ht' i1 with ⟨es, e1, e2, e3⟩ | ⟨e1, e2, e3⟩
        · left
          exact ⟨es, e1, (Good.alloc hk).trans e2, e3⟩
        · right
          exact ⟨e1, (Good.alloc hk).bad e2, e3⟩

def countTrue : List Bool → Nat
  | [] => 0
  | b :: bs => (if b then 1 else 0) + countTrue bs

theorem countR_zip : ∀ (flags : List Bool) (es : List Entry), es.length = flags.length →
    countR (flags.zip es) = countTrue flags
  | [], _, _ => by simp [countR, countTrue]
  | f :: fs, [], h => by simp at h
  | f :: fs, e :: es, h => by
    simp only [List.zip_cons_cons, countR, countTrue]
    rw [countR_zip fs es (by simpa using h)]

/-- number of requests of cif_packet_create (fault-free): the array, three buffers per name, cif_packet_create_norm, one
    copy per respelled name -/
def packetAllocs (flags : List Bool) : Nat := 1 + 3 * flags.length + normAllocs flags.length + countTrue flags

theorem packetCreateGen_spec (fixed : Bool) (k : Nat) (flags : List Bool) (s : St) (L : List Nat) (h : Inv s L) :
    (∃ p, (packetCreateGen fixed k flags s).1 = OK ∧ (packetCreateGen fixed k flags s).2.1 = some p ∧
        Good k (packetAllocs flags) s (packetCreateGen fixed k flags s).2.2 ∧
        Inv (packetCreateGen fixed k flags s).2.2 (p.ids ++ L)) ∨
    ((packetCreateGen fixed k flags s).1 = MEMORY_ERROR ∧ (packetCreateGen fixed k flags s).2.1 = none ∧
        Bad k (packetAllocs flags) s (packetCreateGen fixed k flags s).2.2 ∧
        Inv (packetCreateGen fixed k flags s).2.2 L ∧
        (k = s.count + 3 * flags.length + 4 → flags ≠ [] → fixed = true)) ∨
    ((packetCreateGen fixed k flags s).1 = UNDEFINED ∧ (packetCreateGen fixed k flags s).2.1 = none ∧ fixed = false ∧
        flags ≠ [] ∧ k = s.count + 3 * flags.length + 4 ∧
        Bad k (packetAllocs flags) s (packetCreateGen fixed k flags s).2.2) := by
  simp only [packetCreateGen, packetAllocs]
  rcases alloc_cases k s with ⟨hk, ha⟩ | ⟨hk, ha⟩ <;> simp only [ha]
  · right; left
    exact ⟨trivial, trivial, (Bad.alloc hk).mono (by omega), h.fail, fun h3 => by omega⟩
  · have g1 := Good.alloc hk
    have i1 : Inv { count := s.count + 1, evs := s.evs ++ [.alloc (s.count + 1)] } ((s.count + 1) :: ([] ++ L)) := h.alloc
    generalize ({ count := s.count + 1, evs := s.evs ++ [.alloc (s.count + 1)] } : St) = s1 at g1 i1 ⊢
    generalize s.count + 1 = arr at g1 i1 ⊢
    have hh := normNames_spec k arr flags.length [] s1 L i1
    generalize normNames k arr flags.length [] s1 = r at hh ⊢
    obtain ⟨ro, s2⟩ := r
    rcases hh with ⟨keys, h1, h2, h3, h4⟩ | ⟨h1, h2, h3⟩ <;> simp only at h1 h2 h3 <;> subst h1 <;> simp only
    · have g2 := g1.trans h2
      have hlen : keys.length = flags.length := by simpa using h4
      have hkn : keys ≠ [] ↔ flags ≠ [] := by
        rw [← List.length_pos_iff, ← List.length_pos_iff, hlen]
      have c2 : s2.count = s.count + (1 + 3 * flags.length) := g2.1
      have hh := createNorm_spec fixed k keys s2 (arr :: L) (h3.perm (by perm_ac))
      rw [hlen] at hh
      generalize createNorm fixed k keys s2 = r at hh ⊢
      obtain ⟨ro, s3⟩ := r
      rcases hh with ⟨pkt, tbl, es, e1, e2, e3, e4, e5, e6⟩ | ⟨e1, e2, e3, e4⟩ | ⟨e1, e2, e3, e4, e5⟩ <;>
        simp only at e1 e2 e3 <;> subst e1 <;> simp only
      · have g3 := g2.trans e2
        have c3 : s3.count = s2.count + normAllocs flags.length := e2.1
        have hz : ∀ p ∈ flags.zip es, p.2.orig = none := by
          intro p hp
          exact e4 p.2 (List.of_mem_zip hp).2
        have ht : tbl = none → flags.zip es = [] := by
          intro hn
          have := e6 hn
          subst this
          have : flags = [] := List.eq_nil_of_length_eq_zero (by simpa using hlen.symm)
          subst this; rfl
        have hmap : (flags.zip es).map (·.2) = es := by
          rw [← List.unzip_snd, List.unzip_zip (by omega)]
        have i3 : Inv s3 (entriesIds [] ++ (entriesIds ((flags.zip es).map (·.2)) ++ (tblIds tbl ++ (pkt :: arr :: L)))) := by
          rw [hmap]
          refine e3.perm ?_
          rw [packetOwned_ids]
          simp only [entriesIds]; perm_ac
        have hh := respell_spec k pkt arr tbl (flags.zip es) [] s3 L hz ht i3
        rw [countR_zip flags es (by omega)] at hh
        generalize respell k pkt arr tbl (flags.zip es) [] s3 = r at hh ⊢
        obtain ⟨ro, s4⟩ := r
        rcases hh with ⟨es', r1, r2, r3⟩ | ⟨r1, r2, r3⟩ <;> simp only at r1 r2 r3 <;> subst r1 <;> simp only
        · left
          refine ⟨_, by trivial, rfl, ((g3.trans r2).free _).trans' (Good.refl k _) (by omega), ?_⟩
          rw [packetOwned_ids]
          exact Inv.free (r3.perm (by perm_ac))
        · right; left
          refine ⟨by trivial, by trivial, g3.bad' r2 (by omega), r3, fun h3 hne => ?_⟩
          have := r2.1
          have hn : flags.length ≠ 0 := fun h0 => hne (List.eq_nil_of_length_eq_zero h0)
          unfold normAllocs at c3
          rw [if_neg hn] at c3
          omega
      · right; left
        have i3 : Inv s3 (keys.reverse ++ (arr :: L)) :=
          e3.perm (List.Perm.append_right _ (List.reverse_perm keys).symm)
        have i4 := i3.freeAll keys.reverse _ _
        refine ⟨by trivial, by trivial, (g2.bad' ((e2.same (Same.freeAll keys.reverse s3)).free _) (by omega)), i4.free,
          fun h3 hne => e4 (by omega) (hkn.mpr hne)⟩
      · right; right
        exact ⟨by trivial, by trivial, e2, hkn.mp e3, by omega, g2.bad' e5 (by omega)⟩
    · right; left
      refine ⟨by trivial, by trivial, g1.bad' h2 (by omega), h3, fun h3 => ?_⟩
      have := h2.2.1
      have := g1.1
      omega

end CifModel.Lemmas.Ladder
