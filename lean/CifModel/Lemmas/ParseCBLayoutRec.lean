import CifModel.Lemmas.ParseCBLayoutDup
import CifModel.Model.ParseCBRec
/-
  CifModel.Lemmas.ParseCBLayoutRec — the layout relation of Lemmas/ParseCBLayout.lean for the productions with the token-level
  recoveries (Model/ParseCBRec.lean, the model the `pcb` driver runs): two runs of `parseCBR` on token sequences that differ in layout
  only stay related; same result, same stored CIF, same callbacks other than whitespace callbacks.
-/
set_option linter.unusedSimpArgs false
set_option linter.unusedVariables false

namespace CifModel.Lemmas.ParseCB
open CifModel.ParseCB

variable {p : Prog} {all all' : List Tok}

theorem itemR_rel (fuel : Nat) (cont : Bool) (name : Option Str) {s s' : St} (h : Rel p all all' s s') :
    (parseItemR p fuel cont name s').1 = (parseItemR p fuel cont name s).1
    ∧ Rel p all all' (parseItemR p fuel cont name s).2.1 (parseItemR p fuel cont name s').2.1
    ∧ (parseItemR p fuel cont name s').2.2 = (parseItemR p fuel cont name s).2.2 := by
  obtain ⟨n1, n2⟩ := nextToken_rel h
  have hi := inc_rel n2
  obtain ⟨a, b, c⟩ := pv_rel fuel hi
  unfold parseItemR
  simp only [n1]
  by_cases h1 : (!isValueStart (nextToken s).1) = true
  · simp only [h1, if_true]
    have hr := report_rel hi CifModel.Gen.ErrCodes.CIF_MISSING_VALUE
    cases name with
    | none => exact ⟨rfl, dec_rel hr, rfl⟩
    | some nm =>
      dsimp only
      simp only [scalarItemStep, hr.n]
      obtain ⟨q1, q2⟩ := site_rel hr (.item nm .unk) rfl none (some 2)
      exact ⟨q1, dec_rel q2, (by tr)⟩
  · simp only [h1, Bool.false_eq_true, if_false]
    rw [a]
    by_cases h2 : (parseValue fuel (inc (nextToken s).2)).1 = OK
    · simp only [h2, if_true]
      cases name with
      | none => exact ⟨rfl, dec_rel c, rfl⟩
      | some nm =>
        dsimp only
        simp only [scalarItemStep, b, c.n]
        obtain ⟨q1, q2⟩ := site_rel c (.item nm (parseValue fuel (inc (nextToken s).2)).2.1) rfl none (some 2)
        exact ⟨q1, dec_rel q2, (by tr)⟩
    · simp only [h2, if_false]; exact ⟨(by tr), dec_rel c, (by tr)⟩

theorem packetsR_rel (loopH : Bool) (slots : List (Option Str)) : ∀ (fuel : Nat) (s s' : St) (k : PkSt), Rel p all all' s s' →
    (packetsLoopR p loopH slots fuel s' k).1 = (packetsLoopR p loopH slots fuel s k).1
    ∧ Rel p all all' (packetsLoopR p loopH slots fuel s k).2.1 (packetsLoopR p loopH slots fuel s' k).2.1
    ∧ (packetsLoopR p loopH slots fuel s' k).2.2 = (packetsLoopR p loopH slots fuel s k).2.2
  | 0, s, s', k, h => ⟨rfl, h, rfl⟩
  | fuel + 1, s, s', k, h => by
    have ih := packetsR_rel loopH slots fuel
    obtain ⟨n1, n2⟩ := nextToken_rel h
    unfold packetsLoopR
    simp only [n1]
    by_cases hval : isValueStart (nextToken s).1 = true
    · simp only [hval, if_true]
      have hs1 : (if k.col = 0 then pktStartStep p (nextToken s').2 else (OK, (nextToken s').2)).1
            = (if k.col = 0 then pktStartStep p (nextToken s).2 else (OK, (nextToken s).2)).1
          ∧ Rel p all all' (if k.col = 0 then pktStartStep p (nextToken s).2 else (OK, (nextToken s).2)).2
              (if k.col = 0 then pktStartStep p (nextToken s').2 else (OK, (nextToken s').2)).2 := by
        by_cases h0 : k.col = 0
        · simp only [h0, if_true]; exact pktStart_rel n2
        · simp only [h0, if_false]; exact ⟨(by tr), n2⟩
      generalize (if k.col = 0 then pktStartStep p (nextToken s).2 else (OK, (nextToken s).2)) = s1 at hs1 ⊢
      generalize (if k.col = 0 then pktStartStep p (nextToken s').2 else (OK, (nextToken s').2)) = s1' at hs1 ⊢
      obtain ⟨e1, e2⟩ := hs1
      rw [e1]
      by_cases h1 : s1.1 = OK
      · simp only [h1, ne_eq, not_true_eq_false, if_false]
        obtain ⟨a, b, c⟩ := pv_rel fuel e2
        rw [a, b]
        obtain ⟨i1, i2⟩ := itemStepD_rel (p := p) (slots.getD k.col none) (parseValue fuel s1.2).1 (parseValue fuel s1.2).2.1 c
        generalize itemStepD p (slots.getD k.col none) (parseValue fuel s1.2).1 (parseValue fuel s1.2).2.1 (parseValue fuel s1.2).2.2 = it at i1 i2 ⊢
        generalize itemStepD p (slots.getD k.col none) (parseValue fuel s1.2).1 (parseValue fuel s1.2).2.1 (parseValue fuel s1'.2).2.2 = it' at i1 i2 ⊢
        rw [i1]
        by_cases h2 : it.1 = OK
        · simp only [h2, not_true_eq_false, if_false]
          by_cases hcol : (k.col + 1) % slots.length = 0
          · simp only [hcol, if_true]
            obtain ⟨pe1, pe2, pe3⟩ := pktEnd_rel (p := p) (List.zip (slots.filterMap id)
              (if (slots.getD k.col none).isSome then k.row ++ [(parseValue fuel s1.2).2.1] else k.row)) i2
            generalize pktEndStep p (List.zip (slots.filterMap id)
              (if (slots.getD k.col none).isSome then k.row ++ [(parseValue fuel s1.2).2.1] else k.row)) it.2 = pe at pe1 pe2 pe3 ⊢
            generalize pktEndStep p (List.zip (slots.filterMap id)
              (if (slots.getD k.col none).isSome then k.row ++ [(parseValue fuel s1.2).2.1] else k.row)) it'.2 = pe' at pe1 pe2 pe3 ⊢
            rw [pe1, pe3]
            by_cases h3 : pe.1 = OK
            · simp only [h3, not_true_eq_false, if_false]
              exact ih _ _ _ pe2
            · simp only [h3, not_false_eq_true, if_true]; exact ⟨(by tr), pe2, (by tr)⟩
          · simp only [hcol, if_false]
            exact ih _ _ _ i2
        · simp only [h2, not_false_eq_true, if_true]; exact ⟨(by tr), i2, (by tr)⟩
      · simp only [h1, ne_eq, not_false_eq_true, if_true]; exact ⟨(by tr), e2, (by tr)⟩
    · simp only [hval, Bool.false_eq_true, if_false]
      have hsc := nextToken_scanned_or s
      by_cases hcl : (nextToken s).1 = TokType.clist ∨ (nextToken s).1 = TokType.ctable
      · simp only [hcl, if_true]
        exact ih _ _ _ (consume_rel (report_rel n2 _) hsc)
      · simp only [hcl, if_false]
        by_cases hcol : k.col ≠ 0
        · rw [if_pos hcol, if_pos hcol]
          obtain ⟨pe1, pe2, pe3⟩ := pktEnd_rel (p := p) (List.zip (slots.filterMap id)
            (k.row ++ ((slots.drop k.col).filterMap id).map (fun _ => V.unk))) (report_rel n2 CifModel.Gen.ErrCodes.CIF_PARTIAL_PACKET)
          exact ⟨pe1, pe2, by rw [pe3]⟩
        · rw [if_neg hcol, if_neg hcol]
          split
          · exact ⟨rfl, report_rel n2 _, rfl⟩
          · exact ⟨rfl, n2, rfl⟩

theorem loopR_rel (norm : Str → Str) (fuel : Nat) (cont : Bool) (c : Content) {s s' : St} (h : Rel p all all' s s') :
    (parseLoopR p norm fuel cont c s').1 = (parseLoopR p norm fuel cont c s).1
    ∧ Rel p all all' (parseLoopR p norm fuel cont c s).2.1 (parseLoopR p norm fuel cont c s').2.1
    ∧ (parseLoopR p norm fuel cont c s').2.2 = (parseLoopR p norm fuel cont c s).2.2 := by
  obtain ⟨a, b, cc⟩ := headerD_rel (p := p) (all := all) (all' := all') norm cont c fuel _ _ [] (inc_rel h)
  unfold parseLoopR
  generalize headerLoopD norm cont c fuel (inc s) [] = hd at a b cc ⊢
  generalize headerLoopD norm cont c fuel (inc s') [] = hd' at a b cc ⊢
  simp only [a, b]
  by_cases h1 : hd.1 = OK
  · simp only [h1, ne_eq, not_true_eq_false, if_false]
    by_cases h0 : hd.2.1.isEmpty = true
    · simp only [h0, if_true]
      obtain ⟨q1, q2⟩ := loopEnd_rel (p := p) none OK (report_rel cc CifModel.Gen.ErrCodes.CIF_NULL_LOOP)
      exact ⟨q1, q2, (by tr)⟩
    simp only [h0, Bool.false_eq_true, if_false]
    by_cases h2 : (hd.2.1.filterMap id).isEmpty = true
    · simp only [h2, if_true]
      obtain ⟨q1, q2⟩ := loopEnd_rel (p := p) none MALFORMED cc
      exact ⟨q1, q2, (by tr)⟩
    · simp only [h2, Bool.false_eq_true, if_false]
      obtain ⟨e1, e2, e3⟩ := loopStart_rel (p := p) cont (hd.2.1.filterMap id) cc
      generalize loopStartStep p cont (hd.2.1.filterMap id) hd.2.2 = ls at e1 e2 e3 ⊢
      generalize loopStartStep p cont (hd.2.1.filterMap id) hd'.2.2 = ls' at e1 e2 e3 ⊢
      rw [e3, e1]
      by_cases h3 : ls.2.2.2 = true
      · simp only [h3, if_true]
        obtain ⟨k1, k2, k3⟩ := packetsR_rel (p := p) ls.2.2.1 hd.2.1 fuel _ _ { col := 0, row := [], havePk := false, stored := [] } e2
        rw [k1, k3]
        obtain ⟨q1, q2⟩ := loopEnd_rel (p := p) (if ls.2.2.1 = true then some (hd.2.1.filterMap id) else none)
          (packetsLoopR p ls.2.2.1 hd.2.1 fuel ls.2.1 { col := 0, row := [], havePk := false, stored := [] }).1 k2
        exact ⟨q1, q2, (by tr)⟩
      · simp only [h3, Bool.false_eq_true, if_false]
        obtain ⟨q1, q2⟩ := loopEnd_rel (p := p) (if ls.2.2.1 = true then some (hd.2.1.filterMap id) else none) ls.1 e2
        exact ⟨q1, q2, (by tr)⟩
  · simp only [h1, ne_eq, not_false_eq_true, if_true]
    obtain ⟨q1, q2⟩ := loopEnd_rel (p := p) none hd.1 cc
    exact ⟨q1, q2, (by tr)⟩

theorem containerR_rel (norm : Str → Str) (m : Int) : ∀ (fuel : Nat),
    (∀ cont isBlock code s s' c0, Rel p all all' s s' →
      Out3 p all all' (parseContainerR p norm m fuel cont isBlock code s c0) (parseContainerR p norm m fuel cont isBlock code s' c0))
    ∧ (∀ cont isBlock s s' c, Rel p all all' s s' →
      Out3 p all all' (elemsLoopR p norm m fuel cont isBlock s c) (elemsLoopR p norm m fuel cont isBlock s' c))
  | 0 => by
    constructor
    · intro cont isBlock code s s' c0 h; simp only [parseContainerR]; exact ⟨rfl, h, rfl⟩
    · intro cont isBlock s s' c h; simp only [elemsLoopR]; exact ⟨rfl, h, rfl⟩
  | fuel + 1 => by
    obtain ⟨ihc, ihe⟩ := containerR_rel norm m fuel
    constructor
    · intro cont isBlock code s s' c0 h
      obtain ⟨a1, a2⟩ := contStart_rel (p := p) cont isBlock code h
      unfold parseContainerR
      generalize contStartStep p cont isBlock code s = st at a1 a2 ⊢
      generalize contStartStep p cont isBlock code s' = st' at a1 a2 ⊢
      simp only [a1]
      by_cases h1 : st.1 = OK
      · simp only [h1, ne_eq, not_true_eq_false, if_false]
        obtain ⟨e1, e2, e3⟩ := ihe cont isBlock st.2 st'.2 c0 a2
        rw [e1, e3]
        exact containerEnd_rel cont isBlock code _ _ e2
      · simp only [h1, ne_eq, not_false_eq_true, if_true]
        exact containerEnd_rel cont isBlock code _ _ a2
    · intro cont isBlock s0 s0' c h
      obtain ⟨n1, n2⟩ := nextToken_rel h
      have hsc := nextToken_scanned_or s0
      have hcur := cur_rel n2
      have hskip := n2.skip
      unfold elemsLoopR
      generalize nextToken s0 = nt at n1 n2 hsc hcur hskip ⊢
      generalize nextToken s0' = nt' at n1 n2 hcur hskip ⊢
      rcases nt with ⟨ty, s⟩
      rcases nt' with ⟨ty', s'⟩
      dsimp only at n1 n2 hsc hcur hskip ⊢
      subst n1
      rw [hcur.1, hskip]
      cases ty' <;> dsimp only
      case blockHead => cases isBlock <;> exact ⟨rfl, n2, rfl⟩
      case frameHead =>
        by_cases hcond : (!cont ∨ s.skip > 0)
        · simp only [hcond, if_true]
          obtain ⟨f1, f2, f3⟩ := ihc false false (cur s).text _ _ Content.empty (consume_rel n2 hsc)
          exact seq_rel _ _ _ _ _ _ _ f1 f2 (fun _ => ihe cont isBlock _ _ c f2)
        · simp only [hcond, if_false]
          by_cases hm0 : m = 0
          · simp only [hm0, if_true]; exact ⟨rfl, n2, rfl⟩
          · simp only [hm0, if_false]
            by_cases hm1 : m = 1 ∧ (!isBlock) = true
            · simp only [hm1, and_self, if_true]; exact ⟨rfl, n2, rfl⟩
            · simp only [hm1, if_false]
              cases hfind : findC norm c.frames (cur s).text with
              | some old =>
                dsimp only
                obtain ⟨f1, f2, f3⟩ := ihc true false old.code _ _ ⟨old.frames, old.loops⟩ (consume_rel (report_rel n2 _) hsc)
                rw [f3]
                exact seq_rel _ _ _ _ _ _ _ f1 f2 (fun _ => ihe cont isBlock _ _ _ f2)
              | none =>
                dsimp only
                obtain ⟨f1, f2, f3⟩ := ihc true false (cur s).text _ _ Content.empty (consume_rel n2 hsc)
                rw [f3]
                exact seq_rel _ _ _ _ _ _ _ f1 f2 (fun _ => ihe cont isBlock _ _ _ f2)
      case frameTerm => cases isBlock <;> exact ⟨rfl, consume_rel n2 hsc, rfl⟩
      case loopKw =>
        have hs1 : Rel p all all' (consume (if s.skip ≤ 0 then note s (Ev.keyword (cur s).text) else s))
            (consume (if s.skip ≤ 0 then note s' (Ev.keyword (cur s).text) else s')) := by
          by_cases hk : s.skip ≤ 0
          · simp only [hk, if_true]; exact consume_rel (note_rel n2 _ rfl) hsc
          · simp only [hk, if_false]; exact consume_rel n2 hsc
        obtain ⟨l1, l2, l3⟩ := loopR_rel (p := p) norm fuel cont c hs1
        rw [l3]
        exact seq_rel _ _ _ _ _ _ _ l1 l2 (fun _ => ihe cont isBlock _ _ _ l2)
      case name =>
        by_cases hpos : s.skip > 0
        · simp only [hpos, if_true]
          obtain ⟨i1, i2, i3⟩ := itemR_rel (p := p) fuel cont none (consume_rel n2 hsc)
          exact seq_rel _ _ _ _ _ _ _ i1 i2 (fun _ => ihe cont isBlock _ _ _ i2)
        · simp only [hpos, if_false]
          by_cases hd : (cont && hasName norm c (cur s).text) = true
          · simp only [hd, if_true]
            obtain ⟨i1, i2, i3⟩ := itemR_rel (p := p) fuel cont none
              (report_rel (consume_rel (note_rel n2 (.dataname (cur s).text) rfl) hsc) CifModel.Gen.ErrCodes.CIF_DUP_ITEMNAME)
            exact seq_rel _ _ _ _ _ _ _ i1 i2 (fun _ => ihe cont isBlock _ _ _ i2)
          · simp only [hd, Bool.false_eq_true, if_false]
            obtain ⟨i1, i2, i3⟩ := itemR_rel (p := p) fuel cont (some (cur s).text)
              (consume_rel (note_rel n2 (.dataname (cur s).text) rfl) hsc)
            rw [i3]
            exact seq_rel _ _ _ _ _ _ _ i1 i2 (fun _ => ihe cont isBlock _ _ _ i2)
      case end_ => cases isBlock <;> exact ⟨rfl, n2, rfl⟩
      case value =>
        obtain ⟨i1, i2, i3⟩ := itemR_rel (p := p) fuel cont none (report_rel n2 CifModel.Gen.ErrCodes.CIF_UNEXPECTED_VALUE)
        exact seq_rel _ _ _ _ _ _ _ i1 i2 (fun _ => ihe cont isBlock _ _ _ i2)
      case qvalue =>
        obtain ⟨i1, i2, i3⟩ := itemR_rel (p := p) fuel cont none (report_rel n2 CifModel.Gen.ErrCodes.CIF_UNEXPECTED_VALUE)
        exact seq_rel _ _ _ _ _ _ _ i1 i2 (fun _ => ihe cont isBlock _ _ _ i2)
      case tvalue =>
        obtain ⟨i1, i2, i3⟩ := itemR_rel (p := p) fuel cont none (report_rel n2 CifModel.Gen.ErrCodes.CIF_UNEXPECTED_VALUE)
        exact seq_rel _ _ _ _ _ _ _ i1 i2 (fun _ => ihe cont isBlock _ _ _ i2)
      case olist =>
        obtain ⟨i1, i2, i3⟩ := itemR_rel (p := p) fuel cont none (report_rel n2 CifModel.Gen.ErrCodes.CIF_UNEXPECTED_VALUE)
        exact seq_rel _ _ _ _ _ _ _ i1 i2 (fun _ => ihe cont isBlock _ _ _ i2)
      case otable =>
        obtain ⟨i1, i2, i3⟩ := itemR_rel (p := p) fuel cont none (report_rel n2 CifModel.Gen.ErrCodes.CIF_UNEXPECTED_VALUE)
        exact seq_rel _ _ _ _ _ _ _ i1 i2 (fun _ => ihe cont isBlock _ _ _ i2)
      case clist => exact ihe cont isBlock _ _ _ (consume_rel (report_rel n2 _) hsc)
      case ctable => exact ihe cont isBlock _ _ _ (consume_rel (report_rel n2 _) hsc)
      all_goals exact ⟨rfl, n2, rfl⟩

theorem blocksR_rel (norm : Str → Str) (m : Int) (cif : Bool) : ∀ (fuel : Nat) (s s' : St) (acc : List Container), Rel p all all' s s' →
    Out3 p all all' (blocksLoopR p norm m cif fuel s acc) (blocksLoopR p norm m cif fuel s' acc)
  | 0, s, s', acc, h => ⟨rfl, h, rfl⟩
  | fuel + 1, s0, s0', acc, h => by
    obtain ⟨n1, n2⟩ := nextToken_rel h
    have hsc := nextToken_scanned_or s0
    have hcur := cur_rel n2
    have hskip := n2.skip
    unfold blocksLoopR
    generalize nextToken s0 = nt at n1 n2 hsc hcur hskip ⊢
    generalize nextToken s0' = nt' at n1 n2 hcur hskip ⊢
    rcases nt with ⟨ty, s⟩
    rcases nt' with ⟨ty', s'⟩
    dsimp only at n1 n2 hsc hcur hskip ⊢
    subst n1
    rw [hcur.1, hskip]
    cases ty' <;> dsimp only
    case blockHead =>
      by_cases hb : (cif && decide (s.skip ≤ 0)) = true
      · simp only [hb, if_true]
        cases hfind : findC norm acc (cur s).text with
        | some old =>
          dsimp only
          obtain ⟨b1, b2, b3⟩ := (containerR_rel (p := p) (all := all) (all' := all') norm m fuel).1 true true old.code _ _
            ⟨old.frames, old.loops⟩ (consume_rel (report_rel n2 _) hsc)
          rw [b3]
          exact seq_rel _ _ _ _ _ _ _ b1 b2 (fun _ => blocksR_rel norm m cif fuel _ _ _ b2)
        | none =>
          dsimp only
          obtain ⟨b1, b2, b3⟩ := (containerR_rel (p := p) (all := all) (all' := all') norm m fuel).1 true true (cur s).text _ _
            Content.empty (consume_rel n2 hsc)
          rw [b3]
          exact seq_rel _ _ _ _ _ _ _ b1 b2 (fun _ => blocksR_rel norm m cif fuel _ _ _ b2)
      · simp only [hb, Bool.false_eq_true, if_false]
        obtain ⟨b1, b2, b3⟩ := (containerR_rel (p := p) (all := all) (all' := all') norm m fuel).1 false true (cur s).text _ _
          Content.empty (consume_rel n2 hsc)
        exact seq_rel _ _ _ _ _ _ _ b1 b2 (fun _ => blocksR_rel norm m cif fuel _ _ _ b2)
    case end_ => exact ⟨rfl, n2, rfl⟩
    all_goals exact ⟨rfl, n2, rfl⟩

theorem cifR_rel (norm : Str → Str) (m : Int) (cif : Bool) (fuel : Nat) {s s' : St} (h : Rel p all all' s s') :
    Out3 p all all' (parseCifR p norm m cif fuel s) (parseCifR p norm m cif fuel s') := by
  obtain ⟨q1, q2⟩ := site_rel h (.cifStart cif) rfl (some 1) (some 1)
  unfold parseCifR
  rw [h.n]
  by_cases hend : p s.n (.cifStart cif) = END
  · simp only [hend, if_true]; exact ⟨rfl, push_rel h _ rfl, rfl⟩
  · simp only [hend, if_false]
    generalize site p s (.cifStart cif) (some 1) (some 1) = st at q1 q2 ⊢
    generalize site p s' (.cifStart cif) (some 1) (some 1) = st' at q1 q2 ⊢
    rw [q1]
    by_cases h2 : st.1 = OK
    · simp only [h2, if_true]
      obtain ⟨b1, b2, b3⟩ := blocksR_rel (p := p) norm m cif fuel _ _ [] q2
      rw [b1, b3]
      obtain ⟨c1, c2⟩ := cifEnd_rel (p := p) cif (blocksLoopR p norm m cif fuel st.2 []).1 b2
      exact ⟨c1, c2, rfl⟩
    · simp only [h2, if_false]
      obtain ⟨c1, c2⟩ := cifEnd_rel (p := p) cif st.1 q2
      exact ⟨c1, c2, rfl⟩

/-- two layouts of one token sequence, the whole parse with the recoveries: same result, same stored CIF, same callbacks other than
    whitespace callbacks -/
theorem cifR_layout (p : Prog) (norm : Str → Str) (m : Int) (cif : Bool) (fuel : Nat) {toks toks' : List Tok} (h : SkelL toks toks') :
    (parseCifR p norm m cif fuel (St.init toks')).1 = (parseCifR p norm m cif fuel (St.init toks)).1
    ∧ (parseCifR p norm m cif fuel (St.init toks')).2.2 = (parseCifR p norm m cif fuel (St.init toks)).2.2
    ∧ (parseCifR p norm m cif fuel (St.init toks')).2.1.log.reverse.filter (fun e => !isWsEv e)
        = (parseCifR p norm m cif fuel (St.init toks)).2.1.log.reverse.filter (fun e => !isWsEv e) := by
  obtain ⟨r1, r2, r3⟩ := cifR_rel (p := p) norm m cif fuel (Rel.init p h)
  obtain ⟨sc, g1, _, _, _⟩ := r2.ghost
  exact ⟨r1, r3, g1.struct⟩

end CifModel.Lemmas.ParseCB
