import CifModel.Lemmas.ParserDefect
/-
  Lemmas/ParserDefectLex — further universally quantified defect classes on the integrated parser model (token level, accept-all
  callback, any container `View`, any well-formed runs of items before and behind): built on `defect_run` of
  Lemmas/ParserDefect.lean with one step lemma per class.

    part 1  stray closing delimiter at container level (CIF_UNEXPECTED_DELIM), stray `save_` in a data block (CIF_UNEXPECTED_TERM)
-/
set_option linter.unusedSimpArgs false

namespace CifModel.Model.Parser
open CifModel CifModel.Model CifModel.Model.Lexer CifModel.Spec.Grammar CifModel.Spec.Lexical
open CifModel.Gen.ErrCodes

/-! ### a closing bracket or brace where an item is expected: reported and dropped -/

theorem unexpected_delim_step (o : Opts) {path : Path} (ty : TokType) (tx : Str) (next : List TokSpec) (s : PS) (fuel : Nat) (w : W)
    (isBlock : Bool) (hty : ty = .clist ∨ ty = .ctable) (hF : Feeds o s ((ty, tx) :: next)) :
    ∃ s' r, elemsLoop o (fuel + 1) s (some path) isBlock acceptAll w
        = elemsLoop o fuel s' (some path) isBlock acceptAll { w with log := r :: w.log }
      ∧ r.code = CIF_UNEXPECTED_DELIM ∧ Feeds o s' next := by
  obtain ⟨t, s1, ht, _, hn, _, hr⟩ := hF.inv
  refine ⟨consume s1, ⟨CIF_UNEXPECTED_DELIM, s1.scan.line, s1.scan.col - t.text.length⟩, ?_, rfl, hr⟩
  conv => lhs; rw [elemsLoop]
  rcases hty with h | h <;> simp only [bind_eq, pure_eq, P.bind, P.pure, hn, ht, h, report_accept]

theorem unexpected_delim_run (o : Opts) {path : Path} {put : Container → Cif} {code : Str} (hv : View o path put code)
    (pre post : List Item) (ty : TokType) (tx : Str) (seen seen2 : List Str) (rest : List TokSpec) (s : PS) (fuel : Nat) (w : W)
    (fs : List Container) (ls : List Loop) (isBlock : Bool) (hcif : w.cif = put (.mk code fs ls))
    (hty : ty = .clist ∨ ty = .ctable)
    (hpre : wfItems o pre seen = true) (hseen : ∀ k ∈ normNames o ls, k ∈ seen) (hnoloop : lastIsLoop pre = false)
    (hpost : wfItems o post seen2 = true)
    (hseen2 : ∀ k ∈ normNames o (denoteItems o.dia o.normKey pre ls), k ∈ seen2)
    (hfuel : szItems pre + szItems post + 1 ≤ fuel)
    (hrest : lastIsLoop post = true → ∃ ty tx ts, rest = (ty, tx) :: ts ∧ isTerminator ty = true)
    (hF : Feeds o s (itemsToks pre ++ ([(ty, tx)] ++ (itemsToks post ++ rest)))) :
    ∃ s' r, elemsLoop o (fuel + post.length + 1 + pre.length) s (some path) isBlock acceptAll w
        = elemsLoop o fuel s' (some path) isBlock acceptAll
            { log := r :: w.log, cif := put (.mk code fs (denoteItems o.dia o.normKey (pre ++ post) ls)) }
      ∧ r.code = CIF_UNEXPECTED_DELIM ∧ Feeds o s' rest := by
  have := defect_run o hv pre post [(ty, tx)] id CIF_UNEXPECTED_DELIM 0 seen seen2 rest s fuel w fs ls isBlock hcif hpre hseen
    hpost hseen2
    (by
      intro s1 w1 f hc _ hF1
      obtain ⟨s2, r, h1, h2, h3⟩ := unexpected_delim_step o (path := path) ty tx _ s1 f w1 isBlock hty hF1
      refine ⟨s2, r, ?_, h2, h3⟩
      rw [h1]; simp only [id]; rw [← hc])
    (by omega) (by intro h; rw [hnoloop] at h; cases h) hrest hF
  simpa [denoteItems_append] using this

/-! ### `save_` in a data block (no save frame is open): reported and dropped -/

theorem unexpected_term_step (o : Opts) {path : Path} (tx : Str) (next : List TokSpec) (s : PS) (fuel : Nat) (w : W)
    (hF : Feeds o s ((.frameTerm, tx) :: next)) :
    ∃ s' r, elemsLoop o (fuel + 1) s (some path) true acceptAll w
        = elemsLoop o fuel s' (some path) true acceptAll { w with log := r :: w.log }
      ∧ r.code = CIF_UNEXPECTED_TERM ∧ Feeds o s' next := by
  obtain ⟨t, s1, ht, _, hn, _, hr⟩ := hF.inv
  refine ⟨consume s1, ⟨CIF_UNEXPECTED_TERM, s1.scan.line, s1.scan.col⟩, ?_, rfl, hr⟩
  conv => lhs; rw [elemsLoop]
  simp only [bind_eq, pure_eq, P.bind, P.pure, hn, ht, if_true, report_accept]

theorem unexpected_term_run (o : Opts) {path : Path} {put : Container → Cif} {code : Str} (hv : View o path put code)
    (pre post : List Item) (tx : Str) (seen seen2 : List Str) (rest : List TokSpec) (s : PS) (fuel : Nat) (w : W)
    (fs : List Container) (ls : List Loop) (hcif : w.cif = put (.mk code fs ls))
    (hpre : wfItems o pre seen = true) (hseen : ∀ k ∈ normNames o ls, k ∈ seen)
    (hpost : wfItems o post seen2 = true)
    (hseen2 : ∀ k ∈ normNames o (denoteItems o.dia o.normKey pre ls), k ∈ seen2)
    (hfuel : szItems pre + szItems post + 1 ≤ fuel)
    (hrest : lastIsLoop post = true → ∃ ty tx ts, rest = (ty, tx) :: ts ∧ isTerminator ty = true)
    (hF : Feeds o s (itemsToks pre ++ ([(.frameTerm, tx)] ++ (itemsToks post ++ rest)))) :
    ∃ s' r, elemsLoop o (fuel + post.length + 1 + pre.length) s (some path) true acceptAll w
        = elemsLoop o fuel s' (some path) true acceptAll
            { log := r :: w.log, cif := put (.mk code fs (denoteItems o.dia o.normKey (pre ++ post) ls)) }
      ∧ r.code = CIF_UNEXPECTED_TERM ∧ Feeds o s' rest := by
  have := defect_run o hv pre post [(.frameTerm, tx)] id CIF_UNEXPECTED_TERM 0 seen seen2 rest s fuel w fs ls true hcif hpre hseen
    hpost hseen2
    (by
      intro s1 w1 f hc _ hF1
      obtain ⟨s2, r, h1, h2, h3⟩ := unexpected_term_step o (path := path) tx _ s1 f w1 hF1
      refine ⟨s2, r, ?_, h2, h3⟩
      rw [h1]; simp only [id]; rw [← hc])
    (by omega) (fun _ => ⟨_, _, _, rfl, rfl⟩) hrest hF
  simpa [denoteItems_append] using this

end CifModel.Model.Parser
