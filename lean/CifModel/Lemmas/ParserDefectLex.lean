import CifModel.Lemmas.ParserDefect
/-
  Lemmas/ParserDefectLex — further universally quantified defect classes on the integrated parser model (token level, accept-all
  callback, any container `View`, any well-formed runs of items before and behind): built on `defect_run` of
  Lemmas/ParserDefect.lean with one step lemma per class.

    part 1  stray closing delimiter at container level (CIF_UNEXPECTED_DELIM), stray `save_` in a data block (CIF_UNEXPECTED_TERM)
-/
set_option linter.unusedSimpArgs false

namespace CifModel.Model.Parser
open CifModel CifModel.Model CifModel.Model.Lexer CifModel.Spec.Grammar CifModel.Spec.Lexical
open CifModel.Gen.ErrCodes

/-! ### a closing bracket or brace where an item is expected: reported and dropped -/

theorem unexpected_delim_step (o : Opts) {path : Path} (ty : TokType) (tx : Str) (next : List TokSpec) (s : PS) (fuel : Nat) (w : W)
    (isBlock : Bool) (hty : ty = .clist ∨ ty = .ctable) (hF : Feeds o s ((ty, tx) :: next)) :
    ∃ s' r, elemsLoop o (fuel + 1) s (some path) isBlock acceptAll w
        = elemsLoop o fuel s' (some path) isBlock acceptAll { w with log := r :: w.log }
      ∧ r.code = CIF_UNEXPECTED_DELIM ∧ Feeds o s' next := by
  obtain ⟨t, s1, ht, _, hn, _, hr⟩ := hF.inv
  refine ⟨consume s1, ⟨CIF_UNEXPECTED_DELIM, s1.scan.line, s1.scan.col - t.text.length⟩, ?_, rfl, hr⟩
  conv => lhs; rw [elemsLoop]
  rcases hty with h | h <;> simp only [bind_eq, pure_eq, P.bind, P.pure, hn, ht, h, report_accept]

theorem unexpected_delim_run (o : Opts) {path : Path} {put : Container → Cif} {code : Str} (hv : View o path put code)
    (pre post : List Item) (ty : TokType) (tx : Str) (seen seen2 : List Str) (rest : List TokSpec) (s : PS) (fuel : Nat) (w : W)
    (fs : List Container) (ls : List Loop) (isBlock : Bool) (hcif : w.cif = put (.mk code fs ls))
    (hty : ty = .clist ∨ ty = .ctable)
    (hpre : wfItems o pre seen = true) (hseen : ∀ k ∈ normNames o ls, k ∈ seen) (hnoloop : lastIsLoop pre = false)
    (hpost : wfItems o post seen2 = true)
    (hseen2 : ∀ k ∈ normNames o (denoteItems o.dia o.normKey pre ls), k ∈ seen2)
    (hfuel : szItems pre + szItems post + 1 ≤ fuel)
    (hrest : lastIsLoop post = true → ∃ ty tx ts, rest = (ty, tx) :: ts ∧ isTerminator ty = true)
    (hF : Feeds o s (itemsToks pre ++ ([(ty, tx)] ++ (itemsToks post ++ rest)))) :
    ∃ s' r, elemsLoop o (fuel + post.length + 1 + pre.length) s (some path) isBlock acceptAll w
        = elemsLoop o fuel s' (some path) isBlock acceptAll
            { log := r :: w.log, cif := put (.mk code fs (denoteItems o.dia o.normKey (pre ++ post) ls)) }
      ∧ r.code = CIF_UNEXPECTED_DELIM ∧ Feeds o s' rest := by
  have := defect_run o hv pre post [(ty, tx)] id CIF_UNEXPECTED_DELIM 0 seen seen2 rest s fuel w fs ls isBlock hcif hpre hseen
    hpost hseen2
    (by
      intro s1 w1 f hc _ hF1
      obtain ⟨s2, r, h1, h2, h3⟩ := unexpected_delim_step o (path := path) ty tx _ s1 f w1 isBlock hty hF1
      refine ⟨s2, r, ?_, h2, h3⟩
      rw [h1]; simp only [id]; rw [← hc])
    (by omega) (by intro h; rw [hnoloop] at h; cases h) hrest hF
  simpa [denoteItems_append] using this

/-! ### `save_` in a data block (no save frame is open): reported and dropped -/

theorem unexpected_term_step (o : Opts) {path : Path} (tx : Str) (next : List TokSpec) (s : PS) (fuel : Nat) (w : W)
    (hF : Feeds o s ((.frameTerm, tx) :: next)) :
    ∃ s' r, elemsLoop o (fuel + 1) s (some path) true acceptAll w
        = elemsLoop o fuel s' (some path) true acceptAll { w with log := r :: w.log }
      ∧ r.code = CIF_UNEXPECTED_TERM ∧ Feeds o s' next := by
  obtain ⟨t, s1, ht, _, hn, _, hr⟩ := hF.inv
  refine ⟨consume s1, ⟨CIF_UNEXPECTED_TERM, s1.scan.line, s1.scan.col⟩, ?_, rfl, hr⟩
  conv => lhs; rw [elemsLoop]
  simp only [bind_eq, pure_eq, P.bind, P.pure, hn, ht, if_true, report_accept]

theorem unexpected_term_run (o : Opts) {path : Path} {put : Container → Cif} {code : Str} (hv : View o path put code)
    (pre post : List Item) (tx : Str) (seen seen2 : List Str) (rest : List TokSpec) (s : PS) (fuel : Nat) (w : W)
    (fs : List Container) (ls : List Loop) (hcif : w.cif = put (.mk code fs ls))
    (hpre : wfItems o pre seen = true) (hseen : ∀ k ∈ normNames o ls, k ∈ seen)
    (hpost : wfItems o post seen2 = true)
    (hseen2 : ∀ k ∈ normNames o (denoteItems o.dia o.normKey pre ls), k ∈ seen2)
    (hfuel : szItems pre + szItems post + 1 ≤ fuel)
    (hrest : lastIsLoop post = true → ∃ ty tx ts, rest = (ty, tx) :: ts ∧ isTerminator ty = true)
    (hF : Feeds o s (itemsToks pre ++ ([(.frameTerm, tx)] ++ (itemsToks post ++ rest)))) :
    ∃ s' r, elemsLoop o (fuel + post.length + 1 + pre.length) s (some path) true acceptAll w
        = elemsLoop o fuel s' (some path) true acceptAll
            { log := r :: w.log, cif := put (.mk code fs (denoteItems o.dia o.normKey (pre ++ post) ls)) }
      ∧ r.code = CIF_UNEXPECTED_TERM ∧ Feeds o s' rest := by
  have := defect_run o hv pre post [(.frameTerm, tx)] id CIF_UNEXPECTED_TERM 0 seen seen2 rest s fuel w fs ls true hcif hpre hseen
    hpost hseen2
    (by
      intro s1 w1 f hc _ hF1
      obtain ⟨s2, r, h1, h2, h3⟩ := unexpected_term_step o (path := path) tx _ s1 f w1 hF1
      refine ⟨s2, r, ?_, h2, h3⟩
      rw [h1]; simp only [id]; rw [← hc])
    (by omega) (fun _ => ⟨_, _, _, rfl, rfl⟩) hrest hF
  simpa [denoteItems_append] using this

end CifModel.Model.Parser

namespace CifModel.Model.Parser
open CifModel CifModel.Model CifModel.Model.Lexer CifModel.Spec.Grammar CifModel.Spec.Lexical
open CifModel.Gen.ErrCodes

/-! ## part 2 — a scalar item whose VALUE carries the defect

  `DV` = the tokens of the defective value, `vd` = the value the documented recovery makes of it, `C` = the code; `hval` = what
  parse_value does on it (one report).  The item is stored with the recovered value. -/

theorem item_defect_step (o : Opts) {path : Path} {put : Container → Cif} {code : Str} (hv : View o path put code)
    (n : Str) (hty : TokType) (htx : Str) (DV : List TokSpec) (vd : V) (C : Code) (next : List TokSpec) (s : PS) (fuel : Nat) (w : W)
    (fs : List Container) (ls : List Loop) (isBlock : Bool)
    (hcif : w.cif = put (.mk code fs ls)) (hname : wfName n = true) (hfresh : o.norm n ∉ normNames o ls)
    (hstart : isValueStart hty = true) (hkey : isKeyTok hty = false)
    (hval : ∀ (s1 : PS) (w1 : W), Feeds o s1 ((hty, htx) :: DV ++ next) →
      ∃ s2 r, parseValue o fuel s1 acceptAll w1 = .ok (vd, s2) { w1 with log := r :: w1.log } ∧ r.code = C ∧ Feeds o s2 next)
    (hF : Feeds o s ((.name, n) :: ((hty, htx) :: DV ++ next))) :
    ∃ s' r, elemsLoop o (fuel + 1) s (some path) isBlock acceptAll w
        = elemsLoop o fuel s' (some path) isBlock acceptAll { log := r :: w.log, cif := put (.mk code fs (putScalar ls n vd)) }
      ∧ r.code = C ∧ Feeds o s' next := by
  simp only [wfName, Bool.and_eq_true] at hname
  obtain ⟨t, s1, hty1, htx1, hn, _, hr⟩ := hF.inv
  have hr' := hr
  simp only [List.cons_append] at hr'
  obtain ⟨t2, s2, hty2, htx2, hn2, ht2, hr2⟩ := hr'.inv
  have hpend : Feeds o s2 ((hty, htx) :: DV ++ next) := by
    simp only [List.cons_append]
    rw [← hty2, ← htx2]; exact Feeds.pending ht2 hr2
  obtain ⟨s3, r, h1, hc, h2⟩ := hval s2 w hpend
  refine ⟨s3, r, ?_, hc, h2⟩
  conv => lhs; rw [elemsLoop]
  simp only [bind_eq, pure_eq, P.bind, P.pure, hn, hty1, htx1, cstr_noNul hname.2,
    itemExists_false o hv n fs ls acceptAll w hcif hname.1 hfresh, Bool.false_eq_true, if_false, hname.1, Bool.not_true, and_false]
  unfold parseItem
  simp only [bind_eq, pure_eq, P.bind, P.pure, hn2, hty2, hkey, hstart, if_true, Bool.false_eq_true, if_false, h1]
  rw [setValue_new o hv n vd fs ls acceptAll ⟨r :: w.log, w.cif⟩ hcif hname.1 hfresh]

/-- the item with the defective value inside any well-formed runs -/
theorem item_defect_run (o : Opts) {path : Path} {put : Container → Cif} {code : Str} (hv : View o path put code)
    (pre post : List Item) (n : Str) (hty : TokType) (htx : Str) (DV : List TokSpec) (vd : V) (C : Code) (need : Nat)
    (seen seen2 : List Str) (rest : List TokSpec) (s : PS) (fuel : Nat) (w : W)
    (fs : List Container) (ls : List Loop) (isBlock : Bool) (hcif : w.cif = put (.mk code fs ls))
    (hpre : wfItems o pre seen = true) (hseen : ∀ k ∈ normNames o ls, k ∈ seen)
    (hname : wfName n = true) (hfresh : o.norm n ∉ normNames o (denoteItems o.dia o.normKey pre ls))
    (hstart : isValueStart hty = true) (hkey : isKeyTok hty = false)
    (hval : ∀ (f : Nat) (s1 : PS) (w1 : W), need ≤ f → Feeds o s1 ((hty, htx) :: DV ++ (itemsToks post ++ rest)) →
      ∃ s2 r, parseValue o f s1 acceptAll w1 = .ok (vd, s2) { w1 with log := r :: w1.log } ∧ r.code = C
        ∧ Feeds o s2 (itemsToks post ++ rest))
    (hpost : wfItems o post seen2 = true)
    (hseen2 : ∀ k ∈ normNames o (putScalar (denoteItems o.dia o.normKey pre ls) n vd), k ∈ seen2)
    (hfuel : szItems pre + szItems post + need + 1 ≤ fuel)
    (hrest : lastIsLoop post = true → ∃ ty tx ts, rest = (ty, tx) :: ts ∧ isTerminator ty = true)
    (hF : Feeds o s (itemsToks pre ++ (((.name, n) :: (hty, htx) :: DV) ++ (itemsToks post ++ rest)))) :
    ∃ s' r, elemsLoop o (fuel + post.length + 1 + pre.length) s (some path) isBlock acceptAll w
        = elemsLoop o fuel s' (some path) isBlock acceptAll
            { log := r :: w.log,
              cif := put (.mk code fs (denoteItems o.dia o.normKey post (putScalar (denoteItems o.dia o.normKey pre ls) n vd))) }
      ∧ r.code = C ∧ Feeds o s' rest :=
  defect_run o hv pre post ((.name, n) :: (hty, htx) :: DV) (fun l => putScalar l n vd) C need seen seen2 rest s fuel w fs ls isBlock
    hcif hpre hseen hpost hseen2
    (by
      intro s1 w1 f hc hf hF1
      simp only [List.cons_append, List.append_assoc] at hF1
      exact item_defect_step o hv n hty htx DV vd C _ s1 f w1 fs _ isBlock hc hname hfresh hstart hkey
        (fun s2 w2 h => hval f s2 w2 hf (by simpa [List.append_assoc] using h))
        (by simpa [List.append_assoc] using hF1))
    hfuel (fun _ => ⟨_, _, _, rfl, rfl⟩) hrest hF

end CifModel.Model.Parser

namespace CifModel.Model.Parser
open CifModel CifModel.Model CifModel.Model.Lexer CifModel.Spec.Grammar CifModel.Spec.Lexical
open CifModel.Gen.ErrCodes

/-! ### unterminated list / table (CIF_MISSING_DELIM): the elements read so far make the value -/

/-- the elements of a list up to a token that ends the list WITHOUT closing it -/
theorem values_open (o : Opts) : ∀ (vs : List Val) (ty : TokType) (tx : Str) (ts : List TokSpec) (s : PS) (fuel : Nat) (w : W)
    (acc : List V), wfVals o vs = true → szVals vs + 1 ≤ fuel → isTerminator ty = true →
    Feeds o s (valsToks vs ++ (ty, tx) :: ts) →
    ∃ s' r, listLoop o fuel s acc acceptAll w = .ok (acc ++ denoteVals o.dia o.normKey vs, s') { w with log := r :: w.log }
      ∧ r.code = CIF_MISSING_DELIM ∧ Feeds o s' ((ty, tx) :: ts)
  | [], ty, tx, ts, s, fuel, w, acc, _, hf, hterm, hF => by
    obtain ⟨f, rfl⟩ : ∃ f, fuel = f + 1 := ⟨fuel - 1, by omega⟩
    simp only [valsToks, List.nil_append] at hF
    obtain ⟨t, s', hty, htx, hn, ht, hr⟩ := hF.inv
    simp only [isTerminator, Bool.not_eq_true', Bool.or_eq_false_iff, beq_eq_false_iff_ne, ne_eq] at hterm
    refine ⟨s', ⟨CIF_MISSING_DELIM, s'.scan.line, s'.scan.col - t.text.length⟩, ?_, rfl,
      by rw [← hty, ← htx]; exact Feeds.pending ht hr⟩
    rw [listLoop]
    simp only [bind_eq, pure_eq, P.bind, P.pure, hn, hty, hterm.1.1.1, hterm.1.1.2, hterm.1.2, Bool.false_eq_true, if_false,
      report_accept, denoteVals, List.append_nil]
  | v :: vs, ty, tx, ts, s, fuel, w, acc, hw, hf, hterm, hF => by
    obtain ⟨f, rfl⟩ : ∃ f, fuel = f + 1 := ⟨fuel - 1, by omega⟩
    simp only [wfVals, Bool.and_eq_true] at hw
    simp only [szVals] at hf
    have hp := szVal_pos v
    obtain ⟨vty, vtx, vts, hvt, hstart, hkey⟩ := valToks_head v
    simp only [valsToks, List.append_assoc] at hF
    have hF' := hF
    rw [hvt, List.cons_append] at hF'
    obtain ⟨t, s', hty, htx, hn, ht, hr⟩ := hF'.inv
    have hpend : Feeds o s' (valToks v ++ (valsToks vs ++ (ty, tx) :: ts)) := by
      rw [hvt, List.cons_append, ← hty, ← htx]; exact Feeds.pending ht hr
    obtain ⟨s1, h1, h2⟩ := value_structure o v _ s' f acceptAll w hw.1 (by omega) hpend
    obtain ⟨s2, r, h3, hc, h4⟩ := values_open o vs ty tx ts s1 f w (acc ++ [denoteVal o.dia o.normKey v]) hw.2 (by omega) hterm h2
    refine ⟨s2, r, ?_, hc, h4⟩
    rw [listLoop]
    simp only [bind_eq, pure_eq, P.bind, P.pure, hn, hty, hkey, hstart, if_true, h1, h3, denoteVals,
      List.append_assoc, List.singleton_append, Bool.false_eq_true, if_false]

/-- the entries of a table up to a token that ends the table WITHOUT closing it -/
theorem entries_open (o : Opts) : ∀ (es : List (Str × Presentation × Val)) (ty : TokType) (tx : Str) (ts : List TokSpec) (s : PS)
    (fuel : Nat) (w : W) (acc : List (Str × Str × V)), wfEntries o es = true → szEntries es + 1 ≤ fuel → isTerminator ty = true →
    Feeds o s (entriesToks es ++ (ty, tx) :: ts) →
    ∃ s' r, tableLoop o fuel s acc acceptAll w = .ok (denoteEntries o.dia o.normKey es acc, s') { w with log := r :: w.log }
      ∧ r.code = CIF_MISSING_DELIM ∧ Feeds o s' ((ty, tx) :: ts)
  | [], ty, tx, ts, s, fuel, w, acc, _, hf, hterm, hF => by
    obtain ⟨f, rfl⟩ : ∃ f, fuel = f + 1 := ⟨fuel - 1, by omega⟩
    simp only [entriesToks, List.nil_append] at hF
    obtain ⟨t, s', hty, htx, hn, ht, hr⟩ := hF.inv
    refine ⟨s', ⟨CIF_MISSING_DELIM, s'.scan.line, s'.scan.col - t.text.length⟩, ?_, rfl,
      by rw [← hty, ← htx]; exact Feeds.pending ht hr⟩
    rw [tableLoop]
    cases ty <;> simp [isTerminator, isKeyTok, isValueStart] at hterm <;>
      simp only [bind_eq, pure_eq, P.bind, P.pure, hn, hty, report_accept, denoteEntries]
  | (k, kp, v) :: es, ty, tx, ts, s, fuel, w, acc, hw, hf, hterm, hF => by
    obtain ⟨f, rfl⟩ : ∃ f, fuel = f + 1 := ⟨fuel - 1, by omega⟩
    simp only [wfEntries, Bool.and_eq_true, Bool.not_eq_true'] at hw
    simp only [szEntries] at hf
    have hp := szVal_pos v
    obtain ⟨g, rfl⟩ : ∃ g, f = g + 1 := ⟨f - 1, by omega⟩
    simp only [entriesToks, List.cons_append, List.append_assoc] at hF
    obtain ⟨t, s', hty, htx, hn, _, hr⟩ := hF.inv
    obtain ⟨vty, vtx, vts, hvt, hstart, _⟩ := valToks_head v
    have hr' := hr
    rw [hvt, List.cons_append] at hr'
    obtain ⟨t2, s2, hty2, htx2, hn2, ht2, hr2⟩ := hr'.inv
    have hpend : Feeds o s2 (valToks v ++ (entriesToks es ++ (ty, tx) :: ts)) := by
      rw [hvt, List.cons_append, ← hty2, ← htx2]; exact Feeds.pending ht2 hr2
    obtain ⟨s3, h1, h2⟩ := value_structure o v _ s2 g acceptAll w hw.1.2 (by omega) hpend
    obtain ⟨s4, r, h3, hc, h4⟩ := entries_open o es ty tx ts s3 g w (putEntry o.normKey acc k (denoteVal o.dia o.normKey v)) hw.2
      (by omega) hterm h2
    refine ⟨s4, r, ?_, hc, h4⟩
    rw [tableLoop]
    simp only [bind_eq, pure_eq, P.bind, P.pure, hn, hty, htx, cstr_noNul hw.1.1.1]
    rw [tableEntry]
    simp only [bind_eq, pure_eq, P.bind, P.pure, hw.1.1.2, Bool.false_eq_true, if_false, hn2, hty2, hstart, if_true, h1,
      tableSet_eq_putEntry, h3, denoteEntries]

/-- parse_value on an unterminated list -/
theorem open_list_value (o : Opts) (vs : List Val) (btx : Str) (ty : TokType) (tx : Str) (ts : List TokSpec) (s : PS) (fuel : Nat) (w : W)
    (hw : wfVals o vs = true) (hf : szVals vs + 2 ≤ fuel) (hterm : isTerminator ty = true)
    (hF : Feeds o s ((.olist, btx) :: valsToks vs ++ (ty, tx) :: ts)) :
    ∃ s' r, parseValue o fuel s acceptAll w = .ok (.lst (denoteVals o.dia o.normKey vs), s') { w with log := r :: w.log }
      ∧ r.code = CIF_MISSING_DELIM ∧ Feeds o s' ((ty, tx) :: ts) := by
  obtain ⟨f, rfl⟩ : ∃ f, fuel = f + 1 := ⟨fuel - 1, by omega⟩
  simp only [List.cons_append] at hF
  obtain ⟨t, s1, hty, _, hn, _, hr⟩ := hF.inv
  obtain ⟨s2, r, h1, hc, h2⟩ := values_open o vs ty tx ts (consume s1) f w [] hw (by omega) hterm hr
  refine ⟨s2, r, ?_, hc, h2⟩
  rw [parseValue]
  simp only [bind_eq, pure_eq, P.bind, P.pure, hn, hty, h1, List.nil_append]

/-- parse_value on an unterminated table -/
theorem open_table_value (o : Opts) (es : List (Str × Presentation × Val)) (btx : Str) (ty : TokType) (tx : Str) (ts : List TokSpec)
    (s : PS) (fuel : Nat) (w : W) (hw : wfEntries o es = true) (hf : szEntries es + 2 ≤ fuel) (hterm : isTerminator ty = true)
    (hF : Feeds o s ((.otable, btx) :: entriesToks es ++ (ty, tx) :: ts)) :
    ∃ s' r, parseValue o fuel s acceptAll w = .ok (.tbl (denoteEntries o.dia o.normKey es []), s') { w with log := r :: w.log }
      ∧ r.code = CIF_MISSING_DELIM ∧ Feeds o s' ((ty, tx) :: ts) := by
  obtain ⟨f, rfl⟩ : ∃ f, fuel = f + 1 := ⟨fuel - 1, by omega⟩
  simp only [List.cons_append] at hF
  obtain ⟨t, s1, hty, _, hn, _, hr⟩ := hF.inv
  obtain ⟨s2, r, h1, hc, h2⟩ := entries_open o es ty tx ts (consume s1) f w [] hw (by omega) hterm hr
  refine ⟨s2, r, ?_, hc, h2⟩
  rw [parseValue]
  simp only [bind_eq, pure_eq, P.bind, P.pure, hn, hty, h1]

end CifModel.Model.Parser

namespace CifModel.Model.Parser
open CifModel CifModel.Model CifModel.Model.Lexer CifModel.Spec.Grammar CifModel.Spec.Lexical
open CifModel.Gen.ErrCodes

/-- what stands behind the defective item begins with a token that cannot continue a value -/
theorem next_is_terminator (post : List Item) (rest : List TokSpec)
    (h : post ≠ [] ∨ ∃ ty tx ts, rest = (ty, tx) :: ts ∧ isTerminator ty = true) :
    ∃ ty tx ts, itemsToks post ++ rest = (ty, tx) :: ts ∧ isTerminator ty = true := by
  cases post with
  | nil =>
    rcases h with h | h
    · exact absurd rfl h
    · simpa [itemsToks] using h
  | cons i r =>
    obtain ⟨ty, tx, ts, h, ht⟩ := itemToks_head i
    exact ⟨ty, tx, ts ++ (itemsToks r ++ rest), by simp [itemsToks, h], ht⟩

/-- **unterminated list**: `_n [ v₁ … vₖ` followed by something that cannot continue the list -/
theorem missing_delim_list_run (o : Opts) {path : Path} {put : Container → Cif} {code : Str} (hv : View o path put code)
    (pre post : List Item) (n : Str) (btx : Str) (vs : List Val) (seen seen2 : List Str) (rest : List TokSpec) (s : PS) (fuel : Nat)
    (w : W) (fs : List Container) (ls : List Loop) (isBlock : Bool) (hcif : w.cif = put (.mk code fs ls))
    (hpre : wfItems o pre seen = true) (hseen : ∀ k ∈ normNames o ls, k ∈ seen)
    (hname : wfName n = true) (hfresh : o.norm n ∉ normNames o (denoteItems o.dia o.normKey pre ls))
    (hwv : wfVals o vs = true) (hpost : wfItems o post seen2 = true)
    (hseen2 : ∀ k ∈ normNames o (denoteItems o.dia o.normKey (pre ++ [.item n (.lst vs)]) ls), k ∈ seen2)
    (hfuel : szItems pre + szItems post + (szVals vs + 2) + 1 ≤ fuel)
    (hpostne : post ≠ [] ∨ ∃ ty tx ts, rest = (ty, tx) :: ts ∧ isTerminator ty = true)
    (hrest : lastIsLoop post = true → ∃ ty tx ts, rest = (ty, tx) :: ts ∧ isTerminator ty = true)
    (hF : Feeds o s (itemsToks pre ++ (((.name, n) :: (.olist, btx) :: valsToks vs) ++ (itemsToks post ++ rest)))) :
    ∃ s' r, elemsLoop o (fuel + post.length + 1 + pre.length) s (some path) isBlock acceptAll w
        = elemsLoop o fuel s' (some path) isBlock acceptAll
            { log := r :: w.log, cif := put (.mk code fs (denoteItems o.dia o.normKey (pre ++ [.item n (.lst vs)] ++ post) ls)) }
      ∧ r.code = CIF_MISSING_DELIM ∧ Feeds o s' rest := by
  obtain ⟨ty, tx, ts, hnx, hterm⟩ := next_is_terminator post rest hpostne
  have := item_defect_run o hv pre post n .olist btx (valsToks vs) (.lst (denoteVals o.dia o.normKey vs)) CIF_MISSING_DELIM
    (szVals vs + 2) seen seen2 rest s fuel w fs ls isBlock hcif hpre hseen hname hfresh rfl rfl
    (by
      intro f s1 w1 hf hF1
      rw [hnx] at hF1 ⊢
      exact open_list_value o vs btx ty tx ts s1 f w1 hwv hf hterm hF1)
    hpost (by simpa [denoteItems_append, denoteItems, denoteVal] using hseen2) hfuel hrest hF
  simpa [denoteItems_append, denoteItems, denoteVal] using this

/-- **unterminated table**: `_n { k₁:v₁ … kₖ:vₖ` followed by something that cannot continue the table -/
theorem missing_delim_table_run (o : Opts) {path : Path} {put : Container → Cif} {code : Str} (hv : View o path put code)
    (pre post : List Item) (n : Str) (btx : Str) (es : List (Str × Presentation × Val)) (seen seen2 : List Str) (rest : List TokSpec)
    (s : PS) (fuel : Nat) (w : W) (fs : List Container) (ls : List Loop) (isBlock : Bool) (hcif : w.cif = put (.mk code fs ls))
    (hpre : wfItems o pre seen = true) (hseen : ∀ k ∈ normNames o ls, k ∈ seen)
    (hname : wfName n = true) (hfresh : o.norm n ∉ normNames o (denoteItems o.dia o.normKey pre ls))
    (hwv : wfEntries o es = true) (hpost : wfItems o post seen2 = true)
    (hseen2 : ∀ k ∈ normNames o (denoteItems o.dia o.normKey (pre ++ [.item n (.tbl es)]) ls), k ∈ seen2)
    (hfuel : szItems pre + szItems post + (szEntries es + 2) + 1 ≤ fuel)
    (hpostne : post ≠ [] ∨ ∃ ty tx ts, rest = (ty, tx) :: ts ∧ isTerminator ty = true)
    (hrest : lastIsLoop post = true → ∃ ty tx ts, rest = (ty, tx) :: ts ∧ isTerminator ty = true)
    (hF : Feeds o s (itemsToks pre ++ (((.name, n) :: (.otable, btx) :: entriesToks es) ++ (itemsToks post ++ rest)))) :
    ∃ s' r, elemsLoop o (fuel + post.length + 1 + pre.length) s (some path) isBlock acceptAll w
        = elemsLoop o fuel s' (some path) isBlock acceptAll
            { log := r :: w.log, cif := put (.mk code fs (denoteItems o.dia o.normKey (pre ++ [.item n (.tbl es)] ++ post) ls)) }
      ∧ r.code = CIF_MISSING_DELIM ∧ Feeds o s' rest := by
  obtain ⟨ty, tx, ts, hnx, hterm⟩ := next_is_terminator post rest hpostne
  have := item_defect_run o hv pre post n .otable btx (entriesToks es) (.tbl (denoteEntries o.dia o.normKey es [])) CIF_MISSING_DELIM
    (szEntries es + 2) seen seen2 rest s fuel w fs ls isBlock hcif hpre hseen hname hfresh rfl rfl
    (by
      intro f s1 w1 hf hF1
      rw [hnx] at hF1 ⊢
      exact open_table_value o es btx ty tx ts s1 f w1 hwv hf hterm hF1)
    hpost (by simpa [denoteItems_append, denoteItems, denoteVal] using hseen2) hfuel hrest hF
  simpa [denoteItems_append, denoteItems, denoteVal] using this

end CifModel.Model.Parser

namespace CifModel.Model.Parser
open CifModel CifModel.Model CifModel.Model.Lexer CifModel.Spec.Grammar CifModel.Spec.Lexical
open CifModel.Gen.ErrCodes

/-! ## part 3 — one defective entry inside a table (the table being the value of a scalar item) -/

/-- the first entries of a table: the table loop goes on behind them with the entries collected -/
theorem entries_prefix (o : Opts) : ∀ (es : List (Str × Presentation × Val)) (X : List TokSpec) (s : PS) (fuel : Nat) (pol : Policy)
    (w : W) (acc : List (Str × Str × V)), wfEntries o es = true → szEntries es ≤ fuel → Feeds o s (entriesToks es ++ X) →
    ∃ s', tableLoop o (fuel + 2 * es.length) s acc pol w = tableLoop o fuel s' (denoteEntries o.dia o.normKey es acc) pol w
      ∧ Feeds o s' X
  | [], X, s, fuel, pol, w, acc, _, _, hF => ⟨s, by simp [denoteEntries], by simpa [entriesToks] using hF⟩
  | (k, kp, v) :: es, X, s, fuel, pol, w, acc, hw, hf, hF => by
    simp only [wfEntries, Bool.and_eq_true, Bool.not_eq_true'] at hw
    simp only [szEntries] at hf
    simp only [entriesToks, List.cons_append, List.append_assoc] at hF
    obtain ⟨t, s', hty, htx, hn, _, hr⟩ := hF.inv
    obtain ⟨vty, vtx, vts, hvt, hstart, _⟩ := valToks_head v
    have hr' := hr
    rw [hvt, List.cons_append] at hr'
    obtain ⟨t2, s2, hty2, htx2, hn2, ht2, hr2⟩ := hr'.inv
    have hpend : Feeds o s2 (valToks v ++ (entriesToks es ++ X)) := by
      rw [hvt, List.cons_append, ← hty2, ← htx2]; exact Feeds.pending ht2 hr2
    obtain ⟨s3, h1, h2⟩ := value_structure o v _ s2 (fuel + 2 * es.length) pol w hw.1.2 (by omega) hpend
    obtain ⟨s4, h3, h4⟩ := entries_prefix o es X s3 fuel pol w (putEntry o.normKey acc k (denoteVal o.dia o.normKey v)) hw.2
      (by omega) h2
    refine ⟨s4, ?_, h4⟩
    have hfu : fuel + 2 * ((k, kp, v) :: es).length = (fuel + 2 * es.length + 1) + 1 := by simp; omega
    rw [hfu, tableLoop]
    simp only [bind_eq, pure_eq, P.bind, P.pure, hn, hty, htx, cstr_noNul hw.1.1.1]
    rw [tableEntry]
    simp only [bind_eq, pure_eq, P.bind, P.pure, hw.1.1.2, Bool.false_eq_true, if_false, hn2, hty2, hstart, if_true, h1,
      tableSet_eq_putEntry, h3, denoteEntries]

/-- well-formed entries, ONE defective entry (`DE`, recovered as `recE`, `cost` iterations of fuel), well-formed entries, `}` -/
theorem entries_defect (o : Opts) (pre post : List (Str × Presentation × Val)) (DE : List TokSpec)
    (recE : List (Str × Str × V) → List (Str × Str × V)) (C : Code) (cost : Nat) (rest : List TokSpec) (s : PS) (F : Nat) (w : W)
    (acc : List (Str × Str × V)) (hpre : wfEntries o pre = true) (hpost : wfEntries o post = true)
    (hstep : ∀ (s1 : PS) (w1 : W) (acc1 : List (Str × Str × V)),
      Feeds o s1 (DE ++ (entriesToks post ++ (.ctable, [125]) :: rest)) →
      ∃ s2 r, tableLoop o (F + cost) s1 acc1 acceptAll w1 = tableLoop o F s2 (recE acc1) acceptAll { w1 with log := r :: w1.log }
        ∧ r.code = C ∧ Feeds o s2 (entriesToks post ++ (.ctable, [125]) :: rest))
    (hf1 : szEntries pre ≤ F + cost) (hf2 : szEntries post + 1 ≤ F)
    (hF : Feeds o s (entriesToks pre ++ (DE ++ (entriesToks post ++ (.ctable, [125]) :: rest)))) :
    ∃ s' r, tableLoop o (F + cost + 2 * pre.length) s acc acceptAll w
        = .ok (denoteEntries o.dia o.normKey post (recE (denoteEntries o.dia o.normKey pre acc)), s') { w with log := r :: w.log }
      ∧ r.code = C ∧ Feeds o s' rest := by
  obtain ⟨s1, h1, h2⟩ := entries_prefix o pre _ s (F + cost) acceptAll w acc hpre hf1 hF
  obtain ⟨s2, r, h3, hc, h4⟩ := hstep s1 w (denoteEntries o.dia o.normKey pre acc) h2
  obtain ⟨s3, h5, h6⟩ := entries_structure o post rest s2 F acceptAll { w with log := r :: w.log } _ hpost hf2 h4
  exact ⟨s3, r, by rw [h1, h3, h5], hc, h6⟩

/-- parse_value on a table with one defective entry -/
theorem table_defect_value (o : Opts) (pre post : List (Str × Presentation × Val)) (DE : List TokSpec)
    (recE : List (Str × Str × V) → List (Str × Str × V)) (C : Code) (cost : Nat) (btx : Str) (rest : List TokSpec) (s : PS) (F : Nat) (w : W)
    (hpre : wfEntries o pre = true) (hpost : wfEntries o post = true)
    (hstep : ∀ (s1 : PS) (w1 : W) (acc1 : List (Str × Str × V)),
      Feeds o s1 (DE ++ (entriesToks post ++ (.ctable, [125]) :: rest)) →
      ∃ s2 r, tableLoop o (F + cost) s1 acc1 acceptAll w1 = tableLoop o F s2 (recE acc1) acceptAll { w1 with log := r :: w1.log }
        ∧ r.code = C ∧ Feeds o s2 (entriesToks post ++ (.ctable, [125]) :: rest))
    (hf1 : szEntries pre ≤ F + cost) (hf2 : szEntries post + 1 ≤ F)
    (hF : Feeds o s ((.otable, btx) :: (entriesToks pre ++ (DE ++ (entriesToks post ++ (.ctable, [125]) :: rest))))) :
    ∃ s' r, parseValue o (F + cost + 2 * pre.length + 1) s acceptAll w
        = .ok (.tbl (denoteEntries o.dia o.normKey post (recE (denoteEntries o.dia o.normKey pre []))), s') { w with log := r :: w.log }
      ∧ r.code = C ∧ Feeds o s' rest := by
  obtain ⟨t, s1, hty, _, hn, _, hr⟩ := hF.inv
  obtain ⟨s2, r, h1, hc, h2⟩ := entries_defect o pre post DE recE C cost rest (consume s1) F w [] hpre hpost hstep hf1 hf2 hr
  refine ⟨s2, r, ?_, hc, h2⟩
  rw [parseValue]
  simp only [bind_eq, pure_eq, P.bind, P.pure, hn, hty, h1]

end CifModel.Model.Parser

namespace CifModel.Model.Parser
open CifModel CifModel.Model CifModel.Model.Lexer CifModel.Spec.Grammar CifModel.Spec.Lexical
open CifModel.Gen.ErrCodes

/-- a scalar item whose table value has ONE defective entry, inside any well-formed runs of items.
    `hstepAll` = the behaviour of the table loop on the defective entry, for every sufficient fuel `F ≥ needE`. -/
theorem table_item_run (o : Opts) {path : Path} {put : Container → Cif} {code : Str} (hv : View o path put code)
    (pre post : List Item) (n : Str) (btx : Str) (epre epost : List (Str × Presentation × Val)) (DE : List TokSpec)
    (recE : List (Str × Str × V) → List (Str × Str × V)) (C : Code) (cost needE : Nat)
    (seen seen2 : List Str) (rest : List TokSpec) (s : PS) (fuel : Nat) (w : W)
    (fs : List Container) (ls : List Loop) (isBlock : Bool) (hcif : w.cif = put (.mk code fs ls))
    (hpre : wfItems o pre seen = true) (hseen : ∀ k ∈ normNames o ls, k ∈ seen)
    (hname : wfName n = true) (hfresh : o.norm n ∉ normNames o (denoteItems o.dia o.normKey pre ls))
    (hepre : wfEntries o epre = true) (hepost : wfEntries o epost = true)
    (hstepAll : ∀ (F : Nat) (X : List TokSpec) (s1 : PS) (w1 : W) (acc1 : List (Str × Str × V)), needE ≤ F →
      Feeds o s1 (DE ++ (entriesToks epost ++ (.ctable, [125]) :: X)) →
      ∃ s2 r, tableLoop o (F + cost) s1 acc1 acceptAll w1 = tableLoop o F s2 (recE acc1) acceptAll { w1 with log := r :: w1.log }
        ∧ r.code = C ∧ Feeds o s2 (entriesToks epost ++ (.ctable, [125]) :: X))
    (hpost : wfItems o post seen2 = true)
    (hseen2 : ∀ k ∈ normNames o (putScalar (denoteItems o.dia o.normKey pre ls) n
        (.tbl (denoteEntries o.dia o.normKey epost (recE (denoteEntries o.dia o.normKey epre []))))), k ∈ seen2)
    (hfuel : szItems pre + szItems post + (szEntries epre + szEntries epost + needE + cost + 2 * epre.length + 3) + 1 ≤ fuel)
    (hrest : lastIsLoop post = true → ∃ ty tx ts, rest = (ty, tx) :: ts ∧ isTerminator ty = true)
    (hF : Feeds o s (itemsToks pre ++ (((.name, n) :: (.otable, btx) ::
        (entriesToks epre ++ (DE ++ (entriesToks epost ++ [(.ctable, [125])])))) ++ (itemsToks post ++ rest)))) :
    ∃ s' r, elemsLoop o (fuel + post.length + 1 + pre.length) s (some path) isBlock acceptAll w
        = elemsLoop o fuel s' (some path) isBlock acceptAll
            { log := r :: w.log,
              cif := put (.mk code fs (denoteItems o.dia o.normKey post (putScalar (denoteItems o.dia o.normKey pre ls) n
                (.tbl (denoteEntries o.dia o.normKey epost (recE (denoteEntries o.dia o.normKey epre []))))))) }
      ∧ r.code = C ∧ Feeds o s' rest :=
  item_defect_run o hv pre post n .otable btx (entriesToks epre ++ (DE ++ (entriesToks epost ++ [(.ctable, [125])])))
    (.tbl (denoteEntries o.dia o.normKey epost (recE (denoteEntries o.dia o.normKey epre [])))) C
    (szEntries epre + szEntries epost + needE + cost + 2 * epre.length + 3) seen seen2 rest s fuel w fs ls isBlock hcif hpre hseen hname
    hfresh rfl rfl
    (by
      intro f s1 w1 hf hF1
      obtain ⟨F, hFe⟩ : ∃ F, f = F + cost + 2 * epre.length + 1 := ⟨f - cost - 2 * epre.length - 1, by omega⟩
      rw [hFe]
      refine table_defect_value o epre epost DE recE C cost btx _ s1 F w1 hepre hepost
        (fun s2 w2 acc2 h => hstepAll F _ s2 w2 acc2 (by omega) h) (by omega) (by omega) ?_
      simpa [List.append_assoc] using hF1)
    hpost hseen2 hfuel hrest hF

end CifModel.Model.Parser

namespace CifModel.Model.Parser
open CifModel CifModel.Model CifModel.Model.Lexer CifModel.Spec.Grammar CifModel.Spec.Lexical
open CifModel.Gen.ErrCodes

/-- what follows an entry inside a table (the next key or the closing brace) does not start a value -/
theorem entries_rest_head (es : List (Str × Presentation × Val)) (X : List TokSpec) :
    ∃ ty tx ts, entriesToks es ++ (.ctable, [125]) :: X = (ty, tx) :: ts ∧ isValueStart ty = false := by
  cases es with
  | nil => exact ⟨_, _, _, rfl, rfl⟩
  | cons e r =>
    obtain ⟨k, kp, v⟩ := e
    exact ⟨.key, k, valToks v ++ (entriesToks r ++ (.ctable, [125]) :: X), by simp [entriesToks], rfl⟩

/-! ### a key without a value (CIF_MISSING_VALUE inside a table): the entry gets the unknown value -/

theorem table_missing_value_step (o : Opts) (k : Str) (epost : List (Str × Presentation × Val)) (X : List TokSpec) (F : Nat) (s1 : PS)
    (w1 : W) (acc1 : List (Str × Str × V)) (hk0 : noNul k = true) (hkd : hasDisallowed k = false)
    (hF : Feeds o s1 ([(.key, k)] ++ (entriesToks epost ++ (.ctable, [125]) :: X))) :
    ∃ s2 r, tableLoop o (F + 2) s1 acc1 acceptAll w1
        = tableLoop o F s2 (putEntry o.normKey acc1 k .unk) acceptAll { w1 with log := r :: w1.log }
      ∧ r.code = CIF_MISSING_VALUE ∧ Feeds o s2 (entriesToks epost ++ (.ctable, [125]) :: X) := by
  simp only [List.singleton_append] at hF
  obtain ⟨t, s', hty, htx, hn, _, hr⟩ := hF.inv
  obtain ⟨ty2, tx2, ts2, hhead, hns⟩ := entries_rest_head epost X
  have hr' := hr
  rw [hhead] at hr'
  obtain ⟨t2, s2, hty2, htx2, hn2, ht2, hr2⟩ := hr'.inv
  refine ⟨s2, ⟨CIF_MISSING_VALUE, s2.scan.line, s2.scan.col - t2.text.length⟩, ?_, rfl,
    by rw [hhead, ← hty2, ← htx2]; exact Feeds.pending ht2 hr2⟩
  rw [tableLoop]
  simp only [bind_eq, pure_eq, P.bind, P.pure, hn, hty, htx, cstr_noNul hk0]
  rw [tableEntry]
  simp only [bind_eq, pure_eq, P.bind, P.pure, hkd, Bool.false_eq_true, if_false, hn2, hty2, hns, report_accept,
    tableSet_eq_putEntry]

/-! ### a text field used as a key (CIF_MISQUOTED_KEY): its decoded content is the key -/

theorem table_misquoted_key_step (o : Opts) (body : Str) (v : Val) (epost : List (Str × Presentation × Val)) (X : List TokSpec) (F : Nat)
    (s1 : PS) (w1 : W) (acc1 : List (Str × Str × V))
    (hk0 : noNul (Decode.decodeText o.unfold o.prem body) = true) (hkd : hasDisallowed (Decode.decodeText o.unfold o.prem body) = false)
    (hwv : wfVal o v = true) (hf : szVal v ≤ F)
    (hF : Feeds o s1 (((.tkey, body) :: valToks v) ++ (entriesToks epost ++ (.ctable, [125]) :: X))) :
    ∃ s2 r, tableLoop o (F + 2) s1 acc1 acceptAll w1
        = tableLoop o F s2 (putEntry o.normKey acc1 (Decode.decodeText o.unfold o.prem body) (denoteVal o.dia o.normKey v)) acceptAll
            { w1 with log := r :: w1.log }
      ∧ r.code = CIF_MISQUOTED_KEY ∧ Feeds o s2 (entriesToks epost ++ (.ctable, [125]) :: X) := by
  simp only [List.cons_append] at hF
  obtain ⟨t, s', hty, htx, hn, _, hr⟩ := hF.inv
  obtain ⟨vty, vtx, vts, hvt, hstart, _⟩ := valToks_head v
  have hr' := hr
  rw [hvt, List.cons_append] at hr'
  obtain ⟨t2, s2, hty2, htx2, hn2, ht2, hr2⟩ := hr'.inv
  have hpend : Feeds o s2 (valToks v ++ (entriesToks epost ++ (.ctable, [125]) :: X)) := by
    rw [hvt, List.cons_append, ← hty2, ← htx2]; exact Feeds.pending ht2 hr2
  let r0 : Report := ⟨CIF_MISQUOTED_KEY, s'.scan.line, s'.scan.col - body.length⟩
  obtain ⟨s3, h1, h2⟩ := value_structure o v _ s2 F acceptAll { w1 with log := r0 :: w1.log } hwv hf hpend
  refine ⟨s3, r0, ?_, rfl, h2⟩
  rw [tableLoop]
  simp only [bind_eq, pure_eq, P.bind, P.pure, hn, hty, htx, report_accept, cstr_noNul hk0]
  rw [tableEntry]
  simp only [bind_eq, pure_eq, P.bind, P.pure, hkd, Bool.false_eq_true, if_false, hn2, hty2, hstart, if_true, h1,
    tableSet_eq_putEntry, r0]

/-! ### a value without a key (CIF_MISSING_KEY): parsed and dropped -/

/-- the value is delimited, a text field, a list or a table (a whitespace-delimited word: `table_stray_word_step`) -/
def notBare : Val → Bool
  | .unk => false
  | .na => false
  | .str _ .bare => false
  | _ => true

theorem valToks_head_notBare (v : Val) (h : notBare v = true) :
    ∃ ty tx ts, valToks v = (ty, tx) :: ts ∧ (ty = .qvalue ∨ ty = .tvalue ∨ ty = .olist ∨ ty = .otable) := by
  cases v with
  | unk => simp [notBare] at h
  | na => simp [notBare] at h
  | str s p =>
    cases p with
    | bare => exact absurd h (by simp [notBare])
    | _ => exact ⟨_, _, _, rfl, by simp [Presentation.tokType]⟩
  | enc t b => exact ⟨_, _, _, rfl, Or.inr (Or.inl rfl)⟩
  | lst vs => exact ⟨_, _, _, rfl, Or.inr (Or.inr (Or.inl rfl))⟩
  | tbl es => exact ⟨_, _, _, rfl, Or.inr (Or.inr (Or.inr rfl))⟩

theorem table_missing_key_step (o : Opts) (v : Val) (epost : List (Str × Presentation × Val)) (X : List TokSpec) (F : Nat)
    (s1 : PS) (w1 : W) (acc1 : List (Str × Str × V)) (hnb : notBare v = true) (hwv : wfVal o v = true) (hf : szVal v ≤ F)
    (hF : Feeds o s1 (valToks v ++ (entriesToks epost ++ (.ctable, [125]) :: X))) :
    ∃ s2 r, tableLoop o (F + 1) s1 acc1 acceptAll w1 = tableLoop o F s2 acc1 acceptAll { w1 with log := r :: w1.log }
      ∧ r.code = CIF_MISSING_KEY ∧ Feeds o s2 (entriesToks epost ++ (.ctable, [125]) :: X) := by
  obtain ⟨vty, vtx, vts, hvt, hty4⟩ := valToks_head_notBare v hnb
  have hF' := hF
  rw [hvt, List.cons_append] at hF'
  obtain ⟨t, s', hty, htx, hn, ht, hr⟩ := hF'.inv
  have hpend : Feeds o s' (valToks v ++ (entriesToks epost ++ (.ctable, [125]) :: X)) := by
    rw [hvt, List.cons_append, ← hty, ← htx]; exact Feeds.pending ht hr
  let r0 : Report := ⟨CIF_MISSING_KEY, s'.scan.line, s'.scan.col - t.text.length⟩
  obtain ⟨s3, h1, h2⟩ := value_structure o v _ s' F acceptAll { w1 with log := r0 :: w1.log } hwv hf hpend
  refine ⟨s3, r0, ?_, rfl, h2⟩
  rw [tableLoop]
  rcases hty4 with h | h | h | h <;>
    simp only [bind_eq, pure_eq, P.bind, P.pure, hn, hty, h, report_accept, h1, r0]

/-- a whitespace-delimited word without a colon inside a table -/
theorem table_stray_word_step (o : Opts) (tx : Str) (epost : List (Str × Presentation × Val)) (X : List TokSpec) (F : Nat)
    (s1 : PS) (w1 : W) (acc1 : List (Str × Str × V)) (hhead : tx.head? ≠ some colon) (hcolon : colonIdx tx = none)
    (hF : Feeds o s1 ([(.value, tx)] ++ (entriesToks epost ++ (.ctable, [125]) :: X))) :
    ∃ s2 r, tableLoop o (F + 1) s1 acc1 acceptAll w1 = tableLoop o F s2 acc1 acceptAll { w1 with log := r :: w1.log }
      ∧ r.code = CIF_MISSING_KEY ∧ Feeds o s2 (entriesToks epost ++ (.ctable, [125]) :: X) := by
  simp only [List.singleton_append] at hF
  obtain ⟨t, s', hty, htx, hn, _, hr⟩ := hF.inv
  refine ⟨consume s', ⟨CIF_MISSING_KEY, s'.scan.line, s'.scan.col - t.text.length⟩, ?_, rfl, hr⟩
  rw [tableLoop]
  simp only [bind_eq, pure_eq, P.bind, P.pure, hn, hty, htx, hhead, if_false, hcolon, report_accept]

/-! ### a colon without a key (CIF_NULL_KEY), the colon standing alone: the value behind it is parsed and dropped -/

theorem table_null_key_step (o : Opts) (v : Val) (epost : List (Str × Presentation × Val)) (X : List TokSpec) (F : Nat)
    (s1 : PS) (w1 : W) (acc1 : List (Str × Str × V)) (hwv : wfVal o v = true) (hf : szVal v ≤ F)
    (hF : Feeds o s1 (((.value, [colon]) :: valToks v) ++ (entriesToks epost ++ (.ctable, [125]) :: X))) :
    ∃ s2 r, tableLoop o (F + 2) s1 acc1 acceptAll w1 = tableLoop o F s2 acc1 acceptAll { w1 with log := r :: w1.log }
      ∧ r.code = CIF_NULL_KEY ∧ Feeds o s2 (entriesToks epost ++ (.ctable, [125]) :: X) := by
  simp only [List.cons_append] at hF
  obtain ⟨t, s', hty, htx, hn, _, hr⟩ := hF.inv
  obtain ⟨vty, vtx, vts, hvt, hstart, _⟩ := valToks_head v
  have hr' := hr
  rw [hvt, List.cons_append] at hr'
  obtain ⟨t2, s2, hty2, htx2, hn2, ht2, hr2⟩ := hr'.inv
  have hpend : Feeds o s2 (valToks v ++ (entriesToks epost ++ (.ctable, [125]) :: X)) := by
    rw [hvt, List.cons_append, ← hty2, ← htx2]; exact Feeds.pending ht2 hr2
  let r0 : Report := ⟨CIF_NULL_KEY, s'.scan.line, s'.scan.col - 1⟩
  obtain ⟨s3, h1, h2⟩ := value_structure o v _ s2 F acceptAll { w1 with log := r0 :: w1.log } hwv hf hpend
  refine ⟨s3, r0, ?_, rfl, h2⟩
  rw [tableLoop]
  simp only [bind_eq, pure_eq, P.bind, P.pure, hn, hty, htx, List.head?_cons, if_true, report_accept, List.length_singleton,
    Nat.lt_irrefl, gt_iff_lt, if_false]
  rw [tableEntry]
  simp only [bind_eq, pure_eq, P.bind, P.pure, hn2, hty2, hstart, if_true, h1, r0]

end CifModel.Model.Parser

namespace CifModel.Model.Parser
open CifModel CifModel.Model CifModel.Model.Lexer CifModel.Spec.Grammar CifModel.Spec.Lexical
open CifModel.Gen.ErrCodes

theorem denoteEntries_append (dia : Dialect) (nk : Str → Str) : ∀ (a b : List (Str × Presentation × Val)) (acc : List (Str × Str × V)),
    denoteEntries dia nk (a ++ b) acc = denoteEntries dia nk b (denoteEntries dia nk a acc)
  | [], b, acc => by simp [denoteEntries]
  | (k, kp, v) :: r, b, acc => by simp only [List.cons_append, denoteEntries]; exact denoteEntries_append dia nk r b _

/-- `table_item_run` with the recovery given as the entries `R` that stand for the defective construct: the content afterwards is
    that of the document in which the defective construct is replaced by `R` -/
theorem table_item_run_as (o : Opts) {path : Path} {put : Container → Cif} {code : Str} (hv : View o path put code)
    (pre post : List Item) (n : Str) (btx : Str) (epre epost R : List (Str × Presentation × Val)) (DE : List TokSpec)
    (C : Code) (cost needE : Nat)
    (seen seen2 : List Str) (rest : List TokSpec) (s : PS) (fuel : Nat) (w : W)
    (fs : List Container) (ls : List Loop) (isBlock : Bool) (hcif : w.cif = put (.mk code fs ls))
    (hpre : wfItems o pre seen = true) (hseen : ∀ k ∈ normNames o ls, k ∈ seen)
    (hname : wfName n = true) (hfresh : o.norm n ∉ normNames o (denoteItems o.dia o.normKey pre ls))
    (hepre : wfEntries o epre = true) (hepost : wfEntries o epost = true)
    (hstepAll : ∀ (F : Nat) (X : List TokSpec) (s1 : PS) (w1 : W) (acc1 : List (Str × Str × V)), needE ≤ F →
      Feeds o s1 (DE ++ (entriesToks epost ++ (.ctable, [125]) :: X)) →
      ∃ s2 r, tableLoop o (F + cost) s1 acc1 acceptAll w1
          = tableLoop o F s2 (denoteEntries o.dia o.normKey R acc1) acceptAll { w1 with log := r :: w1.log }
        ∧ r.code = C ∧ Feeds o s2 (entriesToks epost ++ (.ctable, [125]) :: X))
    (hpost : wfItems o post seen2 = true)
    (hseen2 : ∀ k ∈ normNames o (denoteItems o.dia o.normKey (pre ++ [.item n (.tbl (epre ++ R ++ epost))]) ls), k ∈ seen2)
    (hfuel : szItems pre + szItems post + (szEntries epre + szEntries epost + needE + cost + 2 * epre.length + 3) + 1 ≤ fuel)
    (hrest : lastIsLoop post = true → ∃ ty tx ts, rest = (ty, tx) :: ts ∧ isTerminator ty = true)
    (hF : Feeds o s (itemsToks pre ++ (((.name, n) :: (.otable, btx) ::
        (entriesToks epre ++ (DE ++ (entriesToks epost ++ [(.ctable, [125])])))) ++ (itemsToks post ++ rest)))) :
    ∃ s' r, elemsLoop o (fuel + post.length + 1 + pre.length) s (some path) isBlock acceptAll w
        = elemsLoop o fuel s' (some path) isBlock acceptAll
            { log := r :: w.log,
              cif := put (.mk code fs (denoteItems o.dia o.normKey (pre ++ [.item n (.tbl (epre ++ R ++ epost))] ++ post) ls)) }
      ∧ r.code = C ∧ Feeds o s' rest := by
  have := table_item_run o hv pre post n btx epre epost DE (fun acc => denoteEntries o.dia o.normKey R acc) C cost needE seen seen2
    rest s fuel w fs ls isBlock hcif hpre hseen hname hfresh hepre hepost hstepAll hpost
    (by simpa [denoteItems_append, denoteItems, denoteVal, denoteEntries_append] using hseen2) hfuel hrest hF
  simpa [denoteItems_append, denoteItems, denoteVal, denoteEntries_append] using this

end CifModel.Model.Parser

namespace CifModel.Model.Parser
open CifModel CifModel.Model CifModel.Model.Lexer CifModel.Spec.Grammar CifModel.Spec.Lexical
open CifModel.Gen.ErrCodes

/-! ### the table-key classes, universally: any container, any items before and behind, any entries before and behind -/

/-- a key that is not followed by a value, inside a table: one CIF_MISSING_VALUE, the key gets the unknown value; the entries before and behind, the items before and behind are unaffected -/
theorem table_missing_value_run (o : Opts) {path : Path} {put : Container → Cif} {code : Str} (hv : View o path put code)
    (pre post : List Item) (n : Str) (btx : Str) (epre epost : List (Str × Presentation × Val)) (k : Str) (kp : Presentation)
    (seen seen2 : List Str) (rest : List TokSpec) (s : PS) (fuel : Nat) (w : W)
    (fs : List Container) (ls : List Loop) (isBlock : Bool) (hcif : w.cif = put (.mk code fs ls))
    (hpre : wfItems o pre seen = true) (hseen : ∀ k ∈ normNames o ls, k ∈ seen)
    (hname : wfName n = true) (hfresh : o.norm n ∉ normNames o (denoteItems o.dia o.normKey pre ls))
    (hepre : wfEntries o epre = true) (hepost : wfEntries o epost = true) (hk0 : noNul k = true) (hkd : hasDisallowed k = false)
    (hpost : wfItems o post seen2 = true)
    (hseen2 : ∀ x ∈ normNames o (denoteItems o.dia o.normKey (pre ++ [.item n (.tbl (epre ++ [(k, kp, Val.unk)] ++ epost))]) ls), x ∈ seen2)
    (hfuel : szItems pre + szItems post + (szEntries epre + szEntries epost + 0 + 2 + 2 * epre.length + 3) + 1 ≤ fuel)
    (hrest : lastIsLoop post = true → ∃ ty tx ts, rest = (ty, tx) :: ts ∧ isTerminator ty = true)
    (hF : Feeds o s (itemsToks pre ++ (((.name, n) :: (.otable, btx) ::
        (entriesToks epre ++ ([(TokType.key, k)] ++ (entriesToks epost ++ [(.ctable, [125])])))) ++ (itemsToks post ++ rest)))) :
    ∃ s' r, elemsLoop o (fuel + post.length + 1 + pre.length) s (some path) isBlock acceptAll w
        = elemsLoop o fuel s' (some path) isBlock acceptAll
            { log := r :: w.log,
              cif := put (.mk code fs (denoteItems o.dia o.normKey (pre ++ [.item n (.tbl (epre ++ [(k, kp, Val.unk)] ++ epost))] ++ post) ls)) }
      ∧ r.code = CIF_MISSING_VALUE ∧ Feeds o s' rest :=
  table_item_run_as o hv pre post n btx epre epost [(k, kp, Val.unk)] [(TokType.key, k)] CIF_MISSING_VALUE 2 0 seen seen2 rest s fuel w fs ls isBlock
    hcif hpre hseen hname hfresh hepre hepost
    (fun F X s1 w1 acc1 hf h => by simpa [denoteEntries, denoteVal] using table_missing_value_step o k epost X F s1 w1 acc1 hk0 hkd h)
    hpost hseen2 hfuel hrest hF

/-- a text field in key position: one CIF_MISQUOTED_KEY, the entry is kept under the decoded content of the field -/
theorem table_misquoted_key_run (o : Opts) {path : Path} {put : Container → Cif} {code : Str} (hv : View o path put code)
    (pre post : List Item) (n : Str) (btx : Str) (epre epost : List (Str × Presentation × Val)) (body : Str) (kp : Presentation) (v : Val)
    (seen seen2 : List Str) (rest : List TokSpec) (s : PS) (fuel : Nat) (w : W)
    (fs : List Container) (ls : List Loop) (isBlock : Bool) (hcif : w.cif = put (.mk code fs ls))
    (hpre : wfItems o pre seen = true) (hseen : ∀ k ∈ normNames o ls, k ∈ seen)
    (hname : wfName n = true) (hfresh : o.norm n ∉ normNames o (denoteItems o.dia o.normKey pre ls))
    (hepre : wfEntries o epre = true) (hepost : wfEntries o epost = true) (hk0 : noNul (Decode.decodeText o.unfold o.prem body) = true)
    (hkd : hasDisallowed (Decode.decodeText o.unfold o.prem body) = false) (hwv : wfVal o v = true)
    (hpost : wfItems o post seen2 = true)
    (hseen2 : ∀ x ∈ normNames o (denoteItems o.dia o.normKey (pre ++ [.item n (.tbl (epre ++ [(Decode.decodeText o.unfold o.prem body, kp, v)] ++ epost))]) ls), x ∈ seen2)
    (hfuel : szItems pre + szItems post + (szEntries epre + szEntries epost + szVal v + 2 + 2 * epre.length + 3) + 1 ≤ fuel)
    (hrest : lastIsLoop post = true → ∃ ty tx ts, rest = (ty, tx) :: ts ∧ isTerminator ty = true)
    (hF : Feeds o s (itemsToks pre ++ (((.name, n) :: (.otable, btx) ::
        (entriesToks epre ++ (((TokType.tkey, body) :: valToks v) ++ (entriesToks epost ++ [(.ctable, [125])])))) ++ (itemsToks post ++ rest)))) :
    ∃ s' r, elemsLoop o (fuel + post.length + 1 + pre.length) s (some path) isBlock acceptAll w
        = elemsLoop o fuel s' (some path) isBlock acceptAll
            { log := r :: w.log,
              cif := put (.mk code fs (denoteItems o.dia o.normKey (pre ++ [.item n (.tbl (epre ++ [(Decode.decodeText o.unfold o.prem body, kp, v)] ++ epost))] ++ post) ls)) }
      ∧ r.code = CIF_MISQUOTED_KEY ∧ Feeds o s' rest :=
  table_item_run_as o hv pre post n btx epre epost [(Decode.decodeText o.unfold o.prem body, kp, v)] ((TokType.tkey, body) :: valToks v) CIF_MISQUOTED_KEY 2 (szVal v) seen seen2 rest s fuel w fs ls isBlock
    hcif hpre hseen hname hfresh hepre hepost
    (fun F X s1 w1 acc1 hf h => by simpa [denoteEntries, denoteVal] using table_misquoted_key_step o body v epost X F s1 w1 acc1 hk0 hkd hwv hf h)
    hpost hseen2 hfuel hrest hF

/-- a delimited string, text field, list or table without a key inside a table: one CIF_MISSING_KEY, the value is parsed (whatever its size) and dropped -/
theorem table_missing_key_run (o : Opts) {path : Path} {put : Container → Cif} {code : Str} (hv : View o path put code)
    (pre post : List Item) (n : Str) (btx : Str) (epre epost : List (Str × Presentation × Val)) (v : Val)
    (seen seen2 : List Str) (rest : List TokSpec) (s : PS) (fuel : Nat) (w : W)
    (fs : List Container) (ls : List Loop) (isBlock : Bool) (hcif : w.cif = put (.mk code fs ls))
    (hpre : wfItems o pre seen = true) (hseen : ∀ k ∈ normNames o ls, k ∈ seen)
    (hname : wfName n = true) (hfresh : o.norm n ∉ normNames o (denoteItems o.dia o.normKey pre ls))
    (hepre : wfEntries o epre = true) (hepost : wfEntries o epost = true) (hnb : notBare v = true) (hwv : wfVal o v = true)
    (hpost : wfItems o post seen2 = true)
    (hseen2 : ∀ x ∈ normNames o (denoteItems o.dia o.normKey (pre ++ [.item n (.tbl (epre ++ [] ++ epost))]) ls), x ∈ seen2)
    (hfuel : szItems pre + szItems post + (szEntries epre + szEntries epost + szVal v + 1 + 2 * epre.length + 3) + 1 ≤ fuel)
    (hrest : lastIsLoop post = true → ∃ ty tx ts, rest = (ty, tx) :: ts ∧ isTerminator ty = true)
    (hF : Feeds o s (itemsToks pre ++ (((.name, n) :: (.otable, btx) ::
        (entriesToks epre ++ ((valToks v) ++ (entriesToks epost ++ [(.ctable, [125])])))) ++ (itemsToks post ++ rest)))) :
    ∃ s' r, elemsLoop o (fuel + post.length + 1 + pre.length) s (some path) isBlock acceptAll w
        = elemsLoop o fuel s' (some path) isBlock acceptAll
            { log := r :: w.log,
              cif := put (.mk code fs (denoteItems o.dia o.normKey (pre ++ [.item n (.tbl (epre ++ [] ++ epost))] ++ post) ls)) }
      ∧ r.code = CIF_MISSING_KEY ∧ Feeds o s' rest :=
  table_item_run_as o hv pre post n btx epre epost [] (valToks v) CIF_MISSING_KEY 1 (szVal v) seen seen2 rest s fuel w fs ls isBlock
    hcif hpre hseen hname hfresh hepre hepost
    (fun F X s1 w1 acc1 hf h => by simpa [denoteEntries, denoteVal] using table_missing_key_step o v epost X F s1 w1 acc1 hnb hwv hf h)
    hpost hseen2 hfuel hrest hF

/-- a whitespace-delimited word without a colon inside a table: one CIF_MISSING_KEY, the word is dropped -/
theorem table_stray_word_run (o : Opts) {path : Path} {put : Container → Cif} {code : Str} (hv : View o path put code)
    (pre post : List Item) (n : Str) (btx : Str) (epre epost : List (Str × Presentation × Val)) (tx : Str)
    (seen seen2 : List Str) (rest : List TokSpec) (s : PS) (fuel : Nat) (w : W)
    (fs : List Container) (ls : List Loop) (isBlock : Bool) (hcif : w.cif = put (.mk code fs ls))
    (hpre : wfItems o pre seen = true) (hseen : ∀ k ∈ normNames o ls, k ∈ seen)
    (hname : wfName n = true) (hfresh : o.norm n ∉ normNames o (denoteItems o.dia o.normKey pre ls))
    (hepre : wfEntries o epre = true) (hepost : wfEntries o epost = true) (hhead : tx.head? ≠ some colon) (hcolon : colonIdx tx = none)
    (hpost : wfItems o post seen2 = true)
    (hseen2 : ∀ x ∈ normNames o (denoteItems o.dia o.normKey (pre ++ [.item n (.tbl (epre ++ [] ++ epost))]) ls), x ∈ seen2)
    (hfuel : szItems pre + szItems post + (szEntries epre + szEntries epost + 0 + 1 + 2 * epre.length + 3) + 1 ≤ fuel)
    (hrest : lastIsLoop post = true → ∃ ty tx ts, rest = (ty, tx) :: ts ∧ isTerminator ty = true)
    (hF : Feeds o s (itemsToks pre ++ (((.name, n) :: (.otable, btx) ::
        (entriesToks epre ++ ([(TokType.value, tx)] ++ (entriesToks epost ++ [(.ctable, [125])])))) ++ (itemsToks post ++ rest)))) :
    ∃ s' r, elemsLoop o (fuel + post.length + 1 + pre.length) s (some path) isBlock acceptAll w
        = elemsLoop o fuel s' (some path) isBlock acceptAll
            { log := r :: w.log,
              cif := put (.mk code fs (denoteItems o.dia o.normKey (pre ++ [.item n (.tbl (epre ++ [] ++ epost))] ++ post) ls)) }
      ∧ r.code = CIF_MISSING_KEY ∧ Feeds o s' rest :=
  table_item_run_as o hv pre post n btx epre epost [] [(TokType.value, tx)] CIF_MISSING_KEY 1 0 seen seen2 rest s fuel w fs ls isBlock
    hcif hpre hseen hname hfresh hepre hepost
    (fun F X s1 w1 acc1 hf h => by simpa [denoteEntries, denoteVal] using table_stray_word_step o tx epost X F s1 w1 acc1 hhead hcolon h)
    hpost hseen2 hfuel hrest hF

/-- a colon standing alone in key position: one CIF_NULL_KEY, the value behind it is parsed and dropped -/
theorem table_null_key_run (o : Opts) {path : Path} {put : Container → Cif} {code : Str} (hv : View o path put code)
    (pre post : List Item) (n : Str) (btx : Str) (epre epost : List (Str × Presentation × Val)) (v : Val)
    (seen seen2 : List Str) (rest : List TokSpec) (s : PS) (fuel : Nat) (w : W)
    (fs : List Container) (ls : List Loop) (isBlock : Bool) (hcif : w.cif = put (.mk code fs ls))
    (hpre : wfItems o pre seen = true) (hseen : ∀ k ∈ normNames o ls, k ∈ seen)
    (hname : wfName n = true) (hfresh : o.norm n ∉ normNames o (denoteItems o.dia o.normKey pre ls))
    (hepre : wfEntries o epre = true) (hepost : wfEntries o epost = true) (hwv : wfVal o v = true)
    (hpost : wfItems o post seen2 = true)
    (hseen2 : ∀ x ∈ normNames o (denoteItems o.dia o.normKey (pre ++ [.item n (.tbl (epre ++ [] ++ epost))]) ls), x ∈ seen2)
    (hfuel : szItems pre + szItems post + (szEntries epre + szEntries epost + szVal v + 2 + 2 * epre.length + 3) + 1 ≤ fuel)
    (hrest : lastIsLoop post = true → ∃ ty tx ts, rest = (ty, tx) :: ts ∧ isTerminator ty = true)
    (hF : Feeds o s (itemsToks pre ++ (((.name, n) :: (.otable, btx) ::
        (entriesToks epre ++ (((TokType.value, [colon]) :: valToks v) ++ (entriesToks epost ++ [(.ctable, [125])])))) ++ (itemsToks post ++ rest)))) :
    ∃ s' r, elemsLoop o (fuel + post.length + 1 + pre.length) s (some path) isBlock acceptAll w
        = elemsLoop o fuel s' (some path) isBlock acceptAll
            { log := r :: w.log,
              cif := put (.mk code fs (denoteItems o.dia o.normKey (pre ++ [.item n (.tbl (epre ++ [] ++ epost))] ++ post) ls)) }
      ∧ r.code = CIF_NULL_KEY ∧ Feeds o s' rest :=
  table_item_run_as o hv pre post n btx epre epost [] ((TokType.value, [colon]) :: valToks v) CIF_NULL_KEY 2 (szVal v) seen seen2 rest s fuel w fs ls isBlock
    hcif hpre hseen hname hfresh hepre hepost
    (fun F X s1 w1 acc1 hf h => by simpa [denoteEntries, denoteVal] using table_null_key_step o v epost X F s1 w1 acc1 hwv hf h)
    hpost hseen2 hfuel hrest hF

end CifModel.Model.Parser

namespace CifModel.Model.Parser
open CifModel CifModel.Model CifModel.Model.Lexer CifModel.Spec.Grammar CifModel.Spec.Lexical
open CifModel.Gen.ErrCodes

/-! ### keys that make the parser split a token (`key:value` written without quotes; `:value`)

The parser pushes the tail of the word back to the scanner (TRIM_TOKEN).  What the scanner hands out afterwards is a property of
the scanner (and of the column it has reached: the column is not adjusted by the push-back), so these two classes are stated
at the table loop, anchored at the scanner state: the word handed out is `t`; after the push-back the scanner feeds the value
`v` and then whatever follows (`hre`).  `acc` — the entries collected before — is arbitrary, the entries behind are arbitrary. -/

theorem table_unquoted_key_step (o : Opts) (t : Tok) (s' : PS) (i : Nat) (v : Val) (X : List TokSpec) (F : Nat)
    (s1 : PS) (w1 : W) (acc1 : List (Str × Str × V))
    (hn : ∀ pol w, nextTok o s1 pol w = .ok (t, s') w) (hty : t.ty = .value) (hhead : t.text.head? ≠ some colon)
    (hci : colonIdx t.text = some i)
    (hk0 : noNul (t.text.take i) = true) (hkd : hasDisallowed (t.text.take i) = false)
    (hwv : wfVal o v = true) (hf : szVal v ≤ F)
    (hre : Feeds o (consume (trimTok s' t (i + 1) .key).2) (valToks v ++ X)) :
    ∃ s2 r, tableLoop o (F + 2) s1 acc1 acceptAll w1
        = tableLoop o F s2 (putEntry o.normKey acc1 (t.text.take i) (denoteVal o.dia o.normKey v)) acceptAll
            { w1 with log := r :: w1.log }
      ∧ r.code = CIF_UNQUOTED_KEY ∧ Feeds o s2 X := by
  obtain ⟨vty, vtx, vts, hvt, hstart, _⟩ := valToks_head v
  have hr' := hre
  rw [hvt, List.cons_append] at hr'
  obtain ⟨t2, s2, hty2, htx2, hn2, ht2, hr2⟩ := hr'.inv
  have hpend : Feeds o s2 (valToks v ++ X) := by
    rw [hvt, List.cons_append, ← hty2, ← htx2]; exact Feeds.pending ht2 hr2
  let r0 : Report := ⟨CIF_UNQUOTED_KEY, s'.scan.line, s'.scan.col - t.text.length⟩
  obtain ⟨s3, h1, h2⟩ := value_structure o v _ s2 F acceptAll { w1 with log := r0 :: w1.log } hwv hf hpend
  have hk : (trimTok s' t (i + 1) .key).fst.text.take i = t.text.take i := by
    show (t.text.take (i + 1)).take i = t.text.take i
    simp [List.take_take]
  refine ⟨s3, r0, ?_, rfl, h2⟩
  rw [tableLoop]
  simp only [bind_eq, pure_eq, P.bind, P.pure, hn, hty, hhead, if_false, hci, report_accept]
  rw [tableEntry]
  simp only [hk, cstr_noNul hk0, bind_eq, pure_eq, P.bind, P.pure, hkd, Bool.false_eq_true, if_false, hn2, hty2, hstart, if_true, h1,
    tableSet_eq_putEntry, r0]

/-- `… key:value …}` without quotes inside a table: exactly one CIF_UNQUOTED_KEY; the table is the entries before, the entry
    `key ↦ value`, and the entries behind -/
theorem table_unquoted_key_tail (o : Opts) (t : Tok) (s' : PS) (i : Nat) (v : Val) (epost : List (Str × Presentation × Val))
    (X : List TokSpec) (fuel : Nat) (s1 : PS) (w1 : W) (acc1 : List (Str × Str × V))
    (hn : ∀ pol w, nextTok o s1 pol w = .ok (t, s') w) (hty : t.ty = .value) (hhead : t.text.head? ≠ some colon)
    (hci : colonIdx t.text = some i)
    (hk0 : noNul (t.text.take i) = true) (hkd : hasDisallowed (t.text.take i) = false)
    (hwv : wfVal o v = true) (hepost : wfEntries o epost = true) (hf : szVal v + szEntries epost + 3 ≤ fuel)
    (hre : Feeds o (consume (trimTok s' t (i + 1) .key).2) (valToks v ++ (entriesToks epost ++ (.ctable, [125]) :: X))) :
    ∃ s2 r, tableLoop o fuel s1 acc1 acceptAll w1
        = .ok (denoteEntries o.dia o.normKey epost (putEntry o.normKey acc1 (t.text.take i) (denoteVal o.dia o.normKey v)), s2)
            { w1 with log := r :: w1.log }
      ∧ r.code = CIF_UNQUOTED_KEY ∧ Feeds o s2 X := by
  obtain ⟨F, rfl⟩ : ∃ F, fuel = F + 2 := ⟨fuel - 2, by omega⟩
  obtain ⟨s2, r, h1, h2, h3⟩ := table_unquoted_key_step o t s' i v _ F s1 w1 acc1 hn hty hhead hci hk0 hkd hwv (by omega) hre
  obtain ⟨s3, h4, h5⟩ := entries_structure o epost X s2 F acceptAll { w1 with log := r :: w1.log }
    (putEntry o.normKey acc1 (t.text.take i) (denoteVal o.dia o.normKey v)) hepost (by omega) h3
  exact ⟨s3, r, by rw [h1, h4], h2, h5⟩

theorem table_null_key_long_step (o : Opts) (t : Tok) (s' : PS) (v : Val) (X : List TokSpec) (F : Nat)
    (s1 : PS) (w1 : W) (acc1 : List (Str × Str × V))
    (hn : ∀ pol w, nextTok o s1 pol w = .ok (t, s') w) (hty : t.ty = .value) (hhead : t.text.head? = some colon)
    (hlen : 1 < t.text.length) (hwv : wfVal o v = true) (hf : szVal v ≤ F)
    (hre : Feeds o (consume (trimTok s' t 1 .key).2) (valToks v ++ X)) :
    ∃ s2 r, tableLoop o (F + 2) s1 acc1 acceptAll w1 = tableLoop o F s2 acc1 acceptAll { w1 with log := r :: w1.log }
      ∧ r.code = CIF_NULL_KEY ∧ Feeds o s2 X := by
  obtain ⟨vty, vtx, vts, hvt, hstart, _⟩ := valToks_head v
  have hr' := hre
  rw [hvt, List.cons_append] at hr'
  obtain ⟨t2, s2, hty2, htx2, hn2, ht2, hr2⟩ := hr'.inv
  have hpend : Feeds o s2 (valToks v ++ X) := by
    rw [hvt, List.cons_append, ← hty2, ← htx2]; exact Feeds.pending ht2 hr2
  let r0 : Report := ⟨CIF_NULL_KEY, s'.scan.line, s'.scan.col - t.text.length⟩
  obtain ⟨s3, h1, h2⟩ := value_structure o v _ s2 F acceptAll { w1 with log := r0 :: w1.log } hwv hf hpend
  refine ⟨s3, r0, ?_, rfl, h2⟩
  rw [tableLoop]
  simp only [bind_eq, pure_eq, P.bind, P.pure, hn, hty, hhead, if_true, report_accept, gt_iff_lt, hlen]
  rw [tableEntry]
  simp only [bind_eq, pure_eq, P.bind, P.pure, hn2, hty2, hstart, if_true, h1, r0]

/-- `… :value …}` (a colon with nothing in front) inside a table: exactly one CIF_NULL_KEY; the value is dropped -/
theorem table_null_key_long_tail (o : Opts) (t : Tok) (s' : PS) (v : Val) (epost : List (Str × Presentation × Val))
    (X : List TokSpec) (fuel : Nat) (s1 : PS) (w1 : W) (acc1 : List (Str × Str × V))
    (hn : ∀ pol w, nextTok o s1 pol w = .ok (t, s') w) (hty : t.ty = .value) (hhead : t.text.head? = some colon)
    (hlen : 1 < t.text.length) (hwv : wfVal o v = true) (hepost : wfEntries o epost = true)
    (hf : szVal v + szEntries epost + 3 ≤ fuel)
    (hre : Feeds o (consume (trimTok s' t 1 .key).2) (valToks v ++ (entriesToks epost ++ (.ctable, [125]) :: X))) :
    ∃ s2 r, tableLoop o fuel s1 acc1 acceptAll w1
        = .ok (denoteEntries o.dia o.normKey epost acc1, s2) { w1 with log := r :: w1.log }
      ∧ r.code = CIF_NULL_KEY ∧ Feeds o s2 X := by
  obtain ⟨F, rfl⟩ : ∃ F, fuel = F + 2 := ⟨fuel - 2, by omega⟩
  obtain ⟨s2, r, h1, h2, h3⟩ := table_null_key_long_step o t s' v _ F s1 w1 acc1 hn hty hhead hlen hwv (by omega) hre
  obtain ⟨s3, h4, h5⟩ := entries_structure o epost X s2 F acceptAll { w1 with log := r :: w1.log } acc1 hepost (by omega) h3
  exact ⟨s3, r, by rw [h1, h4], h2, h5⟩

end CifModel.Model.Parser

namespace CifModel.Model.Parser
open CifModel CifModel.Model CifModel.Model.Lexer CifModel.Spec.Grammar CifModel.Spec.Lexical
open CifModel.Gen.ErrCodes

/-! ## part 5 — reports of the scanner are transparent to the productions

A class that the SCANNER reports (CIF_RESERVED_WORD: the word is reported and dropped inside next_token; likewise every lexical
class) reaches the parser as "next_token handed out `t`, the log has grown".  Every production begins by asking for the next
token, so its run from the state in front of the report equals its run from the state in which `t` is ready, with the grown log:
the parser half of every scanner-level class.  Anchored at the scanner state (a report is not a token, `Feeds` cannot carry it). -/

theorem nextTok_tok {o : Opts} {s s' : PS} {t : Tok} {pol : Policy} {w w' : W} (h : nextTok o s pol w = .ok (t, s') w') :
    s'.tok = some t := by
  unfold nextTok at h
  cases hs : s.tok with
  | some t0 =>
    simp only [hs, pure_eq, P.pure, PRes.ok.injEq, Prod.mk.injEq] at h
    obtain ⟨⟨rfl, rfl⟩, _⟩ := h
    exact hs
  | none =>
    simp only [hs, bind_eq, pure_eq, P.bind, P.pure] at h
    split at h
    · simp only [PRes.ok.injEq, Prod.mk.injEq] at h
      obtain ⟨⟨rfl, rfl⟩, _⟩ := h
      rfl
    · cases h

theorem elemsLoop_peek (o : Opts) {s s' : PS} {t : Tok} {pol : Policy} {w w' : W} (h : nextTok o s pol w = .ok (t, s') w')
    (f : Nat) (cont : Option Path) (isBlock : Bool) :
    elemsLoop o (f + 1) s cont isBlock pol w = elemsLoop o (f + 1) s' cont isBlock pol w' := by
  have ht := nextTok_tok h
  conv => lhs; rw [elemsLoop]
  conv => rhs; rw [elemsLoop]
  simp only [bind_eq, P.bind, h, nextTok_pending o s' t ht]

theorem parseValue_peek (o : Opts) {s s' : PS} {t : Tok} {pol : Policy} {w w' : W} (h : nextTok o s pol w = .ok (t, s') w')
    (f : Nat) : parseValue o (f + 1) s pol w = parseValue o (f + 1) s' pol w' := by
  have ht := nextTok_tok h
  conv => lhs; rw [parseValue]
  conv => rhs; rw [parseValue]
  simp only [bind_eq, P.bind, h, nextTok_pending o s' t ht]

theorem listLoop_peek (o : Opts) {s s' : PS} {t : Tok} {pol : Policy} {w w' : W} (h : nextTok o s pol w = .ok (t, s') w')
    (f : Nat) (acc : List V) : listLoop o (f + 1) s acc pol w = listLoop o (f + 1) s' acc pol w' := by
  have ht := nextTok_tok h
  conv => lhs; rw [listLoop]
  conv => rhs; rw [listLoop]
  simp only [bind_eq, P.bind, h, nextTok_pending o s' t ht]

theorem tableLoop_peek (o : Opts) {s s' : PS} {t : Tok} {pol : Policy} {w w' : W} (h : nextTok o s pol w = .ok (t, s') w')
    (f : Nat) (acc : List (Str × Str × V)) : tableLoop o (f + 1) s acc pol w = tableLoop o (f + 1) s' acc pol w' := by
  have ht := nextTok_tok h
  conv => lhs; rw [tableLoop]
  conv => rhs; rw [tableLoop]
  simp only [bind_eq, P.bind, h, nextTok_pending o s' t ht]

theorem parseItem_peek (o : Opts) {s s' : PS} {t : Tok} {pol : Policy} {w w' : W} (h : nextTok o s pol w = .ok (t, s') w')
    (f : Nat) (cont : Option Path) (name : Option Str) : parseItem o f s cont name pol w = parseItem o f s' cont name pol w' := by
  have ht := nextTok_tok h
  unfold parseItem
  simp only [bind_eq, P.bind, h, nextTok_pending o s' t ht]

theorem packetsLoop_peek (o : Opts) {s s' : PS} {t : Tok} {pol : Policy} {w w' : W} (h : nextTok o s pol w = .ok (t, s') w')
    (loopAt : Option Path) (slots : List (Option Str)) (f : Nat) (pk : Pk) :
    packetsLoop o loopAt slots (f + 1) s pk pol w = packetsLoop o loopAt slots (f + 1) s' pk pol w' := by
  have ht := nextTok_tok h
  conv => lhs; rw [packetsLoop]
  conv => rhs; rw [packetsLoop]
  simp only [bind_eq, P.bind, h, nextTok_pending o s' t ht]

theorem headerLoop_peek (o : Opts) {s s' : PS} {t : Tok} {pol : Policy} {w w' : W} (h : nextTok o s pol w = .ok (t, s') w')
    (cont : Option Path) (f : Nat) (slots : List (Option Str)) :
    headerLoop o cont (f + 1) s slots pol w = headerLoop o cont (f + 1) s' slots pol w' := by
  have ht := nextTok_tok h
  conv => lhs; rw [headerLoop]
  conv => rhs; rw [headerLoop]
  simp only [bind_eq, P.bind, h, nextTok_pending o s' t ht]

theorem blocksLoop_peek (o : Opts) {s s' : PS} {t : Tok} {pol : Policy} {w w' : W} (h : nextTok o s pol w = .ok (t, s') w')
    (f : Nat) : blocksLoop o (f + 1) s pol w = blocksLoop o (f + 1) s' pol w' := by
  have ht := nextTok_tok h
  conv => lhs; rw [blocksLoop]
  conv => rhs; rw [blocksLoop]
  simp only [bind_eq, P.bind, h, nextTok_pending o s' t ht]

/-- **a report of the scanner in front of an element of a container** (CIF_RESERVED_WORD: `stop_`, `global_`, `data_` alone, in
    element position): the scanner reports `r` and hands out the next token; behind it any well-formed items: the container gets
    exactly those items, the log exactly `r` -/
theorem scanner_report_run (o : Opts) {path : Path} {put : Container → Cif} {code : Str} (hv : View o path put code)
    (post : List Item) (seen2 : List Str) (rest : List TokSpec) (s s' : PS) (t : Tok) (r : Report) (fuel : Nat) (w : W)
    (fs : List Container) (ls : List Loop) (isBlock : Bool) (hcif : w.cif = put (.mk code fs ls))
    (hpost : wfItems o post seen2 = true) (hseen2 : ∀ k ∈ normNames o ls, k ∈ seen2)
    (hn : nextTok o s acceptAll w = .ok (t, s') { w with log := r :: w.log })
    (hfuel : szItems post + 1 ≤ fuel)
    (hrest : lastIsLoop post = true → ∃ ty tx ts, rest = (ty, tx) :: ts ∧ isTerminator ty = true)
    (hF : Feeds o s' (itemsToks post ++ rest)) :
    ∃ s'', elemsLoop o (fuel + post.length) s (some path) isBlock acceptAll w
        = elemsLoop o fuel s'' (some path) isBlock acceptAll
            { log := r :: w.log, cif := put (.mk code fs (denoteItems o.dia o.normKey post ls)) }
      ∧ Feeds o s'' rest := by
  obtain ⟨F, hF0⟩ : ∃ F, fuel + post.length = F + 1 := ⟨fuel + post.length - 1, by omega⟩
  obtain ⟨s3, h5, h6⟩ := items_structure o hv post seen2 rest s' fuel acceptAll { w with log := r :: w.log } fs ls isBlock hcif hpost
    hseen2 (by omega) hrest hF
  refine ⟨s3, ?_, h6⟩
  rw [← h5, hF0]
  exact elemsLoop_peek o hn F _ _

end CifModel.Model.Parser

namespace CifModel.Model.Parser
open CifModel CifModel.Model CifModel.Model.Lexer CifModel.Spec.Grammar CifModel.Spec.Lexical
open CifModel.Gen.ErrCodes

/-! ## part 6 — `loop_` that is not followed by a data name (CIF_NULL_LOOP): ignored -/

theorem null_loop_step (o : Opts) {path : Path} {put : Container → Cif} {code : Str} (hv : View o path put code)
    (ty : TokType) (tx : Str) (ts : List TokSpec) (s : PS) (fuel : Nat) (w : W) (fs : List Container) (ls : List Loop)
    (isBlock : Bool) (hcif : w.cif = put (.mk code fs ls)) (hfuel : 1 ≤ fuel) (hnn : ty ≠ .name)
    (hF : Feeds o s ((.loopKw, []) :: (ty, tx) :: ts)) :
    ∃ s' r, elemsLoop o (fuel + 1) s (some path) isBlock acceptAll w
        = elemsLoop o fuel s' (some path) isBlock acceptAll { w with log := r :: w.log }
      ∧ r.code = CIF_NULL_LOOP ∧ Feeds o s' ((ty, tx) :: ts) := by
  obtain ⟨t, s1, hty, _, hn, _, hr⟩ := hF.inv
  obtain ⟨s2, h1, h2⟩ := header_structure o hv fs ls [] [] ((ty, tx) :: ts) (consume s1) fuel acceptAll w hcif
    (by intro n hn; cases hn) (by intro n hn; cases hn) (by simp) (by simpa using hfuel) ⟨ty, tx, ts, rfl, hnn⟩ hr
  simp only [List.nil_append, List.map_nil] at h1
  refine ⟨s2, ⟨CIF_NULL_LOOP, s2.scan.line, s2.scan.col - (s2.tok.getD default).text.length⟩, ?_, rfl, h2⟩
  conv => lhs; rw [elemsLoop]
  simp only [bind_eq, pure_eq, P.bind, P.pure, hn, hty]
  unfold parseLoop
  simp only [bind_eq, pure_eq, P.bind, P.pure, h1, List.isEmpty_nil, if_true, report_accept]

/-- CIF_NULL_LOOP, universally: any container, any well-formed items before and behind; what follows the lone `loop_` is not a
    data name (a data name would make it a loop header) -/
theorem null_loop_run (o : Opts) {path : Path} {put : Container → Cif} {code : Str} (hv : View o path put code)
    (pre post : List Item) (seen seen2 : List Str) (rest : List TokSpec) (s : PS) (fuel : Nat) (w : W)
    (fs : List Container) (ls : List Loop) (isBlock : Bool) (hcif : w.cif = put (.mk code fs ls))
    (hpre : wfItems o pre seen = true) (hseen : ∀ k ∈ normNames o ls, k ∈ seen)
    (hpost : wfItems o post seen2 = true)
    (hseen2 : ∀ k ∈ normNames o (denoteItems o.dia o.normKey pre ls), k ∈ seen2)
    (hfuel : szItems pre + szItems post + 1 + 1 ≤ fuel)
    (hnext : ∃ ty tx ts, itemsToks post ++ rest = (ty, tx) :: ts ∧ ty ≠ .name)
    (hrest : lastIsLoop post = true → ∃ ty tx ts, rest = (ty, tx) :: ts ∧ isTerminator ty = true)
    (hF : Feeds o s (itemsToks pre ++ ([(.loopKw, [])] ++ (itemsToks post ++ rest)))) :
    ∃ s' r, elemsLoop o (fuel + post.length + 1 + pre.length) s (some path) isBlock acceptAll w
        = elemsLoop o fuel s' (some path) isBlock acceptAll
            { log := r :: w.log, cif := put (.mk code fs (denoteItems o.dia o.normKey (pre ++ post) ls)) }
      ∧ r.code = CIF_NULL_LOOP ∧ Feeds o s' rest := by
  have := defect_run o hv pre post [(.loopKw, [])] id CIF_NULL_LOOP 1 seen seen2 rest s fuel w fs ls isBlock hcif hpre hseen
    hpost hseen2
    (by
      intro s1 w1 f hc hf hF1
      obtain ⟨ty, tx, ts, hnx, hnn⟩ := hnext
      rw [hnx] at hF1 ⊢
      obtain ⟨s2, r, h1, h2, h3⟩ := null_loop_step o hv ty tx ts s1 f w1 fs _ isBlock hc hf hnn hF1
      refine ⟨s2, r, ?_, h2, h3⟩
      rw [h1]; simp only [id]; rw [← hc])
    hfuel (fun _ => ⟨_, _, _, rfl, rfl⟩) hrest hF
  simpa [denoteItems_append] using this

end CifModel.Model.Parser

namespace CifModel.Model.Parser
open CifModel CifModel.Model CifModel.Model.Lexer CifModel.Spec.Grammar CifModel.Spec.Lexical
open CifModel.Gen.ErrCodes

/-! ## part 7 — a data name that is not a valid item name (CIF_INVALID_ITEMNAME): the item is parsed and dropped -/

theorem invalid_name_step (o : Opts) {path : Path} (n : Str) (v : Val) (next : List TokSpec) (s : PS) (fuel : Nat) (w : W)
    (isBlock : Bool) (hn0 : noNul n = true) (hinv : isValidName true n = false)
    (hwv : wfVal o v = true) (hfuel : szVal v ≤ fuel) (hF : Feeds o s ((.name, n) :: (valToks v ++ next))) :
    ∃ s' r, elemsLoop o (fuel + 1) s (some path) isBlock acceptAll w
        = elemsLoop o fuel s' (some path) isBlock acceptAll { w with log := r :: w.log }
      ∧ r.code = CIF_INVALID_ITEMNAME ∧ Feeds o s' next := by
  obtain ⟨t, s1, hty, htx, hn, _, hr⟩ := hF.inv
  obtain ⟨ty2, tx2, ts2, hvt, hstart, hkey⟩ := valToks_head v
  have hr' := hr
  rw [hvt, List.cons_append] at hr'
  obtain ⟨t2, s2, hty2, htx2, hn2, ht2, hr2⟩ := hr'.inv
  have hpend : Feeds o s2 (valToks v ++ next) := by
    rw [hvt, List.cons_append, ← hty2, ← htx2]; exact Feeds.pending ht2 hr2
  let r0 : Report := ⟨CIF_INVALID_ITEMNAME, (consume s1).scan.line, (consume s1).scan.col⟩
  obtain ⟨s3, h1, h2⟩ := value_structure o v next s2 fuel acceptAll { w with log := r0 :: w.log } hwv hfuel hpend
  have hitem : parseItem o fuel (consume s1) (some path) none acceptAll { w with log := r0 :: w.log } = .ok s3 { w with log := r0 :: w.log } := by
    unfold parseItem
    simp only [bind_eq, pure_eq, P.bind, P.pure, hn2, hty2, hkey, hstart, if_true, Bool.false_eq_true, if_false, h1]
  have hex : itemExists o path n acceptAll w = .ok false w := by
    unfold itemExists
    simp only [hinv, Bool.not_false, if_true, pure_eq, P.pure]
  refine ⟨s3, r0, ?_, rfl, h2⟩
  conv => lhs; rw [elemsLoop]
  simp only [bind_eq, pure_eq, P.bind, P.pure, hn, hty, htx, cstr_noNul hn0, hex, Bool.false_eq_true, if_false, Option.isSome_some,
    hinv, Bool.not_false, and_self, if_true, report_accept, hitem, r0]

theorem invalid_name_run (o : Opts) {path : Path} {put : Container → Cif} {code : Str} (hv : View o path put code)
    (pre post : List Item) (n : Str) (v : Val) (seen seen2 : List Str) (rest : List TokSpec) (s : PS) (fuel : Nat) (w : W)
    (fs : List Container) (ls : List Loop) (isBlock : Bool) (hcif : w.cif = put (.mk code fs ls))
    (hpre : wfItems o pre seen = true) (hseen : ∀ k ∈ normNames o ls, k ∈ seen)
    (hn0 : noNul n = true) (hinv : isValidName true n = false)
    (hwv : wfVal o v = true) (hpost : wfItems o post seen2 = true)
    (hseen2 : ∀ k ∈ normNames o (denoteItems o.dia o.normKey pre ls), k ∈ seen2)
    (hfuel : szItems pre + szItems post + szVal v + 1 ≤ fuel)
    (hrest : lastIsLoop post = true → ∃ ty tx ts, rest = (ty, tx) :: ts ∧ isTerminator ty = true)
    (hF : Feeds o s (itemsToks pre ++ (((.name, n) :: valToks v) ++ (itemsToks post ++ rest)))) :
    ∃ s' r, elemsLoop o (fuel + post.length + 1 + pre.length) s (some path) isBlock acceptAll w
        = elemsLoop o fuel s' (some path) isBlock acceptAll
            { log := r :: w.log, cif := put (.mk code fs (denoteItems o.dia o.normKey (pre ++ post) ls)) }
      ∧ r.code = CIF_INVALID_ITEMNAME ∧ Feeds o s' rest := by
  have := defect_run o hv pre post ((.name, n) :: valToks v) id CIF_INVALID_ITEMNAME (szVal v) seen seen2 rest s fuel w fs ls isBlock hcif
    hpre hseen hpost hseen2
    (by
      intro s1 w1 f hc hf hF1
      simp only [List.cons_append, List.append_assoc] at hF1
      obtain ⟨s2, r, h1, h2, h3⟩ := invalid_name_step o (path := path) n v _ s1 f w1 isBlock hn0 hinv hwv hf hF1
      refine ⟨s2, r, ?_, h2, h3⟩
      rw [h1]; simp only [id]; rw [← hc])
    hfuel (fun _ => ⟨_, _, _, rfl, rfl⟩) hrest hF
  simpa [denoteItems_append] using this

end CifModel.Model.Parser
