import CifModel.Lemmas.ParserDefect
/-
  Lemmas/ParserDefectLex — further universally quantified defect classes on the integrated parser model (token level, accept-all
  callback, any container `View`, any well-formed runs of items before and behind): built on `defect_run` of
  Lemmas/ParserDefect.lean with one step lemma per class.

    part 1  stray closing delimiter at container level (CIF_UNEXPECTED_DELIM), stray `save_` in a data block (CIF_UNEXPECTED_TERM)
-/
set_option linter.unusedSimpArgs false

namespace CifModel.Model.Parser
open CifModel CifModel.Model CifModel.Model.Lexer CifModel.Spec.Grammar CifModel.Spec.Lexical
open CifModel.Gen.ErrCodes

/-! ### a closing bracket or brace where an item is expected: reported and dropped -/

theorem unexpected_delim_step (o : Opts) {path : Path} (ty : TokType) (tx : Str) (next : List TokSpec) (s : PS) (fuel : Nat) (w : W)
    (isBlock : Bool) (hty : ty = .clist ∨ ty = .ctable) (hF : Feeds o s ((ty, tx) :: next)) :
    ∃ s' r, elemsLoop o (fuel + 1) s (some path) isBlock acceptAll w
        = elemsLoop o fuel s' (some path) isBlock acceptAll { w with log := r :: w.log }
      ∧ r.code = CIF_UNEXPECTED_DELIM ∧ Feeds o s' next := by
  obtain ⟨t, s1, ht, _, hn, _, hr⟩ := hF.inv
  refine ⟨consume s1, ⟨CIF_UNEXPECTED_DELIM, s1.scan.line, s1.scan.col - t.text.length⟩, ?_, rfl, hr⟩
  conv => lhs; rw [elemsLoop]
  rcases hty with h | h <;> simp only [bind_eq, pure_eq, P.bind, P.pure, hn, ht, h, report_accept]

theorem unexpected_delim_run (o : Opts) {path : Path} {put : Container → Cif} {code : Str} (hv : View o path put code)
    (pre post : List Item) (ty : TokType) (tx : Str) (seen seen2 : List Str) (rest : List TokSpec) (s : PS) (fuel : Nat) (w : W)
    (fs : List Container) (ls : List Loop) (isBlock : Bool) (hcif : w.cif = put (.mk code fs ls))
    (hty : ty = .clist ∨ ty = .ctable)
    (hpre : wfItems o pre seen = true) (hseen : ∀ k ∈ normNames o ls, k ∈ seen) (hnoloop : lastIsLoop pre = false)
    (hpost : wfItems o post seen2 = true)
    (hseen2 : ∀ k ∈ normNames o (denoteItems o.dia o.normKey pre ls), k ∈ seen2)
    (hfuel : szItems pre + szItems post + 1 ≤ fuel)
    (hrest : lastIsLoop post = true → ∃ ty tx ts, rest = (ty, tx) :: ts ∧ isTerminator ty = true)
    (hF : Feeds o s (itemsToks pre ++ ([(ty, tx)] ++ (itemsToks post ++ rest)))) :
    ∃ s' r, elemsLoop o (fuel + post.length + 1 + pre.length) s (some path) isBlock acceptAll w
        = elemsLoop o fuel s' (some path) isBlock acceptAll
            { log := r :: w.log, cif := put (.mk code fs (denoteItems o.dia o.normKey (pre ++ post) ls)) }
      ∧ r.code = CIF_UNEXPECTED_DELIM ∧ Feeds o s' rest := by
  have := defect_run o hv pre post [(ty, tx)] id CIF_UNEXPECTED_DELIM 0 seen seen2 rest s fuel w fs ls isBlock hcif hpre hseen
    hpost hseen2
    (by
      intro s1 w1 f hc _ hF1
      obtain ⟨s2, r, h1, h2, h3⟩ := unexpected_delim_step o (path := path) ty tx _ s1 f w1 isBlock hty hF1
      refine ⟨s2, r, ?_, h2, h3⟩
      rw [h1]; simp only [id]; rw [← hc])
    (by omega) (by intro h; rw [hnoloop] at h; cases h) hrest hF
  simpa [denoteItems_append] using this

/-! ### `save_` in a data block (no save frame is open): reported and dropped -/

theorem unexpected_term_step (o : Opts) {path : Path} (tx : Str) (next : List TokSpec) (s : PS) (fuel : Nat) (w : W)
    (hF : Feeds o s ((.frameTerm, tx) :: next)) :
    ∃ s' r, elemsLoop o (fuel + 1) s (some path) true acceptAll w
        = elemsLoop o fuel s' (some path) true acceptAll { w with log := r :: w.log }
      ∧ r.code = CIF_UNEXPECTED_TERM ∧ Feeds o s' next := by
  obtain ⟨t, s1, ht, _, hn, _, hr⟩ := hF.inv
  refine ⟨consume s1, ⟨CIF_UNEXPECTED_TERM, s1.scan.line, s1.scan.col⟩, ?_, rfl, hr⟩
  conv => lhs; rw [elemsLoop]
  simp only [bind_eq, pure_eq, P.bind, P.pure, hn, ht, if_true, report_accept]

theorem unexpected_term_run (o : Opts) {path : Path} {put : Container → Cif} {code : Str} (hv : View o path put code)
    (pre post : List Item) (tx : Str) (seen seen2 : List Str) (rest : List TokSpec) (s : PS) (fuel : Nat) (w : W)
    (fs : List Container) (ls : List Loop) (hcif : w.cif = put (.mk code fs ls))
    (hpre : wfItems o pre seen = true) (hseen : ∀ k ∈ normNames o ls, k ∈ seen)
    (hpost : wfItems o post seen2 = true)
    (hseen2 : ∀ k ∈ normNames o (denoteItems o.dia o.normKey pre ls), k ∈ seen2)
    (hfuel : szItems pre + szItems post + 1 ≤ fuel)
    (hrest : lastIsLoop post = true → ∃ ty tx ts, rest = (ty, tx) :: ts ∧ isTerminator ty = true)
    (hF : Feeds o s (itemsToks pre ++ ([(.frameTerm, tx)] ++ (itemsToks post ++ rest)))) :
    ∃ s' r, elemsLoop o (fuel + post.length + 1 + pre.length) s (some path) true acceptAll w
        = elemsLoop o fuel s' (some path) true acceptAll
            { log := r :: w.log, cif := put (.mk code fs (denoteItems o.dia o.normKey (pre ++ post) ls)) }
      ∧ r.code = CIF_UNEXPECTED_TERM ∧ Feeds o s' rest := by
  have := defect_run o hv pre post [(.frameTerm, tx)] id CIF_UNEXPECTED_TERM 0 seen seen2 rest s fuel w fs ls true hcif hpre hseen
    hpost hseen2
    (by
      intro s1 w1 f hc _ hF1
      obtain ⟨s2, r, h1, h2, h3⟩ := unexpected_term_step o (path := path) tx _ s1 f w1 hF1
      refine ⟨s2, r, ?_, h2, h3⟩
      rw [h1]; simp only [id]; rw [← hc])
    (by omega) (fun _ => ⟨_, _, _, rfl, rfl⟩) hrest hF
  simpa [denoteItems_append] using this

end CifModel.Model.Parser

namespace CifModel.Model.Parser
open CifModel CifModel.Model CifModel.Model.Lexer CifModel.Spec.Grammar CifModel.Spec.Lexical
open CifModel.Gen.ErrCodes

/-! ## part 2 — a scalar item whose VALUE carries the defect

  `DV` = the tokens of the defective value, `vd` = the value the documented recovery makes of it, `C` = the code; `hval` = what
  parse_value does on it (one report).  The item is stored with the recovered value. -/

theorem item_defect_step (o : Opts) {path : Path} {put : Container → Cif} {code : Str} (hv : View o path put code)
    (n : Str) (hty : TokType) (htx : Str) (DV : List TokSpec) (vd : V) (C : Code) (next : List TokSpec) (s : PS) (fuel : Nat) (w : W)
    (fs : List Container) (ls : List Loop) (isBlock : Bool)
    (hcif : w.cif = put (.mk code fs ls)) (hname : wfName n = true) (hfresh : o.norm n ∉ normNames o ls)
    (hstart : isValueStart hty = true) (hkey : isKeyTok hty = false)
    (hval : ∀ (s1 : PS) (w1 : W), Feeds o s1 ((hty, htx) :: DV ++ next) →
      ∃ s2 r, parseValue o fuel s1 acceptAll w1 = .ok (vd, s2) { w1 with log := r :: w1.log } ∧ r.code = C ∧ Feeds o s2 next)
    (hF : Feeds o s ((.name, n) :: ((hty, htx) :: DV ++ next))) :
    ∃ s' r, elemsLoop o (fuel + 1) s (some path) isBlock acceptAll w
        = elemsLoop o fuel s' (some path) isBlock acceptAll { log := r :: w.log, cif := put (.mk code fs (putScalar ls n vd)) }
      ∧ r.code = C ∧ Feeds o s' next := by
  simp only [wfName, Bool.and_eq_true] at hname
  obtain ⟨t, s1, hty1, htx1, hn, _, hr⟩ := hF.inv
  have hr' := hr
  simp only [List.cons_append] at hr'
  obtain ⟨t2, s2, hty2, htx2, hn2, ht2, hr2⟩ := hr'.inv
  have hpend : Feeds o s2 ((hty, htx) :: DV ++ next) := by
    simp only [List.cons_append]
    rw [← hty2, ← htx2]; exact Feeds.pending ht2 hr2
  obtain ⟨s3, r, h1, hc, h2⟩ := hval s2 w hpend
  refine ⟨s3, r, ?_, hc, h2⟩
  conv => lhs; rw [elemsLoop]
  simp only [bind_eq, pure_eq, P.bind, P.pure, hn, hty1, htx1, cstr_noNul hname.2,
    itemExists_false o hv n fs ls acceptAll w hcif hname.1 hfresh, Bool.false_eq_true, if_false, hname.1, Bool.not_true, and_false]
  unfold parseItem
  simp only [bind_eq, pure_eq, P.bind, P.pure, hn2, hty2, hkey, hstart, if_true, Bool.false_eq_true, if_false, h1]
  rw [setValue_new o hv n vd fs ls acceptAll ⟨r :: w.log, w.cif⟩ hcif hname.1 hfresh]

/-- the item with the defective value inside any well-formed runs -/
theorem item_defect_run (o : Opts) {path : Path} {put : Container → Cif} {code : Str} (hv : View o path put code)
    (pre post : List Item) (n : Str) (hty : TokType) (htx : Str) (DV : List TokSpec) (vd : V) (C : Code) (need : Nat)
    (seen seen2 : List Str) (rest : List TokSpec) (s : PS) (fuel : Nat) (w : W)
    (fs : List Container) (ls : List Loop) (isBlock : Bool) (hcif : w.cif = put (.mk code fs ls))
    (hpre : wfItems o pre seen = true) (hseen : ∀ k ∈ normNames o ls, k ∈ seen)
    (hname : wfName n = true) (hfresh : o.norm n ∉ normNames o (denoteItems o.dia o.normKey pre ls))
    (hstart : isValueStart hty = true) (hkey : isKeyTok hty = false)
    (hval : ∀ (f : Nat) (s1 : PS) (w1 : W), need ≤ f → Feeds o s1 ((hty, htx) :: DV ++ (itemsToks post ++ rest)) →
      ∃ s2 r, parseValue o f s1 acceptAll w1 = .ok (vd, s2) { w1 with log := r :: w1.log } ∧ r.code = C
        ∧ Feeds o s2 (itemsToks post ++ rest))
    (hpost : wfItems o post seen2 = true)
    (hseen2 : ∀ k ∈ normNames o (putScalar (denoteItems o.dia o.normKey pre ls) n vd), k ∈ seen2)
    (hfuel : szItems pre + szItems post + need + 1 ≤ fuel)
    (hrest : lastIsLoop post = true → ∃ ty tx ts, rest = (ty, tx) :: ts ∧ isTerminator ty = true)
    (hF : Feeds o s (itemsToks pre ++ (((.name, n) :: (hty, htx) :: DV) ++ (itemsToks post ++ rest)))) :
    ∃ s' r, elemsLoop o (fuel + post.length + 1 + pre.length) s (some path) isBlock acceptAll w
        = elemsLoop o fuel s' (some path) isBlock acceptAll
            { log := r :: w.log,
              cif := put (.mk code fs (denoteItems o.dia o.normKey post (putScalar (denoteItems o.dia o.normKey pre ls) n vd))) }
      ∧ r.code = C ∧ Feeds o s' rest :=
  defect_run o hv pre post ((.name, n) :: (hty, htx) :: DV) (fun l => putScalar l n vd) C need seen seen2 rest s fuel w fs ls isBlock
    hcif hpre hseen hpost hseen2
    (by
      intro s1 w1 f hc hf hF1
      simp only [List.cons_append, List.append_assoc] at hF1
      exact item_defect_step o hv n hty htx DV vd C _ s1 f w1 fs _ isBlock hc hname hfresh hstart hkey
        (fun s2 w2 h => hval f s2 w2 hf (by simpa [List.append_assoc] using h))
        (by simpa [List.append_assoc] using hF1))
    hfuel (fun _ => ⟨_, _, _, rfl, rfl⟩) hrest hF

end CifModel.Model.Parser

namespace CifModel.Model.Parser
open CifModel CifModel.Model CifModel.Model.Lexer CifModel.Spec.Grammar CifModel.Spec.Lexical
open CifModel.Gen.ErrCodes

/-! ### unterminated list / table (CIF_MISSING_DELIM): the elements read so far make the value -/

/-- the elements of a list up to a token that ends the list WITHOUT closing it -/
theorem values_open (o : Opts) : ∀ (vs : List Val) (ty : TokType) (tx : Str) (ts : List TokSpec) (s : PS) (fuel : Nat) (w : W)
    (acc : List V), wfVals o vs = true → szVals vs + 1 ≤ fuel → isTerminator ty = true →
    Feeds o s (valsToks vs ++ (ty, tx) :: ts) →
    ∃ s' r, listLoop o fuel s acc acceptAll w = .ok (acc ++ denoteVals o.dia o.normKey vs, s') { w with log := r :: w.log }
      ∧ r.code = CIF_MISSING_DELIM ∧ Feeds o s' ((ty, tx) :: ts)
  | [], ty, tx, ts, s, fuel, w, acc, _, hf, hterm, hF => by
    obtain ⟨f, rfl⟩ : ∃ f, fuel = f + 1 := ⟨fuel - 1, by omega⟩
    simp only [valsToks, List.nil_append] at hF
    obtain ⟨t, s', hty, htx, hn, ht, hr⟩ := hF.inv
    simp only [isTerminator, Bool.not_eq_true', Bool.or_eq_false_iff, beq_eq_false_iff_ne, ne_eq] at hterm
    refine ⟨s', ⟨CIF_MISSING_DELIM, s'.scan.line, s'.scan.col - t.text.length⟩, ?_, rfl,
      by rw [← hty, ← htx]; exact Feeds.pending ht hr⟩
    rw [listLoop]
    simp only [bind_eq, pure_eq, P.bind, P.pure, hn, hty, hterm.1.1.1, hterm.1.1.2, hterm.1.2, Bool.false_eq_true, if_false,
      report_accept, denoteVals, List.append_nil]
  | v :: vs, ty, tx, ts, s, fuel, w, acc, hw, hf, hterm, hF => by
    obtain ⟨f, rfl⟩ : ∃ f, fuel = f + 1 := ⟨fuel - 1, by omega⟩
    simp only [wfVals, Bool.and_eq_true] at hw
    simp only [szVals] at hf
    have hp := szVal_pos v
    obtain ⟨vty, vtx, vts, hvt, hstart, hkey⟩ := valToks_head v
    simp only [valsToks, List.append_assoc] at hF
    have hF' := hF
    rw [hvt, List.cons_append] at hF'
    obtain ⟨t, s', hty, htx, hn, ht, hr⟩ := hF'.inv
    have hpend : Feeds o s' (valToks v ++ (valsToks vs ++ (ty, tx) :: ts)) := by
      rw [hvt, List.cons_append, ← hty, ← htx]; exact Feeds.pending ht hr
    obtain ⟨s1, h1, h2⟩ := value_structure o v _ s' f acceptAll w hw.1 (by omega) hpend
    obtain ⟨s2, r, h3, hc, h4⟩ := values_open o vs ty tx ts s1 f w (acc ++ [denoteVal o.dia o.normKey v]) hw.2 (by omega) hterm h2
    refine ⟨s2, r, ?_, hc, h4⟩
    rw [listLoop]
    simp only [bind_eq, pure_eq, P.bind, P.pure, hn, hty, hkey, hstart, if_true, h1, h3, denoteVals,
      List.append_assoc, List.singleton_append, Bool.false_eq_true, if_false]

/-- the entries of a table up to a token that ends the table WITHOUT closing it -/
theorem entries_open (o : Opts) : ∀ (es : List (Str × Presentation × Val)) (ty : TokType) (tx : Str) (ts : List TokSpec) (s : PS)
    (fuel : Nat) (w : W) (acc : List (Str × Str × V)), wfEntries o es = true → szEntries es + 1 ≤ fuel → isTerminator ty = true →
    Feeds o s (entriesToks es ++ (ty, tx) :: ts) →
    ∃ s' r, tableLoop o fuel s acc acceptAll w = .ok (denoteEntries o.dia o.normKey es acc, s') { w with log := r :: w.log }
      ∧ r.code = CIF_MISSING_DELIM ∧ Feeds o s' ((ty, tx) :: ts)
  | [], ty, tx, ts, s, fuel, w, acc, _, hf, hterm, hF => by
    obtain ⟨f, rfl⟩ : ∃ f, fuel = f + 1 := ⟨fuel - 1, by omega⟩
    simp only [entriesToks, List.nil_append] at hF
    obtain ⟨t, s', hty, htx, hn, ht, hr⟩ := hF.inv
    refine ⟨s', ⟨CIF_MISSING_DELIM, s'.scan.line, s'.scan.col - t.text.length⟩, ?_, rfl,
      by rw [← hty, ← htx]; exact Feeds.pending ht hr⟩
    rw [tableLoop]
    cases ty <;> simp [isTerminator, isKeyTok, isValueStart] at hterm <;>
      simp only [bind_eq, pure_eq, P.bind, P.pure, hn, hty, report_accept, denoteEntries]
  | (k, kp, v) :: es, ty, tx, ts, s, fuel, w, acc, hw, hf, hterm, hF => by
    obtain ⟨f, rfl⟩ : ∃ f, fuel = f + 1 := ⟨fuel - 1, by omega⟩
    simp only [wfEntries, Bool.and_eq_true, Bool.not_eq_true'] at hw
    simp only [szEntries] at hf
    have hp := szVal_pos v
    obtain ⟨g, rfl⟩ : ∃ g, f = g + 1 := ⟨f - 1, by omega⟩
    simp only [entriesToks, List.cons_append, List.append_assoc] at hF
    obtain ⟨t, s', hty, htx, hn, _, hr⟩ := hF.inv
    obtain ⟨vty, vtx, vts, hvt, hstart, _⟩ := valToks_head v
    have hr' := hr
    rw [hvt, List.cons_append] at hr'
    obtain ⟨t2, s2, hty2, htx2, hn2, ht2, hr2⟩ := hr'.inv
    have hpend : Feeds o s2 (valToks v ++ (entriesToks es ++ (ty, tx) :: ts)) := by
      rw [hvt, List.cons_append, ← hty2, ← htx2]; exact Feeds.pending ht2 hr2
    obtain ⟨s3, h1, h2⟩ := value_structure o v _ s2 g acceptAll w hw.1.2 (by omega) hpend
    obtain ⟨s4, r, h3, hc, h4⟩ := entries_open o es ty tx ts s3 g w (putEntry o.normKey acc k (denoteVal o.dia o.normKey v)) hw.2
      (by omega) hterm h2
    refine ⟨s4, r, ?_, hc, h4⟩
    rw [tableLoop]
    simp only [bind_eq, pure_eq, P.bind, P.pure, hn, hty, htx, cstr_noNul hw.1.1.1]
    rw [tableEntry]
    simp only [bind_eq, pure_eq, P.bind, P.pure, hw.1.1.2, Bool.false_eq_true, if_false, hn2, hty2, hstart, if_true, h1,
      tableSet_eq_putEntry, h3, denoteEntries]

/-- parse_value on an unterminated list -/
theorem open_list_value (o : Opts) (vs : List Val) (btx : Str) (ty : TokType) (tx : Str) (ts : List TokSpec) (s : PS) (fuel : Nat) (w : W)
    (hw : wfVals o vs = true) (hf : szVals vs + 2 ≤ fuel) (hterm : isTerminator ty = true)
    (hF : Feeds o s ((.olist, btx) :: valsToks vs ++ (ty, tx) :: ts)) :
    ∃ s' r, parseValue o fuel s acceptAll w = .ok (.lst (denoteVals o.dia o.normKey vs), s') { w with log := r :: w.log }
      ∧ r.code = CIF_MISSING_DELIM ∧ Feeds o s' ((ty, tx) :: ts) := by
  obtain ⟨f, rfl⟩ : ∃ f, fuel = f + 1 := ⟨fuel - 1, by omega⟩
  simp only [List.cons_append] at hF
  obtain ⟨t, s1, hty, _, hn, _, hr⟩ := hF.inv
  obtain ⟨s2, r, h1, hc, h2⟩ := values_open o vs ty tx ts (consume s1) f w [] hw (by omega) hterm hr
  refine ⟨s2, r, ?_, hc, h2⟩
  rw [parseValue]
  simp only [bind_eq, pure_eq, P.bind, P.pure, hn, hty, h1, List.nil_append]

/-- parse_value on an unterminated table -/
theorem open_table_value (o : Opts) (es : List (Str × Presentation × Val)) (btx : Str) (ty : TokType) (tx : Str) (ts : List TokSpec)
    (s : PS) (fuel : Nat) (w : W) (hw : wfEntries o es = true) (hf : szEntries es + 2 ≤ fuel) (hterm : isTerminator ty = true)
    (hF : Feeds o s ((.otable, btx) :: entriesToks es ++ (ty, tx) :: ts)) :
    ∃ s' r, parseValue o fuel s acceptAll w = .ok (.tbl (denoteEntries o.dia o.normKey es []), s') { w with log := r :: w.log }
      ∧ r.code = CIF_MISSING_DELIM ∧ Feeds o s' ((ty, tx) :: ts) := by
  obtain ⟨f, rfl⟩ : ∃ f, fuel = f + 1 := ⟨fuel - 1, by omega⟩
  simp only [List.cons_append] at hF
  obtain ⟨t, s1, hty, _, hn, _, hr⟩ := hF.inv
  obtain ⟨s2, r, h1, hc, h2⟩ := entries_open o es ty tx ts (consume s1) f w [] hw (by omega) hterm hr
  refine ⟨s2, r, ?_, hc, h2⟩
  rw [parseValue]
  simp only [bind_eq, pure_eq, P.bind, P.pure, hn, hty, h1]

end CifModel.Model.Parser

namespace CifModel.Model.Parser
open CifModel CifModel.Model CifModel.Model.Lexer CifModel.Spec.Grammar CifModel.Spec.Lexical
open CifModel.Gen.ErrCodes

/-- what stands behind the defective item begins with a token that cannot continue a value -/
theorem next_is_terminator (post : List Item) (rest : List TokSpec)
    (h : post ≠ [] ∨ ∃ ty tx ts, rest = (ty, tx) :: ts ∧ isTerminator ty = true) :
    ∃ ty tx ts, itemsToks post ++ rest = (ty, tx) :: ts ∧ isTerminator ty = true := by
  cases post with
  | nil =>
    rcases h with h | h
    · exact absurd rfl h
    · simpa [itemsToks] using h
  | cons i r =>
    obtain ⟨ty, tx, ts, h, ht⟩ := itemToks_head i
    exact ⟨ty, tx, ts ++ (itemsToks r ++ rest), by simp [itemsToks, h], ht⟩

/-- **unterminated list**: `_n [ v₁ … vₖ` followed by something that cannot continue the list -/
theorem missing_delim_list_run (o : Opts) {path : Path} {put : Container → Cif} {code : Str} (hv : View o path put code)
    (pre post : List Item) (n : Str) (btx : Str) (vs : List Val) (seen seen2 : List Str) (rest : List TokSpec) (s : PS) (fuel : Nat)
    (w : W) (fs : List Container) (ls : List Loop) (isBlock : Bool) (hcif : w.cif = put (.mk code fs ls))
    (hpre : wfItems o pre seen = true) (hseen : ∀ k ∈ normNames o ls, k ∈ seen)
    (hname : wfName n = true) (hfresh : o.norm n ∉ normNames o (denoteItems o.dia o.normKey pre ls))
    (hwv : wfVals o vs = true) (hpost : wfItems o post seen2 = true)
    (hseen2 : ∀ k ∈ normNames o (denoteItems o.dia o.normKey (pre ++ [.item n (.lst vs)]) ls), k ∈ seen2)
    (hfuel : szItems pre + szItems post + (szVals vs + 2) + 1 ≤ fuel)
    (hpostne : post ≠ [] ∨ ∃ ty tx ts, rest = (ty, tx) :: ts ∧ isTerminator ty = true)
    (hrest : lastIsLoop post = true → ∃ ty tx ts, rest = (ty, tx) :: ts ∧ isTerminator ty = true)
    (hF : Feeds o s (itemsToks pre ++ (((.name, n) :: (.olist, btx) :: valsToks vs) ++ (itemsToks post ++ rest)))) :
    ∃ s' r, elemsLoop o (fuel + post.length + 1 + pre.length) s (some path) isBlock acceptAll w
        = elemsLoop o fuel s' (some path) isBlock acceptAll
            { log := r :: w.log, cif := put (.mk code fs (denoteItems o.dia o.normKey (pre ++ [.item n (.lst vs)] ++ post) ls)) }
      ∧ r.code = CIF_MISSING_DELIM ∧ Feeds o s' rest := by
  obtain ⟨ty, tx, ts, hnx, hterm⟩ := next_is_terminator post rest hpostne
  have := item_defect_run o hv pre post n .olist btx (valsToks vs) (.lst (denoteVals o.dia o.normKey vs)) CIF_MISSING_DELIM
    (szVals vs + 2) seen seen2 rest s fuel w fs ls isBlock hcif hpre hseen hname hfresh rfl rfl
    (by
      intro f s1 w1 hf hF1
      rw [hnx] at hF1 ⊢
      exact open_list_value o vs btx ty tx ts s1 f w1 hwv hf hterm hF1)
    hpost (by simpa [denoteItems_append, denoteItems, denoteVal] using hseen2) hfuel hrest hF
  simpa [denoteItems_append, denoteItems, denoteVal] using this

/-- **unterminated table**: `_n { k₁:v₁ … kₖ:vₖ` followed by something that cannot continue the table -/
theorem missing_delim_table_run (o : Opts) {path : Path} {put : Container → Cif} {code : Str} (hv : View o path put code)
    (pre post : List Item) (n : Str) (btx : Str) (es : List (Str × Presentation × Val)) (seen seen2 : List Str) (rest : List TokSpec)
    (s : PS) (fuel : Nat) (w : W) (fs : List Container) (ls : List Loop) (isBlock : Bool) (hcif : w.cif = put (.mk code fs ls))
    (hpre : wfItems o pre seen = true) (hseen : ∀ k ∈ normNames o ls, k ∈ seen)
    (hname : wfName n = true) (hfresh : o.norm n ∉ normNames o (denoteItems o.dia o.normKey pre ls))
    (hwv : wfEntries o es = true) (hpost : wfItems o post seen2 = true)
    (hseen2 : ∀ k ∈ normNames o (denoteItems o.dia o.normKey (pre ++ [.item n (.tbl es)]) ls), k ∈ seen2)
    (hfuel : szItems pre + szItems post + (szEntries es + 2) + 1 ≤ fuel)
    (hpostne : post ≠ [] ∨ ∃ ty tx ts, rest = (ty, tx) :: ts ∧ isTerminator ty = true)
    (hrest : lastIsLoop post = true → ∃ ty tx ts, rest = (ty, tx) :: ts ∧ isTerminator ty = true)
    (hF : Feeds o s (itemsToks pre ++ (((.name, n) :: (.otable, btx) :: entriesToks es) ++ (itemsToks post ++ rest)))) :
    ∃ s' r, elemsLoop o (fuel + post.length + 1 + pre.length) s (some path) isBlock acceptAll w
        = elemsLoop o fuel s' (some path) isBlock acceptAll
            { log := r :: w.log, cif := put (.mk code fs (denoteItems o.dia o.normKey (pre ++ [.item n (.tbl es)] ++ post) ls)) }
      ∧ r.code = CIF_MISSING_DELIM ∧ Feeds o s' rest := by
  obtain ⟨ty, tx, ts, hnx, hterm⟩ := next_is_terminator post rest hpostne
  have := item_defect_run o hv pre post n .otable btx (entriesToks es) (.tbl (denoteEntries o.dia o.normKey es [])) CIF_MISSING_DELIM
    (szEntries es + 2) seen seen2 rest s fuel w fs ls isBlock hcif hpre hseen hname hfresh rfl rfl
    (by
      intro f s1 w1 hf hF1
      rw [hnx] at hF1 ⊢
      exact open_table_value o es btx ty tx ts s1 f w1 hwv hf hterm hF1)
    hpost (by simpa [denoteItems_append, denoteItems, denoteVal] using hseen2) hfuel hrest hF
  simpa [denoteItems_append, denoteItems, denoteVal] using this

end CifModel.Model.Parser
