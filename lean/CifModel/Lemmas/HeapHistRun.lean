import CifModel.Lemmas.HeapHistBld
import CifModel.Lemmas.HeapHistFuel
/-
  Lemmas for operation histories on the heap, part 5: whole histories (`runH` / `runP`) and the final release.
-/
namespace CifModel.Model.Hist
open CifModel CifModel.Model.Heap
open CifModel.Model.Value (Step Entry resolve update child setChild defaultOf mapFind mapReplace)

theorem RepS.fits {T : List Nat} {s : HState} {p : PState} {F : Root → List Nat} (inv : RepS T s p F) (fuel : Nat)
    (hfuel : fuelOf s.h ≤ fuel) : Fits fuel p :=
  inv.fitsAt fuel (by simp only [fuelOf] at hfuel; omega)

/-- one operation, any kind, any fuel that is at least the fuel computed from the heap -/
theorem step_sim {s : HState} {p : PState} {F : Root → List Nat} (inv : RepS [] s p F) (fuel : Nat)
    (hfuel : fuelOf s.h ≤ fuel) (op : HOp) : Sim [] (stepH? fuel s op) (stepP? p op) := by
  have hf := inv.fits fuel hfuel
  cases op with
  | nop => exact Sim.none
  | new i kind => exact step_new inv fuel i kind
  | bld i v => exact step_bld inv fuel i v
  | free i => exact step_free inv fuel hf i
  | cln src dst => exact step_cln inv fuel hf src dst
  | init r kind => exact step_init inv fuel hf r kind
  | ichr r t => exact step_ichr inv fuel hf r t
  | lget r i => exact Sim.none
  | lset r i src => exact step_lset inv fuel hf r i src
  | lins r i src => exact step_lins inv fuel hf r i src
  | lrem r i dst => exact step_lrem inv fuel hf r i dst
  | mget r nk => exact Sim.none
  | mset r key nk src => exact step_mset inv fuel hf r key nk src (by simp only [fuelOf] at hfuel; exact hfuel)
  | mrem r nk dst => exact step_mrem inv fuel hf r nk dst
  | pnew i names => exact step_pnew inv fuel i names
  | pfree i => exact step_pfree inv fuel hf i

theorem stepC_RepS {s : HState} {p : PState} {F : Root → List Nat} (inv : RepS [] s p F) (op : HOp) :
    ∃ F', RepS [] (stepC s op) (stepP p op) F' := by
  unfold stepC stepH stepP
  rcases step_sim inv (fuelOf s.h) (Nat.le_refl _) op with ⟨s', p', F', h1, h2, inv'⟩ | ⟨h1, h2⟩
  · rw [h1, h2]
    simp only [Option.getD_some]
    rw [compact_eq s'.h inv'.wf]
    exact ⟨F', inv'⟩
  · rw [h1, h2]
    simp only [Option.getD_none]
    rw [compact_eq s.h inv.wf]
    exact ⟨F, inv⟩

theorem run_RepS : ∀ (ops : List HOp) (s : HState) (p : PState) (F : Root → List Nat),
    RepS [] s p F → ∃ F', RepS [] (runH ops s) (runP ops p) F' := by
  intro ops
  induction ops with
  | nil => intro s p F inv; exact ⟨F, inv⟩
  | cons op ops ih =>
    intro s p F inv
    obtain ⟨F', inv'⟩ := stepC_RepS inv op
    simp only [runH, runP]
    exact ih _ _ F' inv'

theorem ok_mem_allRoots (r : Root) (h : r.ok = true) : r ∈ allRoots := by
  cases r with
  | val k =>
    have hk : k < NV := of_decide_eq_true h
    simp only [allRoots, List.mem_append, List.mem_map, List.mem_range]
    exact Or.inl ⟨k, hk, rfl⟩
  | pkt k =>
    have hk : k < NP := of_decide_eq_true h
    simp only [allRoots, List.mem_append, List.mem_map, List.mem_range]
    exact Or.inr ⟨k, hk, rfl⟩

theorem RepS.init : RepS [] HState.empty PState.empty (fun _ => []) :=
  ⟨fun _ _ => rfl, fun _ _ => rfl, fun _ => rfl, (fun _ _ h => by cases h), (fun _ _ _ _ h => by cases h),
    (fun _ _ h => by cases h), (fun _ h => by cases h), (fun a h => by simp [HState.empty, Heap.empty] at h)⟩

/-! ### releasing every slot -/

theorem Fits.setNone {fuel : Nat} {p : PState} (hf : Fits fuel p) (r : Root) : Fits fuel (setP p r none) := by
  intro r' v hp
  simp only [setP_get] at hp
  by_cases he : r' = r
  · simp [he] at hp
  · simp only [he, if_false] at hp; exact hf r' v hp

theorem releaseRoots_spec (fuel : Nat) (s : HState) : ∀ (rs : List Root), rs.Nodup → ∀ (g : Heap) (sl : Root → Option Nat)
    (p : PState) (F : Root → List Nat), RepS [] ⟨g, sl⟩ p F → Fits fuel p → (∀ r, r ∈ rs → sl r = s.slot r) →
    ∃ h' sl' p' F', releaseRoots fuel s rs g = some h' ∧ RepS [] ⟨h', sl'⟩ p' F'
      ∧ (∀ r, r ∈ rs → sl' r = none) ∧ (∀ r, r ∉ rs → sl' r = sl r) := by
  intro rs
  induction rs with
  | nil => intro _ g sl p F inv _ _; exact ⟨g, sl, p, F, rfl, inv, (fun _ h => by cases h), fun _ _ => rfl⟩
  | cons r rs ih =>
    intro hnd g sl p F inv hf hsl
    obtain ⟨hrn, hnd'⟩ := List.nodup_cons.mp hnd
    have hr : s.slot r = sl r := (hsl r List.mem_cons_self).symm
    simp only [releaseRoots]
    cases hs : sl r with
    | none =>
      rw [hr, hs]
      obtain ⟨h', sl', p', F', hop, inv', h1, h2⟩ := ih hnd' g sl p F inv hf (fun r' hr' => hsl r' (List.mem_cons_of_mem _ hr'))
      refine ⟨h', sl', p', F', hop, inv', ?_, fun r' hr' => h2 r' (fun hm => hr' (List.mem_cons_of_mem _ hm))⟩
      intro r' hr'
      rcases List.mem_cons.mp hr' with rfl | hr'
      · rw [h2 r' hrn, hs]
      · exact h1 r' hr'
    | some a =>
      rw [hr, hs]
      -- one release = the `free` / `pfree` operation of the op language
      have key : ∃ g' p1 F1, releaseOne fuel r g a = some g'
          ∧ RepS [] ⟨g', fun r' => if r' = r then none else sl r'⟩ p1 F1 ∧ Fits fuel p1 := by
        obtain ⟨v, hp, _⟩ := inv.fullSlot _ a hs
        cases r with
        | val i =>
          have hsim := step_free inv fuel hf i
          simp only [stepH?, stepP?, hs, hp] at hsim
          rcases hsim with ⟨s', p', F', h1, h2, inv'⟩ | ⟨_, h2⟩
          · cases hfo : freeObj fuel g a with
            | none => rw [hfo] at h1; cases h1
            | some g' =>
              rw [hfo] at h1
              simp only [Option.map_some, Option.some.injEq] at h1 h2
              subst h1; subst h2
              exact ⟨g', _, F', hfo, inv', hf.setNone _⟩
          · cases h2
        | pkt i =>
          have hsim := step_pfree inv fuel hf i
          simp only [stepH?, stepP?, hs, hp] at hsim
          rcases hsim with ⟨s', p', F', h1, h2, inv'⟩ | ⟨_, h2⟩
          · cases hfo : packetFreeH fuel g a with
            | none => rw [hfo] at h1; cases h1
            | some g' =>
              rw [hfo] at h1
              simp only [Option.map_some, Option.some.injEq] at h1 h2
              subst h1; subst h2
              exact ⟨g', _, F', hfo, inv', hf.setNone _⟩
          · cases h2
      obtain ⟨g', p1, F1, hop, inv1, hf1⟩ := key
      simp only [hop]
      obtain ⟨h', sl', p', F', hop', inv', h1, h2⟩ := ih hnd' g' _ p1 F1 inv1 hf1
        (fun r' hr' => by
          have hne : r' ≠ r := fun e => hrn (e ▸ hr')
          simp only [hne, if_false]; exact hsl r' (List.mem_cons_of_mem _ hr'))
      refine ⟨h', sl', p', F', hop', inv', ?_, ?_⟩
      · intro r' hr'
        rcases List.mem_cons.mp hr' with rfl | hr'
        · rw [h2 r' hrn]; simp
        · exact h1 r' hr'
      · intro r' hr'
        have hne : r' ≠ r := fun e => hr' (e ▸ List.mem_cons_self)
        rw [h2 r' (fun hm => hr' (List.mem_cons_of_mem _ hm))]
        simp [hne]

theorem allRoots_nodup : allRoots.Nodup := by decide

/-- releasing every slot of a represented state frees every block (each once: a `free` of a dead block fails) -/
theorem releaseAll_spec {s : HState} {p : PState} {F : Root → List Nat} (inv : RepS [] s p F) :
    ∃ h', releaseAll s = some h' ∧ ∀ a, h'.cell a = none := by
  obtain ⟨h', sl', p', F', hop, inv', h1, h2⟩ := releaseRoots_spec (fuelOf s.h) s allRoots allRoots_nodup s.h s.slot p F inv
    (inv.fits _ (Nat.le_refl _)) (fun _ _ => rfl)
  refine ⟨h', hop, ?_⟩
  intro a
  cases hc : h'.cell a with
  | none => rfl
  | some c =>
    exfalso
    have hall : ∀ r, sl' r = none := by
      intro r
      cases hr : r.ok with
      | true => exact h1 r (ok_mem_allRoots r hr)
      | false => exact inv'.ok r hr
    rcases inv'.cov a (by simp only []; rw [hc]; rfl) with ⟨r, hm⟩ | hm
    · rw [(inv'.emptySlot r (hall r)).2] at hm; cases hm
    · cases hm

end CifModel.Model.Hist
