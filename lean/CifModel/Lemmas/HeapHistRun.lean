import CifModel.Lemmas.HeapHistBld
/-
  Lemmas for operation histories on the heap, part 5: whole histories (`runH` / `runP`) and the final release.
-/
namespace CifModel.Model.Hist
open CifModel CifModel.Model.Heap
open CifModel.Model.Value (Step Entry resolve update child setChild defaultOf mapFind mapReplace)

/-- one operation, any kind -/
theorem step_sim {s : HState} {p : PState} {F : Root → List Nat} (inv : RepS [] s p F) (fuel : Nat) (hf : Fits fuel p)
    (op : HOp) (hm : Fits fuel (midP p op)) : Sim [] (stepH? fuel s op) (stepP? p op) := by
  cases op with
  | nop => exact Sim.none
  | new i kind => exact step_new inv fuel i kind
  | bld i v => exact step_bld inv fuel i v hm
  | free i => exact step_free inv fuel hf i
  | cln src dst => exact step_cln inv fuel hf src dst
  | init r kind => exact step_init inv fuel hf r kind
  | ichr r t => exact step_ichr inv fuel hf r t
  | lget r i => exact Sim.none
  | lset r i src => exact step_lset inv fuel hf r i src
  | lins r i src => exact step_lins inv fuel hf r i src
  | lrem r i dst => exact step_lrem inv fuel hf r i dst
  | mget r nk => exact Sim.none
  | mset r key nk src => exact step_mset inv fuel hf r key nk src hm
  | mrem r nk dst => exact step_mrem inv fuel hf r nk dst
  | pnew i names => exact step_pnew inv fuel i names
  | pfree i => exact step_pfree inv fuel hf i

theorem stepC_RepS {s : HState} {p : PState} {F : Root → List Nat} (inv : RepS [] s p F) (fuel : Nat) (hf : Fits fuel p)
    (op : HOp) (hm : Fits fuel (midP p op)) : ∃ F', RepS [] (stepC fuel s op) (stepP p op) F' := by
  unfold stepC stepH stepP
  rcases step_sim inv fuel hf op hm with ⟨s', p', F', h1, h2, inv'⟩ | ⟨h1, h2⟩
  · rw [h1, h2]
    simp only [Option.getD_some]
    rw [compact_eq s'.h inv'.wf]
    exact ⟨F', inv'⟩
  · rw [h1, h2]
    simp only [Option.getD_none]
    rw [compact_eq s.h inv.wf]
    exact ⟨F, inv⟩

/-! ### a fuel that suffices for a history -/

def needOpt : Option V → Nat
  | some v => need v
  | none => 0

/-- the largest `need` of a value held in a slot -/
def needMax (p : PState) : Nat := (allRoots.map (fun r => needOpt (p.get r))).foldl max 0

/-- the fuel a history needs: every state it goes through (and the intermediate state of a `set_item` on an existing key)
    must fit -/
def bound : List HOp → PState → Nat
  | [], p => needMax p
  | op :: ops, p => max (needMax p) (max (needMax (midP p op)) (bound ops (stepP p op)))

theorem le_foldl_max (l : List Nat) (init x : Nat) (h : x ∈ l ∨ x ≤ init) : x ≤ l.foldl max init := by
  induction l generalizing init with
  | nil => rcases h with h | h; cases h; exact h
  | cons y l ih =>
    simp only [List.foldl_cons]
    apply ih
    rcases h with h | h
    · rcases List.mem_cons.mp h with rfl | h
      · exact Or.inr (Nat.le_max_right _ _)
      · exact Or.inl h
    · exact Or.inr (Nat.le_trans h (Nat.le_max_left _ _))

theorem ok_mem_allRoots (r : Root) (h : r.ok = true) : r ∈ allRoots := by
  cases r with
  | val k =>
    have hk : k < NV := of_decide_eq_true h
    simp only [allRoots, List.mem_append, List.mem_map, List.mem_range]
    exact Or.inl ⟨k, hk, rfl⟩
  | pkt k =>
    have hk : k < NP := of_decide_eq_true h
    simp only [allRoots, List.mem_append, List.mem_map, List.mem_range]
    exact Or.inr ⟨k, hk, rfl⟩

/-- only the slots that exist are ever occupied -/
def OkP (p : PState) : Prop := ∀ r, r.ok = false → p.get r = none

theorem RepS.okP {T : List Nat} {s : HState} {p : PState} {F : Root → List Nat} (inv : RepS T s p F) : OkP p :=
  fun r hr => (inv.emptySlot r (inv.ok r hr)).1

theorem fits_of_needMax {p : PState} (hok : OkP p) {fuel : Nat} (h : needMax p ≤ fuel) : Fits fuel p := by
  intro r v hp
  have hr : r.ok = true := by
    cases hc : r.ok with
    | true => rfl
    | false => rw [hok r hc] at hp; cases hp
  have : needOpt (p.get r) ≤ needMax p :=
    le_foldl_max _ 0 _ (Or.inl (List.mem_map.mpr ⟨r, ok_mem_allRoots r hr, rfl⟩))
  rw [hp] at this
  exact Nat.le_trans this h

theorem midP_ok {p : PState} (hok : OkP p) (op : HOp) : OkP (midP p op) := by
  cases op with
  | mset r key nk src =>
    cases nk with
    | none => exact hok
    | some nk =>
      simp only [midP]
      cases hg : getP p r with
      | none => exact hok
      | some c =>
        cases c with
        | tbl es =>
          simp only []
          cases hm : mapFind es nk with
          | none => exact hok
          | some e =>
            simp only []
            cases hp : putP p r (.tbl (mapReplace es nk key e.2.2)) with
            | none => exact hok
            | some q => exact fun r' hr' => getP_setP_ok hp r' hr' (hok r' hr')
        | _ => exact hok
  | bld i v =>
    simp only [midP]
    by_cases hi : (Root.val i).ok = true
    · simp only [hi, if_true]
      intro r hr
      simp only [setP_get]
      have hne : r ≠ .val i := fun e => by rw [e, hi] at hr; cases hr
      simp [hne, hok r hr]
    · simp only [hi]; exact hok
  | _ => exact hok

theorem run_RepS (fuel : Nat) : ∀ (ops : List HOp) (s : HState) (p : PState) (F : Root → List Nat),
    RepS [] s p F → bound ops p ≤ fuel → ∃ F', RepS [] (runH fuel ops s) (runP ops p) F' := by
  intro ops
  induction ops with
  | nil => intro s p F inv _; exact ⟨F, inv⟩
  | cons op ops ih =>
    intro s p F inv hb
    simp only [bound] at hb
    have hf : Fits fuel p := fits_of_needMax inv.okP (by omega)
    have hm : Fits fuel (midP p op) := fits_of_needMax (midP_ok inv.okP op) (by omega)
    obtain ⟨F', inv'⟩ := stepC_RepS inv fuel hf op hm
    simp only [runH, runP]
    exact ih _ _ F' inv' (by omega)

/-- the fuel bound of a history also covers its last state -/
theorem bound_last : ∀ (ops : List HOp) (p : PState), needMax (runP ops p) ≤ bound ops p := by
  intro ops
  induction ops with
  | nil => intro p; exact Nat.le_refl _
  | cons op ops ih =>
    intro p
    simp only [runP, bound]
    have := ih (stepP p op)
    omega

theorem RepS.init : RepS [] HState.empty PState.empty (fun _ => []) :=
  ⟨fun _ _ => rfl, fun _ _ => rfl, fun _ => rfl, (fun _ _ h => by cases h), (fun _ _ _ _ h => by cases h),
    (fun _ _ h => by cases h), (fun _ h => by cases h), (fun a h => by simp [HState.empty, Heap.empty] at h)⟩

/-! ### releasing every slot -/

theorem Fits.setNone {fuel : Nat} {p : PState} (hf : Fits fuel p) (r : Root) : Fits fuel (setP p r none) := by
  intro r' v hp
  simp only [setP_get] at hp
  by_cases he : r' = r
  · simp [he] at hp
  · simp only [he, if_false] at hp; exact hf r' v hp

theorem releaseRoots_spec (fuel : Nat) (s : HState) : ∀ (rs : List Root), rs.Nodup → ∀ (g : Heap) (sl : Root → Option Nat)
    (p : PState) (F : Root → List Nat), RepS [] ⟨g, sl⟩ p F → Fits fuel p → (∀ r, r ∈ rs → sl r = s.slot r) →
    ∃ h' sl' p' F', releaseRoots fuel s rs g = some h' ∧ RepS [] ⟨h', sl'⟩ p' F'
      ∧ (∀ r, r ∈ rs → sl' r = none) ∧ (∀ r, r ∉ rs → sl' r = sl r) := by
  intro rs
  induction rs with
  | nil => intro _ g sl p F inv _ _; exact ⟨g, sl, p, F, rfl, inv, (fun _ h => by cases h), fun _ _ => rfl⟩
  | cons r rs ih =>
    intro hnd g sl p F inv hf hsl
    obtain ⟨hrn, hnd'⟩ := List.nodup_cons.mp hnd
    have hr : s.slot r = sl r := (hsl r List.mem_cons_self).symm
    simp only [releaseRoots]
    cases hs : sl r with
    | none =>
      rw [hr, hs]
      obtain ⟨h', sl', p', F', hop, inv', h1, h2⟩ := ih hnd' g sl p F inv hf (fun r' hr' => hsl r' (List.mem_cons_of_mem _ hr'))
      refine ⟨h', sl', p', F', hop, inv', ?_, fun r' hr' => h2 r' (fun hm => hr' (List.mem_cons_of_mem _ hm))⟩
      intro r' hr'
      rcases List.mem_cons.mp hr' with rfl | hr'
      · rw [h2 r' hrn, hs]
      · exact h1 r' hr'
    | some a =>
      rw [hr, hs]
      -- one release = the `free` / `pfree` operation of the op language
      have key : ∃ g' p1 F1, releaseOne fuel r g a = some g'
          ∧ RepS [] ⟨g', fun r' => if r' = r then none else sl r'⟩ p1 F1 ∧ Fits fuel p1 := by
        obtain ⟨v, hp, _⟩ := inv.fullSlot _ a hs
        cases r with
        | val i =>
          have hsim := step_free inv fuel hf i
          simp only [stepH?, stepP?, hs, hp] at hsim
          rcases hsim with ⟨s', p', F', h1, h2, inv'⟩ | ⟨_, h2⟩
          · cases hfo : freeObj fuel g a with
            | none => rw [hfo] at h1; cases h1
            | some g' =>
              rw [hfo] at h1
              simp only [Option.map_some, Option.some.injEq] at h1 h2
              subst h1; subst h2
              exact ⟨g', _, F', hfo, inv', hf.setNone _⟩
          · cases h2
        | pkt i =>
          have hsim := step_pfree inv fuel hf i
          simp only [stepH?, stepP?, hs, hp] at hsim
          rcases hsim with ⟨s', p', F', h1, h2, inv'⟩ | ⟨_, h2⟩
          · cases hfo : packetFreeH fuel g a with
            | none => rw [hfo] at h1; cases h1
            | some g' =>
              rw [hfo] at h1
              simp only [Option.map_some, Option.some.injEq] at h1 h2
              subst h1; subst h2
              exact ⟨g', _, F', hfo, inv', hf.setNone _⟩
          · cases h2
      obtain ⟨g', p1, F1, hop, inv1, hf1⟩ := key
      simp only [hop]
      obtain ⟨h', sl', p', F', hop', inv', h1, h2⟩ := ih hnd' g' _ p1 F1 inv1 hf1
        (fun r' hr' => by
          have hne : r' ≠ r := fun e => hrn (e ▸ hr')
          simp only [hne, if_false]; exact hsl r' (List.mem_cons_of_mem _ hr'))
      refine ⟨h', sl', p', F', hop', inv', ?_, ?_⟩
      · intro r' hr'
        rcases List.mem_cons.mp hr' with rfl | hr'
        · rw [h2 r' hrn]; simp
        · exact h1 r' hr'
      · intro r' hr'
        have hne : r' ≠ r := fun e => hr' (e ▸ List.mem_cons_self)
        rw [h2 r' (fun hm => hr' (List.mem_cons_of_mem _ hm))]
        simp [hne]

theorem allRoots_nodup : allRoots.Nodup := by decide

/-- releasing every slot of a represented state frees every block (each once: a `free` of a dead block fails) -/
theorem releaseAll_spec {s : HState} {p : PState} {F : Root → List Nat} (inv : RepS [] s p F) (fuel : Nat) (hf : Fits fuel p) :
    ∃ h', releaseAll fuel s = some h' ∧ ∀ a, h'.cell a = none := by
  obtain ⟨h', sl', p', F', hop, inv', h1, h2⟩ := releaseRoots_spec fuel s allRoots allRoots_nodup s.h s.slot p F inv hf (fun _ _ => rfl)
  refine ⟨h', hop, ?_⟩
  intro a
  cases hc : h'.cell a with
  | none => rfl
  | some c =>
    exfalso
    have hall : ∀ r, sl' r = none := by
      intro r
      cases hr : r.ok with
      | true => exact h1 r (ok_mem_allRoots r hr)
      | false => exact inv'.ok r hr
    rcases inv'.cov a (by simp only []; rw [hc]; rfl) with ⟨r, hm⟩ | hm
    · rw [(inv'.emptySlot r (hall r)).2] at hm; cases hm
    · cases hm

end CifModel.Model.Hist
