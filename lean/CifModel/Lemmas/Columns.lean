import CifModel.Model.Columns
import CifModel.Lemmas.Serialize
import CifModel.Gen.ValueCols
/-
  Lemmas about Model/Columns: link theorems to the translated source facts, and the column round trip.
-/
namespace CifModel.Model.Columns
open CifModel CifModel.Model.Serialize

/-! ### ties to the current sources (re-decided on every run over Gen/ValueCols.lean) -/

/-- the CHECK constraints of item_value are the ones `check1`–`check3` transcribe -/
theorem checks_link : Gen.ValueCols.checks = assumedChecks := by decide +kernel

/-- every statement SET_VALUE_PROPS is used with lists the value columns in the order the macro binds them, every
    statement GET_VALUE_PROPS is used with in the order the macro reads them -/
theorem colOrder_link :
    (∀ o ∈ Gen.ValueCols.setOrders, o = assumedSetOrder) ∧ (∀ o ∈ Gen.ValueCols.getOrders, o = assumedGetOrder) := by
  decide +kernel

/-- parameter offsets of SET_VALUE_PROPS per bound field, column offsets of GET_VALUE_PROPS per field read
    (offset ↦ position in `assumedSetOrder` / `assumedGetOrder`) -/
theorem offsets_link :
    Gen.ValueCols.binds.map (·.1) = [1, 2, 3, 4, 2, 3, 4, 5, 6, 7, 4]
    ∧ Gen.ValueCols.reads.map (·.1) = [0, 1, 3, 1, 3, 4, 5, 6, 2, 2] := by
  decide +kernel

theorem cap_link : Gen.ValueCols.defaultSerializationCap = defaultCap := by decide +kernel

theorem enums_link :
    Gen.ValueCols.kinds = [(a!"CIF_CHAR_KIND", 0), (a!"CIF_NUMB_KIND", 1), (a!"CIF_LIST_KIND", 2), (a!"CIF_TABLE_KIND", 3),
      (a!"CIF_NA_KIND", 4), (a!"CIF_UNK_KIND", 5)]
    ∧ Gen.ValueCols.quotedCodes = [(a!"CIF_NOT_QUOTED", 0), (a!"CIF_QUOTED", 1)] := by
  decide +kernel

/-! ### round trip -/

theorem quotedOf_qcode (q : Bool) : quotedOf (some (qcode q)) = q := by
  cases q <;> simp [quotedOf, qcode]

/-- a well-formed value is accepted by the CHECK constraints and read back identical -/
theorem columns_roundtrip (parse : Str → Option NumbFields) (v : V) (h : wfValue parse v = true) :
    ∃ row, toColumns v = some row ∧ checks row = true ∧ fromColumns parse row = some v := by
  cases v with
  | unk => exact ⟨_, rfl, by decide, rfl⟩
  | na => exact ⟨_, rfl, by decide, rfl⟩
  | chr q t =>
    refine ⟨_, rfl, ?_, ?_⟩
    · simp [checks, check1, check2, check3, emptyRow]
    · simp [fromColumns, emptyRow, quotedOf_qcode]
  | numb q t neg d su sc =>
    simp only [wfValue, numbOk, Bool.and_eq_true, bne_iff_ne, ne_eq, beq_iff_eq] at h
    obtain ⟨⟨⟨⟨ht, hd⟩, hdig⟩, hsu⟩, hneg⟩ := h
    refine ⟨_, rfl, ?_, ?_⟩
    · simp only [checks, check1, check2, check3, emptyRow]
      cases su with
      | none => simp [hdig, List.length_pos_iff, hd]
      | some s =>
        simp only [Bool.and_eq_true, bne_iff_ne, ne_eq] at hsu
        simp [hdig, List.length_pos_iff, hd, hsu.1, hsu.2]
    · simp [fromColumns, emptyRow, quotedOf_qcode, ht, hd, hneg]
  | lst vs =>
    simp only [wfValue, Bool.and_eq_true, decide_eq_true_eq] at h
    obtain ⟨b, hb, hc, _, _⟩ := serialize_ok (.lst vs) h.1
    refine ⟨{ emptyRow 2 with val := .blob b.contents }, by simp [toColumns, hb], ?_, ?_⟩
    · simp [checks, check1, check2, check3, emptyRow]
    · have := deserialize_ser parse (.lst vs) (by simpa [numbsParse] using h.2)
      simp [fromColumns, emptyRow, hc, this]
  | tbl es =>
    simp only [wfValue, Bool.and_eq_true, decide_eq_true_eq] at h
    obtain ⟨b, hb, hc, _, _⟩ := serialize_ok (.tbl es) h.1
    refine ⟨{ emptyRow 3 with val := .blob b.contents }, by simp [toColumns, hb], ?_, ?_⟩
    · simp [checks, check1, check2, check3, emptyRow]
    · have := deserialize_ser parse (.tbl es) (by simpa [numbsParse] using h.2)
      simp [fromColumns, emptyRow, hc, this]

theorem takeWhile_idem {α : Type} (p : α → Bool) (l : List α) : (l.takeWhile p).takeWhile p = l.takeWhile p := by
  induction l with
  | nil => rfl
  | cons a l ih =>
    by_cases h : p a = true
    · simp [h, ih]
    · simp [h]

/-- a C string seen through its first NUL is already NUL-free -/
theorem cstr_idem (t : Str) : Numb.cstr (Numb.cstr t) = Numb.cstr t := takeWhile_idem _ t

/-- F21 as a CHECK failure: a number whose digit string is empty (what `to_digits` produced before 46300e2 for a value
    that rounds to zero) is refused by the schema -/
theorem empty_digits_rejected (q : Bool) (t : Str) (neg : Bool) (su : Option (List Nat)) (sc : Int) :
    ∃ row, toColumns (.numb q t neg [] su sc) = some row ∧ checks row = false := by
  refine ⟨_, rfl, ?_⟩
  simp [checks, check1, check2, check3, emptyRow]

end CifModel.Model.Columns
