import CifModel.Lemmas.LadderClone
/-
  CifModel.Lemmas.LadderShape — what a successful clone returns has the shape of the source value (same kinds, same
  nesting, elements in index order), and a balanced run never owns a block twice.
-/
namespace CifModel.Lemmas.Ladder
open CifModel.Model.Ladder CifModel.Spec.HeapTrace

mutual
  /-- the shape of an owned value -/
  def shapeOf : Owned → Shape
    | .scalar _ => .scalar
    | .chr _ _ => .chr
    | .numb _ _ _ su => .numb su.isSome
    | .lst _ _ es => .lst (shapesOf es)
  def shapesOf : List Owned → List Shape
    | [] => []
    | e :: es => shapeOf e :: shapesOf es
end

theorem shapesOf_append (a b : List Owned) : shapesOf (a ++ b) = shapesOf a ++ shapesOf b := by
  induction a with
  | nil => simp [shapesOf]
  | cons e es ih => simp [shapesOf, ih]

mutual
  theorem cloneInto_shape (k obj : Nat) : ∀ (sh : Shape) (s : St) (o : Owned),
      (cloneInto k obj sh s).1 = some o → shapeOf o = sh
    | .scalar, s, o, h => by
      simp only [cloneInto, Option.some.injEq] at h
      subst h; rfl
    | .chr, s, o, h => by
      simp only [cloneInto] at h
      split at h
      · simp at h
      · simp only [Option.some.injEq] at h; subst h; rfl
    | .numb hasSu, s, o, h => by
      simp only [cloneInto] at h
      split at h
      · simp at h
      · split at h
        · simp at h
        · cases hasSu with
          | false => simp only [Bool.false_eq_true, if_false, Option.some.injEq] at h; subst h; rfl
          | true =>
            simp only [if_true] at h
            split at h
            · simp at h
            · simp only [Option.some.injEq] at h; subst h; rfl
    | .lst es, s, o, h => by
      simp only [cloneInto] at h
      split at h
      · simp at h
      · split at h
        · rename_i os s'' heq
          simp only [Option.some.injEq] at h
          subst h
          have := cloneElems_shape k es [] _ os (by rw [heq])
          simp only [shapeOf, this, List.reverse_nil, shapesOf, List.nil_append]
        · simp at h
  theorem cloneElems_shape (k : Nat) : ∀ (es : List Shape) (done : List Owned) (s : St) (os : List Owned),
      (cloneElems k es done s).1 = some os → shapesOf os = shapesOf done.reverse ++ es
    | [], done, s, os, h => by
      simp only [cloneElems, Option.some.injEq] at h
      subst h; simp
    | sh :: rest, done, s, os, h => by
      simp only [cloneElems] at h
      split at h
      · simp at h
      · split at h
        · rename_i o s'' heq
          have h1 := cloneInto_shape k _ sh _ o (by rw [heq])
          have h2 := cloneElems_shape k rest (o :: done) s'' os h
          rw [h2, List.reverse_cons, shapesOf_append]
          simp [shapesOf, h1]
        · simp at h
end

/-- a successful `cif_value_clone` returns a value of the source's shape -/
theorem clone_shape (k : Nat) (sh : Shape) (s : St) (o : Owned) (h : (clone k sh s).1 = some o) : shapeOf o = sh := by
  simp only [clone] at h
  split at h
  · simp at h
  · exact cloneInto_shape k _ sh _ o h

-- ---------------------------------------------------------------------------------------------------------------

theorem step_nodup {o : Option (List Nat)} {e : Ev} {L : List Nat} (ho : ∀ M, o = some M → M.Nodup)
    (h : step o e = some L) : L.Nodup := by
  cases o with
  | none => simp [step] at h
  | some M =>
    have hM := ho M rfl
    cases e with
    | alloc i =>
      simp only [step] at h
      split at h
      · simp at h
      · rename_i hi; cases h; exact List.nodup_cons.mpr ⟨hi, hM⟩
    | fail i => simp only [step, Option.some.injEq] at h; subst h; exact hM
    | free i =>
      simp only [step] at h
      split at h
      · cases h; exact hM.erase _
      · simp at h

theorem foldl_step_nodup : ∀ (evs : List Ev) (o : Option (List Nat)), (∀ M, o = some M → M.Nodup) →
    ∀ L, evs.foldl step o = some L → L.Nodup
  | [], o, ho, L, h => ho L h
  | e :: evs, o, ho, L, h => by
    simp only [List.foldl_cons] at h
    exact foldl_step_nodup evs (step o e) (fun M hM => step_nodup ho hM) L h

/-- a balanced run never owns a block twice -/
theorem balanced_nodup {evs : List Ev} {owned : List Nat} (h : Balanced evs owned) : owned.Nodup := by
  obtain ⟨L, hL, p⟩ := h
  have : L.Nodup := foldl_step_nodup evs (some []) (fun M hM => by cases hM; exact List.nodup_nil) L hL
  exact p.nodup_iff.mp this

end CifModel.Lemmas.Ladder
