import CifModel.Model.Writer
import CifModel.Spec.TextProtocol
import CifModel.Lemmas.WriterFold
import CifModel.Lemmas.DecodeLines
/-
  The writer side of the text protocol: the physical lines that `write_text` prints for a text decode — by the
  specification's `unfoldLines` after (lenient) prefix removal — to that text.
-/
namespace CifModel.Lemmas.WriterText
open CifModel.Model.Writer
open CifModel.Model.Decode (stripPrefix)
open CifModel.Lemmas.DecodeLines (NoEol stripPrefix_append)
open CifModel.Lemmas.WriterFold (foldLine_le)
open CifModel.Spec.TextProtocol (lineContent unfoldLines joinLines dropFold)

/-! ### the model's helper predicates are the specification's -/

theorem isBlank_eq (c : CU) : isBlank c = Spec.TextProtocol.isBlank c := rfl

theorem endsBslBlank_eq (l : Str) : endsBslBlank l = Spec.TextProtocol.endsBslBlank l := by
  induction l with
  | nil => rfl
  | cons c r ih =>
    simp only [endsBslBlank, Spec.TextProtocol.endsBslBlank, ih]
    have : (r.all isBlank) = (r.all Spec.TextProtocol.isBlank) := rfl
    rw [this]
    cases Spec.TextProtocol.endsBslBlank r <;> simp

theorem sp_endsBslBlank_append (a b : Str) :
    Spec.TextProtocol.endsBslBlank (a ++ b) = (Spec.TextProtocol.endsBslBlank b || (b.all Spec.TextProtocol.isBlank && Spec.TextProtocol.endsBslBlank a)) := by
  induction a with
  | nil => simp [Spec.TextProtocol.endsBslBlank]
  | cons c r ih =>
    simp only [List.cons_append, Spec.TextProtocol.endsBslBlank, ih, List.all_append]
    cases Spec.TextProtocol.endsBslBlank b <;> cases Spec.TextProtocol.endsBslBlank r <;> cases (b.all Spec.TextProtocol.isBlank) <;> simp

theorem sp_endsBslBlank_snoc (seg : Str) : Spec.TextProtocol.endsBslBlank (seg ++ [92]) = true := by
  rw [sp_endsBslBlank_append]; simp [Spec.TextProtocol.endsBslBlank]

theorem sp_dropFold_snoc (seg : Str) : dropFold (seg ++ [92]) = seg := by
  induction seg with
  | nil => simp [dropFold, Spec.TextProtocol.endsBslBlank]
  | cons c r ih =>
    simp only [List.cons_append, dropFold, sp_endsBslBlank_snoc, ↓reduceIte, ih]

/-- a folded segment: text, then the fold separator; its terminator is not content -/
theorem lineContent_fold (seg : Str) : lineContent true (seg ++ [92]) = seg := by
  simp [lineContent, sp_endsBslBlank_snoc, sp_dropFold_snoc]

theorem lineContent_plain (folded : Bool) (l : Str) (h : (folded && Spec.TextProtocol.endsBslBlank l) = false) :
    lineContent folded l = l ++ [10] := by
  simp [lineContent, h]

/-! ### logical lines -/

theorem splitLines_ne_nil (s : Str) : splitLines s ≠ [] := by
  induction s with
  | nil => simp [splitLines]
  | cons c r ih =>
    simp only [splitLines]
    split
    · simp
    · split
      · simp
      · simp

/-- no logical line contains a LF; joined by LF they give the text back -/
theorem splitLines_spec (s : Str) :
    (∀ l ∈ splitLines s, (10 : CU) ∉ l) ∧ joinLines (splitLines s) = s := by
  induction s with
  | nil => simp [splitLines, joinLines]
  | cons c r ih =>
    simp only [splitLines]
    by_cases hc : c = 10
    · subst hc
      simp only [↓reduceIte]
      constructor
      · intro l hl
        rcases List.mem_cons.mp hl with h | h
        · subst h; simp
        · exact ih.1 l h
      · have hne := splitLines_ne_nil r
        match hs : splitLines r, hne with
        | l :: ls, _ =>
          rw [hs] at ih
          simp only [joinLines, List.nil_append]
          rw [ih.2]
    · simp only [hc, ↓reduceIte]
      have hne := splitLines_ne_nil r
      match hs : splitLines r, hne with
      | l :: ls, _ =>
        rw [hs] at ih
        simp only
        constructor
        · intro x hx
          rcases List.mem_cons.mp hx with h | h
          · subst h
            intro hm
            rcases List.mem_cons.mp hm with h1 | h1
            · exact hc h1.symm
            · exact ih.1 l (List.mem_cons_self) h1
          · exact ih.1 x (List.mem_cons_of_mem _ h)
        · cases ls with
          | nil =>
            simp only [joinLines] at *
            rw [ih.2]
          | cons l' ls' =>
            simp only [joinLines, List.cons_append] at *
            rw [ih.2]

/-! ### `unfoldLines` over concatenations -/

/-- every line terminated -/
def complete (folded : Bool) : List Str → Str
  | [] => []
  | l :: ls => lineContent folded l ++ complete folded ls

theorem complete_append (folded : Bool) (a b : List Str) :
    complete folded (a ++ b) = complete folded a ++ complete folded b := by
  induction a with
  | nil => rfl
  | cons l ls ih => simp [complete, ih]

theorem unfoldLines_append (folded : Bool) (a b : List Str) (hb : b ≠ []) :
    unfoldLines folded (a ++ b) = complete folded a ++ unfoldLines folded b := by
  induction a with
  | nil => rfl
  | cons l ls ih =>
    cases hls : ls ++ b with
    | nil => simp at hls; exact absurd hls.2 hb
    | cons x xs =>
      simp only [List.cons_append, hls, unfoldLines, complete]
      rw [← hls, ih]
      simp

theorem unfoldLines_snoc (folded : Bool) (a : List Str) (l : Str) :
    unfoldLines folded (a ++ [l]) = complete folded a ++ l := by
  rw [unfoldLines_append _ _ _ (by simp)]; rfl

/-! ### the segments of one logical line -/

/-- the prefix units that `write_text` puts in front of every non-empty physical line -/
def pfx (pre : Bool) : Str := if pre then PREFIX else []

theorem pfx_noEol (pre : Bool) : NoEol (pfx pre) := by
  intro c hc
  cases pre <;> simp [pfx, PREFIX] at hc
  rcases hc with h | h <;> subst h <;> decide

theorem noEol_of_no10_no13 {l : Str} (h10 : (10 : CU) ∉ l) (h13 : (13 : CU) ∉ l) : NoEol l := by
  intro c hc
  constructor
  · intro h; subst h; exact h10 hc
  · intro h; subst h; exact h13 hc

theorem printfS_take (len : Nat) (tok : Str) (h : len ≤ tok.length) : printfS len tok = tok.take len := by
  unfold printfS
  have : len - tok.length = 0 := by omega
  simp [this]

theorem segLines_nil (fold pre protect : Bool) (target fuel : Nat) :
    segLines fold pre protect target fuel [] = .ok [] := by
  cases fuel <;> rfl

/-- The physical lines of one non-empty logical line `tok` (folding on): all but the last are folded segments; the
    last one carries the rest (and the protecting separator when `protect`).  Together they spell `tok`. -/
theorem segLines_fold (pre protect : Bool) (target : Nat) :
    ∀ (fuel : Nat) (tok : Str) (ps : List Str), tok ≠ [] → tok.length ≤ fuel → NoEol tok →
      segLines true pre protect target fuel tok = .ok ps →
      ∃ (init : List Str) (lastSeg : Str),
        ps = init ++ [pfx pre ++ lastSeg ++ (if protect then BSL else [])] ∧
        complete true (init.map (stripPrefix (pfx pre))) ++ lastSeg = tok ∧
        (∀ p ∈ ps, NoEol p) := by
  intro fuel
  induction fuel with
  | zero => intro tok ps hne hlen; cases tok <;> simp_all
  | succ f ih =>
    intro tok ps hne hlen hno h
    cases tok with
    | nil => exact absurd rfl hne
    | cons c cs =>
      simp only [segLines] at h
      generalize hl : foldLine (c :: cs) true target WINDOW pre = len at h
      have hle : len ≤ (c :: cs).length := hl ▸ foldLine_le _ _ _ _ _
      by_cases h0 : len = 0
      · simp [h0] at h
      · simp only [h0, ↓reduceIte] at h
        have hpr := printfS_take len (c :: cs) hle
        rw [hpr] at h
        have htake_no : NoEol ((c :: cs).take len) := fun x hx => hno x (List.mem_of_mem_take hx)
        by_cases hmore : len < (c :: cs).length
        · -- a folded segment followed by further segments
          have hdrop_ne : (c :: cs).drop len ≠ [] := by
            intro hd
            have := congrArg List.length hd
            simp only [List.length_drop, List.length_nil] at this
            omega
          have hdrop_len : ((c :: cs).drop len).length ≤ f := by
            simp only [List.length_drop, List.length_cons] at *
            omega
          have hdrop_no : NoEol ((c :: cs).drop len) := fun x hx => hno x (List.mem_of_mem_drop hx)
          cases hr : segLines true pre protect target f ((c :: cs).drop len) with
          | error e => simp [hr] at h
          | ok rest =>
            simp only [hr, hmore, decide_true, Bool.true_or, ↓reduceIte] at h
            obtain ⟨init, lastSeg, hps, hcat, hnoe⟩ := ih _ rest hdrop_ne hdrop_len hdrop_no hr
            cases h
            refine ⟨(pfx pre ++ (c :: cs).take len ++ BSL) :: init, lastSeg, ?_, ?_, ?_⟩
            · simp [hps, pfx]
            · simp only [List.map_cons, complete]
              have : stripPrefix (pfx pre) (pfx pre ++ List.take len (c :: cs) ++ BSL)
                  = List.take len (c :: cs) ++ [92] := by
                rw [List.append_assoc, stripPrefix_append]; rfl
              rw [this, lineContent_fold, List.append_assoc, hcat, List.take_append_drop]
            · intro p hp
              rcases List.mem_cons.mp hp with h1 | h1
              · subst h1
                exact (NoEol.append (NoEol.append (pfx_noEol pre) htake_no) (by intro x hx; simp [BSL] at hx; subst hx; decide))
              · exact hnoe p h1
        · -- the last segment
          have hlen_eq : len = (c :: cs).length := by omega
          have hdrop : (c :: cs).drop len = [] := by
            rw [hlen_eq]; exact List.drop_length
          rw [hdrop, segLines_nil] at h
          simp only [hmore, decide_false, Bool.false_or] at h
          cases h
          have htake : (c :: cs).take len = c :: cs := by rw [hlen_eq]; exact List.take_length
          refine ⟨[], c :: cs, ?_, ?_, ?_⟩
          · simp [htake, pfx]
          · simp [complete]
          · intro p hp
            simp only [List.mem_singleton] at hp
            subst hp
            rw [htake]
            apply NoEol.append (NoEol.append (pfx_noEol pre) hno)
            cases protect
            · exact NoEol.nil
            · intro x hx; simp [BSL] at hx; subst hx; decide

/-- folding off: one physical line, the prefix and the whole logical line -/
theorem segLines_nofold (pre : Bool) (target : Nat) (fuel : Nat) (tok : Str) (ps : List Str)
    (hne : tok ≠ []) (hlen : tok.length ≤ fuel)
    (h : segLines false pre false target fuel tok = .ok ps) : ps = [pfx pre ++ tok] := by
  cases fuel with
  | zero => cases tok <;> simp_all
  | succ f =>
    cases tok with
    | nil => exact absurd rfl hne
    | cons c cs =>
      simp only [segLines, foldLine] at h
      simp only [↓reduceIte, List.length_cons, Nat.add_one_ne_zero, Nat.lt_irrefl, decide_false,
        Bool.or_self, Bool.false_eq_true, List.append_nil] at h
      have : List.drop (cs.length + 1) (c :: cs) = [] := by
        have := List.drop_length (l := c :: cs)
        simpa using this
      rw [this, segLines_nil] at h
      cases h
      have hp := printfS_take (cs.length + 1) (c :: cs) (by simp)
      rw [hp]
      have : List.take (cs.length + 1) (c :: cs) = c :: cs := by
        have := List.take_length (l := c :: cs)
        simpa using this
      rw [this]
      rfl

/-! ### one logical line, all logical lines -/

theorem stripPrefix_pfx_nil (pre : Bool) : stripPrefix (pfx pre) [] = [] := by
  cases pre <;> simp [stripPrefix, pfx, PREFIX]

theorem lineContent_nil (folded : Bool) : lineContent folded [] = [10] := by
  simp [lineContent, Spec.TextProtocol.endsBslBlank]

/-- The physical lines `Q` of one logical line `l`: terminated, they decode to `l` + LF; as the end of the body, to `l`. -/
theorem logicalLinePhys_spec (fold pre : Bool) (hfp : fold = true ∨ pre = true) (target : Nat) (l : Str) (Q : List Str)
    (hno : NoEol l) (h : logicalLinePhys fold pre target l = .ok Q) :
    Q ≠ [] ∧ (∀ p ∈ Q, NoEol p) ∧
    complete fold (Q.map (stripPrefix (pfx pre))) = l ++ [10] ∧
    unfoldLines fold (Q.map (stripPrefix (pfx pre))) = l := by
  cases l with
  | nil =>
    simp only [logicalLinePhys] at h
    cases h
    refine ⟨by simp, ?_, ?_, ?_⟩
    · intro p hp; simp at hp; subst hp; exact NoEol.nil
    · simp [complete, stripPrefix_pfx_nil, lineContent_nil]
    · simp [unfoldLines, stripPrefix_pfx_nil]
  | cons c cs =>
    simp only [logicalLinePhys] at h
    cases fold with
    | false =>
      simp only [Bool.false_and, List.length_cons] at h
      cases hs : segLines false pre false target (cs.length + 1) (c :: cs) with
      | error e => simp [hs] at h
      | ok ps =>
        simp only [hs, Bool.false_eq_true, ↓reduceIte, List.append_nil] at h
        cases h
        have := segLines_nofold pre target (cs.length + 1) (c :: cs) Q (by simp) (by simp) hs
        subst this
        refine ⟨by simp, ?_, ?_, ?_⟩
        · intro p hp; simp at hp; subst hp; exact NoEol.append (pfx_noEol pre) hno
        · simp [complete, stripPrefix_append, lineContent]
        · simp [unfoldLines, stripPrefix_append]
    | true =>
      simp only [Bool.true_and, List.length_cons] at h
      generalize hprot : endsBslBlank (c :: cs) = protect at h
      cases hs : segLines true pre protect target (cs.length + 1) (c :: cs) with
      | error e => simp [hs] at h
      | ok ps =>
        simp only [hs] at h
        cases h
        obtain ⟨init, lastSeg, hps, hcat, hnoe⟩ :=
          segLines_fold pre protect target _ (c :: cs) ps (by simp) (by simp) hno hs
        subst hps
        cases protect with
        | true =>
          refine ⟨by simp, ?_, ?_, ?_⟩
          · intro p hp
            rcases List.mem_append.mp hp with h1 | h1
            · exact hnoe p h1
            · simp at h1; subst h1; exact NoEol.nil
          · simp only [↓reduceIte, List.map_append, List.map_cons, List.map_nil, complete_append, complete,
              stripPrefix_pfx_nil, lineContent_nil, List.append_nil]
            have : stripPrefix (pfx pre) (pfx pre ++ lastSeg ++ BSL) = lastSeg ++ [92] := by
              rw [List.append_assoc, stripPrefix_append]; rfl
            rw [this, lineContent_fold, hcat]
          · simp only [↓reduceIte, List.map_append, List.map_cons, List.map_nil, stripPrefix_pfx_nil]
            rw [unfoldLines_snoc, complete_append]
            simp only [complete, List.append_nil]
            have : stripPrefix (pfx pre) (pfx pre ++ lastSeg ++ BSL) = lastSeg ++ [92] := by
              rw [List.append_assoc, stripPrefix_append]; rfl
            rw [this, lineContent_fold, hcat]
        | false =>
          -- the last segment of an unprotected line does not end in a backslash
          have hlast : Spec.TextProtocol.endsBslBlank lastSeg = false := by
            have hl : Spec.TextProtocol.endsBslBlank (c :: cs) = false := by rw [← endsBslBlank_eq]; exact hprot
            rw [← hcat, sp_endsBslBlank_append] at hl
            cases hb : Spec.TextProtocol.endsBslBlank lastSeg
            · rfl
            · rw [hb] at hl; simp at hl
          have hstrip : stripPrefix (pfx pre) (pfx pre ++ lastSeg ++ []) = lastSeg := by
            rw [List.append_nil, stripPrefix_append]
          refine ⟨by simp, ?_, ?_, ?_⟩
          · intro p hp
            simp only [Bool.false_eq_true, ↓reduceIte, List.append_nil] at hp
            exact hnoe p (by simpa using hp)
          · simp only [Bool.false_eq_true, ↓reduceIte, List.append_nil, List.map_append, List.map_cons, List.map_nil,
              complete_append, complete]
            rw [List.append_nil] at hstrip
            rw [hstrip, lineContent_plain true lastSeg (by simp [hlast]), ← List.append_assoc, hcat]
          · simp only [Bool.false_eq_true, ↓reduceIte, List.append_nil, List.map_append, List.map_cons, List.map_nil]
            rw [List.append_nil] at hstrip
            rw [unfoldLines_snoc, hstrip, hcat]

/-- All logical lines: the physical lines decode to the lines joined by LF. -/
theorem textPhys_spec (fold pre : Bool) (hfp : fold = true ∨ pre = true) (target : Nat) :
    ∀ (ls : List Str) (Q : List Str), ls ≠ [] → (∀ l ∈ ls, NoEol l) →
      textPhys fold pre target ls = .ok Q →
      Q ≠ [] ∧ (∀ p ∈ Q, NoEol p) ∧ unfoldLines fold (Q.map (stripPrefix (pfx pre))) = joinLines ls := by
  intro ls
  induction ls with
  | nil => intro Q h; exact absurd rfl h
  | cons l rest ih =>
    intro Q _ hno h
    simp only [textPhys] at h
    cases h1 : logicalLinePhys fold pre target l with
    | error e => simp [h1] at h
    | ok ps =>
      cases h2 : textPhys fold pre target rest with
      | error e => simp [h1, h2] at h
      | ok qs =>
        simp only [h1, h2] at h
        cases h
        obtain ⟨hne, hnoe, hcomp, hunf⟩ :=
          logicalLinePhys_spec fold pre hfp target l ps (hno l List.mem_cons_self) h1
        cases rest with
        | nil =>
          simp only [textPhys] at h2
          cases h2
          refine ⟨by simpa using hne, ?_, ?_⟩
          · simpa using hnoe
          · simpa [joinLines] using hunf
        | cons l' rest' =>
          obtain ⟨hne2, hnoe2, hunf2⟩ :=
            ih qs (by simp) (fun x hx => hno x (List.mem_cons_of_mem _ hx)) h2
          refine ⟨by simp [hne], ?_, ?_⟩
          · intro p hp
            rcases List.mem_append.mp hp with h3 | h3
            · exact hnoe p h3
            · exact hnoe2 p h3
          · rw [List.map_append, unfoldLines_append _ _ _ (by simpa using hne2), hcomp, hunf2]
            simp [joinLines]

theorem splitLines_mem (s : Str) : ∀ l ∈ splitLines s, ∀ x ∈ l, x ∈ s := by
  induction s with
  | nil => intro l hl x hx; simp [splitLines] at hl; subst hl; simp at hx
  | cons c r ih =>
    intro l hl x hx
    simp only [splitLines] at hl
    by_cases hc : c = 10
    · simp only [hc, ↓reduceIte] at hl
      rcases List.mem_cons.mp hl with h | h
      · subst h; simp at hx
      · exact List.mem_cons_of_mem _ (ih l h x hx)
    · simp only [hc, ↓reduceIte] at hl
      have hne := splitLines_ne_nil r
      match hs : splitLines r, hne with
      | l0 :: ls, _ =>
        rw [hs] at hl ih
        simp only at hl
        rcases List.mem_cons.mp hl with h | h
        · subst h
          rcases List.mem_cons.mp hx with h1 | h1
          · subst h1; exact List.mem_cons_self
          · exact List.mem_cons_of_mem _ (ih l0 List.mem_cons_self x h1)
        · exact List.mem_cons_of_mem _ (ih l (List.mem_cons_of_mem _ h) x hx)

/-! ### the segment loop never gives up where semicolons are harmless -/

open CifModel.Lemmas.WriterFold (foldLine_pos) in
theorem segLines_ok (fold pre protect : Bool) (target : Nat) (hwt : WINDOW < target) :
    ∀ (fuel : Nat) (tok : Str), (pre = true ∨ (59 : CU) ∉ tok) →
      ∃ ps, segLines fold pre protect target fuel tok = .ok ps := by
  intro fuel
  induction fuel with
  | zero => intro tok _; exact ⟨[], rfl⟩
  | succ f ih =>
    intro tok hsemi
    cases tok with
    | nil => exact ⟨[], rfl⟩
    | cons c cs =>
      simp only [segLines]
      have hpos := foldLine_pos (c :: cs) fold target WINDOW pre (by simp) (by decide) hwt hsemi
      have h0 : foldLine (c :: cs) fold target WINDOW pre ≠ 0 := by omega
      simp only [h0, ↓reduceIte]
      have hsemi' : pre = true ∨ (59 : CU) ∉ (c :: cs).drop (foldLine (c :: cs) fold target WINDOW pre) := by
        rcases hsemi with h | h
        · left; exact h
        · right; intro hm; exact h (List.mem_of_mem_drop hm)
      obtain ⟨rest, hr⟩ := ih _ hsemi'
      rw [hr]
      exact ⟨_, rfl⟩

theorem textPhys_ok (fold pre : Bool) (target : Nat) (hwt : WINDOW < target) :
    ∀ (ls : List Str), (pre = true ∨ ∀ l ∈ ls, (59 : CU) ∉ l) → ∃ Q, textPhys fold pre target ls = .ok Q := by
  intro ls
  induction ls with
  | nil => intro _; exact ⟨[], rfl⟩
  | cons l rest ih =>
    intro hsemi
    have hl : pre = true ∨ (59 : CU) ∉ l := by
      rcases hsemi with h | h
      · left; exact h
      · right; exact h l List.mem_cons_self
    have hrest : pre = true ∨ ∀ x ∈ rest, (59 : CU) ∉ x := by
      rcases hsemi with h | h
      · left; exact h
      · right; exact fun x hx => h x (List.mem_cons_of_mem _ hx)
    obtain ⟨qs, hq⟩ := ih hrest
    simp only [textPhys, hq]
    cases l with
    | nil => exact ⟨_, rfl⟩
    | cons c cs =>
      simp only [logicalLinePhys]
      obtain ⟨ps, hp⟩ := segLines_ok fold pre (fold && endsBslBlank (c :: cs)) target hwt (c :: cs).length (c :: cs) hl
      rw [hp]
      exact ⟨_, rfl⟩

end CifModel.Lemmas.WriterText
