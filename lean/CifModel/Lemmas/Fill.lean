import CifModel.Model.Fill
import CifModel.Lemmas.FillSpec
/-
  Lemmas tying the fill functions of Model.Fill (get_first_char / get_more_chars as the C computes them: two conversion
  phases, `nread` arithmetic, pending-CR flag, read loop) to the EOL normal form of Spec.Eol.
-/
namespace CifModel.Model.Fill
open CifModel.Spec.Eol

/-! ### the character source -/

theorem Src.read_spec (s : Src) (count : Nat) (hok : s.ok) (hc : 1 ≤ count) :
    s.flat = (s.read count).1 ++ (s.read count).2.flat ∧ (s.read count).2.ok ∧
    ((s.read count).1 = [] → s.flat = [] ∧ (s.read count).2 = s) := by
  obtain ⟨rest⟩ := s
  cases rest with
  | nil => simp [Src.read, Src.flat, Src.ok]
  | cons c cs =>
    have hc0 : c ≠ [] := hok c (by simp)
    have hcs : ∀ x ∈ cs, x ≠ [] := fun x hx => hok x (by simp [hx])
    unfold Src.read
    by_cases hl : c.length ≤ count
    · simp only [hl, if_true]
      refine ⟨by simp [Src.flat], hcs, fun h => absurd h hc0⟩
    · simp only [hl, if_false]
      refine ⟨by simp [Src.flat, ← List.append_assoc], ?_, ?_⟩
      · intro x hx
        rcases List.mem_cons.mp hx with h | h
        · subst h
          intro h0
          have h0' : (c.drop count).length = 0 := by rw [h0]; rfl
          rw [List.length_drop] at h0'; omega
        · exact hcs x h
      · intro h
        have h0' : (c.take count).length = 0 := by rw [h]; rfl
        rw [List.length_take] at h0'
        have : c.length = 0 := by omega
        exact absurd (List.length_eq_zero_iff.mp this) hc0

/-! ### conversion of one fill -/

theorem scanToCrLf_cr_lf (r : Str) : scanToCrLf (13 :: 10 :: r) = ([], some (10 :: r)) := by
  simp [scanToCrLf]

theorem scanToCrLf_cr (r : Str) (h : r.head? ≠ some 10) :
    scanToCrLf (13 :: r) = (10 :: (scanToCrLf r).1, (scanToCrLf r).2) := by
  simp [scanToCrLf, h]

theorem scanToCrLf_other (c : CU) (r : Str) (h : c ≠ 13) :
    scanToCrLf (c :: r) = (c :: (scanToCrLf r).1, (scanToCrLf r).2) := by
  simp [scanToCrLf, h]

/-- no CR LF in the fill: the units passed over (bare CRs overwritten) are the normal form; nothing moves -/
theorem scanToCrLf_none (l : Str) (h : (scanToCrLf l).2 = none) :
    normFrom false l = (scanToCrLf l).1 ∧ (scanToCrLf l).1.length = l.length := by
  induction l with
  | nil => simp [scanToCrLf, normFrom_nil]
  | cons c r ih =>
    by_cases hc : c = 13
    · subst hc
      by_cases hh : r.head? = some 10
      · cases r with
        | nil => simp at hh
        | cons d ds =>
          have hd : d = 10 := by simpa using hh
          subst hd
          rw [scanToCrLf_cr_lf] at h; simp at h
      · rw [scanToCrLf_cr r hh] at h ⊢
        have := ih h
        refine ⟨?_, by simp [this.2]⟩
        rw [normFrom_cons]; simp only [if_true]
        rw [normFrom_true_of_head r hh, this.1]
    · rw [scanToCrLf_other c r hc] at h ⊢
      have := ih h
      refine ⟨?_, by simp [this.2]⟩
      rw [normFrom_cons]
      simp only [hc, if_false, Bool.false_eq_true, and_false]
      rw [this.1]

/-- a CR LF was found: the units passed over are final, and the remaining `trail` (which starts with the LF of the pair)
    is still to be normalised *as if no CR preceded it* — the pair's CR is gone -/
theorem scanToCrLf_some (l r' : Str) (h : (scanToCrLf l).2 = some r') :
    normFrom false l = (scanToCrLf l).1 ++ normFrom false r' ∧
    l.length = (scanToCrLf l).1.length + 1 + r'.length ∧ r' ≠ [] := by
  induction l with
  | nil => simp [scanToCrLf] at h
  | cons c r ih =>
    by_cases hc : c = 13
    · subst hc
      by_cases hh : r.head? = some 10
      · cases r with
        | nil => simp at hh
        | cons d ds =>
          have hd : d = 10 := by simpa using hh
          subst hd
          rw [scanToCrLf_cr_lf] at h ⊢
          have hr : r' = 10 :: ds := by simpa using h.symm
          subst hr
          refine ⟨?_, by simp; omega, by simp⟩
          rw [normFrom_cons]; simp only [if_true]
          rw [normFrom_true_lf, normFrom_false_lf]; simp
      · rw [scanToCrLf_cr r hh] at h ⊢
        have := ih h
        refine ⟨?_, by simp; omega, this.2.2⟩
        rw [normFrom_cons]; simp only [if_true]
        rw [normFrom_true_of_head r hh, this.1]; simp
    · rw [scanToCrLf_other c r hc] at h ⊢
      have := ih h
      refine ⟨?_, by simp; omega, this.2.2⟩
      rw [normFrom_cons]
      simp only [hc, if_false, Bool.false_eq_true, and_false]
      rw [this.1]; simp

/-- the second phase appends the normal form of `trail`, and `nread` ends up equal to the number of units written -/
theorem compact_spec (fuel : Nat) (out : Str) (nread : Nat) (trail : Str)
    (hf : trail.length ≤ fuel) (ht : trail ≠ []) (hn : nread = out.length + 1 + trail.length) :
    (compact fuel out nread trail).1 = out ++ normFrom false trail ∧
    (compact fuel out nread trail).2 = (compact fuel out nread trail).1.length := by
  induction fuel generalizing out nread trail with
  | zero =>
    have : trail.length = 0 := by omega
    exact absurd (List.length_eq_zero_iff.mp this) ht
  | succ fuel ih =>
    unfold compact
    cases hp : (scanToCrLf trail).2 with
    | none =>
      have hs := scanToCrLf_none trail hp
      simp only [hp]
      refine ⟨by rw [hs.1], ?_⟩
      rw [List.length_append, hs.2]; omega
    | some rest =>
      have hs := scanToCrLf_some trail rest hp
      simp only [hp]
      have hlen := hs.2.1
      have := ih (out ++ (scanToCrLf trail).1) (nread - 1) rest (by omega) hs.2.2
        (by rw [List.length_append]; omega)
      rw [this.2]
      refine ⟨?_, rfl⟩
      rw [this.1, hs.1]; simp

/-- **conversion of a fill**: the units the scanner will regard as valid are exactly the normal form of the fill — no
    stale unit, none lost (this is where a wrong `nread` would show) -/
theorem validUnits_eq (fill : Str) : validUnits fill = normFrom false fill := by
  unfold validUnits convertFill
  cases hp : (scanToCrLf fill).2 with
  | none =>
    have hs := scanToCrLf_none fill hp
    simp only [hp]
    rw [hs.1, ← hs.2, List.take_length]
  | some rest =>
    have hs := scanToCrLf_some fill rest hp
    simp only [hp]
    have hlen := hs.2.1
    have hc := compact_spec fill.length (scanToCrLf fill).1 fill.length rest (by omega) hs.2.2 (by omega)
    rw [hc.2, List.take_left', hc.1, hs.1]
    rfl

/-! ### the read loop -/

/-- what one `readLoop` does to the source: it removes a prefix `consumed` whose normal form (from the pending flag) is
    the normal form of the fill it returns, and leaves the flag the prefix leaves -/
theorem readLoop_spec (pend : Bool) (count : Nat) (src : Src) (hok : src.ok) (hc : 1 ≤ count) :
    ∃ consumed,
      src.flat = consumed ++ (readLoop 2 pend count src).2.2.flat ∧
      normFrom pend consumed = normFrom false (readLoop 2 pend count src).1 ∧
      flagAfter pend consumed = (readLoop 2 pend count src).2.1 ∧
      (readLoop 2 pend count src).2.2.ok ∧
      ((readLoop 2 pend count src).1 = [] → (readLoop 2 pend count src).2.2.flat = []) := by
  have h1 := Src.read_spec src count hok hc
  unfold readLoop
  by_cases he : (src.read count).1 = []
  · simp only [he, if_true]
    refine ⟨[], ?_, rfl, rfl, h1.2.1, fun _ => ?_⟩
    · rw [(h1.2.2 he).2]; simp
    · rw [(h1.2.2 he).2]; exact (h1.2.2 he).1
  · simp only [he, if_false]
    have hflag : flagAfter pend (src.read count).1 = ((src.read count).1.getLast? == some 13) :=
      flagAfter_getLast pend _ he
    by_cases hd : (pend && ((src.read count).1.head? == some 10)) = true
    · simp only [hd, if_true]
      have hpend : pend = true := by simp at hd; exact hd.1
      have hhead : (src.read count).1.head? = some 10 := by simp at hd; exact hd.2
      subst hpend
      obtain ⟨t, ht⟩ : ∃ t, (src.read count).1 = 10 :: t := by
        cases hr : (src.read count).1 with
        | nil => exact absurd hr he
        | cons a t => rw [hr] at hhead; simp at hhead; exact ⟨t, by rw [hhead]⟩
      by_cases htl : (src.read count).1.tail = []
      · simp only [htl, if_true]
        have ht0 : t = [] := by rw [ht] at htl; simpa using htl
        subst ht0
        -- second iteration: the flag is now false
        have hp' : ((src.read count).1.getLast? == some 13) = false := by rw [ht]; decide
        rw [hp']
        have h2 := Src.read_spec (src.read count).2 count h1.2.1 hc
        unfold readLoop
        by_cases he2 : ((src.read count).2.read count).1 = []
        · simp only [he2, if_true]
          refine ⟨[10], ?_, by rw [normFrom_true_lf], by decide, h2.2.1, fun _ => ?_⟩
          · rw [h1.1, ht, (h2.2.2 he2).2]
          · rw [(h2.2.2 he2).2]; exact (h2.2.2 he2).1
        · simp only [he2, if_false, Bool.false_and, Bool.false_eq_true]
          refine ⟨10 :: ((src.read count).2.read count).1, ?_, ?_, ?_, h2.2.1, fun h => by first | exact absurd h he2 | exact False.elim h⟩
          · rw [h1.1, ht, h2.1]; simp
          · rw [normFrom_true_lf]
          · rw [flagAfter_cons]
            exact flagAfter_getLast _ _ he2
      · simp only [htl, if_false]
        refine ⟨(src.read count).1, h1.1, ?_, hflag, h1.2.1, fun h => by first | exact absurd h htl | exact False.elim h⟩
        rw [ht, normFrom_true_lf]; rfl
    · simp only [hd, if_false, Bool.false_eq_true]
      refine ⟨(src.read count).1, h1.1, ?_, hflag, h1.2.1, fun h => by first | exact absurd h he | exact False.elim h⟩
      cases pend with
      | false => rfl
      | true =>
        apply normFrom_true_of_head
        intro hh; apply hd; simp [hh]

/-- more fuel changes nothing: after the iteration that swallowed a lone pending LF the flag is false, so the loop ends -/
theorem readLoop_fuel (fuel : Nat) (pend : Bool) (count : Nat) (src : Src) :
    readLoop (fuel + 2) pend count src = readLoop 2 pend count src := by
  unfold readLoop
  by_cases he : (src.read count).1 = []
  · simp [he]
  · simp only [he, if_false]
    by_cases hd : (pend && ((src.read count).1.head? == some 10)) = true
    · simp only [hd, if_true]
      by_cases htl : (src.read count).1.tail = []
      · simp only [htl, if_true]
        have hp' : ((src.read count).1.getLast? == some 13) = false := by
          cases hr : (src.read count).1 with
          | nil => exact absurd hr he
          | cons a t =>
            rw [hr] at htl hd
            have : t = [] := by simpa using htl
            subst this
            have : a = 10 := by simp at hd; exact hd.2
            subst this; decide
        rw [hp']
        unfold readLoop
        by_cases he2 : ((src.read count).2.read count).1 = []
        · simp [he2]
        · simp [he2]
      · simp [htl]
    · simp [hd]

/-! ### get_more_chars and its iteration -/

/-- the invariant carried from call to call: the units appended so far, followed by the normal form (from the pending
    flag) of what the source still holds, are the normal form of what the source held before -/
theorem getMoreChars_spec (st : FillSt) (count : Nat) (src : Src) (hok : src.ok) (hc : 1 ≤ count) :
    (getMoreChars st count src).1 ++ normFrom (getMoreChars st count src).2.1.crPending (getMoreChars st count src).2.2.flat
      = normFrom st.crPending src.flat ∧
    (getMoreChars st count src).2.2.ok ∧
    ((st.atEof = true → src.flat = []) →
      (getMoreChars st count src).2.1.atEof = true → (getMoreChars st count src).2.2.flat = []) := by
  unfold getMoreChars
  by_cases ha : st.atEof = true
  · simp only [ha, if_true]
    exact ⟨by simp, hok, fun h _ => by first | exact h rfl | exact h trivial⟩
  · simp only [ha, if_false, Bool.false_eq_true]
    obtain ⟨consumed, h1, h2, h3, h4, h5⟩ := readLoop_spec st.crPending count src hok hc
    by_cases he : (readLoop 2 st.crPending count src).1 = []
    · simp only [he, if_true]
      refine ⟨?_, h4, fun _ _ => h5 he⟩
      rw [h1, normFrom_append, h2, he, h3, h5 he]
      simp [normFrom_nil]
    · simp only [he, if_false]
      refine ⟨?_, h4, fun _ h => by simp at h⟩
      rw [validUnits_eq, h1, normFrom_append, h2, h3]

theorem runMore_spec (counts : List Nat) (st : FillSt) (src : Src) (hok : src.ok) (hc : ∀ n ∈ counts, 1 ≤ n) :
    (runMore counts st src).1 ++ normFrom (runMore counts st src).2.1.crPending (runMore counts st src).2.2.flat
      = normFrom st.crPending src.flat ∧
    ((st.atEof = true → src.flat = []) →
      (runMore counts st src).2.1.atEof = true → (runMore counts st src).2.2.flat = []) := by
  induction counts generalizing st src with
  | nil => exact ⟨by simp [runMore], fun h h2 => h h2⟩
  | cons n ns ih =>
    have hn : 1 ≤ n := hc n (by simp)
    have hns : ∀ m ∈ ns, 1 ≤ m := fun m hm => hc m (by simp [hm])
    have g := getMoreChars_spec st n src hok hn
    unfold runMore
    by_cases he : (getMoreChars st n src).2.1.atEof = true
    · simp only [he, if_true]
      exact ⟨g.1, fun h _ => g.2.2 h he⟩
    · simp only [he, if_false, Bool.false_eq_true]
      have r := ih (getMoreChars st n src).2.1 (getMoreChars st n src).2.2 g.2.1 hns
      refine ⟨?_, fun _ h2 => r.2 (fun h => absurd h he) h2⟩
      rw [List.append_assoc, r.1, g.1]

/-- if the calls go on until the end of the input is detected, everything has been handed over -/
theorem runMore_complete (counts : List Nat) (st : FillSt) (src : Src) (hok : src.ok) (hc : ∀ n ∈ counts, 1 ≤ n)
    (h0 : st.atEof = true → src.flat = []) (hend : (runMore counts st src).2.1.atEof = true) :
    (runMore counts st src).1 = normFrom st.crPending src.flat := by
  have r := runMore_spec counts st src hok hc
  have := r.2 h0 hend
  rw [this] at r
  simpa [normFrom_nil] using r.1

end CifModel.Model.Fill
