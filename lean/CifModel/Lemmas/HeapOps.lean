import CifModel.Lemmas.Heap
/-
  Lemmas about Model/Heap, level B: the list-cell protocol (insert with capacity growth, remove with transfer of
  ownership) and the map-entry protocol (key / key_orig aliasing, detaching an entry for the caller, creation).
-/
namespace CifModel.Model.Heap
open CifModel

/-! ### element lists -/

theorem RepElems_length (h : Heap) (vs : List V) (xs : List Nat) (F : List Nat) (hr : RepElems h xs vs F) :
    xs.length = vs.length := by
  induction vs generalizing xs F with
  | nil => simp only [RepElems] at hr; simp [hr.1]
  | cons v vs ih =>
    simp only [RepElems] at hr
    obtain ⟨x, xs', hv, F1, F2, rfl, _, _, hrest, _, _, _⟩ := hr
    simp [ih xs' F2 hrest]

/-- inserting a new, separately owned element object into a represented element list -/
theorem RepElems_insert (h : Heap) (vs : List V) (xs : List Nat) (F : List Nat) (i : Nat) (c : Nat) (hvc : HVal) (x : V)
    (Fc : List Nat) (hr : RepElems h xs vs F) (hc : h.cell c = some (.val hvc)) (hrc : Rep h hvc x Fc) (hcF : c ∉ Fc)
    (hdis : disjoint (Fc ++ [c]) F) (hi : i ≤ vs.length) :
    ∃ F', RepElems h (xs.insertIdx i c) (vs.insertIdx i x) F' ∧ ∀ a, a ∈ F' ↔ (a ∈ F ∨ a ∈ Fc ∨ a = c) := by
  induction vs generalizing xs F i with
  | nil =>
    simp only [RepElems] at hr
    obtain ⟨rfl, rfl⟩ := hr
    have : i = 0 := by simpa using hi
    subst this
    refine ⟨Fc ++ [c] ++ [], ?_, ?_⟩
    · simp only [List.insertIdx_zero]
      rw [RepElems]
      exact ⟨c, [], hvc, Fc, [], rfl, hc, hrc, by simp [RepElems], hcF, (fun _ _ h => by cases h), rfl⟩
    · intro a; simp
  | cons v vs ih =>
    cases i with
    | zero =>
      refine ⟨Fc ++ [c] ++ F, ?_, ?_⟩
      · simp only [List.insertIdx_zero]
        rw [RepElems]
        exact ⟨c, xs, hvc, Fc, F, rfl, hc, hrc, hr, hcF, hdis, rfl⟩
      · intro a; simp only [List.mem_append, List.mem_singleton]; constructor
        · rintro ((h1 | h1) | h1)
          · exact Or.inr (Or.inl h1)
          · exact Or.inr (Or.inr h1)
          · exact Or.inl h1
        · rintro (h1 | h1 | h1)
          · exact Or.inr h1
          · exact Or.inl (Or.inl h1)
          · exact Or.inl (Or.inr h1)
    | succ i =>
      simp only [RepElems] at hr
      obtain ⟨x0, xs', hv0, F1, F2, rfl, hx0, hrep0, hrest, hx0F, hd0, rfl⟩ := hr
      have hdis2 : disjoint (Fc ++ [c]) F2 := fun a ha hb => hdis a ha (by simp [hb])
      obtain ⟨F2', hrep', hmem'⟩ := ih xs' F2 i hrest hdis2 (by simpa using hi)
      refine ⟨F1 ++ [x0] ++ F2', ?_, ?_⟩
      · simp only [List.insertIdx_succ_cons]
        rw [RepElems]
        refine ⟨x0, xs'.insertIdx i c, hv0, F1, F2', rfl, hx0, hrep0, hrep', hx0F, ?_, rfl⟩
        intro a ha hb
        rcases (hmem' a).mp hb with hb | hb | hb
        · exact hd0 a ha hb
        · exact hdis a (by simp [hb]) (List.mem_append_left _ ha)
        · subst hb; exact hdis a (by simp) (List.mem_append_left _ ha)
      · intro a
        simp only [List.mem_append, List.mem_singleton, hmem' a]
        constructor
        · rintro (h1 | h1 | h1 | h1)
          · exact Or.inl (Or.inl h1)
          · exact Or.inl (Or.inr h1)
          · exact Or.inr (Or.inl h1)
          · exact Or.inr (Or.inr h1)
        · rintro ((h1 | h1) | h1 | h1)
          · exact Or.inl h1
          · exact Or.inr (Or.inl h1)
          · exact Or.inr (Or.inr (Or.inl h1))
          · exact Or.inr (Or.inr (Or.inr h1))

/-- taking one element object out of a represented element list: the rest is still represented, the element is a
    represented free-standing object, and the two own disjoint blocks that together are the old footprint -/
theorem RepElems_erase (h : Heap) (vs : List V) (xs : List Nat) (F : List Nat) (i : Nat) (hr : RepElems h xs vs F)
    (hi : i < vs.length) :
    ∃ x v hvx Fx F', xs[i]? = some x ∧ vs[i]? = some v ∧ h.cell x = some (.val hvx) ∧ Rep h hvx v Fx ∧ x ∉ Fx
      ∧ RepElems h (xs.eraseIdx i) (vs.eraseIdx i) F' ∧ disjoint (Fx ++ [x]) F'
      ∧ ∀ a, a ∈ F ↔ (a ∈ F' ∨ a ∈ Fx ∨ a = x) := by
  induction vs generalizing xs F i with
  | nil => simp at hi
  | cons v vs ih =>
    simp only [RepElems] at hr
    obtain ⟨x0, xs', hv0, F1, F2, rfl, hx0, hrep0, hrest, hx0F, hd0, rfl⟩ := hr
    cases i with
    | zero =>
      refine ⟨x0, v, hv0, F1, F2, by simp, by simp, hx0, hrep0, hx0F, by simpa using hrest, hd0, ?_⟩
      intro a; simp only [List.mem_append, List.mem_singleton]; constructor
      · rintro ((h1 | h1) | h1)
        · exact Or.inr (Or.inl h1)
        · exact Or.inr (Or.inr h1)
        · exact Or.inl h1
      · rintro (h1 | h1 | h1)
        · exact Or.inr h1
        · exact Or.inl (Or.inl h1)
        · exact Or.inl (Or.inr h1)
    | succ i =>
      obtain ⟨x, w, hvx, Fx, F2', hxi, hvi, hx, hrepx, hxF, hrep', hd', hmem'⟩ := ih xs' F2 i hrest (by simpa using hi)
      refine ⟨x, w, hvx, Fx, F1 ++ [x0] ++ F2', by simpa using hxi, by simpa using hvi, hx, hrepx, hxF, ?_, ?_, ?_⟩
      · simp only [List.eraseIdx_cons_succ]
        rw [RepElems]
        refine ⟨x0, xs'.eraseIdx i, hv0, F1, F2', rfl, hx0, hrep0, hrep', hx0F, ?_, rfl⟩
        intro a ha hb
        exact hd0 a ha ((hmem' a).mpr (Or.inl hb))
      · intro a ha hb
        simp only [List.mem_append, List.mem_singleton] at hb
        rcases hb with (hb | hb) | hb
        · have : a ∈ F2 := (hmem' a).mpr (Or.inr (by simpa using ha))
          exact hd0 a (by simp [hb]) this
        · have : a ∈ F2 := (hmem' a).mpr (Or.inr (by simpa using ha))
          exact hd0 a (by simp [hb]) this
        · exact hd' a ha hb
      · intro a
        simp only [List.mem_append, List.mem_singleton, hmem' a]
        constructor
        · rintro ((h1 | h1) | h1 | h1 | h1)
          · exact Or.inl (Or.inl (Or.inl h1))
          · exact Or.inl (Or.inl (Or.inr h1))
          · exact Or.inl (Or.inr h1)
          · exact Or.inr (Or.inl h1)
          · exact Or.inr (Or.inr h1)
        · rintro (((h1 | h1) | h1) | h1 | h1)
          · exact Or.inl (Or.inl h1)
          · exact Or.inl (Or.inr h1)
          · exact Or.inr (Or.inl h1)
          · exact Or.inr (Or.inr (Or.inl h1))
          · exact Or.inr (Or.inr (Or.inr h1))

/-! ### cif_value_insert_element_at -/

theorem buildNew_spec (v : V) (h : Heap) (hw : h.WF) (c : Nat) (h1 : Heap) (hb : buildNew h v = (c, h1)) :
    Ext h h1 ∧ ∃ hv F, h1.cell c = some (.val hv) ∧ Rep h1 hv v F ∧ c ∉ F ∧ h.next ≤ c ∧ c < h1.next
      ∧ (∀ a, a ∈ F → h.next ≤ a ∧ a < h1.next) ∧ (∀ a, h.next ≤ a → a < h1.next → a ∈ F ∨ a = c) := by
  unfold buildNew at hb
  generalize hbv : buildVal h v = r at hb
  obtain ⟨hv, g⟩ := r
  simp only [alloc, Prod.mk.injEq] at hb
  obtain ⟨rfl, rfl⟩ := hb
  obtain ⟨e1, F, hrep, hrange, hcover⟩ := buildVal_spec v h hw hv g hbv
  have e2 := Ext.alloc g (.val hv) e1.wf
  refine ⟨e1.trans e2, hv, F, by simp, ?_, ?_, e1.le, by simp, ?_, ?_⟩
  · apply Rep_congr g _ v hv F _ hrep
    intro a ha
    have := (hrange a ha).2
    have hne : a ≠ g.next := by omega
    simp [hne]
  · intro hm; have := (hrange _ hm).2; omega
  · intro a ha; have := hrange a ha; simp only []; omega
  · intro a h1' h2'
    simp only [] at h2'
    by_cases hlt : a < g.next
    · exact Or.inl (hcover a h1' hlt)
    · exact Or.inr (by omega)

/-- **insert copies**: `cif_value_insert_element_at` on a represented list never touches a dead block, yields a
    representation of the list with the new element spliced in, allocates the element on fresh blocks (so it shares
    nothing with the value passed in), leaves every block outside the list's footprint untouched, releases every
    block it drops (the old pointer array when the capacity grows) and owns every block it allocates. -/
theorem listInsertH_spec (h : Heap) (hv : HVal) (vs : List V) (F : List Nat) (i : Nat) (x : Option V)
    (hw : h.WF) (hr : Rep h hv (.lst vs) F) (hF : ∀ a, a ∈ F → a < h.next) (hi : i ≤ vs.length) :
    ∃ hv' h' F', listInsertH h hv i x = some (hv', h') ∧ Rep h' hv' (.lst (vs.insertIdx i (x.getD .unk))) F' ∧ h'.WF
      ∧ (∀ a, a ∈ F' → a < h'.next)
      ∧ (∀ a, a < h.next → a ∉ F → h'.cell a = h.cell a)
      ∧ (∀ a, a ∈ F → a ∉ F' → h'.cell a = none)
      ∧ (∀ a, h.next ≤ a → a < h'.next → a ∈ F')
      ∧ (∀ a, a ∈ F' → a ∈ F ∨ h.next ≤ a) := by
  simp only [Rep] at hr
  generalize hbn : buildNew h (x.getD .unk) = r
  obtain ⟨c, h1⟩ := r
  obtain ⟨e1, hvc, Fc, hc, hrc, hcF, hcl, hcu, hrange, hcover⟩ := buildNew_spec (x.getD .unk) h hw c h1 hbn
  rcases hr with ⟨rfl, n, rfl, rfl⟩ | ⟨arr, xs, cap, F1, rfl, harr, hcap, hel, hnot, rfl⟩
  · -- capacity 0: first array of growCap 0 slots
    have hi0 : i = 0 := by simpa using hi
    subst hi0
    have e2 := Ext.alloc h1 (.arr [c] (growCap 0)) e1.wf
    refine ⟨.lst (some h1.next) 1, (alloc h1 (.arr [c] (growCap 0))).2, Fc ++ [c] ++ [] ++ [h1.next], ?_, ?_, e2.wf, ?_, ?_, ?_, ?_, ?_⟩
    · simp [listInsertH, hbn, alloc]
    · simp only [List.insertIdx_zero, Rep]
      refine Or.inr ⟨h1.next, [c], growCap 0, Fc ++ [c] ++ [], rfl, by simp [alloc_cell], by simp [growCap], ?_, ?_, rfl⟩
      · rw [RepElems]
        refine ⟨c, [], hvc, Fc, [], rfl, ?_, ?_, by simp [RepElems], hcF, (fun _ _ hx => by cases hx), rfl⟩
        · rw [alloc_cell_lt h1 _ c hcu]; exact hc
        · apply Rep_congr h1 _ _ hvc Fc _ hrc
          intro a ha; exact alloc_cell_lt h1 _ a (hrange a ha).2
      · intro hm
        simp only [List.append_nil, List.mem_append, List.mem_singleton] at hm
        rcases hm with hm | hm
        · have := (hrange _ hm).2; omega
        · omega
    · intro a ha
      rw [alloc_next]
      simp only [List.append_nil, List.mem_append, List.mem_singleton] at ha
      rcases ha with (ha | ha) | ha
      · have := (hrange a ha).2; omega
      · omega
      · omega
    · intro a ha _
      rw [alloc_cell_lt h1 _ a (by have := e1.le; omega), e1.frame a ha]
    · intro a ha; cases ha
    · intro a h1' h2'
      rw [alloc_next] at h2'
      simp only [List.append_nil, List.mem_append, List.mem_singleton]
      by_cases hlt : a < h1.next
      · rcases hcover a h1' hlt with hh | hh
        · exact Or.inl (Or.inl hh)
        · exact Or.inl (Or.inr hh)
      · exact Or.inr (by omega)
    · intro a ha
      simp only [List.append_nil, List.mem_append, List.mem_singleton] at ha
      have := e1.le
      rcases ha with (ha | ha) | ha
      · exact Or.inr (hrange a ha).1
      · exact Or.inr (by omega)
      · exact Or.inr (by omega)
  · -- an existing pointer array
    have hlen := RepElems_length h vs xs F1 hel
    have harrlt : arr < h.next := hF arr (by simp)
    have hF1lt : ∀ a, a ∈ F1 → a < h.next := fun a ha => hF a (by simp [ha])
    have harr1 : h1.cell arr = some (.arr xs cap) := by rw [e1.frame arr harrlt]; exact harr
    have hel1 : RepElems h1 xs vs F1 := RepElems_congr h h1 vs xs F1 (fun a ha => e1.frame a (hF1lt a ha)) hel
    have hdis : disjoint (Fc ++ [c]) F1 := by
      intro a ha hb
      have hlt := hF1lt a hb
      simp only [List.mem_append, List.mem_singleton] at ha
      rcases ha with ha | ha
      · have := (hrange a ha).1; omega
      · omega
    obtain ⟨F1', hins, hmem⟩ := RepElems_insert h1 vs xs F1 i c hvc (x.getD .unk) Fc hel1 hc hrc hcF hdis hi
    have hlen' : (xs.insertIdx i c).length = xs.length + 1 := List.length_insertIdx_of_le_length (by omega) c
    by_cases hfull : xs.length ≥ cap
    · -- grow: new array block, old one released
      have e2 := Ext.alloc h1 (.arr (xs.insertIdx i c) (growCap cap)) e1.wf
      have harr2 : (alloc h1 (.arr (xs.insertIdx i c) (growCap cap))).2.cell arr = some (.arr xs cap) := by
        rw [alloc_cell_lt h1 _ arr (by have := e1.le; omega)]; exact harr1
      obtain ⟨h3, hf3, hn3, hc3⟩ := free_spec _ arr _ harr2
      refine ⟨.lst (some h1.next) (xs.length + 1), h3, F1' ++ [h1.next], ?_, ?_, ?_, ?_, ?_, ?_, ?_, ?_⟩
      · have : ¬ i > xs.length := by omega
        simp [listInsertH, this, hbn, read, harr1, hfull, alloc, hf3] at *
      · simp only [Rep]
        refine Or.inr ⟨h1.next, xs.insertIdx i c, growCap cap, F1', by rw [hlen'], ?_, ?_, ?_, ?_, rfl⟩
        · rw [hc3]; have : h1.next ≠ arr := by have := e1.le; omega
          simp [this, alloc_cell]
        · rw [hlen']; unfold growCap; split <;> omega
        · apply RepElems_congr h1 h3 _ _ F1' _ hins
          intro a ha
          rw [hc3]
          have hane : a ≠ arr := by
            intro e; subst e
            rcases (hmem _).mp ha with hh | hh | hh
            · exact hnot hh
            · have := (hrange _ hh).1; omega
            · omega
          have halt : a < h1.next := by
            rcases (hmem a).mp ha with hh | hh | hh
            · have := hF1lt a hh; have := e1.le; omega
            · exact (hrange a hh).2
            · omega
          simp [hane, alloc_cell_lt h1 _ a halt]
        · intro hm
          rcases (hmem _).mp hm with hh | hh | hh
          · have := hF1lt _ hh; have := e1.le; omega
          · have := (hrange _ hh).2; omega
          · omega
      · intro a ha
        rw [hn3] at ha
        rw [hc3]
        have := e2.wf a ha
        split
        · rfl
        · exact this
      · intro a ha
        rw [hn3, alloc_next]
        simp only [List.mem_append, List.mem_singleton] at ha
        rcases ha with ha | ha
        · rcases (hmem a).mp ha with hh | hh | hh
          · have := hF1lt a hh; have := e1.le; omega
          · have := (hrange a hh).2; omega
          · omega
        · omega
      · intro a ha hna
        rw [hc3]
        have hane : a ≠ arr := fun e => hna (by simp [e])
        simp only [hane, if_false]
        rw [alloc_cell_lt h1 _ a (by have := e1.le; omega), e1.frame a ha]
      · intro a ha hna
        rw [hc3]
        simp only [List.mem_append, List.mem_singleton] at ha
        rcases ha with ha | ha
        · exact absurd (by simp only [List.mem_append, List.mem_singleton]; exact Or.inl ((hmem a).mpr (Or.inl ha))) hna
        · simp [ha]
      · intro a h1' h2'
        rw [hn3, alloc_next] at h2'
        simp only [List.mem_append, List.mem_singleton]
        by_cases hlt : a < h1.next
        · rcases hcover a h1' hlt with hh | hh
          · exact Or.inl ((hmem a).mpr (Or.inr (Or.inl hh)))
          · exact Or.inl ((hmem a).mpr (Or.inr (Or.inr hh)))
        · exact Or.inr (by omega)
      · intro a ha
        simp only [List.mem_append, List.mem_singleton] at ha
        have := e1.le
        rcases ha with ha | ha
        · rcases (hmem a).mp ha with hh | hh | hh
          · exact Or.inl (by simp [hh])
          · exact Or.inr (hrange a hh).1
          · exact Or.inr (by omega)
        · exact Or.inr (by omega)
    · -- room left: the array block is rewritten in place
      have hroom : xs.length < cap := by omega
      have hw2 : ∃ h2, write h1 arr (.arr (xs.insertIdx i c) cap) = some h2 ∧ h2.next = h1.next
          ∧ ∀ a, h2.cell a = if a = arr then some (.arr (xs.insertIdx i c) cap) else h1.cell a := by
        unfold write; rw [harr1]; exact ⟨_, rfl, rfl, fun _ => rfl⟩
      obtain ⟨h2, hwr, hn2, hc2⟩ := hw2
      refine ⟨.lst (some arr) (xs.length + 1), h2, F1' ++ [arr], ?_, ?_, ?_, ?_, ?_, ?_, ?_, ?_⟩
      · have : ¬ i > xs.length := by omega
        simp [listInsertH, this, hbn, read, harr1, hfull, hwr]
      · simp only [Rep]
        refine Or.inr ⟨arr, xs.insertIdx i c, cap, F1', by rw [hlen'], by simp [hc2], by rw [hlen']; omega, ?_, ?_, rfl⟩
        · apply RepElems_congr h1 h2 _ _ F1' _ hins
          intro a ha
          rw [hc2]
          have hane : a ≠ arr := by
            intro e; subst e
            rcases (hmem _).mp ha with hh | hh | hh
            · exact hnot hh
            · have := (hrange _ hh).1; omega
            · omega
          simp [hane]
        · intro hm
          rcases (hmem _).mp hm with hh | hh | hh
          · exact hnot hh
          · have := (hrange _ hh).1; omega
          · omega
      · intro a ha
        rw [hn2] at ha
        rw [hc2]
        have hane : a ≠ arr := by have := e1.le; omega
        simp [hane, e1.wf a ha]
      · intro a ha
        rw [hn2]
        simp only [List.mem_append, List.mem_singleton] at ha
        rcases ha with ha | ha
        · rcases (hmem a).mp ha with hh | hh | hh
          · have := hF1lt a hh; have := e1.le; omega
          · exact (hrange a hh).2
          · omega
        · have := e1.le; omega
      · intro a ha hna
        rw [hc2]
        have hane : a ≠ arr := fun e => hna (by simp [e])
        simp [hane, e1.frame a ha]
      · intro a ha hna
        exfalso; apply hna
        simp only [List.mem_append, List.mem_singleton] at ha ⊢
        rcases ha with ha | ha
        · exact Or.inl ((hmem a).mpr (Or.inl ha))
        · exact Or.inr ha
      · intro a h1' h2'
        rw [hn2] at h2'
        simp only [List.mem_append, List.mem_singleton]
        rcases hcover a h1' h2' with hh | hh
        · exact Or.inl ((hmem a).mpr (Or.inr (Or.inl hh)))
        · exact Or.inl ((hmem a).mpr (Or.inr (Or.inr hh)))
      · intro a ha
        simp only [List.mem_append, List.mem_singleton] at ha
        rcases ha with ha | ha
        · rcases (hmem a).mp ha with hh | hh | hh
          · exact Or.inl (by simp [hh])
          · exact Or.inr (hrange a hh).1
          · exact Or.inr (by omega)
        · exact Or.inl (by simp [ha])

/-! ### cif_value_remove_element_at -/

theorem write_spec (h : Heap) (a : Nat) (c c' : Cell) (hc : h.cell a = some c) :
    ∃ h', write h a c' = some h' ∧ h'.next = h.next ∧ ∀ x, h'.cell x = if x = a then some c' else h.cell x := by
  unfold write; rw [hc]; exact ⟨_, rfl, rfl, fun _ => rfl⟩

/-- **remove transfers ownership**: taking element `i` out for the caller allocates and frees nothing; afterwards the
    list is represented with footprint `F'`, the removed element is a represented free-standing object with footprint
    `Fx ++ [x]`, the two are disjoint and together are exactly the old footprint; blocks outside it are untouched. -/
theorem listRemoveH_toCaller_spec (fuel : Nat) (h : Heap) (hv : HVal) (vs : List V) (F : List Nat) (i : Nat)
    (hr : Rep h hv (.lst vs) F) (hi : i < vs.length) :
    ∃ hv' x h' v hvx Fx F', listRemoveH fuel h hv i true = some (hv', some x, h') ∧ vs[i]? = some v
      ∧ Rep h' hv' (.lst (vs.eraseIdx i)) F' ∧ h'.cell x = some (.val hvx) ∧ Rep h' hvx v Fx ∧ x ∉ Fx
      ∧ disjoint (Fx ++ [x]) F' ∧ (∀ a, a ∈ F ↔ (a ∈ F' ∨ a ∈ Fx ∨ a = x))
      ∧ h'.next = h.next ∧ (∀ a, a ∉ F → h'.cell a = h.cell a) := by
  simp only [Rep] at hr
  rcases hr with ⟨rfl, _, _, _⟩ | ⟨arr, xs, cap, F1, rfl, harr, hcap, hel, hnot, rfl⟩
  · simp at hi
  · obtain ⟨x, v, hvx, Fx, F1', hxi, hvi, hx, hrepx, hxF, hrep', hd', hmem'⟩ := RepElems_erase h vs xs F1 i hel hi
    obtain ⟨h2, hwr, hn2, hc2⟩ := write_spec h arr _ (.arr (xs.eraseIdx i) cap) harr
    have hlen := RepElems_length h vs xs F1 hel
    have hxne : x ≠ arr := by
      intro e; subst e; exact hnot ((hmem' _).mpr (Or.inr (Or.inr rfl)))
    have hlen' : (xs.eraseIdx i).length = xs.length - 1 := by
      rw [List.length_eraseIdx]; simp [show i < xs.length by omega]
    refine ⟨.lst (some arr) (xs.length - 1), x, h2, v, hvx, Fx, F1' ++ [arr], ?_, hvi, ?_, ?_, ?_, hxF, ?_, ?_, hn2, ?_⟩
    · simp [listRemoveH, read, harr, hxi, hwr]
    · simp only [Rep]
      refine Or.inr ⟨arr, xs.eraseIdx i, cap, F1', by rw [hlen'], by simp [hc2], by rw [hlen']; omega, ?_, ?_, rfl⟩
      · apply RepElems_congr h h2 _ _ F1' _ hrep'
        intro a ha
        have : a ≠ arr := by intro e; subst e; exact hnot ((hmem' _).mpr (Or.inl ha))
        rw [hc2]; simp [this]
      · intro hm; exact hnot ((hmem' _).mpr (Or.inl hm))
    · rw [hc2]; simp [hxne, hx]
    · apply Rep_congr h h2 v hvx Fx _ hrepx
      intro a ha
      have : a ≠ arr := by intro e; subst e; exact hnot ((hmem' _).mpr (Or.inr (Or.inl ha)))
      rw [hc2]; simp [this]
    · intro a ha hb
      simp only [List.mem_append, List.mem_singleton] at hb
      rcases hb with hb | hb
      · exact hd' a ha hb
      · subst hb
        simp only [List.mem_append, List.mem_singleton] at ha
        rcases ha with ha | ha
        · exact hnot ((hmem' _).mpr (Or.inr (Or.inl ha)))
        · exact hxne ha.symm
    · intro a
      simp only [List.mem_append, List.mem_singleton, hmem' a]
      constructor
      · rintro ((h1 | h1 | h1) | h1)
        · exact Or.inl (Or.inl h1)
        · exact Or.inr (Or.inl h1)
        · exact Or.inr (Or.inr h1)
        · exact Or.inl (Or.inr h1)
      · rintro ((h1 | h1) | h1 | h1)
        · exact Or.inl (Or.inl h1)
        · exact Or.inr h1
        · exact Or.inl (Or.inr (Or.inl h1))
        · exact Or.inl (Or.inr (Or.inr h1))
    · intro a ha
      have : a ≠ arr := by intro e; subst e; exact ha (by simp)
      rw [hc2]; simp [this]

/-- a removed element released by the caller, and the list released afterwards: every block of the original list has
    been freed, each exactly once (`cleanVal`/`freeVal` never met a dead block) -/
theorem listRemove_then_free_all (h : Heap) (hv : HVal) (vs : List V) (F : List Nat) (i : Nat)
    (hr : Rep h hv (.lst vs) F) (hi : i < vs.length) :
    ∃ hv' x h1 h2 h3 v, listRemoveH 0 h hv i true = some (hv', some x, h1) ∧ vs[i]? = some v
      ∧ freeVal (need v) h1 x = some h2 ∧ cleanVal (need (.lst (vs.eraseIdx i))) h2 hv' = some h3
      ∧ h3.next = h.next ∧ ∀ a, h3.cell a = if a ∈ F then none else h.cell a := by
  obtain ⟨hv', x, h1, v, hvx, Fx, F', hrm, hvi, hrep', hx, hrepx, hxF, hdis, hmem, hn1, hframe⟩ :=
    listRemoveH_toCaller_spec 0 h hv vs F i hr hi
  obtain ⟨g, hcl, cg⟩ := cleanVal_spec v h1 hvx Fx (need v) hrepx (Nat.le_refl _)
  have hxg : g.cell x = some (.val hvx) := by rw [cg.2 x]; simp [hxF, hx]
  obtain ⟨h2, hf2, c2⟩ := Cleared.free g x _ hxg
  have c12 := cg.trans c2
  have hrep2 : Rep h2 hv' (.lst (vs.eraseIdx i)) F' := by
    apply Rep_congr h1 h2 _ hv' F' _ hrep'
    intro a ha
    rw [c12.2 a]
    have : a ∉ Fx ++ [x] := fun hm => hdis a hm ha
    rw [if_neg this]
  obtain ⟨h3, hcl3, c3⟩ := cleanVal_spec _ h2 hv' F' _ hrep2 (Nat.le_refl _)
  have call := c12.trans c3
  refine ⟨hv', x, h1, h2, h3, v, hrm, hvi, ?_, hcl3, by rw [call.1, hn1], ?_⟩
  · simp [freeVal, read, hx, hcl, hf2]
  · intro a
    rw [call.2 a]
    by_cases ha : a ∈ F
    · have : a ∈ Fx ++ [x] ++ F' := by
        rcases (hmem a).mp ha with hh | hh | hh
        · simp [hh]
        · simp [hh]
        · simp [hh]
      rw [if_pos this, if_pos ha]
    · have : a ∉ Fx ++ [x] ++ F' := by
        intro hm
        apply ha
        simp only [List.mem_append, List.mem_singleton] at hm
        rcases hm with (hm | hm) | hm
        · exact (hmem a).mpr (Or.inr (Or.inl hm))
        · exact (hmem a).mpr (Or.inr (Or.inr hm))
        · exact (hmem a).mpr (Or.inl hm)
      rw [if_neg this, if_neg ha, hframe a ha]

/-! ### map entries -/

/-- `cif_packet_create` for one name: the new entry is represented on fresh blocks — one key block shared by `key` and
    `key_orig` when the name is already normalised, two otherwise -/
theorem packetEntryCreate_spec (h : Heap) (hw : h.WF) (nk name : Str) (e : Nat) (h1 : Heap)
    (hb : packetEntryCreate h nk name = (e, h1)) :
    h1.WF ∧ h.next ≤ h1.next ∧ (∀ a, a < h.next → h1.cell a = h.cell a)
      ∧ ∃ F, RepEntry h1 e nk name .unk F ∧ ∀ a, a ∈ F ↔ (h.next ≤ a ∧ a < h1.next) := by
  unfold packetEntryCreate at hb
  simp only [alloc] at hb
  by_cases hnm : name = nk
  · simp only [hnm, if_true, Prod.mk.injEq] at hb
    obtain ⟨rfl, rfl⟩ := hb
    subst hnm
    refine ⟨?_, by simp only []; omega, ?_, [h.next, h.next + 1], ?_, ?_⟩
    · intro a ha; simp only [] at ha ⊢
      have h1' : a ≠ h.next + 1 := by omega
      have h2' : a ≠ h.next := by omega
      simp [h1', h2', hw a (by omega)]
    · intro a ha
      have h1' : a ≠ h.next + 1 := by omega
      have h2' : a ≠ h.next := by omega
      simp [h1', h2']
    · refine ⟨.unk, h.next, h.next, [], by simp, ?_, ?_, by simp [Rep], by simp, by simp, by simp, by omega, by omega,
        Or.inl ⟨rfl, by simp⟩⟩
      · have : ¬ h.next = h.next + 1 := by omega
        simp [this]
      · have : ¬ h.next = h.next + 1 := by omega
        simp [this]
    · intro a; simp only [List.mem_cons, List.not_mem_nil, or_false]; omega
  · simp only [hnm, if_false, Prod.mk.injEq] at hb
    obtain ⟨rfl, rfl⟩ := hb
    refine ⟨?_, by simp only []; omega, ?_, [h.next, h.next + 1 + 1, h.next + 1], ?_, ?_⟩
    · intro a ha; simp only [] at ha ⊢
      have h1' : a ≠ h.next + 1 := by omega
      have h2' : a ≠ h.next := by omega
      have h3' : a ≠ h.next + 1 + 1 := by omega
      simp [h1', h2', h3', hw a (by omega)]
    · intro a ha
      have h1' : a ≠ h.next + 1 := by omega
      have h2' : a ≠ h.next := by omega
      have h3' : a ≠ h.next + 1 + 1 := by omega
      simp [h1', h2', h3']
    · refine ⟨.unk, h.next, h.next + 1 + 1, [], by simp, ?_, ?_, by simp [Rep], by simp, by simp, by simp, by omega, by omega,
        Or.inr ⟨by omega, by simp⟩⟩
      · have h1' : ¬ h.next = h.next + 1 := by omega
        have h2' : ¬ h.next = h.next + 1 + 1 := by omega
        simp [h1', h2']
      · have h1' : ¬ h.next + 1 + 1 = h.next + 1 := by omega
        simp [h1']
    · intro a; simp only [List.mem_cons, List.not_mem_nil, or_false]; omega

/-- **recording a new spelling** (repaired code): the entry stays represented under the same normalised key with the new
    original key; the hash key block is still live; the only block released is the old original key, and only when it
    is not the hash key; everything outside the entry is untouched -/
theorem entryRespell_spec (h : Heap) (hw : h.WF) (e : Nat) (k ko : Str) (v : V) (F : List Nat) (key : Str)
    (hr : RepEntry h e k ko v F) (hF : ∀ a, a ∈ F → a < h.next) :
    ∃ h' F', entryRespell false h e key = some h' ∧ RepEntry h' e k key v F' ∧ h'.WF ∧ entryKey h' e = some k
      ∧ (∀ a, a < h.next → a ∉ F → h'.cell a = h.cell a)
      ∧ (∀ a, a ∈ F → a ∉ F' → h'.cell a = none)
      ∧ (∀ a, h.next ≤ a → a < h'.next → a ∈ F') ∧ (∀ a, a ∈ F' → a < h'.next)
      ∧ (∀ a, a ∈ F' → a ∈ F ∨ h.next ≤ a) := by
  obtain ⟨hv, ka, koa, F1, he, hka, hkoa, hrep, heF, hkaF, hkoaF, heka, hekoa, hFs⟩ := hr
  have memF : ∀ a, a ∈ F ↔ (a = ka ∨ a = koa ∨ a ∈ F1 ∨ a = e) := by
    intro a
    rcases hFs with ⟨hkk, rfl⟩ | ⟨_, rfl⟩
    · subst hkk; simp only [List.cons_append, List.mem_cons, List.mem_append, List.mem_singleton, List.not_mem_nil, or_false]
      constructor
      · rintro (h1 | h1 | h1)
        · exact Or.inl h1
        · exact Or.inr (Or.inr (Or.inl h1))
        · exact Or.inr (Or.inr (Or.inr h1))
      · rintro (h1 | h1 | h1 | h1)
        · exact Or.inl h1
        · exact Or.inl h1
        · exact Or.inr (Or.inl h1)
        · exact Or.inr (Or.inr h1)
    · simp only [List.cons_append, List.mem_cons, List.mem_append, List.mem_singleton, List.not_mem_nil, or_false]
  have hkey0 : entryKey h e = some k := by simp [entryKey, read, he, hka]
  by_cases hsame : ko = key
  · -- same spelling: nothing happens
    subst hsame
    refine ⟨h, F, by simp [entryRespell, read, he, hkoa], ⟨hv, ka, koa, F1, he, hka, hkoa, hrep, heF, hkaF, hkoaF, heka, hekoa, hFs⟩,
      hw, hkey0, fun _ _ _ => rfl, fun a ha hna => absurd ha hna, fun a h1 h2 => by omega, hF, fun a ha => Or.inl ha⟩
  · have helt : e < h.next := hF e ((memF e).mpr (Or.inr (Or.inr (Or.inr rfl))))
    have hkalt : ka < h.next := hF ka ((memF ka).mpr (Or.inl rfl))
    have hkoalt : koa < h.next := hF koa ((memF koa).mpr (Or.inr (Or.inl rfl)))
    have hF1lt : ∀ a, a ∈ F1 → a < h.next := fun a ha => hF a ((memF a).mpr (Or.inr (Or.inr (Or.inl ha))))
    have e1 := Ext.alloc h (.str key) hw
    by_cases hal : koa = ka
    · -- the original key is the hash key: it is kept
      subst hal
      have he1 : (alloc h (.str key)).2.cell e = some (.entry hv koa koa) := by rw [alloc_cell_lt h _ e helt]; exact he
      obtain ⟨h2, hwr, hn2, hc2⟩ := write_spec _ e _ (.entry hv koa h.next) he1
      refine ⟨h2, koa :: h.next :: F1 ++ [e], ?_, ?_, ?_, ?_, ?_, ?_, ?_, ?_, ?_⟩
      · have hwr' := hwr
        simp only [alloc] at hwr'
        simp [entryRespell, read, he, hkoa, hsame, alloc, hwr']
      · refine ⟨hv, koa, h.next, F1, by simp [hc2], ?_, ?_, ?_, heF, hkaF, ?_, heka, by omega, Or.inr ⟨by omega, rfl⟩⟩
        · rw [hc2]; simp [heka.symm, alloc_cell_lt h _ koa hkalt, hka]
        · rw [hc2]; have : h.next ≠ e := by omega
          simp [this, alloc_cell]
        · apply Rep_congr h h2 v hv F1 _ hrep
          intro a ha
          have hne : a ≠ e := fun e' => heF (e' ▸ ha)
          rw [hc2]; simp [hne, alloc_cell_lt h _ a (hF1lt a ha)]
        · intro hm; have := hF1lt _ hm; omega
      · intro a ha; rw [hn2] at ha; rw [hc2]
        have : a ≠ e := by have := e1.le; omega
        simp [this, e1.wf a ha]
      · simp only [entryKey, read, hc2, if_true]
        simp [heka.symm, alloc_cell_lt h _ koa hkalt, hka]
      · intro a ha hna
        have hne : a ≠ e := fun e' => hna ((memF a).mpr (Or.inr (Or.inr (Or.inr e'))))
        rw [hc2]; simp [hne, alloc_cell_lt h _ a ha]
      · intro a ha hna
        exfalso; apply hna
        simp only [List.cons_append, List.mem_cons, List.mem_append, List.mem_singleton, List.not_mem_nil, or_false]
        rcases (memF a).mp ha with h1 | h1 | h1 | h1
        · exact Or.inl h1
        · exact Or.inl h1
        · exact Or.inr (Or.inr (Or.inl h1))
        · exact Or.inr (Or.inr (Or.inr h1))
      · intro a h1 h2
        rw [hn2, alloc_next] at h2
        simp only [List.cons_append, List.mem_cons]
        exact Or.inr (Or.inl (by omega))
      · intro a ha
        rw [hn2, alloc_next]
        simp only [List.cons_append, List.mem_cons, List.mem_append, List.mem_singleton, List.not_mem_nil, or_false] at ha
        rcases ha with h1 | h1 | h1 | h1
        · omega
        · omega
        · have := hF1lt a h1; omega
        · omega
      · intro a ha
        simp only [List.cons_append, List.mem_cons, List.mem_append, List.mem_singleton, List.not_mem_nil, or_false] at ha
        rcases ha with h1 | h1 | h1 | h1
        · exact Or.inl ((memF a).mpr (Or.inl h1))
        · exact Or.inr (by omega)
        · exact Or.inl ((memF a).mpr (Or.inr (Or.inr (Or.inl h1))))
        · exact Or.inl ((memF a).mpr (Or.inr (Or.inr (Or.inr h1))))
    · -- a separate original key: released and replaced
      have hkoa1 : (alloc h (.str key)).2.cell koa = some (.str ko) := by rw [alloc_cell_lt h _ koa hkoalt]; exact hkoa
      obtain ⟨g, hfr, hng, hcg⟩ := free_spec _ koa _ hkoa1
      have heg : g.cell e = some (.entry hv ka koa) := by
        rw [hcg]; simp [hekoa, alloc_cell_lt h _ e helt, he]
      obtain ⟨h2, hwr, hn2, hc2⟩ := write_spec g e _ (.entry hv ka h.next) heg
      have hkane : ka ≠ koa := fun e' => hal e'.symm
      refine ⟨h2, ka :: h.next :: F1 ++ [e], ?_, ?_, ?_, ?_, ?_, ?_, ?_, ?_, ?_⟩
      · have hfr' := hfr
        simp only [alloc] at hfr'
        simp [entryRespell, read, he, hkoa, hsame, alloc, hal, hfr', hwr]
      · refine ⟨hv, ka, h.next, F1, by simp [hc2], ?_, ?_, ?_, heF, hkaF, ?_, heka, by omega, Or.inr ⟨by omega, rfl⟩⟩
        · rw [hc2, hcg]; simp [heka.symm, hkane, alloc_cell_lt h _ ka hkalt, hka]
        · rw [hc2, hcg]
          have h1' : h.next ≠ e := by omega
          have h2' : h.next ≠ koa := by omega
          simp [h1', h2', alloc_cell]
        · apply Rep_congr h h2 v hv F1 _ hrep
          intro a ha
          have hne : a ≠ e := fun e' => heF (e' ▸ ha)
          have hne2 : a ≠ koa := fun e' => hkoaF (e' ▸ ha)
          rw [hc2, hcg]; simp [hne, hne2, alloc_cell_lt h _ a (hF1lt a ha)]
        · intro hm; have := hF1lt _ hm; omega
      · intro a ha; rw [hn2, hng] at ha; rw [hc2, hcg]
        have h1' : a ≠ e := by have := e1.le; omega
        have h2' : a ≠ koa := by have := e1.le; omega
        simp [h1', h2', e1.wf a ha]
      · simp only [entryKey, read, hc2, if_true]
        rw [hcg]; simp [heka.symm, hkane, alloc_cell_lt h _ ka hkalt, hka]
      · intro a ha hna
        have hne : a ≠ e := fun e' => hna ((memF a).mpr (Or.inr (Or.inr (Or.inr e'))))
        have hne2 : a ≠ koa := fun e' => hna ((memF a).mpr (Or.inr (Or.inl e')))
        rw [hc2, hcg]; simp [hne, hne2, alloc_cell_lt h _ a ha]
      · intro a ha hna
        have hak : a = koa := by
          rcases (memF a).mp ha with h1 | h1 | h1 | h1
          · exact absurd (by simp [h1]) hna
          · exact h1
          · exact absurd (by simp [h1]) hna
          · exact absurd (by simp [h1]) hna
        subst hak
        rw [hc2, hcg]; simp [hekoa.symm]
      · intro a h1 h2
        rw [hn2, hng, alloc_next] at h2
        simp only [List.cons_append, List.mem_cons]
        exact Or.inr (Or.inl (by omega))
      · intro a ha
        rw [hn2, hng, alloc_next]
        simp only [List.cons_append, List.mem_cons, List.mem_append, List.mem_singleton, List.not_mem_nil, or_false] at ha
        rcases ha with h1 | h1 | h1 | h1
        · omega
        · omega
        · have := hF1lt a h1; omega
        · omega
      · intro a ha
        simp only [List.cons_append, List.mem_cons, List.mem_append, List.mem_singleton, List.not_mem_nil, or_false] at ha
        rcases ha with h1 | h1 | h1 | h1
        · exact Or.inl ((memF a).mpr (Or.inl h1))
        · exact Or.inr (by omega)
        · exact Or.inl ((memF a).mpr (Or.inr (Or.inr (Or.inl h1))))
        · exact Or.inl ((memF a).mpr (Or.inr (Or.inr (Or.inr h1))))

/-- **remove hands the value to the caller**: detaching an entry releases its key blocks (the shared one once), the caller's
    `cif_value_free` then releases the value's components and the entry block: together exactly the entry's footprint -/
theorem entryDetach_free_spec (h : Heap) (e : Nat) (k ko : Str) (v : V) (F : List Nat) (hr : RepEntry h e k ko v F) :
    ∃ h1 h2, entryDetach h e = some h1 ∧ freeDetached (need v) h1 e = some h2 ∧ Cleared h h2 F := by
  obtain ⟨hv, ka, koa, F1, he, hka, hkoa, hrep, heF, hkaF, hkoaF, heka, hekoa, hFs⟩ := hr
  rcases hFs with ⟨hkk, rfl⟩ | ⟨hne, rfl⟩
  · subst hkk
    obtain ⟨h1, hf1, c1⟩ := Cleared.free h ka _ hkoa
    have he1 : h1.cell e = some (.entry hv ka ka) := by rw [c1.2 e]; simp [heka, he]
    have hrep1 : Rep h1 hv v F1 := by
      apply Rep_congr h h1 v hv F1 _ hrep
      intro a ha; rw [c1.2 a]
      have : a ≠ ka := fun e' => hkaF (e' ▸ ha)
      simp [this]
    obtain ⟨g, hcl, cg⟩ := cleanVal_spec v h1 hv F1 (need v) hrep1 (Nat.le_refl _)
    have heg : g.cell e = some (.entry hv ka ka) := by rw [cg.2 e]; simp [heF, he1]
    obtain ⟨h2, hf2, c2⟩ := Cleared.free g e _ heg
    refine ⟨h1, h2, by simp [entryDetach, read, he, hf1], by simp [freeDetached, read, he1, hcl, hf2], ?_⟩
    have := (c1.trans cg).trans c2
    simpa using this
  · obtain ⟨h0, hf0, c0⟩ := Cleared.free h ka _ hka
    have hkoa0 : h0.cell koa = some (.str ko) := by
      rw [c0.2 koa]; have : koa ≠ ka := fun e' => hne e'.symm
      simp [this, hkoa]
    obtain ⟨h1, hf1, c1⟩ := Cleared.free h0 koa _ hkoa0
    have c01 := c0.trans c1
    have he1 : h1.cell e = some (.entry hv ka koa) := by rw [c01.2 e]; simp [heka, hekoa, he]
    have hrep1 : Rep h1 hv v F1 := by
      apply Rep_congr h h1 v hv F1 _ hrep
      intro a ha; rw [c01.2 a]
      have h1' : a ≠ ka := fun e' => hkaF (e' ▸ ha)
      have h2' : a ≠ koa := fun e' => hkoaF (e' ▸ ha)
      simp [h1', h2']
    obtain ⟨g, hcl, cg⟩ := cleanVal_spec v h1 hv F1 (need v) hrep1 (Nat.le_refl _)
    have heg : g.cell e = some (.entry hv ka koa) := by rw [cg.2 e]; simp [heF, he1]
    obtain ⟨h2, hf2, c2⟩ := Cleared.free g e _ heg
    refine ⟨h1, h2, by simp [entryDetach, read, he, hne, hf0, hf1], by simp [freeDetached, read, he1, hcl, hf2], ?_⟩
    have := (c01.trans cg).trans c2
    simpa using this

end CifModel.Model.Heap
