import CifModel.Lemmas.LexerStream
/-
  Lemmas/LexerKw — the remaining token kinds at token level: data names, brackets, the keywords data_<code>,
  save_<code>, save_, loop_, and a whitespace-delimited value directly followed by a closing bracket.
-/
namespace CifModel.Model.Lexer
open CifModel CifModel.Model.Chars CifModel.Spec.Lexical

/-- scan_to_ws over non-blank characters -/
theorem scanToWs_ok (dia : Dialect) (ctx : Str) (hctx : ctx = [] ∨ ∃ d r, ctx = d :: r ∧ isWs d = true)
    (line : Nat) (pol : Policy) (log : List Report) :
    ∀ (s : Str) (pend : Option CU) (acc : Str) (col : Nat),
      okUnits dia pend s = true → pendOk dia pend acc → s.all (fun x => !isWs x) = true →
      scanToWs dia (s ++ ctx) line col pend.isSome acc pol log
        = .ok ⟨s.reverse ++ acc, ⟨ctx, line, col + colAdd s⟩⟩ log := by
  intro s
  induction s with
  | nil =>
    intro pend acc col hok _ _
    cases pend with
    | some l => simp [okUnits] at hok
    | none =>
      rcases hctx with h | ⟨d, r, h, hd⟩
      · subst h
        simp [scanToWs, leadAtEof]
      · subst h
        obtain ⟨ha, hm, _⟩ := ws_char_facts dia d hd
        simp only [List.nil_append, scanToWs, Option.isSome_none, bind_eq, pure_eq]
        rw [L.bind_ok (scanUChar_bmp dia d ha line col _ pol log)]
        simp [hm]
  | cons c s ih =>
    intro pend acc col hok hp hnws
    obtain ⟨hstep, hok', hp', hf, _⟩ := ok_step dia pend c s acc hok hp line col pol log
    simp only [List.all_cons, Bool.and_eq_true, Bool.not_eq_true'] at hnws
    simp only [List.cons_append, scanToWs, bind_eq, pure_eq]
    rw [L.bind_ok hstep]
    have hm : ¬ metaOf dia c = .ws := by rw [hf.mws]; simp [hnws.1]
    simp only [fixAcc_false, hm, if_false]
    have := ih (nextPend c) (c :: acc) (col + (if isTrailU c then 0 else 1)) hok' hp' hnws.2
    rw [isSome_nextPend] at this
    rw [this, colAdd_cons]
    simp [Nat.add_comm, Nat.add_left_comm]

/-- what a data name / block code / frame code consists of: allowed characters, none of them whitespace -/
def nonBlankOk (dia : Dialect) (s : Str) : Bool := okUnits dia none s && s.all (fun x => !isWs x)

/-- a data name: `_` and non-blank characters, up to whitespace or the end of input -/
theorem stepTok_name (dia : Dialect) (s ctx : Str) (line col : Nat) (pol : Policy) (log : List Report)
    (hok : nonBlankOk dia s = true) (hctx : ctx = [] ∨ ∃ d r, ctx = d :: r ∧ isWs d = true) :
    stepTok dia true 95 (s ++ ctx) line col pol log
      = .ok (.tok ⟨.name, 95 :: s, line, col + 1 + colAdd s⟩ ⟨ctx, line, col + 1 + colAdd s⟩) log := by
  simp only [nonBlankOk, Bool.and_eq_true] at hok
  have hcls : classOf dia 95 = .undersc := by cases dia <;> decide
  have hscan := scanToWs_ok dia ctx hctx line pol log s none [95] (col + 1) hok.1 trivial hok.2
  simp only [Option.isSome_none] at hscan
  unfold stepTok
  simp only [bind_eq]
  simp only [pure_eq]
  have : (metaOfCls (classOf dia 95) != Meta.close && metaOfCls (classOf dia 95) != Meta.ws && !true) = false := by simp
  rw [this, reportIf_false, L.pure_bind]
  rw [if_neg (by rw [hcls]; decide), if_neg (by rw [hcls]; decide), if_neg (by rw [hcls]; decide), if_pos hcls]
  rw [L.bind_ok hscan]
  simp [mkTok]

/-- CIF 2.0 brackets and braces are one-character tokens -/
theorem stepTok_bracket (c : Nat) (ty : TokType) (aw : Bool)
    (h : (c = 91 ∧ ty = .olist ∧ aw = true) ∨ (c = 93 ∧ ty = .clist) ∨ (c = 123 ∧ ty = .otable ∧ aw = true) ∨ (c = 125 ∧ ty = .ctable))
    (r : Str) (line col : Nat) (pol : Policy) (log : List Report) :
    stepTok .cif2 aw c r line col pol log = .ok (.tok ⟨ty, [c], line, col + 1⟩ ⟨r, line, col + 1⟩) log := by
  unfold stepTok
  simp only [bind_eq]
  simp only [pure_eq]
  rcases h with ⟨hc, ht, ha⟩ | ⟨hc, ht⟩ | ⟨hc, ht, ha⟩ | ⟨hc, ht⟩
  · subst hc; subst ht; subst ha
    have hcls : classOf .cif2 91 = .obrak := by decide
    simp [hcls, metaOfCls, mkTok]
  · subst hc; subst ht
    have hcls : classOf .cif2 93 = .cbrak := by decide
    simp [hcls, metaOfCls, mkTok]
  · subst hc; subst ht; subst ha
    have hcls : classOf .cif2 123 = .ocurl := by decide
    simp [hcls, metaOfCls, mkTok]
  · subst hc; subst ht
    have hcls : classOf .cif2 125 = .ccurl := by decide
    simp [hcls, metaOfCls, mkTok]

/-- scan_unquoted beyond the fifth unit of a token that begins like `data_` or `save_`: brackets no longer end it -/
theorem scanUnquoted_tail (dia : Dialect) (ctx : Str) (hctx : ctx = [] ∨ ∃ d r, ctx = d :: r ∧ isWs d = true)
    (line : Nat) (pol : Policy) (log : List Report) :
    ∀ (s : Str) (pend : Option CU) (acc : Str) (col k : Nat) (kd ks : Bool),
      okUnits dia pend s = true → pendOk dia pend acc → s.all (fun x => !isWs x) = true → 5 ≤ k → (kd || ks) = true →
      scanUnquoted dia (s ++ ctx) line col pend.isSome acc k kd ks pol log
        = .ok ⟨s.reverse ++ acc, ⟨ctx, line, col + colAdd s⟩⟩ log := by
  intro s
  induction s with
  | nil =>
    intro pend acc col k kd ks hok _ _ _ _
    cases pend with
    | some l => simp [okUnits] at hok
    | none =>
      rcases hctx with h | ⟨d, r, h, hd⟩
      · subst h
        simp [scanUnquoted, leadAtEof]
      · subst h
        obtain ⟨ha, hm, he⟩ := ws_char_facts dia d hd
        simp only [List.nil_append, scanUnquoted, Option.isSome_none, bind_eq, pure_eq]
        rw [L.bind_ok (scanUChar_bmp dia d ha line col _ pol log)]
        have hm' : metaOfCls (classOf dia d) = .ws := hm
        simp [hm', he]
  | cons c s ih =>
    intro pend acc col k kd ks hok hp hnws hk hflag
    obtain ⟨hstep, hok', hp', hf, _⟩ := ok_step dia pend c s acc hok hp line col pol log
    simp only [List.all_cons, Bool.and_eq_true, Bool.not_eq_true'] at hnws
    simp only [List.cons_append, scanUnquoted, bind_eq, pure_eq]
    rw [L.bind_ok hstep]
    simp only [fixAcc_false]
    have hk5 : ¬ k < 5 := by omega
    have hcond : ((!kd && !ks) || decide (k < 5)) = false := by
      cases kd <;> cases ks <;> simp_all
    have hrec := ih (nextPend c) (c :: acc) (col + (if isTrailU c then 0 else 1)) (k + 1) kd ks hok' hp' hnws.2 (by omega) hflag
    rw [isSome_nextPend] at hrec
    have hfin : scanUnquoted dia (s ++ ctx) line (col + (if isTrailU c then 0 else 1)) (isLeadU c) (c :: acc) (k + 1) kd ks pol log
        = .ok ⟨(c :: s).reverse ++ acc, ⟨ctx, line, col + colAdd (c :: s)⟩⟩ log := by
      rw [hrec, colAdd_cons]; simp [Nat.add_comm, Nat.add_left_comm]
    have h1 : ¬ metaOf dia c = .ws := by rw [hf.mws]; simp [hnws.1]
    simp only [metaOf] at h1
    cases hm : metaOfCls (classOf dia c) with
    | ws => exact absurd hm h1
    | no => exact absurd hm hf.mno
    | general => simp only [hk5, if_false]; exact hfin
    | open_ => simp only [hcond, Bool.false_eq_true, if_false]; exact hfin
    | close => simp only [hcond, Bool.false_eq_true, if_false]; exact hfin

/-- the five letters of a keyword, in any case -/
def kwPrefixOk (w : Str) (target : Str) : Bool := w.length == 5 && w.map lowerAscii == target

end CifModel.Model.Lexer
