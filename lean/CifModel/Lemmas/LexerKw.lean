import CifModel.Lemmas.LexerStream
/-
  Lemmas/LexerKw — the remaining token kinds at token level: data names, brackets, the keywords data_<code>,
  save_<code>, save_, loop_, and a whitespace-delimited value directly followed by a closing bracket.
-/
namespace CifModel.Model.Lexer
open CifModel CifModel.Model.Chars CifModel.Spec.Lexical

/-- scan_to_ws over non-blank characters -/
theorem scanToWs_ok (dia : Dialect) (ctx : Str) (hctx : ctx = [] ∨ ∃ d r, ctx = d :: r ∧ isWs d = true)
    (line : Nat) (pol : Policy) (log : List Report) :
    ∀ (s : Str) (pend : Option CU) (acc : Str) (col : Nat),
      okUnits dia pend s = true → pendOk dia pend acc → s.all (fun x => !isWs x) = true →
      scanToWs dia (s ++ ctx) line col pend.isSome acc pol log
        = .ok ⟨s.reverse ++ acc, ⟨ctx, line, col + colAdd s⟩⟩ log := by
  intro s
  induction s with
  | nil =>
    intro pend acc col hok _ _
    cases pend with
    | some l => simp [okUnits] at hok
    | none =>
      rcases hctx with h | ⟨d, r, h, hd⟩
      · subst h
        simp [scanToWs, leadAtEof]
      · subst h
        obtain ⟨ha, hm, _⟩ := ws_char_facts dia d hd
        simp only [List.nil_append, scanToWs, Option.isSome_none, bind_eq, pure_eq]
        rw [L.bind_ok (scanUChar_bmp dia d ha line col _ pol log)]
        simp [hm]
  | cons c s ih =>
    intro pend acc col hok hp hnws
    obtain ⟨hstep, hok', hp', hf, _⟩ := ok_step dia pend c s acc hok hp line col pol log
    simp only [List.all_cons, Bool.and_eq_true, Bool.not_eq_true'] at hnws
    simp only [List.cons_append, scanToWs, bind_eq, pure_eq]
    rw [L.bind_ok hstep]
    have hm : ¬ metaOf dia c = .ws := by rw [hf.mws]; simp [hnws.1]
    simp only [fixAcc_false, hm, if_false]
    have := ih (nextPend c) (c :: acc) (col + (if isTrailU c then 0 else 1)) hok' hp' hnws.2
    rw [isSome_nextPend] at this
    rw [this, colAdd_cons]
    simp [Nat.add_comm, Nat.add_left_comm]

theorem wsOrEnd_iff {ctx : Str} (h : wsOrEnd ctx = true) : ctx = [] ∨ ∃ d r, ctx = d :: r ∧ isWs d = true := by
  cases ctx with
  | nil => exact Or.inl rfl
  | cons d r => exact Or.inr ⟨d, r, rfl, by simpa [wsOrEnd] using h⟩

/-- what a data name / block code / frame code consists of: allowed characters, none of them whitespace -/
def nonBlankOk (dia : Dialect) (s : Str) : Bool := okUnits dia none s && s.all (fun x => !isWs x)

/-- a data name: `_` and non-blank characters, up to whitespace or the end of input -/
theorem stepTok_name (dia : Dialect) (s ctx : Str) (line col : Nat) (pol : Policy) (log : List Report)
    (hok : nonBlankOk dia s = true) (hctx : ctx = [] ∨ ∃ d r, ctx = d :: r ∧ isWs d = true) :
    stepTok dia true 95 (s ++ ctx) line col pol log
      = .ok (.tok ⟨.name, 95 :: s, line, col + 1 + colAdd s⟩ ⟨ctx, line, col + 1 + colAdd s⟩) log := by
  simp only [nonBlankOk, Bool.and_eq_true] at hok
  have hcls : classOf dia 95 = .undersc := by cases dia <;> decide
  have hscan := scanToWs_ok dia ctx hctx line pol log s none [95] (col + 1) hok.1 trivial hok.2
  simp only [Option.isSome_none] at hscan
  unfold stepTok
  simp only [bind_eq]
  simp only [pure_eq]
  have : (metaOfCls (classOf dia 95) != Meta.close && metaOfCls (classOf dia 95) != Meta.ws && !true) = false := by simp
  rw [this, reportIf_false, L.pure_bind]
  rw [if_neg (by rw [hcls]; decide), if_neg (by rw [hcls]; decide), if_neg (by rw [hcls]; decide), if_pos hcls]
  rw [L.bind_ok hscan]
  simp [mkTok]

/-- CIF 2.0 brackets and braces are one-character tokens -/
theorem stepTok_bracket (c : Nat) (ty : TokType) (aw : Bool)
    (h : (c = 91 ∧ ty = .olist ∧ aw = true) ∨ (c = 93 ∧ ty = .clist) ∨ (c = 123 ∧ ty = .otable ∧ aw = true) ∨ (c = 125 ∧ ty = .ctable))
    (r : Str) (line col : Nat) (pol : Policy) (log : List Report) :
    stepTok .cif2 aw c r line col pol log = .ok (.tok ⟨ty, [c], line, col + 1⟩ ⟨r, line, col + 1⟩) log := by
  unfold stepTok
  simp only [bind_eq]
  simp only [pure_eq]
  rcases h with ⟨hc, ht, ha⟩ | ⟨hc, ht⟩ | ⟨hc, ht, ha⟩ | ⟨hc, ht⟩
  · subst hc; subst ht; subst ha
    have hcls : classOf .cif2 91 = .obrak := by decide
    simp [hcls, metaOfCls, mkTok]
  · subst hc; subst ht
    have hcls : classOf .cif2 93 = .cbrak := by decide
    simp [hcls, metaOfCls, mkTok]
  · subst hc; subst ht; subst ha
    have hcls : classOf .cif2 123 = .ocurl := by decide
    simp [hcls, metaOfCls, mkTok]
  · subst hc; subst ht
    have hcls : classOf .cif2 125 = .ccurl := by decide
    simp [hcls, metaOfCls, mkTok]

/-- scan_unquoted beyond the fifth unit of a token that begins like `data_` or `save_`: brackets no longer end it -/
theorem scanUnquoted_tail (dia : Dialect) (ctx : Str) (hctx : ctx = [] ∨ ∃ d r, ctx = d :: r ∧ isWs d = true)
    (line : Nat) (pol : Policy) (log : List Report) :
    ∀ (s : Str) (pend : Option CU) (acc : Str) (col k : Nat) (kd ks : Bool),
      okUnits dia pend s = true → pendOk dia pend acc → s.all (fun x => !isWs x) = true → 5 ≤ k → (kd || ks) = true →
      scanUnquoted dia (s ++ ctx) line col pend.isSome acc k kd ks pol log
        = .ok ⟨s.reverse ++ acc, ⟨ctx, line, col + colAdd s⟩⟩ log := by
  intro s
  induction s with
  | nil =>
    intro pend acc col k kd ks hok _ _ _ _
    cases pend with
    | some l => simp [okUnits] at hok
    | none =>
      rcases hctx with h | ⟨d, r, h, hd⟩
      · subst h
        simp [scanUnquoted, leadAtEof]
      · subst h
        obtain ⟨ha, hm, he⟩ := ws_char_facts dia d hd
        simp only [List.nil_append, scanUnquoted, Option.isSome_none, bind_eq, pure_eq]
        rw [L.bind_ok (scanUChar_bmp dia d ha line col _ pol log)]
        have hm' : metaOfCls (classOf dia d) = .ws := hm
        simp [hm', he]
  | cons c s ih =>
    intro pend acc col k kd ks hok hp hnws hk hflag
    obtain ⟨hstep, hok', hp', hf, _⟩ := ok_step dia pend c s acc hok hp line col pol log
    simp only [List.all_cons, Bool.and_eq_true, Bool.not_eq_true'] at hnws
    simp only [List.cons_append, scanUnquoted, bind_eq, pure_eq]
    rw [L.bind_ok hstep]
    simp only [fixAcc_false]
    have hk5 : ¬ k < 5 := by omega
    have hcond : ((!kd && !ks) || decide (k < 5)) = false := by
      cases kd <;> cases ks <;> simp_all
    have hrec := ih (nextPend c) (c :: acc) (col + (if isTrailU c then 0 else 1)) (k + 1) kd ks hok' hp' hnws.2 (by omega) hflag
    rw [isSome_nextPend] at hrec
    have hfin : scanUnquoted dia (s ++ ctx) line (col + (if isTrailU c then 0 else 1)) (isLeadU c) (c :: acc) (k + 1) kd ks pol log
        = .ok ⟨(c :: s).reverse ++ acc, ⟨ctx, line, col + colAdd (c :: s)⟩⟩ log := by
      rw [hrec, colAdd_cons]; simp [Nat.add_comm, Nat.add_left_comm]
    have h1 : ¬ metaOf dia c = .ws := by rw [hf.mws]; simp [hnws.1]
    simp only [metaOf] at h1
    cases hm : metaOfCls (classOf dia c) with
    | ws => exact absurd hm h1
    | no => exact absurd hm hf.mno
    | general => simp only [hk5, if_false]; exact hfin
    | open_ => simp only [hcond, Bool.false_eq_true, if_false]; exact hfin
    | close => simp only [hcond, Bool.false_eq_true, if_false]; exact hfin

/-- an ASCII letter or underscore (given by its lower-case form) as the scanner sees it -/
theorem letter_facts (dia : Dialect) (c n : Nat) (hn : 95 ≤ n ∧ n ≤ 122) (h : lowerAscii c = n) :
    allowedBmp dia c = true ∧ c < 160 := by
  simp only [lowerAscii] at h
  split at h
  · have : 32 ≤ c ∧ c ≤ 126 := by omega_cu
    exact ⟨by simp [allowedBmp, this.1, this.2], by omega⟩
  · have : 32 ≤ c ∧ c ≤ 126 := by omega_cu
    exact ⟨by simp [allowedBmp, this.1, this.2], by omega⟩

/-- one step of scan_unquoted over an allowed BMP character of a GENERAL metaclass -/
theorem scanUnquoted_general_step (dia : Dialect) (c : Nat) (r acc : Str) (line col k : Nat) (kd ks : Bool) (pol : Policy)
    (log : List Report) (ha : allowedBmp dia c = true) (hm : metaOfCls (classOf dia c) = .general) :
    scanUnquoted dia (c :: r) line col false acc k kd ks pol log
      = scanUnquoted dia r line (col + 1) false (c :: acc) (k + 1)
          (if k < 5 then kd && (classOf dia c == dataCls k) else kd)
          (if k < 5 then ks && (classOf dia c == saveCls k) else ks) pol log := by
  simp only [scanUnquoted, bind_eq, pure_eq]
  rw [L.bind_ok (scanUChar_bmp dia c ha line col _ pol log)]
  simp only [fixAcc_false, hm]

theorem general_of_letter {dia : Dialect} {c : Nat} {k : Cls} (h : classOf dia c = k)
    (hk : k = .d ∨ k = .a ∨ k = .t ∨ k = .s ∨ k = .v ∨ k = .e ∨ k = .l ∨ k = .o ∨ k = .p ∨ k = .undersc) :
    metaOfCls (classOf dia c) = .general := by
  rw [h]; rcases hk with h | h | h | h | h | h | h | h | h | h <;> subst h <;> rfl

/-- `data_` / `save_` followed by a code: the five letters, then anything non-blank (brackets included) -/
theorem scanUnquoted_kw (dia : Dialect) (isData : Bool) (a b c d e : Nat) (code ctx : Str)
    (hw : if isData then (lowerAscii a = 100 ∧ lowerAscii b = 97 ∧ lowerAscii c = 116 ∧ lowerAscii d = 97 ∧ lowerAscii e = 95)
          else (lowerAscii a = 115 ∧ lowerAscii b = 97 ∧ lowerAscii c = 118 ∧ lowerAscii d = 101 ∧ lowerAscii e = 95))
    (hcode : nonBlankOk dia code = true) (hctx : ctx = [] ∨ ∃ x r, ctx = x :: r ∧ isWs x = true)
    (line col : Nat) (pol : Policy) (log : List Report) :
    scanUnquoted dia (a :: b :: c :: d :: e :: (code ++ ctx)) line col false [] 0 true true pol log
      = .ok ⟨(a :: b :: c :: d :: e :: code).reverse, ⟨ctx, line, col + 5 + colAdd code⟩⟩ log := by
  simp only [nonBlankOk, Bool.and_eq_true] at hcode
  have fa := LF.all dia a; have fb := LF.all dia b; have fc := LF.all dia c; have fd := LF.all dia d
  have fe := LF.all dia e
  cases isData with
  | true =>
    simp only [if_true] at hw
    obtain ⟨h1, h2, h3, h4, h5⟩ := hw
    have ca := fa.d.mpr h1; have cb := fb.a.mpr h2; have cc := fc.t.mpr h3; have cd := fd.a.mpr h4; have ce := fe.u.mpr h5
    rw [scanUnquoted_general_step dia a _ _ _ _ _ _ _ _ _ (letter_facts dia a 100 (by omega) h1).1 (general_of_letter ca (by simp)),
      scanUnquoted_general_step dia b _ _ _ _ _ _ _ _ _ (letter_facts dia b 97 (by omega) h2).1 (general_of_letter cb (by simp)),
      scanUnquoted_general_step dia c _ _ _ _ _ _ _ _ _ (letter_facts dia c 116 (by omega) h3).1 (general_of_letter cc (by simp)),
      scanUnquoted_general_step dia d _ _ _ _ _ _ _ _ _ (letter_facts dia d 97 (by omega) h4).1 (general_of_letter cd (by simp)),
      scanUnquoted_general_step dia e _ _ _ _ _ _ _ _ _ (letter_facts dia e 95 (by omega) h5).1 (general_of_letter ce (by simp))]
    simp only [ca, cb, cc, cd, ce, dataCls, saveCls]
    have := scanUnquoted_tail dia ctx hctx line pol log code none [e, d, c, b, a] (col + 1 + 1 + 1 + 1 + 1) 5
      (true && (Cls.d == Cls.d) && (Cls.a == Cls.a) && (Cls.t == Cls.t) && (Cls.a == Cls.a) && (Cls.undersc == Cls.undersc))
      (true && (Cls.d == Cls.s) && (Cls.a == Cls.a) && (Cls.t == Cls.v) && (Cls.a == Cls.e) && (Cls.undersc == Cls.undersc))
      hcode.1 trivial hcode.2 (by omega) (by decide)
    simp only [Option.isSome_none] at this
    simp only [show (0 : Nat) < 5 from by decide, show (0 + 1 : Nat) < 5 from by decide, show (0 + 1 + 1 : Nat) < 5 from by decide,
      show (0 + 1 + 1 + 1 : Nat) < 5 from by decide, show (0 + 1 + 1 + 1 + 1 : Nat) < 5 from by decide, if_true]
    rw [this]
    simp [Nat.add_assoc]
  | false =>
    simp only [Bool.false_eq_true, if_false] at hw
    obtain ⟨h1, h2, h3, h4, h5⟩ := hw
    have ca := fa.s.mpr h1; have cb := fb.a.mpr h2; have cc := fc.v.mpr h3; have cd := fd.e.mpr h4; have ce := fe.u.mpr h5
    rw [scanUnquoted_general_step dia a _ _ _ _ _ _ _ _ _ (letter_facts dia a 115 (by omega) h1).1 (general_of_letter ca (by simp)),
      scanUnquoted_general_step dia b _ _ _ _ _ _ _ _ _ (letter_facts dia b 97 (by omega) h2).1 (general_of_letter cb (by simp)),
      scanUnquoted_general_step dia c _ _ _ _ _ _ _ _ _ (letter_facts dia c 118 (by omega) h3).1 (general_of_letter cc (by simp)),
      scanUnquoted_general_step dia d _ _ _ _ _ _ _ _ _ (letter_facts dia d 101 (by omega) h4).1 (general_of_letter cd (by simp)),
      scanUnquoted_general_step dia e _ _ _ _ _ _ _ _ _ (letter_facts dia e 95 (by omega) h5).1 (general_of_letter ce (by simp))]
    simp only [ca, cb, cc, cd, ce, dataCls, saveCls]
    have := scanUnquoted_tail dia ctx hctx line pol log code none [e, d, c, b, a] (col + 1 + 1 + 1 + 1 + 1) 5
      (true && (Cls.s == Cls.d) && (Cls.a == Cls.a) && (Cls.v == Cls.t) && (Cls.e == Cls.a) && (Cls.undersc == Cls.undersc))
      (true && (Cls.s == Cls.s) && (Cls.a == Cls.a) && (Cls.v == Cls.v) && (Cls.e == Cls.e) && (Cls.undersc == Cls.undersc))
      hcode.1 trivial hcode.2 (by omega) (by decide)
    simp only [Option.isSome_none] at this
    simp only [show (0 : Nat) < 5 from by decide, show (0 + 1 : Nat) < 5 from by decide, show (0 + 1 + 1 : Nat) < 5 from by decide,
      show (0 + 1 + 1 + 1 : Nat) < 5 from by decide, show (0 + 1 + 1 + 1 + 1 : Nat) < 5 from by decide, if_true]
    rw [this]
    simp [Nat.add_assoc]


theorem classify_data (dia : Dialect) (a b c d e : Nat) (code : Str)
    (h : lowerAscii a = 100 ∧ lowerAscii b = 97 ∧ lowerAscii c = 116 ∧ lowerAscii d = 97 ∧ lowerAscii e = 95) :
    classify dia (a :: b :: c :: d :: e :: code) = (if code = [] then .reserved else .blockHead) := by
  have fa := LF.all dia a; have fb := LF.all dia b; have fc := LF.all dia c; have fd := LF.all dia d
  have fe := LF.all dia e
  obtain ⟨h1, h2, h3, h4, h5⟩ := h
  simp only [classify, List.length_cons, List.getD_cons_zero, List.getD_cons_succ, fa.d.mpr h1, fb.a.mpr h2, fc.t.mpr h3,
    fd.a.mpr h4, fe.u.mpr h5]
  cases code with
  | nil => simp
  | cons x r => simp

theorem classify_save (dia : Dialect) (a b c d e : Nat) (code : Str)
    (h : lowerAscii a = 115 ∧ lowerAscii b = 97 ∧ lowerAscii c = 118 ∧ lowerAscii d = 101 ∧ lowerAscii e = 95) :
    classify dia (a :: b :: c :: d :: e :: code) = (if code = [] then .frameTerm else .frameHead) := by
  have fa := LF.all dia a; have fb := LF.all dia b; have fc := LF.all dia c; have fd := LF.all dia d
  have fe := LF.all dia e
  obtain ⟨h1, h2, h3, h4, h5⟩ := h
  have ca := fa.s.mpr h1; have cb := fb.a.mpr h2; have cc := fc.v.mpr h3; have cd := fd.e.mpr h4; have ce := fe.u.mpr h5
  simp only [classify, List.length_cons, List.getD_cons_zero, List.getD_cons_succ, ca, cb, cc, cd, ce]
  cases code with
  | nil => simp
  | cons x r => simp

theorem classify_loop (dia : Dialect) (a b c d e : Nat)
    (h : lowerAscii a = 108 ∧ lowerAscii b = 111 ∧ lowerAscii c = 111 ∧ lowerAscii d = 112 ∧ lowerAscii e = 95) :
    classify dia [a, b, c, d, e] = .loopKw := by
  have fa := LF.all dia a; have fb := LF.all dia b; have fc := LF.all dia c; have fd := LF.all dia d
  have fe := LF.all dia e
  obtain ⟨h1, h2, h3, h4, h5⟩ := h
  have ca := fa.l.mpr h1; have cb := fb.o.mpr h2; have cc := fc.o.mpr h3; have cd := fd.p.mpr h4; have ce := fe.u.mpr h5
  simp [classify, ca, cb, cc, cd, ce]

/-- next_token's dispatch for a token that starts with a letter of class D, S or L: scan_unquoted from that unit -/
theorem stepTok_letter (dia : Dialect) (a : Nat) (r : Str) (line col : Nat)
    (hk : classOf dia a = .d ∨ classOf dia a = .s ∨ classOf dia a = .l) :
    stepTok dia true a r line col
      = L.bind (scanUnquoted dia (a :: r) line col false [] 0 true true)
          (fun s => finishUnquoted dia true s.acc.reverse s.pos) := by
  unfold stepTok
  simp only [bind_eq]
  simp only [pure_eq]
  have hm : metaOfCls (classOf dia a) = .general := by rcases hk with h | h | h <;> rw [h] <;> rfl
  have : (metaOfCls (classOf dia a) != Meta.close && metaOfCls (classOf dia a) != Meta.ws && !true) = false := by simp
  rw [this, reportIf_false, L.pure_bind]
  have hne : ∀ k : Cls, k ≠ .d → k ≠ .s → k ≠ .l → ¬ classOf dia a = k := by
    intro k h1 h2 h3 e
    rcases hk with h | h | h <;> rw [h] at e
    · exact h1 e.symm
    · exact h2 e.symm
    · exact h3 e.symm
  rw [if_neg (hne .eol (by decide) (by decide) (by decide)), if_neg (hne .ws (by decide) (by decide) (by decide)),
    if_neg (hne .hash (by decide) (by decide) (by decide)), if_neg (hne .undersc (by decide) (by decide) (by decide)),
    if_neg (hne .obrak (by decide) (by decide) (by decide)), if_neg (hne .cbrak (by decide) (by decide) (by decide)),
    if_neg (hne .ocurl (by decide) (by decide) (by decide)), if_neg (hne .ccurl (by decide) (by decide) (by decide)),
    if_neg (hne .quote (by decide) (by decide) (by decide)), if_neg (hne .semi (by decide) (by decide) (by decide)),
    Nat.add_sub_cancel]

/-- `data_<code>` (block header) and `save_<code>` (frame header), `save_` (frame terminator) -/
theorem stepTok_kw (dia : Dialect) (isData : Bool) (a b c d e : Nat) (code ctx : Str)
    (hw : if isData then (lowerAscii a = 100 ∧ lowerAscii b = 97 ∧ lowerAscii c = 116 ∧ lowerAscii d = 97 ∧ lowerAscii e = 95)
          else (lowerAscii a = 115 ∧ lowerAscii b = 97 ∧ lowerAscii c = 118 ∧ lowerAscii d = 101 ∧ lowerAscii e = 95))
    (hcode : nonBlankOk dia code = true) (hne : isData = true → code ≠ [])
    (hctx : ctx = [] ∨ ∃ x r, ctx = x :: r ∧ isWs x = true)
    (line col : Nat) (pol : Policy) (log : List Report) :
    stepTok dia true a (b :: c :: d :: e :: (code ++ ctx)) line col pol log
      = .ok (.tok ⟨if isData then .blockHead else (if code = [] then .frameTerm else .frameHead), code, line, col + 5 + colAdd code⟩
              ⟨ctx, line, col + 5 + colAdd code⟩) log := by
  have hscan := scanUnquoted_kw dia isData a b c d e code ctx hw hcode hctx line col pol log
  have hk : classOf dia a = .d ∨ classOf dia a = .s ∨ classOf dia a = .l := by
    cases isData with
    | true => simp only [if_true] at hw; exact Or.inl ((LF.all dia a).d.mpr hw.1)
    | false => simp only [Bool.false_eq_true, if_false] at hw; exact Or.inr (Or.inl ((LF.all dia a).s.mpr hw.1))
  rw [stepTok_letter dia a _ line col hk, L.bind_ok hscan]
  simp only [List.reverse_reverse]
  cases isData with
  | true =>
    simp only [if_true] at hw
    have hc := hne rfl
    simp [finishUnquoted, classify_data dia a b c d e code hw, hc, mkTok]
  | false =>
    simp only [Bool.false_eq_true, if_false] at hw
    by_cases hc : code = []
    · subst hc
      have := classify_save dia a b c d e [] hw
      simp only [if_true] at this
      simp [finishUnquoted, this, mkTok]
    · simp [finishUnquoted, classify_save dia a b c d e code hw, hc, mkTok]

/-- `loop_` -/
theorem stepTok_loop (dia : Dialect) (a b c d e : Nat) (ctx : Str)
    (hw : lowerAscii a = 108 ∧ lowerAscii b = 111 ∧ lowerAscii c = 111 ∧ lowerAscii d = 112 ∧ lowerAscii e = 95)
    (hctx : ctx = [] ∨ ∃ x r, ctx = x :: r ∧ isWs x = true)
    (line col : Nat) (pol : Policy) (log : List Report) :
    stepTok dia true a (b :: c :: d :: e :: ctx) line col pol log
      = .ok (.tok ⟨.loopKw, [], line, col + 5⟩ ⟨ctx, line, col + 5⟩) log := by
  obtain ⟨h1, h2, h3, h4, h5⟩ := hw
  have fa := LF.all dia a; have fb := LF.all dia b; have fc := LF.all dia c; have fd := LF.all dia d
  have fe := LF.all dia e
  have ca := fa.l.mpr h1; have cb := fb.o.mpr h2; have cc := fc.o.mpr h3; have cd := fd.p.mpr h4; have ce := fe.u.mpr h5
  rw [stepTok_letter dia a _ line col (Or.inr (Or.inr ca))]
  have hscan : scanUnquoted dia (a :: b :: c :: d :: e :: ctx) line col false [] 0 true true pol log
      = .ok ⟨[e, d, c, b, a], ⟨ctx, line, col + 5⟩⟩ log := by
    rw [scanUnquoted_general_step dia a _ _ _ _ _ _ _ _ _ (letter_facts dia a 108 (by omega) h1).1 (general_of_letter ca (by simp)),
      scanUnquoted_general_step dia b _ _ _ _ _ _ _ _ _ (letter_facts dia b 111 (by omega) h2).1 (general_of_letter cb (by simp)),
      scanUnquoted_general_step dia c _ _ _ _ _ _ _ _ _ (letter_facts dia c 111 (by omega) h3).1 (general_of_letter cc (by simp)),
      scanUnquoted_general_step dia d _ _ _ _ _ _ _ _ _ (letter_facts dia d 112 (by omega) h4).1 (general_of_letter cd (by simp)),
      scanUnquoted_general_step dia e _ _ _ _ _ _ _ _ _ (letter_facts dia e 95 (by omega) h5).1 (general_of_letter ce (by simp))]
    have := scanUnquoted_ok dia ctx hctx line pol log [] none [e, d, c, b, a] (col + 1 + 1 + 1 + 1 + 1) 5
    simp only [List.nil_append, Option.isSome_none, List.reverse_nil, colAdd_nil, Nat.add_zero] at this
    rw [this _ _ rfl trivial rfl (fun _ => rfl)]
  rw [L.bind_ok hscan]
  simp [finishUnquoted, classify_loop dia a b c d e ⟨h1, h2, h3, h4, h5⟩, mkTok]


/-! ### a whitespace-delimited value directly followed by a closing bracket (CIF 2.0) -/

/-- scan_unquoted's keyword bookkeeping: offset and the data_/save_ flags after one more unit of GENERAL metaclass -/
def kwStep (dia : Dialect) (st : Nat × Bool × Bool) (c : Nat) : Nat × Bool × Bool :=
  (st.1 + 1, (if st.1 < 5 then st.2.1 && (classOf dia c == dataCls st.1) else st.2.1),
             (if st.1 < 5 then st.2.2 && (classOf dia c == saveCls st.1) else st.2.2))

def kwAfter (dia : Dialect) (k : Nat) (kd ks : Bool) (s : Str) : Nat × Bool × Bool := s.foldl (kwStep dia) (k, kd, ks)

theorem kwAfter_ge5 (dia : Dialect) : ∀ (s : Str) (k : Nat) (kd ks : Bool), 5 ≤ k → kwAfter dia k kd ks s = (k + s.length, kd, ks) := by
  intro s
  induction s with
  | nil => intro k kd ks _; rfl
  | cons c s ih =>
    intro k kd ks hk
    have h5 : ¬ k < 5 := by omega
    simp only [kwAfter, List.foldl_cons, kwStep, h5, if_false]
    have := ih (k + 1) kd ks (by omega)
    simp only [kwAfter] at this
    rw [this]; simp [Nat.add_assoc, Nat.add_comm 1]

/-- scan_unquoted over a bare value that is directly followed by a closing bracket or brace: the value ends there provided
    the keyword flags are off (or fewer than five units were scanned) when the bracket is met -/
theorem scanUnquoted_close (d : Nat) (hd : d = 93 ∨ d = 125) (r : Str) (line : Nat) (pol : Policy) (log : List Report) :
    ∀ (s : Str) (pend : Option CU) (acc : Str) (col k : Nat) (kd ks : Bool),
      okUnits .cif2 pend s = true → pendOk .cif2 pend acc → s.all (fun x => !isWs x) = true →
      s.all (fun x => !(x == 91 || x == 93 || x == 123 || x == 125)) = true →
      ((!(kwAfter .cif2 k kd ks s).2.1 && !(kwAfter .cif2 k kd ks s).2.2) || decide ((kwAfter .cif2 k kd ks s).1 < 5)) = true →
      scanUnquoted .cif2 (s ++ d :: r) line col pend.isSome acc k kd ks pol log
        = .ok ⟨s.reverse ++ acc, ⟨d :: r, line, col + colAdd s⟩⟩ log := by
  have hda : allowedBmp .cif2 d = true := by rcases hd with h | h <;> subst h <;> decide
  have hdm : metaOfCls (classOf .cif2 d) = .close := by rcases hd with h | h <;> subst h <;> decide
  intro s
  induction s with
  | nil =>
    intro pend acc col k kd ks hok _ _ _ hflag
    cases pend with
    | some l => simp [okUnits] at hok
    | none =>
      simp only [kwAfter, List.foldl_nil] at hflag
      simp only [List.nil_append, scanUnquoted, Option.isSome_none, bind_eq, pure_eq]
      rw [L.bind_ok (scanUChar_bmp .cif2 d hda line col _ pol log)]
      simp only [fixAcc_false, hdm]
      split
      · simp
      · rename_i h; exact absurd hflag h
  | cons c s ih =>
    intro pend acc col k kd ks hok hp hnws hnbr hflag
    obtain ⟨hstep, hok', hp', hf, _⟩ := ok_step .cif2 pend c s acc hok hp line col pol log
    simp only [List.all_cons, Bool.and_eq_true, Bool.not_eq_true'] at hnws hnbr
    simp only [List.cons_append, scanUnquoted, bind_eq, pure_eq]
    rw [L.bind_ok hstep]
    simp only [fixAcc_false]
    have hmeta : metaOfCls (classOf .cif2 c) = .general := by
      have h1 : ¬ metaOf .cif2 c = .ws := by rw [hf.mws]; simp [hnws.1]
      have h2 : ¬ metaOf .cif2 c = .no := hf.mno
      have hb := hnbr.1
      simp only [Bool.or_eq_false_iff, beq_eq_false_iff_ne] at hb
      have h3 : ¬ metaOf .cif2 c = .open_ := by
        rw [hf.mopen]; rintro ⟨_, hc | hc⟩
        · exact hb.1.1.1 hc
        · exact hb.1.2 hc
      have h4 : ¬ metaOf .cif2 c = .close := by
        rw [hf.mclose]; rintro ⟨_, hc | hc⟩
        · exact hb.1.1.2 hc
        · exact hb.2 hc
      simp only [metaOf] at h1 h2 h3 h4
      cases hm : metaOfCls (classOf .cif2 c) <;> simp_all
    simp only [hmeta]
    have := ih (nextPend c) (c :: acc) (col + (if isTrailU c then 0 else 1)) (k + 1)
      (if k < 5 then kd && (classOf .cif2 c == dataCls k) else kd) (if k < 5 then ks && (classOf .cif2 c == saveCls k) else ks)
      hok' hp' hnws.2 hnbr.2 (by simp only [kwAfter, List.foldl_cons, kwStep] at hflag; exact hflag)
    rw [isSome_nextPend] at this
    rw [this, colAdd_cons]
    simp [Nat.add_comm, Nat.add_left_comm]

/-- after five or more units the flags are on only if the first five spell data_ / save_ (in any case) -/
theorem kwAfter_flags (dia : Dialect) (s : Str)
    (h : startsWithCI [100, 97, 116, 97, 95] s = false ∧ startsWithCI [115, 97, 118, 101, 95] s = false) :
    ((!(kwAfter dia 0 true true s).2.1 && !(kwAfter dia 0 true true s).2.2) || decide ((kwAfter dia 0 true true s).1 < 5)) = true := by
  match s with
  | [] => simp [kwAfter]
  | [_] => simp [kwAfter, kwStep]
  | [_, _] => simp [kwAfter, kwStep]
  | [_, _, _] => simp [kwAfter, kwStep]
  | [_, _, _, _] => simp [kwAfter, kwStep]
  | a :: b :: c :: d :: e :: rest =>
    have fa := LF.all dia a; have fb := LF.all dia b; have fc := LF.all dia c; have fd := LF.all dia d
    have fe := LF.all dia e
    simp only [startsWithCI, List.length_cons, List.length_nil, List.take, List.map_cons, List.map_nil,
      beq_eq_false_iff_ne, ne_eq, List.cons.injEq, and_true, not_and] at h
    obtain ⟨h1, h2⟩ := h
    have e5 : kwAfter dia 0 true true (a :: b :: c :: d :: e :: rest)
        = kwAfter dia 5 (classOf dia a == .d && classOf dia b == .a && classOf dia c == .t && classOf dia d == .a && classOf dia e == .undersc)
            (classOf dia a == .s && classOf dia b == .a && classOf dia c == .v && classOf dia d == .e && classOf dia e == .undersc) rest := by
      simp [kwAfter, kwStep, dataCls, saveCls]
    rw [e5, kwAfter_ge5 dia rest 5 _ _ (by omega)]
    simp only [Bool.or_eq_true, Bool.and_eq_true, Bool.not_eq_true', decide_eq_true_eq]
    left
    constructor
    · simp only [Bool.and_eq_false_iff, beq_eq_false_iff_ne, ne_eq]
      by_cases g1 : classOf dia a = .d
      · by_cases g2 : classOf dia b = .a
        · by_cases g3 : classOf dia c = .t
          · by_cases g4 : classOf dia d = .a
            · right
              intro g5
              exact h1 (fa.d.mp g1) (fb.a.mp g2) (fc.t.mp g3) (fd.a.mp g4) (fe.u.mp g5)
            · exact Or.inl (Or.inr g4)
          · exact Or.inl (Or.inl (Or.inr g3))
        · exact Or.inl (Or.inl (Or.inl (Or.inr g2)))
      · exact Or.inl (Or.inl (Or.inl (Or.inl g1)))
    · simp only [Bool.and_eq_false_iff, beq_eq_false_iff_ne, ne_eq]
      by_cases g1 : classOf dia a = .s
      · by_cases g2 : classOf dia b = .a
        · by_cases g3 : classOf dia c = .v
          · by_cases g4 : classOf dia d = .e
            · right
              intro g5
              exact h2 (fa.s.mp g1) (fb.a.mp g2) (fc.v.mp g3) (fd.e.mp g4) (fe.u.mp g5)
            · exact Or.inl (Or.inr g4)
          · exact Or.inl (Or.inl (Or.inr g3))
        · exact Or.inl (Or.inl (Or.inl (Or.inr g2)))
      · exact Or.inl (Or.inl (Or.inl (Or.inl g1)))


/-- whitespace-delimited value directly followed by a closing bracket or brace (CIF 2.0) -/
theorem stepTok_bare_close (dia : Dialect) (hdia : dia = .cif2) (s : Str) (dc : Nat) (hdc : dc = 93 ∨ dc = 125) (rest : Str)
    (line col : Nat) (pol : Policy) (log : List Report)
    (hok : bareOk dia s = true) (hsemi : semiOk s col = true) :
    ∃ c r, s = c :: r ∧
    stepTok dia true c (r ++ dc :: rest) line col pol log
      = .ok (.tok ⟨.value, s, line, col + colAdd s⟩ ⟨dc :: rest, line, col + colAdd s⟩) log := by
  cases s with
  | nil => simp [bareOk] at hok
  | cons c r =>
    refine ⟨c, r, rfl, ?_⟩
    simp only [bareOk, Bool.and_eq_true, Bool.not_eq_true', Bool.or_eq_false_iff, beq_eq_false_iff_ne, ne_eq] at hok
    obtain ⟨⟨⟨⟨hunits, hnws⟩, hfirst⟩, hbr⟩, hres⟩ := hok
    have hbr2 : dia = .cif2 → (c :: r).all (fun x => !(x == 91 || x == 93 || x == 123 || x == 125)) = true := by
      intro hd; subst hd; exact hbr
    have hf : UF dia c := okUnits_head_facts dia c r hunits
    have hnws1 : isWs c = false := by
      simp only [List.all_cons, Bool.and_eq_true, Bool.not_eq_true'] at hnws; exact hnws.1
    have hmeta : metaOfCls (classOf dia c) ≠ .ws ∧ metaOfCls (classOf dia c) ≠ .open_ ∧ metaOfCls (classOf dia c) ≠ .close := by
      refine ⟨?_, ?_, ?_⟩
      · have := hf.mws; simp only [metaOf] at this; intro h; have h' := this.mp h; simp [hnws1] at h'
      · have := hf.mopen; simp only [metaOf] at this; intro h; obtain ⟨hd, hc⟩ := this.mp h
        have := hbr2 hd
        simp only [List.all_cons, Bool.and_eq_true, Bool.not_eq_true', Bool.or_eq_false_iff, beq_eq_false_iff_ne] at this
        rcases hc with hc | hc
        · exact this.1.1.1.1 hc
        · exact this.1.1.2 hc
      · have := hf.mclose; simp only [metaOf] at this; intro h; obtain ⟨hd, hc⟩ := this.mp h
        have := hbr2 hd
        simp only [List.all_cons, Bool.and_eq_true, Bool.not_eq_true', Bool.or_eq_false_iff, beq_eq_false_iff_ne] at this
        rcases hc with hc | hc
        · exact this.1.1.1.2 hc
        · exact this.1.2 hc
    have hc1 : ¬ classOf dia c = .eol := by rw [hf.eol]; simp [isWs, isEol] at hnws1; exact hnws1.2
    have hc2 : ¬ classOf dia c = .ws := by rw [hf.ws]; simp [isWs] at hnws1; simp [hnws1.1]
    have hc3 : ¬ classOf dia c = .hash := by rw [hf.hash]; exact hfirst.1.1.1.2
    have hc4 : ¬ classOf dia c = .undersc := by rw [hf.undersc]; exact hfirst.2
    have hc9 : ¬ classOf dia c = .quote := by rw [hf.quote]; rintro (h | h); exact hfirst.1.1.1.1 h; exact hfirst.1.2 h
    have hc5 : ¬ classOf dia c = .obrak := by intro h; apply hmeta.2.1; rw [h]; rfl
    have hc6 : ¬ classOf dia c = .cbrak := by intro h; apply hmeta.2.2; rw [h]; rfl
    have hc7 : ¬ classOf dia c = .ocurl := by intro h; apply hmeta.2.1; rw [h]; rfl
    have hc8 : ¬ classOf dia c = .ccurl := by intro h; apply hmeta.2.2; rw [h]; rfl
    have hcv := classify_value dia (c :: r) hres
    simp only [stepTok, bind_eq, pure_eq]
    have hrep : ((metaOfCls (classOf dia c) != Meta.close && metaOfCls (classOf dia c) != Meta.ws && !true) = false) := by simp
    simp only [hrep, reportIf_false, L.pure_bind, hc1, hc2, hc3, hc4, hc5, hc6, hc7, hc8, hc9, if_false]
    by_cases hs : classOf dia c = .semi
    · have hc59 : c = 59 := hf.semi.mp hs
      subst hc59
      have hcol : ¬ col + 1 = 1 := by
        simp [semiOk] at hsemi; omega
      simp only [hs, if_true, hcol, if_false, Nat.add_sub_cancel]
      have hfl : ((!(kwAfter .cif2 0 true true (59 :: r)).2.1 && !(kwAfter .cif2 0 true true (59 :: r)).2.2)
          || decide ((kwAfter .cif2 0 true true (59 :: r)).1 < 5)) = true := by
        apply kwAfter_flags
        simp only [isReservedWord, Bool.or_eq_false_iff] at hres
        exact ⟨hres.1.1.1.1, hres.1.1.1.2⟩
      have hscan := scanUnquoted_close dc hdc rest line pol log (59 :: r) none [] col 0 true true (hdia ▸ hunits) trivial hnws (hbr2 hdia) hfl
      rw [← hdia] at hscan
      simp only [Option.isSome_none, List.cons_append] at hscan
      rw [L.bind_ok hscan]
      simp [finishUnquoted, hcv, mkTok]
    · simp only [hs, if_false, Nat.add_sub_cancel]
      have hfl : ((!(kwAfter .cif2 0 true true (c :: r)).2.1 && !(kwAfter .cif2 0 true true (c :: r)).2.2)
          || decide ((kwAfter .cif2 0 true true (c :: r)).1 < 5)) = true := by
        apply kwAfter_flags
        simp only [isReservedWord, Bool.or_eq_false_iff] at hres
        exact ⟨hres.1.1.1.1, hres.1.1.1.2⟩
      have hscan := scanUnquoted_close dc hdc rest line pol log (c :: r) none [] col 0 true true (hdia ▸ hunits) trivial hnws (hbr2 hdia) hfl
      rw [← hdia] at hscan
      simp only [Option.isSome_none, List.cons_append] at hscan
      rw [L.bind_ok hscan]
      simp [finishUnquoted, hcv, mkTok]


end CifModel.Model.Lexer
