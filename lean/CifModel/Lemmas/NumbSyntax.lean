import CifModel.Model.Numb
import CifModel.Spec.Rounding
import CifModel.Lemmas.NumbMisc
/-
  Lemmas for C10_syntax: `parseNumbZL` accepts exactly the texts of `NumberSyntax`, with the denoted fields.
-/
namespace CifModel.Lemmas.NumbSyntax
open CifModel.Model.Numb CifModel.Spec.Rounding CifModel.Lemmas.NumbMisc

/-! ### list basics -/

theorem takeWhile_append_all (p : Nat → Bool) (l1 l2 : List Nat) (h : ∀ c ∈ l1, p c = true) :
    (l1 ++ l2).takeWhile p = l1 ++ l2.takeWhile p := by
  induction l1 with
  | nil => rfl
  | cons x r ih =>
    have hx : p x = true := h x (by simp)
    simp only [List.cons_append, List.takeWhile_cons, hx, if_true]
    rw [ih (fun c hc => h c (by simp [hc]))]

theorem dropWhile_append_all (p : Nat → Bool) (l1 l2 : List Nat) (h : ∀ c ∈ l1, p c = true) :
    (l1 ++ l2).dropWhile p = l2.dropWhile p := by
  induction l1 with
  | nil => rfl
  | cons x r ih =>
    have hx : p x = true := h x (by simp)
    simp only [List.cons_append, List.dropWhile_cons, hx, if_true]
    exact ih (fun c hc => h c (by simp [hc]))

/-- the list is empty or starts with a unit that is not a digit -/
def NoDigitHead (l : Str) : Prop := ∀ c r, l = c :: r → isDigit c = false

theorem takeWhile_noDigitHead (l : Str) (h : NoDigitHead l) : l.takeWhile isDigit = [] := by
  cases l with
  | nil => rfl
  | cons c r => simp [List.takeWhile_cons, h c r rfl]

theorem dropWhile_noDigitHead (l : Str) (h : NoDigitHead l) : l.dropWhile isDigit = l := by
  cases l with
  | nil => rfl
  | cons c r => simp [List.dropWhile_cons, h c r rfl]

theorem dropWhile_noDigitHead' (l : Str) : NoDigitHead (l.dropWhile isDigit) := by
  induction l with
  | nil => intro c r h; simp at h
  | cons x t ih =>
    rw [List.dropWhile_cons]
    by_cases hx : isDigit x = true
    · rw [if_pos hx]; exact ih
    · rw [if_neg hx]
      intro c r h
      simp only [List.cons.injEq] at h
      rw [← h.1]; simpa using hx

theorem isDigit_iff (c : Nat) : isDigit c = true ↔ IsDigit c := by
  unfold isDigit IsDigit UCHAR_0 UCHAR_9
  simp

theorem allDigits_iff (l : Str) : AllDigits l ↔ ∀ c ∈ l, isDigit c = true := by
  unfold AllDigits
  constructor
  · intro h c hc; exact (isDigit_iff c).mpr (h c hc)
  · intro h c hc; exact (isDigit_iff c).mp (h c hc)

theorem allDigits_takeWhile (l : Str) : AllDigits (l.takeWhile isDigit) :=
  (allDigits_iff _).mpr (mem_takeWhile_prop isDigit l)

/-- digits then a non-digit tail: the scan splits exactly there -/
theorem scan_digits (ds tl : Str) (hd : AllDigits ds) (ht : NoDigitHead tl) :
    (ds ++ tl).takeWhile isDigit = ds ∧ (ds ++ tl).dropWhile isDigit = tl := by
  have h := (allDigits_iff ds).mp hd
  rw [takeWhile_append_all _ _ _ h, dropWhile_append_all _ _ _ h, takeWhile_noDigitHead tl ht, dropWhile_noDigitHead tl ht]
  simp

/-! ### sign -/

theorem takeSign_spec (sg rest : Str) (neg : Bool) (hs : SignText sg neg)
    (hr : ∀ c r, rest = c :: r → c ≠ UCHAR_MINUS ∧ c ≠ UCHAR_PLUS) : takeSign (sg ++ rest) = (neg, rest) := by
  cases hs with
  | none =>
    cases rest with
    | nil => rfl
    | cons c r =>
      have := hr c r rfl
      simp [takeSign, this.1, this.2]
  | plus => simp [takeSign, UCHAR_MINUS, UCHAR_PLUS]
  | minus => simp [takeSign, UCHAR_MINUS]

theorem takeSign_decomp (t : Str) : ∃ sg, SignText sg (takeSign t).1 ∧ t = sg ++ (takeSign t).2 := by
  cases t with
  | nil => exact ⟨[], SignText.none, rfl⟩
  | cons c r =>
    unfold takeSign
    by_cases h1 : c = UCHAR_MINUS
    · simp only [h1, if_true]
      exact ⟨[45], SignText.minus, rfl⟩
    · simp only [h1, if_false]
      by_cases h2 : c = UCHAR_PLUS
      · simp only [h2, if_true]
        exact ⟨[43], SignText.plus, rfl⟩
      · simp only [h2, if_false]
        exact ⟨[], SignText.none, rfl⟩


/-! ### the digit string -/

/-- what may follow the digit string: nothing, an exponent letter or `(` — in particular no digit and no point -/
def TailOK (tl : Str) : Prop := ∀ c r, tl = c :: r → isDigit c = false ∧ c ≠ UCHAR_DECIMAL

theorem TailOK.noDigit {tl : Str} (h : TailOK tl) : NoDigitHead tl := fun c r e => (h c r e).1

theorem mant_int (ip tl : Str) (hd : AllDigits ip) (ht : TailOK tl) :
    mantA (ip ++ tl) = ip ∧ hasPoint (ip ++ tl) = false ∧ mantB (ip ++ tl) = [] ∧ afterMant (ip ++ tl) = tl := by
  obtain ⟨h1, h2⟩ := scan_digits ip tl hd ht.noDigit
  have hp : hasPoint (ip ++ tl) = false := by
    unfold hasPoint afterA
    rw [h2]
    cases tl with
    | nil => rfl
    | cons c r => simp [(ht c r rfl).2]
  refine ⟨h1, hp, ?_, ?_⟩
  · unfold mantB; rw [hp]; rfl
  · unfold afterMant afterA; rw [hp, h2]; rfl

theorem point_noDigitHead (l : Str) : NoDigitHead (UCHAR_DECIMAL :: l) := by
  intro c r h
  simp only [List.cons.injEq] at h
  rw [← h.1]; decide

theorem mant_point (ip fp tl : Str) (hd : AllDigits ip) (hf : AllDigits fp) (ht : TailOK tl) :
    mantA (ip ++ UCHAR_DECIMAL :: fp ++ tl) = ip ∧ hasPoint (ip ++ UCHAR_DECIMAL :: fp ++ tl) = true ∧
    mantB (ip ++ UCHAR_DECIMAL :: fp ++ tl) = fp ∧ afterMant (ip ++ UCHAR_DECIMAL :: fp ++ tl) = tl := by
  have e : ip ++ UCHAR_DECIMAL :: fp ++ tl = ip ++ (UCHAR_DECIMAL :: (fp ++ tl)) := by simp
  rw [e]
  obtain ⟨h1, h2⟩ := scan_digits ip (UCHAR_DECIMAL :: (fp ++ tl)) hd (point_noDigitHead _)
  obtain ⟨h3, h4⟩ := scan_digits fp tl hf ht.noDigit
  have hp : hasPoint (ip ++ (UCHAR_DECIMAL :: (fp ++ tl))) = true := by
    unfold hasPoint afterA
    rw [h2]; simp
  refine ⟨h1, hp, ?_, ?_⟩
  · unfold mantB afterA; rw [hp, h2]; simp only [if_true, List.drop_succ_cons, List.drop_zero]; exact h3
  · unfold afterMant afterA; rw [hp, h2]; simp only [if_true, List.drop_succ_cons, List.drop_zero]; exact h4

/-- backward: the scan always decomposes the text after the sign -/
theorem mant_decomp (s0 : Str) (hne : (mantA s0).length + (mantB s0).length ≠ 0) :
    ∃ m, MantText m (mantA s0) (mantB s0) ∧ s0 = m ++ afterMant s0 := by
  have hsplit : s0 = mantA s0 ++ afterA s0 := (List.takeWhile_append_dropWhile).symm
  have hA := allDigits_takeWhile s0
  by_cases hp : hasPoint s0 = true
  · -- afterA = '.' :: rest
    have hform : ∃ rest, afterA s0 = UCHAR_DECIMAL :: rest := by
      unfold hasPoint at hp
      cases h : afterA s0 with
      | nil => rw [h] at hp; simp at hp
      | cons c r => rw [h] at hp; simp at hp; exact ⟨r, by rw [hp]⟩
    obtain ⟨rest, hrest⟩ := hform
    have hB : mantB s0 = rest.takeWhile isDigit := by unfold mantB; rw [if_pos hp, hrest]; simp
    have hM : afterMant s0 = rest.dropWhile isDigit := by unfold afterMant; rw [if_pos hp, hrest]; simp
    refine ⟨mantA s0 ++ UCHAR_DECIMAL :: mantB s0, ?_, ?_⟩
    · refine MantText.point _ _ hA (by rw [hB]; exact allDigits_takeWhile rest) ?_
      intro h
      have h2 := congrArg List.length h
      simp only [List.length_append, List.length_nil] at h2
      omega
    · have : rest = mantB s0 ++ afterMant s0 := by rw [hB, hM]; exact (List.takeWhile_append_dropWhile).symm
      calc s0 = mantA s0 ++ afterA s0 := hsplit
        _ = mantA s0 ++ UCHAR_DECIMAL :: rest := by rw [hrest]
        _ = mantA s0 ++ UCHAR_DECIMAL :: (mantB s0 ++ afterMant s0) := by rw [← this]
        _ = mantA s0 ++ UCHAR_DECIMAL :: mantB s0 ++ afterMant s0 := by simp
  · have hp' : hasPoint s0 = false := by simpa using hp
    have hB : mantB s0 = [] := by unfold mantB; rw [hp']; rfl
    have hM : afterMant s0 = afterA s0 := by unfold afterMant; rw [hp']; rfl
    rw [hB] at hne ⊢
    refine ⟨mantA s0, MantText.int _ hA ?_, ?_⟩
    · intro h; rw [h] at hne; simp at hne
    · rw [hM]; exact hsplit


/-! ### exponent -/

/-- what the exponent part adds to the scale -/
def expContrib (lim : Nat) : Option (Bool × Str) → Int
  | none => 0
  | some (neg, ds) => if neg then ((expAccumL lim ds : Nat) : Int) else -((expAccumL lim ds : Nat) : Int)

/-- the su part is empty or starts with `(` -/
def SuHead (u : Str) : Prop := ∀ c r, u = c :: r → c = UCHAR_OPEN

theorem SuHead.noDigit {u : Str} (h : SuHead u) : NoDigitHead u := by
  intro c r e; rw [h c r e]; decide

theorem suText_head (u : Str) (su : Option Str) (h : SuText u su) : SuHead u := by
  cases h with
  | none => intro c r e; simp at e
  | some ds _ _ => intro c r e; simp only [List.cons_append, List.cons.injEq] at e; exact e.1.symm

theorem digits_head_not_sign (ds tl : Str) (hd : AllDigits ds) (hne : ds ≠ []) :
    ∀ c r, ds ++ tl = c :: r → c ≠ UCHAR_MINUS ∧ c ≠ UCHAR_PLUS := by
  intro c r e
  cases ds with
  | nil => exact absurd rfl hne
  | cons d t =>
    simp only [List.cons_append, List.cons.injEq] at e
    have := hd d (by simp)
    unfold IsDigit at this
    have hcd : c = d := e.1.symm
    subst hcd
    have h45 : UCHAR_MINUS = 45 := rfl
    have h43 : UCHAR_PLUS = 43 := rfl
    rw [h45, h43]
    refine ⟨fun h => ?_, fun h => ?_⟩
    · rw [h] at this; exact absurd this.1 (by decide)
    · rw [h] at this; exact absurd this.1 (by decide)

theorem exp_forward (lim : Nat) (x u : Str) (ex : Option (Bool × Str)) (hx : ExpText x ex) (hu : SuHead u) :
    parseExpL lim (x ++ u) = some (expContrib lim ex, u) := by
  cases hx with
  | none =>
    cases u with
    | nil => rfl
    | cons c r =>
      have hc := hu c r rfl
      subst hc
      simp [parseExpL, expContrib, UCHAR_OPEN, UCHAR_E, UCHAR_e]
  | some c sg neg ds hc hs hd hne =>
    have e1 : (c :: sg ++ ds) ++ u = c :: (sg ++ (ds ++ u)) := by simp
    rw [e1]
    have hts := takeSign_spec sg (ds ++ u) neg hs (digits_head_not_sign ds u hd hne)
    obtain ⟨h1, h2⟩ := scan_digits ds u hd hu.noDigit
    unfold parseExpL
    have hc' : c = UCHAR_E ∨ c = UCHAR_e := hc
    simp only [hc', if_true, hts, h1, h2, hne, if_false]
    cases neg <;> simp [expContrib]

theorem exp_tailOK (x u : Str) (ex : Option (Bool × Str)) (hx : ExpText x ex) (hu : SuHead u) : TailOK (x ++ u) := by
  intro c r e
  cases hx with
  | none =>
    simp only [List.nil_append] at e
    rw [hu c r e]; decide
  | some c' sg neg ds hc _ _ _ =>
    simp only [List.cons_append, List.cons.injEq] at e
    rw [← e.1]
    rcases hc with h | h <;> (rw [h]; decide)

theorem exp_backward (lim : Nat) (tl : Str) (r : Int × Str) (h : parseExpL lim tl = some r) :
    ∃ x ex, ExpText x ex ∧ tl = x ++ r.2 ∧ r.1 = expContrib lim ex := by
  unfold parseExpL at h
  cases tl with
  | nil =>
    simp only [Option.some.injEq] at h
    exact ⟨[], none, ExpText.none, by rw [← h]; rfl, by rw [← h]; rfl⟩
  | cons c t =>
    simp only at h
    by_cases hc : c = UCHAR_E ∨ c = UCHAR_e
    · rw [if_pos hc] at h
      by_cases hd : (takeSign t).2.takeWhile isDigit = []
      · rw [if_pos hd] at h; cases h
      · rw [if_neg hd] at h
        simp only [Option.some.injEq] at h
        obtain ⟨sg, hsg, hdec⟩ := takeSign_decomp t
        refine ⟨c :: sg ++ (takeSign t).2.takeWhile isDigit, some ((takeSign t).1, (takeSign t).2.takeWhile isDigit),
          ExpText.some c sg _ _ hc hsg (allDigits_takeWhile _) hd, ?_, ?_⟩
        · rw [← h]
          simp only
          have : (takeSign t).2 = (takeSign t).2.takeWhile isDigit ++ (takeSign t).2.dropWhile isDigit :=
            (List.takeWhile_append_dropWhile).symm
          calc c :: t = c :: (sg ++ (takeSign t).2) := by rw [← hdec]
            _ = c :: (sg ++ ((takeSign t).2.takeWhile isDigit ++ (takeSign t).2.dropWhile isDigit)) := by rw [← this]
            _ = _ := by simp
        · rw [← h]
          simp only [expContrib]
    · rw [if_neg hc] at h
      simp only [Option.some.injEq] at h
      exact ⟨[], none, ExpText.none, by rw [← h]; rfl, by rw [← h]; rfl⟩

/-! ### uncertainty -/

theorem su_forward (u : Str) (su : Option Str) (h : SuText u su) : parseSu u = some (su.map trimZeros, []) := by
  cases h with
  | none => rfl
  | some ds hd hne =>
    have e1 : UCHAR_OPEN :: ds ++ [UCHAR_CLOSE] = UCHAR_OPEN :: (ds ++ [UCHAR_CLOSE]) := by simp
    have hnd : NoDigitHead [UCHAR_CLOSE] := by
      intro c r e; simp only [List.cons.injEq] at e; rw [← e.1]; decide
    obtain ⟨h1, h2⟩ := scan_digits ds [UCHAR_CLOSE] hd hnd
    show parseSu (UCHAR_OPEN :: ds ++ [UCHAR_CLOSE]) = _
    rw [e1]
    unfold parseSu
    simp only [if_true, h1, h2, hne, false_or, ne_eq, not_true_eq_false, if_false, Option.map]

theorem su_backward (t : Str) (u : Option Str × Str) (h : parseSu t = some u) (hu : u.2 = []) :
    ∃ su, SuText t su ∧ u.1 = su.map trimZeros := by
  unfold parseSu at h
  cases t with
  | nil =>
    simp only [Option.some.injEq] at h
    exact ⟨none, SuText.none, by rw [← h]; rfl⟩
  | cons c r =>
    simp only at h
    by_cases hc : c = UCHAR_OPEN
    · rw [if_pos hc] at h
      cases hdw : r.dropWhile isDigit with
      | nil => rw [hdw] at h; cases h
      | cons c1 r2 =>
        rw [hdw] at h
        simp only at h
        by_cases hcond : r.takeWhile isDigit = [] ∨ c1 ≠ UCHAR_CLOSE
        · rw [if_pos hcond] at h; cases h
        · rw [if_neg hcond] at h
          simp only [Option.some.injEq] at h
          have hr2 : r2 = [] := by rw [← h] at hu; exact hu
          have hne : r.takeWhile isDigit ≠ [] := fun e => hcond (Or.inl e)
          have hc1 : c1 = UCHAR_CLOSE := by
            by_cases e : c1 = UCHAR_CLOSE
            · exact e
            · exact absurd (Or.inr e) hcond
          refine ⟨some (r.takeWhile isDigit), ?_, by rw [← h]; rfl⟩
          have hr : r = r.takeWhile isDigit ++ [UCHAR_CLOSE] := by
            have := (List.takeWhile_append_dropWhile (p := isDigit) (l := r)).symm
            rw [hdw, hc1, hr2] at this
            exact this
          have : c :: r = UCHAR_OPEN :: r.takeWhile isDigit ++ [UCHAR_CLOSE] := by
            rw [hc]; simp only [List.cons_append]; rw [← hr]
          rw [this]
          exact SuText.some _ (allDigits_takeWhile r) hne
    · rw [if_neg hc] at h
      simp only [Option.some.injEq] at h
      rw [← h] at hu
      simp at hu


/-! ### the digit string that is stored -/

theorem foldl_map_digits (l : Str) (acc : Nat) :
    (digitVals l).foldl (fun a d => a * 10 + d) acc = l.foldl (fun a c => a * 10 + (c - 48)) acc := by
  unfold digitVals UCHAR_0
  rw [List.foldl_map]

theorem natOfDigits_digitVals (l : Str) : natOfDigits (digitVals l) = digitsValue l := by
  unfold natOfDigits digitsValue
  exact foldl_map_digits l 0

/-- trimming leading zeroes and the point does not change the value of the digits -/
theorem value_trimLead (l : Str) :
    digitsValue ((trimLead l).filter (· ≠ UCHAR_DECIMAL)) = digitsValue (l.filter (· ≠ UCHAR_DECIMAL)) := by
  induction l with
  | nil => rfl
  | cons c rest ih =>
    rw [trimLead]
    by_cases hc : (c = UCHAR_0 ∨ c = UCHAR_DECIMAL) ∧ rest ≠ []
    · rw [if_pos hc, ih]
      rcases hc.1 with h | h
      · subst h
        have : (UCHAR_0 :: rest).filter (· ≠ UCHAR_DECIMAL) = UCHAR_0 :: rest.filter (· ≠ UCHAR_DECIMAL) := by
          simp [List.filter_cons, UCHAR_0, UCHAR_DECIMAL]
        rw [this]
        unfold digitsValue
        simp [List.foldl_cons, UCHAR_0]
      · subst h
        have : (UCHAR_DECIMAL :: rest).filter (· ≠ UCHAR_DECIMAL) = rest.filter (· ≠ UCHAR_DECIMAL) := by
          simp [List.filter_cons]
        rw [this]
    · rw [if_neg hc]

theorem filter_allDigits (l : Str) (h : AllDigits l) : l.filter (· ≠ UCHAR_DECIMAL) = l := by
  rw [List.filter_eq_self]
  intro c hc
  have := h c hc
  unfold IsDigit at this
  simp only [ne_eq, decide_not, Bool.not_eq_eq_eq_not, Bool.not_true, decide_eq_false_iff_not]
  intro e
  rw [e] at this
  exact absurd this.1 (by decide)

theorem mantDigits_value (s0 : Str) (ip fp : Str) (hip : AllDigits ip) (hfp : AllDigits fp)
    (hr : mantRegion s0 = ip ∧ fp = [] ∨ mantRegion s0 = ip ++ UCHAR_DECIMAL :: fp) :
    natOfDigits (mantDigits s0) = digitsValue (ip ++ fp) := by
  unfold mantDigits
  rw [natOfDigits_digitVals, value_trimLead]
  rcases hr with ⟨h1, h2⟩ | h
  · rw [h1, h2, filter_allDigits ip hip]; simp
  · rw [h, List.filter_append, filter_allDigits ip hip]
    have : (UCHAR_DECIMAL :: fp).filter (· ≠ UCHAR_DECIMAL) = fp.filter (· ≠ UCHAR_DECIMAL) := by simp [List.filter_cons]
    rw [this, filter_allDigits fp hfp]

theorem value_trimZeros (l : Str) : digitsValue (trimZeros l) = digitsValue l := by
  induction l with
  | nil => rfl
  | cons c rest ih =>
    rw [trimZeros]
    by_cases hc : c = UCHAR_0 ∧ rest ≠ []
    · rw [if_pos hc, ih]
      obtain ⟨h, _⟩ := hc
      subst h
      unfold digitsValue
      simp [List.foldl_cons, UCHAR_0]
    · rw [if_neg hc]

theorem su_value (su : Option Str) :
    (su.map (fun s => digitVals (trimZeros s))).map natOfDigits = su.map digitsValue := by
  cases su with
  | none => rfl
  | some s => simp only [Option.map]; rw [natOfDigits_digitVals, value_trimZeros]

/-! ### both directions -/

theorem digit_not_sign (d : Nat) (h : IsDigit d) : d ≠ UCHAR_MINUS ∧ d ≠ UCHAR_PLUS := by
  unfold IsDigit at h
  have h45 : UCHAR_MINUS = 45 := rfl
  have h43 : UCHAR_PLUS = 43 := rfl
  rw [h45, h43]
  refine ⟨fun e => ?_, fun e => ?_⟩
  · rw [e] at h; exact absurd h.1 (by decide)
  · rw [e] at h; exact absurd h.1 (by decide)

theorem mant_head_not_sign (m ip fp tl : Str) (hm : MantText m ip fp) :
    ∀ c r, m ++ tl = c :: r → c ≠ UCHAR_MINUS ∧ c ≠ UCHAR_PLUS := by
  cases hm with
  | int _ hd hne => exact digits_head_not_sign m tl hd hne
  | point _ _ hd hf hne =>
    intro c r e
    cases ip with
    | nil =>
      simp only [List.nil_append, List.cons_append, List.cons.injEq] at e
      rw [← e.1]; decide
    | cons d t =>
      simp only [List.cons_append, List.cons.injEq] at e
      rw [← e.1]
      exact digit_not_sign d (hd d (by simp))

theorem parse_eval (lim : Nat) (t s0 : Str) (neg : Bool) (r : Int × Str) (u : Option Str × Str)
    (hts : takeSign t = (neg, s0)) (hne : ¬ ((mantA s0).length + (mantB s0).length = 0))
    (hE : parseExpL lim (afterMant s0) = some r) (hS : parseSu r.2 = some u) (hu : u.2 = []) :
    parseNumbZL lim t = some { neg := neg, digits := mantDigits s0, su := u.1.map digitVals,
                               scale := if numDecimal s0 then r.1 + ((mantB s0).length : Nat) else r.1 } := by
  unfold parseNumbZL
  rw [hts]
  simp only [hne, if_false, hE, hS, hu, ne_eq, not_true_eq_false]

/-- **acceptance, strong form**: a text with parts `p` is accepted and the stored fields are the denoted ones -/
theorem parse_of_parts (lim : Nat) (t : Str) (p : Parts) (h : NumberParts t p) :
    ∃ f, parseNumbZL lim t = some f ∧ f.neg = p.neg ∧ natOfDigits f.digits = p.mantissa ∧
      f.su = p.su.map (fun s => digitVals (trimZeros s)) ∧ f.scale = expContrib lim p.exp + (p.fp.length : Int) ∧
      f.digits = digitVals ((trimLead (if p.fp = [] then p.ip else p.ip ++ UCHAR_DECIMAL :: p.fp)).filter (· ≠ UCHAR_DECIMAL)) := by
  cases h with
  | mk sg m x u neg ip fp ex su hs hm hx hu =>
    have hsu := suText_head u su hu
    have htail := exp_tailOK x u ex hx hsu
    have e0 : sg ++ m ++ x ++ u = sg ++ (m ++ (x ++ u)) := by simp
    have hts : takeSign (sg ++ m ++ x ++ u) = (neg, m ++ (x ++ u)) := by
      rw [e0]; exact takeSign_spec sg _ neg hs (mant_head_not_sign m ip fp (x ++ u) hm)
    have hE := exp_forward lim x u ex hx hsu
    have hS := su_forward u su hu
    have hsumap : Option.map digitVals (Option.map trimZeros su) = Option.map (fun s => digitVals (trimZeros s)) su := by
      cases su <;> rfl
    cases hm with
    | int _ hd hne =>
      obtain ⟨a1, a2, a3, a4⟩ := mant_int m (x ++ u) hd htail
      have hnd : numDecimal (m ++ (x ++ u)) = false := by unfold numDecimal; rw [a2]; rfl
      have hreg : mantRegion (m ++ (x ++ u)) = m := by unfold mantRegion; rw [hnd, a1]; rfl
      have hne0 : ¬ ((mantA (m ++ (x ++ u))).length + (mantB (m ++ (x ++ u))).length = 0) := by
        rw [a1, a3]
        cases m with
        | nil => exact absurd rfl hne
        | cons _ _ => simp
      have hev := parse_eval lim _ _ neg _ _ hts hne0 (by rw [a4]; exact hE) hS rfl
      refine ⟨_, hev, rfl, ?_, hsumap, ?_, ?_⟩
      · simp only [Parts.mantissa]
        exact mantDigits_value _ m [] hd (by intro c hc; simp at hc) (Or.inl ⟨hreg, rfl⟩)
      · simp only [hnd]; simp
      · simp only [mantDigits, hreg, if_true]
    | point _ _ hd hf hne =>
      obtain ⟨a1, a2, a3, a4⟩ := mant_point ip fp (x ++ u) hd hf htail
      have hdec : UCHAR_DECIMAL = 46 := rfl
      rw [hdec] at a1 a2 a3 a4
      have hnd : numDecimal (ip ++ 46 :: fp ++ (x ++ u)) = !fp.isEmpty := by unfold numDecimal; rw [a2, a3]; rfl
      have hne0 : ¬ ((mantA (ip ++ 46 :: fp ++ (x ++ u))).length + (mantB (ip ++ 46 :: fp ++ (x ++ u))).length = 0) := by
        rw [a1, a3]
        intro h0
        apply hne
        have h1 : ip.length = 0 := by omega
        have h2 : fp.length = 0 := by omega
        rw [List.length_eq_zero_iff] at h1 h2
        rw [h1, h2]; rfl
      have hev := parse_eval lim _ _ neg _ _ hts hne0 (by rw [a4]; exact hE) hS rfl
      have hreg : mantRegion (ip ++ 46 :: fp ++ (x ++ u)) = if fp = [] then ip else ip ++ UCHAR_DECIMAL :: fp := by
        unfold mantRegion
        rw [hnd, a1, a3]
        cases fp with
        | nil => rfl
        | cons d r => rfl
      refine ⟨_, hev, rfl, ?_, hsumap, ?_, ?_⟩
      · simp only [Parts.mantissa]
        apply mantDigits_value _ ip fp hd hf
        rw [hreg]
        cases fp with
        | nil => left; exact ⟨rfl, rfl⟩
        | cons d r => right; rfl
      · simp only [hnd, a3]
        cases fp with
        | nil => simp
        | cons d r => simp
      · simp only [mantDigits, hreg]

/-- **acceptance, converse**: every accepted text has the parts of the numeric syntax -/
theorem parts_of_parse (lim : Nat) (t : Str) (f : NumbFields) (h : parseNumbZL lim t = some f) : ∃ p, NumberParts t p := by
  unfold parseNumbZL at h
  by_cases h0 : (mantA (takeSign t).2).length + (mantB (takeSign t).2).length = 0
  · rw [if_pos h0] at h; cases h
  · rw [if_neg h0] at h
    cases hE : parseExpL lim (afterMant (takeSign t).2) with
    | none => rw [hE] at h; cases h
    | some r =>
      rw [hE] at h
      simp only at h
      cases hS : parseSu r.2 with
      | none => rw [hS] at h; cases h
      | some u =>
        rw [hS] at h
        simp only at h
        by_cases hu : u.2 ≠ []
        · rw [if_pos hu] at h; cases h
        · have hu' : u.2 = [] := by simpa using hu
          obtain ⟨sg, hsg, hdec⟩ := takeSign_decomp t
          obtain ⟨m, hm, hmdec⟩ := mant_decomp (takeSign t).2 h0
          obtain ⟨x, ex, hx, hxdec, _⟩ := exp_backward lim _ r hE
          obtain ⟨su, hsu, _⟩ := su_backward r.2 u hS hu'
          refine ⟨⟨(takeSign t).1, mantA (takeSign t).2, mantB (takeSign t).2, ex, su⟩, ?_⟩
          have : t = sg ++ m ++ x ++ r.2 := by
            calc t = sg ++ (takeSign t).2 := hdec
              _ = sg ++ (m ++ afterMant (takeSign t).2) := by rw [← hmdec]
              _ = sg ++ (m ++ (x ++ r.2)) := by rw [← hxdec]
              _ = sg ++ m ++ x ++ r.2 := by simp
          have key := NumberParts.mk sg m x r.2 _ _ _ ex su hsg hm hx hsu
          rw [← this] at key
          exact key

/-- no saturation: while the written exponent is below the bound the accumulation is exact -/
theorem foldl_ge (l : Str) (acc : Nat) : acc ≤ l.foldl (fun a c => a * 10 + (c - 48)) acc := by
  induction l generalizing acc with
  | nil => exact Nat.le_refl _
  | cons c r ih =>
    simp only [List.foldl_cons]
    exact Nat.le_trans (by omega) (ih (acc * 10 + (c - 48)))

theorem foldl_expStepL_exact (lim : Nat) (l : Str) : ∀ acc, l.foldl (fun a c => a * 10 + (c - 48)) acc < lim →
    l.foldl (expStepL lim) acc = l.foldl (fun a c => a * 10 + (c - 48)) acc := by
  induction l with
  | nil => intro acc _; rfl
  | cons c r ih =>
    intro acc h
    simp only [List.foldl_cons] at h ⊢
    have h1 : acc * 10 + (c - 48) < lim := Nat.lt_of_le_of_lt (foldl_ge r _) h
    have h2 : acc < lim := by omega
    have : expStepL lim acc c = acc * 10 + (c - 48) := by unfold expStepL UCHAR_0; rw [if_pos h2]
    rw [this]
    exact ih _ h

theorem expAccumL_exact (lim : Nat) (ds : Str) (h : digitsValue ds < lim) : expAccumL lim ds = digitsValue ds := by
  unfold expAccumL digitsValue at *
  exact foldl_expStepL_exact lim ds 0 h

theorem expContrib_exact (lim : Nat) (p : Parts) (h : (Parts.expValue p).natAbs < lim) : expContrib lim p.exp = -(Parts.expValue p) := by
  unfold Parts.expValue at *
  cases hp : p.exp with
  | none => simp [expContrib]
  | some nd =>
    obtain ⟨neg, ds⟩ := nd
    rw [hp] at h
    simp only at h
    have hv : digitsValue ds < lim := by
      cases neg <;> simp at h <;> omega
    simp only [expContrib, expAccumL_exact lim ds hv]
    cases neg <;> simp

end CifModel.Lemmas.NumbSyntax
