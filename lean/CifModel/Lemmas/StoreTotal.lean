import CifModel.Lemmas.StoreRefineC
import CifModel.Model.PktItr
/-
  Lemmas/StoreTotal — "every packet of a loop has a stored value for every item of the loop" (PacketsTotal): what fix e266ec6
  established for cif_loop_add_packet, and its preservation by the statements / function bodies that write values.
-/
namespace CifModel.Store
open Gen.ErrCodes

def PacketsTotal (d : Db) : Prop :=
  ∀ x ∈ d.loops, ∀ r ∈ d.loopRows x.cid x.loopNum, ∀ j ∈ d.loopItems x.cid x.loopNum, d.hasValue x.cid j.name r = true

theorem packetsTotalB_sound (d : Db) (h : d.packetsTotalB = true) : PacketsTotal d := by
  intro x hx r hr j hj
  unfold Db.packetsTotalB at h
  exact List.all_eq_true.mp (List.all_eq_true.mp (List.all_eq_true.mp h x hx) r hr) j hj

theorem hasValue_iff (d : Db) (c : Nat) (k : Str) (r : Nat) :
    d.hasValue c k r = true ↔ ∃ w ∈ d.values, w.cid = c ∧ w.name = k ∧ w.rowNum = r := by
  simp [Db.hasValue, List.any_eq_true, and_assoc]

/-- PacketsTotal looks only at the keys of the loops, at loop_item and at item_value -/
theorem PacketsTotal.congr {d d' : Db} (h : PacketsTotal d) (hl : ∀ x ∈ d'.loops, ∃ x0 ∈ d.loops, x0.cid = x.cid ∧ x0.loopNum = x.loopNum)
    (hi : d'.items = d.items) (hv : d'.values = d.values) : PacketsTotal d' := by
  intro x hx r hr j hj
  obtain ⟨x0, hx0, h1, h2⟩ := hl x hx
  have e1 : d'.loopItems x.cid x.loopNum = d.loopItems x0.cid x0.loopNum := by simp only [Db.loopItems, hi, h1, h2]
  have e2 : d'.loopRows x.cid x.loopNum = d.loopRows x0.cid x0.loopNum := by simp only [Db.loopRows, Db.loopItems, hi, hv, h1, h2]
  rw [e1] at hj; rw [e2] at hr
  have := h x0 hx0 r hr j hj
  simp only [Db.hasValue, hv, ← h1] at this ⊢
  exact this

/-- PacketsTotal for every item but (c, k): the state between ADD_LOOP_ITEM_SQL and SET_ALL_VALUES_SQL in cif_loop_add_item -/
def TotalBut (d : Db) (c : Nat) (k : Str) : Prop :=
  ∀ x ∈ d.loops, ∀ r ∈ d.loopRows x.cid x.loopNum, ∀ j ∈ d.loopItems x.cid x.loopNum, ¬ (x.cid = c ∧ j.name = k) →
    d.hasValue x.cid j.name r = true

theorem PacketsTotal.but {d : Db} (h : PacketsTotal d) (c : Nat) (k : Str) : TotalBut d c k := fun x hx r hr j hj _ => h x hx r hr j hj

/-- SET_ALL_VALUES_SQL (set_value of an existing item; the second half of add_item) gives item (cid, k) a value in every row of
    its loop and leaves every other value alone -/
theorem TotalBut.setAllValues {d : Db} {cid : Nat} {k : Str} (h : TotalBut d cid k) (hpk : d.items.Pairwise ItemKeyNe) (v : V) :
    PacketsTotal (d.setAllValues cid k v).1 := by
  unfold Db.setAllValues
  split
  · rename_i hlo
    -- no such item: nothing is excepted
    intro x hx r hr j hj
    refine h x hx r hr j hj (fun ⟨e1, e2⟩ => ?_)
    obtain ⟨hjm, hjk⟩ := List.mem_filter.mp hj
    simp at hjk
    unfold Db.loopOfItem at hlo
    simp only [Option.map_eq_none_iff] at hlo
    have := List.find?_eq_none.mp hlo j hjm
    simp [hjk.1, e1, e2] at this
  · rename_i ln hlo
    have hitem : ∃ i ∈ d.items, i.cid = cid ∧ i.name = k ∧ i.loopNum = ln := by
      unfold Db.loopOfItem at hlo
      cases hf : d.items.find? (fun i => i.cid == cid && i.name == k) with
      | none => simp [hf] at hlo
      | some i =>
        have hmem := List.mem_of_find?_eq_some hf
        have hkey := List.find?_some hf
        simp [hf] at hlo
        simp at hkey
        exact ⟨i, hmem, hkey.1, hkey.2, hlo⟩
    obtain ⟨i, him, hic, hik, hil⟩ := hitem
    let R := d.loopRows cid ln
    intro x hx r hr j hj
    have hxl : x ∈ d.loops := hx
    have hjl : j ∈ d.loopItems x.cid x.loopNum := hj
    obtain ⟨hjm, hjk⟩ := List.mem_filter.mp hjl
    simp at hjk
    -- rows of the new state are rows of the old state
    have hr_old : r ∈ d.loopRows x.cid x.loopNum := by
      obtain ⟨w, hw, hwc, hwa, hwr⟩ := (mem_loopRows_iff _ _ _ _).mp hr
      have hw' : w ∈ d.values.filter (fun w => !(w.cid == cid && w.name == k && R.contains w.rowNum)) ++
          R.map (fun r => ({ cid := cid, name := k, rowNum := r, val := v } : ValueRow)) := hw
      rcases List.mem_append.mp hw' with hw1 | hw1
      · exact (mem_loopRows_iff d _ _ _).mpr ⟨w, (List.mem_filter.mp hw1).1, hwc, hwa, hwr⟩
      · obtain ⟨r', hr', rfl⟩ := List.mem_map.mp hw1
        simp only [] at hwc hwr
        subst hwr
        obtain ⟨j', hj', hj'n⟩ := List.any_eq_true.mp hwa
        obtain ⟨hj'm, hj'k⟩ := List.mem_filter.mp hj'
        simp at hj'k hj'n
        have : j' = i := itemKey_unique d.items hpk j' hj'm i him (by rw [hj'k.1, ← hwc, hic]) (by rw [hj'n, hik])
        subst this
        have e1 : x.cid = cid := by rw [← hj'k.1, hic]
        have e2 : x.loopNum = ln := by rw [← hj'k.2, hil]
        rw [e1, e2]; exact hr'
    rw [hasValue_iff]
    by_cases hjkey : x.cid = cid ∧ j.name = k
    · -- the item that is set: the statement writes a value for every row of its loop
      have : j = i := itemKey_unique d.items hpk j hjm i him (by rw [hjk.1, hjkey.1, hic]) (by rw [hjkey.2, hik])
      subst this
      have e2 : x.loopNum = ln := by rw [← hjk.2, hil]
      have hrR : r ∈ R := by rw [hjkey.1, e2] at hr_old; exact hr_old
      exact ⟨{ cid := cid, name := k, rowNum := r, val := v }, List.mem_append_right _ (List.mem_map.mpr ⟨r, hrR, rfl⟩),
        hjkey.1.symm, hjkey.2.symm, rfl⟩
    · have hold := h x hxl r hr_old j hjl hjkey
      obtain ⟨w0, hw0, h1, h2, h3⟩ := (hasValue_iff d _ _ _).mp hold
      refine ⟨w0, List.mem_append_left _ (List.mem_filter.mpr ⟨hw0, ?_⟩), h1, h2, h3⟩
      have : (w0.cid == cid && w0.name == k) = false := by
        cases hb : (w0.cid == cid && w0.name == k) with
        | false => rfl
        | true =>
          simp only [Bool.and_eq_true, beq_iff_eq] at hb
          exact absurd ⟨h1 ▸ hb.1, h2 ▸ hb.2⟩ hjkey
      simp only [this, Bool.false_and, Bool.not_false]

theorem PacketsTotal.setAllValues {d : Db} (h : PacketsTotal d) (hinv : Inv d) (cid : Nat) (k : Str) (v : V) :
    PacketsTotal (d.setAllValues cid k v).1 := (h.but cid k).setAllValues hinv.itemPK v

/-- values are only appended, all of them for row `row` of loop (cid, ln), and afterwards that row is total -/
theorem PacketsTotal.append {d d' : Db} (h : PacketsTotal d) (hinv : Inv d) (cid ln row : Nat) (new : List ValueRow)
    (hl : ∀ x ∈ d'.loops, ∃ x0 ∈ d.loops, x0.cid = x.cid ∧ x0.loopNum = x.loopNum)
    (hi : d'.items = d.items) (hv : d'.values = d.values ++ new)
    (hnew : ∀ w ∈ new, w.cid = cid ∧ w.rowNum = row ∧ (d.loopItems cid ln).any (fun i => i.name == w.name) = true)
    (htot : ∀ i ∈ d.loopItems cid ln, d'.hasValue cid i.name row = true) : PacketsTotal d' := by
  intro x hx r hr j hj
  obtain ⟨x0, hx0, hc0, hn0⟩ := hl x hx
  have hj0 : j ∈ d.loopItems x.cid x.loopNum := by simpa only [Db.loopItems, hi] using hj
  obtain ⟨w, hw, hwc, hwa, hwr⟩ := (mem_loopRows_iff _ _ _ _).mp hr
  have hwa0 : (d.loopItems x.cid x.loopNum).any (fun i => i.name == w.name) = true := by simpa only [Db.loopItems, hi] using hwa
  rw [hv] at hw
  rcases List.mem_append.mp hw with hw1 | hw1
  · have hr0 : r ∈ d.loopRows x.cid x.loopNum := (mem_loopRows_iff d _ _ _).mpr ⟨w, hw1, hwc, hwa0, hwr⟩
    have := h x0 hx0 r (by rw [hc0, hn0]; exact hr0) j (by rw [hc0, hn0]; exact hj0)
    rw [hc0] at this
    obtain ⟨w0, hw0, e1, e2, e3⟩ := (hasValue_iff d _ _ _).mp this
    exact (hasValue_iff d' _ _ _).mpr ⟨w0, by rw [hv]; exact List.mem_append_left _ hw0, e1, e2, e3⟩
  · obtain ⟨e1, e2, e3⟩ := hnew w hw1
    obtain ⟨a, ha, han⟩ := List.any_eq_true.mp e3
    obtain ⟨b, hb, hbn⟩ := List.any_eq_true.mp hwa0
    obtain ⟨ham, hak⟩ := List.mem_filter.mp ha
    obtain ⟨hbm, hbk⟩ := List.mem_filter.mp hb
    simp at hak hbk han hbn
    have : a = b := itemKey_unique d.items hinv.itemPK a ham b hbm (by rw [hak.1, hbk.1, ← hwc, e1]) (by rw [han, hbn])
    subst this
    have k1 : x.cid = cid := by rw [← hbk.1, hak.1]
    have k2 : x.loopNum = ln := by rw [← hbk.2, hak.2]
    rw [k1, k2] at hj0
    rw [k1, ← hwr, e2]
    exact htot j hj0

/-- cif_loop_add_packet (after fix e266ec6): the new packet is total, every other packet is untouched -/
theorem addPacketBody_total (l : LH) (p : List (Str × V)) (d d' : Db) (u : Unit) (h : PacketsTotal d) (hinv : Inv d)
    (he : addPacketBody l p d = .ok (d', u)) : PacketsTotal d' := by
  cases u
  obtain ⟨row, hlast, _, htot⟩ := addPacket_total d d' l p he
  unfold addPacketBody at he
  split at he
  · split at he <;> cases he
  · rename_i d1 hbump
    split at he
    · cases he
    · rename_i row' hrow
      split at he
      · cases he
      · rename_i d2 hadd
        simp only [Except.ok.injEq, Prod.mk.injEq, and_true] at he
        obtain ⟨l1, i1, v1, _, _, _⟩ := bumpRowNum_spec d d1 _ _ hbump
        obtain ⟨v2, i2, l2, _, _, _, hn2⟩ := addValues_spec p d1 d2 l.cid l.loopNum row' hadd
        obtain ⟨fill, v3, i3, l3, _, _, hn3, _⟩ := fillPacket_spec d2 l.cid l.loopNum row'
        subst he
        have hli : ∀ c n, (d2.fillPacket l.cid l.loopNum row').loopItems c n = d.loopItems c n := by
          intro c n; simp only [Db.loopItems, i3, i2, i1]
        have hli1 : ∀ c n, d1.loopItems c n = d.loopItems c n := by intro c n; simp only [Db.loopItems, i1]
        have hli2 : ∀ c n, d2.loopItems c n = d.loopItems c n := by intro c n; simp only [Db.loopItems, i2, i1]
        have hrr : row = row' := by
          have e : (d2.fillPacket l.cid l.loopNum row').lastRowNum l.cid l.loopNum = d1.lastRowNum l.cid l.loopNum := by
            unfold Db.lastRowNum; rw [l3, l2]
          rw [e, hrow] at hlast; cases hlast; rfl
        subst hrr
        refine h.append hinv l.cid l.loopNum row
          (p.map (fun e => ({ cid := l.cid, name := e.1, rowNum := row, val := e.2 } : ValueRow)) ++ fill) ?_ ?_ ?_ ?_ ?_
        · intro x hx
          rw [l3, l2, l1] at hx
          obtain ⟨x0, hx0, rfl⟩ := List.mem_map.mp hx
          refine ⟨x0, hx0, ?_, ?_⟩ <;> split <;> rfl
        · rw [i3, i2, i1]
        · rw [v3, v2, v1, List.append_assoc]
        · intro w hw
          rcases List.mem_append.mp hw with hw | hw
          · obtain ⟨e, he, rfl⟩ := List.mem_map.mp hw
            refine ⟨rfl, rfl, ?_⟩
            have := hn2 e he; rw [hli1] at this; exact this
          · obtain ⟨a, b, _, c⟩ := hn3 w hw
            rw [hli2] at c; exact ⟨a, b, c⟩
        · intro i hi
          exact htot i (by rw [hli]; exact hi)

/-- ADD_LOOP_ITEM_SQL: only the new item may lack values -/
theorem PacketsTotal.insertItem {d d' : Db} (h : PacketsTotal d) (hinv : Inv d) (cid : Nat) (k o : Str) (ln : Nat)
    (he : d.insertItem cid k o ln = some d') : TotalBut d' cid k := by
  unfold Db.insertItem at he
  split at he; · cases he
  rename_i hno
  split at he; · cases he
  cases he
  intro x hx r hr j hj hjk
  have hxl : x ∈ d.loops := hx
  -- an item of the new state other than the new one is an item of the old state
  have hold_item : ∀ a : ItemRow, a ∈ Db.loopItems { d with items := d.items ++ [{ cid := cid, name := k, nameOrig := o, loopNum := ln }] } x.cid x.loopNum →
      ¬ (x.cid = cid ∧ a.name = k) → a ∈ d.loopItems x.cid x.loopNum := by
    intro a ha hne
    obtain ⟨ham, hak⟩ := List.mem_filter.mp ha
    have ham' : a ∈ d.items ++ [{ cid := cid, name := k, nameOrig := o, loopNum := ln }] := ham
    rcases List.mem_append.mp ham' with h1 | h1
    · exact List.mem_filter.mpr ⟨h1, hak⟩
    · simp at h1; subst h1
      simp at hak
      exact absurd ⟨hak.1.symm, rfl⟩ hne
  have hj0 := hold_item j hj hjk
  have hr0 : r ∈ d.loopRows x.cid x.loopNum := by
    obtain ⟨w, hw, hwc, hwa, hwr⟩ := (mem_loopRows_iff _ _ _ _).mp hr
    have hw0 : w ∈ d.values := hw
    obtain ⟨a, ha, han⟩ := List.any_eq_true.mp hwa
    simp at han
    have hane : ¬ (x.cid = cid ∧ a.name = k) := by
      intro ⟨e1, e2⟩
      have := hinv.valueFK w hw0
      rw [hwc, e1, ← han, e2] at this
      rw [this] at hno; exact hno rfl
    exact (mem_loopRows_iff d _ _ _).mpr ⟨w, hw0, hwc, List.any_eq_true.mpr ⟨a, hold_item a ha hane, by simpa using han⟩, hwr⟩
  exact h x hxl r hr0 j hj0

/-- cif_loop_add_item (ADD_LOOP_ITEM_SQL, then SET_ALL_VALUES_SQL gives the new item a value in every packet) -/
theorem addItemBody_total (l : LH) (k o : Str) (v : V) (d d' : Db) (n : Nat) (h : PacketsTotal d) (hinv : Inv d)
    (he : addItemBody l k o v d = .ok (d', n)) : PacketsTotal d' := by
  unfold addItemBody at he
  split at he
  · cases he
  · rename_i d1 hins
    simp only [Except.ok.injEq] at he
    have h1 := h.insertItem hinv l.cid k o l.loopNum hins
    have := h1.setAllValues (hinv.insertItem l.cid k o l.loopNum hins).itemPK v
    rw [he] at this; exact this

/-- REMOVE_PACKET_SQL: one whole row of one loop goes; every remaining row keeps all its values -/
theorem PacketsTotal.removePacket {d : Db} (h : PacketsTotal d) (hinv : Inv d) (cid ln row : Nat) :
    PacketsTotal (d.removePacket cid ln row) := by
  intro x hx r hr j hj
  have hxl : x ∈ d.loops := hx
  have hj0 : j ∈ d.loopItems x.cid x.loopNum := hj
  obtain ⟨w, hw, hwc, hwa, hwr⟩ := (mem_loopRows_iff _ _ _ _).mp hr
  have hw' : w ∈ d.values.filter (fun v => !(v.cid == cid && v.rowNum == row && (d.loopItems cid ln).any (fun i => i.name == v.name))) := hw
  obtain ⟨hw0, hwkeep⟩ := List.mem_filter.mp hw'
  have hwa0 : (d.loopItems x.cid x.loopNum).any (fun i => i.name == w.name) = true := hwa
  have hr0 : r ∈ d.loopRows x.cid x.loopNum := (mem_loopRows_iff d _ _ _).mpr ⟨w, hw0, hwc, hwa0, hwr⟩
  obtain ⟨w0, hw0m, e1, e2, e3⟩ := (hasValue_iff d _ _ _).mp (h x hxl r hr0 j hj0)
  rw [hasValue_iff]
  refine ⟨w0, ?_, e1, e2, e3⟩
  show w0 ∈ d.values.filter (fun v => !(v.cid == cid && v.rowNum == row && (d.loopItems cid ln).any (fun i => i.name == v.name)))
  refine List.mem_filter.mpr ⟨hw0m, ?_⟩
  cases hb : (w0.cid == cid && w0.rowNum == row && (d.loopItems cid ln).any (fun i => i.name == w0.name)) with
  | false => rfl
  | true =>
    -- then x is the loop (cid, ln) and r = row, and the witness w of the row would have been deleted as well
    exfalso
    simp only [Bool.and_eq_true, beq_iff_eq] at hb
    obtain ⟨⟨hc, hrw⟩, hany⟩ := hb
    obtain ⟨a, ha, han⟩ := List.any_eq_true.mp hany
    obtain ⟨ham, hak⟩ := List.mem_filter.mp ha
    obtain ⟨hjm, hjk⟩ := List.mem_filter.mp hj0
    simp at hak hjk han
    have : a = j := itemKey_unique d.items hinv.itemPK a ham j hjm (by rw [hak.1, hjk.1, ← e1, hc]) (by rw [han, e2])
    subst this
    have k1 : x.cid = cid := by rw [← hjk.1, hak.1]
    have k2 : x.loopNum = ln := by rw [← hjk.2, hak.2]
    have : (w.cid == cid && w.rowNum == row && (d.loopItems cid ln).any (fun i => i.name == w.name)) = true := by
      rw [k1, k2] at hwa0
      simp only [Bool.and_eq_true, beq_iff_eq]
      exact ⟨⟨by rw [hwc, k1], by rw [hwr, ← e3, hrw]⟩, hwa0⟩
    rw [this] at hwkeep; cases hwkeep

/-- deletion of loop_item rows with the cascade to item_value (REMOVE_ITEM_SQL; second half of every loop deletion) -/
theorem PacketsTotal.deleteItems {d : Db} (h : PacketsTotal d) (hpk : d.items.Pairwise ItemKeyNe) (p : ItemRow → Bool) :
    PacketsTotal (d.deleteItems p) := by
  intro x hx r hr j hj
  have hxl : x ∈ d.loops := hx
  have sub : ∀ a, a ∈ (d.deleteItems p).loopItems x.cid x.loopNum → a ∈ d.loopItems x.cid x.loopNum ∧ p a = false := by
    intro a ha
    obtain ⟨ham, hak⟩ := List.mem_filter.mp ha
    have ham' : a ∈ d.items.filter (fun i => !p i) := ham
    obtain ⟨h1, h2⟩ := List.mem_filter.mp ham'
    exact ⟨List.mem_filter.mpr ⟨h1, hak⟩, by simpa using h2⟩
  obtain ⟨hj0, hpj⟩ := sub j hj
  obtain ⟨w, hw, hwc, hwa, hwr⟩ := (mem_loopRows_iff _ _ _ _).mp hr
  have hw' : w ∈ d.values.filter (fun v => !(d.items.filter p).any (fun i => i.cid == v.cid && i.name == v.name)) := hw
  have hw0 := (List.mem_filter.mp hw').1
  obtain ⟨a, ha, han⟩ := List.any_eq_true.mp hwa
  have hr0 : r ∈ d.loopRows x.cid x.loopNum :=
    (mem_loopRows_iff d _ _ _).mpr ⟨w, hw0, hwc, List.any_eq_true.mpr ⟨a, (sub a ha).1, han⟩, hwr⟩
  obtain ⟨w0, hw0m, e1, e2, e3⟩ := (hasValue_iff d _ _ _).mp (h x hxl r hr0 j hj0)
  rw [hasValue_iff]
  refine ⟨w0, ?_, e1, e2, e3⟩
  show w0 ∈ d.values.filter (fun v => !(d.items.filter p).any (fun i => i.cid == v.cid && i.name == v.name))
  refine List.mem_filter.mpr ⟨hw0m, ?_⟩
  cases hb : (d.items.filter p).any (fun i => i.cid == w0.cid && i.name == w0.name) with
  | false => rfl
  | true =>
    exfalso
    obtain ⟨b, hb1, hb2⟩ := List.any_eq_true.mp hb
    obtain ⟨hbm, hpb⟩ := List.mem_filter.mp hb1
    obtain ⟨hjm, hjk⟩ := List.mem_filter.mp hj0
    simp at hb2 hjk
    have : b = j := itemKey_unique d.items hpk b hbm j hjm (by rw [hb2.1, e1, hjk.1]) (by rw [hb2.2, e2])
    subst this
    rw [hpb] at hpj; cases hpj

theorem PacketsTotal.deleteLoops {d : Db} (h : PacketsTotal d) (hpk : d.items.Pairwise ItemKeyNe) (p : LoopRow → Bool) :
    PacketsTotal (d.deleteLoops p) := by
  unfold Db.deleteLoops
  refine PacketsTotal.deleteItems (d := { d with loops := d.loops.filter (fun l => !p l) }) ?_ hpk _
  exact h.congr (fun x hx => ⟨x, (List.mem_filter.mp hx).1, rfl, rfl⟩) rfl rfl

theorem PacketsTotal.removeItem {d : Db} (h : PacketsTotal d) (hinv : Inv d) (cid : Nat) (k : Str) : PacketsTotal (d.removeItem cid k) :=
  h.deleteItems hinv.itemPK _
theorem PacketsTotal.destroyLoop {d : Db} (h : PacketsTotal d) (hinv : Inv d) (cid ln : Nat) : PacketsTotal (d.destroyLoop cid ln).1 :=
  h.deleteLoops hinv.itemPK _
theorem PacketsTotal.prune {d : Db} (h : PacketsTotal d) (hinv : Inv d) (cid : Nat) : PacketsTotal (d.prune cid) :=
  h.deleteLoops hinv.itemPK _
theorem PacketsTotal.deleteContainer {d : Db} (h : PacketsTotal d) (hinv : Inv d) (id : Nat) : PacketsTotal (d.deleteContainer id).1 := by
  unfold Db.deleteContainer
  simp only []
  split
  · exact h
  · exact PacketsTotal.deleteLoops (d := { d with containers := _, blocks := _, frames := _ }) (h.congr (fun x hx => ⟨x, hx, rfl, rfl⟩) rfl rfl) hinv.itemPK _

theorem PacketsTotal.empty : PacketsTotal {} := fun _ hx => nomatch hx
theorem PacketsTotal.insertContainer {d : Db} (h : PacketsTotal d) : PacketsTotal d.insertContainer.1 :=
  h.congr (fun x hx => ⟨x, hx, rfl, rfl⟩) rfl rfl
theorem PacketsTotal.insertBlock {d d' : Db} (h : PacketsTotal d) (cid : Nat) (k o : Str) (he : d.insertBlock cid k o = some d') : PacketsTotal d' := by
  unfold Db.insertBlock at he
  split at he; · cases he
  split at he; · cases he
  split at he; · cases he
  cases he; exact h.congr (fun x hx => ⟨x, hx, rfl, rfl⟩) rfl rfl

/-- UPDATE_PACKET_ITEM_SQL (`insert or replace`) for a row that the loop has: the row stays total -/
theorem PacketsTotal.replaceValue {d d' : Db} (h : PacketsTotal d) (hinv : Inv d) (cid ln : Nat) (k : Str) (row : Nat) (v : V)
    (hrow : row ∈ d.loopRows cid ln) (hk : (d.loopItems cid ln).any (fun i => i.name == k) = true)
    (he : d.replaceValue cid k row v = some d') :
    PacketsTotal d' ∧ d'.items = d.items ∧ row ∈ d'.loopRows cid ln := by
  unfold Db.replaceValue at he
  split at he; · cases he
  split at he; · cases he
  cases he
  obtain ⟨i, hi, hin⟩ := List.any_eq_true.mp hk
  obtain ⟨him, hik⟩ := List.mem_filter.mp hi
  simp at hik hin
  refine ⟨?_, rfl, ?_⟩
  · intro x hx r hr j hj
    have hxl : x ∈ d.loops := hx
    have hj0 : j ∈ d.loopItems x.cid x.loopNum := hj
    obtain ⟨hjm, hjk⟩ := List.mem_filter.mp hj0
    simp at hjk
    have hr0 : r ∈ d.loopRows x.cid x.loopNum := by
      obtain ⟨w, hw, hwc, hwa, hwr⟩ := (mem_loopRows_iff _ _ _ _).mp hr
      have hw' : w ∈ d.values.filter (fun w => !(w.cid == cid && w.name == k && w.rowNum == row)) ++
          [({ cid := cid, name := k, rowNum := row, val := v } : ValueRow)] := hw
      have hwa0 : (d.loopItems x.cid x.loopNum).any (fun i => i.name == w.name) = true := hwa
      rcases List.mem_append.mp hw' with hw1 | hw1
      · exact (mem_loopRows_iff d _ _ _).mpr ⟨w, (List.mem_filter.mp hw1).1, hwc, hwa0, hwr⟩
      · simp at hw1; subst hw1
        simp only [] at hwc hwr hwa0
        obtain ⟨b, hb, hbn⟩ := List.any_eq_true.mp hwa0
        obtain ⟨hbm, hbk⟩ := List.mem_filter.mp hb
        simp at hbk hbn
        have : b = i := itemKey_unique d.items hinv.itemPK b hbm i him (by rw [hbk.1, ← hwc, hik.1]) (by rw [hbn, hin])
        subst this
        have e1 : x.cid = cid := by rw [← hbk.1, hik.1]
        have e2 : x.loopNum = ln := by rw [← hbk.2, hik.2]
        rw [e1, e2, ← hwr]; exact hrow
    obtain ⟨w0, hw0, e1, e2, e3⟩ := (hasValue_iff d _ _ _).mp (h x hxl r hr0 j hj0)
    rw [hasValue_iff]
    cases hb : (w0.cid == cid && w0.name == k && w0.rowNum == row) with
    | false =>
      exact ⟨w0, List.mem_append_left _ (List.mem_filter.mpr ⟨hw0, by rw [hb]; rfl⟩), e1, e2, e3⟩
    | true =>
      simp only [Bool.and_eq_true, beq_iff_eq] at hb
      exact ⟨{ cid := cid, name := k, rowNum := row, val := v }, List.mem_append_right _ (List.mem_singleton.mpr rfl),
        by rw [← e1, hb.1.1], by rw [← e2, hb.1.2], by rw [← e3, hb.2]⟩
  · refine (mem_loopRows_iff _ _ _ _).mpr ⟨{ cid := cid, name := k, rowNum := row, val := v },
      List.mem_append_right _ (List.mem_singleton.mpr rfl), rfl, ?_, rfl⟩
    exact hk

/-- the iterator still stands on a packet of its loop, and the item names it took at cif_loop_get_packets are items of that loop.
    cif.h: "behavior is undefined if the underlying loop is accessed … other than via the iterator", and cif_loop_destroy
    invalidates "any outstanding iterators over its contents": histories that keep to this keep the iterator attached. -/
def Iter.Attached (it : Iter) (d : Db) : Prop :=
  it.prev.toNat ∈ d.loopRows it.cid it.loopNum ∧
  ∀ k, it.names.contains k = true → (d.loopItems it.cid it.loopNum).any (fun i => i.name == k) = true

/-- the loop over the entries of cif_pktitr_update_packet -/
theorem updateValues_total : ∀ (p : List (Str × V)) (d d' : Db) (it : Iter), PacketsTotal d → Inv d → it.Attached d →
    updateValues d it p = .ok d' → PacketsTotal d'
  | [], d, d', _, h, _, _, he => by simp [updateValues] at he; subst he; exact h
  | (k, v) :: es, d, d', it, h, hinv, hat, he => by
    unfold updateValues at he
    split at he
    · rename_i hc
      split at he
      · cases he
      · rename_i d1 hrep
        obtain ⟨t1, i1, r1⟩ := h.replaceValue hinv it.cid it.loopNum k it.prev.toNat v hat.1 (hat.2 k hc) hrep
        refine updateValues_total es d1 d' it t1 (hinv.replaceValue _ _ _ _ hrep) ⟨r1, ?_⟩ he
        intro k' hk'
        have := hat.2 k' hk'
        simpa only [Db.loopItems, i1] using this
    · cases he

theorem PacketsTotal.insertFrame {d d' : Db} (h : PacketsTotal d) (cid par : Nat) (k o : Str) (he : d.insertFrame cid par k o = some d') : PacketsTotal d' := by
  unfold Db.insertFrame at he
  split at he; · cases he
  split at he; · cases he
  split at he; · cases he
  split at he; · cases he
  split at he; · cases he
  cases he; exact h.congr (fun x hx => ⟨x, hx, rfl, rfl⟩) rfl rfl

theorem PacketsTotal.resetRowNum {d : Db} (h : PacketsTotal d) (cid ln : Nat) : PacketsTotal (d.resetRowNum cid ln) := by
  refine h.congr (fun x hx => ?_) rfl rfl
  obtain ⟨x0, hx0, rfl⟩ := List.mem_map.mp hx
  refine ⟨x0, hx0, ?_, ?_⟩ <;> split <;> rfl

theorem PacketsTotal.setCategory {d d' : Db} (h : PacketsTotal d) (cid ln : Nat) (cat : Option Str) (n : Nat)
    (he : d.setCategory cid ln cat = .ok (d', n)) : PacketsTotal d' := by
  unfold Db.setCategory at he
  split at he
  · cases he; exact h
  · split at he; · cases he
    split at he; · cases he
    cases he
    refine h.congr (fun x hx => ?_) rfl rfl
    obtain ⟨x0, hx0, rfl⟩ := List.mem_map.mp hx
    refine ⟨x0, hx0, ?_, ?_⟩ <;> split <;> rfl

/-- cif_container_create_loop: the new loop has no packet, and the new item names had no values -/
theorem createLoopBody_total (cid : Nat) (cat : Option Str) (names : List Name) (d d' : Db) (l : LH) (h : PacketsTotal d) (hinv : Inv d)
    (he : createLoopBody cid cat names d = .ok (d', l)) : PacketsTotal d' := by
  have hinv' := createLoopBody_inv cid cat names d d' l hinv he
  unfold createLoopBody at he
  split at he
  · split at he <;> cases he
  · rename_i d1 hins
    simp only [] at he
    split at he
    · cases he
    · rename_i d2 hadd
      simp only [Except.ok.injEq, Prod.mk.injEq] at he
      obtain ⟨hd, _⟩ := he
      subst hd
      obtain ⟨c, hcm, hcid, hfresh, l1, i1, v1, _, _⟩ := insertLoop_spec d d1 cid cat hins
      have hln : d1.maxLoopNum cid = c.nextLoopNum := by
        unfold Db.maxLoopNum
        rw [l1, List.filter_append]
        have : [({ cid := cid, loopNum := c.nextLoopNum, category := cat, lastRowNum := 0 } : LoopRow)].filter (fun l => l.cid == cid) =
            [{ cid := cid, loopNum := c.nextLoopNum, category := cat, lastRowNum := 0 }] := by simp
        rw [this]
        apply Nat.le_antisymm
        · apply foldl_max_le _ _ _ (Nat.zero_le _)
          intro x hx
          rcases List.mem_append.mp hx with hx | hx
          · obtain ⟨hxm, hxc⟩ := List.mem_filter.mp hx
            exact Nat.le_of_lt (hinv.ext.loopNumsBelow c hcm x hxm (by rw [hcid]; simpa using hxc))
          · simp at hx; subst hx; exact Nat.le_refl _
        · exact foldl_max_mem _ 0 { cid := cid, loopNum := c.nextLoopNum, category := cat, lastRowNum := 0 } (List.mem_append_right _ (List.mem_singleton.mpr rfl))
      rw [hln] at hadd
      obtain ⟨i2, l2, v2, _, _, _, _⟩ := addItems_spec names d1 d2 cid c.nextLoopNum hadd
      rw [i1] at i2; rw [l1] at l2; rw [v1] at v2
      -- an item of the new state that lies in a loop the old state had is an item of the old state
      have olditem : ∀ a ∈ d2.items, d.hasLoop a.cid a.loopNum = true → a ∈ d.items := by
        intro a ha hl
        rw [i2] at ha
        rcases List.mem_append.mp ha with h1 | h1
        · exact h1
        · obtain ⟨n, _, rfl⟩ := List.mem_map.mp h1
          simp only [] at hl
          rw [hfresh] at hl; cases hl
      intro x hx r hr j hj
      obtain ⟨w, hw, hwc, hwa, hwr⟩ := (mem_loopRows_iff _ _ _ _).mp hr
      rw [v2] at hw
      obtain ⟨a, ha, han⟩ := List.any_eq_true.mp hwa
      obtain ⟨ham, hak⟩ := List.mem_filter.mp ha
      simp at hak han
      obtain ⟨b, hbm, hbc, hbn⟩ := (hasItem_iff d _ _).mp (hinv.valueFK w hw)
      have hab : a = b := itemKey_unique d2.items hinv'.itemPK a ham b (by rw [i2]; exact List.mem_append_left _ hbm)
        (by rw [hak.1, hbc, hwc]) (by rw [han, hbn])
      subst hab
      obtain ⟨x0, hx0, hx0c, hx0n⟩ := (hasLoop_iff d _ _).mp (hinv.itemFK a hbm)
      have kc : x0.cid = x.cid := by rw [hx0c, hak.1]
      have kn : x0.loopNum = x.loopNum := by rw [hx0n, hak.2]
      have hr0 : r ∈ d.loopRows x0.cid x0.loopNum := by
        rw [kc, kn]
        exact (mem_loopRows_iff d _ _ _).mpr ⟨w, hw, hwc,
          List.any_eq_true.mpr ⟨a, List.mem_filter.mpr ⟨hbm, by simp [hak.1, hak.2]⟩, by simpa using han⟩, hwr⟩
      obtain ⟨hjm, hjk⟩ := List.mem_filter.mp hj
      simp at hjk
      have hj0 : j ∈ d.items := olditem j hjm ((hasLoop_iff d _ _).mpr ⟨x0, hx0, by rw [kc, hjk.1], by rw [kn, hjk.2]⟩)
      have := h x0 hx0 r hr0 j (List.mem_filter.mpr ⟨hj0, by simp [kc, kn, hjk.1, hjk.2]⟩)
      simp only [Db.hasValue, v2, ← kc] at this ⊢
      exact this

end CifModel.Store
