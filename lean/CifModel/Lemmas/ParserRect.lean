import CifModel.Lemmas.ParserConsistent
/-
  Lemmas/ParserRect — the parser keeps every loop RECTANGULAR: every packet of every loop of every container of the target has
  exactly as many values as the loop has names (`RectCif`), after every parse — completed, stopped by a callback answer, or left
  through one of the parser's own failure exits — from every consistent, rectangular initial target.

  What has to be followed: the column bookkeeping of parse_loop_packets (Model/Parser.packetsLoop): `idx` walks over ALL header
  slots, `cur` collects values for the RETAINED slots only (a duplicate / invalid header name is a dropped slot), the packet is
  stored when `idx` wraps, and the partial last packet is padded with one unknown value per retained slot that is still to come.
  Invariant of the loop: `cur.length = number of retained slots among the first idx`, `idx < slots.length`, and in the target the
  loop being filled (the last loop of its container) has `number of retained slots` names.

  The consistency invariant `OkCif` (Lemmas/ParserStore) is carried along: it is what makes "the container at the path" unique.
-/
set_option linter.unusedSimpArgs false
set_option linter.unusedVariables false

namespace CifModel.Model.Parser
open CifModel CifModel.Model CifModel.Model.Lexer CifModel.Gen.ErrCodes

/-! ### the invariant -/

def LoopRect (l : Loop) : Prop := ∀ p ∈ l.packets, p.length = l.names.length

def LoopsRect (ls : List Loop) : Prop := ∀ l ∈ ls, LoopRect l

mutual
  def RectC : Container → Prop
    | .mk _ fs ls => LoopsRect ls ∧ RectCs fs
  def RectCs : List Container → Prop
    | [] => True
    | c :: cs => RectC c ∧ RectCs cs
end

/-- every packet of every loop of every container (at any depth) has one value per item name of its loop -/
def RectCif (cif : Cif) : Prop := RectCs cif

/-- consistent and rectangular -/
def OkR (o : Opts) (cif : Cif) : Prop := OkCif o cif ∧ RectCif cif

theorem RectCs_iff : ∀ cs : List Container, RectCs cs ↔ ∀ c ∈ cs, RectC c
  | [] => by simp [RectCs]
  | a :: r => by simp [RectCs, RectCs_iff r]

theorem RectC_mk (code : Str) (fs : List Container) (ls : List Loop) : RectC (.mk code fs ls) ↔ LoopsRect ls ∧ RectCs fs := by
  simp [RectC]

theorem RectC_empty (code : Str) : RectC (.mk code [] []) := by
  simp [RectC, LoopsRect, RectCs]

theorem rectCs_snoc (cs : List Container) (code : Str) (h : RectCs cs) : RectCs (cs ++ [Container.mk code [] []]) := by
  rw [RectCs_iff] at h ⊢
  intro c hc
  rcases List.mem_append.mp hc with hc | hc
  · exact h c hc
  · simp only [List.mem_singleton] at hc
    subst hc
    exact RectC_empty code

/-- the update of the container at `path` keeps the loops rectangular when the new content of THAT container is -/
theorem updIn_rect (o : Opts) (f : Container → Container) :
    ∀ (path : Path) (cs : List Container), (normCodes o cs).Nodup → OkCs o cs → RectCs cs →
      (∀ c, getIn o.norm path cs = some c → RectC c → RectC (f c)) → RectCs (updIn o.norm f path cs)
  | [], cs, _, _, h, _ => by simpa [updIn] using h
  | [k], cs, hn, _, h, hc => by
    simp only [updIn]
    rw [RectCs_iff] at h ⊢
    intro c' hc'
    obtain ⟨c, hcm, rfl⟩ := List.mem_map.mp hc'
    split
    · rename_i hk
      exact hc c (by simp only [getIn]; exact find_of_nodup o k cs c hn hcm hk) (h c hcm)
    · exact h c hcm
  | k :: k' :: ks, cs, hn, hok, h, hc => by
    simp only [updIn]
    rw [RectCs_iff] at h ⊢
    rw [OkCs_iff] at hok
    intro c' hc'
    obtain ⟨c, hcm, rfl⟩ := List.mem_map.mp hc'
    split
    · rename_i hk
      have hfind := find_of_nodup o k cs c hn hcm hk
      have hokc := hok c hcm
      have hrc := h c hcm
      obtain ⟨code, fs, ls⟩ := c
      rw [OkC_mk] at hokc
      rw [RectC_mk] at hrc
      simp only [Container.code, Container.frames, Container.loops]
      rw [RectC_mk]
      refine ⟨hrc.1, ?_⟩
      apply updIn_rect o f (k' :: ks) fs hokc.2.1 hokc.2.2 hrc.2
      intro c2 hg
      apply hc
      simp only [getIn, hfind, Container.frames]
      exact hg
    · exact h c hcm

theorem updIn_okR (o : Opts) (f : Container → Container) (hf : ∀ c, (f c).code = c.code) (path : Path) (cif : Cif)
    (h : OkR o cif) (hc : ∀ c, getIn o.norm path cif = some c → OkC o c → OkC o (f c))
    (hr : ∀ c, getIn o.norm path cif = some c → RectC c → RectC (f c)) : OkR o (updIn o.norm f path cif) :=
  ⟨updIn_okCif o f hf path cif h.1 hc, updIn_rect o f path cif h.1.1 h.1.2 h.2 hr⟩

/-! ### the operations on the loops of one container -/

theorem loopRect_setAll (norm : Str → Str) (k : Str) (v : V) (l : Loop) (h : LoopRect l) : LoopRect (setAll norm k v l) := by
  unfold setAll
  split
  · exact h
  · intro p hp
    simp only [List.mem_map] at hp
    obtain ⟨q, hq, rfl⟩ := hp
    simpa using h q hq

theorem loopsRect_addScalar (name : Str) (v : V) : ∀ (ls : List Loop), LoopsRect ls → LoopsRect (addScalar ls name v)
  | [], _ => by
    intro l hl
    simp only [addScalar, List.mem_singleton] at hl
    subst hl
    intro p hp
    simp only [List.mem_singleton] at hp
    subst hp
    rfl
  | l :: r, h => by
    simp only [addScalar]
    split
    · intro l' hl'
      rcases List.mem_cons.mp hl' with rfl | hl'
      · intro p hp
        simp only at hp
        split at hp
        · simp only [List.mem_singleton] at hp
          subst hp
          simp
        · simp only [List.mem_map] at hp
          obtain ⟨q, hq, rfl⟩ := hp
          have := h l (by simp) q hq
          simp [this]
      · exact h l' (List.mem_cons_of_mem _ hl')
    · intro l' hl'
      rcases List.mem_cons.mp hl' with rfl | hl'
      · exact h l' (by simp)
      · exact loopsRect_addScalar name v r (fun x hx => h x (List.mem_cons_of_mem _ hx)) l' hl'

/-- `cif_container_set_value` on one container -/
theorem rectC_setValue (o : Opts) (name : Str) (v : V) (c : Container) (h : RectC c) :
    RectC (if hasItem o.norm c (o.norm name) then Container.mk c.code c.frames (c.loops.map (setAll o.norm (o.norm name) v))
      else Container.mk c.code c.frames (addScalar c.loops name v)) := by
  obtain ⟨code, fs, ls⟩ := c
  rw [RectC_mk] at h
  simp only [Container.code, Container.frames, Container.loops]
  split
  · rw [RectC_mk]
    refine ⟨?_, h.2⟩
    intro l' hl'
    obtain ⟨l, hl, rfl⟩ := List.mem_map.mp hl'
    exact loopRect_setAll _ _ _ l (h.1 l hl)
  · rw [RectC_mk]
    exact ⟨loopsRect_addScalar name v ls h.1, h.2⟩

/-- `cif_container_prune` -/
theorem rectC_prune (c : Container) (h : RectC c) : RectC (pruneC c) := by
  obtain ⟨code, fs, ls⟩ := c
  rw [RectC_mk] at h
  simp only [pruneC]
  rw [RectC_mk]
  exact ⟨fun l hl => h.1 l (List.mem_filter.mp hl).1, h.2⟩

/-- the creation of a save frame -/
theorem rectC_newFrame (code : Str) (c : Container) (h : RectC c) :
    RectC (Container.mk c.code (c.frames ++ [Container.mk code [] []]) c.loops) := by
  obtain ⟨cc, fs, ls⟩ := c
  rw [RectC_mk] at h
  simp only [Container.code, Container.frames, Container.loops]
  rw [RectC_mk]
  exact ⟨h.1, rectCs_snoc fs code h.2⟩

/-- the loop being filled is the last one of the container and has `n` names -/
def lastWidth (n : Nat) (ls : List Loop) : Prop := ∃ l, ls.getLast? = some l ∧ l.names.length = n

theorem loopsRect_addPacketLast (ls : List Loop) (p : List V) (n : Nat) (h : LoopsRect ls) (hw : lastWidth n ls)
    (hp : p.length = n) : LoopsRect (addPacketLast ls p) ∧ lastWidth n (addPacketLast ls p) := by
  obtain ⟨l, hl, hn⟩ := hw
  obtain ⟨ls0, e⟩ := exists_snoc_of_getLast? ls l hl
  subst e
  rw [addPacketLast_append]
  refine ⟨?_, ⟨{ l with packets := l.packets ++ [p] }, by simp, hn⟩⟩
  intro x hx
  rcases List.mem_append.mp hx with hx | hx
  · exact h x (List.mem_append_left _ hx)
  · simp only [List.mem_singleton] at hx
    subst hx
    intro q hq
    simp only [List.mem_append, List.mem_singleton] at hq
    rcases hq with hq | rfl
    · exact h l (by simp) q hq
    · simp only; omega

theorem loopsRect_newLoop (ls : List Loop) (names : List Str) (h : LoopsRect ls) :
    LoopsRect (ls ++ [{ category := none, names := names, packets := [] }]) ∧
      lastWidth names.length (ls ++ [{ category := none, names := names, packets := [] }]) := by
  refine ⟨?_, ⟨{ category := none, names := names, packets := [] }, by simp, rfl⟩⟩
  intro x hx
  rcases List.mem_append.mp hx with hx | hx
  · exact h x hx
  · simp only [List.mem_singleton] at hx
    subst hx
    intro q hq
    simp at hq

/-! ### the Hoare logic: two more rules -/

theorem HT.and {α} {p p' : Cif → Prop} {q q' : α → Cif → Prop} {a a' : Cif → Prop} {m : P α}
    (h : HT p m q a) (h' : HT p' m q' a') : HT (fun c => p c ∧ p' c) m (fun x c => q x c ∧ q' x c) (fun c => a c ∧ a' c) := by
  constructor
  intro pol w hw
  have h1 := h.run pol w hw.1
  have h2 := h'.run pol w hw.2
  cases hA : m pol w with
  | ok x w1 => rw [hA] at h1 h2; exact ⟨h1, h2⟩
  | abort c w1 => rw [hA] at h1 h2; exact ⟨h1, h2⟩

theorem Pres.dite' {α} {I : Cif → Prop} {c : Prop} [Decidable c] {a b : P α} (ha : c → Pres I a) (hb : ¬ c → Pres I b) :
    Pres I (if c then a else b) := by
  split
  · exact ha ‹_›
  · exact hb ‹_›

/-! ### the store operations -/

theorem setValue_presR (o : Opts) (path : Path) (name : Str) (v : V) : Pres (OkR o) (setValue o path name v) := by
  constructor
  intro pol w hw
  unfold setValue
  by_cases hv : isValidName true name = true
  · simp only [hv, Bool.not_true, Bool.false_eq_true, if_false, bind_eq, pure_eq, P.bind, P.pure, Parser.getCif, Parser.setCif]
    apply updIn_okR o _ (fun c => by split <;> rfl) path w.cif hw
    · intro c _ hc
      exact okC_setValue o name v c hc
    · intro c _ hc
      exact rectC_setValue o name v c hc
  · simp [hv, P.bind, Parser.fail]
    exact hw

/-- the invariant while the packets of a loop are read: consistent, rectangular, the loop being filled is the last loop of its
    container, is not the scalar loop, and has `n` names -/
def ILR (o : Opts) (loopAt : Option Path) (n : Nat) (cif : Cif) : Prop :=
  IL o loopAt cif ∧ RectCif cif ∧ ∀ path, loopAt = some path → ∀ c, getIn o.norm path cif = some c → lastWidth n c.loops

theorem ILR.okR {o : Opts} {loopAt : Option Path} {n : Nat} {cif : Cif} (h : ILR o loopAt n cif) : OkR o cif := ⟨h.1.1, h.2.1⟩

theorem ILR_none (o : Opts) (n : Nat) (cif : Cif) (h : OkR o cif) : ILR o none n cif :=
  ⟨⟨h.1, fun path hp => by cases hp⟩, h.2, fun path hp => by cases hp⟩

theorem addPacket_presR (o : Opts) (loopAt : Option Path) (n : Nat) (p : List V) (hp : p.length = n) :
    Pres (ILR o loopAt n) (addPacket o loopAt p) := by
  constructor
  intro pol w hw
  have hIL := (addPacket_pres o loopAt p).run pol w hw.1
  cases loopAt with
  | none => simpa [addPacket, P.pure] using hw
  | some path =>
    simp only [addPacket, bind_eq, P.bind, Parser.getCif, Parser.setCif] at hIL ⊢
    have hf : ∀ c : Container, (Container.mk c.code c.frames (addPacketLast c.loops p)).code = c.code := fun c => rfl
    refine ⟨hIL, ?_, ?_⟩
    · apply updIn_rect o _ path w.cif hw.1.1.1 hw.1.1.2 hw.2.1
      intro c hg hc
      obtain ⟨code, fs, ls⟩ := c
      rw [RectC_mk] at hc
      simp only [Container.code, Container.frames, Container.loops]
      rw [RectC_mk]
      exact ⟨(loopsRect_addPacketLast ls p n hc.1 (hw.2.2 path rfl _ hg) hp).1, hc.2⟩
    · intro path' hp' c' hg
      cases hp'
      rw [getIn_updIn o _ hf] at hg
      cases hg0 : getIn o.norm path w.cif with
      | none => rw [hg0] at hg; cases hg
      | some c =>
        rw [hg0] at hg
        simp only [Option.map_some, Option.some.injEq] at hg
        subst hg
        obtain ⟨l, hl, hn⟩ := hw.2.2 path rfl _ hg0
        obtain ⟨ls0, e⟩ := exists_snoc_of_getLast? c.loops l hl
        show lastWidth n (addPacketLast c.loops p)
        rw [e, addPacketLast_append]
        exact ⟨{ l with packets := l.packets ++ [p] }, by simp, hn⟩

/-! ### slot arithmetic -/

/-- the number of retained header slots -/
def keptN (slots : List (Option Str)) : Nat := (slots.filter Option.isSome).length

theorem filterMap_id_length : ∀ slots : List (Option Str), (slots.filterMap id).length = keptN slots
  | [] => rfl
  | none :: r => by simpa [keptN] using filterMap_id_length r
  | some a :: r => by simpa [keptN] using filterMap_id_length r

theorem keptN_take_succ (slots : List (Option Str)) (i : Nat) (hi : i < slots.length) :
    keptN (slots.take (i + 1)) = keptN (slots.take i) + (if (slots.getD i none).isSome then 1 else 0) := by
  rw [List.take_add_one]
  simp only [keptN, List.filter_append, List.length_append]
  have e : slots[i]? = some slots[i] := List.getElem?_eq_getElem hi
  simp only [List.getD_eq_getElem?_getD, e, Option.toList_some, Option.getD_some, List.filter_cons, List.filter_nil]
  split <;> simp

theorem keptN_take_drop (slots : List (Option Str)) (i : Nat) : keptN (slots.take i) + keptN (slots.drop i) = keptN slots := by
  have := List.take_append_drop i slots
  unfold keptN
  rw [← List.length_append, ← List.filter_append, this]

theorem keptN_take_all (slots : List (Option Str)) : keptN (slots.take slots.length) = keptN slots := by
  rw [List.take_length]

/-! ### the productions -/

section Productions
attribute [local irreducible] parseValue listLoop tableLoop tableEntry nextTok P.bind P.pure Parser.report Parser.fail
  headerLoop packetsLoop parseContainer elemsLoop blocksLoop

theorem parseItem_presR (o : Opts) (fuel : Nat) (s : PS) (cont : Option Path) (name : Option Str) :
    Pres (OkR o) (parseItem o fuel s cont name) := by
  unfold parseItem
  simp only [bind_eq, pure_eq]
  have hn := nextTok_pres (OkR o) o
  have hv := parseValue_pres (OkR o) o
  have hs := setValue_presR o
  presq [hn, hv, hs]

/-- the packet loop: `idx` counts all slots, `cur` holds the values of the retained ones -/
theorem packetsLoop_presR (o : Opts) (loopAt : Option Path) (slots : List (Option Str)) (hne : slots ≠ []) :
    ∀ (fuel : Nat) (s : PS) (k : Pk), k.idx < slots.length → k.cur.length = keptN (slots.take k.idx) →
      Pres (ILR o loopAt (keptN slots)) (packetsLoop o loopAt slots fuel s k) := by
  intro fuel
  induction fuel with
  | zero => intro s k _ _; rw [packetsLoop]; exact Pres.fail _ _
  | succ fuel ih =>
    intro s k hidx hcur
    rw [packetsLoop]
    simp only [bind_eq, pure_eq]
    have hn := nextTok_pres (ILR o loopAt (keptN slots)) o
    have hv := parseValue_pres (ILR o loopAt (keptN slots)) o
    have hlen : 0 < slots.length := List.length_pos_iff.mpr hne
    apply Pres.bind (hn s)
    rintro ⟨t, s1⟩
    simp only []
    have hval : ∀ s2 : PS, Pres (ILR o loopAt (keptN slots)) ((parseValue o fuel s2).bind fun x =>
        if (k.idx + 1) % slots.length = 0 then
          (addPacket o loopAt (if (slots.getD k.idx none).isSome = true then k.cur ++ [x.fst] else k.cur)).bind
            fun _ => packetsLoop o loopAt slots fuel x.snd { idx := 0, some := true, cur := [] }
        else
          packetsLoop o loopAt slots fuel x.snd
            { idx := (k.idx + 1) % slots.length, some := k.some,
              cur := if (slots.getD k.idx none).isSome = true then k.cur ++ [x.fst] else k.cur }) := by
      intro s2
      apply Pres.bind (hv fuel s2)
      rintro ⟨v, s3⟩
      simp only []
      -- the new `cur` has one value per retained slot among the first idx + 1
      have hcur' : (if (slots.getD k.idx none).isSome = true then k.cur ++ [v] else k.cur).length
          = keptN (slots.take (k.idx + 1)) := by
        rw [keptN_take_succ slots k.idx hidx]
        split <;> simp [hcur]
      apply Pres.dite'
      · intro hz
        have hfull : k.idx + 1 = slots.length := by
          by_cases hlt : k.idx + 1 < slots.length
          · rw [Nat.mod_eq_of_lt hlt] at hz; omega
          · omega
        apply Pres.bind
        · apply addPacket_presR
          rw [hcur', hfull, keptN_take_all]
        · intro _
          exact ih s3 { idx := 0, some := true, cur := [] } hlen (by simp [keptN])
      · intro hz
        have hlt : k.idx + 1 < slots.length := by
          by_cases hlt : k.idx + 1 < slots.length
          · exact hlt
          · have : k.idx + 1 = slots.length := by omega
            rw [this, Nat.mod_self] at hz
            exact absurd rfl hz
        apply ih
        · simp only []
          rw [Nat.mod_eq_of_lt hlt]; exact hlt
        · simp only []
          rw [Nat.mod_eq_of_lt hlt]; exact hcur'
    apply Pres.dite'
    · intro _
      apply Pres.dite'
      · intro _
        apply Pres.bind (Pres.report _ _ _ _)
        intro _
        apply Pres.bind (Pres.pure _ _)
        intro s2
        exact hval s2
      · intro _
        apply Pres.bind (Pres.pure _ _)
        intro s2
        exact hval s2
    · intro _
      apply Pres.dite'
      · intro _
        apply Pres.bind (Pres.report _ _ _ _)
        intro _
        exact ih _ k hidx hcur
      · intro _
        apply Pres.dite'
        · intro _
          apply Pres.bind (Pres.report _ _ _ _)
          intro _
          apply Pres.bind
          · apply addPacket_presR
            simp only [List.length_append, List.length_map, hcur]
            exact keptN_take_drop slots k.idx
          · intro _
            exact Pres.pure _ _
        · intro _
          presq []

theorem parseLoop_presR (o : Opts) (fuel : Nat) (s : PS) (cont : Option Path) : Pres (OkR o) (parseLoop o fuel s cont) := by
  unfold parseLoop
  simp only [bind_eq, pure_eq]
  apply HT.bind (headerLoop_pres (OkR o) o cont fuel s [])
  rintro ⟨slots, s1⟩
  simp only []
  split
  · presq []
  · rename_i hemp
    have hne : slots ≠ [] := by
      intro e; rw [e] at hemp; exact hemp rfl
    have hlen : 0 < slots.length := List.length_pos_iff.mpr hne
    have hpk0 : ∀ (la : Option Path) (s : PS), Pres (ILR o la (keptN slots))
        (packetsLoop o la slots fuel s { idx := 0, some := false, cur := [] }) :=
      fun la s => packetsLoop_presR o la slots hne fuel s _ hlen (by simp [keptN])
    have hrest : ∀ (la : Option Path) (m : P PS), Pres (ILR o la (keptN slots)) m →
        HT (ILR o la (keptN slots)) m (fun _ => OkR o) (OkR o) :=
      fun la m h => h.conseq (fun _ h => h) (fun _ _ h => h.okR) (fun _ h => h.okR)
    have hnone : ∀ c, OkR o c → ILR o none (keptN slots) c := fun c h => ILR_none o _ c h
    split
    · apply HT.bind (mid := fun la c => ILR o la (keptN slots) c) (HT.pure _ hnone)
      intro la
      apply hrest
      presq [hpk0]
    · rename_i path
      split
      · apply HT.bind (mid := fun la c => ILR o la (keptN slots) c) (HT.pure _ hnone)
        intro la
        apply hrest
        presq [hpk0]
      · split
        · exact HT.failThen _ _ (fun _ h => h)
        · apply HT.bind (mid := fun cif c => OkR o c ∧ cif = c) (HT.getCif (fun c h => ⟨h, rfl⟩))
          intro cif
          have hcreate : ∀ (k : Option Path → P PS), (∀ la, Pres (ILR o la (keptN slots)) (k la)) →
              (∀ cc, getIn o.norm path cif = some cc →
                (((List.filterMap id slots).any fun n => hasItem o.norm cc (o.norm n)) ||
                  hasDup (List.map o.norm (List.filterMap id slots))) = false) →
              HT (fun c => OkR o c ∧ cif = c)
                ((Parser.setCif (updIn o.norm (fun c => Container.mk c.code c.frames
                    (c.loops ++ [{ category := none, names := List.filterMap id slots, packets := [] }])) path cif)).bind
                  fun _ => (P.pure (some path)).bind k) (fun _ => OkR o) (OkR o) := by
            intro k hk hcl
            apply HT.bind (mid := fun _ c => ILR o (some path) (keptN slots) c)
            · apply HT.setCif
              rintro c ⟨hok, rfl⟩
              have hf : ∀ c : Container, (Container.mk c.code c.frames
                  (c.loops ++ [{ category := none, names := List.filterMap id slots, packets := [] }])).code = c.code := fun c => rfl
              refine ⟨⟨?_, ?_⟩, ?_, ?_⟩
              · apply updIn_okCif o _ hf path cif hok.1
                intro cc hg hcc
                have hcl' := hcl cc hg
                obtain ⟨code, fs, ls⟩ := cc
                rw [OkC_mk] at hcc
                simp only [Container.code, Container.frames, Container.loops]
                rw [OkC_mk]
                exact ⟨(loopsOk_newLoop o code fs ls _ hcc.1 hcl').1, hcc.2⟩
              · intro path' hp c' hg
                cases hp
                rw [getIn_updIn o _ hf] at hg
                cases hg0 : getIn o.norm path cif with
                | none => rw [hg0] at hg; cases hg
                | some cc =>
                  rw [hg0] at hg
                  simp only [Option.map_some, Option.some.injEq] at hg
                  subst hg
                  exact ⟨{ category := none, names := List.filterMap id slots, packets := [] }, by simp [Container.loops], rfl⟩
              · apply updIn_rect o _ path cif hok.1.1 hok.1.2 hok.2
                intro cc hg hcc
                obtain ⟨code, fs, ls⟩ := cc
                rw [RectC_mk] at hcc
                simp only [Container.code, Container.frames, Container.loops]
                rw [RectC_mk]
                exact ⟨(loopsRect_newLoop ls _ hcc.1).1, hcc.2⟩
              · intro path' hp c' hg
                cases hp
                rw [getIn_updIn o _ hf] at hg
                cases hg0 : getIn o.norm path cif with
                | none => rw [hg0] at hg; cases hg
                | some cc =>
                  rw [hg0] at hg
                  simp only [Option.map_some, Option.some.injEq] at hg
                  subst hg
                  exact ⟨{ category := none, names := List.filterMap id slots, packets := [] }, by simp [Container.loops],
                    filterMap_id_length slots⟩
            · intro _
              apply HT.bind (mid := fun la c => ILR o la (keptN slots) c) (HT.pure _ (fun c h => h))
              intro la
              exact hrest la _ (hk la)
          split
          · rename_i hg
            simp only [Bool.false_eq_true, if_false]
            exact hcreate _ (fun la => by presq [hpk0]) (fun cc h => by rw [hg] at h; cases h)
          · rename_i cc hg
            split
            · exact HT.failThen _ _ (fun _ h => h.1)
            · rename_i hcl
              exact hcreate _ (fun la => by presq [hpk0]) (fun cc' h => by rw [hg] at h; cases h; simpa using hcl)

theorem createIn_presR (o : Opts) (isBlock : Bool) (parent : Path) (code : Str) (line col : Nat) :
    Pres (OkR o) (createIn o isBlock parent code line col) := by
  unfold createIn
  simp only [bind_eq, pure_eq]
  apply HT.bind (mid := fun cif c => OkR o c ∧ cif = c) (HT.getCif (fun c h => ⟨h, rfl⟩))
  intro cif
  have hrep : ∀ (m : P Unit), Pres (fun c => OkR o c ∧ cif = c) m → ∀ a : Path, HT (fun c => OkR o c ∧ cif = c)
      (P.bind m fun _ => P.pure a) (fun _ => OkR o) (OkR o) :=
    fun m h a => HT.bind (h.conseq (fun _ h => h) (fun _ _ h => h) (fun _ h => h.1)) (fun _ => HT.pure _ (fun _ h => h.1))
  have hrep' : ∀ (code : Code) (line col : Nat), HT (fun c => OkR o c ∧ cif = c) (Parser.report code line col)
      (fun _ c => OkR o c ∧ cif = c) (OkR o) :=
    fun code line col => (Pres.report (fun c => OkR o c ∧ cif = c) code line col).conseq (fun _ h => h) (fun _ _ h => h) (fun _ h => h.1)
  cases isBlock <;> simp only [Bool.false_eq_true, if_false, if_true]
  · -- a save frame
    have hadd : ((Option.map Container.frames (getIn o.norm parent cif)).getD []).any (codeIs o.norm (o.norm code)) ≠ true →
        HT (fun c => OkR o c ∧ cif = c)
        (Parser.setCif (updIn o.norm (fun c => Container.mk c.code (c.frames ++ [Container.mk code [] []]) c.loops) parent cif))
        (fun _ => OkR o) (OkR o) := by
      intro hx
      apply HT.setCif
      rintro c ⟨hok, rfl⟩
      apply updIn_okR o (fun c => Container.mk c.code (c.frames ++ [Container.mk code [] []]) c.loops) (fun c => rfl) parent cif hok
      · intro cc hg hcc
        apply okC_newFrame o code cc hcc
        simp only [hg, Option.map_some, Option.getD_some] at hx
        simpa using hx
      · intro cc _ hcc
        exact rectC_newFrame code cc hcc
    split
    · apply HT.bind (mid := fun _ c => OkR o c ∧ cif = c) (hrep' _ _ _)
      intro _
      split
      · exact hrep _ (Pres.report _ _ _ _) _
      · rename_i hx
        exact HT.bind (hadd hx) (fun _ => HT.pure _ (fun _ h => h))
    · split
      · exact hrep _ (Pres.report _ _ _ _) _
      · rename_i hx
        exact HT.bind (hadd hx) (fun _ => HT.pure _ (fun _ h => h))
  · -- a data block
    have hadd : cif.any (codeIs o.norm (o.norm code)) ≠ true →
        HT (fun c => OkR o c ∧ cif = c) (Parser.setCif (cif ++ [Container.mk code [] []])) (fun _ => OkR o) (OkR o) := by
      intro hx
      apply HT.setCif
      rintro c ⟨hok, rfl⟩
      exact ⟨okCif_newBlock o code cif hok.1 (by simpa using hx), rectCs_snoc cif code hok.2⟩
    split
    · apply HT.bind (mid := fun _ c => OkR o c ∧ cif = c) (hrep' _ _ _)
      intro _
      split
      · exact hrep _ (Pres.report _ _ _ _) _
      · rename_i hx
        exact HT.bind (hadd hx) (fun _ => HT.pure _ (fun _ h => h))
    · split
      · exact hrep _ (Pres.report _ _ _ _) _
      · rename_i hx
        exact HT.bind (hadd hx) (fun _ => HT.pure _ (fun _ h => h))

/-- the pruning at the end of parse_container -/
theorem prune_presR (o : Opts) (path : Path) (s : PS) :
    Pres (OkR o) (P.bind Parser.getCif fun cif => P.bind (Parser.setCif (updIn o.norm pruneC path cif)) fun _ => P.pure s) := by
  apply HT.bind (mid := fun cif c => OkR o c ∧ cif = c) (HT.getCif (fun c h => ⟨h, rfl⟩))
  intro cif
  apply HT.bind (mid := fun _ c => OkR o c)
  · apply HT.setCif
    rintro c ⟨hok, rfl⟩
    apply updIn_okR o pruneC (fun c => by cases c; rfl) path cif hok
    · intro cc _ hcc
      exact okC_prune o cc hcc
    · intro cc _ hcc
      exact rectC_prune cc hcc
  · intro _
    exact HT.pure _ (fun _ h => h)

theorem containers_presR (o : Opts) : ∀ fuel : Nat,
    (∀ s cont isBlock, Pres (OkR o) (parseContainer o fuel s cont isBlock)) ∧
    (∀ s cont isBlock, Pres (OkR o) (elemsLoop o fuel s cont isBlock)) := by
  intro fuel
  induction fuel with
  | zero =>
    refine ⟨?_, ?_⟩ <;> intros
    · rw [parseContainer]; exact Pres.fail _ _
    · rw [elemsLoop]; exact Pres.fail _ _
  | succ fuel ih =>
    obtain ⟨hc, he⟩ := ih
    have hn := nextTok_pres (OkR o) o
    have hi := itemExists_pres (OkR o) o
    have hp := parseItem_presR o
    have hl := parseLoop_presR o
    have hk := createIn_presR o
    have hpr := prune_presR o
    refine ⟨?_, ?_⟩
    · intro s cont isBlock
      rw [parseContainer]
      simp only [bind_eq, pure_eq]
      presq [hpr, hc, he, hn, hi, hp, hl, hk]
    · intro s cont isBlock
      rw [elemsLoop]
      simp only [bind_eq, pure_eq]
      presq [hpr, hc, he, hn, hi, hp, hl, hk]

/-- the anonymous block of parse_cif's recovery from CIF_NO_BLOCK_HEADER -/
theorem anon_presR {β} (o : Opts) (K : P β) (hK : Pres (OkR o) K) :
    Pres (OkR o) (P.bind Parser.getCif fun cif =>
      if cif.any (codeIs o.norm (o.norm [])) = true then K
      else P.bind (Parser.setCif (cif ++ [Container.mk [] [] []])) fun _ => K) := by
  apply HT.bind (mid := fun cif c => OkR o c ∧ cif = c) (HT.getCif (fun c h => ⟨h, rfl⟩))
  intro cif
  split
  · exact hK.conseq (fun _ h => h.1) (fun _ _ h => h) (fun _ h => h)
  · rename_i hx
    apply HT.bind (mid := fun _ c => OkR o c)
    · apply HT.setCif
      rintro c ⟨hok, rfl⟩
      exact ⟨okCif_newBlock o [] cif hok.1 (by simpa using hx), rectCs_snoc cif [] hok.2⟩
    · intro _
      exact hK

theorem blocksLoop_presR (o : Opts) : ∀ (fuel : Nat) (s : PS), Pres (OkR o) (blocksLoop o fuel s) := by
  intro fuel
  induction fuel with
  | zero => intro s; rw [blocksLoop]; exact Pres.fail _ _
  | succ fuel ih =>
    intro s
    rw [blocksLoop]
    simp only [bind_eq, pure_eq]
    have hn := nextTok_pres (OkR o) o
    have hk := createIn_presR o
    have hc := (containers_presR o fuel).1
    apply Pres.bind (hn s)
    intro a
    split
    · presq [hn, hk, hc, ih]
    · presq [hn, hk, hc, ih]
    · apply Pres.bind (Pres.report _ _ _ _)
      intro _
      split
      · apply anon_presR
        presq [hc, ih]
      · presq [hc, ih]

end Productions

/-! ### the whole parse -/

theorem parseCif_presR (o : Opts) (fuel : Nat) (s : PS) : Pres (OkR o) (parseCif o fuel s) := by
  unfold parseCif
  simp only [bind_eq, pure_eq]
  exact clamp_pres _ _ (Pres.bind (blocksLoop_presR o fuel s) (fun _ => Pres.pure _ _))

theorem afterFirst_presR (o : Opts) (fuel : Nat) (c : CU) (rest : Str) : Pres (OkR o) (afterFirst o fuel c rest) := by
  unfold afterFirst
  simp only [bind_eq, pure_eq]
  have hp := parseCif_presR o fuel
  presq [hp]

theorem parseInternal_presR (o : Opts) (fuel : Nat) (units : Str) : Pres (OkR o) (parseInternal o fuel units) := by
  cases units with
  | nil => exact Pres.pure _ _
  | cons c rest =>
    simp only [parseInternal]
    have ha := afterFirst_presR o fuel
    have hk := ask_pres (OkR o)
    presq [ha, hk]

/-- the target CIF is consistent AND rectangular after every parse — completed, stopped by the callback, or left through one of
    the parser's own failure exits -/
theorem parse_okR (o : Opts) (pol : Policy) (pre : Cif) (units : Str) (h : OkR o pre) : OkR o (parse o pol pre units).cif := by
  have h1 := (parseInternal_presR o (fuelFor units) units).run pol { log := [], cif := pre } h
  unfold parse run
  cases hA : parseInternal o (fuelFor units) units pol { log := [], cif := pre } with
  | ok a w => rw [hA] at h1; exact h1
  | abort c w => rw [hA] at h1; exact h1

end CifModel.Model.Parser
