import CifModel.Lemmas.DefectCharsSeg
/-
  Lemmas/DefectCharsPlain (group gW) — documents WITHOUT save frames, for ANY `max_frame_depth` (in particular 0: frames not
  allowed).  `elemsV_at`, `block_step_at`, `blocks_prefix_at`, `blocks_structure` (groups gJ, gH) ask for `max_frame_depth ≠ 0`
  because a well-formed document may hold frames; for frame-free element lists (`noFrames`) the hypothesis is not needed.  With
  these, `block_segs_plain_chars` places a segment of a data block's element loop in a text whose other blocks are frame-free —
  which is what CIF_FRAME_NOT_ALLOWED needs (Props/C12Frames: `C12_chars_frame_not_allowed`).
-/
namespace CifModel.Model.Parser
open CifModel CifModel.Model CifModel.Model.Lexer CifModel.Spec.Grammar CifModel.Spec.Lexical

/-- the elements of a container when none of them is a save frame: any `max_frame_depth` -/
theorem elemsV_plain_at (o : Opts) :
    ∀ (es : List Elem) (path : Path) (put : Container → Cif) (code : Str) (_hv : View o path put code) (isBlock : Bool)
      (seen fseen : List Str) (rest : List TokSpec) (s : PS) (fuel : Nat) (pol : Policy) (w : W)
      (fs : List Container) (ls : List Loop),
      noFrames es = true →
      w.cif = put (.mk code fs ls) → wfElems o es seen fseen = true →
      (∀ k ∈ normNames o ls, k ∈ seen) → szElems es ≤ fuel →
      (∃ ty tx ts, rest = (ty, tx) :: ts ∧ isTerminator ty = true) → Feeds o s (elemsToks es ++ rest) →
      ∃ s', elemsLoop o (fuel + es.length) s (some path) isBlock pol w
          = elemsLoop o fuel s' (some path) isBlock pol
              { w with cif := put (.mk code (denoteElems o.dia o.normKey es fs ls).1 (denoteElems o.dia o.normKey es fs ls).2) }
        ∧ Lands o s (elemsToks es).length s' rest
  | [], path, put, code, _, isBlock, seen, fseen, rest, s, fuel, pol, w, fs, ls, _, hcif, _, _, _, _, hF => by
    refine ⟨s, ?_, by simpa [elemsToks] using hF, (At.refl o s).cast (by simp [elemsToks])⟩
    simp only [List.length_nil, Nat.add_zero, denoteElems]
    have : ({ w with cif := put (.mk code fs ls) } : W) = w := by cases w; simp_all
    rw [this]
  | .plain i :: r, path, put, code, hv, isBlock, seen, fseen, rest, s, fuel, pol, w, fs, ls, hnf, hcif, hwf, hseen, hfuel, hrest, hF => by
    rw [wfElems_plain, Bool.and_eq_true] at hwf
    simp only [szElems, szElem] at hfuel
    simp only [elemsToks, elemToks, List.append_assoc] at hF
    have hF1 : Feeds o s (itemsToks [i] ++ (elemsToks r ++ rest)) := by simpa [itemsToks] using hF
    obtain ⟨s1, h1, h2, ha2⟩ := items_structure_at o hv [i] seen (elemsToks r ++ rest) s (fuel + r.length) pol w fs ls isBlock hcif hwf.1 hseen
      (by simp [szItems]; omega) (fun _ => elems_rest_head r rest hrest) hF1
    obtain ⟨s2, h3, h4, ha4⟩ := elemsV_plain_at o r path put code hv isBlock (itemNames o i ++ seen) fseen rest s1 fuel pol
      { w with cif := put (.mk code fs (denoteItems o.dia o.normKey [i] ls)) } fs _
      (by simpa [noFrames] using hnf) rfl hwf.2 (normNames_item o i seen ls hwf.1 hseen) (by omega) hrest h2
    refine ⟨s2, ?_, h4, (ha2.trans ha4).cast (by simp [elemsToks, elemToks, itemsToks])⟩
    have e : fuel + (Elem.plain i :: r).length = (fuel + r.length) + [i].length := by simp; omega
    rw [e, h1, h3, denoteElems_plain]
  | .frame c b :: r, _, _, _, _, _, _, _, _, _, _, _, _, _, _, hnf, _, _, _, _, _, _ => by simp [noFrames] at hnf

/-- all blocks are free of save frames -/
def plainBlocks (bs : List Block) : Prop := ∀ b ∈ bs, noFrames b.body = true

theorem plain_block_step_at (o : Opts) (hstore : o.store = true) (b : Block) (hpl : noFrames b.body = true) (rest : List TokSpec)
    (s : PS) (fuel : Nat) (pol : Policy) (w : W) (hcode : wfCode b.code = true)
    (hnew : ∀ c ∈ w.cif, codeIs o.norm (o.norm b.code) c = false)
    (hwb : wfElems o b.body [] [] = true) (hfuel : szBlock b ≤ fuel) (hrest : blockFollow rest)
    (hF : Feeds o s ((.blockHead, b.code) :: (elemsToks b.body ++ rest))) :
    ∃ s', blocksLoop o (fuel + 1) s pol w = blocksLoop o fuel s' pol { w with cif := w.cif ++ [denoteBlock o.dia o.normKey b] }
      ∧ Lands o s (1 + (elemsToks b.body).length) s' rest := by
  simp only [wfCode, Bool.and_eq_true] at hcode
  simp only [szBlock] at hfuel
  obtain ⟨t, s1, hty, htx, hn, ht, hr⟩ := hF.inv
  obtain ⟨X, hX⟩ : ∃ X, fuel = X + 1 := ⟨fuel - 1, by omega⟩
  obtain ⟨g, hg⟩ : ∃ g, X = (g + 1) + b.body.length := ⟨X - b.body.length - 1, by omega⟩
  have hv := View.block o w.cif b.code hnew
  obtain ⟨s2, h1, h2, ha2⟩ := elemsV_plain_at o b.body _ _ _ hv true [] [] rest (consume s1) (g + 1) pol
    { w with cif := w.cif ++ [.mk b.code [] []] } [] [] hpl rfl hwb (by intro k hk; simp [normNames] at hk)
    (by omega) (blockFollow_term hrest) hr
  rw [← hg] at h1
  obtain ⟨ty, tx, ts, rfl, hfol⟩ := hrest
  obtain ⟨t3, s3, hty3, htx3, hn3, ht3, hr3⟩ := h2.inv
  refine ⟨s3, ?_, by rw [← hty3, ← htx3]; exact Feeds.pending ht3 hr3,
    ((((At.refl o s).step hn ht).trans ha2).peek hn3 ht3).cast (by omega)⟩
  have hpacked : allPacked (denoteElems o.dia o.normKey b.body [] []).2 :=
    allPacked_denoteElems o b.body [] [] [] [] hwb (by intro l hl; cases hl)
  conv => lhs; rw [blocksLoop]
  simp only [bind_eq, pure_eq, P.bind, P.pure, hn, hty, htx, hstore, if_true, cstr_noNul hcode.2,
    createIn_block o b.code _ _ pol w hcode.1 hnew]
  conv => lhs; rw [hX, parseContainer]
  simp only [bind_eq, pure_eq, P.bind, P.pure, h1]
  conv => lhs; rw [elemsLoop]
  rcases hfol with h | h
  · simp only [bind_eq, pure_eq, P.bind, P.pure, hn3, hty3, h, if_true, getCif, setCif, hv.upd, pruneC_packed _ _ _ hpacked]
    rw [hX]; rfl
  · simp only [bind_eq, pure_eq, P.bind, P.pure, hn3, hty3, h, if_true, getCif, setCif, hv.upd, pruneC_packed _ _ _ hpacked]
    rw [hX]; rfl

theorem blocks_follow' (r : List Block) (rest : List TokSpec) (h : blockFollow rest) : blockFollow (blocksToks r ++ rest) := by
  cases r with
  | nil => simpa [blocksToks] using h
  | cons b r' => exact ⟨.blockHead, b.code, elemsToks b.body ++ (blocksToks r' ++ rest), by simp [blocksToks], Or.inl rfl⟩

theorem plain_blocks_prefix_at (o : Opts) (hstore : o.store = true) :
    ∀ (bs : List Block) (bseen : List Str) (rest : List TokSpec) (s : PS) (fuel : Nat) (pol : Policy) (w : W), plainBlocks bs →
      wfBlocks o bs bseen = true → (∀ c ∈ w.cif, o.norm c.code ∈ bseen) → szBlocks bs ≤ fuel → blockFollow rest →
      Feeds o s (blocksToks bs ++ rest) →
      ∃ s', blocksLoop o (fuel + bs.length) s pol w = blocksLoop o fuel s' pol { w with cif := w.cif ++ denote o.dia o.normKey bs }
        ∧ Lands o s (blocksToks bs).length s' rest
  | [], bseen, rest, s, fuel, pol, w, _, _, _, _, _, hF => by
    refine ⟨s, ?_, by simpa [blocksToks] using hF, (At.refl o s).cast (by simp [blocksToks])⟩
    simp only [List.length_nil, Nat.add_zero, denote, List.map_nil, List.append_nil]
  | b :: r, bseen, rest, s, fuel, pol, w, hpl, hwf, hseen, hfuel, hrest, hF => by
    simp only [wfBlocks, Bool.and_eq_true, Bool.not_eq_true'] at hwf
    obtain ⟨⟨⟨hcode, hcnew⟩, hwb⟩, hwr⟩ := hwf
    simp only [szBlocks] at hfuel
    have hnew : ∀ c ∈ w.cif, codeIs o.norm (o.norm b.code) c = false := by
      intro c hc
      have h1 := hseen c hc
      simp only [codeIs, beq_eq_false_iff_ne, ne_eq]
      intro heq
      rw [heq] at h1
      simp [List.contains_iff_mem] at hcnew
      exact hcnew h1
    simp only [blocksToks, List.cons_append, List.append_assoc] at hF
    obtain ⟨s1, h1, h2, ha2⟩ := plain_block_step_at o hstore b (hpl b List.mem_cons_self) (blocksToks r ++ rest) s (fuel + r.length) pol w
      hcode hnew hwb (by omega) (blocks_follow' r rest hrest) hF
    obtain ⟨s2, h3, h4, ha4⟩ := plain_blocks_prefix_at o hstore r (o.norm b.code :: bseen) rest s1 fuel pol
      { w with cif := w.cif ++ [denoteBlock o.dia o.normKey b] } (fun x hx => hpl x (List.mem_cons_of_mem _ hx)) hwr
      (by
        intro c hc
        rcases List.mem_append.mp hc with h | h
        · exact List.mem_cons_of_mem _ (hseen c h)
        · simp only [List.mem_singleton] at h; subst h; simp [denoteBlock, Container.code])
      (by omega) hrest h2
    refine ⟨s2, ?_, h4, (ha2.trans ha4).cast (by simp [blocksToks]; omega)⟩
    have e : fuel + (b :: r).length = (fuel + r.length) + 1 := by simp; omega
    rw [e, h1, h3]
    simp [denote, List.append_assoc]

theorem plain_blocks_structure (o : Opts) (hstore : o.store = true) (bs : List Block) (bseen : List Str) (s : PS) (fuel : Nat)
    (pol : Policy) (w : W) (hpl : plainBlocks bs) (hwf : wfBlocks o bs bseen = true) (hseen : ∀ c ∈ w.cif, o.norm c.code ∈ bseen)
    (hfuel : szBlocks bs + 1 ≤ fuel) (hF : Feeds o s (blocksToks bs ++ [(.end_, [])])) :
    ∃ s', blocksLoop o (fuel + bs.length) s pol w = .ok s' { w with cif := w.cif ++ denote o.dia o.normKey bs } := by
  obtain ⟨f, rfl⟩ : ∃ f, fuel = f + 1 := ⟨fuel - 1, by omega⟩
  obtain ⟨s1, h1, h2, _⟩ := plain_blocks_prefix_at o hstore bs bseen [(.end_, [])] s (f + 1) pol w hpl hwf hseen (by omega)
    ⟨_, _, _, rfl, Or.inr rfl⟩ hF
  obtain ⟨t, s2, hty, _, hn, _, _⟩ := h2.inv
  refine ⟨s2, ?_⟩
  rw [h1, blocksLoop]
  simp only [bind_eq, pure_eq, P.bind, P.pure, hn, hty]

end CifModel.Model.Parser

namespace CifModel.Lemmas.DefectChars
open CifModel CifModel.Model CifModel.Model.Lexer CifModel.Model.Parser CifModel.Spec.Lexical CifModel.Spec.Grammar
open CifModel.Lemmas.LexGlue

/-- `block_segs_run` for frame-free blocks around, any `max_frame_depth` -/
theorem block_segs_plain_run (o : Opts) (hstore : o.store = true) (pre post : List Block) (hplpre : plainBlocks pre)
    (hplpost : plainBlocks post) (bc : Str)
    (T : List TokSpec) (fs' : List Container) (ls' : List Loop) (sp : List (Code × Nat)) (n k need : Nat) (bseen2 : List Str) (s : PS)
    (total : Nat) (w : W) (hw : w.cif = [])
    (hpre : wfBlocks o pre [] = true) (hcode : wfCode bc = true)
    (hnew : ∀ c ∈ denote o.dia o.normKey pre, codeIs o.norm (o.norm bc) c = false)
    (hpost : wfBlocks o post bseen2 = true)
    (hseen2 : ∀ c ∈ denote o.dia o.normKey pre ++ [pruneC (.mk bc fs' ls')], o.norm c.code ∈ bseen2)
    (hseg : Seg o [o.norm bc] (fun x => denote o.dia o.normKey pre ++ [x]) bc true T [] [] fs' ls' sp n k need termFollow)
    (hfuel : szBlocks pre + szBlocks post + pre.length + post.length + k + need + 5 ≤ total)
    (hF : Feeds o s (blocksToks pre ++ ((.blockHead, bc) :: (T ++ (blocksToks post ++ [(.end_, [])]))))) :
    ∃ s' rs, blocksLoop o total s acceptAll w
        = .ok s' { log := rs.reverse ++ w.log,
                   cif := denote o.dia o.normKey pre ++ pruneC (.mk bc fs' ls') :: denote o.dia o.normKey post }
      ∧ RepsAt o s rs (shiftSpec ((blocksToks pre).length + 1) sp) := by
  simp only [wfCode, Bool.and_eq_true] at hcode
  obtain ⟨F, rfl⟩ : ∃ F, total = (F + post.length + 1) + pre.length := ⟨total - pre.length - post.length - 1, by omega⟩
  obtain ⟨s1, h1, h2, hat⟩ := plain_blocks_prefix_at o hstore pre [] _ s (F + post.length + 1) acceptAll w hplpre hpre
    (by rw [hw]; intro c hc; cases hc) (by omega) ⟨.blockHead, bc, _, rfl, Or.inl rfl⟩ hF
  obtain ⟨t, s1', hty, htx, hn, htk, hr⟩ := h2.inv
  have hnew' : ∀ c ∈ ({ w with cif := w.cif ++ denote o.dia o.normKey pre } : W).cif, codeIs o.norm (o.norm bc) c = false := by
    intro c hc; simp only [hw, List.nil_append] at hc; exact hnew c hc
  obtain ⟨f, hf⟩ : ∃ f, F + post.length = ((f + 1) + k) + 1 := ⟨F + post.length - k - 2, by omega⟩
  obtain ⟨s2, rs, h3, hrs, h4, _⟩ := hseg (blocksToks post ++ [(.end_, [])]) (consume s1') (f + 1)
    { w with cif := (w.cif ++ denote o.dia o.normKey pre) ++ [.mk bc [] []] } (by simp [hw]) (by omega)
    (blockFollow_term (blocks_rest_head post)) hr
  obtain ⟨ty, tx, ts, hrest, hfol⟩ := blocks_rest_head post
  rw [hrest] at h4
  obtain ⟨t3, s3, hty3, htx3, hn3, ht3, hr3⟩ := h4.inv
  have h5 : Feeds o s3 (blocksToks post ++ [(.end_, [])]) := by
    rw [hrest, ← hty3, ← htx3]; exact Feeds.pending ht3 hr3
  have hv := View.block o (denote o.dia o.normKey pre) bc hnew
  obtain ⟨s4, h6⟩ := plain_blocks_structure o hstore post bseen2 s3 F acceptAll
    { log := rs.reverse ++ w.log, cif := denote o.dia o.normKey pre ++ [pruneC (.mk bc fs' ls')] } hplpost hpost hseen2 (by omega) h5
  refine ⟨s4, rs, ?_, RepsAt.shift (hat.step hn htk) hrs⟩
  rw [h1]
  conv => lhs; rw [blocksLoop]
  simp only [Parser.bind_eq, Parser.pure_eq, P.bind, P.pure, hn, hty, htx, hstore, if_true, cstr_noNul hcode.2,
    createIn_block o bc _ _ acceptAll _ hcode.1 hnew']
  conv => lhs; rw [hf, parseContainer]
  simp only [Parser.bind_eq, Parser.pure_eq, P.bind, P.pure, h3]
  conv => lhs; rw [elemsLoop]
  rcases hfol with h | h
  · simp only [Parser.bind_eq, Parser.pure_eq, P.bind, P.pure, hn3, hty3, h, if_true, getCif, setCif, hv.upd]
    rw [← hf, h6]; simp
  · simp only [Parser.bind_eq, Parser.pure_eq, P.bind, P.pure, hn3, hty3, h, if_true, getCif, setCif, hv.upd]
    rw [← hf, h6]; simp

/-- `block_segs_chars` for frame-free blocks around, any `max_frame_depth` -/
theorem block_segs_plain_chars (o : Opts) (hstore : o.store = true) (hutf : o.notUtf8 = false)
    (cs : List Chunk) (c : CU) (rest : Str) (preB postB : List Block) (hplpre : plainBlocks preB) (hplpost : plainBlocks postB)
    (bc : Str) (T : List TokSpec)
    (fs' : List Container) (ls' : List Loop) (sp : List (Code × Nat)) (n k need : Nat) (bseen2 : List Str)
    (hok : okC o.dia .end_ [] cs) (hfit : linesFit 0 (renderChunks cs) = true)
    (hc : renderChunks cs = c :: rest) (hfirst : disallowedInitial c = false) (hbom : (c == 0xFEFF) = false)
    (ht : toks cs = blocksToks preB ++ ((.blockHead, bc) :: (T ++ blocksToks postB)))
    (hpreB : wfBlocks o preB [] = true) (hcode : wfCode bc = true) (hnew : ∀ b ∈ preB, o.norm b.code ≠ o.norm bc)
    (hpostB : wfBlocks o postB bseen2 = true) (hb2 : ∀ b ∈ preB, o.norm b.code ∈ bseen2) (hb2' : o.norm bc ∈ bseen2)
    (hneed : k + need ≤ 2 * T.length + 20) (hsp : ∀ cj ∈ sp, cj.2 ≤ T.length)
    (hseg : View o [o.norm bc] (fun x => denote o.dia o.normKey preB ++ [x]) bc →
      Seg o [o.norm bc] (fun x => denote o.dia o.normKey preB ++ [x]) bc true T [] [] fs' ls' sp n k need termFollow) :
    ∃ rs, parse o acceptAll [] (renderChunks cs)
        = { rc := 0, log := rs,
            cif := denote o.dia o.normKey preB ++ pruneC (.mk bc fs' ls') :: denote o.dia o.normKey postB }
      ∧ rs.map (·.code) = sp.map (·.1)
      ∧ LinesAt cs rs (shiftSpec ((blocksToks preB).length + 1) sp) := by
  have hfeeds := feeds_chunks o cs [] 1 0 .end_ hok (by simpa [renderWs] using hfit)
  have hfuel := fuel_block_defect o.dia cs .end_ [] hok preB postB bc T k need ht hneed
  simp only [renderWs, List.map_nil, List.flatten_nil, List.nil_append] at hfeeds
  rw [ht] at hfeeds
  have hS : ({ scan := Scan.init (renderChunks cs), tok := none } : PS) = { scan := Scan.init (c :: rest), tok := none } := by rw [hc]
  rw [hc] at hfeeds hfuel
  have hnewc : ∀ x ∈ denote o.dia o.normKey preB, codeIs o.norm (o.norm bc) x = false := by
    intro x hx
    obtain ⟨b, hb, hcb⟩ := denote_code hx
    simp only [codeIs, hcb, beq_eq_false_iff_ne, ne_eq]
    exact hnew b hb
  obtain ⟨s', rs, h, hrs⟩ := block_segs_plain_run o hstore preB postB hplpre hplpost bc T fs' ls' sp n k need bseen2 _ (fuelFor (c :: rest))
    { log := [], cif := [] } rfl hpreB hcode hnewc hpostB
    (by
      intro x hx
      rcases List.mem_append.mp hx with hx | hx
      · obtain ⟨b, hb, hcb⟩ := denote_code hx
        rw [hcb]; exact hb2 b hb
      · simp only [List.mem_singleton] at hx
        rw [hx, pruneC_code]; exact hb2')
    (hseg (View.block o (denote o.dia o.normKey preB) bc hnewc)) hfuel (by simpa [List.append_assoc] using hfeeds)
  have hrs : RepsAt o { scan := Scan.init (renderChunks cs), tok := none } rs (shiftSpec ((blocksToks preB).length + 1) sp) := by
    rw [hS]; exact hrs
  refine ⟨rs, ?_, ?_, ?_⟩
  · rw [hc, parse_of_blocks o acceptAll c rest s' _ hutf hfirst hbom h]
    simp
  · have := RepsAt.codes hrs
    simpa [shiftSpec, List.map_map, Function.comp_def] using this
  · refine repsAt_lines o cs hok hfit ?_ hrs
    intro cj hcj
    simp only [shiftSpec, List.mem_map] at hcj
    obtain ⟨x, hx, rfl⟩ := hcj
    have := hsp x hx
    rw [ht]
    simp only [List.length_append, List.length_cons]
    omega

end CifModel.Lemmas.DefectChars
