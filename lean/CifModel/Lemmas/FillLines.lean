import CifModel.Model.Fill
import CifModel.Lemmas.FillSpec
/-
  HANDLE_EOL: the line number the `sol` machine arrives at is 1 + the number of terminators (CR LF counting once),
  for ANY stream of units — LF-only, raw CR, raw CR LF, mixtures, extra EOL characters of the parse options.
-/
namespace CifModel.Model.Fill
open CifModel.Spec.Eol

/-- the relation between the scanner's line state and the normaliser's state after the same units -/
def LineRel (isEol : CU → Bool) (ls : LineSt) (es : EolSt) : Prop :=
  ls.line = 1 + (es.out.filter isEol).length ∧ (ls.sol % 4 = 2 ↔ es.prevCR = true)

theorem lineStep_rel (isEol : CU → Bool) (h10 : isEol 10 = true) (h13 : isEol 13 = true)
    (ls : LineSt) (es : EolSt) (c : CU) (h : LineRel isEol ls es) :
    LineRel isEol (lineStep isEol ls c) (eolStep es c) := by
  obtain ⟨hl, hs⟩ := h
  unfold lineStep eolStep solStep LineRel
  by_cases hc : c = 13
  · subst hc
    simp only [h13, if_true]
    have : (ls.sol * 4 + 2) % 16 ≠ 9 := by omega
    refine ⟨?_, ?_⟩
    · simp [this, h10, hl]; omega
    · simp <;> omega
  · by_cases hc10 : c = 10
    · subst hc10
      simp only [h10, if_true]
      cases hp : es.prevCR with
      | true =>
        have h2 : ls.sol % 4 = 2 := hs.mpr hp
        have : (ls.sol * 4 + 1) % 16 = 9 := by omega
        refine ⟨?_, ?_⟩
        · simp [this, hl]
        · simp <;> omega
      | false =>
        have h2 : ¬ ls.sol % 4 = 2 := fun h => by have := hs.mp h; rw [hp] at this; cases this
        have : (ls.sol * 4 + 1) % 16 ≠ 9 := by omega
        refine ⟨?_, ?_⟩
        · simp [this, h10, hl]; omega
        · simp <;> omega
    · by_cases he : isEol c = true
      · simp only [he, if_true, hc, hc10, if_false, false_and]
        have : (ls.sol * 4 + 3) % 16 ≠ 9 := by omega
        refine ⟨?_, ?_⟩
        · simp [this, he, hl]; omega
        · simp <;> omega
      · simp only [he, hc, hc10, if_false, false_and]
        refine ⟨?_, ?_⟩
        · simp [he, hl]
        · simp

theorem lineFold_rel (isEol : CU → Bool) (h10 : isEol 10 = true) (h13 : isEol 13 = true)
    (l : Str) (ls : LineSt) (es : EolSt) (h : LineRel isEol ls es) :
    LineRel isEol (l.foldl (lineStep isEol) ls) (run es l) := by
  induction l generalizing ls es with
  | nil => exact h
  | cons c cs ih => exact ih _ _ (lineStep_rel isEol h10 h13 ls es c h)

/-- **HANDLE_EOL line-count lemma** -/
theorem lineCount_eq (isEol : CU → Bool) (h10 : isEol 10 = true) (h13 : isEol 13 = true) (l : Str) :
    lineCount isEol l = lineAfter isEol l := by
  have := lineFold_rel isEol h10 h13 l ⟨0, 1⟩ ⟨false, []⟩ (by simp [LineRel])
  unfold lineCount lineAfter normalizeEOL normFrom
  rw [this.1, List.filter_reverse, List.length_reverse]

/-- over a stream without CR, the line number is 1 + the number of EOL units before the position -/
theorem lineCount_noCR (isEol : CU → Bool) (h10 : isEol 10 = true) (h13 : isEol 13 = true) (l : Str)
    (h : ∀ c ∈ l, c ≠ 13) : lineCount isEol l = 1 + (l.filter isEol).length := by
  rw [lineCount_eq isEol h10 h13, lineAfter, normalizeEOL, normFrom_of_noCR l h]

end CifModel.Model.Fill
