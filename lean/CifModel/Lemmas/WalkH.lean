import CifModel.Model.WalkH
/-
  CifModel.Lemmas.WalkH — the walk with handles (Model/WalkH.lean):
    * erasing the handles gives the walk of Model/Walk.lean, function by function (`*_erase`, `walkH_erase`): every theorem
      about `Walk.walk` is a theorem about the callbacks of `walkH`;
    * every callback is handed the handle of the element it announces, and that handle denotes this element in the CIF
      (`Res`, `walkWH_res`).
-/
set_option linter.unusedSimpArgs false
set_option linter.unusedVariables false

namespace CifModel.Lemmas.WalkH
open CifModel.Walk

macro "trh" : tactic => `(tactic| first | trivial | rfl)

/-- forget the handles -/
def eraseW (w : WH) : W := ⟨w.n, w.log.map (·.1)⟩

@[simp] theorem eraseW_n (w : WH) : (eraseW w).n = w.n := rfl
theorem init_n : WH.init.n = W.init.n := rfl

theorem callH_erase (p : Prog) (w : WH) (e : Ev) (h : Handle) :
    (callH p w e h).1 = (call p (eraseW w) e).1 ∧ eraseW (callH p w e h).2 = (call p (eraseW w) e).2 := ⟨rfl, rfl⟩

theorem items_erase (p : Prog) (path : Path) (i j : Nat) : ∀ (k : Nat) (is : List (Str × V)) (w : WH),
    (walkItemsH p path i j k is w).1 = (walkItems p is (eraseW w)).1
    ∧ eraseW (walkItemsH p path i j k is w).2 = (walkItems p is (eraseW w)).2
  | _, [], w => ⟨rfl, rfl⟩
  | k, (nm, v) :: is, w => by
    simp only [walkItemsH, walkItems, callH, call]
    simp only [eraseW_n]
    by_cases h1 : p w.n (.item nm v) = CONTINUE ∨ p w.n (.item nm v) = SKIP_CURRENT
    · simp only [h1, if_true]
      exact items_erase p path i j (k + 1) is _
    · simp only [h1, if_false]
      by_cases h2 : p w.n (.item nm v) = SKIP_SIBLINGS
      · simp only [h2, if_true]; exact ⟨(by trh), (by trh)⟩
      · simp only [h2, if_false]; exact ⟨(by trh), (by trh)⟩

theorem packet_erase (p : Prog) (path : Path) (i j : Nat) (pk : List (Str × V)) (w : WH) :
    (walkPacketH p path i j pk w).1 = (walkPacket p pk (eraseW w)).1
    ∧ eraseW (walkPacketH p path i j pk w).2 = (walkPacket p pk (eraseW w)).2 := by
  simp only [walkPacketH, walkPacket, callH, call]
  simp only [eraseW_n]
  by_cases h1 : p w.n (.pktStart pk) = CONTINUE
  · simp only [h1, ne_eq, not_true_eq_false, if_false]
    obtain ⟨a, b⟩ := items_erase p path i j 0 pk { n := w.n + 1, log := (Ev.pktStart pk, Handle.packet path i j) :: w.log }
    have he : eraseW { n := w.n + 1, log := (Ev.pktStart pk, Handle.packet path i j) :: w.log }
        = { n := w.n + 1, log := Ev.pktStart pk :: (eraseW w).log } := rfl
    rw [he] at a b
    generalize walkItemsH p path i j 0 pk _ = x at a b
    generalize walkItems p pk _ = y at a b
    rcases x with ⟨xo, xw⟩
    rcases y with ⟨yo, yw⟩
    dsimp only at a b
    subst a
    cases xo with
    | some r => exact ⟨rfl, b⟩
    | none =>
      dsimp only
      rw [← b]
      exact ⟨rfl, rfl⟩
  · simp only [h1, ne_eq, not_false_eq_true, if_true]; exact ⟨(by trh), (by trh)⟩

theorem packets_erase (p : Prog) (path : Path) (i : Nat) : ∀ (j : Nat) (pks : List (List (Str × V))) (w : WH),
    (walkPacketsH p path i j pks w).1 = (walkPackets p pks (eraseW w)).1
    ∧ (walkPacketsH p path i j pks w).2.1 = (walkPackets p pks (eraseW w)).2.1
    ∧ eraseW (walkPacketsH p path i j pks w).2.2 = (walkPackets p pks (eraseW w)).2.2
  | _, [], w => ⟨rfl, rfl, rfl⟩
  | j, pk :: pks, w => by
    obtain ⟨a, b⟩ := packet_erase p path i j pk w
    simp only [walkPacketsH, walkPackets]
    generalize walkPacketH p path i j pk w = x at a b
    generalize walkPacket p pk (eraseW w) = y at a b
    rcases x with ⟨xr, xw⟩
    rcases y with ⟨yr, yw⟩
    dsimp only at a b ⊢
    subst a
    by_cases h1 : xr = CONTINUE ∨ xr = SKIP_CURRENT
    · simp only [h1, if_true]
      rw [← b]
      exact packets_erase p path i (j + 1) pks xw
    · simp only [h1, if_false]
      by_cases h2 : xr = SKIP_SIBLINGS
      · simp only [h2, if_true]; exact ⟨(by trh), (by trh), b⟩
      · simp only [h2, if_false]; exact ⟨(by trh), (by trh), b⟩

theorem loop_erase (p : Prog) (path : Path) (i : Nat) (l : WLoop) (w : WH) :
    (walkLoopH p path i l w).1 = (walkLoop p l (eraseW w)).1
    ∧ eraseW (walkLoopH p path i l w).2 = (walkLoop p l (eraseW w)).2 := by
  simp only [walkLoopH, walkLoop, callH, call]
  simp only [eraseW_n]
  by_cases h1 : p w.n (.loopStart l.category l.names) = CONTINUE
  · simp only [h1, ne_eq, not_true_eq_false, if_false]
    by_cases he : l.packets.isEmpty = true
    · simp only [he, if_true]; exact ⟨(by trh), (by trh)⟩
    · simp only [he, Bool.false_eq_true, if_false]
      obtain ⟨a, b, c⟩ := packets_erase p path i 0 l.packets
        { n := w.n + 1, log := (Ev.loopStart l.category l.names, Handle.loop path i) :: w.log }
      have hee : eraseW { n := w.n + 1, log := (Ev.loopStart l.category l.names, Handle.loop path i) :: w.log }
          = { n := w.n + 1, log := Ev.loopStart l.category l.names :: (eraseW w).log } := rfl
      rw [hee] at a b c
      simp only [← a, ← b, ← c]
      by_cases h2 : (walkPacketsH p path i 0 l.packets
          { n := w.n + 1, log := (Ev.loopStart l.category l.names, Handle.loop path i) :: w.log }).1 = true
          ∨ (walkPacketsH p path i 0 l.packets
          { n := w.n + 1, log := (Ev.loopStart l.category l.names, Handle.loop path i) :: w.log }).2.1 ≠ FINISHED
      · simp only [h2, if_true]; exact ⟨(by trh), (by trh)⟩
      · simp only [h2, if_false]; exact ⟨(by trh), (by trh)⟩
  · simp only [h1, ne_eq, not_false_eq_true, if_true]; exact ⟨(by trh), (by trh)⟩

theorem loops_erase (p : Prog) (path : Path) : ∀ (i : Nat) (ls : List WLoop) (res : Int) (w : WH),
    (walkLoopsFromH p path i ls res w).1 = (walkLoopsFrom p ls res (eraseW w)).1
    ∧ eraseW (walkLoopsFromH p path i ls res w).2 = (walkLoopsFrom p ls res (eraseW w)).2
  | _, [], res, w => ⟨rfl, rfl⟩
  | i, l :: ls, res, w => by
    obtain ⟨a, b⟩ := loop_erase p path i l w
    simp only [walkLoopsFromH, walkLoopsFrom]
    generalize walkLoopH p path i l w = x at a b
    generalize walkLoop p l (eraseW w) = y at a b
    rcases x with ⟨xr, xw⟩
    rcases y with ⟨yr, yw⟩
    dsimp only at a b ⊢
    subst a
    by_cases h1 : xr = SKIP_CURRENT ∨ xr = CONTINUE
    · simp only [h1, if_true]
      rw [← b]
      exact loops_erase p path (i + 1) ls xr xw
    · simp only [h1, if_false]; exact ⟨(by trh), b⟩

mutual
  theorem cont_erase (p : Prog) : ∀ (d : Nat) (path : Path) (c : WCont) (w : WH),
      (walkContH p d path c w).1 = (walkCont p d c (eraseW w)).1
      ∧ eraseW (walkContH p d path c w).2 = (walkCont p d c (eraseW w)).2
    | d, path, .mk code frames loops, w => by
      simp only [walkContH, walkCont, callH, call, walkLoops]
      simp only [eraseW_n]
      by_cases h1 : p w.n (if d = 0 then Ev.blockStart code else Ev.frameStart code) = CONTINUE
      · simp only [h1, ne_eq, not_true_eq_false, if_false]
        obtain ⟨a, b⟩ := frames_erase p (d + 1) path 0 frames
          { n := w.n + 1, log := ((if d = 0 then Ev.blockStart code else Ev.frameStart code), Handle.cont path) :: w.log }
        have hee : eraseW { n := w.n + 1, log := ((if d = 0 then Ev.blockStart code else Ev.frameStart code), Handle.cont path) :: w.log }
            = { n := w.n + 1, log := (if d = 0 then Ev.blockStart code else Ev.frameStart code) :: (eraseW w).log } := rfl
        rw [hee] at a b
        generalize walkFramesH p (d + 1) path 0 frames _ = x at a b
        generalize walkFrames p (d + 1) frames _ = y at a b
        rcases x with ⟨xo, xw⟩
        rcases y with ⟨yo, yw⟩
        dsimp only at a b ⊢
        subst a
        cases xo with
        | some r => exact ⟨rfl, b⟩
        | none =>
          dsimp only
          rw [← b]
          obtain ⟨a2, b2⟩ := loops_erase p path 0 loops OK xw
          simp only [← a2, ← b2, eraseW_n]
          by_cases h2 : (walkLoopsFromH p path 0 loops OK xw).1 = CONTINUE ∨ (walkLoopsFromH p path 0 loops OK xw).1 = SKIP_CURRENT
          · simp only [h2, if_true]; exact ⟨(by trh), (by trh)⟩
          · simp only [h2, if_false]
            by_cases h3 : (walkLoopsFromH p path 0 loops OK xw).1 = SKIP_SIBLINGS
            · simp only [h3, if_true]; exact ⟨(by trh), (by trh)⟩
            · simp only [h3, if_false]; exact ⟨(by trh), (by trh)⟩
      · simp only [h1, ne_eq, not_false_eq_true, if_true]; exact ⟨(by trh), (by trh)⟩
  theorem frames_erase (p : Prog) : ∀ (d : Nat) (parent : Path) (j : Nat) (fs : List WCont) (w : WH),
      (walkFramesH p d parent j fs w).1 = (walkFrames p d fs (eraseW w)).1
      ∧ eraseW (walkFramesH p d parent j fs w).2 = (walkFrames p d fs (eraseW w)).2
    | d, parent, j, [], w => ⟨rfl, rfl⟩
    | d, parent, j, f :: fs, w => by
      obtain ⟨a, b⟩ := cont_erase p d (parent ++ [j]) f w
      simp only [walkFramesH, walkFrames]
      generalize walkContH p d (parent ++ [j]) f w = x at a b
      generalize walkCont p d f (eraseW w) = y at a b
      rcases x with ⟨xr, xw⟩
      rcases y with ⟨yr, yw⟩
      dsimp only at a b ⊢
      subst a
      by_cases h1 : xr = CONTINUE ∨ xr = SKIP_CURRENT
      · simp only [h1, if_true]
        rw [← b]
        exact frames_erase p d parent (j + 1) fs xw
      · simp only [h1, if_false]
        by_cases h2 : xr = SKIP_SIBLINGS
        · simp only [h2, if_true]; exact ⟨(by trh), b⟩
        · simp only [h2, if_false]; exact ⟨(by trh), b⟩
end

theorem blocks_erase (p : Prog) : ∀ (i : Nat) (bs : List WCont) (w : WH),
    (walkBlocksH p i bs w).1 = (walkBlocks p bs (eraseW w)).1
    ∧ eraseW (walkBlocksH p i bs w).2 = (walkBlocks p bs (eraseW w)).2
  | _, [], w => ⟨rfl, rfl⟩
  | i, b :: bs, w => by
    obtain ⟨a, c⟩ := cont_erase p 0 [i] b w
    simp only [walkBlocksH, walkBlocks]
    generalize walkContH p 0 [i] b w = x at a c
    generalize walkCont p 0 b (eraseW w) = y at a c
    rcases x with ⟨xr, xw⟩
    rcases y with ⟨yr, yw⟩
    dsimp only at a c ⊢
    subst a
    by_cases h1 : xr = CONTINUE ∨ xr = SKIP_CURRENT
    · simp only [h1, if_true]
      rw [← c]
      exact blocks_erase p (i + 1) bs xw
    · simp only [h1, if_false]
      by_cases h2 : xr = SKIP_SIBLINGS ∨ xr = END
      · simp only [h2, if_true]; exact ⟨(by trh), c⟩
      · simp only [h2, if_false]; exact ⟨(by trh), c⟩

/-- **erasing the handles gives the walk of Model/Walk.lean** -/
theorem walkWH_erase (p : Prog) (c : WCif) :
    (walkWH p c).1 = (walkW p c).1 ∧ eraseW (walkWH p c).2 = (walkW p c).2 := by
  simp only [walkWH, walkW, callH, call]
  simp only [init_n]
  by_cases h1 : p W.init.n .cifStart = CONTINUE
  · simp only [h1, if_true]
    obtain ⟨a, b⟩ := blocks_erase p 0 c { n := W.init.n + 1, log := (Ev.cifStart, Handle.cif) :: WH.init.log }
    have hee : eraseW { n := W.init.n + 1, log := (Ev.cifStart, Handle.cif) :: WH.init.log }
        = { n := W.init.n + 1, log := Ev.cifStart :: W.init.log } := rfl
    rw [hee] at a b
    generalize walkBlocksH p 0 c _ = x at a b
    generalize walkBlocks p c _ = y at a b
    rcases x with ⟨xo, xw⟩
    rcases y with ⟨yo, yw⟩
    dsimp only at a b ⊢
    subst a
    cases xo with
    | some r => exact ⟨rfl, b⟩
    | none =>
      dsimp only
      rw [← b]
      simp only [eraseW_n]
      by_cases h2 : p xw.n .cifEnd = CONTINUE ∨ p xw.n .cifEnd = SKIP_CURRENT ∨ p xw.n .cifEnd = SKIP_SIBLINGS ∨ p xw.n .cifEnd = END
      · simp only [h2, if_true]; exact ⟨(by trh), (by trh)⟩
      · simp only [h2, if_false]; exact ⟨(by trh), (by trh)⟩
  · simp only [h1, if_false]
    by_cases h2 : p W.init.n .cifStart = SKIP_CURRENT ∨ p W.init.n .cifStart = SKIP_SIBLINGS ∨ p W.init.n .cifStart = END
    · simp only [h2, if_true]; exact ⟨(by trh), (by trh)⟩
    · simp only [h2, if_false]; exact ⟨(by trh), (by trh)⟩

theorem walkH_erase (p : Prog) (c : WCif) : (walkH p c).1.map (·.1) = (walk p c).1 ∧ (walkH p c).2 = (walk p c).2 := by
  obtain ⟨a, b⟩ := walkWH_erase p c
  unfold walkH walk
  refine ⟨?_, a⟩
  show (walkWH p c).2.log.reverse.map (·.1) = (walkW p c).2.log.reverse
  rw [← b]
  simp [eraseW, List.map_reverse]

-- ---- every callback is handed the handle of the element it announces -------------------------------------------------------------

/-- the handle passed with a callback denotes, in the CIF `c`, the element the callback announces: a container callback gets the
    path of a container with that code, of the right kind (block_start / block_end ⇔ a data block ⇔ no parent); a loop callback the
    (container, position) of a loop with that category and those names; a packet callback a packet of the loop being walked, at the
    iterator's position, with those items; an item callback the item at that position of that packet -/
def Res (c : WCif) : Ev × Handle → Prop
  | (.cifStart, .cif) => True
  | (.cifEnd, .cif) => True
  | (.blockStart code, .cont path) => path.length = 1 ∧ ∃ ct, lookup c path = some ct ∧ ct.code = code
  | (.blockEnd code, .cont path) => path.length = 1 ∧ ∃ ct, lookup c path = some ct ∧ ct.code = code
  | (.frameStart code, .cont path) => path.length ≠ 1 ∧ ∃ ct, lookup c path = some ct ∧ ct.code = code
  | (.frameEnd code, .cont path) => path.length ≠ 1 ∧ ∃ ct, lookup c path = some ct ∧ ct.code = code
  | (.loopStart cat names, .loop path i) => ∃ l, lookupLoop c path i = some l ∧ l.category = cat ∧ l.names = names
  | (.loopEnd cat names, .loop path i) => ∃ l, lookupLoop c path i = some l ∧ l.category = cat ∧ l.names = names
  | (.pktStart pk, .packet path i j) => ∃ l, lookupLoop c path i = some l ∧ l.packets[j]? = some pk
  | (.pktEnd pk, .packet path i j) => ∃ l, lookupLoop c path i = some l ∧ l.packets[j]? = some pk
  | (.item nm v, .item path i j k) => ∃ l pk, lookupLoop c path i = some l ∧ l.packets[j]? = some pk ∧ pk[k]? = some (nm, v)
  | _ => False

def AllRes (c : WCif) (w : WH) : Prop := ∀ x ∈ w.log, Res c x

theorem AllRes.call {c : WCif} {w : WH} (h : AllRes c w) (p : Prog) (e : Ev) (hd : Handle) (hr : Res c (e, hd)) :
    AllRes c (callH p w e hd).2 := by
  intro x hx
  rcases List.mem_cons.mp hx with rfl | hx
  · exact hr
  · exact h x hx

theorem drop_cons {α : Type} : ∀ (l : List α) (k : Nat) (x : α) (rest : List α), l.drop k = x :: rest →
    l[k]? = some x ∧ l.drop (k + 1) = rest
  | [], k, x, rest, h => by simp at h
  | a :: l, 0, x, rest, h => by
    simp only [List.drop_zero, List.cons.injEq] at h
    simp [h.1, h.2]
  | a :: l, k + 1, x, rest, h => by
    have := drop_cons l k x rest (by simpa using h)
    simpa using this

theorem lookup_snoc : ∀ (path : Path) (cs : List WCont) (ct : WCont) (j : Nat), lookup cs path = some ct →
    lookup cs (path ++ [j]) = ct.frames[j]?
  | [], cs, ct, j, h => by simp [lookup] at h
  | i :: rest, cs, ct, j, h => by
    simp only [lookup, List.cons_append] at h ⊢
    cases hc : cs[i]? with
    | none => simp [hc] at h
    | some c0 =>
      simp only [hc] at h ⊢
      cases rest with
      | nil =>
        simp only [List.isEmpty_nil, if_true, Option.some.injEq] at h
        subst h
        simp only [List.nil_append, List.isEmpty_cons, Bool.false_eq_true, if_false, lookup]
        cases c0.frames[j]? <;> simp
      | cons r0 rest' =>
        simp only [List.isEmpty_cons, Bool.false_eq_true, if_false] at h
        simp only [List.cons_append, List.isEmpty_cons, Bool.false_eq_true, if_false]
        exact lookup_snoc (r0 :: rest') c0.frames ct j h

theorem lookup_single (cs : List WCont) (i : Nat) : lookup cs [i] = cs[i]? := by
  simp only [lookup]
  cases cs[i]? <;> simp

theorem items_res (c : WCif) (p : Prog) (path : Path) (i j : Nat) (l : WLoop) (pk : List (Str × V))
    (hl : lookupLoop c path i = some l) (hpk : l.packets[j]? = some pk) : ∀ (k : Nat) (is : List (Str × V)) (w : WH),
    pk.drop k = is → AllRes c w → AllRes c (walkItemsH p path i j k is w).2
  | _, [], w, _, h => h
  | k, (nm, v) :: is, w, hd, h => by
    obtain ⟨d1, d2⟩ := drop_cons pk k (nm, v) is hd
    have hc := h.call p (.item nm v) (.item path i j k) ⟨l, pk, hl, hpk, d1⟩
    simp only [walkItemsH]
    generalize callH p w (Ev.item nm v) (Handle.item path i j k) = x at hc
    rcases x with ⟨r, w1⟩
    dsimp only at hc ⊢
    by_cases h1 : r = CONTINUE ∨ r = SKIP_CURRENT
    · simp only [h1, if_true]; exact items_res c p path i j l pk hl hpk (k + 1) is w1 d2 hc
    · simp only [h1, if_false]
      by_cases h2 : r = SKIP_SIBLINGS
      · simp only [h2, if_true]; exact hc
      · simp only [h2, if_false]; exact hc

theorem packet_res (c : WCif) (p : Prog) (path : Path) (i j : Nat) (l : WLoop) (pk : List (Str × V))
    (hl : lookupLoop c path i = some l) (hpk : l.packets[j]? = some pk) (w : WH) (h : AllRes c w) :
    AllRes c (walkPacketH p path i j pk w).2 := by
  have hc := h.call p (.pktStart pk) (.packet path i j) ⟨l, hl, hpk⟩
  simp only [walkPacketH]
  generalize callH p w (Ev.pktStart pk) (Handle.packet path i j) = x at hc
  rcases x with ⟨r, w1⟩
  dsimp only at hc ⊢
  by_cases h1 : r = CONTINUE
  · simp only [h1, ne_eq, not_true_eq_false, if_false]
    have hi := items_res c p path i j l pk hl hpk 0 pk w1 rfl hc
    generalize walkItemsH p path i j 0 pk w1 = y at hi
    rcases y with ⟨o, w2⟩
    cases o with
    | some r2 => exact hi
    | none => exact AllRes.call hi p _ _ ⟨l, hl, hpk⟩
  · simp only [h1, ne_eq, not_false_eq_true, if_true]; exact hc

theorem packets_res (c : WCif) (p : Prog) (path : Path) (i : Nat) (l : WLoop) (hl : lookupLoop c path i = some l) :
    ∀ (j : Nat) (pks : List (List (Str × V))) (w : WH), l.packets.drop j = pks → AllRes c w →
    AllRes c (walkPacketsH p path i j pks w).2.2
  | _, [], w, _, h => h
  | j, pk :: pks, w, hd, h => by
    obtain ⟨d1, d2⟩ := drop_cons l.packets j pk pks hd
    have hp := packet_res c p path i j l pk hl d1 w h
    simp only [walkPacketsH]
    generalize walkPacketH p path i j pk w = x at hp
    rcases x with ⟨r, w1⟩
    dsimp only at hp ⊢
    by_cases h1 : r = CONTINUE ∨ r = SKIP_CURRENT
    · simp only [h1, if_true]; exact packets_res c p path i l hl (j + 1) pks w1 d2 hp
    · simp only [h1, if_false]
      by_cases h2 : r = SKIP_SIBLINGS
      · simp only [h2, if_true]; exact hp
      · simp only [h2, if_false]; exact hp

theorem loop_res (c : WCif) (p : Prog) (path : Path) (i : Nat) (l : WLoop) (hl : lookupLoop c path i = some l) (w : WH)
    (h : AllRes c w) : AllRes c (walkLoopH p path i l w).2 := by
  have hc := h.call p (.loopStart l.category l.names) (.loop path i) ⟨l, hl, rfl, rfl⟩
  simp only [walkLoopH]
  generalize callH p w (Ev.loopStart l.category l.names) (Handle.loop path i) = x at hc
  rcases x with ⟨r, w1⟩
  dsimp only at hc ⊢
  by_cases h1 : r = CONTINUE
  · simp only [h1, ne_eq, not_true_eq_false, if_false]
    by_cases he : l.packets.isEmpty = true
    · simp only [he, if_true]; exact hc
    · simp only [he, Bool.false_eq_true, if_false]
      have hp := packets_res c p path i l hl 0 l.packets w1 rfl hc
      generalize walkPacketsH p path i 0 l.packets w1 = y at hp
      rcases y with ⟨st, r2, w2⟩
      dsimp only at hp ⊢
      by_cases h2 : st = true ∨ r2 ≠ FINISHED
      · simp only [h2, if_true]; exact hp
      · simp only [h2, if_false]; exact AllRes.call hp p _ _ ⟨l, hl, rfl, rfl⟩
  · simp only [h1, ne_eq, not_false_eq_true, if_true]; exact hc

theorem loops_res (c : WCif) (p : Prog) (path : Path) (ct : WCont) (hct : lookup c path = some ct) :
    ∀ (i : Nat) (ls : List WLoop) (res : Int) (w : WH), ct.loops.drop i = ls → AllRes c w →
    AllRes c (walkLoopsFromH p path i ls res w).2
  | _, [], res, w, _, h => h
  | i, l :: ls, res, w, hd, h => by
    obtain ⟨d1, d2⟩ := drop_cons ct.loops i l ls hd
    have hll : lookupLoop c path i = some l := by simp only [lookupLoop, hct]; exact d1
    have hp := loop_res c p path i l hll w h
    simp only [walkLoopsFromH]
    generalize walkLoopH p path i l w = x at hp
    rcases x with ⟨r, w1⟩
    dsimp only at hp ⊢
    by_cases h1 : r = SKIP_CURRENT ∨ r = CONTINUE
    · simp only [h1, if_true]; exact loops_res c p path ct hct (i + 1) ls r w1 d2 hp
    · simp only [h1, if_false]; exact hp

mutual
  theorem cont_res (c : WCif) (p : Prog) : ∀ (d : Nat) (path : Path) (ct : WCont) (w : WH),
      lookup c path = some ct → (d = 0 ↔ path.length = 1) → AllRes c w → AllRes c (walkContH p d path ct w).2
    | d, path, .mk code frames loops, w, hct, hd, h => by
      have hres : ∀ (bs fs : Str → Ev) , True := fun _ _ => trivial
      have hstart : Res c ((if d = 0 then Ev.blockStart code else Ev.frameStart code), Handle.cont path) := by
        by_cases h0 : d = 0
        · simp only [h0, if_true]; exact ⟨hd.mp h0, _, hct, rfl⟩
        · simp only [h0, if_false]; exact ⟨fun hh => h0 (hd.mpr hh), _, hct, rfl⟩
      have hend : Res c ((if d = 0 then Ev.blockEnd code else Ev.frameEnd code), Handle.cont path) := by
        by_cases h0 : d = 0
        · simp only [h0, if_true]; exact ⟨hd.mp h0, _, hct, rfl⟩
        · simp only [h0, if_false]; exact ⟨fun hh => h0 (hd.mpr hh), _, hct, rfl⟩
      have hc := h.call p _ _ hstart
      simp only [walkContH]
      generalize callH p w (if d = 0 then Ev.blockStart code else Ev.frameStart code) (Handle.cont path) = x at hc
      rcases x with ⟨r, w1⟩
      dsimp only at hc ⊢
      by_cases h1 : r = CONTINUE
      · simp only [h1, ne_eq, not_true_eq_false, if_false]
        have hpne : path ≠ [] := by
          intro hh; rw [hh] at hct; simp [lookup] at hct
        have hf := frames_res c p (d + 1) path (.mk code frames loops) hct hpne 0 frames w1 rfl (by omega) hc
        generalize walkFramesH p (d + 1) path 0 frames w1 = y at hf
        rcases y with ⟨o, w2⟩
        cases o with
        | some r2 => exact hf
        | none =>
          dsimp only at hf ⊢
          have hl := loops_res c p path (.mk code frames loops) hct 0 loops OK w2 rfl hf
          generalize walkLoopsFromH p path 0 loops OK w2 = z at hl
          rcases z with ⟨r3, w3⟩
          dsimp only at hl ⊢
          by_cases h2 : r3 = CONTINUE ∨ r3 = SKIP_CURRENT
          · simp only [h2, if_true]; exact AllRes.call hl p _ _ hend
          · simp only [h2, if_false]
            by_cases h3 : r3 = SKIP_SIBLINGS
            · simp only [h3, if_true]; exact hl
            · simp only [h3, if_false]; exact hl
      · simp only [h1, ne_eq, not_false_eq_true, if_true]; exact hc
  theorem frames_res (c : WCif) (p : Prog) : ∀ (d : Nat) (parent : Path) (ct : WCont), lookup c parent = some ct → parent ≠ [] →
      ∀ (j : Nat) (fs : List WCont) (w : WH), ct.frames.drop j = fs → d ≠ 0 → AllRes c w →
      AllRes c (walkFramesH p d parent j fs w).2
    | d, parent, ct, hct, hne, j, [], w, _, _, h => h
    | d, parent, ct, hct, hne, j, f :: fs, w, hd, hd0, h => by
      obtain ⟨d1, d2⟩ := drop_cons ct.frames j f fs hd
      have hlk : lookup c (parent ++ [j]) = some f := by rw [lookup_snoc parent c ct j hct]; exact d1
      have hlen : (d = 0 ↔ (parent ++ [j]).length = 1) := by
        constructor
        · intro h0; exact absurd h0 hd0
        · intro hl
          cases parent with
          | nil => exact absurd rfl hne
          | cons a r => simp at hl
      have hp := cont_res c p d (parent ++ [j]) f w hlk hlen h
      simp only [walkFramesH]
      generalize walkContH p d (parent ++ [j]) f w = x at hp
      rcases x with ⟨r, w1⟩
      dsimp only at hp ⊢
      by_cases h1 : r = CONTINUE ∨ r = SKIP_CURRENT
      · simp only [h1, if_true]; exact frames_res c p d parent ct hct hne (j + 1) fs w1 d2 hd0 hp
      · simp only [h1, if_false]
        by_cases h2 : r = SKIP_SIBLINGS
        · simp only [h2, if_true]; exact hp
        · simp only [h2, if_false]; exact hp
end

theorem blocks_res (c : WCif) (p : Prog) : ∀ (i : Nat) (bs : List WCont) (w : WH), c.drop i = bs → AllRes c w →
    AllRes c (walkBlocksH p i bs w).2
  | _, [], w, _, h => h
  | i, b :: bs, w, hd, h => by
    obtain ⟨d1, d2⟩ := drop_cons c i b bs hd
    have hlk : lookup c [i] = some b := by rw [lookup_single]; exact d1
    have hp := cont_res c p 0 [i] b w hlk (by simp) h
    simp only [walkBlocksH]
    generalize walkContH p 0 [i] b w = x at hp
    rcases x with ⟨r, w1⟩
    dsimp only at hp ⊢
    by_cases h1 : r = CONTINUE ∨ r = SKIP_CURRENT
    · simp only [h1, if_true]; exact blocks_res c p (i + 1) bs w1 d2 hp
    · simp only [h1, if_false]
      by_cases h2 : r = SKIP_SIBLINGS ∨ r = END
      · simp only [h2, if_true]; exact hp
      · simp only [h2, if_false]; exact hp

/-- **every callback of a walk gets the handle of the element it announces** -/
theorem walkWH_res (p : Prog) (c : WCif) : AllRes c (walkWH p c).2 := by
  have h0 : AllRes c WH.init := by intro x hx; cases hx
  have hc := h0.call p .cifStart .cif trivial
  simp only [walkWH]
  generalize callH p WH.init Ev.cifStart Handle.cif = x at hc
  rcases x with ⟨r, w1⟩
  dsimp only at hc ⊢
  by_cases h1 : r = CONTINUE
  · simp only [h1, if_true]
    have hb := blocks_res c p 0 c w1 rfl hc
    generalize walkBlocksH p 0 c w1 = y at hb
    rcases y with ⟨o, w2⟩
    cases o with
    | some r2 => exact hb
    | none =>
      dsimp only at hb ⊢
      have he := AllRes.call hb p .cifEnd .cif trivial
      generalize callH p w2 Ev.cifEnd Handle.cif = z at he
      rcases z with ⟨r3, w3⟩
      dsimp only at he ⊢
      split <;> exact he
  · simp only [h1, if_false]
    split <;> exact hc

end CifModel.Lemmas.WalkH
