import CifModel.Lemmas.WriterV1Refuse
/-
  Lemmas/WriterKeys — which table keys `write_table` refuses, exactly.

  `write_table` (ciffile.c) writes a key through `write_char(context, key, allow_text = CIF_FALSE)` — the key counts as a QUOTED
  string, so `cif_analyze_string` recommends `'`/`"`, `'''`/`"""` or, when none of them will do, a text field, which is refused
  with CIF_DISALLOWED_VALUE — and then its colon with `write_literal(":", CIF_NOWRAP)`, which is refused with
  CIF_DISALLOWED_VALUE when the key ended in the last column.  Before the key a line break is written unless
  `last_column + 8 + u_strlen(key) <= 2048`; hence, whatever the column the entry starts in, the key is written either from column 0
  or with 5 columns to spare, and WHETHER an entry is refused depends on the key alone: `keyPresented`.
-/
set_option linter.unusedSimpArgs false
set_option linter.unusedVariables false

namespace CifModel.Lemmas.WriterKeys
open CifModel CifModel.Model CifModel.Model.Writer CifModel.Gen CifModel.Lemmas.WriterTotal CifModel.Lemmas.WriterV1

/-- the quoted / triple-quoted presentation of the key and its colon fit: lines of `Spec.splitLines` (terminators LF, CR LF,
    CR), lengths in code units, `LINE` = 2048.
    * a one-line key: it is quoted with `'` or `"` — one of the two does not occur in it — and the closing quote must leave a
      column for the colon: `length + 3 ≤ LINE`; or else, holding both, it is triple-quoted — it neither ends in the quote
      character nor contains three of them in a row (`tripleOk`) — on one line with its colon: `length + 7 ≤ LINE`;
    * a key of several lines can only be triple-quoted: no line longer than `LINE`, the last line with the closing delimiter and
      the colon within the line (`last + 3 < LINE`), the first line with the opening delimiter within the line
      (`first + 3 ≤ LINE` — it may fill the line; `cif_analyze_string` compared with `<` until the repair of F-key-first-line). -/
def keyFits (k : Str) : Bool :=
  let ls := Spec.splitLines k
  if ls.length = 1 then
    (decide (k.length + 3 ≤ LINE) && (cnt k 39 == 0 || cnt k 34 == 0))
      || (decide (k.length + 7 ≤ LINE) && (tripleOk 39 k || tripleOk 34 k))
  else
    decide (Spec.maxLen ls ≤ LINE) && decide ((ls.getLastD []).length + 3 < LINE) && decide ((ls.headD []).length + 3 ≤ LINE)
      && (tripleOk 39 k || tripleOk 34 k)

/-- **the keys `write_table` writes** (all others are refused with CIF_DISALLOWED_VALUE), as a predicate on the key alone: no
    carriage return (`write_char` refuses it at once) and a quoted or triple-quoted presentation that fits with its colon -/
def keyPresented (k : Str) : Bool := !(k.contains 13) && keyFits k

/-- `keyFits` / `keyPresented` written out once more with the colon's column made explicit (`last + 4 ≤ LINE`).  NOT an independent
    specification: it is the writer's own criterion, term for term (same case split, same `Model.tripleOk`), and equal to
    `keyPresented` by unfolding (`keyPresented_eq_writable`).  A specification from the lexical grammar — "some admissible quoted or
    triple-quoted presentation (`Spec.Lexical.admissible`, `linesFit`) of the key followed by `:` exists" — and its equivalence with
    `keyPresented` are not stated or proved (review rB). -/
def keyWritable (k : Str) : Bool :=
  !(k.contains 13) &&
  (let ls := Spec.splitLines k
   if ls.length = 1 then
     (decide (k.length + 3 ≤ LINE) && (cnt k 39 == 0 || cnt k 34 == 0))
       || (decide (k.length + 7 ≤ LINE) && (tripleOk 39 k || tripleOk 34 k))
   else
     decide (Spec.maxLen ls ≤ LINE) && decide ((ls.getLastD []).length + 4 ≤ LINE) && decide ((ls.headD []).length + 3 ≤ LINE)
       && (tripleOk 39 k || tripleOk 34 k))

/-- the two spellings of the writer's criterion agree (by unfolding; says nothing about an independent specification) -/
theorem keyPresented_eq_writable (k : Str) : keyPresented k = keyWritable k := by
  unfold keyPresented keyWritable keyFits
  congr 1

/-! ### the analysis of a key -/

/-- the delimiter `cif_analyze_string` recommends for a table key: quoted, triple quotes allowed -/
def keyDelim (k : Str) : Delim := chooseDelim k false true LINE (counters k)

theorem key_stats (k : Str) :
    (counters k).length = k.length ∧ (counters k).numLines = (Spec.splitLines k).length
    ∧ (counters k).firstLine = ((Spec.splitLines k).headD []).length
    ∧ (counters k).thisLine = ((Spec.splitLines k).getLastD []).length
    ∧ (counters k).maxLine = Spec.maxLen (Spec.splitLines k) := by
  obtain ⟨a, b, c, d, e, _⟩ := C18_stats_exact k false true LINE
  exact ⟨a, b, c, d, e⟩

theorem key_oneline (k : Str) (h : (Spec.splitLines k).length = 1) :
    Spec.splitLines k = [k] := by
  apply Lemmas.Analyze.splitLines_single
  intro c hc
  constructor
  · intro e; subst e
    have := Lemmas.WriterLex.two_lines_of_terminator k (Or.inl hc); omega
  · intro e; subst e
    have := Lemmas.WriterLex.two_lines_of_terminator k (Or.inr hc); omega

/-- the first line of a string of several lines is a proper prefix -/
theorem first_lt_of_lines : ∀ (s : Str), (Spec.splitLines s).length ≠ 1 → ((Spec.splitLines s).headD []).length < s.length := by
  intro s
  induction s with
  | nil => intro h; simp [Spec.splitLines] at h
  | cons c rest ih =>
    intro h
    have hle := head_line_le rest
    have hne := Lemmas.Analyze.splitLines_ne_nil rest
    simp only [Spec.splitLines] at h ⊢
    split
    · -- CR of a CR LF pair
      simp only [List.length_cons]; omega
    · rename_i h1
      simp only [h1, if_false] at h
      split
      · simp
      · rename_i h2
        simp only [h2, if_false] at h
        cases hs : Spec.splitLines rest with
        | nil => exact absurd hs hne
        | cons l ls =>
          rw [hs] at h ih
          simp only [Spec.consHead, List.length_cons, List.headD_cons] at h ih ⊢
          have := ih h
          omega

theorem unquotedOk_false (k : Str) : unquotedOk k false = false := by
  simp [unquotedOk]

/-- the cascade for a key, in terms of its lines -/
theorem keyDelim_oneline (k : Str) (h : (Spec.splitLines k).length = 1) :
    keyDelim k =
      if k.length + 2 ≤ LINE ∧ cnt k 39 = 0 then .apos
      else if k.length + 2 ≤ LINE ∧ cnt k 34 = 0 then .quot
      else if k.length + 6 ≤ LINE ∧ tripleOk 39 k = true then .apos3
      else if k.length + 6 ≤ LINE ∧ tripleOk 34 k = true then .quot3
      else .text := by
  obtain ⟨_, hn, _, _, hm⟩ := key_stats k
  have hm' : (counters k).maxLine = k.length := by rw [hm, key_oneline k h]; simp [Spec.maxLen]
  have hn' : (counters k).numLines = 1 := by rw [hn, h]
  unfold keyDelim chooseDelim
  simp only [hm', hn', unquotedOk_false, if_true, Bool.false_eq_true, if_false, true_and]
  by_cases hl : k.length ≤ LINE
  · simp only [hl, if_true]
  · simp only [hl, if_false]
    have a : ¬ k.length + 2 ≤ LINE := by omega
    have b : ¬ k.length + 6 ≤ LINE := by omega
    simp [a, b]

theorem keyDelim_multiline (k : Str) (h : (Spec.splitLines k).length ≠ 1) :
    keyDelim k =
      if Spec.maxLen (Spec.splitLines k) ≤ LINE then
        if ((Spec.splitLines k).getLastD []).length + 3 < LINE ∧ ((Spec.splitLines k).headD []).length + 3 ≤ LINE
            ∧ tripleOk 39 k = true then .apos3
        else if ((Spec.splitLines k).getLastD []).length + 3 < LINE ∧ ((Spec.splitLines k).headD []).length + 3 ≤ LINE
            ∧ tripleOk 34 k = true then .quot3
        else .text
      else .text := by
  obtain ⟨_, hn, hf, hl, hm⟩ := key_stats k
  have hn' : ¬ (counters k).numLines = 1 := by rw [hn]; exact h
  unfold keyDelim chooseDelim
  simp only [hm, hn', hf, hl, if_false, true_and]

/-! ### the key and its colon, from a column that leaves room -/

/-- the core of `write_char(key, no text field)` followed by `write_literal(":", CIF_NOWRAP)` -/
def keyColonCore (key : Str) (c : Ctx) : W :=
  andThen (writeCharCore c key true false) fun c3 =>
    match writeLiteral c3 [58] false with
    | none => .error ErrCodes.CIF_DISALLOWED_VALUE
    | some r => .ok r

theorem colon_ok (c3 : Ctx) (h : c3.lastColumn + 1 ≤ LINE) :
    writeLiteral c3 [58] false = some ([58], { c3 with lastColumn := c3.lastColumn + 1 }) := by
  unfold writeLiteral
  have : ¬ (1 + c3.lastColumn > LINE) := by omega
  simp [this]

theorem colon_none (c3 : Ctx) (h : ¬ c3.lastColumn + 1 ≤ LINE) : writeLiteral c3 [58] false = none := by
  unfold writeLiteral
  have : (1 + c3.lastColumn > LINE) := by omega
  simp [this]

theorem analyze_key_delim (k : Str) :
    (analyze k false true LINE).delim = (keyDelim k).units ∧ (analyze k false true LINE).delimLength = (keyDelim k).units.length
    ∧ (analyze k false true LINE).length = k.length
    ∧ (analyze k false true LINE).lengthFirst = ((Spec.splitLines k).headD []).length
    ∧ (analyze k false true LINE).lengthLast = ((Spec.splitLines k).getLastD []).length := by
  obtain ⟨a, _, c, d, _⟩ := C18_stats_exact k false true LINE
  exact ⟨rfl, rfl, a, c, d⟩

/-- the result of `keyColonCore` from a column that is 0, or leaves 7 columns beyond the key: success exactly for presented keys -/
theorem keyColonCore_spec (key : Str) (c : Ctx) (h2 : c.isCif1 = false)
    (hcol : c.lastColumn = 0 ∨ c.lastColumn + key.length + 7 ≤ LINE) :
    (keyFits key = true → ∃ o c', keyColonCore key c = .ok (o, c') ∧ Same c c') ∧
    (keyFits key = false → keyColonCore key c = .error ErrCodes.CIF_DISALLOWED_VALUE) := by
  have hv : ¬(c.isCif1 = true ∧ validate11 key = false) := by simp [h2]
  have hq : (!true) = false := rfl
  have ht : (!c.isCif1) = true := by simp [h2]
  obtain ⟨hd, hdl, hlen, hfirst, hlast⟩ := analyze_key_delim key
  -- the three ways the key is written
  have quoted : ∀ d : CU, key.length + 2 ≤ LINE →
      keyColonCore key c = (if key.length + 3 ≤ LINE then
          andThen (writeQuoted c key key.length d) fun c3 => .ok ([58], { c3 with lastColumn := c3.lastColumn + 1 })
        else .error ErrCodes.CIF_DISALLOWED_VALUE) →
      (key.length + 3 ≤ LINE → ∃ o c', keyColonCore key c = .ok (o, c') ∧ Same c c') ∧
      (¬ key.length + 3 ≤ LINE → keyColonCore key c = .error ErrCodes.CIF_DISALLOWED_VALUE) := by
    intro d _ he
    constructor
    · intro h3
      rw [he, if_pos h3]
      unfold writeQuoted
      simp only [List.length_append, List.length_cons, List.length_nil, Lemmas.WriterChar.printfS_length]
      have : 0 + 1 + key.length + (0 + 1) = key.length + 2 := by omega
      simp only [this, if_true, andThen]
      exact ⟨_, _, rfl, ⟨rfl, rfl⟩⟩
    · intro h3
      rw [he, if_neg h3]
  have quotedEq : ∀ d : CU, key.length + 2 ≤ LINE → (analyze key false true LINE).delimLength = 1 →
      (analyze key false true LINE).delim.headD 0 = d →
      keyColonCore key c = (if key.length + 3 ≤ LINE then
          andThen (writeQuoted c key key.length d) fun c3 => .ok ([58], { c3 with lastColumn := c3.lastColumn + 1 })
        else .error ErrCodes.CIF_DISALLOWED_VALUE) := by
    intro d h2' hdl1 hdd
    have e := Lemmas.WriterChar.writeChar_delim1 c key true false hv (by rw [hq, ht]; exact hdl1)
    rw [hq, ht, hlen, hdd] at e
    unfold keyColonCore
    rw [e]
    unfold writeQuoted
    simp only [List.length_append, List.length_cons, List.length_nil, Lemmas.WriterChar.printfS_length]
    have : 0 + 1 + key.length + (0 + 1) = key.length + 2 := by omega
    simp only [this, if_true, andThen]
    by_cases h3 : key.length + 3 ≤ LINE
    · rw [if_pos h3]
      rw [colon_ok]
      simp only
      split <;> omega
    · rw [if_neg h3]
      rw [colon_none]
      simp only
      rcases hcol with h0 | h0
      · rw [h0]; split <;> omega
      · omega
  -- triple quotes
  have tripleEq : ∀ d : CU, (analyze key false true LINE).delimLength = 3 → (analyze key false true LINE).delim.headD 0 = d →
      keyColonCore key c = andThen (writeTripleQuoted c key ((Spec.splitLines key).headD []).length
          ((Spec.splitLines key).getLastD []).length d) fun c3 =>
        match writeLiteral c3 [58] false with
        | none => .error ErrCodes.CIF_DISALLOWED_VALUE
        | some r => .ok r := by
    intro d hdl3 hdd
    have e := Lemmas.WriterChar.writeChar_delim3 c key true false hv (by rw [hq, ht]; exact hdl3)
    rw [hq, ht, hfirst, hlast, hdd] at e
    unfold keyColonCore
    rw [e]
  have hfl := head_line_le key
  by_cases h1 : (Spec.splitLines key).length = 1
  · -- a key of one line
    have hk := key_oneline key h1
    have hd1 := keyDelim_oneline key h1
    have hP : keyFits key = ((decide (key.length + 3 ≤ LINE) && (cnt key 39 == 0 || cnt key 34 == 0))
        || (decide (key.length + 7 ≤ LINE) && (tripleOk 39 key || tripleOk 34 key))) := by
      unfold keyFits; simp only [h1, if_true]
    have tripleOne : ∀ d : CU, (analyze key false true LINE).delimLength = 3 → (analyze key false true LINE).delim.headD 0 = d →
        key.length + 6 ≤ LINE →
        (key.length + 7 ≤ LINE → ∃ o c', keyColonCore key c = .ok (o, c') ∧ Same c c') ∧
        (¬ key.length + 7 ≤ LINE → keyColonCore key c = .error ErrCodes.CIF_DISALLOWED_VALUE) := by
      intro d hdl3 hdd h6
      rw [tripleEq d hdl3 hdd, hk]
      simp only [List.headD_cons, List.getLastD_cons, List.getLast?_nil, Option.getD_none, List.getLastD_nil]
      unfold writeTripleQuoted
      have hm : decide (key.length < key.length) = false := by simp
      simp only [hm, Bool.false_eq_true, if_false, List.length_append, List.length_cons, List.length_nil]
      have hb : 0 + 1 + 1 + 1 + key.length + (0 + 1 + 1 + 1) ≥ key.length + 6 := by omega
      simp only [hb, if_true, andThen]
      constructor
      · intro h7
        rw [colon_ok]
        · exact ⟨_, _, rfl, ⟨rfl, rfl⟩⟩
        · simp only
          rcases hcol with h0 | h0
          · rw [h0]; split <;> omega
          · split <;> omega
      · intro h7
        rw [colon_none]
        simp only
        rcases hcol with h0 | h0
        · rw [h0]; split <;> omega
        · omega
    by_cases ha : key.length + 2 ≤ LINE ∧ cnt key 39 = 0
    · rw [if_pos ha] at hd1
      have hdl1 : (analyze key false true LINE).delimLength = 1 := by rw [hdl, hd1]; rfl
      have hdd : (analyze key false true LINE).delim.headD 0 = 39 := by rw [hd, hd1]; rfl
      have := quoted 39 ha.1 (quotedEq 39 ha.1 hdl1 hdd)
      have hPe : keyFits key = decide (key.length + 3 ≤ LINE) := by
        rw [hP]; simp only [ha.2, beq_self_eq_true, Bool.true_or, Bool.and_true]
        by_cases h3 : key.length + 3 ≤ LINE
        · simp [h3]
        · have : ¬ key.length + 7 ≤ LINE := by omega
          simp [h3, this]
      rw [hPe]
      exact ⟨fun h => this.1 (by simpa using h), fun h => this.2 (by simpa using h)⟩
    rw [if_neg ha] at hd1
    by_cases hb : key.length + 2 ≤ LINE ∧ cnt key 34 = 0
    · rw [if_pos hb] at hd1
      have hdl1 : (analyze key false true LINE).delimLength = 1 := by rw [hdl, hd1]; rfl
      have hdd : (analyze key false true LINE).delim.headD 0 = 34 := by rw [hd, hd1]; rfl
      have := quoted 34 hb.1 (quotedEq 34 hb.1 hdl1 hdd)
      have hPe : keyFits key = decide (key.length + 3 ≤ LINE) := by
        rw [hP]; simp only [hb.2, beq_self_eq_true, Bool.or_true, Bool.and_true]
        by_cases h3 : key.length + 3 ≤ LINE
        · simp [h3]
        · have : ¬ key.length + 7 ≤ LINE := by omega
          simp [h3, this]
      rw [hPe]
      exact ⟨fun h => this.1 (by simpa using h), fun h => this.2 (by simpa using h)⟩
    rw [if_neg hb] at hd1
    -- neither single quote will do: both occur, or the key is too long
    have hq1 : (decide (key.length + 3 ≤ LINE) && (cnt key 39 == 0 || cnt key 34 == 0)) = false := by
      by_cases h3 : key.length + 3 ≤ LINE
      · have a1 : ¬ cnt key 39 = 0 := fun e => ha ⟨by omega, e⟩
        have b1 : ¬ cnt key 34 = 0 := fun e => hb ⟨by omega, e⟩
        simp [a1, b1]
      · simp [h3]
    by_cases hc : key.length + 6 ≤ LINE ∧ tripleOk 39 key = true
    · rw [if_pos hc] at hd1
      have hdl3 : (analyze key false true LINE).delimLength = 3 := by rw [hdl, hd1]; rfl
      have hdd : (analyze key false true LINE).delim.headD 0 = 39 := by rw [hd, hd1]; rfl
      have := tripleOne 39 hdl3 hdd hc.1
      have hPe : keyFits key = decide (key.length + 7 ≤ LINE) := by
        rw [hP, hq1]; simp [hc.2]
      rw [hPe]
      exact ⟨fun h => this.1 (by simpa using h), fun h => this.2 (by simpa using h)⟩
    rw [if_neg hc] at hd1
    by_cases hd' : key.length + 6 ≤ LINE ∧ tripleOk 34 key = true
    · rw [if_pos hd'] at hd1
      have hdl3 : (analyze key false true LINE).delimLength = 3 := by rw [hdl, hd1]; rfl
      have hdd : (analyze key false true LINE).delim.headD 0 = 34 := by rw [hd, hd1]; rfl
      have := tripleOne 34 hdl3 hdd hd'.1
      have hPe : keyFits key = decide (key.length + 7 ≤ LINE) := by
        rw [hP, hq1]; simp [hd'.2]
      rw [hPe]
      exact ⟨fun h => this.1 (by simpa using h), fun h => this.2 (by simpa using h)⟩
    rw [if_neg hd'] at hd1
    -- only a text field is left: refused
    have hdl2 : (analyze key false true LINE).delimLength = 2 := by rw [hdl, hd1]; rfl
    have hPf : keyFits key = false := by
      rw [hP, hq1]
      by_cases h7 : key.length + 7 ≤ LINE
      · have c1 : tripleOk 39 key = false := by
          cases ht39 : tripleOk 39 key with
          | false => rfl
          | true => exact absurd ⟨by omega, ht39⟩ hc
        have d1 : tripleOk 34 key = false := by
          cases ht34 : tripleOk 34 key with
          | false => rfl
          | true => exact absurd ⟨by omega, ht34⟩ hd'
        simp [c1, d1]
      · simp [h7]
    rw [hPf]
    refine ⟨fun h => (by cases h), fun _ => ?_⟩
    unfold keyColonCore
    rw [Lemmas.WriterChar.writeChar_delim2_refused c key true false hv (by rw [hq, ht]; exact hdl2) (Or.inl rfl)]
    rfl
  · -- a key of several lines
    have hdm := keyDelim_multiline key h1
    have hlt := first_lt_of_lines key h1
    have hP : keyFits key = (decide (Spec.maxLen (Spec.splitLines key) ≤ LINE)
        && decide (((Spec.splitLines key).getLastD []).length + 3 < LINE)
        && decide (((Spec.splitLines key).headD []).length + 3 ≤ LINE) && (tripleOk 39 key || tripleOk 34 key)) := by
      unfold keyFits; simp only [h1, if_false]
    have tripleMany : ∀ d : CU, (analyze key false true LINE).delimLength = 3 → (analyze key false true LINE).delim.headD 0 = d →
        ((Spec.splitLines key).getLastD []).length + 3 < LINE →
        ∃ o c', keyColonCore key c = .ok (o, c') ∧ Same c c' := by
      intro d hdl3 hdd hl3
      rw [tripleEq d hdl3 hdd]
      unfold writeTripleQuoted
      have hm : decide (((Spec.splitLines key).headD []).length < key.length) = true := decide_eq_true hlt
      simp only [hm, if_true, List.length_append, List.length_cons, List.length_nil]
      have hb : 0 + 1 + 1 + 1 + key.length + (0 + 1 + 1 + 1) ≥ ((Spec.splitLines key).headD []).length + 6 := by omega
      simp only [hb, if_true, andThen]
      rw [colon_ok]
      · exact ⟨_, _, rfl, ⟨rfl, rfl⟩⟩
      · simp only; omega
    by_cases hm : Spec.maxLen (Spec.splitLines key) ≤ LINE
    · rw [if_pos hm] at hdm
      by_cases ha : ((Spec.splitLines key).getLastD []).length + 3 < LINE ∧ ((Spec.splitLines key).headD []).length + 3 ≤ LINE
          ∧ tripleOk 39 key = true
      · rw [if_pos ha] at hdm
        have hdl3 : (analyze key false true LINE).delimLength = 3 := by rw [hdl, hdm]; rfl
        have hdd : (analyze key false true LINE).delim.headD 0 = 39 := by rw [hd, hdm]; rfl
        have hPt : keyFits key = true := by
          rw [hP]; simp only [Bool.and_eq_true, decide_eq_true_eq, Bool.or_eq_true]
          exact ⟨⟨⟨hm, ha.1⟩, ha.2.1⟩, Or.inl ha.2.2⟩
        rw [hPt]
        exact ⟨fun _ => tripleMany 39 hdl3 hdd ha.1, fun h => (by cases h)⟩
      rw [if_neg ha] at hdm
      by_cases hb : ((Spec.splitLines key).getLastD []).length + 3 < LINE ∧ ((Spec.splitLines key).headD []).length + 3 ≤ LINE
          ∧ tripleOk 34 key = true
      · rw [if_pos hb] at hdm
        have hdl3 : (analyze key false true LINE).delimLength = 3 := by rw [hdl, hdm]; rfl
        have hdd : (analyze key false true LINE).delim.headD 0 = 34 := by rw [hd, hdm]; rfl
        have hPt : keyFits key = true := by
          rw [hP]; simp only [Bool.and_eq_true, decide_eq_true_eq, Bool.or_eq_true]
          exact ⟨⟨⟨hm, hb.1⟩, hb.2.1⟩, Or.inr hb.2.2⟩
        rw [hPt]
        exact ⟨fun _ => tripleMany 34 hdl3 hdd hb.1, fun h => (by cases h)⟩
      rw [if_neg hb] at hdm
      have hdl2 : (analyze key false true LINE).delimLength = 2 := by rw [hdl, hdm]; rfl
      have hPf : keyFits key = false := by
        rw [hP]
        apply Bool.eq_false_iff.mpr
        intro h
        simp only [Bool.and_eq_true, decide_eq_true_eq, Bool.or_eq_true] at h
        obtain ⟨⟨⟨_, hl⟩, hf⟩, ht⟩ := h
        rcases ht with ht | ht
        · exact ha ⟨hl, hf, ht⟩
        · exact hb ⟨hl, hf, ht⟩
      rw [hPf]
      refine ⟨fun h => (by cases h), fun _ => ?_⟩
      unfold keyColonCore
      rw [Lemmas.WriterChar.writeChar_delim2_refused c key true false hv (by rw [hq, ht]; exact hdl2) (Or.inl rfl)]
      rfl
    · rw [if_neg hm] at hdm
      have hdl2 : (analyze key false true LINE).delimLength = 2 := by rw [hdl, hdm]; rfl
      have hPf : keyFits key = false := by rw [hP]; simp [hm]
      rw [hPf]
      refine ⟨fun h => (by cases h), fun _ => ?_⟩
      unfold keyColonCore
      rw [Lemmas.WriterChar.writeChar_delim2_refused c key true false hv (by rw [hq, ht]; exact hdl2) (Or.inl rfl)]
      rfl

/-- `write_char(key, no text field)` followed by `write_literal(":", CIF_NOWRAP)` -/
def keyColon (key : Str) (c : Ctx) : W :=
  andThen (writeChar c key true false) fun c3 =>
    match writeLiteral c3 [58] false with
    | none => .error ErrCodes.CIF_DISALLOWED_VALUE
    | some r => .ok r

/-- the result of `keyColon` from a column that is 0, or leaves 7 columns beyond the key, for a key of allowed characters (every
    key the API stores): success exactly for presented keys, CIF_DISALLOWED_VALUE otherwise -/
theorem keyColon_spec (key : Str) (c : Ctx) (h2 : c.isCif1 = false) (hdis : Model.hasDisallowed key = false)
    (hcol : c.lastColumn = 0 ∨ c.lastColumn + key.length + 7 ≤ LINE) :
    (keyPresented key = true → ∃ o c', keyColon key c = .ok (o, c') ∧ Same c c') ∧
    (keyPresented key = false → keyColon key c = .error ErrCodes.CIF_DISALLOWED_VALUE) := by
  by_cases h13 : (13 : CU) ∈ key
  · have hc : key.contains 13 = true := by simpa using h13
    have hP : keyPresented key = false := by unfold keyPresented; rw [hc]; rfl
    rw [hP]
    refine ⟨fun h => (by cases h), fun _ => ?_⟩
    unfold keyColon
    rw [Lemmas.WriterChar.writeChar_cr c key true false h13]
    rfl
  · have hc : key.contains 13 = false := by simpa using h13
    have hP : keyPresented key = keyFits key := by unfold keyPresented; rw [hc]; rfl
    have hcl : Lemmas.WriterChar.strClean c.isCif1 key = true := Lemmas.WriterChar.strClean_of _ key h13 (fun _ => hdis)
    have e : keyColon key c = keyColonCore key c := by
      unfold keyColon keyColonCore
      rw [Lemmas.WriterChar.writeChar_clean c key true false hcl]
    rw [hP, e]
    exact keyColonCore_spec key c h2 hcol

/-! ### the entry loop up to the colon, from ANY column -/

/-- what `write_table` writes in front of a key, and the context the key is written in: the optional line break (unless the key
    certainly fits with 8 columns to spare), `separate_values` off, the separating blank -/
def keyLead (key : Str) (c : Ctx) : Str × Ctx :=
  let p0 := if (key.length : Int) > (LINE : Int) - (c.lastColumn + 8) then writeNewline c else ([], c)
  let p1 := ensureSpaced { p0.2 with separateValues := false }
  (p0.1 ++ p1.1, p1.2)

/-- the part of one round of `write_table`'s loop that precedes the value: the optional line break, the separator, the key,
    the colon -/
def keyStep (key : Str) (c : Ctx) : W :=
  andThen (.ok (keyLead key c)) fun c2 => keyColon key c2

theorem andThen_assoc (a : W) (f g : Ctx → W) : andThen (andThen a f) g = andThen a (fun c => andThen (f c) g) := by
  unfold andThen
  cases a with
  | error e => rfl
  | ok r =>
    obtain ⟨o1, c1⟩ := r
    simp only
    cases f c1 with
    | error e => rfl
    | ok r2 =>
      obtain ⟨o2, c2⟩ := r2
      simp only
      cases g c2 with
      | error e => rfl
      | ok r3 => simp [List.append_assoc]

theorem writeEntries_cons (kn key : Str) (v : V) (rest : List (Str × Str × V)) (c : Ctx) :
    writeEntries ((kn, key, v) :: rest) c
      = andThen (keyStep key c) fun c4 => andThen (writeItem [] v c4) fun c5 => writeEntries rest c5 := by
  rw [writeEntries]
  unfold keyStep keyColon keyLead
  generalize (if (key.length : Int) > (LINE : Int) - (c.lastColumn + 8) then writeNewline c else ([], c)) = p0
  obtain ⟨o0, c0⟩ := p0
  simp only
  generalize ensureSpaced { c0 with separateValues := false } = p1
  obtain ⟨o1, c2⟩ := p1
  simp only [andThen_assoc]
  rfl

/-- after the optional line break and the separator the column is 0 or leaves 7 columns beyond the key -/
theorem keyLead_column (key : Str) (c : Ctx) :
    Same c (keyLead key c).2 ∧ ((keyLead key c).2.lastColumn = 0 ∨ (keyLead key c).2.lastColumn + key.length + 7 ≤ LINE) := by
  by_cases hnl : (key.length : Int) > (LINE : Int) - (c.lastColumn + 8)
  · have e : keyLead key c = ([10], { c with lastColumn := 0, separateValues := false }) := by
      unfold keyLead; rw [if_pos hnl]; simp [writeNewline, ensureSpaced]
    rw [e]
    exact ⟨⟨rfl, rfl⟩, Or.inl rfl⟩
  · have hroom : c.lastColumn + 8 + key.length ≤ LINE := by omega
    by_cases h0 : c.lastColumn = 0
    · have e : keyLead key c = ([], { c with separateValues := false }) := by
        unfold keyLead; rw [if_neg hnl]; simp [ensureSpaced, h0]
      rw [e]
      exact ⟨⟨rfl, rfl⟩, Or.inl h0⟩
    · have hfit : ¬ (1 + c.lastColumn > LINE) := by omega
      have e : keyLead key c = ([32], { c with separateValues := false, lastColumn := c.lastColumn + 1 }) := by
        unfold keyLead; rw [if_neg hnl]; simp [ensureSpaced, h0, writeLiteral, hfit]
      rw [e]
      exact ⟨⟨rfl, rfl⟩, Or.inr (by simp only; omega)⟩

/-! ### the invariant: a step succeeds exactly when `P`, and fails with CIF_DISALLOWED_VALUE otherwise -/

def Tot (R : Ctx → Ctx → Prop) (c : Ctx) (r : W) (P : Prop) : Prop :=
  (P → ∃ o c', r = .ok (o, c') ∧ R c c') ∧ (¬P → r = .error ErrCodes.CIF_DISALLOWED_VALUE)

theorem tot_andThen {R : Ctx → Ctx → Prop} (htr : ∀ a b c, R a b → R b c → R a c) {c : Ctx} {a : W} {f : Ctx → W}
    {P1 P2 : Prop} (ha : Tot R c a P1) (hf : ∀ c1, R c c1 → Tot R c1 (f c1) P2) : Tot R c (andThen a f) (P1 ∧ P2) := by
  constructor
  · rintro ⟨h1, h2⟩
    obtain ⟨o1, c1, e1, r1⟩ := ha.1 h1
    obtain ⟨o2, c2, e2, r2⟩ := (hf c1 r1).1 h2
    exact ⟨o1 ++ o2, c2, by simp [andThen, e1, e2], htr _ _ _ r1 r2⟩
  · intro hn
    by_cases h1 : P1
    · obtain ⟨o1, c1, e1, r1⟩ := ha.1 h1
      have e2 := (hf c1 r1).2 (fun h2 => hn ⟨h1, h2⟩)
      simp [andThen, e1, e2]
    · have e1 := ha.2 h1
      simp [andThen, e1]

theorem Tot.iff {R : Ctx → Ctx → Prop} {c : Ctx} {r : W} {P P' : Prop} (h : Tot R c r P) (hp : P' ↔ P) : Tot R c r P' :=
  ⟨fun a => h.1 (hp.mp a), fun a => h.2 (fun x => a (hp.mpr x))⟩

theorem Tot.rel {R R' : Ctx → Ctx → Prop} {c0 c : Ctx} {r : W} {P : Prop} (h : Tot R c0 r P) (hr : ∀ b, R c0 b → R' c b) :
    Tot R' c r P := by
  refine ⟨fun a => ?_, h.2⟩
  obtain ⟨o, c', e, r⟩ := h.1 a
  exact ⟨o, c', e, hr _ r⟩

theorem tot_ok {R : Ctx → Ctx → Prop} {c : Ctx} {o : Str} {c' : Ctx} (hr : R c c') : Tot R c (.ok (o, c')) True :=
  ⟨fun _ => ⟨o, c', rfl, hr⟩, fun h => (h trivial).elim⟩

theorem tot_of_good {c : Ctx} {r : W} (h : Good c r False) : Tot Same c r True := by
  rcases h with ⟨o, c', e, hs⟩ | ⟨_, hf⟩
  · rw [e]; exact tot_ok hs
  · exact hf.elim

/-- a step that only emits units and sets the context, followed by `f` -/
theorem tot_andThen_ok {R : Ctx → Ctx → Prop} {c0 : Ctx} (o : Str) (f : Ctx → W) {P : Prop} (h : Tot R c0 (f c0) P) :
    Tot R c0 (andThen (.ok (o, c0)) f) P := by
  constructor
  · intro hp
    obtain ⟨o2, c2, e2, r⟩ := h.1 hp
    exact ⟨o ++ o2, c2, by simp [andThen, e2], r⟩
  · intro hn
    simp [andThen, h.2 hn]

/-- success and refusal exclude each other, and nothing else happens -/
theorem Tot.ok_iff {R : Ctx → Ctx → Prop} {c : Ctx} {r : W} {P : Prop} (h : Tot R c r P) :
    ((∃ p, r = .ok p) ↔ P) ∧ (r = .error ErrCodes.CIF_DISALLOWED_VALUE ↔ ¬P) := by
  refine ⟨⟨fun ⟨p, e⟩ => ?_, fun hp => ?_⟩, ⟨fun e hp => ?_, h.2⟩⟩
  · by_cases hp : P
    · exact hp
    · rw [h.2 hp] at e; cases e
  · obtain ⟨o, c', e, _⟩ := h.1 hp
    exact ⟨_, e⟩
  · obtain ⟨o, c', e', _⟩ := h.1 hp
    rw [e'] at e; cases e

theorem tot_keyStep (key : Str) (c : Ctx) (h2 : c.isCif1 = false) (hdis : Model.hasDisallowed key = false) :
    Tot Same c (keyStep key c) (keyPresented key = true) := by
  obtain ⟨hs, hcol⟩ := keyLead_column key c
  unfold keyStep
  generalize keyLead key c = p1 at hs hcol
  have h22 : p1.2.isCif1 = false := by rw [hs.isCif1]; exact h2
  obtain ⟨ha, hb⟩ := keyColon_spec key p1.2 h22 hdis hcol
  have T : Tot Same p1.2 (keyColon key p1.2) (keyPresented key = true) := by
    refine ⟨ha, fun hn => hb ?_⟩
    cases hk : keyPresented key with
    | true => exact absurd hk hn
    | false => rfl
  exact (tot_andThen_ok p1.1 (fun c2 => keyColon key c2) T).rel (fun b hb => hs.trans hb)

/-! ### values: every key of the value is presented -/

mutual
  /-- every table key in the value (at any depth) is one `write_table` writes -/
  def valueKP : V → Bool
    | .lst vs => elemsKP vs
    | .tbl es => entriesKP es
    | _ => true
  def elemsKP : List V → Bool
    | [] => true
    | v :: r => valueKP v && elemsKP r
  def entriesKP : List (Str × Str × V) → Bool
    | [] => true
    | (_, key, v) :: r => keyPresented key && valueKP v && entriesKP r
end

theorem tot_bracket (c2 c2' : Ctx) (hv : c2'.version = c2.version) (inner : W) (t : Str) (P : Prop)
    (h : Tot Same c2' inner P) :
    Tot Same c2 (andThen inner fun c3 => andThen (literalOrError c3 t true) fun c4 =>
      .ok ([], { c4 with separateValues := c2.separateValues, writeItemNames := c2.writeItemNames })) P := by
  constructor
  · intro hp
    obtain ⟨o3, c3, e3, hs3⟩ := h.1 hp
    obtain ⟨r4, hr4⟩ := writeLiteral_wrap_some c3 t
    have hs4 := writeLiteral_same c3 t true r4 hr4
    refine ⟨o3 ++ (r4.1 ++ []), { r4.2 with separateValues := c2.separateValues, writeItemNames := c2.writeItemNames },
      by simp only [andThen, e3, literalOrError, hr4], ?_⟩
    exact ⟨(by simp only []; rw [hs4.1, hs3.1, hv]), rfl⟩
  · intro hn
    simp [andThen, h.2 hn]

mutual
  theorem tot_item (n : Str) (v : V) (c : Ctx) (h2 : c.isCif1 = false) (hn : c.writeItemNames = true → nameOk n)
      (hv : valueOk v = true) (hcl : valueClean false v = true) : Tot Same c (writeItem n v c) (valueKP v = true) := by
    unfold writeItem
    have hhead := tot_of_good (writeItemHead_good c n h2 hn False)
    refine (tot_andThen same_trans hhead (P2 := valueKP v = true) ?_).iff (by simp)
    intro c1 hs1
    have h21 : c1.isCif1 = false := by rw [hs1.isCif1]; exact h2
    match v, hv, hcl with
    | .chr q t, _, hcl =>
      exact (tot_of_good (writeChar_value_good c1 t q h21 (by simpa [valueClean] using hcl) False)).iff (by simp [valueKP])
    | .numb q t _ _ _ _, hv, hcl =>
      refine (tot_of_good (writeNumb_good c1 t q h21 ?_ (by simpa [valueClean] using hcl) False)).iff (by simp [valueKP])
      intro e; subst e; simp [valueOk] at hv
    | .na, _, _ => exact (tot_of_good (literalOrError_wrap_good _ _ False)).iff (by simp [valueKP])
    | .unk, _, _ => exact (tot_of_good (literalOrError_wrap_good _ _ False)).iff (by simp [valueKP])
    | .lst vs, hv, hcl =>
      simp only [h21, Bool.false_eq_true, if_false]
      refine (tot_andThen same_trans (tot_of_good (literalOrError_wrap_good c1 [91] False)) (P2 := elemsKP vs = true) ?_).iff
        (by simp [valueKP])
      intro c2 hs2
      have hE := tot_elems vs { c2 with writeItemNames := false, separateValues := true }
        (by have := hs2.isCif1; simp only [Ctx.isCif1] at this h21 ⊢; rw [this]; exact h21) rfl (by simpa [valueOk] using hv)
        (by simpa [valueClean] using hcl)
      exact tot_bracket c2 { c2 with writeItemNames := false, separateValues := true } rfl _ [32, 93] _ hE
    | .tbl es, hv, hcl =>
      simp only [h21, Bool.false_eq_true, if_false]
      refine (tot_andThen same_trans (tot_of_good (literalOrError_wrap_good c1 [123] False)) (P2 := entriesKP es = true) ?_).iff
        (by simp [valueKP])
      intro c2 hs2
      have hE := tot_entries es { c2 with writeItemNames := false }
        (by have := hs2.isCif1; simp only [Ctx.isCif1] at this h21 ⊢; rw [this]; exact h21) rfl (by simpa [valueOk] using hv)
        (by simpa [valueClean] using hcl)
      exact tot_bracket c2 { c2 with writeItemNames := false } rfl _ [32, 125] _ hE
  theorem tot_elems (vs : List V) (c : Ctx) (h2 : c.isCif1 = false) (hnm : c.writeItemNames = false)
      (hv : elemsOk vs = true) (hcl : elemsClean false vs = true) : Tot Same c (writeElems vs c) (elemsKP vs = true) := by
    match vs, hv, hcl with
    | [], _, _ => unfold writeElems; exact (tot_ok (Same.refl c)).iff (by simp [elemsKP])
    | v :: rest, hv, hcl =>
      unfold writeElems
      simp only [elemsOk, Bool.and_eq_true] at hv
      simp only [elemsClean, Bool.and_eq_true] at hcl
      refine (tot_andThen same_trans (tot_item [] v c h2 (by intro h; rw [hnm] at h; cases h) hv.1 hcl.1)
        (P2 := elemsKP rest = true) ?_).iff (by simp [elemsKP])
      intro c1 hs1
      exact tot_elems rest c1 (by rw [hs1.isCif1]; exact h2) (by rw [hs1.names]; exact hnm) hv.2 hcl.2
  theorem tot_entries (es : List (Str × Str × V)) (c : Ctx) (h2 : c.isCif1 = false) (hnm : c.writeItemNames = false)
      (hv : entriesOk es = true) (hcl : entriesClean false es = true) : Tot Same c (writeEntries es c) (entriesKP es = true) := by
    match es, hv, hcl with
    | [], _, _ => unfold writeEntries; exact (tot_ok (Same.refl c)).iff (by simp [entriesKP])
    | (kn, key, v) :: rest, hv, hcl =>
      rw [writeEntries_cons]
      simp only [entriesOk, Bool.and_eq_true] at hv
      simp only [entriesClean, Bool.and_eq_true] at hcl
      refine (tot_andThen same_trans (tot_keyStep key c h2 (Lemmas.WriterChar.strClean_allowed key hcl.1.1))
        (P2 := valueKP v = true ∧ entriesKP rest = true) ?_).iff
        (by simp [entriesKP, and_assoc])
      intro c4 hs4
      have h24 : c4.isCif1 = false := by rw [hs4.isCif1]; exact h2
      have hnm4 : c4.writeItemNames = false := by rw [hs4.names]; exact hnm
      refine tot_andThen same_trans (tot_item [] v c4 h24 (by intro h; rw [hnm4] at h; cases h) hv.1 hcl.1.2) ?_
      intro c5 hs5
      exact tot_entries rest c5 (by rw [hs5.isCif1]; exact h24) (by rw [hs5.names]; exact hnm4) hv.2 hcl.2
end

/-! ### items, packets, loops, containers, the CIF -/

def itemsKP : List (Str × V) → Bool
  | [] => true
  | (_, v) :: r => valueKP v && itemsKP r

def packetsKP : List (List (Str × V)) → Bool
  | [] => true
  | p :: r => itemsKP p && packetsKP r

def loopsKP : List WLoop → Bool
  | [] => true
  | l :: r => packetsKP l.packets && loopsKP r

mutual
  /-- every table key in the container (its save frames included) is one `write_table` writes -/
  def containerKP : WContainer → Bool
    | .mk _ frames loops => containersKP frames && loopsKP loops
  def containersKP : List WContainer → Bool
    | [] => true
    | k :: r => containerKP k && containersKP r
end

theorem tot_items : ∀ (p : List (Str × V)) (c : Ctx), c.isCif1 = false → itemsOk c.writeItemNames p → itemsClean false p →
    Tot Same c (writeItems p c) (itemsKP p = true) := by
  intro p
  induction p with
  | nil => intro c _ _ _; exact (tot_ok (Same.refl c)).iff (by simp [itemsKP])
  | cons nv rest ih =>
    intro c h2 hok hcl
    obtain ⟨n, v⟩ := nv
    simp only [writeItems]
    have h1 := hok (n, v) List.mem_cons_self
    refine (tot_andThen same_trans (tot_item n v c h2 h1.2 h1.1 (hcl (n, v) List.mem_cons_self)) (P2 := itemsKP rest = true) ?_).iff
      (by simp [itemsKP])
    intro c1 hs1
    exact ih c1 (by rw [hs1.isCif1]; exact h2) (by rw [hs1.names]; exact fun x hx => hok x (List.mem_cons_of_mem _ hx))
      (fun x hx => hcl x (List.mem_cons_of_mem _ hx))

theorem tot_packets : ∀ (ps : List (List (Str × V))) (c : Ctx), c.isCif1 = false → (∀ p ∈ ps, itemsOk c.writeItemNames p) →
    (∀ p ∈ ps, itemsClean false p) → Tot Same c (writePackets ps c) (packetsKP ps = true) := by
  intro ps
  induction ps with
  | nil => intro c _ _ _; exact (tot_ok (Same.refl c)).iff (by simp [packetsKP])
  | cons p rest ih =>
    intro c h2 hok hcl
    simp only [writePackets, writePacket]
    have hp : Tot Same c (andThen (writeItems p c) fun c1 => .ok (writeNewline c1)) (itemsKP p = true ∧ True) :=
      tot_andThen same_trans (tot_items p c h2 (hok p List.mem_cons_self) (hcl p List.mem_cons_self))
        (fun c1 _ => tot_ok (writeNewline_same c1))
    refine (tot_andThen same_trans hp (P2 := packetsKP rest = true) ?_).iff (by simp [packetsKP])
    intro c1 hs1
    exact ih c1 (by rw [hs1.isCif1]; exact h2) (by rw [hs1.names]; exact fun x hx => hok x (List.mem_cons_of_mem _ hx))
      (fun x hx => hcl x (List.mem_cons_of_mem _ hx))

theorem tot_loop (l : WLoop) (c : Ctx) (h2 : c.isCif1 = false) (hok : loopOk l) (hcl : loopClean false l) :
    Tot SameV c (writeLoop l c) (packetsKP l.packets = true) := by
  unfold writeLoop
  have hne : l.packets.isEmpty = false := by
    cases hp : l.packets with
    | nil => exact absurd hp hok.1
    | cons a b => rfl
  have key : ∀ (c1 : Ctx), c1.isCif1 = false → c1.writeItemNames = isScalars l.category →
      Tot Same c1 ((fun c1 => if l.packets.isEmpty then (.error ErrCodes.CIF_EMPTY_LOOP : W)
          else andThen (writePackets l.packets c1) fun c2 => .ok (writeNewline c2)) c1) (packetsKP l.packets = true) := by
    intro c1 hc1 hn
    simp only [hne, Bool.false_eq_true, if_false]
    have hp := tot_packets l.packets c1 hc1 (by rw [hn]; exact hok.2) hcl
    exact (tot_andThen same_trans hp (fun c2 _ => tot_ok (R := Same) (o := (writeNewline c2).1) (writeNewline_same c2))).iff (by simp)
  cases hs : isScalars l.category with
  | true =>
    simp only [hs, if_true, writeNewline]
    have hk := key { c with lastColumn := 0, writeItemNames := true } (by simpa [Ctx.isCif1] using h2) (by rw [hs])
    have := tot_andThen_ok [10] (fun c1 => if l.packets.isEmpty then (.error ErrCodes.CIF_EMPTY_LOOP : W)
          else andThen (writePackets l.packets c1) fun c2 => .ok (writeNewline c2)) hk
    exact this.rel (R' := SameV) (c := c) (fun b hb => hb.1)
  | false =>
    simp only [hs, Bool.false_eq_true, if_false]
    obtain ⟨oh, ch, hh, hsh⟩ := headerNames_good l.header { c with writeItemNames := false, lastColumn := 0 }
      (by simpa [Ctx.isCif1] using h2)
    have hk := key ch (by rw [hsh.isCif1]; simpa [Ctx.isCif1] using h2) (by rw [hsh.2, hs])
    have hstart : andThen (.ok (LOOP_HEAD, { c with writeItemNames := false, lastColumn := 0 })) (fun c1 => writeHeaderNames l.header c1)
        = .ok (LOOP_HEAD ++ oh, ch) := by simp [andThen, hh]
    rw [hstart]
    have := tot_andThen_ok (LOOP_HEAD ++ oh) (fun c1 => if l.packets.isEmpty then (.error ErrCodes.CIF_EMPTY_LOOP : W)
          else andThen (writePackets l.packets c1) fun c2 => .ok (writeNewline c2)) hk
    exact this.rel (R' := SameV) (c := c) (fun b hb => by unfold SameV; rw [hb.1, hsh.1])

theorem tot_loops : ∀ (ls : List WLoop) (c : Ctx), c.isCif1 = false → (∀ l ∈ ls, loopOk l) → (∀ l ∈ ls, loopClean false l) →
    Tot SameV c (writeLoops ls c) (loopsKP ls = true) := by
  intro ls
  induction ls with
  | nil => intro c _ _ _; exact (tot_ok (R := SameV) rfl).iff (by simp [loopsKP])
  | cons l rest ih =>
    intro c h2 hok hcl
    simp only [writeLoops]
    refine (tot_andThen sameV_trans (tot_loop l c h2 (hok l List.mem_cons_self) (hcl l List.mem_cons_self))
      (P2 := loopsKP rest = true) ?_).iff (by simp [loopsKP])
    intro c1 hv
    exact ih c1 (by rw [hv.isCif1]; exact h2) (fun x hx => hok x (List.mem_cons_of_mem _ hx)) (fun x hx => hcl x (List.mem_cons_of_mem _ hx))

mutual
  theorem tot_container (k : WContainer) (c : Ctx) (h2 : c.isCif1 = false) (hok : containerOk k) (hcl : containerClean false k) :
      Tot SameV c (writeContainer k c) (containerKP k = true) := by
    match k, hok, hcl with
    | .mk code frames loops, hok, hcl =>
      simp only [containerOk] at hok
      simp only [containerClean] at hcl
      unfold writeContainer
      simp only [h2, Bool.false_eq_true, false_and, if_false]
      have hc0 : ({ c with lastColumn := 0, depth := c.depth + 1 } : Ctx).isCif1 = false := by simpa [Ctx.isCif1] using h2
      let K : Ctx → W := fun c1 =>
          andThen (writeContainers frames c1) fun c2 =>
            andThen (writeLoops loops c2) fun c3 =>
              if ({ c3 with depth := c3.depth - 1, lastColumn := 0 } : Ctx).depth = 0
              then .ok (writeNewline { c3 with depth := c3.depth - 1, lastColumn := 0 })
              else .ok (FRAME_END, { c3 with depth := c3.depth - 1, lastColumn := 0 })
      have hbody : Tot SameV { c with lastColumn := 0, depth := c.depth + 1 } (K { c with lastColumn := 0, depth := c.depth + 1 })
          (containersKP frames = true ∧ loopsKP loops = true ∧ True) := by
        apply tot_andThen sameV_trans (tot_containers frames _ hc0 hok.1 hcl.1)
        intro c2 hv2
        apply tot_andThen sameV_trans (tot_loops loops c2 (by rw [hv2.isCif1]; exact hc0) hok.2 hcl.2)
        intro c3 hv3
        split
        · exact tot_ok rfl
        · exact tot_ok rfl
      have := tot_andThen_ok ((if c.depth = 0 then BLOCK_HEAD else FRAME_HEAD) ++ code ++ [10]) K hbody
      exact (this.rel (R' := SameV) (c := c) (fun b hb => hb)).iff (by simp [containerKP])
  theorem tot_containers (ks : List WContainer) (c : Ctx) (h2 : c.isCif1 = false) (hok : containersOk ks)
      (hcl : containersClean false ks) : Tot SameV c (writeContainers ks c) (containersKP ks = true) := by
    match ks, hok, hcl with
    | [], _, _ => unfold writeContainers; exact (tot_ok (R := SameV) rfl).iff (by simp [containersKP])
    | k :: rest, hok, hcl =>
      simp only [containersOk] at hok
      simp only [containersClean] at hcl
      unfold writeContainers
      refine (tot_andThen sameV_trans (tot_container k c h2 hok.1 hcl.1) (P2 := containersKP rest = true) ?_).iff
        (by simp [containersKP])
      intro c1 hv
      exact tot_containers rest c1 (by rw [hv.isCif1]; exact h2) hok.2 hcl.2
end

/-- `cif_write` in CIF 2.0 mode: success exactly when every table key is presented, CIF_DISALLOWED_VALUE otherwise -/
theorem tot_writeCif (cif : WCif) (hok : containersOk cif) (hcl : containersClean false cif) :
    ((∃ out, writeCif 0 cif = .ok out) ↔ containersKP cif = true) ∧
    (writeCif 0 cif = .error ErrCodes.CIF_DISALLOWED_VALUE ↔ containersKP cif = false) := by
  have h2 : ({ version := 0 } : Ctx).isCif1 = false := rfl
  have hbody : Tot SameV { version := 0 } ((fun c1 => andThen (writeContainers cif c1) fun c2 => (.ok (writeNewline c2) : W)) { version := 0 })
      (containersKP cif = true ∧ True) :=
    tot_andThen sameV_trans (tot_containers cif _ h2 hok hcl) (fun c2 _ => tot_ok rfl)
  have L := ((tot_andThen_ok MAGIC20 (fun c1 => andThen (writeContainers cif c1) fun c2 => (.ok (writeNewline c2) : W)) hbody).iff
    (P' := containersKP cif = true) (by simp)).ok_iff
  unfold writeCif
  simp only [show ¬ ((0 : Nat) = 1) by decide, if_false, h2, Bool.false_eq_true]
  cases hr : (andThen (.ok (MAGIC20, ({ version := 0 } : Ctx))) fun c1 =>
      andThen (writeContainers cif c1) fun c2 => (.ok (writeNewline c2) : W)) with
  | error e =>
    rw [hr] at L
    constructor
    · constructor
      · rintro ⟨out, h⟩; cases h
      · intro hp; obtain ⟨p, e'⟩ := L.1.mpr hp; cases e'
    · constructor
      · intro h
        simp only [Except.error.injEq] at h
        subst h
        have := L.2.mp rfl
        simpa using this
      · intro hn
        have := L.2.mpr (by simp [hn])
        simp only [Except.error.injEq] at this ⊢
        exact this
  | ok p =>
    rw [hr] at L
    obtain ⟨o, c'⟩ := p
    have hp : containersKP cif = true := L.1.mp ⟨_, rfl⟩
    constructor
    · exact ⟨fun _ => hp, fun _ => ⟨o, rfl⟩⟩
    · constructor
      · intro h; cases h
      · intro hn; rw [hp] at hn; cases hn

/-! ### the keys met by the walk, in order -/

mutual
  /-- the table keys of a value in the order `write_table` meets them (a key before the keys inside its value) -/
  def valueKeys : V → List Str
    | .lst vs => elemsKeys vs
    | .tbl es => entriesKeys es
    | _ => []
  def elemsKeys : List V → List Str
    | [] => []
    | v :: r => valueKeys v ++ elemsKeys r
  def entriesKeys : List (Str × Str × V) → List Str
    | [] => []
    | (_, key, v) :: r => key :: (valueKeys v ++ entriesKeys r)
end

def itemsKeys : List (Str × V) → List Str
  | [] => []
  | (_, v) :: r => valueKeys v ++ itemsKeys r

def packetsKeys : List (List (Str × V)) → List Str
  | [] => []
  | p :: r => itemsKeys p ++ packetsKeys r

def loopsKeys : List WLoop → List Str
  | [] => []
  | l :: r => packetsKeys l.packets ++ loopsKeys r

mutual
  def containerKeys : WContainer → List Str
    | .mk _ frames loops => containersKeys frames ++ loopsKeys loops
  /-- all table keys of the CIF in the order the walk (frames first, then loops, packets, items) hands them to `write_table` -/
  def containersKeys : List WContainer → List Str
    | [] => []
    | k :: r => containerKeys k ++ containersKeys r
end

mutual
  theorem valueKP_keys : ∀ (v : V), valueKP v = (valueKeys v).all keyPresented
    | .lst vs => by simp only [valueKP, valueKeys]; exact elemsKP_keys vs
    | .tbl es => by simp only [valueKP, valueKeys]; exact entriesKP_keys es
    | .chr _ _ => rfl
    | .numb _ _ _ _ _ _ => rfl
    | .na => rfl
    | .unk => rfl
  theorem elemsKP_keys : ∀ (vs : List V), elemsKP vs = (elemsKeys vs).all keyPresented
    | [] => rfl
    | v :: r => by simp only [elemsKP, elemsKeys, List.all_append]; rw [valueKP_keys v, elemsKP_keys r]
  theorem entriesKP_keys : ∀ (es : List (Str × Str × V)), entriesKP es = (entriesKeys es).all keyPresented
    | [] => rfl
    | (_, key, v) :: r => by
      simp only [entriesKP, entriesKeys, List.all_cons, List.all_append]; rw [valueKP_keys v, entriesKP_keys r, Bool.and_assoc]
end

theorem itemsKP_keys : ∀ (p : List (Str × V)), itemsKP p = (itemsKeys p).all keyPresented
  | [] => rfl
  | (_, v) :: r => by simp only [itemsKP, itemsKeys, List.all_append]; rw [valueKP_keys v, itemsKP_keys r]

theorem packetsKP_keys : ∀ (ps : List (List (Str × V))), packetsKP ps = (packetsKeys ps).all keyPresented
  | [] => rfl
  | p :: r => by simp only [packetsKP, packetsKeys, List.all_append]; rw [itemsKP_keys p, packetsKP_keys r]

theorem loopsKP_keys : ∀ (ls : List WLoop), loopsKP ls = (loopsKeys ls).all keyPresented
  | [] => rfl
  | l :: r => by simp only [loopsKP, loopsKeys, List.all_append]; rw [packetsKP_keys l.packets, loopsKP_keys r]

mutual
  theorem containerKP_keys : ∀ (k : WContainer), containerKP k = (containerKeys k).all keyPresented
    | .mk _ frames loops => by
      simp only [containerKP, containerKeys, List.all_append]; rw [containersKP_keys frames, loopsKP_keys loops]
  theorem containersKP_keys : ∀ (ks : List WContainer), containersKP ks = (containersKeys ks).all keyPresented
    | [] => rfl
    | k :: r => by simp only [containersKP, containersKeys, List.all_append]; rw [containerKP_keys k, containersKP_keys r]
end

end CifModel.Lemmas.WriterKeys
